/-
  Driver.lean — line-protocol executable of the model.
  usage: driver <universe.txt> < transcript
  The transcript is written by the Go harness: one operation per line together with what the
  real implementation returned (`... -> <go result>`).  For every line the driver computes the
  model's result, canonicalises both sides and prints `DIFF ...` when they differ.
-/
import Frugal.Proto
import Frugal.Generated
import Frugal.Alloc
import Frugal.Bitset
import Frugal.DescMap
import Frugal.Norm
import Frugal.BuildCache
import Frugal.Reference
import Frugal.Proofs.NormFacts
import Frugal.Proofs.ClearNocopy2
import Frugal.Proofs.Holders
import Frugal.Proofs.ReadNormH
open Frugal Frugal.Proto

structure Ctx where
  U : Universe
  R : List (Option SDesc)
  S : Schema
  P : Params
  boom : List Nat := []   -- structs whose InitDefault panics while the harness says so (`init` = 2)

def splitWs (s : String) : List String :=
  (s.splitOn " ").filter (· ≠ "")

/-- universe lines:
    struct <sid> <name|-> <init>
    field <sid> <goName> <exp> <emb> <goTy> <taghex|-> <dflt|->       -/
def parseUniverse (lines : Array String) : Universe := Id.run do
  let mut structs : Array GoStruct := #[]
  for ln in lines do
    match splitWs ln with
    | ["struct", _sid, name, init] =>
      structs := structs.push { name := if name == "-" then "" else name, fields := [], hasInit := init != "0" }
    | ["field", sid, gname, exp, emb, gty, tagh, dflt] =>
      let i := sid.toNat!
      match parseGoTy gty.toList with
      | some (t, []) =>
        let tagBytes := unhex tagh
        let tag := String.ofList (tagBytes.map fun b => Char.ofNat b.toNat)
        let f : GoField := { name := gname, exported := exp == "1", anonymous := emb == "1", ty := t,
                             tag := tag, dflt := if dflt == "-" then none else parseValStr dflt }
        if h : i < structs.size then
          let gs := structs[i]
          structs := structs.set i { gs with fields := gs.fields ++ [f] }
      | _ => pure ()
    | _ => pure ()
  return structs.toList

/-- the structs marked `struct <sid> <name> 2`: their InitDefault fails on demand (`useboom`) -/
def parseBoom (lines : Array String) : List Nat := Id.run do
  let mut out : List Nat := []
  for ln in lines do
    match splitWs ln with
    | ["struct", sid, _, "2"] => out := sid.toNat! :: out
    | _ => pure ()
  return out

def errClass : ErrKind → String
  | .required n => "required:" ++ n
  | .depth => "depth"
  | _ => "err"

def outcomeStr : Outcome (Val × Nat) → String
  | .ok (v, n) => "ok " ++ toString n ++ " " ++ showVal v
  | .err k => errClass k
  | .panic .bounds => "panic:bounds"
  | .panic .nilDeref => "panic:nilderef"
  | .panic .other => "panic:other"

/-- re-canonicalise a Go-side result string `ok <n> <val>` -/
def canonGoDec (toks : List String) : String :=
  match toks with
  | ["ok", n, v] =>
    match parseValStr v with
    | some vv => "ok " ++ n ++ " " ++ showVal vv
    | none => "unparsable:" ++ v
  | other => " ".intercalate other

/-- struct ids reachable from `sid` through field types -/
def reachFrom (S : Schema) : Nat → List Nat → List Nat → List Nat
  | 0, _, seen => seen
  | _, [], seen => seen
  | fuel + 1, sid :: todo, seen =>
    if seen.contains sid then reachFrom S fuel todo seen
    else reachFrom S fuel ((S.get sid).fields.flatMap (·.ty.structRefs) ++ todo) (sid :: seen)

def reachOf (S : Schema) (sid : Nat) : List Nat :=
  reachFrom S (S.length * S.length + S.length + 1) [sid] []

/-- the schema restricted to the types a value of struct `sid` can contain -/
def subSchema (S : Schema) (r : List Nat) : Schema :=
  (List.range S.length).map fun j => if r.contains j then S.get j else { fields := [] }

/-- `S'.ok && S'.rtSideB` for `S' = subSchema S r`, evaluated on the reachable structs only (the
    other descriptors of `S'` are empty and satisfy every condition trivially) -/
def sideOn (S' : Schema) (r : List Nat) : Option String :=
  if !(r.all fun j => (S'.get j).ok) then some "schema-not-ok"
  else if !(r.all fun j =>
      distinctIdsB (S'.get j).fields &&
      ((S'.get j).fields.all fun f => !f.assigned || match f.dflt with
        | some d => hasTy S' f.ty d
        | none => true) &&
      hasTy S' (.strct j) (zeroVal S' S'.length (.strct j))) then some "schema-side-condition"
  else none

/- C01's "enum values within 32 bits": an enum is written as its low 32 bits and read back sign-extended;
   beyond that two distinct map keys can become one, and which entry survives is Go's map order -/
mutual
def enums32 (S : Schema) : Ty → Val → Bool
  | .base .enum, .sc n => n < 2147483648 || n ≥ 18446744071562067968
  | .ptr e, .ptr v => enums32 S e v
  | .list _ e, .lst _ xs => enums32List S e xs
  | .map k v, .mp _ es => enums32Entries S k v es
  | .strct sid, .st fs _ => enums32Fields S (S.get sid).fields fs
  | _, _ => true
def enums32List (S : Schema) (e : Ty) : List Val → Bool
  | [] => true
  | x :: r => enums32 S e x && enums32List S e r
def enums32Entries (S : Schema) (k v : Ty) : List (Val × Val) → Bool
  | [] => true
  | (a, b) :: r => enums32 S k a && enums32 S v b && enums32Entries S k v r
def enums32Fields (S : Schema) : List Field → List Val → Bool
  | f :: fr, x :: xr => enums32 S f.ty x && enums32Fields S fr xr
  | _, _ => true
end

/-- hypotheses of `Frugal.C01.roundtrip_with_top_holder` on the holder: it is the serialisation of
    well-formed fields none of which the struct recognises, skippable within 64 levels -/
def topHolderOK (S : Schema) (i : Nat) (h : Bytes) : Bool :=
  let us := holderFields h
  serFields us == h && wfFields us &&
    us.all fun p => (lookupKnown (S.get i) p.1 p.2.tag).isNone && decide (skipNeed p.2 ≤ 64)

/-- C01 (`Frugal.C01.roundtrip` / `roundtrip_with_nested_holders`): the first of its hypotheses this (schema, value, destination)
    does not meet, if any -/
def rtWhy (P : Params) (S : Schema) (r : List Nat) (i : Nat) (vv dv : Val) : Option String :=
  match vv with
  | .st xs h =>
    match sideOn S r with
    | some w => some w
    | none =>
    if !hasTy S (.strct i) vv then some "value-not-typed"
    else if !hasTy S (.strct i) dv then some "dest-not-typed"
    else if !fitH vv then some "size-or-holder-not-a-field-list"
    else if !unkOK P S (.strct i) vv then some "holder-not-unrecognised-fields"
    else if !enums32 S (.strct i) vv then some "enum-beyond-32-bits"
    else if !rtOK S (.strct i) vv then some "nil-struct-with-required-fields"
    else if !decide (depth (toWireH S (.strct i) vv) ≤ 511) then some "depth"
    else none
  | _ => some "not-a-struct"

def handle (ctx : Ctx) (ln : String) : Option String :=
  match ln.splitOn " -> " with
  | [lhs, rhs] =>
    let go := splitWs rhs
    match splitWs lhs with
    | ["resolve", sid] =>
      let i := sid.toNat!
      let acc := (useType ctx.R i {}).1   -- = accepted ctx.U i (ctx.R = resolveAll ctx.U, computed once)
      let own := match ctx.R.getD i none with
        | some sd =>
          -- a struct without schema fields prints an empty field list: no trailing blank
          let fsStr := fieldsString ctx.U sd
          if fsStr.isEmpty then "1" else "1 " ++ fsStr
        | none => "0"
      let exp := (if acc then "acc=1" else "acc=0") ++ " own=" ++ own
      let got := " ".intercalate go
      if exp == got then none else some s!"DIFF resolve sid={sid} model=[{exp}] go=[{got}]"
    | ["size", sid, v] =>
      match parseValStr v with
      | none => some s!"BADLINE {ln}"
      | some vv =>
        let n := sizeM ctx.P ctx.S sid.toNat! vv
        let exp := toString n
        if go == [exp] then none else some s!"DIFF size sid={sid} model={exp} go={rhs} val={v}"
    | "enc" :: sid :: v :: _ =>
      match parseValStr v with
      | none => some s!"BADLINE {ln}"
      | some vv =>
        let mb := appendM ctx.P ctx.S sid.toNat! (erase vv)
        let rb := refEncStruct ctx.S sid.toNat! (erase vv)
        match go with
        | [h] =>
          let gb := unhex h
          if mb.length ≠ rb.length then some s!"MODEL-INCONSISTENT enc sid={sid} val={v}"
          else if gb == mb then none
          else match canonBytes gb, canonBytes mb with
            | some a, some b =>
              if a == b && gb.length == mb.length then none
              else some s!"DIFF enc sid={sid} model={hexOf mb} go={h} val={v}"
            | _, _ => some s!"DIFF enc(unparsable) sid={sid} model={hexOf mb} go={h} val={v}"
        | _ => some s!"DIFF enc sid={sid} model={hexOf mb} go={rhs} val={v}"
    | ["dec", sid, inp, dest] =>
      match parseValStr dest with
      | none => some s!"BADLINE {ln}"
      | some dv =>
        let res := decodeM ctx.P ctx.S sid.toNat! (unhex inp) dv
        let exp := outcomeStr res
        let got := canonGoDec go
        if exp == got then none else some s!"DIFF dec sid={sid} in={inp} dest={dest} model=[{exp}] go=[{got}]"
    | ["rt", sid, v, dest] =>
      match parseValStr v, parseValStr dest with
      | some vv, some dv =>
        let i := sid.toNat!
        let r := reachOf ctx.S i
        let S' := subSchema ctx.S r
        match rtWhy ctx.P S' r i vv dv with
        | some why => some ("SKIP rt:" ++ why)
        | none =>
          -- retained bytes come back byte for byte at every nesting level (roundtrip_with_nested_holders)
          let nf := normTopH S' i vv dv
          let exp := "ok " ++ toString (appendM ctx.P S' i vv).length ++ " " ++ showVal nf
          -- `nocopy` strings come back as views of the input: their provenance is forgotten here
          -- (C01.roundtrip_with_nocopy); where the bytes live is checked on the `dec` line (C14)
          let got := match go with
            | ["ok", n, v] => match parseValStr v with
              | some gv => "ok " ++ n ++ " " ++ showVal (erase gv)
              | none => "unparsable:" ++ v
            | other => " ".intercalate other
          if exp == got then none
          else some s!"DIFF rt sid={sid} val={v} dest={dest} normal-form=[{exp}] go=[{got}]"
      | _, _ => some s!"BADLINE {ln}"
    | ["span", ops] =>
      -- ops: n:align,n:align,...   go: blk:off,...  (block index, offset inside block) ; base addresses mod 8 given first
      -- ops: <initBaseMod8>;n:align:baseMod8,...      go: blk:off ...
      let (ib, body) := match ops.splitOn ";" with
        | [a, b] => (a.toNat!, b)
        | _ => (0, ops)
      let reqs := (body.splitOn ",").filterMap fun s =>
        match s.splitOn ":" with
        | [a, b, c] => some (a.toNat!, b.toNat!, c.toNat!)
        | _ => none
      let exp := Frugal.spanRunStr ctx.P reqs ib
      let got := " ".intercalate go
      if exp == got then none else some s!"DIFF span ops={ops} model=[{exp}] go=[{got}]"
    | ["descmap", ops] =>
      let exp := Frugal.descmapRunStr ops
      let got := " ".intercalate go
      if exp == got then none else some s!"DIFF descmap ops={ops} model=[{exp}] go=[{got}]"
    | ["route", nt] =>
      match nt.splitOn ":" with
      | [n, t] =>
        let exp := if Frugal.routeDirect ctx.P n.toNat! (t == "1") then "1" else "0"
        if go == [exp] then none else some s!"DIFF route {nt} model={exp} go={rhs}"
      | _ => none
    | ["arg", kind] =>
      -- entry-point argument checks: (EncodedSize, EncodeObject, DecodeObject) on a non-struct argument
      let exp := Frugal.argOutcome kind
      let got := " ".intercalate go
      if exp == got then none else some s!"DIFF arg kind={kind} model=[{exp}] go=[{got}]"
    | ["alloc", sid] =>
      if go == ["0", "0"] then none else some s!"DIFF alloc sid={sid} model=[0 0] go=[{rhs}]"
    | ["bitset", ops] =>
      let exp := Frugal.bitsetRunStr ctx.P ops
      let got := " ".intercalate go
      if exp == got then none else some s!"DIFF bitset ops={ops} model=[{exp}] go=[{got}]"
    | _ => none
  | _ => none

def bump (k : String) : List (String × Nat) → List (String × Nat)
  | [] => [(k, 1)]
  | (a, n) :: r => if a == k then (a, n + 1) :: r else (a, n) :: bump k r

/-- `use <sid> -> ok|err pf=<n>`: one step of the build-cache state machine -/
def handleUse (ctx : Ctx) (cache : CacheSt) (ln : String) : Option (CacheSt × Option String) :=
  match ln.splitOn " -> " with
  | [lhs, rhs] =>
    match splitWs lhs with
    | ["use", sid] =>
      let (ok, cache') := useType ctx.R sid.toNat! cache
      let exp := (if ok then "ok" else "err") ++ " pf=" ++ toString cache'.pf.length
      let got := " ".intercalate (splitWs rhs)
      some (cache', if exp == got then none else some s!"DIFF use sid={sid} model=[{exp}] go=[{got}]")
    | ["useboom", sid] =>
      -- the same use while the marked InitDefault methods panic: a failed use of the state machine
      let (ok, cache') := useType (failing ctx.R ctx.boom) sid.toNat! cache
      let exp := (if ok then "ok" else "panic:user") ++ " pf=" ++ toString cache'.pf.length
      let got := " ".intercalate (splitWs rhs)
      some (cache', if exp == got then none else some s!"DIFF useboom sid={sid} model=[{exp}] go=[{got}]")
    | _ => none
  | _ => none

partial def loop (ctx : Ctx) (h : IO.FS.Stream) (lineNo diffs : Nat) (skips : List (String × Nat))
    (cache : CacheSt) : IO (Nat × Nat × List (String × Nat)) := do
  let ln ← h.getLine
  if ln.isEmpty then return (lineNo, diffs, skips)
  let ln := String.ofList (ln.toList.reverse.dropWhile (fun c => c == '\n' || c == '\r')).reverse
  match handleUse ctx cache ln with
  | some (cache', none) => loop ctx h (lineNo + 1) diffs skips cache'
  | some (cache', some msg) =>
    IO.println s!"{msg} @line={lineNo + 1}"
    loop ctx h (lineNo + 1) (diffs + 1) skips cache'
  | none =>
  match handle ctx ln with
  | none => loop ctx h (lineNo + 1) diffs skips cache
  | some msg =>
    if msg.startsWith "SKIP" then loop ctx h (lineNo + 1) diffs (bump msg skips) cache
    else
      IO.println s!"{msg} @line={lineNo + 1}"
      loop ctx h (lineNo + 1) (diffs + 1) skips cache

def run (ufile : String) (P : Params) (label : String) : IO UInt32 := do
  let lines ← IO.FS.lines ufile
  let U := parseUniverse lines
  let ctx : Ctx := { U := U, R := resolveAll U, S := schemaOf U, P := P, boom := parseBoom lines }
  let stdin ← IO.getStdin
  let (n, d, sk) ← loop ctx stdin 0 0 [] {}
  let sks := " ".intercalate (sk.map fun (k, c) => s!"[{k}]={c}")
  IO.println s!"SUMMARY lines={n} diffs={d} structs={U.length} params={label} outside_theorem_hypotheses: {sks}"
  return (if d == 0 then 0 else 1)

def main (args : List String) : IO UInt32 := do
  match args with
  | [ufile] => run ufile Frugal.Generated.params "regenerated"
  -- search mode: the implementation against the model under the committed tables of the unchanged
  -- tree (used when a regenerated table has stopped satisfying `Params.valid`)
  | ["--ref", ufile] => run ufile Frugal.Reference.params "reference"
  | _ =>
    IO.eprintln "usage: driver [--ref] <universe.txt> < transcript"
    return 2
