import Frugal.Basic
import Frugal.Wire
import Frugal.Schema
import Frugal.Encode
import Frugal.Decode
