/- Property C06: the property theorems (and nothing else). -/
import Frugal.Proofs.AllocLemmas
import Frugal.Props.Inst.F_facts_typedAllocation
import Frugal.Props.Inst.F_valid_span
namespace Frugal.C06
open Frugal

/-- every region the bump allocator hands out is aligned as requested and lies inside its block,
    for every request sequence and whatever block addresses the runtime returns -/
theorem regions_aligned_in_block (reqs : List (Nat × Nat × Nat)) (s : SpanSt) (hs : s.p ≤ s.n)
    (ha : ∀ q ∈ reqs, 0 < q.2.1) :
    ∀ r ∈ spanRegions Generated.params.blockSize s reqs, r.ok :=
  fun r hr => (spanRegions_spec _ reqs s hs ha r hr).1

/-- two regions handed out from the same block never overlap -/
theorem regions_disjoint (reqs : List (Nat × Nat × Nat)) (s : SpanSt) (hs : s.p ≤ s.n)
    (ha : ∀ q ∈ reqs, 0 < q.2.1) :
    (spanRegions Generated.params.blockSize s reqs).Pairwise
      (fun r1 r2 => r1.blk = r2.blk → r1.addr + r1.size ≤ r2.addr) :=
  spanRegions_disjoint _ reqs s hs ha

/-- the code's `(ret + mask) &^ mask` is the arithmetic `alignUp` of the model -/
theorem align_formula (a k : Nat) :
    (a + (2 ^ k - 1)) - ((a + (2 ^ k - 1)) &&& (2 ^ k - 1)) = alignUp a (2 ^ k - 1) := andNot_eq_alignUp a k

theorem span_constants : Generated.params.validSpan = true := Instances.valid_span

example : (SpanSt.init 2048 1000).p ≤ (SpanSt.init 2048 1000).n := by decide
/-- GC safety of what the decoder allocates: each of its 6 allocation sites passes the size, the
    alignment and the GC type of one and the same type node; `newTType` gives a GC type to exactly the
    kinds that can hold pointers (array, map, pointer, slice, string, struct), and `tDecoder.Malloc`
    sends every typed request to `mallocgc` (zeroed, scanned) — only string / binary bytes and
    pointer-free element arrays come from the span (regenerated facts about decoder.go, ttype.go) -/
theorem gc_typed_allocation : Generated.facts.typedAllocation = true := Instances.facts_typedAllocation
end Frugal.C06
