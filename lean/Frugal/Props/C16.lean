/- Property C16: the property theorems (and nothing else). -/
import Frugal.Proofs.EncodeRefine
import Frugal.Props.Instances
namespace Frugal.C16
open Frugal
/-- encoding is a function of the value: the model has no other input (map order aside) -/
theorem encode_deterministic (S : Schema) (hS : S.ok = true) (sid : Nat) (v : Val)
    (ht : hasTy S (.strct sid) v = true) :
    appendM Generated.params S sid v = refEncStruct S sid v :=
  appendAny_eq Instances.params_valid S hS v (.strct sid) rfl ht
end Frugal.C16
