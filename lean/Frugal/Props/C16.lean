/- Property C16: the property theorems (and nothing else). -/
import Frugal.Proofs.EncodeRefine
import Frugal.Proofs.BufferLemmas
import Frugal.Props.Inst.Params
import Frugal.Props.Inst.F_facts_bufferContract
import Frugal.Props.Inst.F_skeleton_encoder
import Frugal.Props.Inst.F_facts_encodeWritesOnlyOutput
import Frugal.Props.Inst.F_facts_decodeNeverWritesInput
namespace Frugal.C16
open Frugal
/-- encoding is a function of the value: the model has no other input (map order aside), so
    encoding the same unmodified value again gives the same bytes -/
theorem encode_deterministic (S : Schema) (hS : S.ok = true) (sid : Nat) (v : Val)
    (ht : hasTy S (.strct sid) v = true) :
    appendM Generated.params S sid v = refEncStruct S sid v :=
  appendAny_eq Instances.params_valid S hS v (.strct sid) rfl ht

/-- EncodeObject writes only buf[:n]: with a sufficient buffer the caller's array afterwards is the
    encoding followed by its previous contents from n on -/
theorem writes_only_first_n (back : Bytes) (len : Nat) (chunks : List Bytes) (hfit : chunks.flatten.length ≤ len) :
    (encodeObjectM back len chunks).2.2 = chunks.flatten ++ back.drop chunks.flatten.length := by
  rw [encodeObject_fits back len chunks hfit]

theorem never_beyond_len (back : Bytes) (len : Nat) (chunks : List Bytes) :
    (encodeObjectM back len chunks).2.2.drop len = back.drop len :=
  encodeObject_tail_untouched back len chunks

/-- "repeatable" at the level of the caller's array: encoding the same value again into the array the
    first call left behind reports the same n and leaves the array exactly as it was -/
theorem encode_again_leaves_array (back : Bytes) (len : Nat) (chunks : List Bytes)
    (hfit : chunks.flatten.length ≤ len) :
    encodeObjectM (encodeObjectM back len chunks).2.2 len chunks = encodeObjectM back len chunks := by
  rw [encodeObject_fits back len chunks hfit, encodeObject_fits _ len chunks hfit]
  simp only [List.drop_left]

/-- the result depends on the bytes produced, not on the pieces in which the encoder appends them
    (fast paths and generic paths cut the same message differently) -/
theorem chunking_immaterial (back : Bytes) (len : Nat) (c₁ c₂ : List Bytes)
    (hsame : c₁.flatten = c₂.flatten) (hfit : c₁.flatten.length ≤ len) :
    encodeObjectM back len c₁ = encodeObjectM back len c₂ := by
  rw [encodeObject_fits back len c₁ hfit, encodeObject_fits back len c₂ (hsame ▸ hfit), hsame]

example : encodeObjectM [9, 9, 9, 9, 9] 4 [[1], [2, 3]] = (3, true, [1, 2, 3, 9, 9])
    ∧ encodeObjectM [1, 2, 3, 9, 9] 4 [[1, 2], [3]] = (3, true, [1, 2, 3, 9, 9]) := by decide

theorem code_follows_buffer_model : Generated.facts.bufferContract = true := Instances.facts_bufferContract
/-- … and those that speak of `appendM` / `sizeM` about the hand-written model of `appendStruct` /
    `appendAny` / the size walk / the entry points (Encode.lean), written from exactly this control
    structure of the code (regenerated fingerprint; the fast-path tables are regenerated themselves) -/
theorem encoder_model_written_from_this_code : Generated.facts.encoderSkeleton = Skeleton.encoder :=
  Instances.skeleton_encoder

/-- "never modify the value they are given": in the model encoding is a function of the value, so the
    statement is about the code — regenerated fact: in the encode and size functions every store goes to
    a local variable or to the output buffer `b` (no assignment through a pointer, field or element of
    anything else, no `append` / `copy` into anything but `b`).  The reflect-based map iteration and the
    pooled copy of a by-value argument (hack.go, reflect.go) are outside this fact: snapshot oracle. -/
theorem encoder_writes_only_its_output : Generated.facts.encodeWritesOnlyOutput = true :=
  Instances.facts_encodeWritesOnlyOutput

/-- "decoding never modifies the input buffer": regenerated fact — no function of the decoder assigns
    to an element or sub-slice of its input, appends to it or copies into it (the harness compares the
    buffer before and after every decode as well) -/
theorem decoder_never_writes_its_input : Generated.facts.decodeNeverWritesInput = true :=
  Instances.facts_decodeNeverWritesInput

end Frugal.C16
