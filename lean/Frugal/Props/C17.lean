/- Property C17: the property theorems (and nothing else). -/
import Frugal.Props.Inst.F_facts_envParsing
import Frugal.Props.Inst.F_facts_legacyInert
namespace Frugal.C17
open Frugal
theorem legacy_controls_inert : Generated.facts.legacyInert = true := Instances.facts_legacyInert
theorem env_parsing : Generated.facts.envParsing = true := Instances.facts_envParsing
end Frugal.C17
