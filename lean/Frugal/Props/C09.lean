/- Property C09: the property theorems (and nothing else). -/
import Frugal.Proofs.BitsetLemmas
import Frugal.Props.Instances
namespace Frugal.C09
open Frugal
theorem ids_in_range (i : Nat) (hi : i < 65536) : bsInRange Generated.params i = true :=
  bsInRange_of_lt (bsOK_of_valid Instances.valid_bitset) hi
theorem set_then_test (s : BitSet) (i j : Nat) :
    (s.set Generated.params i).test Generated.params j = (decide (i = j) || s.test Generated.params j) :=
  test_set (bsOK_of_valid Instances.valid_bitset) s i j
theorem unset_then_test (s : BitSet) (i j : Nat) :
    (s.unset Generated.params i).test Generated.params j = (!decide (i = j) && s.test Generated.params j) :=
  test_unset (bsOK_of_valid Instances.valid_bitset) s i j
/-- a required id tests true after the field loop exactly when it was decoded, whatever the pooled
    set contained before -/
theorem required_bit_exact (s0 : BitSet) (req seen : List Nat) (r : Nat) (hr : r ∈ req) :
    (presenceRun Generated.params s0 req seen).test Generated.params r = decide (r ∈ seen) :=
  presence_clean (bsOK_of_valid Instances.valid_bitset) s0 req seen r hr
end Frugal.C09
