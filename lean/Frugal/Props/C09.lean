/- Property C09: the property theorems (and nothing else). -/
import Frugal.Proofs.BitsetLemmas
import Frugal.Proofs.ReaderProps
import Frugal.Proofs.EncodeRefine
import Frugal.Props.Instances
namespace Frugal.C09
open Frugal
theorem ids_in_range (i : Nat) (hi : i < 65536) : bsInRange Generated.params i = true :=
  bsInRange_of_lt (bsOK_of_valid Instances.valid_bitset) hi
theorem set_then_test (s : BitSet) (i j : Nat) :
    (s.set Generated.params i).test Generated.params j = (decide (i = j) || s.test Generated.params j) :=
  test_set (bsOK_of_valid Instances.valid_bitset) s i j
theorem unset_then_test (s : BitSet) (i j : Nat) :
    (s.unset Generated.params i).test Generated.params j = (!decide (i = j) && s.test Generated.params j) :=
  test_unset (bsOK_of_valid Instances.valid_bitset) s i j
/-- a required id tests true after the field loop exactly when it was decoded, whatever the pooled
    set contained before -/
theorem required_bit_exact (s0 : BitSet) (req seen : List Nat) (r : Nat) (hr : r ∈ req) :
    (presenceRun Generated.params s0 req seen).test Generated.params r = decide (r ∈ seen) :=
  presence_clean (bsOK_of_valid Instances.valid_bitset) s0 req seen r hr

/-- the presence record after the field loop is exactly the set of schema fields that occurred in
    the message with their declared wire type (a mistyped occurrence does not count) -/
theorem presence_is_occurrence (S : Schema) (total fuel : Nat) (sd : SDesc) (fs : List (Nat × TVal))
    (tail : Nat) (vs : List Val) (st' : LoopSt)
    (h : readFields Generated.params S total fuel sd fs tail { fs := vs } = .ok st') (i : Nat) :
    i ∈ st'.seen ↔ i ∈ knownIds sd fs :=
  seen_exact _ S total fuel sd fs tail vs st' h i

/-- every struct, at every nesting level: rejected with an error naming the first required field
    that did not occur; accepted on that account exactly when none is missing -/
theorem required_verdict (S : Schema) (total fuel sid : Nat) (fs : List (Nat × TVal)) (tail : Nat)
    (vs : List Val) (h : Bytes) (st' : LoopSt)
    (hloop : readFields Generated.params S total fuel (S.get sid) fs (tail + 1) { fs := vs } = .ok st') :
    readStruct Generated.params S total (fuel + 1) sid fs tail (.st vs h) =
      match firstMissing (S.get sid).fields st'.seen with
      | some f => .err (.required f.name)
      | none => .ok (.st st'.fs (if (S.get sid).hasHolder && st'.unk.length > 0 then st'.unk else h)) :=
  Frugal.required_verdict _ S total fuel sid fs tail vs h st' hloop

theorem none_missing_iff (fields : List Field) (seen : List Nat) :
    firstMissing fields seen = none ↔ ∀ f ∈ fields, f.req = .required → f.id ∈ seen :=
  firstMissing_none_iff fields seen

theorem missing_is_required_and_absent (fields : List Field) (seen : List Nat) (f : Field)
    (h : firstMissing fields seen = some f) : f ∈ fields ∧ f.req = .required ∧ f.id ∉ seen :=
  firstMissing_some_spec fields seen f h

/-- the encoder writes every required field, whatever its value (zero, nil, equal to a default) -/
theorem required_always_written (sd : SDesc) (f : Field) (v : Val) (h : f.req = .required) :
    fieldWritten sd f v = true := by
  simp [fieldWritten, h]
end Frugal.C09
