/- Property C09: the property theorems (and nothing else). -/
import Frugal.Proofs.BitsetLemmas
import Frugal.Proofs.ReaderProps
import Frugal.Proofs.EncodeRefine
import Frugal.Proofs.DecodeRefine
import Frugal.Proofs.ReqEverywhere
import Frugal.Props.Inst.Params
import Frugal.Props.Inst.F_valid_bitset
import Frugal.Props.Inst.F_skeleton_decoder
import Frugal.Props.Inst.F_skeleton_encoder
import Frugal.Props.Inst.F_skeleton_descTable
import Frugal.Props.Inst.F_skeleton_resolver
namespace Frugal.C09
open Frugal
theorem ids_in_range (i : Nat) (hi : i < 65536) : bsInRange Generated.params i = true :=
  bsInRange_of_lt (bsOK_of_valid Instances.valid_bitset) hi
theorem set_then_test (s : BitSet) (i j : Nat) :
    (s.set Generated.params i).test Generated.params j = (decide (i = j) || s.test Generated.params j) :=
  test_set (bsOK_of_valid Instances.valid_bitset) s i j
theorem unset_then_test (s : BitSet) (i j : Nat) :
    (s.unset Generated.params i).test Generated.params j = (!decide (i = j) && s.test Generated.params j) :=
  test_unset (bsOK_of_valid Instances.valid_bitset) s i j
/-- a required id tests true after the field loop exactly when it was decoded, whatever the pooled
    set contained before -/
theorem required_bit_exact (s0 : BitSet) (req seen : List Nat) (r : Nat) (hr : r ∈ req) :
    (presenceRun Generated.params s0 req seen).test Generated.params r = decide (r ∈ seen) :=
  presence_clean (bsOK_of_valid Instances.valid_bitset) s0 req seen r hr

/-- the presence record after the field loop is exactly the set of schema fields that occurred in
    the message with their declared wire type (a mistyped occurrence does not count) -/
theorem presence_is_occurrence (S : Schema) (total fuel : Nat) (sd : SDesc) (fs : List (Nat × TVal))
    (tail : Nat) (vs : List Val) (st' : LoopSt)
    (h : readFields Generated.params S total fuel sd fs tail { fs := vs } = .ok st') (i : Nat) :
    i ∈ st'.seen ↔ i ∈ knownIds sd fs :=
  seen_exact _ S total fuel sd fs tail vs st' h i

/-- every struct, at every nesting level: rejected with an error naming the first required field
    that did not occur; accepted on that account exactly when none is missing -/
theorem required_verdict (S : Schema) (total fuel sid : Nat) (fs : List (Nat × TVal)) (tail : Nat)
    (vs : List Val) (h : Bytes) (st' : LoopSt)
    (hloop : readFields Generated.params S total fuel (S.get sid) fs (tail + 1) { fs := vs } = .ok st') :
    readStruct Generated.params S total (fuel + 1) sid fs tail (.st vs h) =
      match firstMissing (S.get sid).fields st'.seen with
      | some f => .err (.required f.name)
      | none => .ok (.st st'.fs (if (S.get sid).hasHolder && st'.unk.length > 0 then st'.unk else h)) :=
  Frugal.required_verdict _ S total fuel sid fs tail vs h st' hloop

theorem none_missing_iff (fields : List Field) (seen : List Nat) :
    firstMissing fields seen = none ↔ ∀ f ∈ fields, f.req = .required → f.id ∈ seen :=
  firstMissing_none_iff fields seen

theorem missing_is_required_and_absent (fields : List Field) (seen : List Nat) (f : Field)
    (h : firstMissing fields seen = some f) : f ∈ fields ∧ f.req = .required ∧ f.id ∉ seen :=
  firstMissing_some_spec fields seen f h

/-- the encoder writes every required field, whatever its value (zero, nil, equal to a default) -/
theorem required_always_written (sd : SDesc) (f : Field) (v : Val) (h : f.req = .required) :
    fieldWritten sd f v = true := by
  simp [fieldWritten, h]
/-- **at any nesting level, inside any container**: when `DecodeObject` accepts a well-formed
    message, every struct in it that is read into a destination — the top level, struct fields, list /
    set elements, map keys and values, at any depth — carried every field its type declares required,
    with the declared wire type (`reqOK`, Proofs/ReqEverywhere.lean) -/
theorem accepted_means_required_everywhere (S : Schema) (hS : S.ok = true) (sid : Nat)
    (fs : List (Nat × TVal)) (trailing : Bytes) (dest v : Val) (n : Nat) (hw : wfFields fs = true)
    (h : decodeM Generated.params S sid (ser (.strct fs) ++ trailing) dest = .ok (v, n)) :
    reqOK S (.strct sid) (.strct fs) = true := by
  rw [decodeM_refines Instances.params_valid S hS sid fs trailing dest hw] at h
  obtain ⟨w0, h0, _⟩ := mapv_ok_inv _ _ _ h
  exact readMessage_reqOK Generated.params S hS sid fs trailing.length dest w0 h0

/-- … equivalently: a struct lacking a required field anywhere on a known path is rejected -/
theorem missing_required_anywhere_is_rejected (S : Schema) (hS : S.ok = true) (sid : Nat)
    (fs : List (Nat × TVal)) (trailing : Bytes) (dest : Val) (hw : wfFields fs = true)
    (hmiss : reqOK S (.strct sid) (.strct fs) = false) :
    (decodeM Generated.params S sid (ser (.strct fs) ++ trailing) dest).isOk = false := by
  cases hd : decodeM Generated.params S sid (ser (.strct fs) ++ trailing) dest with
  | ok p =>
    obtain ⟨v, n⟩ := p
    have := accepted_means_required_everywhere S hS sid fs trailing dest v n hw hd
    rw [hmiss] at this
    cases this
  | err e => rfl
  | panic k => rfl

/-- the nested case is not vacuous: a list element lacking its required field -/
example : let S : Schema := [{ fields := [{ id := 1, req := .dflt, ty := .list false (.strct 1) }] },
                             { fields := [{ id := 7, req := .required, ty := .base .i32 }] }]
    reqOK S (.strct 0) (.strct [(1, .list 12 [.strct [(7, .i32 5)], .strct []])]) = false := by decide
/-- the theorems above that speak of `decodeM` / the reference reader are about the hand-written model
    of `Decode` / `decodeType` / `decodeStringNoCopy` / `decodeFixedSizeTypes` / `skipUnknown`
    (Decode.lean), written from exactly this control structure of the code (regenerated fingerprint) -/
theorem decoder_model_written_from_this_code : Generated.facts.decoderSkeleton = Skeleton.decoder :=
  Instances.skeleton_decoder

/-- … and those that speak of `appendM` / `sizeM` about the hand-written model of `appendStruct` /
    `appendAny` / the size walk / the entry points (Encode.lean), written from exactly this control
    structure of the code (regenerated fingerprint; the fast-path tables are regenerated themselves) -/
theorem encoder_model_written_from_this_code : Generated.facts.encoderSkeleton = Skeleton.encoder :=
  Instances.skeleton_encoder

/-- the schema the theorems quantify over reaches the codec through the descriptor tables (field index
    by id, required ids, offsets, per-field flags and fixed sizes, the type node's tag / size / alignment /
    element nodes): the declarations `structDesc`, `tField`, `tType` and the functions that fill them in
    (`fromDefsFields`, `fromDefsField`, `GetField`, `newTType`) are, as full text, those the model and the
    correspondence runs were validated against (regenerated fingerprint) -/
theorem descriptor_tables_built_as_modelled : Generated.facts.descTableSkeleton = Skeleton.descTable :=
  Instances.skeleton_descTable

/-- what a field is *declared* to be — required / optional, `nocopy`, the holder — is read from the
    struct tags by the resolver (`DoResolveFields`, `lookupStructTag`, the annotation parser,
    `newStructDesc`, `fromDefsField`): the model of it (Tags.lean) was written from exactly this control
    structure of the code (regenerated fingerprint; C12 / C13 prove what the model does) -/
theorem schema_read_from_tags_as_modelled : Generated.facts.resolverSkeleton = Skeleton.resolver :=
  Instances.skeleton_resolver

end Frugal.C09
