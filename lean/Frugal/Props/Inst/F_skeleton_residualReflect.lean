/- one regenerated obligation, decided by the kernel on /repo's current sources -/
import Frugal.Facts
import Frugal.Generated
import Frugal.Skeleton
namespace Frugal.Instances
open Frugal
theorem skeleton_residualReflect : Generated.facts.residualReflectSkeleton = Skeleton.residualReflect := by decide
end Frugal.Instances
