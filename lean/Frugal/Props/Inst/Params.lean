/-
  Inst/Params.lean — where the regenerated tables `Generated.params` meet the generic theorems:
  every side condition of `Params.valid` is decided here, by the kernel, on the tables extracted from
  /repo's current sources.  The regenerated structural facts are decided one per module (Inst/F_*.lean)
  so that a property's check depends only on the obligations its theorems use.
-/
import Frugal.Valid
import Frugal.Generated
import Frugal.Props.Inst.F_valid_sizes
import Frugal.Props.Inst.F_valid_simple
import Frugal.Props.Inst.F_valid_container
import Frugal.Props.Inst.F_valid_headers
import Frugal.Props.Inst.F_valid_list
import Frugal.Props.Inst.F_valid_map
import Frugal.Props.Inst.F_valid_minWire
import Frugal.Props.Inst.F_valid_minWireFixed
import Frugal.Props.Inst.F_valid_skip
import Frugal.Props.Inst.F_valid_depth
import Frugal.Props.Inst.F_valid_bitset
import Frugal.Props.Inst.F_valid_span
import Frugal.Props.Inst.F_valid_binaryGuard
import Frugal.Props.Inst.F_valid_binaryPtr
namespace Frugal.Instances
open Frugal

theorem params_valid : Generated.params.valid = true := by
  simp only [Params.valid, valid_sizes, valid_simple, valid_container, valid_headers, valid_list,
    valid_map, valid_minWire, valid_minWireFixed, valid_skip, valid_depth, valid_bitset, valid_span,
    valid_binaryGuard, valid_binaryPtr, Bool.and_self]

end Frugal.Instances
