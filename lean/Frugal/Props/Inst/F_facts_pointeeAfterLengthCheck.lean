/- one regenerated obligation, decided by the kernel on /repo's current sources -/
import Frugal.Facts
import Frugal.Generated
namespace Frugal.Instances
open Frugal
theorem facts_pointeeAfterLengthCheck : Generated.facts.pointeeAfterLengthCheck = true := by decide
end Frugal.Instances
