/- one side condition of the regenerated tables, decided by the kernel on /repo's current sources -/
import Frugal.Valid
import Frugal.Generated
namespace Frugal.Instances
open Frugal
theorem valid_skip : Generated.params.validSkip = true := by decide
end Frugal.Instances
