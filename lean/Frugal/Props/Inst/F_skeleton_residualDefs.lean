/- one regenerated obligation, decided by the kernel on /repo's current sources -/
import Frugal.Facts
import Frugal.Generated
import Frugal.Skeleton
namespace Frugal.Instances
open Frugal
theorem skeleton_residualDefs : Generated.facts.residualDefsSkeleton = Skeleton.residualDefs := by decide
end Frugal.Instances
