/- one side condition of the regenerated tables, decided by the kernel on /repo's current sources -/
import Frugal.Valid
import Frugal.Generated
namespace Frugal.Instances
open Frugal
theorem valid_headers : Generated.params.validHeaders = true := by decide
end Frugal.Instances
