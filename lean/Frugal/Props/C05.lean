/- Property C05: the property theorems (and nothing else). -/
import Frugal.Proofs.DecodeSafe
import Frugal.Proofs.SkipCorrect
import Frugal.Proofs.DecodeSound2
import Frugal.Proofs.DecodeErrors
import Frugal.Props.Inst.Params
import Frugal.Proofs.Cells
import Frugal.Props.Inst.F_facts_allocationDiscipline
import Frugal.Props.Inst.F_skeleton_decoder
import Frugal.Props.Inst.F_valid_minWire
import Frugal.Props.Inst.F_valid_minWireFixed
import Frugal.Props.Inst.F_valid_skip
import Frugal.Props.Inst.F_skeleton_descTable
namespace Frugal.C05
open Frugal

theorem count_checks_sound : Generated.params.validMinWire = true ∧ Generated.params.validMinWireFixed = true ∧
    Generated.params.validSkip = true :=
  ⟨Instances.valid_minWire, Instances.valid_minWireFixed, Instances.valid_skip⟩

/-- For every schema, every byte string, every destination and every pool state: `DecodeObject`
    (every Go read modelled as partial) never panics. The decoder's definition is accepted by Lean's
    termination checker with the depth budget and the input length as only measures. -/
theorem decode_never_panics (S : Schema) (sid : Nat) (b : Bytes) (dest : Val) :
    (decodeM Generated.params S sid b dest).isPanic = false :=
  decodeM_safe Instances.params_valid S sid b dest

/-- the same at every nested position and with every remaining budget -/
theorem decodeType_never_panics (S : Schema) (total fuel : Nat) (t : Ty) (b : Bytes) (dest : Val) :
    (decodeType Generated.params S total fuel t b dest).isPanic = false :=
  decodeType_safe Instances.params_valid S total fuel t b dest

/-- on well-formed data the skipper returns exactly the length of what it skips (or a depth error):
    it never runs past the value it was asked to skip -/
theorem skipper_exact (v : TVal) (fuel : Nat) (r : Bytes) (hw : wf v = true) :
    skipType Generated.params fuel v.tag (ser v ++ r) =
      if skipNeed v ≤ fuel then .ok (ser v).length else .err .depth :=
  skipType_ser Instances.params_valid v fuel r hw

/-- **success only on well-formed input**: when `DecodeObject` succeeds with count `n`, the input
    begins with a well-formed struct message (every scalar in its width, every length and count a
    non-negative int32 that fits, every id 16 bits, every element of the container's declared type,
    every field value of the field header's type) whose serialisation is exactly the first `n`
    bytes.  (`wf` asks of a container's element / key / value code that it be a non-negative int8;
    for a non-empty container the elements carry that code, so it is a protocol type code; the code of
    an *empty* container inside skipped data is inspected by no Thrift skipper.  What frugal itself
    writes has protocol codes everywhere: `C02.codes_are_protocol_codes`.) -/
theorem success_means_wellformed_prefix (S : Schema) (hS : S.ok = true) (sid : Nat) (b : Bytes)
    (dest v : Val) (n : Nat) (h : decodeM Generated.params S sid b dest = .ok (v, n)) :
    ∃ fs trailing, wfFields fs = true ∧ b = ser (.strct fs) ++ trailing ∧ n = (ser (.strct fs)).length :=
  decodeM_sound S Instances.params_valid hS sid b dest v n h

/-- in particular the count never exceeds the input: the decoder reads nothing outside it -/
theorem consumed_within_input (S : Schema) (hS : S.ok = true) (sid : Nat) (b : Bytes)
    (dest v : Val) (n : Nat) (h : decodeM Generated.params S sid b dest = .ok (v, n)) : n ≤ b.length := by
  obtain ⟨fs, tr, _, e, hn⟩ := success_means_wellformed_prefix S hS sid b dest v n h
  rw [e, hn]
  simp

/-- memory on the accepting side: the message a successful decode consumed has fewer *cells* — struct
    field values, list / set elements, map keys and values, at every nesting level: the things the decoder
    allocates storage for, each of bounded size — than bytes.  What `DecodeObject` accepts it built in memory
    proportional to the input it consumed; a disproportion (the open finding D22: nested counts each
    claiming the rest of the input) is confined to inputs that end in an error. -/
theorem accepted_input_has_fewer_cells_than_bytes (S : Schema) (hS : S.ok = true) (sid : Nat) (b : Bytes)
    (dest v : Val) (n : Nat) (h : decodeM Generated.params S sid b dest = .ok (v, n)) :
    ∃ fs trailing, b = ser (.strct fs) ++ trailing ∧ n = (ser (.strct fs)).length ∧
      cells (.strct fs) < n := by
  obtain ⟨fs, tr, _, e, hn⟩ := success_means_wellformed_prefix S hS sid b dest v n h
  refine ⟨fs, tr, e, hn, ?_⟩
  have := cells_lt_ser (.strct fs)
  omega

/-- … and conversely on every well-formed message the decoder does what the reference reader does
    (C03): together, success exactly when the bytes begin with a well-formed message that a reader
    for the type accepts -/
theorem wellformed_prefix_decodes_as_reader (S : Schema) (hS : S.ok = true) (sid : Nat)
    (fs : List (Nat × TVal)) (trailing : Bytes) (dest : Val) (hw : wfFields fs = true) :
    decodeM Generated.params S sid (ser (.strct fs) ++ trailing) dest =
      (readMessage Generated.params S sid fs trailing.length dest).mapv (·, (ser (.strct fs)).length) :=
  decodeM_refines Instances.params_valid S hS sid fs trailing dest hw

/-- **success exactly when the bytes begin with a well-formed message that a reader for the type
    accepts**: both directions, for every schema, byte string and destination -/
theorem success_iff (S : Schema) (hS : S.ok = true) (sid : Nat) (b : Bytes) (dest : Val) :
    (decodeM Generated.params S sid b dest).isOk = true ↔
      ∃ fs trailing, wfFields fs = true ∧ b = ser (.strct fs) ++ trailing ∧
        (readMessage Generated.params S sid fs trailing.length dest).isOk = true := by
  constructor
  · intro h
    cases hd : decodeM Generated.params S sid b dest with
    | ok p =>
      obtain ⟨v, n⟩ := p
      obtain ⟨fs, tr, hw, e, _⟩ := success_means_wellformed_prefix S hS sid b dest v n hd
      refine ⟨fs, tr, hw, e, ?_⟩
      rw [e, wellformed_prefix_decodes_as_reader S hS sid fs tr dest hw] at hd
      cases hr : readMessage Generated.params S sid fs tr.length dest with
      | ok w => rfl
      | err k => rw [hr] at hd; cases hd
      | panic k => rw [hr] at hd; cases hd
    | err k => rw [hd] at h; cases h
    | panic k => rw [hd] at h; cases h
  · rintro ⟨fs, tr, hw, e, hr⟩
    rw [e, wellformed_prefix_decodes_as_reader S hS sid fs tr dest hw]
    cases hrr : readMessage Generated.params S sid fs tr.length dest with
    | ok w => rfl
    | err k => rw [hrr] at hr; cases hr
    | panic k => rw [hrr] at hr; cases hr

/-- the skipper alone: a successful skip of `n ≤ len` bytes skipped exactly one well-formed value of
    the requested type -/
theorem skipper_sound (fuel t : Nat) (b : Bytes) (n : Nat)
    (h : skipType Generated.params fuel t b = .ok n) (hn : n ≤ b.length) :
    ∃ tv, wf tv = true ∧ tv.tag = t ∧ b = ser tv ++ b.drop n :=
  skipType_sound Instances.params_valid fuel t b n h hn

/-- a corrupted length or count cannot trigger a large allocation: in `decodeType` every allocation
    whose size comes from the wire (`d.Malloc(l…)`, `reflect.MakeMapWithSize(t.RT, l)`; 6 sites) comes
    after the size check of its case clause (regenerated fact about statement order) … -/
theorem allocations_follow_size_checks : Generated.facts.allocationDiscipline = true :=
  Instances.facts_allocationDiscipline

/-- … and those checks, in the decoder as written, reject every count that the remaining bytes
    cannot hold, before the element loop: lists and sets, -/
theorem list_count_exceeding_input_is_error (S : Schema) (total fuel : Nat) (s : Bool) (et : Ty)
    (b r r1 : Bytes) (tp l : Nat) (dest : Val)
    (hf : Generated.params.fixedSize (Ty.list s et).tt = 0)
    (h8 : rd8 b = some (tp, r)) (h32 : rd32 r = some (l, r1))
    (hlen : ¬ b.length < Generated.params.listHeaderLen)
    (hneg : ¬ l ≥ 2147483648) (hty : et.wire = tp) (hl0 : l ≠ 0)
    (hper : Generated.params.minWireOf et.wire ≠ 0)
    (hbig : l > r1.length / Generated.params.minWireOf et.wire) :
    decodeType Generated.params S total (fuel + 1) (.list s et) b dest = .err .sizeLimit :=
  list_count_exceeds _ S total fuel s et b r r1 tp l dest hf h8 h32 hlen hneg hty hl0 hper hbig

/-- maps, -/
theorem map_count_exceeding_input_is_error (S : Schema) (total fuel : Nat) (kt vt : Ty)
    (b r r1 r2 : Bytes) (t0 t1 l : Nat) (dest : Val)
    (hf : Generated.params.fixedSize (Ty.map kt vt).tt = 0)
    (h8a : rd8 b = some (t0, r)) (h8b : rd8 r = some (t1, r1)) (h32 : rd32 r1 = some (l, r2))
    (hlen : ¬ b.length < Generated.params.mapHeaderLen) (hneg : ¬ l ≥ 2147483648)
    (hk : t0 = kt.wire) (hv : t1 = vt.wire)
    (hper : Generated.params.minWireOf kt.wire + Generated.params.minWireOf vt.wire ≠ 0)
    (hbig : l > r2.length / (Generated.params.minWireOf kt.wire + Generated.params.minWireOf vt.wire)) :
    decodeType Generated.params S total (fuel + 1) (.map kt vt) b dest = .err .sizeLimit :=
  map_count_exceeds _ S total fuel kt vt b r r1 r2 t0 t1 l dest hf h8a h8b h32 hlen hneg hk hv hper hbig

/-- strings and binaries -/
theorem string_length_exceeding_input_is_error (total : Nat) (isBin nocopy : Bool) (b r : Bytes) (l : Nat)
    (h32 : rd32 b = some (l, r)) (hneg : ¬ l ≥ 2147483648) (hbig : l > r.length) :
    decodeStr isBin nocopy total b = .err .sizeLimit :=
  str_length_exceeds total isBin nocopy b r l h32 hneg hbig

/-- negative lengths and counts are errors -/
theorem negative_sizes_are_errors (S : Schema) (total fuel : Nat) :
    (∀ (isBin nocopy : Bool) (b r : Bytes) (l : Nat), rd32 b = some (l, r) → l ≥ 2147483648 →
      decodeStr isBin nocopy total b = .err .negative) ∧
    (∀ (s : Bool) (et : Ty) (b r r1 : Bytes) (tp l : Nat) (dest : Val),
      Generated.params.fixedSize (Ty.list s et).tt = 0 → rd8 b = some (tp, r) → rd32 r = some (l, r1) →
      ¬ b.length < Generated.params.listHeaderLen → l ≥ 2147483648 →
      decodeType Generated.params S total (fuel + 1) (.list s et) b dest = .err .negative) ∧
    (∀ (kt vt : Ty) (b r r1 r2 : Bytes) (t0 t1 l : Nat) (dest : Val),
      Generated.params.fixedSize (Ty.map kt vt).tt = 0 → rd8 b = some (t0, r) → rd8 r = some (t1, r1) →
      rd32 r1 = some (l, r2) → ¬ b.length < Generated.params.mapHeaderLen → l ≥ 2147483648 →
      decodeType Generated.params S total (fuel + 1) (.map kt vt) b dest = .err .negative) :=
  ⟨fun isBin nocopy b r l h1 h2 => str_negative_length total isBin nocopy b r l h1 h2,
   fun s et b r r1 tp l dest hf h8 h32 hlen hneg =>
     list_negative_count _ S total fuel s et b r r1 tp l dest hf h8 h32 hlen hneg,
   fun kt vt b r r1 r2 t0 t1 l dest hf h8a h8b h32 hlen hneg =>
     map_negative_count _ S total fuel kt vt b r r1 r2 t0 t1 l dest hf h8a h8b h32 hlen hneg⟩

/-- mismatching element / key / value type codes are errors -/
theorem mismatching_codes_are_errors (S : Schema) (total fuel : Nat) :
    (∀ (s : Bool) (et : Ty) (b r r1 : Bytes) (tp l : Nat) (dest : Val),
      Generated.params.fixedSize (Ty.list s et).tt = 0 → rd8 b = some (tp, r) → rd32 r = some (l, r1) →
      ¬ b.length < Generated.params.listHeaderLen → ¬ l ≥ 2147483648 → et.wire ≠ tp →
      decodeType Generated.params S total (fuel + 1) (.list s et) b dest = .err .typeMismatch) ∧
    (∀ (kt vt : Ty) (b r r1 r2 : Bytes) (t0 t1 l : Nat) (dest : Val),
      Generated.params.fixedSize (Ty.map kt vt).tt = 0 → rd8 b = some (t0, r) → rd8 r = some (t1, r1) →
      rd32 r1 = some (l, r2) → ¬ b.length < Generated.params.mapHeaderLen → ¬ l ≥ 2147483648 →
      (t0 ≠ kt.wire ∨ t1 ≠ vt.wire) →
      decodeType Generated.params S total (fuel + 1) (.map kt vt) b dest = .err .typeMismatch) :=
  ⟨fun s et b r r1 tp l dest hf h8 h32 hlen hneg hty =>
     list_type_mismatch _ S total fuel s et b r r1 tp l dest hf h8 h32 hlen hneg hty,
   fun kt vt b r r1 r2 t0 t1 l dest hf h8a h8b h32 hlen hneg hty =>
     map_type_mismatch _ S total fuel kt vt b r r1 r2 t0 t1 l dest hf h8a h8b h32 hlen hneg hty⟩

/-- truncated headers are errors -/
theorem truncated_headers_are_errors (S : Schema) (total fuel : Nat) (s : Bool) (et : Ty) (b : Bytes)
    (dest : Val) (hf : Generated.params.fixedSize (Ty.list s et).tt = 0) (hshort : b.length < 5) :
    decodeType Generated.params S total (fuel + 1) (.list s et) b dest = .err .short ∧
    (∀ (isBin nocopy : Bool) (b' : Bytes), rd32 b' = none → decodeStr isBin nocopy total b' = .err .short) :=
  ⟨list_truncated_header _ S total fuel s et b dest hf hshort,
   fun isBin nocopy b' h => str_truncated_length total isBin nocopy b' h⟩

/-- witness that the `panic` outcome is not vacuous in the model: an unguarded fixed-size read of a
    short buffer is a bounds panic (this is what the regenerated guards exclude) -/
example : decodeFixed .i32 [1, 2] = .panic .bounds := by simp [decodeFixed, rd32]
/-- the hand-written model of the decoder functions was written from, and validated against, code with exactly this
    control structure (guards, switches, loops, returns, call sequence): regenerated fingerprint =
    committed fingerprint of the unchanged tree -/
theorem model_written_from_this_code : Generated.facts.decoderSkeleton = Skeleton.decoder := Instances.skeleton_decoder
/-- the schema the theorems quantify over reaches the codec through the descriptor tables (field index
    by id, required ids, offsets, per-field flags and fixed sizes, the type node's tag / size / alignment /
    element nodes): the declarations `structDesc`, `tField`, `tType` and the functions that fill them in
    (`fromDefsFields`, `fromDefsField`, `GetField`, `newTType`) are, as full text, those the model and the
    correspondence runs were validated against (regenerated fingerprint) -/
theorem descriptor_tables_built_as_modelled : Generated.facts.descTableSkeleton = Skeleton.descTable :=
  Instances.skeleton_descTable

end Frugal.C05
