/- Property C05: the property theorems (and nothing else). -/
import Frugal.Proofs.DecodeSafe
import Frugal.Proofs.SkipCorrect
import Frugal.Props.Instances
namespace Frugal.C05
open Frugal

theorem count_checks_sound : Generated.params.validMinWire = true ∧ Generated.params.validMinWireFixed = true ∧
    Generated.params.validSkip = true :=
  ⟨Instances.valid_minWire, Instances.valid_minWireFixed, Instances.valid_skip⟩

/-- For every schema, every byte string, every destination and every pool state: `DecodeObject`
    (every Go read modelled as partial) never panics. The decoder's definition is accepted by Lean's
    termination checker with the depth budget and the input length as only measures. -/
theorem decode_never_panics (S : Schema) (sid : Nat) (b : Bytes) (dest : Val) :
    (decodeM Generated.params S sid b dest).isPanic = false :=
  decodeM_safe Instances.params_valid S sid b dest

/-- the same at every nested position and with every remaining budget -/
theorem decodeType_never_panics (S : Schema) (total fuel : Nat) (t : Ty) (b : Bytes) (dest : Val) :
    (decodeType Generated.params S total fuel t b dest).isPanic = false :=
  decodeType_safe Instances.params_valid S total fuel t b dest

/-- on well-formed data the skipper returns exactly the length of what it skips (or a depth error):
    it never runs past the value it was asked to skip -/
theorem skipper_exact (v : TVal) (fuel : Nat) (r : Bytes) (hw : wf v = true) :
    skipType Generated.params fuel v.tag (ser v ++ r) =
      if skipNeed v ≤ fuel then .ok (ser v).length else .err .depth :=
  skipType_ser Instances.params_valid v fuel r hw

/-- witness that the `panic` outcome is not vacuous in the model: an unguarded fixed-size read of a
    short buffer is a bounds panic (this is what the regenerated guards exclude) -/
example : decodeFixed .i32 [1, 2] = .panic .bounds := by simp [decodeFixed, rd32]
end Frugal.C05
