/- Property C05: the property theorems (and nothing else). -/
import Frugal.Props.Instances
namespace Frugal.C05
open Frugal
theorem count_checks_sound : Generated.params.validMinWire = true ∧ Generated.params.validMinWireFixed = true ∧
    Generated.params.validSkip = true :=
  ⟨Instances.valid_minWire, Instances.valid_minWireFixed, Instances.valid_skip⟩
end Frugal.C05
