/- Property C12: the property theorems (and nothing else). -/
import Frugal.Tags
import Frugal.Props.Instances
namespace Frugal.C12
open Frugal
/-- the frugal tag takes precedence over the thrift tag -/
theorem frugal_over_thrift (tag : String) (s : String) (h : tagLookup tag "frugal" = some s) :
    lookupStructTag tag = some ((splitComma [] s.toList).map trimSpace) := by
  simp [lookupStructTag, h]
end Frugal.C12
