/- Property C12: the property theorems (and nothing else). Proofs are in Proofs/TagsOk.lean,
   Proofs/TagsSpec.lean, Proofs/TagsSpell.lean. -/
import Frugal.Tags
import Frugal.Proofs.TagsSpell
import Frugal.Props.Inst.F_skeleton_resolver
import Frugal.Props.Inst.F_skeleton_residualDefs
namespace Frugal.C12
open Frugal

/-- the frugal tag takes precedence over the thrift tag -/
theorem frugal_over_thrift (tag : String) (s : String) (h : tagLookup tag "frugal" = some s) :
    lookupStructTag tag = some ((splitComma [] s.toList).map trimSpace) := by
  simp [lookupStructTag, h]

/-- the thrift tag carries the same components after its leading field name -/
theorem thrift_minus_name (tag s : String) (h0 : tagLookup tag "frugal" = none)
    (h : tagLookup tag "thrift" = some s) :
    lookupStructTag tag = some (((splitComma [] s.toList).drop 1).map trimSpace) :=
  thrift_drops_name tag s h0 h

/-- spelling: `thrift:"name,<x>"` ≡ `frugal:"<x>"` -/
theorem thrift_spelling_same (t1 t2 s1 s2 : String) (name : List Char)
    (h1 : tagLookup t1 "frugal" = some s1)
    (h2f : tagLookup t2 "frugal" = none) (h2 : tagLookup t2 "thrift" = some s2)
    (hs : s2.toList = name ++ ',' :: s1.toList) (hname : ∀ c ∈ name, c ≠ ',') :
    lookupStructTag t2 = lookupStructTag t1 :=
  thrift_equiv_frugal t1 t2 s1 s2 name h1 h2f h2 hs hname

/-- id, requiredness, type and options of a resolved field are those its tag spells -/
theorem field_from_tag (hasInit : Bool) (gf : GoField) (idS reqS tyS : List Char)
    (opts : List (List Char)) (f : Field)
    (h : resolveField hasInit gf (idS :: reqS :: tyS :: opts) = some f) :
    parseU16 idS = some f.id ∧ parseReq reqS = some f.req ∧ parseType gf.ty tyS = some f.ty ∧
    parseOpts f.ty opts false = some f.nocopy ∧ f.name = gf.name :=
  resolveField_from_tag hasInit gf idS reqS tyS opts f h

/-- requiredness is `default` when omitted -/
theorem requiredness_default_when_omitted (hasInit : Bool) (gf : GoField) (idS : List Char) :
    resolveField hasInit gf [idS] = resolveField hasInit gf [idS, "default".toList] :=
  (default_req_when_omitted hasInit gf idS).1

/-- untagged, unexported and embedded fields are ignored -/
theorem ignored (hasInit : Bool) (gf : GoField) (r : List GoField) (ids : List Nat)
    (h : gf.anonymous = true ∨ gf.exported = false ∨ lookupStructTag gf.tag = none) :
    resolveFieldsAux hasInit (gf :: r) ids = resolveFieldsAux hasInit r ids :=
  ignored_fields hasInit gf r ids h

/-- the field table holds exactly the resolved fields, by strictly increasing id -/
theorem field_table (gs : GoStruct) (sd : SDesc) (h : resolveStruct gs = some sd) :
    sd.fields.Pairwise (fun a b => a.id < b.id) ∧
    ∃ fs, resolveFieldsAux gs.hasInit gs.fields [] = some fs ∧ ∀ f, f ∈ sd.fields ↔ f ∈ fs :=
  resolveStruct_fields gs sd h

/-- the annotation decides list versus set, and the element type is the element annotation's -/
theorem list_versus_set (e : GoTy) (d : List Char) (allow : Bool) (t : Ty) (r : List Char)
    (he : e ≠ .prim .uint8 "uint8") (h : doParseType (.slice e) true d allow = some (t, r)) :
    ∃ tok r0 r1 r2 et, readToken d false = some (tok, r0) ∧ expectTok r0 '<' = some r1 ∧
      doParseType e true r1 true = some (et, r2) ∧ expectTok r2 '>' = some r ∧ isValueType et = true ∧
      ((tok = "set".toList ∧ t = .list true et) ∨ (tok = "list".toList ∧ t = .list false et)) :=
  slice_result e d allow t r he h

/-- the annotation decides enum versus i64: an enum exactly when it names the Go type and that type is
    a defined one (not the predeclared `int64` / `int`) -/
theorem enum_versus_i64 (k : GoKind) (nm : String) (d : List Char) (allow : Bool) (t : Ty) (r : List Char)
    (h : doParseType (.prim k nm) true d allow = some (t, r)) :
    t = .base .enum ↔
      (kindTag k = some .i64 ∧ isPredeclared64 (.prim k nm) = false ∧
       ∃ tv rest, readToken d false = some (tv, rest) ∧ isKeyword .i64 tv = false) :=
  enum_rule k nm d allow t r h

/-- the predeclared `int` named in its own annotation is an i64 like `int64` named `int64` (D24: it used
    to become a 32-bit enum), a defined integer type named in its annotation is an enum -/
example : doParseType (.prim .int "int") true "int".toList false = some (.base .i64, []) ∧
    doParseType (.prim .int64 "int64") true "int64".toList false = some (.base .i64, []) ∧
    doParseType (.prim .int "int") true "i64".toList false = some (.base .i64, []) ∧
    doParseType (.prim .int "Kind") true "Kind".toList false = some (.base .enum, []) ∧
    doParseType (.prim .int64 "Kind") true "Kind".toList false = some (.base .enum, []) := by decide

/-- spelling: spaces around tag components -/
theorem spaces_same (comps : List (List Char × List Char × List Char))
    (h : ∀ p ∈ comps, (∀ c ∈ p.1, isGoSpace c = true) ∧ (∀ c ∈ p.2.2, isGoSpace c = true) ∧
      (∀ c ∈ p.1 ++ p.2.1 ++ p.2.2, c ≠ ',')) :
    (splitComma [] ((comps.map fun p => p.1 ++ p.2.1 ++ p.2.2).foldr (fun x r => x ++ ',' :: r) [])).map trimSpace =
    (splitComma [] ((comps.map fun p => p.2.1).foldr (fun x r => x ++ ',' :: r) [])).map trimSpace :=
  splitComma_pad comps [] h _ _ rfl rfl

/-- spelling: omitted ≡ redundant scalar annotation (any keyword of the kind's wire type) -/
theorem scalar_annotation_same (k : GoKind) (nm : String) (allow : Bool) (tag : DTag)
    (hk : kindTag k = some tag) :
    (doParseType (.prim k nm) false [] allow).map (·.1) = some (baseOfTag tag) ∧
    ∀ kw ∈ ["bool", "i8", "byte", "double", "i16", "i32", "i64", "string"],
      isKeyword tag kw.toList = true →
      (doParseType (.prim k nm) true kw.toList allow).map (·.1) = some (baseOfTag tag) :=
  scalar_annotation_redundant k nm allow tag hk

/-- spelling: byte ≡ i8 -/
theorem byte_same_as_i8 (nm : String) (allow : Bool) :
    doParseType (.prim .int8 nm) true "byte".toList allow =
      doParseType (.prim .int8 nm) true "i8".toList allow :=
  byte_is_i8 nm allow

/-- spelling: package-qualified struct name ≡ bare name — for every Go type the annotation is matched
    against, a field of *anonymous* struct type included (D23: the hypothesis `vt.name ≠ ""` that the
    proof had forced marked the point where the code was wrong: an anonymous struct answered before
    the qualifier was consumed, so `list<pkg.Item>` was rejected where `list<Item>` is accepted) -/
theorem qualified_struct_name_same (vt : GoTy) (pkg nm rest : List Char) (hp : identLike pkg)
    (hn : identLike nm) (hrest : stopsIdent rest) (hnodot : ∀ r, rest ≠ '.' :: r)
    (hkw1 : isKeyword .strct pkg = false) (hkw2 : isKeyword .strct nm = false)
    (hend : ∃ tok sp, readToken rest true = some (tok, sp) ∧ (tok = [] ∨ tok = [':'] ∨ tok = ['>'])) :
    matchAnnot vt .strct (pkg ++ '.' :: nm ++ rest) = matchAnnot vt .strct (nm ++ rest) :=
  qualified_name_same vt pkg nm rest hp hn hrest hnodot hkw1 hkw2 hend

/-- what the resolver accepts satisfies every well-formedness assumption of the codec theorems -/
theorem accepted_schema_ok (U : Universe) : (schemaOf U).ok = true := schemaOf_ok U

/- non-vacuity: the hypotheses of the spelling theorems are met by ordinary tags -/
example : identLike "base".toList ∧ identLike "Msg".toList ∧ stopsIdent ">".toList ∧
    isKeyword .strct "base".toList = false := by
  refine ⟨⟨'b', "ase".toList, by decide, by decide, by decide⟩,
    ⟨'M', "sg".toList, by decide, by decide, by decide⟩, ?_, by decide⟩
  intro c r h
  cases h
  decide

example : matchAnnot (.strct "Msg" 0) .strct "base.Msg>".toList =
    matchAnnot (.strct "Msg" 0) .strct "Msg>".toList := by decide

/-- an anonymous struct: both spellings are accepted and leave the same rest -/
example : matchAnnot (.strct "" 0) .strct "base.Msg>".toList = some (">".toList, false) ∧
    matchAnnot (.strct "" 0) .strct "Msg>".toList = some (">".toList, false) := by decide

/-- the hand-written model of the resolver functions (`DoResolveFields`, `lookupStructTag`, `trimSpaces`, `doParseType`, `doParseSlice`, `doMatchStruct`, `readToken`, `newStructDesc`, `fromDefsField`) was written from, and validated against, code with exactly this
    control structure (guards, switches, loops, returns, call sequence): regenerated fingerprint =
    committed fingerprint of the unchanged tree -/
theorem model_written_from_this_code : Generated.facts.resolverSkeleton = Skeleton.resolver := Instances.skeleton_resolver
/-- the rest of `internal/defs` — every function and package-level declaration that the resolver fingerprint does not cover (the error constructors, `Type` and its methods, the keyword and option tables, `T_int`, the caching resolver) — is, as full text, that of the tree the model was written from (R4 rewrote two character predicates nothing was watching) -/
theorem rest_of_resolver_package_as_modelled : Generated.facts.residualDefsSkeleton = Skeleton.residualDefs := Instances.skeleton_residualDefs

end Frugal.C12
