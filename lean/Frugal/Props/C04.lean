/- Property C04: the property theorems (and nothing else). -/
import Frugal.Proofs.EncodeRefine
import Frugal.Props.Instances
namespace Frugal.C04
open Frugal
theorem sizes_and_headers : Generated.params.validSizes = true ∧ Generated.params.validHeaders = true :=
  ⟨Instances.valid_sizes, Instances.valid_headers⟩
end Frugal.C04
