/- Property C04: the property theorems (and nothing else). -/
import Frugal.Proofs.SizeExact
import Frugal.Proofs.BufferLemmas
import Frugal.Props.Inst.Params
import Frugal.Props.Inst.F_facts_bufferContract
import Frugal.Props.Inst.F_skeleton_encoder
import Frugal.Props.Inst.F_valid_headers
import Frugal.Props.Inst.F_valid_sizes
import Frugal.Props.Inst.F_skeleton_descTable
namespace Frugal.C04
open Frugal

theorem sizes_and_headers : Generated.params.validSizes = true ∧ Generated.params.validHeaders = true :=
  ⟨Instances.valid_sizes, Instances.valid_headers⟩

/-- EncodedSize (the separate walk with its precomputed fixed part and count × width shortcuts)
    returns exactly the number of bytes the encoder writes, for every accepted schema and every
    value.  The model takes a value, so "by struct or by pointer" is the same statement. -/
theorem size_exact (S : Schema) (hS : S.ok = true) (sid : Nat) (v : Val)
    (ht : hasTy S (.strct sid) v = true) :
    sizeM Generated.params S sid v = (appendM Generated.params S sid v).length := by
  unfold sizeM appendM
  rw [sizeFunc_eq Instances.params_valid S hS v (.strct sid) rfl ht rfl,
      appendAny_eq Instances.params_valid S hS v (.strct sid) rfl ht]

/-- the same for any nested struct / list / map value (e.g. a nil *T argument: one STOP byte) -/
theorem size_exact_nested (S : Schema) (hS : S.ok = true) (ty : Ty) (v : Val) (hok : ty.ok = true)
    (ht : hasTy S ty v = true) (hs : specSimple ty.tt = false) :
    sizeFunc Generated.params S ty v = (appendAny Generated.params S ty v).length := by
  rw [sizeFunc_eq Instances.params_valid S hS v ty hok ht hs,
      appendAny_eq Instances.params_valid S hS v ty hok ht]

/-- buffer long enough: success, n = the encoded length, bytes after n untouched -/
theorem buffer_fits (back : Bytes) (len : Nat) (chunks : List Bytes) (hfit : chunks.flatten.length ≤ len) :
    encodeObjectM back len chunks =
      (chunks.flatten.length, true, chunks.flatten ++ back.drop chunks.flatten.length) :=
  encodeObject_fits back len chunks hfit

/-- buffer too short: an error, n = 0 -/
theorem buffer_short (back : Bytes) (len : Nat) (chunks : List Bytes) (hs : len < chunks.flatten.length) :
    (encodeObjectM back len chunks).1 = 0 ∧ (encodeObjectM back len chunks).2.1 = false :=
  encodeObject_short back len chunks hs

/-- in both cases nothing behind len(buf) is written -/
theorem buffer_tail_untouched (back : Bytes) (len : Nat) (chunks : List Bytes) :
    (encodeObjectM back len chunks).2.2.drop len = back.drop len :=
  encodeObject_tail_untouched back len chunks

/-- the usual call, `buf := make([]byte, EncodedSize(v))`: success, n = len(buf), and the whole buffer is
    exactly the message -/
theorem exact_buffer_is_the_message (back : Bytes) (chunks : List Bytes)
    (hlen : back.length = chunks.flatten.length) :
    encodeObjectM back back.length chunks = (back.length, true, chunks.flatten) := by
  rw [encodeObject_fits back back.length chunks (by omega), ← hlen, List.drop_length, List.append_nil]

/-- the two halves together: a buffer of `EncodedSize(v)` bytes, whatever it held and however the encoder
    cuts its output, comes back as n = EncodedSize(v) and exactly the encoding of v -/
theorem sized_buffer_receives_the_encoding (S : Schema) (hS : S.ok = true) (sid : Nat) (v : Val)
    (ht : hasTy S (.strct sid) v = true) (back : Bytes) (chunks : List Bytes)
    (hch : chunks.flatten = appendM Generated.params S sid v)
    (hlen : back.length = sizeM Generated.params S sid v) :
    encodeObjectM back back.length chunks =
      (sizeM Generated.params S sid v, true, appendM Generated.params S sid v) := by
  rw [size_exact S hS sid v ht, ← hch] at hlen
  rw [exact_buffer_is_the_message back chunks hlen, hlen, size_exact S hS sid v ht, hch]

/-- frugal.go really is `Append(buf[:0:len(buf)], v)` + `len(ret) > len(buf)` (regenerated fact) -/
theorem code_follows_buffer_model : Generated.facts.bufferContract = true := Instances.facts_bufferContract

example : let S : Schema := [{ fields := [{ id := 1, req := .optional, ty := .map (.base .string) (.ptr (.strct 0)) }] }]
    S.ok = true ∧ hasTy S (.strct 0) (.st [.mp false [(.str [65], .nilp)]] []) = true := by decide
/-- the hand-written model of the encoder and size functions was written from, and validated against, code with exactly this
    control structure (guards, switches, loops, returns, call sequence): regenerated fingerprint =
    committed fingerprint of the unchanged tree -/
theorem model_written_from_this_code : Generated.facts.encoderSkeleton = Skeleton.encoder := Instances.skeleton_encoder
/-- the schema the theorems quantify over reaches the codec through the descriptor tables (field index
    by id, required ids, offsets, per-field flags and fixed sizes, the type node's tag / size / alignment /
    element nodes): the declarations `structDesc`, `tField`, `tType` and the functions that fill them in
    (`fromDefsFields`, `fromDefsField`, `GetField`, `newTType`) are, as full text, those the model and the
    correspondence runs were validated against (regenerated fingerprint) -/
theorem descriptor_tables_built_as_modelled : Generated.facts.descTableSkeleton = Skeleton.descTable :=
  Instances.skeleton_descTable

end Frugal.C04
