/- Property C15: the property theorems (and nothing else). -/
import Frugal.Decode
import Frugal.Props.Instances
namespace Frugal.C15
open Frugal
theorem recursion_discipline : Generated.facts.recursionDiscipline = true := Instances.facts_recursionDiscipline
theorem depth_constants : Generated.params.validDepth = true := Instances.valid_depth
/-- an exhausted budget is a depth error at both entry points -/
theorem zero_budget_struct (P : Params) (S : Schema) (t sid : Nat) (b : Bytes) (d : Val) :
    decodeStruct P S t 0 sid b d = .err .depth := by simp [decodeStruct]
theorem zero_budget_value (P : Params) (S : Schema) (t : Nat) (ty : Ty) (b : Bytes) (d : Val) :
    decodeType P S t 0 ty b d = .err .depth := by simp [decodeType]
end Frugal.C15
