/- Property C15: the property theorems (and nothing else). -/
import Frugal.Proofs.DepthProps
import Frugal.Proofs.DecodeRefine
import Frugal.Proofs.DepthBound
import Frugal.Proofs.FuelMono
import Frugal.Proofs.DecodeSafe
import Frugal.Props.Inst.Params
import Frugal.Props.Inst.F_facts_recursionDiscipline
import Frugal.Props.Inst.F_valid_depth
import Frugal.Props.Inst.F_skeleton_decoder
namespace Frugal.C15
open Frugal
theorem recursion_discipline : Generated.facts.recursionDiscipline = true := Instances.facts_recursionDiscipline
theorem depth_constants : Generated.params.validDepth = true := Instances.valid_depth
/-- an exhausted budget is a depth error at both entry points; every recursive call is made with
    the budget decreased by one (the definitions recurse structurally on it), so the recursion — and
    with it the Go stack — is bounded by the budget whatever the input length -/
theorem zero_budget_struct (P : Params) (S : Schema) (t sid : Nat) (b : Bytes) (d : Val) :
    decodeStruct P S t 0 sid b d = .err .depth := by simp [decodeStruct]
theorem zero_budget_value (P : Params) (S : Schema) (t : Nat) (ty : Ty) (b : Bytes) (d : Val) :
    decodeType P S t 0 ty b d = .err .depth := by simp [decodeType]

/-- a well-formed message nested no deeper than 48 levels (structs, lists, sets, maps in any
    mixture, known and unknown positions) is never rejected with a depth error -/
theorem shallow_always_accepted (S : Schema) (hS : S.ok = true) (sid : Nat) (fs : List (Nat × TVal))
    (trailing : Bytes) (dest : Val) (hw : wfFields fs = true) (hd : depth (.strct fs) ≤ 48) :
    (decodeM Generated.params S sid (ser (.strct fs) ++ trailing) dest).isDepthErr = false := by
  rw [decodeM_refines Instances.params_valid S hS sid fs trailing dest hw, mapv_isDepthErr]
  have hv := Instances.valid_depth
  simp only [Params.validDepth, Bool.and_eq_true, decide_eq_true_eq] at hv
  exact shallow_accepted _ S sid fs trailing.length dest hd hv.1 (skipDepth_eq Instances.params_valid)

/-- the other direction: whatever `DecodeObject` accepts is nested at most 1023 levels along the
    positions its schema recognises (`knownDepth`: one per struct / list / set / map reached through
    known fields with their declared wire type, elements, keys and values — whatever the mixture);
    induction over the reader (Proofs/DepthBound.lean), then C03 -/
theorem accepted_is_within_bound (S : Schema) (hS : S.ok = true) (sid : Nat) (fs : List (Nat × TVal))
    (trailing : Bytes) (dest w : Val) (n : Nat) (hw : wfFields fs = true)
    (h : decodeM Generated.params S sid (ser (.strct fs) ++ trailing) dest = .ok (w, n)) :
    knownDepth S (.strct sid) (.strct fs) ≤ 1023 := by
  rw [decodeM_refines Instances.params_valid S hS sid fs trailing _ hw] at h
  obtain ⟨w0, h0, _⟩ := mapv_ok_inv _ _ _ h
  have := readMessage_depth Generated.params S sid fs trailing.length dest w0 h0
  have hm : Generated.params.maxDepth = 1023 := rfl
  omega

/-- … so a well-formed message nested more deeply than that on a recognised path is rejected with an
    error, however long it is: never accepted (above), never a panic (C05), and the recursion is on
    the budget (`zero_budget_*`), not on the input. -/
theorem deeper_known_nesting_is_an_error (S : Schema) (hS : S.ok = true) (sid : Nat)
    (fs : List (Nat × TVal)) (trailing : Bytes) (dest : Val) (hw : wfFields fs = true)
    (hdeep : knownDepth S (.strct sid) (.strct fs) > 1023) :
    ∃ e, decodeM Generated.params S sid (ser (.strct fs) ++ trailing) dest = .err e := by
  have hp := decodeM_safe Instances.params_valid S sid (ser (.strct fs) ++ trailing) dest
  cases hres : decodeM Generated.params S sid (ser (.strct fs) ++ trailing) dest with
  | ok p =>
    obtain ⟨w, n⟩ := p
    have := accepted_is_within_bound S hS sid fs trailing dest w n hw hres
    omega
  | err e => exact ⟨e, rfl⟩
  | panic p => rw [hres] at hp; cases hp

/-- **the depth-limit error, not another one.**  The budget only ever turns an outcome into the
    depth-limit error (`readStruct_mono_add`, Proofs/FuelMono.lean: an outcome other than that error is
    the outcome under every larger budget).  Hence a well-formed message that is nested more deeply
    than the bound on a recognised path and is otherwise acceptable — some larger budget `1023 + k`
    would accept it — is rejected with exactly the depth-limit error. -/
theorem deep_but_otherwise_valid_is_the_depth_error (S : Schema) (hS : S.ok = true) (sid : Nat)
    (fs : List (Nat × TVal)) (trailing : Bytes) (dest : Val) (hw : wfFields fs = true)
    (hdeep : knownDepth S (.strct sid) (.strct fs) > 1023)
    (hvalid : ∃ k w, readStruct Generated.params S ((ser (.strct fs)).length + trailing.length)
      (1023 + k) sid fs trailing.length dest = .ok w) :
    decodeM Generated.params S sid (ser (.strct fs) ++ trailing) dest = .err .depth := by
  obtain ⟨k, w, hk⟩ := hvalid
  rw [decodeM_refines Instances.params_valid S hS sid fs trailing dest hw]
  have hm : Generated.params.maxDepth = 1023 := rfl
  unfold readMessage
  rw [hm]
  cases hnd : (readStruct Generated.params S ((ser (.strct fs)).length + trailing.length) 1023 sid fs
      trailing.length dest).isDepthErr with
  | true =>
    cases hr : readStruct Generated.params S ((ser (.strct fs)).length + trailing.length) 1023 sid fs
        trailing.length dest with
    | ok x => rw [hr] at hnd; cases hnd
    | panic p => rw [hr] at hnd; cases hnd
    | err e =>
      rw [hr] at hnd
      cases e <;> first | rfl | cases hnd
  | false =>
    exfalso
    have := readStruct_mono_add Generated.params S _ k 1023 sid fs trailing.length dest hnd
    rw [hk] at this
    have hacc : readMessage Generated.params S sid fs trailing.length dest = .ok w := by
      unfold readMessage; rw [hm]; exact this.symm
    have := readMessage_depth Generated.params S sid fs trailing.length dest w hacc
    omega

/-- skipped (unknown) data deeper than the skipper's own limit is a depth error, not a crash -/
theorem deep_unknown_is_depth_error (v : TVal) (r : Bytes) (hw : wf v = true)
    (hdeep : skipNeed v > Generated.params.skipDepth) :
    skipType Generated.params Generated.params.skipDepth v.tag (ser v ++ r) = .err .depth := by
  rw [skipType_ser Instances.params_valid v _ r hw]
  have : ¬ skipNeed v ≤ Generated.params.skipDepth := by omega
  simp [this]
/-- the theorems above that speak of `decodeM` / the reference reader are about the hand-written model
    of `Decode` / `decodeType` / `decodeStringNoCopy` / `decodeFixedSizeTypes` / `skipUnknown`
    (Decode.lean), written from exactly this control structure of the code (regenerated fingerprint) -/
theorem decoder_model_written_from_this_code : Generated.facts.decoderSkeleton = Skeleton.decoder :=
  Instances.skeleton_decoder

end Frugal.C15
