/- Property C15: the property theorems (and nothing else). -/
import Frugal.Proofs.DepthProps
import Frugal.Proofs.DecodeRefine
import Frugal.Props.Instances
namespace Frugal.C15
open Frugal
theorem recursion_discipline : Generated.facts.recursionDiscipline = true := Instances.facts_recursionDiscipline
theorem depth_constants : Generated.params.validDepth = true := Instances.valid_depth
/-- an exhausted budget is a depth error at both entry points; every recursive call is made with
    the budget decreased by one (the definitions recurse structurally on it), so the recursion — and
    with it the Go stack — is bounded by the budget whatever the input length -/
theorem zero_budget_struct (P : Params) (S : Schema) (t sid : Nat) (b : Bytes) (d : Val) :
    decodeStruct P S t 0 sid b d = .err .depth := by simp [decodeStruct]
theorem zero_budget_value (P : Params) (S : Schema) (t : Nat) (ty : Ty) (b : Bytes) (d : Val) :
    decodeType P S t 0 ty b d = .err .depth := by simp [decodeType]

/-- a well-formed message nested no deeper than 48 levels (structs, lists, sets, maps in any
    mixture, known and unknown positions) is never rejected with a depth error -/
theorem shallow_always_accepted (S : Schema) (hS : S.ok = true) (sid : Nat) (fs : List (Nat × TVal))
    (trailing : Bytes) (dest : Val) (hw : wfFields fs = true) (hd : depth (.strct fs) ≤ 48) :
    (decodeM Generated.params S sid (ser (.strct fs) ++ trailing) dest).isDepthErr = false := by
  rw [decodeM_refines Instances.params_valid S hS sid fs trailing dest hw, mapv_isDepthErr]
  have hv := Instances.valid_depth
  simp only [Params.validDepth, Bool.and_eq_true, decide_eq_true_eq] at hv
  exact shallow_accepted _ S sid fs trailing.length dest hd hv.1 (skipDepth_eq Instances.params_valid)

/-- skipped (unknown) data deeper than the skipper's own limit is a depth error, not a crash -/
theorem deep_unknown_is_depth_error (v : TVal) (r : Bytes) (hw : wf v = true)
    (hdeep : skipNeed v > Generated.params.skipDepth) :
    skipType Generated.params Generated.params.skipDepth v.tag (ser v ++ r) = .err .depth := by
  rw [skipType_ser Instances.params_valid v _ r hw]
  have : ¬ skipNeed v ≤ Generated.params.skipDepth := by omega
  simp [this]
end Frugal.C15
