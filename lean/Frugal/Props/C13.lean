/- Property C13: the property theorems (and nothing else). Proofs are in Proofs/TagsOk.lean and
   Proofs/TagsSpec.lean. -/
import Frugal.Tags
import Frugal.Proofs.TagsSpec
import Frugal.Proofs.TagsSpell
import Frugal.Proofs.BuildCacheLemmas
import Frugal.Props.Inst.F_skeleton_resolver
import Frugal.Props.Inst.F_skeleton_residualDefs
namespace Frugal.C13
open Frugal

/-- nested pointers are refused at every position -/
theorem ptr_to_ptr_rejected (e : GoTy) (hasDef : Bool) (d : List Char) (allow : Bool) :
    doParseType (.ptr (.ptr e)) hasDef d allow = none := ptr_ptr_none e hasDef d allow

/-- pointers to containers are refused -/
theorem ptr_to_container_rejected (e : GoTy) (hasDef : Bool) (d : List Char) (allow : Bool)
    (he : (∃ x, e = .slice x ∧ x ≠ .prim .uint8 "uint8") ∨ (∃ k v, e = .map k v)) :
    doParseType (.ptr e) hasDef d allow = none := ptr_to_container_none e hasDef d allow he

/-- a pointer is accepted only where allowed, and only to a scalar/string/binary or a struct -/
theorem ptr_only_to_value_or_struct (e : GoTy) (hasDef : Bool) (d : List Char) (allow : Bool)
    (t : Ty) (r : List Char) (h : doParseType (.ptr e) hasDef d allow = some (t, r)) :
    allow = true ∧ ∃ t', t = .ptr t' ∧ doParseType e hasDef d false = some (t', r) ∧
      ((∃ k, t' = .base k) ∨ (∃ s, t' = .strct s)) := ptr_result e hasDef d allow t r h

/-- Go kinds Thrift cannot express are refused (and these are all of them) -/
theorem unsupported_kind_rejected (k : GoKind) (nm : String) (hasDef : Bool) (d : List Char)
    (allow : Bool) (hk : k ∈ [GoKind.uint, .uint8, .uint16, .uint32, .uint64, .uintptr, .float32,
      .complex64, .complex128, .chan, .func, .iface, .unsafeptr]) :
    doParseType (.prim k nm) hasDef d allow = none :=
  unsupported_kind_none k nm hasDef d allow ((unsupported_kinds k).2 hk)

theorem array_rejected (n : Nat) (e : GoTy) (hasDef : Bool) (d : List Char) (allow : Bool) :
    doParseType (.arr n e) hasDef d allow = none := array_none n e hasDef d allow

/-- a slice without a list/set annotation -/
theorem slice_without_annotation_rejected (e : GoTy) (d : List Char) (allow : Bool)
    (he : e ≠ .prim .uint8 "uint8") : doParseType (.slice e) false d allow = none :=
  slice_without_annotation_none e d allow he

/-- map keys are scalars, strings or struct pointers; map values and list elements are values
    or struct pointers — anything else is refused -/
theorem map_key_value_types (k v : GoTy) (hasDef : Bool) (d : List Char) (allow : Bool) (t : Ty)
    (r : List Char) (h : doParseType (.map k v) hasDef d allow = some (t, r)) :
    ∃ kt vt, t = .map kt vt ∧
      ((∃ b, kt = .base b ∧ b ≠ .binary) ∨ (∃ s, kt = .ptr (.strct s))) ∧
      (vt.isPtr = false ∨ ∃ s, vt = .ptr (.strct s)) := by
  obtain ⟨kt, vt, rfl, hk, hv⟩ := map_result k v hasDef d allow t r h
  exact ⟨kt, vt, rfl, (key_types kt).1 hk, (value_types vt).1 hv⟩

/-- non-numeric, empty or out-of-range ids -/
theorem bad_id_rejected (hasInit : Bool) (gf : GoField) (idS : List Char) (r : List (List Char))
    (h : idS = [] ∨ idS.all Char.isDigit = false ∨
      65536 ≤ idS.foldl (fun a c => a * 10 + (c.toNat - 48)) 0) :
    resolveField hasInit gf (idS :: r) = none := by
  apply resolveField_bad_id
  rcases h with rfl | h | h
  · exact parseU16_empty
  · exact parseU16_nondigit h
  · exact parseU16_range h

/-- unknown requiredness word -/
theorem bad_requiredness_rejected (hasInit : Bool) (gf : GoField) (idS reqS : List Char)
    (r : List (List Char))
    (h : reqS ≠ "default".toList ∧ reqS ≠ "required".toList ∧ reqS ≠ "optional".toList) :
    resolveField hasInit gf (idS :: reqS :: r) = none := by
  apply resolveField_bad_req
  cases hp : parseReq reqS with
  | none => rfl
  | some q =>
    have := (parseReq_words reqS).1 (by rw [hp]; simp)
    rcases this with h' | h' | h'
    · exact absurd h' h.1
    · exact absurd h' h.2.1
    · exact absurd h' h.2.2

/-- an annotation the Go type does not admit (contradicting or syntactically broken) -/
theorem bad_annotation_rejected (hasInit : Bool) (gf : GoField) (idS reqS tyS : List Char)
    (r : List (List Char)) (h : parseType gf.ty tyS = none) :
    resolveField hasInit gf (idS :: reqS :: tyS :: r) = none :=
  resolveField_bad_type hasInit gf idS reqS tyS r h

/-- … in particular text after a complete type (D19) and a keyword that is only *part* of the kind's
    keyword (D18): an accepted annotation is consumed to its end, and a scalar is named by its whole
    keyword, by nothing, or by the Go type's own name -/
theorem annotation_consumed_to_the_end (vt : GoTy) (d : List Char) (t : Ty) (h : parseType vt d = some t) :
    ∃ r sp, doParseType vt (!d.isEmpty) d true = some (t, r) ∧ readToken r true = some ([], sp) := by
  unfold parseType at h
  split at h
  · cases h
  · rename_i t' r hp
    split at h
    · rename_i sp hr
      simp only [Option.some.injEq] at h
      subst h
      exact ⟨r, sp, hp, hr⟩
    · cases h

theorem keyword_is_a_whole_word (tag : DTag) (tv : List Char) :
    isKeyword tag tv = (keywordsOf tag).contains tv := rfl

/-- an annotation that contradicts the Go type, for a field of *anonymous* struct type as well (D25): such a
    struct answers to any name, but not to the keyword of another type — `i64`, `string`, `double`, `bool`,
    `list`, … are mistyped annotations for it, as they are for a named struct -/
theorem anonymous_struct_rejects_other_types (sid : Nat) (kw rest : List Char) (hk : identLike kw)
    (hrest : stopsIdent rest) (hkw : isTypeKeyword kw = true) (hs : isKeyword .strct kw = false)
    (hend : ∃ tok sp, readToken rest true = some (tok, sp) ∧ (tok = [] ∨ tok = [':'] ∨ tok = ['>'])) :
    matchAnnot (.strct "" sid) .strct (kw ++ rest) = none :=
  anon_struct_keyword_mistyped sid kw rest hk hrest hkw hs hend

example : parseType (.strct "" 0) "i64".toList = none ∧ parseType (.strct "" 0) "string".toList = none ∧
    parseType (.slice (.strct "" 0)) "list<string>".toList = none ∧
    parseType (.map (.prim .string "string") (.strct "" 0)) "map<string:bool>".toList = none ∧
    parseType (.strct "" 0) "Item".toList = some (.strct 0) ∧
    parseType (.strct "" 0) "struct".toList = some (.strct 0) := by decide

example : isKeyword .i64 "i6".toList = false ∧ isKeyword .i64 "6".toList = false ∧
    isKeyword .strct "t".toList = false ∧ isKeyword .strct "str".toList = false ∧
    isKeyword .i8 "byte".toList = true ∧ isKeyword .i8 "i8".toList = true ∧
    isKeyword .i8 "i8 byte".toList = false := by decide

/-- unknown options; `nocopy` on a non-string; `nocopy` twice -/
theorem bad_option_rejected (hasInit : Bool) (gf : GoField) (idS reqS tyS o : List Char)
    (r : List (List Char)) (h : o ≠ "nocopy".toList) :
    resolveField hasInit gf (idS :: reqS :: tyS :: o :: r) = none :=
  resolveField_bad_opts hasInit gf idS reqS tyS (o :: r) (fun ty => parseOpts_unknown ty o r false h)

theorem nocopy_twice_rejected (hasInit : Bool) (gf : GoField) (idS reqS tyS : List Char)
    (r : List (List Char)) :
    resolveField hasInit gf (idS :: reqS :: tyS :: "nocopy".toList :: "nocopy".toList :: r) = none :=
  resolveField_bad_opts hasInit gf idS reqS tyS _ (fun ty => parseOpts_nocopy_twice ty r)

theorem nocopy_only_on_strings (hasInit : Bool) (gf : GoField) (ft : List (List Char)) (f : Field)
    (h : resolveField hasInit gf ft = some f) (hn : f.nocopy = true) : f.ty.tt = .string := by
  have := resolveField_ok hasInit gf ft f h
  simp only [Field.ok, Bool.and_eq_true, Bool.or_eq_true, Bool.not_eq_true', beq_iff_eq] at this
  rcases this.1.2 with h1 | h1
  · rw [hn] at h1; cases h1
  · exact h1

/-- only optional fields or structs can be pointers -/
theorem non_optional_scalar_ptr_rejected (hasInit : Bool) (gf : GoField) (ft : List (List Char))
    (f : Field) (h : resolveField hasInit gf ft = some f) (hp : f.ty.isPtr = true) :
    f.req = .optional ∨ f.ty.isStructPtr = true := resolveField_ptr_rule hasInit gf ft f h hp

/-- a tagged field that does not resolve rejects its struct -/
theorem one_bad_field_rejects_struct (gs : GoStruct) (pre post : List GoField) (gf : GoField)
    (ft : List (List Char)) (hfields : gs.fields = pre ++ gf :: post)
    (hpre : ∀ g ∈ pre, g.anonymous = true ∨ g.exported = false ∨ lookupStructTag g.tag = none)
    (h0 : gf.anonymous = false) (h1 : gf.exported = true)
    (ht : lookupStructTag gf.tag = some ft) (hf : resolveField gs.hasInit gf ft = none) :
    resolveStruct gs = none := by
  unfold resolveStruct
  rw [hfields]
  clear hfields
  have : resolveFieldsAux gs.hasInit (pre ++ gf :: post) [] = none := by
    induction pre with
    | nil => exact bad_field_rejects _ gf post [] ft h0 h1 ht hf
    | cons g pre ih =>
      rw [List.cons_append, ignored_fields _ g _ [] (hpre g (by simp))]
      exact ih (fun x hx => hpre x (List.mem_cons_of_mem _ hx))
  rw [this]

/-- duplicate ids reject the struct: an accepted struct has pairwise distinct ids -/
theorem duplicate_ids_rejected (gs : GoStruct) (sd : SDesc) (h : resolveStruct gs = some sd) :
    sd.fields.Pairwise (fun a b => a.id < b.id) := (resolveStruct_fields gs sd h).1

/-- a type is accepted exactly when every struct reachable from it (through fields, elements,
    keys, values, pointers; itself included) resolves -/
theorem accepted_iff_all_reachable_resolve (U : Universe) (sid : Nat) :
    accepted U sid = true ↔ BGood (resolveAll U) (sid, false) :=
  useType_ok_iff (resolveAll U) sid {} (cinv_empty _)

/-- a type whose own definition is rejected is not accepted -/
theorem accepted_needs_own_definition (U : Universe) (sid : Nat) (h : accepted U sid = true) :
    ∃ sd, (resolveAll U).getD sid none = some sd :=
  good_resolves _ ((accepted_iff_all_reachable_resolve U sid).1 h)

/-- … nor is a type that nests a rejected one, at any depth -/
theorem nested_rejected_rejects (U : Universe) (sid : Nat) (k : BKey)
    (hreach : BReach (resolveAll U) (sid, false) k) (hbad : (resolveAll U).getD k.1 none = none) :
    accepted U sid = false := by
  cases h : accepted U sid with
  | false => rfl
  | true =>
    have := (accepted_iff_all_reachable_resolve U sid).1 h k hreach
    unfold bres at this
    rw [hbad] at this
    cases this

/-- the rejection is the same on every call: after any history of uses (successful or failed, of
    this type or others, first met on its own or nested) the outcome is that of a fresh process -/
theorem same_outcome_after_any_history (U : Universe) (hist : List Nat) (sid : Nat) :
    (useType (resolveAll U) sid (useAll (resolveAll U) hist {})).1 = accepted U sid :=
  use_history_independent (resolveAll U) hist sid

/-- a rejected use stores nothing: the descriptor caches are exactly as before the call -/
theorem rejected_use_stores_nothing (U : Universe) (sid : Nat) (st : CacheSt)
    (h : (useType (resolveAll U) sid st).1 = false) : (useType (resolveAll U) sid st).2 = st :=
  useType_fail_unchanged (resolveAll U) sid st h

/-- … and so does not affect other types: whatever is in the caches is accepted -/
theorem caches_hold_only_accepted (U : Universe) (hist : List Nat) :
    CInv (resolveAll U) (useAll (resolveAll U) hist {}) :=
  useAll_inv (resolveAll U) hist {} (cinv_empty _)

/-- arguments that are not a (pointer to a) struct: EncodedSize panics with an ordinary Go panic,
    EncodeObject and DecodeObject return errors -/
theorem bad_argument_outcome (kind : String)
    (h : kind ∈ ["nil", "int", "ptrint", "ptrptr", "slice", "map", "string", "func", "chan"]) :
    argOutcome kind = "panic:ordinary err err" := by
  simp only [List.mem_cons, List.not_mem_nil, or_false] at h
  rcases h with rfl | rfl | rfl | rfl | rfl | rfl | rfl | rfl | rfl <;> decide

/-- the hand-written model of the resolver functions was written from, and validated against, code with exactly this
    control structure (guards, switches, loops, returns, call sequence): regenerated fingerprint =
    committed fingerprint of the unchanged tree -/
theorem model_written_from_this_code : Generated.facts.resolverSkeleton = Skeleton.resolver := Instances.skeleton_resolver
/-- the rest of `internal/defs` — every function and package-level declaration that the resolver fingerprint does not cover (the error constructors, `Type` and its methods, the keyword and option tables, `T_int`, the caching resolver) — is, as full text, that of the tree the model was written from (R4 rewrote two character predicates nothing was watching) -/
theorem rest_of_resolver_package_as_modelled : Generated.facts.residualDefsSkeleton = Skeleton.residualDefs := Instances.skeleton_residualDefs

end Frugal.C13
