/- Property C13: the property theorems (and nothing else). -/
import Frugal.Tags
import Frugal.Props.Instances
namespace Frugal.C13
open Frugal
/-- nested pointers are refused at every position -/
theorem ptr_to_ptr_rejected (e : GoTy) (hasDef : Bool) (d : List Char) (allow : Bool) :
    doParseType (.ptr (.ptr e)) hasDef d allow = none := by
  cases allow <;> simp [doParseType]
end Frugal.C13
