/- Property C14: the property theorems (and nothing else). -/
import Frugal.Proofs.DecodeRefine
import Frugal.Props.Instances
namespace Frugal.C14
open Frugal
/-- a zero-length value never references the input buffer, nocopy or not -/
theorem empty_never_views (isBin nocopy : Bool) (total : Nat) (r : Bytes) :
    decodeStr isBin nocopy total (0 :: 0 :: 0 :: 0 :: r) = .ok (if isBin then .bin false [] else .str [], r) := by
  simp [decodeStr, rd32]

/-- a non-empty nocopy value is a view of exactly its bytes: the offset is where the value's bytes
    start in the input (the 4-byte length prefix is skipped), the length is the value's, no spare
    capacity is modelled (cap = len) -/
theorem nocopy_views_value_bytes (isBin : Bool) (total : Nat) (s r : Bytes) (hs : s ≠ [])
    (hw : s.length < 2147483648) :
    decodeStr isBin true total (ser (.str s) ++ r) =
      .ok (if isBin then .vbin (total - (s.length + r.length)) s else .vstr (total - (s.length + r.length)) s, r) := by
  rw [decodeStr_ser isBin true total s r hw]
  have : ¬ s.length = 0 := fun h => hs (List.length_eq_zero_iff.mp h)
  simp [readStr, this, Outcome.mapv]

/-- without the option the value is copied: never a view -/
theorem copy_never_views (isBin : Bool) (total : Nat) (s r : Bytes) (hw : s.length < 2147483648) :
    decodeStr isBin false total (ser (.str s) ++ r) =
      .ok (if s.length = 0 then (if isBin then .bin false [] else .str []) else (if isBin then .bin false s else .str s), r) := by
  rw [decodeStr_ser isBin false total s r hw]
  by_cases h : s.length = 0 <;> simp [readStr, h, Outcome.mapv]
end Frugal.C14
