/- Property C14: the property theorems (and nothing else). -/
import Frugal.Decode
import Frugal.Props.Instances
namespace Frugal.C14
open Frugal
/-- a zero-length value never references the input buffer, nocopy or not -/
theorem empty_never_views (isBin nocopy : Bool) (total : Nat) (r : Bytes) :
    decodeStr isBin nocopy total (0 :: 0 :: 0 :: 0 :: r) = .ok (if isBin then .bin false [] else .str [], r) := by
  simp [decodeStr, rd32]
end Frugal.C14
