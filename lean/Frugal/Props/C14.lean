/- Property C14: the property theorems (and nothing else). -/
import Frugal.Proofs.DecodeRefine
import Frugal.Proofs.ViewsLemmas
import Frugal.Props.Inst.Params
import Frugal.Props.Inst.F_skeleton_decoder
import Frugal.Props.Inst.F_skeleton_descTable
import Frugal.Props.Inst.F_skeleton_resolver
namespace Frugal.C14
open Frugal
/-- a zero-length value never references the input buffer, nocopy or not -/
theorem empty_never_views (isBin nocopy : Bool) (total : Nat) (r : Bytes) :
    decodeStr isBin nocopy total (0 :: 0 :: 0 :: 0 :: r) = .ok (if isBin then .bin false [] else .str [], r) := by
  simp [decodeStr, rd32]

/-- a non-empty nocopy value is a view of exactly its bytes: the offset is where the value's bytes
    start in the input (the 4-byte length prefix is skipped), the length is the value's, no spare
    capacity is modelled (cap = len) -/
theorem nocopy_views_value_bytes (isBin : Bool) (total : Nat) (s r : Bytes) (hs : s ≠ [])
    (hw : s.length < 2147483648) :
    decodeStr isBin true total (ser (.str s) ++ r) =
      .ok (if isBin then .vbin (total - (s.length + r.length)) s else .vstr (total - (s.length + r.length)) s, r) := by
  rw [decodeStr_ser isBin true total s r hw]
  have : ¬ s.length = 0 := fun h => hs (List.length_eq_zero_iff.mp h)
  simp [readStr, this, Outcome.mapv]

/-- without the option the value is copied: never a view -/
theorem copy_never_views (isBin : Bool) (total : Nat) (s r : Bytes) (hw : s.length < 2147483648) :
    decodeStr isBin false total (ser (.str s) ++ r) =
      .ok (if s.length = 0 then (if isBin then .bin false [] else .str []) else (if isBin then .bin false s else .str s), r) := by
  rw [decodeStr_ser isBin false total s r hw]
  by_cases h : s.length = 0 <;> simp [readStr, h, Outcome.mapv]

/-- **C14 for the whole decoder.**  Whatever well-formed message `DecodeObject` is given (any field
    order, duplicates, unknown fields, nesting, trailing bytes) and whatever destination without views
    it decodes into, in the value it returns a view of the input occurs only as the value of a field
    declared `nocopy` (plain or optional-pointer form, at any nesting level), and every such view
    `(off, s)` is non-empty and is exactly `input[off : off + len s]` (`viewsExact`, Views.lean); in
    particular no field without the option references the buffer and a zero-length value does not. -/
theorem decoded_views_exact (S : Schema) (hS : S.ok = true)
    (hdf : ∀ sid, ∀ f ∈ (S.get sid).fields, ∀ d, f.dflt = some d → plain d = true)
    (sid : Nat) (fs : List (Nat × TVal)) (trailing : Bytes) (vs : List Val) (hh : Bytes) (w : Val) (n : Nat)
    (hw : wfFields fs = true) (hdest : plainList vs = true)
    (h : decodeM Generated.params S sid (ser (.strct fs) ++ trailing) (.st vs hh) = .ok (w, n)) :
    viewsExact S (ser (.strct fs) ++ trailing) (.strct sid) w = true := by
  rw [decodeM_refines Instances.params_valid S hS sid fs trailing _ hw] at h
  obtain ⟨w0, h0, e⟩ := mapv_ok_inv _ _ _ h
  simp only [Prod.mk.injEq] at e
  obtain ⟨rfl, _⟩ := e
  exact readMessage_views Generated.params S _ hdf sid fs trailing vs hh _ rfl hdest h0

/-- what `viewsExact` says at a field: a `nocopy` field holds a value all of whose views are exact,
    any other field a value in which views occur only below `nocopy` fields -/
theorem views_at_fields (S : Schema) (inp : Bytes) (f : Field) (fr : List Field) (x : Val) (xr : List Val) :
    viewsExactFields S inp (f :: fr) (x :: xr) =
      ((if f.nocopy then viewsAt inp x else viewsExact S inp f.ty x) && viewsExactFields S inp fr xr) := by
  simp [viewsExactFields]

/-- … and a view is exact when it is the bytes at its offset, non-empty -/
theorem view_is_exact (inp : Bytes) (off : Nat) (s : Bytes) :
    viewsAt inp (.vstr off s) = (decide ((inp.drop off).take s.length = s) && !s.isEmpty) := by
  simp [viewsAt]

/-- a scalar / string / binary position that is not a `nocopy` field never holds a view -/
theorem base_never_views (S : Schema) (inp : Bytes) (k : Kind) (off : Nat) (s : Bytes) :
    viewsExact S inp (.base k) (.vstr off s) = false ∧ viewsExact S inp (.base k) (.vbin off s) = false := by
  constructor <;> simp [viewsExact, plain]
/-- the theorems above that speak of `decodeM` / the reference reader are about the hand-written model
    of `Decode` / `decodeType` / `decodeStringNoCopy` / `decodeFixedSizeTypes` / `skipUnknown`
    (Decode.lean), written from exactly this control structure of the code (regenerated fingerprint) -/
theorem decoder_model_written_from_this_code : Generated.facts.decoderSkeleton = Skeleton.decoder :=
  Instances.skeleton_decoder

/-- the schema the theorems quantify over reaches the codec through the descriptor tables (field index
    by id, required ids, offsets, per-field flags and fixed sizes, the type node's tag / size / alignment /
    element nodes): the declarations `structDesc`, `tField`, `tType` and the functions that fill them in
    (`fromDefsFields`, `fromDefsField`, `GetField`, `newTType`) are, as full text, those the model and the
    correspondence runs were validated against (regenerated fingerprint) -/
theorem descriptor_tables_built_as_modelled : Generated.facts.descTableSkeleton = Skeleton.descTable :=
  Instances.skeleton_descTable

/-- what a field is *declared* to be — required / optional, `nocopy`, the holder — is read from the
    struct tags by the resolver (`DoResolveFields`, `lookupStructTag`, the annotation parser,
    `newStructDesc`, `fromDefsField`): the model of it (Tags.lean) was written from exactly this control
    structure of the code (regenerated fingerprint; C12 / C13 prove what the model does) -/
theorem schema_read_from_tags_as_modelled : Generated.facts.resolverSkeleton = Skeleton.resolver :=
  Instances.skeleton_resolver

end Frugal.C14
