/- Property C01: the property theorems (and nothing else). -/
import Frugal.Proofs.RoundTrip
import Frugal.Proofs.NormFacts
import Frugal.Proofs.ClearNocopy2
import Frugal.Proofs.RoundTripHolder
import Frugal.Proofs.ReadNormH
import Frugal.Proofs.BufferLemmas
import Frugal.Props.Inst.Params
import Frugal.Props.Inst.F_valid_depth
import Frugal.Props.Inst.F_skeleton_decoder
import Frugal.Props.Inst.F_skeleton_encoder
import Frugal.Props.Inst.F_skeleton_descTable
import Frugal.Props.Inst.F_skeleton_residualReflect
namespace Frugal.C01
open Frugal

/-- (wire level) parsing the serialisation of a well-formed value gives the value back and
    consumes exactly its bytes, whatever follows. -/
theorem wire_roundtrip (v : TVal) (fuel : Nat) (r : Bytes) (hw : wf v = true) (hd : depth v < fuel) :
    parse fuel v.tag (ser v ++ r) = some (v, r) := parse_ser v fuel r hw hd

/-- the bytes frugal writes are the reference encoding (input half of the round trip) -/
theorem encode_is_reference (S : Schema) (hS : S.ok = true) (sid : Nat) (v : Val)
    (ht : hasTy S (.strct sid) v = true) :
    appendM Generated.params S sid v = refEncStruct S sid v :=
  appendAny_eq Instances.params_valid S hS v (.strct sid) rfl ht

/-- Encode then decode, stated through the reference reader (kept: it needs no side condition on
    the schema and holds for every destination, typed or not). -/
theorem roundtrip_partial (S : Schema) (hS : S.ok = true) (sid : Nat) (xs : List Val) (dest : Val)
    (ht : hasTy S (.strct sid) (.st xs []) = true) (hn : noHolderList xs = true)
    (hf : sizesFitList xs = true) :
    decodeM Generated.params S sid (appendM Generated.params S sid (.st xs [])) dest =
      (readMessage Generated.params S sid (messageOf S sid (.st xs [])) 0 dest).mapv
        (·, (appendM Generated.params S sid (.st xs [])).length) :=
  roundtrip_via_reader Instances.params_valid S hS sid xs dest ht hn hf

/-- **C01.** For every accepted schema and every value `v` of a struct type of it (typed; lengths
    within int32; nesting at most 511 levels; a written nil struct pointer only where the struct has
    no required field), encoding `v` with the model of frugal's encoder as written and decoding the
    bytes with the model of its decoder as written into any destination of the type succeeds,
    consumes exactly the encoded length, and yields `normTop v dest`: the destination with every
    written field replaced by the field's normal form (`Norm.lean`, spelled out by the theorems
    below) and every omitted field left as the destination had it. -/
theorem roundtrip (S : Schema) (hS : S.ok = true) (hside : S.rtSide) (sid : Nat) (xs ds : List Val)
    (h' : Bytes) (ht : hasTy S (.strct sid) (.st xs []) = true)
    (hdest : hasTy S (.strct sid) (.st ds h') = true)
    (hn : noHolderList xs = true) (hf : sizesFitList xs = true)
    (hr : rtOK S (.strct sid) (.st xs []) = true)
    (hd : depth (toWire S (.strct sid) (.st xs [])) ≤ 511) :
    decodeM Generated.params S sid (appendM Generated.params S sid (.st xs [])) (.st ds h') =
      .ok (normTop S sid (.st xs []) (.st ds h'),
           (appendM Generated.params S sid (.st xs [])).length) := by
  apply roundtrip_full Instances.params_valid S hS hside sid xs ds h' ht hdest hn hf hr
  have hv := Instances.valid_depth
  simp only [Params.validDepth, Bool.and_eq_true, decide_eq_true_eq] at hv
  have : Generated.params.maxDepth = 1023 := rfl
  omega

/-- `roundtrip` through the public entry points and the caller's memory: `EncodeObject` into any buffer
    that is long enough (whatever it held, however the encoder cuts its output) succeeds with `n`, and
    decoding `buf[:n]` gives `normTop v dest` and consumes `n`.  (The buffer model's tie to frugal.go is
    `C04.code_follows_buffer_model`.) -/
theorem roundtrip_through_caller_buffer (S : Schema) (hS : S.ok = true) (hside : S.rtSide) (sid : Nat)
    (xs ds : List Val) (h' : Bytes) (ht : hasTy S (.strct sid) (.st xs []) = true)
    (hdest : hasTy S (.strct sid) (.st ds h') = true)
    (hn : noHolderList xs = true) (hf : sizesFitList xs = true)
    (hr : rtOK S (.strct sid) (.st xs []) = true)
    (hd : depth (toWire S (.strct sid) (.st xs [])) ≤ 511)
    (back : Bytes) (chunks : List Bytes)
    (hch : chunks.flatten = appendM Generated.params S sid (.st xs []))
    (hfit : chunks.flatten.length ≤ back.length) :
    (encodeObjectM back back.length chunks).2.1 = true ∧
    decodeM Generated.params S sid
        ((encodeObjectM back back.length chunks).2.2.take (encodeObjectM back back.length chunks).1)
        (.st ds h') =
      .ok (normTop S sid (.st xs []) (.st ds h'), (encodeObjectM back back.length chunks).1) := by
  rw [encodeObject_fits back back.length chunks hfit]
  simp only [List.take_left']
  rw [hch]
  exact ⟨trivial, roundtrip S hS hside sid xs ds h' ht hdest hn hf hr hd⟩

/-- **C01 with retained unknown fields** (hypothesis (iv) of `roundtrip` removed at the top level).
    A value `.st xs h` whose holder `h` is the serialisation of well-formed fields `us` that the schema
    does not recognise — what a decode leaves there (C11) — with skippable nesting (≤ 64): encode, then
    decode into any destination of the type succeeds, consumes exactly the encoded length, returns the
    recognised fields in normal form and the holder **byte for byte** (`h` again; for a type without
    the holder `h` is empty by typing and the destination's is kept).  The field values `xs` themselves
    are holder-free here (a nested holder is re-emitted and re-read by the same argument one level
    down: `C11.intermediary_loses_nothing`, not composed into a round-trip statement). -/
theorem roundtrip_with_top_holder (S : Schema) (hS : S.ok = true) (hside : S.rtSide) (sid : Nat)
    (xs ds : List Val) (h h' : Bytes) (us : List (Nat × TVal))
    (hser : serFields us = h) (hwu : wfFields us = true)
    (hunk : ∀ p ∈ us, lookupKnown (S.get sid) p.1 p.2.tag = none ∧ skipNeed p.2 ≤ 64)
    (ht : hasTy S (.strct sid) (.st xs h) = true) (hdest : hasTy S (.strct sid) (.st ds h') = true)
    (hn : noHolderList xs = true) (hf : sizesFitList xs = true)
    (hr : rtOK S (.strct sid) (.st xs h) = true)
    (hd : depth (toWire S (.strct sid) (.st xs h)) ≤ 511) :
    decodeM Generated.params S sid (appendM Generated.params S sid (.st xs h)) (.st ds h') =
      .ok (.st (normFields S (S.get sid) (S.get sid).fields xs ds)
            (if (S.get sid).hasHolder && h.length > 0 then h else h'),
           (appendM Generated.params S sid (.st xs h)).length) := by
  have hsk : Generated.params.skipDepth = 64 := rfl
  apply roundtrip_top_holder Instances.params_valid S hS hside sid xs ds h h' us hser hwu
    (by rw [hsk]; exact hunk) ht hdest hn hf hr
  have : Generated.params.maxDepth = 1023 := rfl
  omega

/-- **C01 with retained unknown fields at every nesting level.**  `v = .st xs h` may carry holder bytes
    in any struct it contains (inside pointers, list / set elements, map keys and values): each is the
    serialisation of well-formed fields (`fitH`) that the struct holding them does not recognise and
    the skipper can skip (`unkOK`: what a decode leaves there, C11).  Encode, then decode into any
    destination of the type: success, exactly the encoded length, and `normTopH v dest` — the normal
    form of `roundtrip` in which, in addition, every struct that carried retained bytes (and whose type
    declares the holder) has them back **byte for byte**, and one that carried none has what its
    destination had. -/
theorem roundtrip_with_nested_holders (S : Schema) (hS : S.ok = true) (hside : S.rtSide) (sid : Nat)
    (xs ds : List Val) (h h' : Bytes)
    (ht : hasTy S (.strct sid) (.st xs h) = true) (hdest : hasTy S (.strct sid) (.st ds h') = true)
    (hfit : fitH (.st xs h) = true) (hu : unkOK Generated.params S (.strct sid) (.st xs h) = true)
    (hr : rtOK S (.strct sid) (.st xs h) = true)
    (hd : depth (toWireH S (.strct sid) (.st xs h)) ≤ 511) :
    decodeM Generated.params S sid (appendM Generated.params S sid (.st xs h)) (.st ds h') =
      .ok (normTopH S sid (.st xs h) (.st ds h'),
           (appendM Generated.params S sid (.st xs h)).length) := by
  apply roundtrip_holders Instances.params_valid S hS hside sid xs ds h h' ht hdest hfit hu hr
  have : Generated.params.maxDepth = 1023 := rfl
  omega

/-- not vacuous: `Outer{1: *Inner, holder}`, `Inner{1: i32, holder}`, a value carrying an unknown string
    field 8 at the top and an unknown i32 field 9 in the nested struct meets every hypothesis, and its
    normal form over an empty destination is the value itself, both holders included -/
def exSH : Schema :=
  [ { fields := [{ id := 1, req := .optional, ty := .ptr (.strct 1) }], hasHolder := true },
    { fields := [{ id := 1, req := .dflt, ty := .base .i32 }], hasHolder := true } ]
def exVH : Val := .st [.ptr (.st [.sc 5] (serFields [(9, .i32 7)]))] (serFields [(8, .str [1, 2])])
example : exSH.ok = true ∧ hasTy exSH (.strct 0) exVH = true ∧ hasTy exSH (.strct 0) (.st [.nilp] []) = true ∧
    fitH exVH = true ∧ unkOK Generated.params exSH (.strct 0) exVH = true ∧ rtOK exSH (.strct 0) exVH = true ∧
    depth (toWireH exSH (.strct 0) exVH) ≤ 511 := by decide
example : normTopH exSH 0 exVH (.st [.nilp] []) = exVH := by rfl

/-- on values without holder bytes this is `roundtrip`'s normal form -/
theorem nested_holder_normal_form_extends (S : Schema) (t : Ty) (v d : Val) (hn : noHolder v = true) :
    normH S t v d = norm S t v d := normH_of_noHolder S v t d hn

/-- the same for the schema the resolver builds from any universe of Go declarations: what it
    accepts is well-formed and has distinct ids (proved), the remaining side conditions are Go's
    typing of the declared defaults and the finiteness of by-value nesting -/
theorem roundtrip_accepted (U : Universe) (sid : Nat) (xs ds : List Val) (h' : Bytes)
    (hnc : ∀ sid, ∀ f ∈ ((schemaOf U).get sid).fields, f.nocopy = false)
    (hdf : ∀ sid, ∀ f ∈ ((schemaOf U).get sid).fields, f.assigned = true → ∀ d, f.dflt = some d →
      hasTy (schemaOf U) f.ty d = true)
    (hz : ∀ sid, hasTy (schemaOf U) (.strct sid) (zeroVal (schemaOf U) (schemaOf U).length (.strct sid)) = true)
    (ht : hasTy (schemaOf U) (.strct sid) (.st xs []) = true)
    (hdest : hasTy (schemaOf U) (.strct sid) (.st ds h') = true)
    (hn : noHolderList xs = true) (hf : sizesFitList xs = true)
    (hr : rtOK (schemaOf U) (.strct sid) (.st xs []) = true)
    (hd : depth (toWire (schemaOf U) (.strct sid) (.st xs [])) ≤ 511) :
    decodeM Generated.params (schemaOf U) sid (appendM Generated.params (schemaOf U) sid (.st xs [])) (.st ds h') =
      .ok (normTop (schemaOf U) sid (.st xs []) (.st ds h'),
           (appendM Generated.params (schemaOf U) sid (.st xs [])).length) :=
  roundtrip (schemaOf U) (schemaOf_ok U) ⟨schemaOf_distinct U, hnc, hdf, hz⟩ sid xs ds h' ht hdest hn hf hr hd

/-- **C01 for schemas with `nocopy` fields as well** (every schema the resolver accepts, holders
    aside): the same statement, with the provenance of `nocopy` strings forgotten (`erase` turns a
    view of the input into the string it shows; where the bytes live is C14's `decoded_views_exact`).
    The normal form does not depend on the option. -/
theorem roundtrip_with_nocopy (S : Schema) (hS : S.ok = true) (hside : S.rtSideNC) (sid : Nat)
    (xs ds : List Val) (h' : Bytes) (ht : hasTy S (.strct sid) (.st xs []) = true)
    (hdest : hasTy S (.strct sid) (.st ds h') = true)
    (hn : noHolderList xs = true) (hf : sizesFitList xs = true)
    (hr : rtOK S (.strct sid) (.st xs []) = true)
    (hd : depth (toWire S (.strct sid) (.st xs [])) ≤ 511) :
    ∃ w, decodeM Generated.params S sid (appendM Generated.params S sid (.st xs [])) (.st ds h') =
        .ok (w, (appendM Generated.params S sid (.st xs [])).length) ∧
      erase w = normTop S sid (.st xs []) (.st ds h') := by
  apply roundtrip_nocopy Instances.params_valid S hS hside sid xs ds h' ht hdest hn hf hr
  have : Generated.params.maxDepth = 1023 := rfl
  omega

/-! the normal form, spelled out -/

/-- scalars are bit-exact (a double is its 64 bits: NaN payloads, -0.0) -/
theorem scalars_bit_exact (k : Kind) (n : Nat) (hk : k ≠ .enum) : normScalar k n = n :=
  normScalar_exact k n hk

/-- enums within 32 bits are exact, negative values included -/
theorem enum_within_32_bits_exact (n : Nat) (h64 : n < 2 ^ 64)
    (h32 : n < 2 ^ 31 ∨ 2 ^ 64 - 2 ^ 31 ≤ n) : normScalar .enum n = n :=
  normScalar_enum_exact n h64 h32

theorem strings_byte_exact (S : Schema) (s : Bytes) (d : Val) :
    norm S (.base .string) (.str s) d = .str s := norm_string S s d

theorem binaries_byte_exact (S : Schema) (n : Bool) (s : Bytes) (d : Val) :
    norm S (.base .binary) (.bin n s) d = .bin false s := norm_binary S n s d

/-- element order of lists and sets is preserved -/
theorem list_order_preserved (S : Schema) (e : Ty) (xs : List Val) :
    normList S e xs = xs.map (fun x => norm S e x (zeroVal S S.length e)) := normList_eq_map S e xs

/-- a nil non-optional container comes back empty -/
theorem nil_container_comes_back_empty (S : Schema) (s : Bool) (e k v : Ty) (d : Val) :
    norm S (.list s e) (.lst true []) d = .lst false [] ∧ norm S (.map k v) (.mp true []) d = .mp false [] :=
  ⟨norm_nil_list S s e d, norm_nil_map S k v d⟩

/-- a map with pairwise distinct keys (every Go map) comes back with the same entries -/
theorem map_entries_preserved (S : Schema) (k v : Ty) (es : List (Val × Val))
    (h : (normKeys S k es).Pairwise (fun a b => keyEq k a b = false)) :
    normEntries S k v es [] =
      es.map fun p => (norm S k p.1 (zeroVal S S.length k), norm S v p.2 (zeroVal S S.length v)) := by
  have := normEntries_distinct S k v es [] (by simpa using h)
  simpa using this

/-- a written field comes back as its normal form; an omitted optional field comes back as the
    destination's value (the declared default of a default-initialised receiver) -/
theorem field_written_or_default (S : Schema) (sd : SDesc) (f : Field) (fr : List Field) (x : Val)
    (xr : List Val) (d : Val) (dr : List Val) :
    normFields S sd (f :: fr) (x :: xr) (d :: dr) =
      (if fieldWritten sd f x then norm S f.ty x d else d) :: normFields S sd fr xr dr :=
  normFields_cons S sd f fr x xr d dr

/-- the hypotheses are satisfiable: a recursive type with a double, a list and an optional pointer;
    the value has a NaN, a nil list and a nil pointer; the destination is the zero value -/
def exS : Schema := [{ fields := [
  { id := 1, req := .dflt, ty := .base .double }, { id := 2, req := .dflt, ty := .list false (.base .i32) },
  { id := 3, req := .optional, ty := .ptr (.strct 0) }] }]
def exV : List Val := [.sc 0x7ff8000000000001, .lst true [], .ptr (.st [.sc 1, .lst false [.sc 5, .sc 4294967295], .nilp] [])]
def exD : List Val := [.sc 0, .lst true [], .nilp]

example : exS.ok = true ∧ exS.rtSideB = true ∧ hasTy exS (.strct 0) (.st exV []) = true ∧
    hasTy exS (.strct 0) (.st exD []) = true ∧ noHolderList exV = true ∧ sizesFitList exV = true ∧
    rtOK exS (.strct 0) (.st exV []) = true ∧ depth (toWire exS (.strct 0) (.st exV [])) ≤ 511 := by
  decide

example : exS.rtSide := rtSide_of_rtSideB exS (by decide)

/-- and on that instance the normal form is the value with the nil list made empty -/
example : normTop exS 0 (.st exV []) (.st exD []) =
    .st [.sc 0x7ff8000000000001, .lst false [],
         .ptr (.st [.sc 1, .lst false [.sc 5, .sc 4294967295], .nilp] [])] [] := by
  rfl
/-- the theorems above that speak of `decodeM` / the reference reader are about the hand-written model
    of `Decode` / `decodeType` / `decodeStringNoCopy` / `decodeFixedSizeTypes` / `skipUnknown`
    (Decode.lean), written from exactly this control structure of the code (regenerated fingerprint) -/
theorem decoder_model_written_from_this_code : Generated.facts.decoderSkeleton = Skeleton.decoder :=
  Instances.skeleton_decoder

/-- … and those that speak of `appendM` / `sizeM` about the hand-written model of `appendStruct` /
    `appendAny` / the size walk / the entry points (Encode.lean), written from exactly this control
    structure of the code (regenerated fingerprint; the fast-path tables are regenerated themselves) -/
theorem encoder_model_written_from_this_code : Generated.facts.encoderSkeleton = Skeleton.encoder :=
  Instances.skeleton_encoder

/-- the schema the theorems quantify over reaches the codec through the descriptor tables (field index
    by id, required ids, offsets, per-field flags and fixed sizes, the type node's tag / size / alignment /
    element nodes): the declarations `structDesc`, `tField`, `tType` and the functions that fill them in
    (`fromDefsFields`, `fromDefsField`, `GetField`, `newTType`) are, as full text, those the model and the
    correspondence runs were validated against (regenerated fingerprint) -/
theorem descriptor_tables_built_as_modelled : Generated.facts.descTableSkeleton = Skeleton.descTable :=
  Instances.skeleton_descTable

/-- the rest of `internal/reflect` — every function and package-level declaration that neither a fingerprint, a table translation nor a protocol fact covers (the entry points' argument handling, the runtime-layout helpers of `hack.go`, `span`, `bitset`, the exception constructors, the pools, `utils.go`) — is, as full text, that of the tree the model was written from -/
theorem rest_of_codec_package_as_modelled : Generated.facts.residualReflectSkeleton = Skeleton.residualReflect := Instances.skeleton_residualReflect

end Frugal.C01
