/- Property C01: the property theorems (and nothing else). -/
import Frugal.Proofs.WireRT
import Frugal.Proofs.EncodeRefine
import Frugal.Props.Instances
namespace Frugal.C01
open Frugal

/-- (wire level) parsing the serialisation of a well-formed value gives the value back and
    consumes exactly its bytes, whatever follows. -/
theorem wire_roundtrip (v : TVal) (fuel : Nat) (r : Bytes) (hw : wf v = true) (hd : depth v < fuel) :
    parse fuel v.tag (ser v ++ r) = some (v, r) := parse_ser v fuel r hw hd

/-- the bytes frugal writes are the reference encoding (input half of the round trip) -/
theorem encode_is_reference (S : Schema) (hS : S.ok = true) (sid : Nat) (v : Val)
    (ht : hasTy S (.strct sid) v = true) :
    appendM Generated.params S sid v = refEncStruct S sid v :=
  appendAny_eq Instances.params_valid S hS v (.strct sid) rfl ht
end Frugal.C01
