/- Property C01: the property theorems (and nothing else). -/
import Frugal.Proofs.RoundTrip
import Frugal.Props.Instances
namespace Frugal.C01
open Frugal

/-- (wire level) parsing the serialisation of a well-formed value gives the value back and
    consumes exactly its bytes, whatever follows. -/
theorem wire_roundtrip (v : TVal) (fuel : Nat) (r : Bytes) (hw : wf v = true) (hd : depth v < fuel) :
    parse fuel v.tag (ser v ++ r) = some (v, r) := parse_ser v fuel r hw hd

/-- the bytes frugal writes are the reference encoding (input half of the round trip) -/
theorem encode_is_reference (S : Schema) (hS : S.ok = true) (sid : Nat) (v : Val)
    (ht : hasTy S (.strct sid) v = true) :
    appendM Generated.params S sid v = refEncStruct S sid v :=
  appendAny_eq Instances.params_valid S hS v (.strct sid) rfl ht

/-- Encode then decode, for every accepted schema and every value (without retained unknown fields,
    lengths within the wire format's int32): the decoder consumes exactly the encoded length and
    returns what the reference reader reads from the value's denotation, whatever the destination
    held.  [`roundtrip_partial`: the remaining step to the full statement of C01 is
    `readMessage (messageOf v) fresh = norm v`, a statement about the two specifications only; see
    DESIGN.md section 9.] -/
theorem roundtrip_partial (S : Schema) (hS : S.ok = true) (sid : Nat) (xs : List Val) (dest : Val)
    (ht : hasTy S (.strct sid) (.st xs []) = true) (hn : noHolderList xs = true)
    (hf : sizesFitList xs = true) :
    decodeM Generated.params S sid (appendM Generated.params S sid (.st xs [])) dest =
      (readMessage Generated.params S sid (messageOf S sid (.st xs [])) 0 dest).mapv
        (·, (appendM Generated.params S sid (.st xs [])).length) :=
  roundtrip_via_reader Instances.params_valid S hS sid xs dest ht hn hf

/-- the hypotheses are satisfiable: a recursive type, a NaN, a nil list, an omitted optional -/
example : let S : Schema := [{ fields := [
      { id := 1, req := .dflt, ty := .base .double }, { id := 2, req := .dflt, ty := .list false (.base .i32) },
      { id := 3, req := .optional, ty := .ptr (.strct 0) }] }]
    S.ok = true ∧ hasTy S (.strct 0) (.st [.sc 0x7ff8000000000001, .lst true [], .nilp] []) = true := by decide
end Frugal.C01
