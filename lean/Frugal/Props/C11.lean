/- Property C11: the property theorems (and nothing else). -/
import Frugal.Proofs.SizeExact
import Frugal.Proofs.ReaderProps
import Frugal.Proofs.SecondHop
import Frugal.Proofs.HoldersRead
import Frugal.Proofs.ReadTyped
import Frugal.Proofs.ReadUnk
import Frugal.Props.Inst.F_valid_depth
import Frugal.Proofs.UnknownIdxLemmas
import Frugal.Proofs.DecodeRefine
import Frugal.Props.Inst.Params
import Frugal.Props.Inst.F_facts_unknownIndexProtocol
import Frugal.Props.Inst.F_skeleton_decoder
import Frugal.Props.Inst.F_skeleton_encoder
import Frugal.Props.Inst.F_skeleton_descTable
import Frugal.Props.Inst.F_skeleton_resolver
import Frugal.Tags
namespace Frugal.C11
open Frugal
/-- retained unknown-field bytes are re-emitted verbatim inside their struct, before STOP -/
theorem holder_reemitted (S : Schema) (sid : Nat) (fs : List Val) (h : Bytes) :
    refEnc S (.strct sid) (.st fs h) = refEncFields S (S.get sid) (S.get sid).fields fs ++ h ++ [0] := by
  simp [refEnc]

/-- decoding stores in the holder exactly the bytes of the unrecognised fields (unknown id, or known
    id with another wire type), byte for byte and in message order -/
theorem holder_is_unknown_bytes (S : Schema) (total fuel : Nat) (sd : SDesc) (fs : List (Nat × TVal))
    (tail : Nat) (vs : List Val) (st' : LoopSt) (hh : sd.hasHolder = true)
    (h : readFields Generated.params S total fuel sd fs tail { fs := vs } = .ok st') :
    st'.unk = unknownBytes sd fs :=
  holder_content _ S total fuel sd fs tail vs st' hh h

/-- … and those bytes are the serialisation of the unrecognised fields themselves: a field of the
    message is kept exactly when the schema does not recognise it (unknown id, or known id with another
    wire type), unchanged, and in message order -/
theorem holder_is_serialisation (sd : SDesc) (fs : List (Nat × TVal)) :
    unknownBytes sd fs = serFields (unknownOnly sd fs) ∧
    (unknownOnly sd fs).Sublist fs ∧
    ∀ id v, (id, v) ∈ unknownOnly sd fs ↔ ((id, v) ∈ fs ∧ (lookupKnown sd id v.tag).isNone = true) :=
  ⟨unknownBytes_eq_ser sd fs, unknownOnly_sublist sd fs, fun id v => mem_unknownOnly sd id v fs⟩

/-- second hop: what the intermediary writes for a struct whose holder was filled from the message
    `fs` is the serialisation of a struct carrying the recognised fields as its own schema writes them
    followed by every unrecognised field of `fs`, unchanged and in message order — so a reader with
    the newer schema (C03: any reader of these bytes is the reference reader on this field list)
    sees them all.  `noHolderList`: the field values themselves carry no retained bytes; a nested
    struct with retained bytes re-emits them by the same theorem one level down (`holder_reemitted`). -/
theorem second_hop_keeps_unknown (S : Schema) (hS : S.ok = true) (sid : Nat) (vs : List Val)
    (fs : List (Nat × TVal)) (ht : hasTyFields S (S.get sid).fields vs = true) (hn : noHolderList vs = true) :
    refEnc S (.strct sid) (.st vs (unknownBytes (S.get sid) fs)) =
      ser (.strct (toWireFields S (S.get sid) (S.get sid).fields vs ++ unknownOnly (S.get sid) fs)) :=
  reencode_known_then_unknown S hS sid vs fs ht hn

/-- **every nesting level.**  Whatever well-formed message `DecodeObject` accepts (unknown fields of
    every type anywhere, any order, duplicates, trailing bytes), in the value it returns every holder —
    of the top-level struct, of struct fields, of list / set elements, of map keys and values, at any
    depth — is the serialisation of a list of well-formed fields (`fitH`, Proofs/Holders.lean; also:
    every string and container within int32), provided the destination's own holders were.  `hdf`:
    declared defaults are such values (they are scalars and strings). -/
theorem decoded_holders_are_field_lists (S : Schema) (hS : S.ok = true)
    (hdf : ∀ sid, ∀ f ∈ (S.get sid).fields, ∀ d, f.dflt = some d → fitH d = true)
    (sid : Nat) (fs : List (Nat × TVal)) (trailing : Bytes) (dest w : Val) (n : Nat)
    (hw : wfFields fs = true) (hdest : fitH dest = true)
    (h : decodeM Generated.params S sid (ser (.strct fs) ++ trailing) dest = .ok (w, n)) :
    fitH w = true := by
  rw [decodeM_refines Instances.params_valid S hS sid fs trailing _ hw] at h
  obtain ⟨w0, h0, e⟩ := mapv_ok_inv _ _ _ h
  simp only [Prod.mk.injEq] at e
  obtain ⟨rfl, _⟩ := e
  exact readMessage_fitH Generated.params S hdf sid fs trailing.length dest _ hw hdest h0

/-- … consequently (C02 for values with retained bytes) re-encoding any such value, when it is a
    typed value of the schema, writes a well-formed Thrift message: the serialisation of its
    denotation `toWireH`, in which every struct lists, after its recognised fields, the fields its
    holder serialises -/
theorem reencoding_is_wellformed (S : Schema) (hS : S.ok = true) (sid : Nat) (w : Val)
    (ht : hasTy S (.strct sid) w = true) (hf : fitH w = true) :
    refEncStruct S sid w = ser (toWireH S (.strct sid) w) ∧ wf (toWireH S (.strct sid) w) = true :=
  ⟨refEnc_eq_serH S hS w (.strct sid) rfl rfl ht (fitH_holdersOK w hf),
   toWireH_wf S hS w (.strct sid) rfl rfl ht hf⟩

/-- … where, for a struct whose holder was filled from the message `fs`, those are exactly the
    unrecognised fields of `fs`, unchanged and in message order -/
theorem denotation_lists_unknown (S : Schema) (sid : Nat) (vs : List Val) (fs : List (Nat × TVal))
    (hw : wfFields fs = true) :
    toWireH S (.strct sid) (.st vs (unknownBytes (S.get sid) fs)) =
      .strct (toWireFieldsH S (S.get sid) (S.get sid).fields vs ++ unknownOnly (S.get sid) fs) := by
  simp only [toWireH, unknownBytes_eq_ser]
  rw [holderFields_ser _ (wfFields_sublist _ _ (unknownOnly_sublist _ fs) hw)]

/-- **an intermediary with an older schema loses nothing.**  For every schema without `nocopy` fields
    satisfying the side conditions of C01 (`S.rtSide`), every well-formed message, any trailing
    bytes, and every typed destination whose holders are field lists: if `DecodeObject` accepts the
    message then the value it returns is a typed value of the struct (`hasTy`, type soundness of the
    decoder: Proofs/ReadTyped.lean) all of whose holders are field lists, so `EncodeObject` applied to
    it writes the serialisation of a well-formed Thrift struct — its denotation `toWireH`, in which
    every struct at every nesting level carries, after the fields its own schema writes, the fields
    its holder retained (`denotation_lists_unknown`: the unrecognised fields of the message that
    struct was read from, unchanged and in message order). -/
theorem intermediary_loses_nothing (S : Schema) (hS : S.ok = true) (hside : S.rtSide)
    (hdf : ∀ sid, ∀ f ∈ (S.get sid).fields, ∀ d, f.dflt = some d → fitH d = true)
    (sid : Nat) (fs : List (Nat × TVal)) (trailing : Bytes) (dest w : Val) (n : Nat)
    (hw : wfFields fs = true)
    (hdt : hasTy S (.strct sid) dest = true) (hdh : fitH dest = true)
    (h : decodeM Generated.params S sid (ser (.strct fs) ++ trailing) dest = .ok (w, n)) :
    hasTy S (.strct sid) w = true ∧ fitH w = true ∧
    appendM Generated.params S sid w = ser (toWireH S (.strct sid) w) ∧
    wf (toWireH S (.strct sid) w) = true := by
  have hfit := decoded_holders_are_field_lists S hS hdf sid fs trailing dest w n hw hdh h
  rw [decodeM_refines Instances.params_valid S hS sid fs trailing _ hw] at h
  obtain ⟨w0, h0, e⟩ := mapv_ok_inv _ _ _ h
  simp only [Prod.mk.injEq] at e
  obtain ⟨rfl, _⟩ := e
  have hty := readMessage_typed Generated.params S hS hside sid fs trailing.length dest _ hw hdt h0
  refine ⟨hty, hfit, ?_, toWireH_wf S hS _ (.strct sid) rfl rfl hty hfit⟩
  unfold appendM
  rw [appendAny_eq Instances.params_valid S hS _ (.strct sid) rfl hty]
  exact refEnc_eq_serH S hS _ (.strct sid) rfl rfl hty (fitH_holdersOK _ hfit)

/-- **… and what it forwards reads back as what it held** (the second hop, at every nesting level): for
    the value `w` an intermediary decoded (hypotheses of `intermediary_loses_nothing`, the destination's
    own holders skippable unknown fields, e.g. a fresh struct), re-encoding `w` and decoding the bytes
    with the same schema into any typed destination succeeds, consumes exactly the encoded length and
    gives `normTopH w dest`: the recognised fields in normal form and, in every struct of `w` at every
    nesting level, the retained bytes **byte for byte**.  The holders of a decoded value meet the
    hypotheses of `C01.roundtrip_with_nested_holders` by themselves (`fitH`: HoldersRead, `unkOK`:
    ReadUnk); what remains is C01's own: nesting ≤ 511 and no written nil pointer to a struct with
    required fields. -/
theorem forwarded_value_reads_back (S : Schema) (hS : S.ok = true) (hside : S.rtSide)
    (hdf : ∀ sid, ∀ f ∈ (S.get sid).fields, ∀ d, f.dflt = some d → fitH d = true)
    (hdu : ∀ sid, ∀ f ∈ (S.get sid).fields, ∀ d, f.dflt = some d → unkOK Generated.params S f.ty d = true)
    (sid : Nat) (fs : List (Nat × TVal)) (trailing : Bytes) (dest w : Val) (n : Nat)
    (hw : wfFields fs = true)
    (hdt : hasTy S (.strct sid) dest = true) (hdh : fitH dest = true)
    (hdk : unkOK Generated.params S (.strct sid) dest = true)
    (h : decodeM Generated.params S sid (ser (.strct fs) ++ trailing) dest = .ok (w, n))
    (hr : rtOK S (.strct sid) w = true) (hd : depth (toWireH S (.strct sid) w) ≤ 511)
    (ds : List Val) (h' : Bytes) (hdest : hasTy S (.strct sid) (.st ds h') = true) :
    decodeM Generated.params S sid (appendM Generated.params S sid w) (.st ds h') =
      .ok (normTopH S sid w (.st ds h'), (appendM Generated.params S sid w).length) := by
  have hfit := decoded_holders_are_field_lists S hS hdf sid fs trailing dest w n hw hdh h
  rw [decodeM_refines Instances.params_valid S hS sid fs trailing _ hw] at h
  obtain ⟨w0, h0, e⟩ := mapv_ok_inv _ _ _ h
  simp only [Prod.mk.injEq] at e
  obtain ⟨rfl, _⟩ := e
  have hty := readMessage_typed Generated.params S hS hside sid fs trailing.length dest _ hw hdt h0
  have hunk := readMessage_unkOK Generated.params S hdu sid fs trailing.length dest _ hw hdk h0
  cases w with
  | st xs hh =>
    apply roundtrip_holders Instances.params_valid S hS hside sid xs ds hh h' hty hdest hfit hunk hr
    have : Generated.params.maxDepth = 1023 := rfl
    omega
  | _ => hasTy_absurd hty

/-- the recognised fields are decoded as if the unknown ones were not there: whenever a message is
    read successfully, the same message without its unrecognised fields — wherever it sits in a
    buffer, whatever the provenance of the destination's strings — is read successfully to the same
    field values and the same presence record, with or without the holder.  "The same" up to the
    buffer offsets that `nocopy` views record (`eraseList` forgets them: the two messages are different
    byte strings, so a view's offset differs while its bytes do not); `hdf`: declared defaults are not
    views (as in C14). -/
theorem recognised_as_if_alone (S : Schema) (total total' fuel : Nat) (sd : SDesc)
    (hdf : ∀ sid, ∀ f ∈ (S.get sid).fields, ∀ d, f.dflt = some d → plain d = true)
    (fs : List (Nat × TVal)) (tail tail' : Nat) (vs vs' : List Val) (st' : LoopSt)
    (hd : eraseList vs = eraseList vs')
    (h : readFields Generated.params S total fuel sd fs tail { fs := vs } = .ok st') :
    ∃ st'', readFields Generated.params S total' fuel sd (knownOnly sd fs) tail' { fs := vs' } = .ok st'' ∧
      eraseList st''.fs = eraseList st'.fs ∧ st''.seen = st'.seen ∧ st''.unk = [] :=
  readFields_knownOnly_erase _ S total total' fuel sd hdf fs tail tail' { fs := vs } { fs := vs' } st' hd rfl h

/-- … and exactly the same values when the schema has no `nocopy` field -/
theorem recognised_as_if_alone_exact (S : Schema) (total total' fuel : Nat) (sd : SDesc)
    (hS : ∀ sid, ∀ f ∈ (S.get sid).fields, f.nocopy = false) (hsd : ∀ g ∈ sd.fields, g.nocopy = false)
    (fs : List (Nat × TVal)) (tail tail' : Nat) (vs : List Val) (st' : LoopSt)
    (h : readFields Generated.params S total fuel sd fs tail { fs := vs } = .ok st') :
    ∃ st'', readFields Generated.params S total' fuel sd (knownOnly sd fs) tail' { fs := vs } = .ok st'' ∧
      st''.fs = st'.fs ∧ st''.seen = st'.seen ∧ st''.unk = [] :=
  readFields_knownOnly _ S total total' fuel sd hS hsd fs tail tail' _ _ st' rfl rfl h

/-- the message without its unrecognised fields: the recognised ones, unchanged and in order -/
theorem knownOnly_is (sd : SDesc) (fs : List (Nat × TVal)) : (knownOnly sd fs).Sublist fs :=
  knownOnly_sublist sd fs

/-- types without the holder drop them -/
theorem no_holder_drops (S : Schema) (total fuel : Nat) (sd : SDesc) (fs : List (Nat × TVal))
    (tail : Nat) (vs : List Val) (st' : LoopSt) (hh : sd.hasHolder = false)
    (h : readFields Generated.params S total fuel sd fs tail { fs := vs } = .ok st') : st'.unk = [] :=
  no_holder_drop _ S total fuel sd fs tail vs st' hh h

/-- EncodedSize counts the retained bytes: the size walk equals the bytes written, holder included -/
theorem size_counts_holder (S : Schema) (hS : S.ok = true) (sid : Nat) (v : Val)
    (ht : hasTy S (.strct sid) v = true) :
    sizeM Generated.params S sid v = (refEncStruct S sid v).length :=
  sizeFunc_eq Instances.params_valid S hS v (.strct sid) rfl ht rfl
/-! ### the (offset, size) index of unknownfields.go

The decoder does not append skipped bytes as the byte-level model does: it records
`(i - fieldHeaderLen, n + fieldHeaderLen)` and copies the ranges out of the struct's input slice after
STOP into a buffer of `sz` uninitialised bytes (UnknownIdx.lean).  The two agree: -/

/-- the code is that index (regenerated fact: `Add`, `Reset`, `Size`, `Copy` and the three call sites
    in `Decode`, statement by statement; `fieldHeaderLen = 3`) -/
theorem index_code_is_the_model : Generated.facts.unknownIndexProtocol = true :=
  Instances.facts_unknownIndexProtocol

/-- one skipped field: the extent recorded for it — header position, value length + 3 — is inside the
    input and is exactly the bytes the byte-level model appends (type byte, the two id bytes, the `n`
    skipped bytes), and the index invariant (ranges in bounds, `sz` = bytes covered) is kept -/
theorem index_step_agrees (p : UF) (b unk : Bytes) (i0 n : Nat) (tp : UInt8) (r r1 : Bytes) (fid : Nat)
    (hp : p.Inv b) (hu : p.copied b = unk) (hb : b.drop i0 = tp :: r) (hid : rd16 r = some (fid, r1))
    (hn : n ≤ r1.length) :
    (p.add i0 (n + 3)).Inv b ∧ (p.add i0 (n + 3)).copied b = unk ++ tp :: (r.take 2 ++ r1.take n) :=
  step_agrees p b unk i0 n tp r r1 fid hp hu hb hid hn

/-- any history of recorded extents from `Reset`: `Copy` succeeds — no range leaves the input, every
    byte of its uninitialised buffer is written — and returns the recorded slices in order -/
theorem index_copy_is_concatenation (b : Bytes) (es : List (Nat × Nat))
    (h : ∀ e ∈ es, e.1 + e.2 ≤ b.length) :
    (es.foldl (fun u e => u.add e.1 e.2) UF.reset).copy b = some (es.flatMap fun e => slice b e.1 e.2) := by
  have := UF.history b es UF.reset (UF.inv_reset b) h
  rw [UF.copy_of_inv _ b this.1, this.2]
  simp [UF.copied, UF.reset]

/-- the theorems above that speak of `decodeM` / the reference reader are about the hand-written model
    of `Decode` / `decodeType` / `decodeStringNoCopy` / `decodeFixedSizeTypes` / `skipUnknown`
    (Decode.lean), written from exactly this control structure of the code (regenerated fingerprint) -/
theorem decoder_model_written_from_this_code : Generated.facts.decoderSkeleton = Skeleton.decoder :=
  Instances.skeleton_decoder

/-- … and those that speak of `appendM` / `sizeM` about the hand-written model of `appendStruct` /
    `appendAny` / the size walk / the entry points (Encode.lean), written from exactly this control
    structure of the code (regenerated fingerprint; the fast-path tables are regenerated themselves) -/
theorem encoder_model_written_from_this_code : Generated.facts.encoderSkeleton = Skeleton.encoder :=
  Instances.skeleton_encoder

/-- the schema the theorems quantify over reaches the codec through the descriptor tables (field index
    by id, required ids, offsets, per-field flags and fixed sizes, the type node's tag / size / alignment /
    element nodes): the declarations `structDesc`, `tField`, `tType` and the functions that fill them in
    (`fromDefsFields`, `fromDefsField`, `GetField`, `newTType`) are, as full text, those the model and the
    correspondence runs were validated against (regenerated fingerprint) -/
theorem descriptor_tables_built_as_modelled : Generated.facts.descTableSkeleton = Skeleton.descTable :=
  Instances.skeleton_descTable

/-- what a field is *declared* to be — required / optional, `nocopy`, the holder — is read from the
    struct tags by the resolver (`DoResolveFields`, `lookupStructTag`, the annotation parser,
    `newStructDesc`, `fromDefsField`): the model of it (Tags.lean) was written from exactly this control
    structure of the code (regenerated fingerprint; C12 / C13 prove what the model does) -/
theorem schema_read_from_tags_as_modelled : Generated.facts.resolverSkeleton = Skeleton.resolver :=
  Instances.skeleton_resolver

/-- holder discovery: a struct has the holder exactly when one of *its own* fields is named
    `_unknownFields` and has type `[]byte`; an embedded struct that declares one does not give its
    holder to the struct embedding it (D14: the code used to look among promoted fields too, at the
    wrong offset), nor does a field of that name with another type -/
theorem holder_is_an_own_field (gs : GoStruct) (sd : SDesc) (h : resolveStruct gs = some sd) :
    sd.hasHolder = gs.fields.any fun gf => gf.name == "_unknownFields" &&
      (match gf.ty with
       | .slice (.prim .uint8 _) => true
       | _ => false) := by
  unfold resolveStruct at h
  split at h
  · cases h
  · cases h; rfl

end Frugal.C11
