/- Property C11: the property theorems (and nothing else). -/
import Frugal.Proofs.EncodeRefine
import Frugal.Props.Instances
namespace Frugal.C11
open Frugal
/-- retained unknown-field bytes are re-emitted verbatim inside their struct, before STOP -/
theorem holder_reemitted (S : Schema) (sid : Nat) (fs : List Val) (h : Bytes) :
    refEnc S (.strct sid) (.st fs h) = refEncFields S (S.get sid) (S.get sid).fields fs ++ h ++ [0] := by
  simp [refEnc]
end Frugal.C11
