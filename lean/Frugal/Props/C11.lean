/- Property C11: the property theorems (and nothing else). -/
import Frugal.Proofs.SizeExact
import Frugal.Proofs.ReaderProps
import Frugal.Props.Instances
namespace Frugal.C11
open Frugal
/-- retained unknown-field bytes are re-emitted verbatim inside their struct, before STOP -/
theorem holder_reemitted (S : Schema) (sid : Nat) (fs : List Val) (h : Bytes) :
    refEnc S (.strct sid) (.st fs h) = refEncFields S (S.get sid) (S.get sid).fields fs ++ h ++ [0] := by
  simp [refEnc]

/-- decoding stores in the holder exactly the bytes of the unrecognised fields (unknown id, or known
    id with another wire type), byte for byte and in message order -/
theorem holder_is_unknown_bytes (S : Schema) (total fuel : Nat) (sd : SDesc) (fs : List (Nat × TVal))
    (tail : Nat) (vs : List Val) (st' : LoopSt) (hh : sd.hasHolder = true)
    (h : readFields Generated.params S total fuel sd fs tail { fs := vs } = .ok st') :
    st'.unk = unknownBytes sd fs :=
  holder_content _ S total fuel sd fs tail vs st' hh h

/-- types without the holder drop them -/
theorem no_holder_drops (S : Schema) (total fuel : Nat) (sd : SDesc) (fs : List (Nat × TVal))
    (tail : Nat) (vs : List Val) (st' : LoopSt) (hh : sd.hasHolder = false)
    (h : readFields Generated.params S total fuel sd fs tail { fs := vs } = .ok st') : st'.unk = [] :=
  no_holder_drop _ S total fuel sd fs tail vs st' hh h

/-- EncodedSize counts the retained bytes: the size walk equals the bytes written, holder included -/
theorem size_counts_holder (S : Schema) (hS : S.ok = true) (sid : Nat) (v : Val)
    (ht : hasTy S (.strct sid) v = true) :
    sizeM Generated.params S sid v = (refEncStruct S sid v).length :=
  sizeFunc_eq Instances.params_valid S hS v (.strct sid) rfl ht rfl
end Frugal.C11
