/-
  Instances.lean — the only place where the regenerated `Generated.params` / `Generated.facts`
  meet the generic theorems: every side condition is decided here, by the kernel, on the
  tables extracted from /repo's current sources.
-/
import Frugal.Valid
import Frugal.Facts
import Frugal.Generated
import Frugal.Skeleton
namespace Frugal.Instances
open Frugal

theorem valid_sizes : Generated.params.validSizes = true := by decide
theorem valid_simple : Generated.params.validSimple = true := by decide
theorem valid_container : Generated.params.validContainer = true := by decide
theorem valid_headers : Generated.params.validHeaders = true := by decide
theorem valid_list : Generated.params.validList = true := by decide
theorem valid_map : Generated.params.validMap = true := by decide
theorem valid_minWire : Generated.params.validMinWire = true := by decide
theorem valid_minWireFixed : Generated.params.validMinWireFixed = true := by decide
theorem valid_skip : Generated.params.validSkip = true := by decide
theorem valid_depth : Generated.params.validDepth = true := by decide
theorem valid_bitset : Generated.params.validBitset = true := by decide
theorem valid_span : Generated.params.validSpan = true := by decide
theorem valid_binaryGuard : Generated.params.mapBinaryGuard = true := by decide
theorem valid_binaryPtr : Generated.params.binarySeesThroughPtr = true := by decide

theorem params_valid : Generated.params.valid = true := by
  simp only [Params.valid, valid_sizes, valid_simple, valid_container, valid_headers, valid_list,
    valid_map, valid_minWire, valid_minWireFixed, valid_skip, valid_depth, valid_bitset, valid_span,
    valid_binaryGuard, valid_binaryPtr, Bool.and_self]

theorem facts_legacyInert : Generated.facts.legacyInert = true := by decide
theorem facts_envParsing : Generated.facts.envParsing = true := by decide
theorem facts_recursionDiscipline : Generated.facts.recursionDiscipline = true := by decide
theorem facts_lockDiscipline : Generated.facts.lockDiscipline = true := by decide
theorem facts_allocationDiscipline : Generated.facts.allocationDiscipline = true := by decide
theorem facts_typedAllocation : Generated.facts.typedAllocation = true := by decide
theorem skeleton_decoder : Generated.facts.decoderSkeleton = Skeleton.decoder := by decide
theorem skeleton_encoder : Generated.facts.encoderSkeleton = Skeleton.encoder := by decide
theorem skeleton_resolver : Generated.facts.resolverSkeleton = Skeleton.resolver := by decide
theorem facts_rollback : Generated.facts.rollbackOnFailedBuild = true := by decide
theorem facts_buildProtocol : Generated.facts.buildProtocol = true := by decide
theorem facts_bufferContract : Generated.facts.bufferContract = true := by decide
theorem facts_steadyStateAllocFree : Generated.facts.steadyStateAllocFree = true := by decide

end Frugal.Instances
