/- kept for compatibility: the regenerated tables' side conditions (see Inst/) -/
import Frugal.Props.Inst.Params
