/- Property C10: the property theorems (and nothing else). Proofs: Proofs/EncodeRefine.lean,
   Proofs/OptDefaults.lean, Proofs/ReaderProps.lean. -/
import Frugal.Proofs.EncodeRefine
import Frugal.Proofs.SizeExact
import Frugal.Proofs.OptDefaults
import Frugal.Proofs.DecodeRefine
import Frugal.Props.Inst.Params
import Frugal.Props.Inst.F_skeleton_decoder
import Frugal.Props.Inst.F_skeleton_encoder
import Frugal.Props.Inst.F_skeleton_descTable
import Frugal.Props.Inst.F_skeleton_resolver
namespace Frugal.C10
open Frugal
/-- the skip logic of the encoder as written (the two flags computed per field, the two tests in
    the writer) is the `fieldWritten` predicate of the specification -/
theorem written_iff (sd : SDesc) (f : Field) (x : Val) :
    (!(canSkipNil Generated.params f && isNilWord x) && !(canSkipDefault sd f && goEqual f.ty.tt f.default x)) =
      fieldWritten sd f x := skip_eq Instances.params_valid sd f x

/-- a field is omitted exactly when it is optional and either a nil pointer / nil binary / nil
    container, or a non-pointer field equal (Go `==`) to the default its struct declares -/
theorem omitted_exactly_when (sd : SDesc) (f : Field) (x : Val) :
    fieldWritten sd f x = false ↔
      f.req = .optional ∧
        (((f.ty.isPtr = true ∨ f.ty.isBinary = true ∨ f.ty.isContainer = true) ∧ isNilWord x = true) ∨
         (f.ty.isPtr = false ∧ sd.hasInit = true ∧ goEqual f.ty.tt f.default x = true)) :=
  omitted_iff sd f x

/-- … and in the bytes: the produced message has a header for field `f` exactly when `f` is written -/
theorem header_present_exactly_when (S : Schema) (sd : SDesc) (fs : List Field) (xs : List Val)
    (hpw : fs.Pairwise (fun a b => a.id ≠ b.id)) (f : Field) (x : Val) (hm : (f, x) ∈ fs.zip xs) :
    (∃ tv, (f.id, tv) ∈ toWireFields S sd fs xs) ↔ fieldWritten sd f x = true :=
  header_present_iff S sd fs xs hpw f x hm

/-- the same two tests in the size walk: EncodedSize counts a field exactly when it is written
    (this is `size_exact`, C04; restated here for the field-level flags) -/
theorem size_uses_same_tests (S : Schema) (hS : S.ok = true) (sid : Nat) (v : Val)
    (ht : hasTy S (.strct sid) v = true) :
    sizeM Generated.params S sid v = (appendM Generated.params S sid v).length := by
  unfold sizeM appendM
  rw [sizeFunc_eq Instances.params_valid S hS v (.strct sid) rfl ht rfl,
      appendAny_eq Instances.params_valid S hS v (.strct sid) rfl ht]

/-- value equality by kind: containers and structs never equal their default -/
theorem containers_never_default (t : TT) (a b : Val) (h : t = .list ∨ t = .set ∨ t = .map ∨ t = .strct) :
    goEqual t a b = false := goEqual_container t a b h

/-- doubles: NaN is never the default (always written); -0.0 `==` 0.0 (omitted with default 0.0) -/
theorem double_equality_is_ieee (a : Nat) :
    f64Eq 0x7ff8000000000001 a = false ∧ f64Eq a 0x7ff8000000000001 = false ∧
    f64Eq 0x8000000000000000 0 = true :=
  ⟨(nan_never_default a).1, (nan_never_default a).2, neg_zero_equals_zero⟩

/-- every nested struct the decoder reads into is first given its declared defaults -/
theorem nested_struct_gets_defaults (S : Schema) (total f sid : Nat) (F : List (Nat × TVal))
    (tail : Nat) (vs : List Val) (hh : Bytes) :
    readVal Generated.params S total (f + 1) (.strct sid) (.strct F) tail (.st vs hh) =
      readStruct Generated.params S total f sid F tail (initDest S sid (.st vs hh)) :=
  nested_struct_initialised _ S total f sid F tail vs hh

/-- `InitDefault()` assigns exactly the fields it declares -/
theorem init_assigns_declared (fs : List Field) (vs : List Val) (j : Nat) (f : Field) (v : Val)
    (hf : fs[j]? = some f) (hv : vs[j]? = some v) :
    (applyInit fs vs)[j]? = some (if f.assigned then f.dflt.getD v else v) :=
  applyInit_slot fs vs j f v hf hv

/-- the top-level destination is never re-initialised -/
theorem top_level_untouched_by_init (S : Schema) (sid : Nat) (fs : List (Nat × TVal)) (trailing : Nat)
    (dest : Val) :
    readMessage Generated.params S sid fs trailing dest =
      readStruct Generated.params S ((ser (.strct fs)).length + trailing) Generated.params.maxDepth
        sid fs trailing dest := rfl

/-- fields absent from the message read as the destination (initialised, when nested) had them;
    fields present override them (`roundtrip`, C01, and `decoder_is_reference_reader`, C03) -/
theorem absent_fields_read_as_defaults (S : Schema) (total f sid : Nat) (F : List (Nat × TVal))
    (tail : Nat) (vs out : List Val) (h h2 : Bytes)
    (hok : readStruct Generated.params S total (f + 1) sid F tail (.st vs h) = .ok (.st out h2))
    (j : Nat) (hj : j ∉ writtenIxs (S.get sid) F) : out.getD j default = vs.getD j default :=
  absent_fields_keep_destination _ S total f sid F tail vs out h h2 hok j hj

/-- an optional pointer field is non-nil after decoding when the message carried it … -/
theorem carried_pointer_is_nonnil (S : Schema) (total fuel : Nat) (sd : SDesc) (fs : List (Nat × TVal))
    (tail : Nat) (vs : List Val) (st' : LoopSt)
    (h : readFields Generated.params S total fuel sd fs tail { fs := vs } = .ok st')
    (id : Nat) (v : TVal) (ix : Nat) (f : Field) (hm : (id, v) ∈ fs)
    (hk : lookupKnown sd id v.tag = some (ix, f)) (hp : f.ty.isPtr = true) (hlt : ix < vs.length) :
    ∃ w, st'.fs.getD ix default = .ptr w :=
  carried_ptr_nonnil _ S total fuel sd fs tail _ st' h id v ix f hm hk hp hlt

/-- … and keeps what the destination had (nil, for a fresh one) when it did not -/
theorem absent_pointer_keeps_destination (S : Schema) (total fuel : Nat) (sd : SDesc)
    (fs : List (Nat × TVal)) (tail : Nat) (vs : List Val) (st' : LoopSt)
    (h : readFields Generated.params S total fuel sd fs tail { fs := vs } = .ok st')
    (j : Nat) (hj : j ∉ writtenIxs sd fs) : st'.fs.getD j default = vs.getD j default :=
  untouched _ S total fuel sd fs tail vs st' h j hj

/-- all of the above is about the decoder as written: it computes the reference reader -/
theorem decoder_is_reader (S : Schema) (hS : S.ok = true) (sid : Nat) (fs : List (Nat × TVal))
    (trailing : Bytes) (dest : Val) (hw : wfFields fs = true) :
    decodeM Generated.params S sid (ser (.strct fs) ++ trailing) dest =
      (readMessage Generated.params S sid fs trailing.length dest).mapv (·, (ser (.strct fs)).length) :=
  decodeM_refines Instances.params_valid S hS sid fs trailing dest hw
/-- the theorems above that speak of `decodeM` / the reference reader are about the hand-written model
    of `Decode` / `decodeType` / `decodeStringNoCopy` / `decodeFixedSizeTypes` / `skipUnknown`
    (Decode.lean), written from exactly this control structure of the code (regenerated fingerprint) -/
theorem decoder_model_written_from_this_code : Generated.facts.decoderSkeleton = Skeleton.decoder :=
  Instances.skeleton_decoder

/-- … and those that speak of `appendM` / `sizeM` about the hand-written model of `appendStruct` /
    `appendAny` / the size walk / the entry points (Encode.lean), written from exactly this control
    structure of the code (regenerated fingerprint; the fast-path tables are regenerated themselves) -/
theorem encoder_model_written_from_this_code : Generated.facts.encoderSkeleton = Skeleton.encoder :=
  Instances.skeleton_encoder

/-- the schema the theorems quantify over reaches the codec through the descriptor tables (field index
    by id, required ids, offsets, per-field flags and fixed sizes, the type node's tag / size / alignment /
    element nodes): the declarations `structDesc`, `tField`, `tType` and the functions that fill them in
    (`fromDefsFields`, `fromDefsField`, `GetField`, `newTType`) are, as full text, those the model and the
    correspondence runs were validated against (regenerated fingerprint) -/
theorem descriptor_tables_built_as_modelled : Generated.facts.descTableSkeleton = Skeleton.descTable :=
  Instances.skeleton_descTable

/-- what a field is *declared* to be — required / optional, `nocopy`, the holder — is read from the
    struct tags by the resolver (`DoResolveFields`, `lookupStructTag`, the annotation parser,
    `newStructDesc`, `fromDefsField`): the model of it (Tags.lean) was written from exactly this control
    structure of the code (regenerated fingerprint; C12 / C13 prove what the model does) -/
theorem schema_read_from_tags_as_modelled : Generated.facts.resolverSkeleton = Skeleton.resolver :=
  Instances.skeleton_resolver

end Frugal.C10
