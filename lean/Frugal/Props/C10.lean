/- Property C10: the property theorems (and nothing else). -/
import Frugal.Proofs.EncodeRefine
import Frugal.Props.Instances
namespace Frugal.C10
open Frugal
/-- the skip logic of the encoder as written is the `fieldWritten` predicate of the specification -/
theorem written_iff (sd : SDesc) (f : Field) (x : Val) :
    (!(canSkipNil Generated.params f && isNilWord x) && !(canSkipDefault sd f && goEqual f.ty.tt f.default x)) =
      fieldWritten sd f x := skip_eq Instances.params_valid sd f x
end Frugal.C10
