/- Property C18: the property theorems (and nothing else). -/
import Frugal.Props.Inst.F_facts_steadyStateAllocFree
namespace Frugal.C18
open Frugal
theorem steady_state_alloc_free : Generated.facts.steadyStateAllocFree = true := Instances.facts_steadyStateAllocFree
end Frugal.C18
