/- Property C07: the property theorems (and nothing else). -/
import Frugal.Proofs.BitsetLemmas
import Frugal.Proofs.BuildCacheLemmas
import Frugal.Proofs.BuildCacheMixed
import Frugal.Props.Inst.F_facts_buildProtocol
import Frugal.Props.Inst.F_facts_rollback
import Frugal.Props.Inst.F_valid_bitset
import Frugal.Proofs.TypeKeyLemmas
import Frugal.Props.Inst.F_facts_typeNodeCacheKeyed
import Frugal.Props.Inst.F_skeleton_sharedWrites
import Frugal.Props.Inst.F_facts_pointeeAfterLengthCheck
import Frugal.Props.Inst.F_skeleton_descTable
namespace Frugal.C07
open Frugal
/-- the required-field verdict is independent of the pooled presence set's prior contents -/
theorem presence_independent_of_pool (s0 s1 : BitSet) (req seen : List Nat) (r : Nat) (hr : r ∈ req) :
    (presenceRun Generated.params s0 req seen).test Generated.params r =
    (presenceRun Generated.params s1 req seen).test Generated.params r := by
  have h := bsOK_of_valid Instances.valid_bitset
  rw [presence_clean h s0 req seen r hr, presence_clean h s1 req seen r hr]

/-- the code journals and rolls back a failed build as `BuildCache.useType` does (regenerated
    structural fact about desc.go) -/
theorem failed_build_rolled_back : Generated.facts.rollbackOnFailedBuild = true := Instances.facts_rollback
/-- the five functions of the descriptor build consist of the statements the state machine models -/
theorem code_is_the_state_machine : Generated.facts.buildProtocol = true := Instances.facts_buildProtocol
theorem scratch_cleared : Generated.facts.scratchPooledAndCleared = true := by decide

/-- descriptor caches (BuildCache.lean: `sds`, `prefetchStructDescCache`, the `Sd` links of the
    type nodes): whatever calls were made earlier — successful or failed, on the same or other
    types, with a type first used on its own or first met nested inside another — a use of a type
    has the outcome it has in a fresh process -/
theorem outcome_independent_of_history (R : List (Option SDesc)) (hist : List Nat) (sid : Nat) :
    (useType R sid (useAll R hist {})).1 = (useType R sid {}).1 :=
  use_history_independent R hist sid

/-- … which is "every struct reachable from the type resolves" -/
theorem outcome_is_reachability (R : List (Option SDesc)) (hist : List Nat) (sid : Nat) :
    (useType R sid (useAll R hist {})).1 = true ↔ BGood R (sid, false) :=
  useType_ok_iff R sid _ (useAll_inv R hist {} (cinv_empty R))

/-- a failed use leaves every cache exactly as it was -/
theorem failed_use_leaves_no_trace (R : List (Option SDesc)) (sid : Nat) (st : CacheSt)
    (h : (useType R sid st).1 = false) : (useType R sid st).2 = st :=
  useType_fail_unchanged R sid st h

/-- the build runs user code (`InitDefault`, called to read the declared defaults), which may fail —
    panic — on one call and work on the next (D21: the rollback used to run on the error return only).
    A use that fails while the structs `bs` fail leaves no trace either, so every later call, under
    whatever the user code does then, is the call made in the state before -/
theorem failing_user_code_leaves_no_trace (R R' : List (Option SDesc)) (bs : List Nat) (sid sid' : Nat)
    (st : CacheSt) (h : (useType (failing R bs) sid st).1 = false) :
    useType R' sid' (useType (failing R bs) sid st).2 = useType R' sid' st := by
  rw [useType_fail_unchanged _ sid st h]

/-- … and a use that succeeds while some user code fails is the use it is when nothing fails (it never
    needed a failing struct) -/
theorem succeeding_use_ignores_failing_user_code (R : List (Option SDesc)) (bs : List Nat) (sid : Nat)
    (st : CacheSt) (h : (useType (failing R bs) sid st).1 = true) :
    useType (failing R bs) sid st = useType R sid st := useType_failing_ok R bs sid st h

/-- hence `outcome_independent_of_history` for histories in which **every call comes with its own set of
    structs whose `InitDefault` fails during it**: afterwards a use has the outcome it has in a fresh
    process -/
theorem outcome_independent_of_history_with_failing_user_code (R : List (Option SDesc))
    (hist : List (Nat × List Nat)) (sid : Nat) :
    (useType R sid (useMixed R hist {})).1 = (useType R sid {}).1 := mixed_history_independent R hist sid

/-- not vacuous: `Outer{*Inner, *Leaf}` (the shape of D21) while `Leaf` fails -/
example : (useType (failing
    [ some { fields := [{ id := 1, req := .optional, ty := .ptr (.strct 1) },
                        { id := 2, req := .optional, ty := .ptr (.strct 2) }] },
      some { fields := [] }, some { fields := [] } ] [2]) 0 {}).1 = false := by decide

/-- after any history the caches hold only types all of whose dependencies resolve: a descriptor
    met in a cache is a complete one -/
theorem caches_complete (R : List (Option SDesc)) (hist : List Nat) : CInv R (useAll R hist {}) :=
  useAll_inv R hist {} (cinv_empty R)

/-- what the journal is for: without `rollbackBuild` (the tree before the repair of D10) a failed
    use of `A{*B}`, `B{*A, *Bad}` leaves `*A` cached and linked, and a later use of `Sib{*A}` is
    accepted although `Bad`, reachable from it, does not resolve -/
def exR : List (Option SDesc) :=
  [ some { fields := [{ id := 1, req := .optional, ty := .ptr (.strct 1) }] },          -- A{*B}
    some { fields := [{ id := 1, req := .optional, ty := .ptr (.strct 0) },
                      { id := 2, req := .optional, ty := .ptr (.strct 2) }] },          -- B{*A, *Bad}
    none,                                                                                -- Bad
    some { fields := [{ id := 1, req := .optional, ty := .ptr (.strct 0) }] } ]         -- Sib{*A}
theorem noRollback_breaks :
    (useTypeNoRollback exR 0 {}).1 = false ∧
    (useTypeNoRollback exR 3 (useTypeNoRollback exR 0 {}).2).1 = true ∧
    (useType exR 3 (useType exR 0 {}).2).1 = false ∧ (useType exR 3 {}).1 = false := by decide
/-! ### the third process-wide cache: type nodes (`ttypes`, keyed by annotation text and Go type) -/

/-- among annotations of one Go type the text `defs.Type.String()` is a prefix code, so the cache key
    `(x.String(), x.S)` determines the annotation: `set` vs `list`, enum vs `i64`, at any nesting -/
theorem type_node_key_is_faithful (nm : Nat → List Char) (a b : Ty) (h : nodeKey nm a = nodeKey nm b) :
    a = b := nodeKey_injective nm a b h

/-- … hence a lookup returns the node built from its own argument and keeps the cache consistent,
    whatever was looked up before (any history, any order of first use) -/
theorem type_node_independent_of_history (nm : Nat → List Char) (xs : List Ty) (x : Ty) :
    (getNode nm (xs.foldl (fun c y => (getNode nm c y).2) []) x).1 = x :=
  (getNode_correct nm _ x (getNode_history nm xs [] (by intro p hp; cases hp))).1

/-- the key without the text for leaf nodes (the mutation the sub-agents found three times) collides:
    a named int64 as enum and as `i64` share it -/
theorem leafless_key_is_not_faithful (nm : Nat → List Char) :
    nodeKeyLeafless nm (.base .enum) = nodeKeyLeafless nm (.base .i64) ∧ (Ty.base .enum) ≠ (.base .i64) :=
  leafless_key_collides nm

/-- the code is that cache (regenerated fact: the key type, lookup-before-build and store right after
    allocation in `newTType`, no other use of `ttypes`, and `Type.String()` case by case) -/
theorem type_node_cache_code_is_the_model : Generated.facts.typeNodeCacheKeyed = true :=
  Instances.facts_typeNodeCacheKeyed

/-- no other process-wide state: every store into a package-level variable of `internal/reflect` and
    `internal/defs` outside `init` is one of the descriptor build (modelled above), the type-node cache
    (modelled above) or the caller-less caching resolver — the list of the tree the model was written from
    (the pools are the remaining shared state: `presence_independent_of_pool`, `scratch_cleared`) -/
theorem no_other_process_wide_state :
    Generated.facts.sharedWriteSiteList = Skeleton.sharedWrites := Instances.skeleton_sharedWrites

/-- nothing of an earlier message in the destination of a failing call either: the field loop stores the
    pointee of an optional scalar pointer — memory that comes uncleared from the allocator — into the
    destination only after the value's bytes are known to be there, so it is always written (D26: the
    allocation used to come first, and a truncated message left the field pointing at stale bytes);
    regenerated fact about `Decode`, the `staleProbe` stream looks for the bytes themselves -/
theorem no_unwritten_pointee_published : Generated.facts.pointeeAfterLengthCheck = true :=
  Instances.facts_pointeeAfterLengthCheck

/-- … and what the decoder creates it takes from cleared memory wherever a message can leave part of it
    unwritten: the type nodes that decide typed (zeroed, scanned) versus raw allocation — every struct,
    string, slice, map, pointer and array kind is typed — are, as full text, those of the tree the model was
    written from (`newTType` is part of the descriptor-table fingerprint; R1 left pointer-free structs to the
    uncleared allocator blocks: a sparse message then showed what the memory held before) -/
theorem created_structs_come_from_cleared_memory : Generated.facts.descTableSkeleton = Skeleton.descTable :=
  Instances.skeleton_descTable

end Frugal.C07
