/- Property C07: the property theorems (and nothing else). -/
import Frugal.Proofs.BitsetLemmas
import Frugal.Props.Instances
namespace Frugal.C07
open Frugal
/-- the required-field verdict is independent of the pooled presence set's prior contents -/
theorem presence_independent_of_pool (s0 s1 : BitSet) (req seen : List Nat) (r : Nat) (hr : r ∈ req) :
    (presenceRun Generated.params s0 req seen).test Generated.params r =
    (presenceRun Generated.params s1 req seen).test Generated.params r := by
  have h := bsOK_of_valid Instances.valid_bitset
  rw [presence_clean h s0 req seen r hr, presence_clean h s1 req seen r hr]
theorem failed_build_rolled_back : Generated.facts.rollbackOnFailedBuild = true := Instances.facts_rollback
theorem scratch_cleared : Generated.facts.scratchPooledAndCleared = true := by decide
end Frugal.C07
