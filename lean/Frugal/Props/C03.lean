/- Property C03: the property theorems (and nothing else). -/
import Frugal.Proofs.WireRT
import Frugal.Props.Instances
namespace Frugal.C03
open Frugal
/-- the reference reader accepts every well-formed message in one pass and consumes exactly it -/
theorem reference_reader_total (v : TVal) (fuel : Nat) (r : Bytes) (hw : wf v = true) (hd : depth v < fuel) :
    parse fuel v.tag (ser v ++ r) = some (v, r) := parse_ser v fuel r hw hd
theorem minWire_sound : Generated.params.validMinWire = true := Instances.valid_minWire
end Frugal.C03
