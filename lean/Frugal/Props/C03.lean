/- Property C03: the property theorems (and nothing else). -/
import Frugal.Proofs.DecodeRefine
import Frugal.Proofs.ReaderProps
import Frugal.Proofs.ReadTyped
import Frugal.Proofs.FieldOrder
import Frugal.Proofs.ReadTypedE
import Frugal.Props.Inst.Params
import Frugal.Props.Inst.F_skeleton_decoder
import Frugal.Props.Inst.F_valid_minWire
import Frugal.Props.Inst.F_skeleton_descTable
import Frugal.Props.Inst.F_skeleton_residualReflect
namespace Frugal.C03
open Frugal

/-- the reference parser accepts every well-formed message in one pass and consumes exactly it -/
theorem reference_parser_total (v : TVal) (fuel : Nat) (r : Bytes) (hw : wf v = true) (hd : depth v < fuel) :
    parse fuel v.tag (ser v ++ r) = some (v, r) := parse_ser v fuel r hw hd

/-- For every schema the tag language accepts, every well-formed struct message — fields in any
    order, duplicates, unknown fields of any type at any level, written under any other schema — and
    arbitrary trailing bytes and destination contents: `DecodeObject` returns exactly what the
    reference reader (lean/Frugal/Reader.lean) returns, and the number of bytes up to and including
    the top-level STOP. -/
theorem decoder_is_reference_reader (S : Schema) (hS : S.ok = true) (sid : Nat) (fs : List (Nat × TVal))
    (trailing : Bytes) (dest : Val) (hw : wfFields fs = true) :
    decodeM Generated.params S sid (ser (.strct fs) ++ trailing) dest =
      (readMessage Generated.params S sid fs trailing.length dest).mapv (·, (ser (.strct fs)).length) :=
  decodeM_refines Instances.params_valid S hS sid fs trailing dest hw

/-- the reference reader leaves every destination field the message does not carry untouched -/
theorem absent_fields_untouched (S : Schema) (total fuel : Nat) (sd : SDesc) (fs : List (Nat × TVal))
    (tail : Nat) (vs : List Val) (st' : LoopSt)
    (h : readFields Generated.params S total fuel sd fs tail { fs := vs } = .ok st') (j : Nat)
    (hj : j ∉ writtenIxs sd fs) : st'.fs.getD j default = vs.getD j default :=
  untouched _ S total fuel sd fs tail vs st' h j hj

/-- type soundness of the decoder: what `DecodeObject` returns for a well-formed message into a typed
    destination is a typed value of the struct — every scalar within the range of its Go kind (a bool
    is 0 or 1: the decoder stores `byte == 1`, D16), nil flags only on empty containers, no pointer to a
    pointer, holder bytes only where the type declares the holder, every struct at every level with
    exactly its schema's fields (`hasTy`).  For schemas without `nocopy` fields (`S.rtSide`; a view is not
    a value of this typing). -/
theorem decoded_value_is_typed (S : Schema) (hS : S.ok = true) (hside : S.rtSide) (sid : Nat)
    (fs : List (Nat × TVal)) (trailing : Bytes) (dest w : Val) (n : Nat)
    (hw : wfFields fs = true) (hd : hasTy S (.strct sid) dest = true)
    (h : decodeM Generated.params S sid (ser (.strct fs) ++ trailing) dest = .ok (w, n)) :
    hasTy S (.strct sid) w = true := by
  rw [decodeM_refines Instances.params_valid S hS sid fs trailing _ hw] at h
  obtain ⟨w0, h0, e⟩ := mapv_ok_inv _ _ _ h
  simp only [Prod.mk.injEq] at e
  obtain ⟨rfl, _⟩ := e
  exact readMessage_typed Generated.params S hS hside sid fs trailing.length dest _ hw hd h0

/-- **whatever the order of its fields**: for a schema without `nocopy` fields, a well-formed message and
    any permutation of its top-level fields in which no destination field is written twice, `DecodeObject`
    accepts the permuted message exactly as it accepts the original — same number of bytes, the same
    value in every field of the destination (the holder keeps the unrecognised fields in the new message
    order: C11).  (With `nocopy` fields the values are the same and only the recorded buffer offsets move:
    `C11.recognised_as_if_alone`; two occurrences of one field do not commute — see the example below.)
    Nested structs: the same statement one level down, for the message the nested struct is read from. -/
theorem field_order_immaterial (S : Schema) (hS : S.ok = true)
    (hnc : ∀ sid, ∀ f ∈ (S.get sid).fields, f.nocopy = false) (sid : Nat)
    (fs fs' : List (Nat × TVal)) (hp : fs.Perm fs') (hnd : (writtenIxs (S.get sid) fs).Nodup)
    (hw : wfFields fs = true) (trailing trailing' : Bytes) (dest w : Val) (n : Nat)
    (h : decodeM Generated.params S sid (ser (.strct fs) ++ trailing) dest = .ok (w, n)) :
    ∃ w', decodeM Generated.params S sid (ser (.strct fs') ++ trailing') dest = .ok (w', n) ∧
      w'.fieldsOf = w.fieldsOf :=
  decodeM_perm Instances.params_valid S hS hnc sid hp hnd hw trailing trailing' dest w n h

/-- … and for **every** schema, `nocopy` fields included: the same, up to where the bytes of `nocopy` strings
    live (`eraseList` forgets the buffer offset a view records — the permuted message is a different byte
    string, so the offsets move while the bytes they show do not; `hdf`: declared defaults are not views) -/
theorem field_order_immaterial_any_schema (S : Schema) (hS : S.ok = true)
    (hdf : ∀ sid, ∀ f ∈ (S.get sid).fields, ∀ d, f.dflt = some d → plain d = true) (sid : Nat)
    (fs fs' : List (Nat × TVal)) (hp : fs.Perm fs') (hnd : (writtenIxs (S.get sid) fs).Nodup)
    (hw : wfFields fs = true) (trailing trailing' : Bytes) (dest w : Val) (n : Nat)
    (h : decodeM Generated.params S sid (ser (.strct fs) ++ trailing) dest = .ok (w, n)) :
    ∃ w', decodeM Generated.params S sid (ser (.strct fs') ++ trailing') dest = .ok (w', n) ∧
      eraseList w'.fieldsOf = eraseList w.fieldsOf :=
  decodeM_permE Instances.params_valid S hS hdf sid hp hnd hw trailing trailing' dest w n h

/-- not vacuous: `{1: i32, 2: i32}` and a message carrying each field once (the hypothesis is needed: a
    second occurrence of field 1 does not commute with the first — the last one wins, as the `dec` lines
    with duplicated fields show on the model and on the code alike) -/
def exOrd : Schema :=
  [{ fields := [{ id := 1, req := .dflt, ty := .base .i32 }, { id := 2, req := .dflt, ty := .base .i32 }] }]
example : exOrd.ok = true ∧ (writtenIxs (exOrd.get 0) [(1, .i32 5), (2, .i32 6)]).Nodup ∧
    ¬ (writtenIxs (exOrd.get 0) [(1, .i32 5), (1, .i32 7)]).Nodup ∧
    wfFields [(1, .i32 5), (2, .i32 6)] = true := by decide

/-- … and for **every** schema, `nocopy` fields included: forgetting where the bytes of views live (`erase`
    turns a view into the string it shows; C14 says where they live), the decoded value is a typed value.
    Side conditions as in C01: declared defaults are values of their field's type, the zero value of every
    struct is one (finite by-value nesting) — Go's typing of `InitDefault` and of struct declarations. -/
theorem decoded_value_is_typed_any_schema (S : Schema) (hS : S.ok = true)
    (hdt : ∀ sid, ∀ f ∈ (S.get sid).fields, ∀ d, f.dflt = some d → hasTy S f.ty d = true)
    (hz : ∀ sid, hasTy S (.strct sid) (zeroVal S S.length (.strct sid)) = true) (sid : Nat)
    (fs : List (Nat × TVal)) (trailing : Bytes) (dest w : Val) (n : Nat)
    (hw : wfFields fs = true) (hd : hasTy S (.strct sid) (erase dest) = true)
    (h : decodeM Generated.params S sid (ser (.strct fs) ++ trailing) dest = .ok (w, n)) :
    hasTy S (.strct sid) (erase w) = true := by
  rw [decodeM_refines Instances.params_valid S hS sid fs trailing _ hw] at h
  obtain ⟨w0, h0, e⟩ := mapv_ok_inv _ _ _ h
  simp only [Prod.mk.injEq] at e
  obtain ⟨rfl, _⟩ := e
  exact readMessage_typedE Generated.params S hS hdt hz sid fs trailing.length dest _ hw hd h0

/-- a bool byte is read as every Thrift reader reads it: 1 is true, anything else false -/
theorem bool_byte_is_one_or_zero (n : Nat) :
    readFixed .bool (.bool n) = .ok (.sc (if n = 1 then 1 else 0)) := by simp [readFixed]

/-- the count checks never reject a well-formed message -/
theorem minWire_sound : Generated.params.validMinWire = true := Instances.valid_minWire

/-- non-vacuity: a message with an unknown field, a duplicate and a nested list -/
example : wfFields [(1, .i32 7), (9, .list 11 [.str [65]]), (1, .i32 8)] = true := by decide
/-- the hand-written model of the decoder functions (`Decode`, `decodeType`, `decodeStringNoCopy`, `decodeFixedSizeTypes`, `skipUnknown`, `mallocIfPointer`, `Malloc`) was written from, and validated against, code with exactly this
    control structure (guards, switches, loops, returns, call sequence): regenerated fingerprint =
    committed fingerprint of the unchanged tree -/
theorem model_written_from_this_code : Generated.facts.decoderSkeleton = Skeleton.decoder := Instances.skeleton_decoder
/-- the schema the theorems quantify over reaches the codec through the descriptor tables (field index
    by id, required ids, offsets, per-field flags and fixed sizes, the type node's tag / size / alignment /
    element nodes): the declarations `structDesc`, `tField`, `tType` and the functions that fill them in
    (`fromDefsFields`, `fromDefsField`, `GetField`, `newTType`) are, as full text, those the model and the
    correspondence runs were validated against (regenerated fingerprint) -/
theorem descriptor_tables_built_as_modelled : Generated.facts.descTableSkeleton = Skeleton.descTable :=
  Instances.skeleton_descTable

/-- the rest of `internal/reflect` — every function and package-level declaration that neither a fingerprint, a table translation nor a protocol fact covers (the entry points' argument handling, the runtime-layout helpers of `hack.go`, `span`, `bitset`, the exception constructors, the pools, `utils.go`) — is, as full text, that of the tree the model was written from -/
theorem rest_of_codec_package_as_modelled : Generated.facts.residualReflectSkeleton = Skeleton.residualReflect := Instances.skeleton_residualReflect

end Frugal.C03
