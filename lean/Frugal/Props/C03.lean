/- Property C03: the property theorems (and nothing else). -/
import Frugal.Proofs.DecodeRefine
import Frugal.Proofs.ReaderProps
import Frugal.Proofs.ReadTyped
import Frugal.Props.Inst.Params
import Frugal.Props.Inst.F_skeleton_decoder
import Frugal.Props.Inst.F_valid_minWire
import Frugal.Props.Inst.F_skeleton_descTable
namespace Frugal.C03
open Frugal

/-- the reference parser accepts every well-formed message in one pass and consumes exactly it -/
theorem reference_parser_total (v : TVal) (fuel : Nat) (r : Bytes) (hw : wf v = true) (hd : depth v < fuel) :
    parse fuel v.tag (ser v ++ r) = some (v, r) := parse_ser v fuel r hw hd

/-- For every schema the tag language accepts, every well-formed struct message — fields in any
    order, duplicates, unknown fields of any type at any level, written under any other schema — and
    arbitrary trailing bytes and destination contents: `DecodeObject` returns exactly what the
    reference reader (lean/Frugal/Reader.lean) returns, and the number of bytes up to and including
    the top-level STOP. -/
theorem decoder_is_reference_reader (S : Schema) (hS : S.ok = true) (sid : Nat) (fs : List (Nat × TVal))
    (trailing : Bytes) (dest : Val) (hw : wfFields fs = true) :
    decodeM Generated.params S sid (ser (.strct fs) ++ trailing) dest =
      (readMessage Generated.params S sid fs trailing.length dest).mapv (·, (ser (.strct fs)).length) :=
  decodeM_refines Instances.params_valid S hS sid fs trailing dest hw

/-- the reference reader leaves every destination field the message does not carry untouched -/
theorem absent_fields_untouched (S : Schema) (total fuel : Nat) (sd : SDesc) (fs : List (Nat × TVal))
    (tail : Nat) (vs : List Val) (st' : LoopSt)
    (h : readFields Generated.params S total fuel sd fs tail { fs := vs } = .ok st') (j : Nat)
    (hj : j ∉ writtenIxs sd fs) : st'.fs.getD j default = vs.getD j default :=
  untouched _ S total fuel sd fs tail vs st' h j hj

/-- type soundness of the decoder: what `DecodeObject` returns for a well-formed message into a typed
    destination is a typed value of the struct — every scalar within the range of its Go kind (a bool
    is 0 or 1: the decoder stores `byte == 1`, D16), nil flags only on empty containers, no pointer to a
    pointer, holder bytes only where the type declares the holder, every struct at every level with
    exactly its schema's fields (`hasTy`).  For schemas without `nocopy` fields (`S.rtSide`; a view is not
    a value of this typing). -/
theorem decoded_value_is_typed (S : Schema) (hS : S.ok = true) (hside : S.rtSide) (sid : Nat)
    (fs : List (Nat × TVal)) (trailing : Bytes) (dest w : Val) (n : Nat)
    (hw : wfFields fs = true) (hd : hasTy S (.strct sid) dest = true)
    (h : decodeM Generated.params S sid (ser (.strct fs) ++ trailing) dest = .ok (w, n)) :
    hasTy S (.strct sid) w = true := by
  rw [decodeM_refines Instances.params_valid S hS sid fs trailing _ hw] at h
  obtain ⟨w0, h0, e⟩ := mapv_ok_inv _ _ _ h
  simp only [Prod.mk.injEq] at e
  obtain ⟨rfl, _⟩ := e
  exact readMessage_typed Generated.params S hS hside sid fs trailing.length dest _ hw hd h0

/-- a bool byte is read as every Thrift reader reads it: 1 is true, anything else false -/
theorem bool_byte_is_one_or_zero (n : Nat) :
    readFixed .bool (.bool n) = .ok (.sc (if n = 1 then 1 else 0)) := by simp [readFixed]

/-- the count checks never reject a well-formed message -/
theorem minWire_sound : Generated.params.validMinWire = true := Instances.valid_minWire

/-- non-vacuity: a message with an unknown field, a duplicate and a nested list -/
example : wfFields [(1, .i32 7), (9, .list 11 [.str [65]]), (1, .i32 8)] = true := by decide
/-- the hand-written model of the decoder functions (`Decode`, `decodeType`, `decodeStringNoCopy`, `decodeFixedSizeTypes`, `skipUnknown`, `mallocIfPointer`, `Malloc`) was written from, and validated against, code with exactly this
    control structure (guards, switches, loops, returns, call sequence): regenerated fingerprint =
    committed fingerprint of the unchanged tree -/
theorem model_written_from_this_code : Generated.facts.decoderSkeleton = Skeleton.decoder := Instances.skeleton_decoder
/-- the schema the theorems quantify over reaches the codec through the descriptor tables (field index
    by id, required ids, offsets, per-field flags and fixed sizes, the type node's tag / size / alignment /
    element nodes): the declarations `structDesc`, `tField`, `tType` and the functions that fill them in
    (`fromDefsFields`, `fromDefsField`, `GetField`, `newTType`) are, as full text, those the model and the
    correspondence runs were validated against (regenerated fingerprint) -/
theorem descriptor_tables_built_as_modelled : Generated.facts.descTableSkeleton = Skeleton.descTable :=
  Instances.skeleton_descTable

end Frugal.C03
