/- Property C02: the property theorems (and nothing else). -/
import Frugal.Proofs.ToWire
import Frugal.Proofs.Strict
import Frugal.Proofs.Holders
import Frugal.Proofs.BufferLemmas
import Frugal.Props.Inst.Params
import Frugal.Props.Inst.F_skeleton_encoder
import Frugal.Props.Inst.F_valid_binaryGuard
import Frugal.Props.Inst.F_valid_list
import Frugal.Props.Inst.F_valid_map
import Frugal.Props.Inst.F_skeleton_descTable
import Frugal.Props.Inst.F_skeleton_residualReflect
namespace Frugal.C02
open Frugal

/-- every regenerated dispatch table entry (11 list routines, 144 map registrations, the two
    fall-backs, the binary guard) writes what the element / key / value type requires and, for the
    typed-range routines, casts the map to a type of the same layout. -/
theorem tables_sound : Generated.params.validList = true ∧ Generated.params.validMap = true ∧
    Generated.params.mapBinaryGuard = true :=
  ⟨Instances.valid_list, Instances.valid_map, Instances.valid_binaryGuard⟩

/-- For every schema the tag language accepts and every value: the bytes the encoder (as written,
    through its fast-path tables) produces are exactly the independent reference encoder's bytes. -/
theorem encoder_refines_reference (S : Schema) (hS : S.ok = true) (ty : Ty) (v : Val)
    (hok : ty.ok = true) (ht : hasTy S ty v = true) :
    appendAny Generated.params S ty v = refEnc S ty v :=
  appendAny_eq Instances.params_valid S hS v ty hok ht

/-- ... and those bytes are the Thrift Binary serialisation of the value's denotation under the
    schema (each written field once, with its declared id and wire type; enum as i32, binary as
    string, set as SET, list as LIST; counts = number of elements; STOP after every struct) -/
theorem reference_is_wire_encoding (S : Schema) (hS : S.ok = true) (ty : Ty) (v : Val) (hok : ty.ok = true)
    (hnil : nilOK ty v = true) (ht : hasTy S ty v = true) (hn : noHolder v = true) :
    refEnc S ty v = ser (toWire S ty v) :=
  refEnc_eq_ser S hS v ty hok hnil ht hn

/-- the two together, as the caller sees them: after `EncodeObject` into any sufficient buffer, `buf[:n]`
    is the Thrift Binary serialisation of the value's denotation (buffer model: C04 / C16) -/
theorem buffer_holds_the_wire_encoding (S : Schema) (hS : S.ok = true) (sid : Nat) (v : Val)
    (hnil : nilOK (.strct sid) v = true) (ht : hasTy S (.strct sid) v = true) (hn : noHolder v = true)
    (back : Bytes) (len : Nat) (chunks : List Bytes)
    (hch : chunks.flatten = appendM Generated.params S sid v) (hfit : chunks.flatten.length ≤ len) :
    (encodeObjectM back len chunks).2.2.take (encodeObjectM back len chunks).1
      = ser (toWire S (.strct sid) v) := by
  rw [encodeObject_fits back len chunks hfit]
  simp only [List.take_left']
  rw [hch]; unfold appendM
  rw [encoder_refines_reference S hS (.strct sid) v rfl ht,
      reference_is_wire_encoding S hS (.strct sid) v rfl hnil ht hn]

/-- the denotation is a well-formed Thrift value of the declared wire type -/
theorem denotation_well_formed (S : Schema) (hS : S.ok = true) (ty : Ty) (v : Val) (hok : ty.ok = true)
    (hnil : nilOK ty v = true) (ht : hasTy S ty v = true) (hf : sizesFit v = true) :
    wf (toWire S ty v) = true ∧ (toWire S ty v).tag = ty.wire :=
  ⟨toWire_wf S hS v ty hok hnil ht hf, toWire_tag S v ty hnil ht⟩

/-- the same for values that carry retained unknown-field bytes (holders), at any nesting level:
    when every holder is the serialisation of a list of well-formed fields (`fitH`, which also bounds
    strings and containers by int32; every decoded value is such a value, C11), the encoder as written
    produces the serialisation of the denotation `toWireH` — `toWire` with, in every struct, the fields
    its holder serialises listed after the struct's own — and that denotation is a well-formed Thrift
    value of the declared wire type.  `toWireH` coincides with `toWire` on values without holders. -/
theorem encoding_with_retained_fields (S : Schema) (hS : S.ok = true) (ty : Ty) (v : Val) (hok : ty.ok = true)
    (hnil : nilOK ty v = true) (ht : hasTy S ty v = true) (hf : fitH v = true) :
    appendAny Generated.params S ty v = ser (toWireH S ty v) ∧ wf (toWireH S ty v) = true ∧
      (toWireH S ty v).tag = ty.wire :=
  ⟨by rw [appendAny_eq Instances.params_valid S hS v ty hok ht]
      exact refEnc_eq_serH S hS v ty hok hnil ht (fitH_holdersOK v hf),
   toWireH_wf S hS v ty hok hnil ht hf, toWireH_tag S v ty hnil ht⟩

theorem retained_denotation_extends (S : Schema) (ty : Ty) (v : Val) (hn : noHolder v = true) :
    toWireH S ty v = toWire S ty v :=
  toWireH_of_noHolder S v ty hn

/-- … and strictly so: every element / key / value code it carries is a protocol type code, empty
    containers included (`wf` itself only asks for a non-negative int8 there, see Wire.lean) -/
theorem codes_are_protocol_codes (S : Schema) (ty : Ty) (v : Val) : codesStrict (toWire S ty v) = true :=
  toWire_codesStrict S v ty

/-- each field that must be present appears exactly once: the message's ids are a sublist of the field
    table's ids (in table order: ascending id, C12.field_table) and pairwise distinct -/
theorem fields_appear_once (S : Schema) (sd : SDesc) (fs : List Field) (xs : List Val)
    (h : fs.Pairwise (fun a b => a.id ≠ b.id)) :
    ((toWireFields S sd fs xs).map (·.1)).Sublist (fs.map (·.id)) ∧
    ((toWireFields S sd fs xs).map (·.1)).Pairwise (· ≠ ·) :=
  ⟨toWireFields_ids_sublist S sd fs xs, toWireFields_ids_distinct S sd fs xs h⟩

/-- nil non-optional containers are written empty and a nil non-optional struct as an empty struct -/
theorem nil_written_empty (S : Schema) (s : Bool) (e k v : Ty) (sid : Nat) :
    toWire S (.list s e) (.lst true []) = (if s then .set e.wire [] else .list e.wire []) ∧
    toWire S (.map k v) (.mp true []) = .map k.wire v.wire [] ∧
    toWire S (.ptr (.strct sid)) .nilp = .strct [] := toWire_nil S s e k v sid

/-- the reference parser inverts `ser`: equal bytes denote equal Thrift values, and an independent
    parser reads the output back to the same value -/
theorem ser_denotes (v w : TVal) (hv : wf v = true) (hw : wf w = true) (ht : v.tag = w.tag)
    (e : ser v = ser w) : v = w := ser_injective v w hv hw ht e

/-- non-vacuity: a concrete schema and value satisfy the hypotheses -/
example : let S : Schema := [{ fields := [{ id := 1, req := .dflt, ty := .list false (.base .i32) }] }]
    S.ok = true ∧ hasTy S (.strct 0) (.st [.lst false [.sc 7, .sc 8]] []) = true := by decide
/-- the hand-written model of the encoder and size functions (`appendStruct`, `appendAny`, `EncodedSize`, `encodedMapSize`, `encodedListSize`, the two header writers, `Append`, `EncodedSize`) was written from, and validated against, code with exactly this
    control structure (guards, switches, loops, returns, call sequence): regenerated fingerprint =
    committed fingerprint of the unchanged tree -/
theorem model_written_from_this_code : Generated.facts.encoderSkeleton = Skeleton.encoder := Instances.skeleton_encoder
/-- the schema the theorems quantify over reaches the codec through the descriptor tables (field index
    by id, required ids, offsets, per-field flags and fixed sizes, the type node's tag / size / alignment /
    element nodes): the declarations `structDesc`, `tField`, `tType` and the functions that fill them in
    (`fromDefsFields`, `fromDefsField`, `GetField`, `newTType`) are, as full text, those the model and the
    correspondence runs were validated against (regenerated fingerprint) -/
theorem descriptor_tables_built_as_modelled : Generated.facts.descTableSkeleton = Skeleton.descTable :=
  Instances.skeleton_descTable

/-- the rest of `internal/reflect` — every function and package-level declaration that neither a fingerprint, a table translation nor a protocol fact covers (the entry points' argument handling, the runtime-layout helpers of `hack.go`, `span`, `bitset`, the exception constructors, the pools, `utils.go`) — is, as full text, that of the tree the model was written from -/
theorem rest_of_codec_package_as_modelled : Generated.facts.residualReflectSkeleton = Skeleton.residualReflect := Instances.skeleton_residualReflect

end Frugal.C02
