/- Property C08: the property theorems (and nothing else). -/
import Frugal.Proofs.DescMapLemmas
import Frugal.Props.Inst.F_facts_lockDiscipline
import Frugal.Props.Inst.F_facts_descriptorsReadOnly
import Frugal.Props.Inst.F_skeleton_sharedWrites
namespace Frugal.C08
open Frugal
/-- under every interleaving of any number of goroutines, a completed first-use call returns the
    descriptor a sequential execution returns -/
theorem concurrent_first_use_agrees (descOf key : Nat → Nat) (sched : List Nat) (t : Nat)
    (hd : (crun descOf (cinit key) sched).pc t = .done) :
    (crun descOf (cinit key) sched).ret t = some (descOf (key t)) := agreement descOf key sched t hd
theorem one_builder_at_a_time (descOf key : Nat → Nat) (sched : List Nat) (t u : Nat)
    (ht : inCrit ((crun descOf (cinit key) sched).pc t) = true)
    (hu : inCrit ((crun descOf (cinit key) sched).pc u) = true) : t = u :=
  mutual_exclusion descOf key sched t u ht hu
/-- no deadlock: while a call is unfinished some goroutine can step -/
theorem no_deadlock (descOf key : Nat → Nat) (sched : List Nat) (t : Nat)
    (hn : (crun descOf (cinit key) sched).pc t ≠ .done) :
    ∃ u, (cstep descOf (crun descOf (cinit key) sched) u).isSome = true :=
  progress (crun_inv sched (cinit key) (cinit_inv descOf key)) t hn
/-- the code follows the protocol the model describes (regenerated structural facts) -/
theorem lock_discipline : Generated.facts.lockDiscipline = true := Instances.facts_lockDiscipline
/-- … and what the concurrent calls share after that — the published descriptors — is never written on
    the encode / size / decode paths (regenerated fact: no assignment to, increment of, or address taken
    of a field reached from a `*tType` / `*structDesc` / `*tField` in those functions), so calls on
    unshared values and buffers run on read-only shared state plus pooled scratch -/
theorem descriptors_read_only_on_hot_paths : Generated.facts.descriptorsReadOnly = true :=
  Instances.facts_descriptorsReadOnly
/-- every store into package-level state of `internal/reflect` and `internal/defs` (outside `init`) is one
    of those of the tree the model was written from — the descriptor build under its lock, the two table
    registrations that only `init` calls, the caller-less caching resolver under its own lock: no
    package-level variable is written on the encode, size or decode paths (P1 cached an error string in a
    shared table from inside `DecodeObject`: a data race that no result shows) -/
theorem shared_state_written_only_where_modelled :
    Generated.facts.sharedWriteSiteList = Skeleton.sharedWrites := Instances.skeleton_sharedWrites

end Frugal.C08
