/-
  Views.lean — C14 as a predicate on decoded values: `viewsExact S inp t v` says that inside `v`
  (a value of type `t`) a view of the input buffer occurs only as the value of a field declared
  `nocopy` (plain or optional-pointer form), and that every such view `(off, s)` is exactly the bytes
  `inp[off : off + len s]`, non-empty.
-/
import Frugal.Reader
namespace Frugal

/- every view inside `v` points at its own bytes in `inp` -/
mutual
def viewsAt (inp : Bytes) : Val → Bool
  | .vstr off s => decide ((inp.drop off).take s.length = s) && !s.isEmpty
  | .vbin off s => decide ((inp.drop off).take s.length = s) && !s.isEmpty
  | .ptr v => viewsAt inp v
  | .lst _ xs => viewsAtList inp xs
  | .mp _ es => viewsAtEntries inp es
  | .st fs _ => viewsAtList inp fs
  | _ => true
def viewsAtList (inp : Bytes) : List Val → Bool
  | [] => true
  | x :: r => viewsAt inp x && viewsAtList inp r
def viewsAtEntries (inp : Bytes) : List (Val × Val) → Bool
  | [] => true
  | (a, b) :: r => viewsAt inp a && viewsAt inp b && viewsAtEntries inp r
end

/- no view at all -/
mutual
def plain : Val → Bool
  | .vstr _ _ => false
  | .vbin _ _ => false
  | .ptr v => plain v
  | .lst _ xs => plainList xs
  | .mp _ es => plainEntries es
  | .st fs _ => plainList fs
  | _ => true
def plainList : List Val → Bool
  | [] => true
  | x :: r => plain x && plainList r
def plainEntries : List (Val × Val) → Bool
  | [] => true
  | (a, b) :: r => plain a && plain b && plainEntries r
end

mutual
def viewsExact (S : Schema) (inp : Bytes) : Ty → Val → Bool
  | .strct sid, .st xs _ => viewsExactFields S inp (S.get sid).fields xs
  | .ptr e, .ptr v => viewsExact S inp e v
  | .list _ e, .lst _ xs => viewsExactList S inp e xs
  | .map k v, .mp _ es => viewsExactEntries S inp k v es
  | _, v => plain v
def viewsExactList (S : Schema) (inp : Bytes) (e : Ty) : List Val → Bool
  | [] => true
  | x :: r => viewsExact S inp e x && viewsExactList S inp e r
def viewsExactEntries (S : Schema) (inp : Bytes) (k v : Ty) : List (Val × Val) → Bool
  | [] => true
  | (a, b) :: r => viewsExact S inp k a && viewsExact S inp v b && viewsExactEntries S inp k v r
def viewsExactFields (S : Schema) (inp : Bytes) : List Field → List Val → Bool
  | f :: fr, x :: xr =>
      (if f.nocopy then viewsAt inp x else viewsExact S inp f.ty x) && viewsExactFields S inp fr xr
  | _, xs => plainList xs
end

end Frugal
