/-
  Reader.lean — the reference reader: what a conforming Thrift reader for the schema does with a
  *parsed* message (a `TVal`), written without any byte-level concern.  `Proofs/DecodeRefine.lean`
  shows that frugal's single-pass byte decoder computes exactly this on the serialisation of every
  well-formed message (C03), and the semantic properties C09, C10, C11, C14, C15 are then statements
  about this short definition.

  `tail` is the number of input bytes that follow the value being read (only needed to state where
  in the input buffer a `nocopy` field points).
-/
import Frugal.Decode
import Frugal.Valid
namespace Frugal

/-- nesting the skipper has to recurse through: one level per struct / container; scalars and
    strings are skipped inline -/
def TVal.isScalarOrStr : TVal → Bool
  | .strct _ | .map .. | .set .. | .list .. => false
  | _ => true

mutual
def skipNeed : TVal → Nat
  | .strct fs => skipNeedFields fs + 1
  | .map _ _ es => skipNeedEntries es + 1
  | .set _ xs => skipNeedList xs + 1
  | .list _ xs => skipNeedList xs + 1
  | _ => 1
def skipNeedFields : List (Nat × TVal) → Nat
  | [] => 0
  | (_, v) :: r => max (if v.isScalarOrStr then 0 else skipNeed v) (skipNeedFields r)
def skipNeedEntries : List (TVal × TVal) → Nat
  | [] => 0
  | (k, v) :: r => max (max (if k.isScalarOrStr then 0 else skipNeed k) (if v.isScalarOrStr then 0 else skipNeed v))
      (skipNeedEntries r)
def skipNeedList : List TVal → Nat
  | [] => 0
  | v :: r => max (if v.isScalarOrStr then 0 else skipNeed v) (skipNeedList r)
end

/-- a transmitted fixed-size value read into a slot of internal tag `t` -/
def readFixed (t : TT) : TVal → Outcome Val
  | .bool n => if t == .bool then .ok (.sc (if n = 1 then 1 else 0)) else .err .other
  | .i8 n => if t == .byte then .ok (.sc n) else .err .other
  | .double n => if t == .double then .ok (.sc n) else .err .other
  | .i16 n => if t == .i16 then .ok (.sc n) else .err .other
  | .i32 n => if t == .i32 then .ok (.sc n) else if t == .enum then .ok (.sc (sext32to64 n)) else .err .other
  | .i64 n => if t == .i64 then .ok (.sc n) else .err .other
  | _ => .err .other

/-- a transmitted string read into a string / binary slot; a `nocopy` field views the input at
    the offset of the value's bytes -/
def readStr (isBin nocopy : Bool) (total tail : Nat) : TVal → Outcome Val
  | .str s =>
    if s.length = 0 then .ok (if isBin then .bin false [] else .str [])
    else
      let off := total - (s.length + tail)
      .ok (if nocopy then (if isBin then .vbin off s else .vstr off s)
           else (if isBin then .bin false s else .str s))
  | _ => .err .other

def Outcome.mapv {α β} (f : α → β) : Outcome α → Outcome β
  | .ok a => .ok (f a)
  | .err e => .err e
  | .panic p => .panic p

abbrev RdSt := LoopSt

mutual
/-- read one transmitted value `tv` as a value of (dereferenced) type `t` into a slot holding `dest` -/
def readVal (P : Params) (S : Schema) (total : Nat) : Nat → Ty → TVal → Nat → Val → Outcome Val
  | 0, _, _, _, _ => .err .depth
  | fuel + 1, t, tv, tail, dest =>
    if specFixed t.tt > 0 then readFixed t.tt tv
    else match t with
      | .base k => if t.tt == .string then readStr (k == .binary) false total tail tv else .err .unknownType
      | .map kt vt =>
        match tv with
        | .map a b es =>
          if a ≠ kt.wire ∨ b ≠ vt.wire then .err .typeMismatch
          else (readEntries P S total fuel kt vt es tail []).mapv fun es' => .mp false es'
        | _ => .err .other
      | .list _ et =>
        match tv with
        | .list a xs =>
          if et.wire ≠ a then .err .typeMismatch
          else if xs.length = 0 then .ok (.lst false [])
          else (readList P S total fuel et xs tail).mapv fun xs' => .lst false xs'
        | .set a xs =>
          if et.wire ≠ a then .err .typeMismatch
          else if xs.length = 0 then .ok (.lst false [])
          else (readList P S total fuel et xs tail).mapv fun xs' => .lst false xs'
        | _ => .err .other
      | .strct sid =>
        match tv with
        | .strct fs =>
          let sd := S.get sid
          let dest' := match dest with
            | .st vs h => if sd.hasInit then Val.st (applyInit sd.fields vs) h else dest
            | d => d
          readStruct P S total fuel sid fs tail dest'
        | _ => .err .other
      | .ptr _ => .err .unknownType
/-- read a struct message: the fields in wire order, then the required-field check -/
def readStruct (P : Params) (S : Schema) (total : Nat) : Nat → Nat → List (Nat × TVal) → Nat → Val → Outcome Val
  | 0, _, _, _, _ => .err .depth
  | fuel + 1, sid, fs, tail, dest =>
    let sd := S.get sid
    match dest with
    | .st vs h =>
      match readFields P S total fuel sd fs (tail + 1) { fs := vs } with
      | .ok st =>
        match firstMissing sd.fields st.seen with
        | some f => .err (.required f.name)
        | none => .ok (.st st.fs (if sd.hasHolder && st.unk.length > 0 then st.unk else h))
      | .err e => .err e
      | .panic p => .panic p
    | _ => .err .other
/-- the field loop; `tail` counts the bytes after the current field (later fields, STOP, trailing) -/
def readFields (P : Params) (S : Schema) (total : Nat) (fuel : Nat) (sd : SDesc) :
    List (Nat × TVal) → Nat → RdSt → Outcome RdSt
  | [], _, st => .ok st
  | (id, v) :: r, tail, st =>
    match lookupKnown sd id v.tag with
    | none =>
      if skipNeed v > P.skipDepth then .err .depth
      else
        readFields P S total fuel sd r tail
          (if sd.hasHolder then { st with unk := st.unk ++ serField id v } else st)
    | some (ix, f) =>
      -- the value is followed by the remaining fields, the STOP byte and whatever trails
      match readField P S total fuel f v ((serFields r).length + tail) (st.fs.getD ix default) with
      | .ok x => readFields P S total fuel sd r tail { st with fs := st.fs.set ix x, seen := f.id :: st.seen }
      | .err e => .err e
      | .panic p => .panic p
/-- one known field: fixed-size value, `nocopy` view, or a recursive read into the slot -/
def readField (P : Params) (S : Schema) (total : Nat) (fuel : Nat) (f : Field) (v : TVal) (tail : Nat) (slot : Val) :
    Outcome Val :=
  if specFixed f.ty.tt > 0 then (readFixed f.ty.tt v).mapv (wrapPtr f.ty)
  else if f.nocopy then (readStr f.ty.deref.isBinary true total tail v).mapv (wrapPtr f.ty)
  else (readVal P S total fuel f.ty.deref v tail (freshTarget S f.ty slot)).mapv (wrapPtr f.ty)
/-- one element / key / value -/
def readSlot (P : Params) (S : Schema) (total : Nat) (fuel : Nat) (t : Ty) (x : TVal) (tail : Nat) (slot : Val) :
    Outcome Val :=
  if specFixed t.tt > 0 then (readFixed t.tt x).mapv (wrapPtr t)
  else (readVal P S total fuel t.deref x tail (freshTarget S t slot)).mapv (wrapPtr t)
def readList (P : Params) (S : Schema) (total : Nat) (fuel : Nat) (et : Ty) :
    List TVal → Nat → Outcome (List Val)
  | [], _ => .ok []
  | x :: r, tail =>
    match readSlot P S total fuel et x ((serList r).length + tail) (zeroVal S S.length et) with
    | .ok v =>
      match readList P S total fuel et r tail with
      | .ok vs => .ok (v :: vs)
      | .err e => .err e
      | .panic p => .panic p
    | .err e => .err e
    | .panic p => .panic p
def readEntries (P : Params) (S : Schema) (total : Nat) (fuel : Nat) (kt vt : Ty) :
    List (TVal × TVal) → Nat → List (Val × Val) → Outcome (List (Val × Val))
  | [], _, acc => .ok acc
  | (a, b) :: r, tail, acc =>
    match readSlot P S total fuel kt a ((ser b).length + ((serEntries r).length + tail)) (zeroVal S S.length kt) with
    | .ok k =>
      match readSlot P S total fuel vt b ((serEntries r).length + tail) (zeroVal S S.length vt) with
      | .ok v => readEntries P S total fuel kt vt r tail (mapInsert kt acc k v)
      | .err e => .err e
      | .panic p => .panic p
    | .err e => .err e
    | .panic p => .panic p
end

/-- the reference reader for a whole message: `DecodeObject` on `ser (.strct fs) ++ trailing` -/
def readMessage (P : Params) (S : Schema) (sid : Nat) (fs : List (Nat × TVal)) (trailing : Nat) (dest : Val) :
    Outcome Val :=
  readStruct P S ((ser (.strct fs)).length + trailing) P.maxDepth sid fs trailing dest

end Frugal
