/-
  Facts.lean — structural facts about /repo's source that tools/extract regenerates
  (`Generated.facts`): classifications of the legacy controls' bodies, recursion discipline of
  the decoder, lock discipline of descriptor creation, escape-analysis results.
-/
namespace Frugal

inductive BodyClass | noop | returnsNil | returnsArg | returnsEmptyClosure | returnsZero | other
  deriving DecidableEq, Repr, Inhabited

structure Facts where
  -- C17
  pretouch : BodyClass
  noJIT : BodyClass
  withOptions : List BodyClass
  setters : List BodyClass
  getStats : BodyClass
  optsRefsOutsideOpts : Nat
  optsImportsInCodec : Nat
  envParseBase0 : Bool
  envEmptyIsDefault : Bool
  envTooSmallIsLeMin : Bool
  -- C04 / C16
  encodeCapsAtLen : Bool
  encodeChecksLen : Bool
  -- C15
  recursionDecrements : Bool
  recursiveCalls : Nat
  depthZeroTests : Nat
  topLevelUsesLimit : Bool
  -- C05: allocations sized by a wire length / count come after the size check of their case clause
  allocAfterSizeCheck : Bool
  -- D26: `Decode` allocates the pointee of an optional fixed-size field only after the length check
  pointeeAfterLengthCheck : Bool
  allocSitesSized : Nat
  -- C06: allocations carry the size / alignment / GC type of one type node; pointerful kinds are typed
  typedAllocOK : Bool
  typedAllocSites : Nat
  -- fingerprints (sha256 prefix) of the control-structure skeletons of the functions the hand-written
  -- model describes: guards, switches, loops, returns and call sequence (listed in Generated.lean)
  decoderSkeleton : String
  encoderSkeleton : String
  resolverSkeleton : String
  -- fingerprint of the full text of the descriptor declarations and of the functions that fill them in
  descTableSkeleton : String
  -- C08 / C07
  createLocksRechecksBuildsPublishes : Bool
  getIsReadOnly : Bool
  setCopiesThenStores : Bool
  cachesConfinedToLockedPath : Bool
  publishOnlyInCreate : Bool
  buildPathCallersOK : Bool
  scratchPooledAndCleared : Bool
  rollbackOnFailedBuild : Bool
  /-- createStructDesc / newStructDescAndPrefetch / prefetchSubStructDesc / fetchStructDesc /
      rollbackBuild consist of exactly the statements `BuildCache.lean` models, in that order -/
  buildProtocol : Bool
  -- unknownfields.go and its three call sites in Decode are, statement by statement, UnknownIdx.lean
  unknownIndexProtocol : Bool
  -- ttype.go: the type-node cache is keyed by (x.String(), x.S), looked up before and stored right after
  -- allocation, nowhere else; defs.Type.String() prints what TypeKey.tyChars prints
  typeNodeCacheKeyed : Bool
  -- C08: writes to / addresses taken of fields reached from a shared descriptor on the hot paths
  descriptorWriteSites : Nat
  descriptorWriteSiteList : List String
  -- full text of everything in internal/defs / internal/reflect that no other fingerprint, table or fact covers
  residualDefsSkeleton : String
  residualReflectSkeleton : String
  -- C08 / C07: every store into package-level state of internal/reflect and internal/defs outside init
  -- ("pkg/file:func writes var"), to be compared with the list of the tree the model was written from
  sharedWriteSiteList : List String
  -- C16: stores of the encode / size functions that are not to the output buffer `b` or a local
  encodeForeignWriteSites : Nat
  encodeForeignWriteSiteList : List String
  -- C16: stores of the decoder into its input slice
  decodeInputWriteSites : Nat
  decodeInputWriteSiteList : List String
  -- C18
  hotPathHeapSites : Nat
  hotPathHeapSiteList : List String
  escapeAnalysisRan : Bool
  deriving Repr, Inhabited

namespace Facts
/-- C17: every legacy control has an inert body and the codec never reads the options package -/
def legacyInert (F : Facts) : Bool :=
  F.pretouch == .returnsNil && F.noJIT == .noop &&
  F.withOptions == [.returnsEmptyClosure, .returnsEmptyClosure, .returnsEmptyClosure] &&
  F.setters == [.returnsArg, .returnsArg] && F.getStats == .returnsZero &&
  F.optsRefsOutsideOpts == 0 && F.optsImportsInCodec == 0

def envParsing (F : Facts) : Bool := F.envParseBase0 && F.envEmptyIsDefault && F.envTooSmallIsLeMin

/-- C15: both decoder entry points test the budget and every recursive call spends one unit -/
def recursionDiscipline (F : Facts) : Bool :=
  F.recursionDecrements && F.depthZeroTests == 2 && F.topLevelUsesLimit

/-- C08: descriptor creation is double-checked under the mutex, publication is copy-on-write,
    the unsynchronised caches are confined to the locked path, scratch objects are pooled -/
def lockDiscipline (F : Facts) : Bool :=
  F.createLocksRechecksBuildsPublishes && F.getIsReadOnly && F.setCopiesThenStores &&
  F.cachesConfinedToLockedPath && F.publishOnlyInCreate && F.buildPathCallersOK &&
  F.scratchPooledAndCleared

/-- C08: after publication the descriptors (type nodes, struct and field descriptors) are read-only:
    no encode / size / decode function assigns to, increments, or takes the address of a field reached
    from one (the two routines that choose a node's encode function run inside `newTType` only) -/
def descriptorsReadOnly (F : Facts) : Bool := F.descriptorWriteSites == 0

/-- C16: in the encode and size functions (`append*.go`, the size methods, the `appendUint*` helpers)
    every assignment and increment is to a local variable or to an element of the output buffer `b`,
    and every `append` / `copy` has `b` as its destination: nothing is stored through the argument -/
def encodeWritesOnlyOutput (F : Facts) : Bool := F.encodeForeignWriteSites == 0

/-- C16: no function of decoder.go / unknownfields.go assigns to an element or sub-slice of the input
    `b`, appends to it or copies into it -/
def decodeNeverWritesInput (F : Facts) : Bool := F.decodeInputWriteSites == 0

/-- C04: `Append(buf[:0:len(buf)], v)` and `len(ret) > len(buf)` is the error test -/
def bufferContract (F : Facts) : Bool := F.encodeCapsAtLen && F.encodeChecksLen

/-- C05: every wire-sized allocation of the decoder is dominated by its size check -/
def allocationDiscipline (F : Facts) : Bool := F.allocAfterSizeCheck && F.allocSitesSized == 6

/-- C06: memory that can hold pointers is allocated typed (scanned by the GC), with the element's size
    and alignment; only string / binary bytes come from the pointer-free span -/
def typedAllocation (F : Facts) : Bool := F.typedAllocOK && F.typedAllocSites == 6

def steadyStateAllocFree (F : Facts) : Bool := F.escapeAnalysisRan && F.hotPathHeapSites == 0
end Facts

end Frugal
