/-
  Wire.lean — L0 specification: schema-less Thrift Binary Protocol values, their
  serialisation `ser`, well-formedness `wf`, and the reference parser `parse`.
  This file is the short, readable definition of "Thrift Binary Protocol" used by all
  property theorems; it does not mention frugal.
-/
import Frugal.Basic
namespace Frugal

/-- wire type codes of the Thrift Binary Protocol -/
def T_STOP : Nat := 0
def T_BOOL : Nat := 2
def T_BYTE : Nat := 3
def T_DOUBLE : Nat := 4
def T_I16 : Nat := 6
def T_I32 : Nat := 8
def T_I64 : Nat := 10
def T_STRING : Nat := 11
def T_STRUCT : Nat := 12
def T_MAP : Nat := 13
def T_SET : Nat := 14
def T_LIST : Nat := 15

/-- A schema-less Thrift Binary value. Scalars carry their raw bit patterns as naturals. -/
inductive TVal
  | bool (b : Nat)
  | i8 (b : Nat)
  | double (n : Nat)
  | i16 (n : Nat)
  | i32 (n : Nat)
  | i64 (n : Nat)
  | str (s : Bytes)
  | strct (fs : List (Nat × TVal))
  | map (kt vt : Nat) (es : List (TVal × TVal))
  | set (et : Nat) (xs : List TVal)
  | list (et : Nat) (xs : List TVal)
  deriving Inhabited

namespace TVal
def tag : TVal → Nat
  | bool _ => 2 | i8 _ => 3 | double _ => 4 | i16 _ => 6 | i32 _ => 8 | i64 _ => 10
  | str _ => 11 | strct _ => 12 | map .. => 13 | set .. => 14 | list .. => 15
end TVal

mutual
def ser : TVal → Bytes
  | .bool b => [u8 b]
  | .i8 b => [u8 b]
  | .double n => be64 n
  | .i16 n => be16 n
  | .i32 n => be32 n
  | .i64 n => be64 n
  | .str s => be32 s.length ++ s
  | .strct fs => serFields fs ++ [0]
  | .map kt vt es => u8 kt :: u8 vt :: be32 es.length ++ serEntries es
  | .set et xs => u8 et :: be32 xs.length ++ serList xs
  | .list et xs => u8 et :: be32 xs.length ++ serList xs
def serFields : List (Nat × TVal) → Bytes
  | [] => []
  | (id, v) :: r => u8 v.tag :: be16 id ++ ser v ++ serFields r
def serEntries : List (TVal × TVal) → Bytes
  | [] => []
  | (k, v) :: r => ser k ++ ser v ++ serEntries r
def serList : List TVal → Bytes
  | [] => []
  | v :: r => ser v ++ serList r
end

/-- one field as it appears on the wire: header + value -/
def serField (id : Nat) (v : TVal) : Bytes := u8 v.tag :: be16 id ++ ser v

/-- the wire type codes of the protocol -/
def isCode (n : Nat) : Bool :=
  n == 2 || n == 3 || n == 4 || n == 6 || n == 8 || n == 10 || n == 11 || n == 12 || n == 13 || n == 14 || n == 15

/-- what every Thrift reader requires of an element / key / value type code: a non-negative `int8`.
    (For a non-empty container the elements carry the declared code, which is then a protocol code;
    the code of an *empty* container is looked at by no reader, frugal's included — `codesStrict`
    below is the stronger condition that frugal's own output satisfies, C02.) -/
def codeOK (n : Nat) : Bool := n < 128

/- Well-formedness: every scalar fits its width, every length/count fits in a positive
    int32, ids fit 16 bits, container elements carry the declared element type. -/
mutual
def wf : TVal → Bool
  | .bool b => b < 256
  | .i8 b => b < 256
  | .double n => n < 18446744073709551616
  | .i16 n => n < 65536
  | .i32 n => n < 4294967296
  | .i64 n => n < 18446744073709551616
  | .str s => s.length < 2147483648
  | .strct fs => wfFields fs
  | .map kt vt es => codeOK kt && codeOK vt && es.length < 2147483648 && wfEntries kt vt es
  | .set et xs => codeOK et && xs.length < 2147483648 && wfList et xs
  | .list et xs => codeOK et && xs.length < 2147483648 && wfList et xs
def wfFields : List (Nat × TVal) → Bool
  | [] => true
  | (id, v) :: r => id < 65536 && wf v && wfFields r
def wfEntries (kt vt : Nat) : List (TVal × TVal) → Bool
  | [] => true
  | (k, v) :: r => k.tag == kt && v.tag == vt && wf k && wf v && wfEntries kt vt r
def wfList (et : Nat) : List TVal → Bool
  | [] => true
  | v :: r => v.tag == et && wf v && wfList et r
end

/- every container's element / key / value code is a protocol type code, empty containers included -/
mutual
def codesStrict : TVal → Bool
  | .strct fs => codesStrictFields fs
  | .map kt vt es => isCode kt && isCode vt && codesStrictEntries es
  | .set et xs => isCode et && codesStrictList xs
  | .list et xs => isCode et && codesStrictList xs
  | _ => true
def codesStrictFields : List (Nat × TVal) → Bool
  | [] => true
  | (_, v) :: r => codesStrict v && codesStrictFields r
def codesStrictEntries : List (TVal × TVal) → Bool
  | [] => true
  | (k, v) :: r => codesStrict k && codesStrict v && codesStrictEntries r
def codesStrictList : List TVal → Bool
  | [] => true
  | v :: r => codesStrict v && codesStrictList r
end

/- nesting depth of a value: a scalar is 0, a struct or container is one more than its
    deepest member. -/
mutual
def depth : TVal → Nat
  | .strct fs => depthFields fs + 1
  | .map _ _ es => depthEntries es + 1
  | .set _ xs => depthList xs + 1
  | .list _ xs => depthList xs + 1
  | _ => 0
def depthFields : List (Nat × TVal) → Nat
  | [] => 0
  | (_, v) :: r => max (depth v) (depthFields r)
def depthEntries : List (TVal × TVal) → Nat
  | [] => 0
  | (k, v) :: r => max (max (depth k) (depth v)) (depthEntries r)
def depthList : List TVal → Nat
  | [] => 0
  | v :: r => max (depth v) (depthList r)
end

/-! ### reference parser -/

def parseList (p : Bytes → Option (TVal × Bytes)) : Nat → Bytes → Option (List TVal × Bytes)
  | 0, b => some ([], b)
  | n + 1, b =>
    match p b with
    | none => none
    | some (v, r) =>
      match parseList p n r with
      | none => none
      | some (vs, r') => some (v :: vs, r')

def parseEntries (pk pv : Bytes → Option (TVal × Bytes)) :
    Nat → Bytes → Option (List (TVal × TVal) × Bytes)
  | 0, b => some ([], b)
  | n + 1, b =>
    match pk b with
    | none => none
    | some (k, r) =>
      match pv r with
      | none => none
      | some (v, r1) =>
        match parseEntries pk pv n r1 with
        | none => none
        | some (es, r2) => some ((k, v) :: es, r2)

/-- field loop, bounded by `cnt` (callers pass the input length + 1, which always suffices
    because every iteration consumes at least one byte). -/
def parseFields (p : Nat → Bytes → Option (TVal × Bytes)) :
    Nat → Bytes → Option (List (Nat × TVal) × Bytes)
  | 0, _ => none
  | cnt + 1, b =>
    match rd8 b with
    | none => none
    | some (t, r) =>
      if t = 0 then some ([], r) else
      match rd16 r with
      | none => none
      | some (id, r1) =>
        match p t r1 with
        | none => none
        | some (v, r2) =>
          match parseFields p cnt r2 with
          | none => none
          | some (fs, r3) => some ((id, v) :: fs, r3)

def takeBytes (n : Nat) (b : Bytes) : Option (Bytes × Bytes) :=
  if n ≤ b.length then some (b.take n, b.drop n) else none

/-- `parse fuel tag b`: read one value of wire type `tag`; `fuel` bounds the nesting. -/
def parse : Nat → Nat → Bytes → Option (TVal × Bytes)
  | 0, _, _ => none
  | fuel + 1, tag, b =>
    if tag = 2 then (rd8 b).map fun (n, r) => (.bool n, r)
    else if tag = 3 then (rd8 b).map fun (n, r) => (.i8 n, r)
    else if tag = 4 then (rd64 b).map fun (n, r) => (.double n, r)
    else if tag = 6 then (rd16 b).map fun (n, r) => (.i16 n, r)
    else if tag = 8 then (rd32 b).map fun (n, r) => (.i32 n, r)
    else if tag = 10 then (rd64 b).map fun (n, r) => (.i64 n, r)
    else if tag = 11 then
      match rd32 b with
      | none => none
      | some (n, r) =>
        if n ≥ 2147483648 then none else
        (takeBytes n r).map fun (s, r') => (.str s, r')
    else if tag = 12 then
      (parseFields (parse fuel) (b.length + 1) b).map fun (fs, r) => (.strct fs, r)
    else if tag = 13 then
      match rd8 b with
      | none => none
      | some (kt, r) =>
        match rd8 r with
        | none => none
        | some (vt, r1) =>
          match rd32 r1 with
          | none => none
          | some (n, r2) =>
            if n ≥ 2147483648 then none else
            (parseEntries (parse fuel kt) (parse fuel vt) n r2).map fun (es, r3) => (.map kt vt es, r3)
    else if tag = 14 ∨ tag = 15 then
      match rd8 b with
      | none => none
      | some (et, r) =>
        match rd32 r with
        | none => none
        | some (n, r1) =>
          if n ≥ 2147483648 then none else
          (parseList (parse fuel et) n r1).map fun (xs, r2) =>
            (if tag = 14 then .set et xs else .list et xs, r2)
    else none

end Frugal
