/-
  Reference.lean — the `Params` of the unchanged tree, committed (tools/mkreference.py).  Used only by
  the driver's `--ref` mode to look for concrete failing inputs after a regenerated table has stopped
  satisfying `Params.valid`; no theorem about /repo depends on it.
-/
import Frugal.Schema
import Frugal.Valid
namespace Frugal.Reference
open Frugal

def params : Params := {
  typeToSize := [(.bool, 1), (.byte, 1), (.double, 8), (.i16, 2), (.i32, 4), (.i64, 8), (.enum, 4)]
  simpleTypes := [.bool, .byte, .double, .i16, .i32, .i64, .enum, .string]
  containerTypes := [.map, .list, .set]
  fieldHeaderLen := 3
  mapHeaderLen := 6
  listHeaderLen := 5
  strHeaderLen := 4
  maxDepth := 1023
  minWire := [(2, 1), (3, 1), (6, 2), (8, 4), (10, 8), (4, 8), (11, 4), (12, 1), (13, 6), (14, 5), (15, 5)]
  skipDepth := 64
  skipFixed := [(2, 1), (3, 1), (4, 8), (6, 2), (8, 4), (10, 8)]
  skipRecovers := true
  blockSize := 2048
  directDiv := 8
  bsWords := 1024
  bsShift := 6
  bsMask := 63
  listTable := [
    (.byte, .byte),
    (.i16, .u16),
    (.i32, .u32),
    (.i64, .u64),
    (.double, .u64),
    (.enum, .enum32),
    (.string, .str),
    (.strct, .dispatch),
    (.map, .dispatch),
    (.set, .dispatch),
    (.list, .dispatch)]
  listDefault := .any
  mapTable := [
    ((.bool, .bool), ⟨.bool, .bool, .boolNorm, .boolNorm⟩),
    ((.bool, .byte), ⟨.bool, .u8, .boolNorm, .byte⟩),
    ((.bool, .i16), ⟨.bool, .u16, .boolNorm, .u16⟩),
    ((.bool, .i32), ⟨.bool, .u32, .boolNorm, .u32⟩),
    ((.bool, .i64), ⟨.bool, .u64, .boolNorm, .u64⟩),
    ((.bool, .double), ⟨.bool, .u64, .boolNorm, .u64⟩),
    ((.bool, .enum), ⟨.bool, .i64, .boolNorm, .enum32⟩),
    ((.bool, .string), ⟨.bool, .str, .boolNorm, .str⟩),
    ((.bool, .strct), ⟨.iter, .iter, .byte, .dispatch⟩),
    ((.bool, .map), ⟨.iter, .iter, .byte, .dispatch⟩),
    ((.bool, .set), ⟨.iter, .iter, .byte, .dispatch⟩),
    ((.bool, .list), ⟨.iter, .iter, .byte, .dispatch⟩),
    ((.byte, .byte), ⟨.u8, .u8, .byte, .byte⟩),
    ((.byte, .bool), ⟨.u8, .bool, .byte, .boolNorm⟩),
    ((.byte, .i16), ⟨.u8, .u16, .byte, .u16⟩),
    ((.byte, .i32), ⟨.u8, .u32, .byte, .u32⟩),
    ((.byte, .i64), ⟨.u8, .u64, .byte, .u64⟩),
    ((.byte, .double), ⟨.u8, .u64, .byte, .u64⟩),
    ((.byte, .enum), ⟨.u8, .i64, .byte, .enum32⟩),
    ((.byte, .string), ⟨.u8, .str, .byte, .str⟩),
    ((.byte, .strct), ⟨.iter, .iter, .byte, .dispatch⟩),
    ((.byte, .map), ⟨.iter, .iter, .byte, .dispatch⟩),
    ((.byte, .set), ⟨.iter, .iter, .byte, .dispatch⟩),
    ((.byte, .list), ⟨.iter, .iter, .byte, .dispatch⟩),
    ((.i16, .bool), ⟨.u16, .bool, .u16, .boolNorm⟩),
    ((.i16, .byte), ⟨.u16, .u8, .u16, .byte⟩),
    ((.i16, .i16), ⟨.u16, .u16, .u16, .u16⟩),
    ((.i16, .i32), ⟨.u16, .u32, .u16, .u32⟩),
    ((.i16, .i64), ⟨.u16, .u64, .u16, .u64⟩),
    ((.i16, .double), ⟨.u16, .u64, .u16, .u64⟩),
    ((.i16, .enum), ⟨.u16, .i64, .u16, .enum32⟩),
    ((.i16, .string), ⟨.u16, .str, .u16, .str⟩),
    ((.i16, .strct), ⟨.iter, .iter, .u16, .dispatch⟩),
    ((.i16, .map), ⟨.iter, .iter, .u16, .dispatch⟩),
    ((.i16, .set), ⟨.iter, .iter, .u16, .dispatch⟩),
    ((.i16, .list), ⟨.iter, .iter, .u16, .dispatch⟩),
    ((.i32, .bool), ⟨.u32, .bool, .u32, .boolNorm⟩),
    ((.i32, .byte), ⟨.u32, .u8, .u32, .byte⟩),
    ((.i32, .i16), ⟨.u32, .u16, .u32, .u16⟩),
    ((.i32, .i32), ⟨.u32, .u32, .u32, .u32⟩),
    ((.i32, .i64), ⟨.u32, .u64, .u32, .u64⟩),
    ((.i32, .double), ⟨.u32, .u64, .u32, .u64⟩),
    ((.i32, .enum), ⟨.u32, .i64, .u32, .enum32⟩),
    ((.i32, .string), ⟨.u32, .str, .u32, .str⟩),
    ((.i32, .strct), ⟨.iter, .iter, .u32, .dispatch⟩),
    ((.i32, .map), ⟨.iter, .iter, .u32, .dispatch⟩),
    ((.i32, .set), ⟨.iter, .iter, .u32, .dispatch⟩),
    ((.i32, .list), ⟨.iter, .iter, .u32, .dispatch⟩),
    ((.i64, .bool), ⟨.u64, .bool, .u64, .boolNorm⟩),
    ((.i64, .byte), ⟨.u64, .u8, .u64, .byte⟩),
    ((.i64, .i16), ⟨.u64, .u16, .u64, .u16⟩),
    ((.i64, .i32), ⟨.u64, .u32, .u64, .u32⟩),
    ((.i64, .i64), ⟨.u64, .u64, .u64, .u64⟩),
    ((.i64, .double), ⟨.u64, .u64, .u64, .u64⟩),
    ((.i64, .enum), ⟨.u64, .i64, .u64, .enum32⟩),
    ((.i64, .string), ⟨.u64, .str, .u64, .str⟩),
    ((.i64, .strct), ⟨.iter, .iter, .u64, .dispatch⟩),
    ((.i64, .map), ⟨.iter, .iter, .u64, .dispatch⟩),
    ((.i64, .set), ⟨.iter, .iter, .u64, .dispatch⟩),
    ((.i64, .list), ⟨.iter, .iter, .u64, .dispatch⟩),
    ((.double, .bool), ⟨.u64, .bool, .u64, .boolNorm⟩),
    ((.double, .byte), ⟨.u64, .u8, .u64, .byte⟩),
    ((.double, .i16), ⟨.u64, .u16, .u64, .u16⟩),
    ((.double, .i32), ⟨.u64, .u32, .u64, .u32⟩),
    ((.double, .i64), ⟨.u64, .u64, .u64, .u64⟩),
    ((.double, .double), ⟨.u64, .u64, .u64, .u64⟩),
    ((.double, .enum), ⟨.u64, .i64, .u64, .enum32⟩),
    ((.double, .string), ⟨.u64, .str, .u64, .str⟩),
    ((.double, .strct), ⟨.iter, .iter, .u64, .dispatch⟩),
    ((.double, .map), ⟨.iter, .iter, .u64, .dispatch⟩),
    ((.double, .set), ⟨.iter, .iter, .u64, .dispatch⟩),
    ((.double, .list), ⟨.iter, .iter, .u64, .dispatch⟩),
    ((.enum, .bool), ⟨.i64, .bool, .enum32, .boolNorm⟩),
    ((.enum, .byte), ⟨.i64, .u8, .enum32, .byte⟩),
    ((.enum, .i16), ⟨.i64, .u16, .enum32, .u16⟩),
    ((.enum, .i32), ⟨.i64, .u32, .enum32, .u32⟩),
    ((.enum, .i64), ⟨.i64, .u64, .enum32, .u64⟩),
    ((.enum, .double), ⟨.i64, .u64, .enum32, .u64⟩),
    ((.enum, .enum), ⟨.i64, .i64, .enum32, .enum32⟩),
    ((.enum, .string), ⟨.i64, .str, .enum32, .str⟩),
    ((.enum, .strct), ⟨.iter, .iter, .enum32, .dispatch⟩),
    ((.enum, .map), ⟨.iter, .iter, .enum32, .dispatch⟩),
    ((.enum, .set), ⟨.iter, .iter, .enum32, .dispatch⟩),
    ((.enum, .list), ⟨.iter, .iter, .enum32, .dispatch⟩),
    ((.string, .bool), ⟨.str, .bool, .str, .boolNorm⟩),
    ((.string, .byte), ⟨.str, .u8, .str, .byte⟩),
    ((.string, .i16), ⟨.str, .u16, .str, .u16⟩),
    ((.string, .i32), ⟨.str, .u32, .str, .u32⟩),
    ((.string, .i64), ⟨.str, .u64, .str, .u64⟩),
    ((.string, .double), ⟨.str, .u64, .str, .u64⟩),
    ((.string, .enum), ⟨.str, .i64, .str, .enum32⟩),
    ((.string, .string), ⟨.str, .str, .str, .str⟩),
    ((.string, .strct), ⟨.iter, .iter, .str, .dispatch⟩),
    ((.string, .map), ⟨.iter, .iter, .str, .dispatch⟩),
    ((.string, .set), ⟨.iter, .iter, .str, .dispatch⟩),
    ((.string, .list), ⟨.iter, .iter, .str, .dispatch⟩),
    ((.strct, .bool), ⟨.iter, .iter, .dispatch, .byte⟩),
    ((.strct, .byte), ⟨.iter, .iter, .dispatch, .byte⟩),
    ((.strct, .i16), ⟨.iter, .iter, .dispatch, .u16⟩),
    ((.strct, .i32), ⟨.iter, .iter, .dispatch, .u32⟩),
    ((.strct, .i64), ⟨.iter, .iter, .dispatch, .u64⟩),
    ((.strct, .double), ⟨.iter, .iter, .dispatch, .u64⟩),
    ((.strct, .enum), ⟨.iter, .iter, .dispatch, .enum32⟩),
    ((.strct, .string), ⟨.iter, .iter, .dispatch, .str⟩),
    ((.strct, .strct), ⟨.iter, .iter, .dispatch, .dispatch⟩),
    ((.strct, .map), ⟨.iter, .iter, .dispatch, .dispatch⟩),
    ((.strct, .set), ⟨.iter, .iter, .dispatch, .dispatch⟩),
    ((.strct, .list), ⟨.iter, .iter, .dispatch, .dispatch⟩),
    ((.map, .bool), ⟨.iter, .iter, .dispatch, .byte⟩),
    ((.map, .byte), ⟨.iter, .iter, .dispatch, .byte⟩),
    ((.map, .i16), ⟨.iter, .iter, .dispatch, .u16⟩),
    ((.map, .i32), ⟨.iter, .iter, .dispatch, .u32⟩),
    ((.map, .i64), ⟨.iter, .iter, .dispatch, .u64⟩),
    ((.map, .double), ⟨.iter, .iter, .dispatch, .u64⟩),
    ((.map, .enum), ⟨.iter, .iter, .dispatch, .enum32⟩),
    ((.map, .string), ⟨.iter, .iter, .dispatch, .str⟩),
    ((.map, .strct), ⟨.iter, .iter, .dispatch, .dispatch⟩),
    ((.map, .map), ⟨.iter, .iter, .dispatch, .dispatch⟩),
    ((.map, .set), ⟨.iter, .iter, .dispatch, .dispatch⟩),
    ((.map, .list), ⟨.iter, .iter, .dispatch, .dispatch⟩),
    ((.set, .bool), ⟨.iter, .iter, .dispatch, .byte⟩),
    ((.set, .byte), ⟨.iter, .iter, .dispatch, .byte⟩),
    ((.set, .i16), ⟨.iter, .iter, .dispatch, .u16⟩),
    ((.set, .i32), ⟨.iter, .iter, .dispatch, .u32⟩),
    ((.set, .i64), ⟨.iter, .iter, .dispatch, .u64⟩),
    ((.set, .double), ⟨.iter, .iter, .dispatch, .u64⟩),
    ((.set, .enum), ⟨.iter, .iter, .dispatch, .enum32⟩),
    ((.set, .string), ⟨.iter, .iter, .dispatch, .str⟩),
    ((.set, .strct), ⟨.iter, .iter, .dispatch, .dispatch⟩),
    ((.set, .map), ⟨.iter, .iter, .dispatch, .dispatch⟩),
    ((.set, .set), ⟨.iter, .iter, .dispatch, .dispatch⟩),
    ((.set, .list), ⟨.iter, .iter, .dispatch, .dispatch⟩),
    ((.list, .bool), ⟨.iter, .iter, .dispatch, .byte⟩),
    ((.list, .byte), ⟨.iter, .iter, .dispatch, .byte⟩),
    ((.list, .i16), ⟨.iter, .iter, .dispatch, .u16⟩),
    ((.list, .i32), ⟨.iter, .iter, .dispatch, .u32⟩),
    ((.list, .i64), ⟨.iter, .iter, .dispatch, .u64⟩),
    ((.list, .double), ⟨.iter, .iter, .dispatch, .u64⟩),
    ((.list, .enum), ⟨.iter, .iter, .dispatch, .enum32⟩),
    ((.list, .string), ⟨.iter, .iter, .dispatch, .str⟩),
    ((.list, .strct), ⟨.iter, .iter, .dispatch, .dispatch⟩),
    ((.list, .map), ⟨.iter, .iter, .dispatch, .dispatch⟩),
    ((.list, .set), ⟨.iter, .iter, .dispatch, .dispatch⟩),
    ((.list, .list), ⟨.iter, .iter, .dispatch, .dispatch⟩)]
  mapDefault := ⟨.iter, .iter, .any, .any⟩
  mapBinaryGuard := true
  mapDoubleKeyGuard := true
  binarySeesThroughPtr := true
}

/-- the reference tables satisfy every side condition of the generic theorems -/
theorem params_valid : params.valid = true := by decide

end Frugal.Reference
