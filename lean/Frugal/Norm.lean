/-
  Norm.lean — the documented normalisation of a round trip (C01), as a function: what a value `v`
  of type `t` comes back as when its encoding is decoded into a destination slot holding `dest`.

    * scalars, strings, binaries: themselves (an enum: its low 32 bits sign-extended; a nil binary:
      empty);
    * a pointer: a fresh allocation holding the pointee's normal form; a nil struct pointer that was
      written: a fresh empty (default-initialised) struct;
    * a list / set: non-nil, elements in order; a map: non-nil, entries inserted in iteration order;
    * a struct: the destination (after `InitDefault()` when declared) with every *written* field
      replaced by its normal form, every omitted field left as the destination had it.

  `Proofs/ReadNorm.lean` proves that the reference reader computes exactly this on the denotation
  of every well-typed value, and `Props/C01.lean` composes it with C02 and C03.
-/
import Frugal.Reader
namespace Frugal

def normScalar (k : Kind) (n : Nat) : Nat :=
  if k == .enum then sext32to64 (n % 4294967296) else n

/-- the destination struct as the decoder finds it when it starts on it -/
def initDest (S : Schema) (sid : Nat) : Val → Val
  | .st vs h => if (S.get sid).hasInit then .st (applyInit (S.get sid).fields vs) h else .st vs h
  | d => d

mutual
def norm (S : Schema) : Ty → Val → Val → Val
  | .base k, .sc n, _ => .sc (normScalar k n)
  | .base _, .str s, _ => .str s
  | .base _, .bin _ s, _ => .bin false s
  | .ptr e, .ptr v, _ => .ptr (norm S e v (zeroVal S S.length e))
  | .ptr (.strct sid), .nilp, _ => .ptr (initDest S sid (zeroVal S S.length (.strct sid)))
  | .list _ e, .lst _ xs, _ => .lst false (normList S e xs)
  | .map k v, .mp _ es, _ => .mp false (normEntries S k v es [])
  | .strct sid, .st xs _, dest =>
      match initDest S sid dest with
      | .st ds h => .st (normFields S (S.get sid) (S.get sid).fields xs ds) h
      | d => d
  | _, v, _ => v
def normList (S : Schema) (e : Ty) : List Val → List Val
  | [] => []
  | x :: r => norm S e x (zeroVal S S.length e) :: normList S e r
def normEntries (S : Schema) (k v : Ty) : List (Val × Val) → List (Val × Val) → List (Val × Val)
  | [], acc => acc
  | (a, b) :: r, acc =>
      normEntries S k v r
        (mapInsert k acc (norm S k a (zeroVal S S.length k)) (norm S v b (zeroVal S S.length v)))
def normFields (S : Schema) (sd : SDesc) : List Field → List Val → List Val → List Val
  | f :: fr, x :: xr, d :: dr =>
      (if fieldWritten sd f x then norm S f.ty x d else d) :: normFields S sd fr xr dr
  | _, _, ds => ds
end

/-- the ids the decoder has seen after reading the written fields -/
def seenOf (sd : SDesc) : List Field → List Val → List Nat → List Nat
  | f :: fr, x :: xr, seen => seenOf sd fr xr (if fieldWritten sd f x then f.id :: seen else seen)
  | _, _, seen => seen

/- A nil struct pointer that is written goes out as an empty struct; a reader can only accept that
   when the struct has no required fields (Thrift semantics: required fields are always set). -/
mutual
def rtOK (S : Schema) : Ty → Val → Bool
  | .ptr (.strct sid), .nilp => (S.get sid).fields.all (fun f => f.req != .required)
  | .ptr e, .ptr v => rtOK S e v
  | .list _ e, .lst _ xs => rtOKList S e xs
  | .map k v, .mp _ es => rtOKEntries S k v es
  | .strct sid, .st xs _ => rtOKFields S (S.get sid) (S.get sid).fields xs
  | _, _ => true
def rtOKList (S : Schema) (e : Ty) : List Val → Bool
  | [] => true
  | x :: r => rtOK S e x && rtOKList S e r
def rtOKEntries (S : Schema) (k v : Ty) : List (Val × Val) → Bool
  | [] => true
  | (a, b) :: r => rtOK S k a && rtOK S v b && rtOKEntries S k v r
def rtOKFields (S : Schema) (sd : SDesc) : List Field → List Val → Bool
  | f :: fr, x :: xr => (!fieldWritten sd f x || rtOK S f.ty x) && rtOKFields S sd fr xr
  | _, _ => true
end

/-- side conditions on the schema that Go's type system guarantees for every real program: the
    declared defaults are values of their field's type, by-value struct nesting is acyclic (so the
    zero value of every struct is a finite tree), field ids are pairwise distinct (guaranteed by the
    resolver, `resolveStruct_fields`); and no field is `nocopy` (those alias the input: C06) -/
structure Schema.rtSide (S : Schema) : Prop where
  distinct : ∀ sid, (S.get sid).fields.Pairwise (fun a b => a.id ≠ b.id)
  noNocopy : ∀ sid, ∀ f ∈ (S.get sid).fields, f.nocopy = false
  defaultsTyped : ∀ sid, ∀ f ∈ (S.get sid).fields, f.assigned = true → ∀ d, f.dflt = some d → hasTy S f.ty d = true
  zeroOk : ∀ sid, hasTy S (.strct sid) (zeroVal S S.length (.strct sid)) = true

end Frugal

namespace Frugal
/-- normal form at the top level: `DecodeObject` does not re-initialise its destination -/
def normTop (S : Schema) (sid : Nat) : Val → Val → Val
  | .st xs _, .st ds h => .st (normFields S (S.get sid) (S.get sid).fields xs ds) h
  | _, d => d
end Frugal
