/-
  Buffer.lean — model of `frugal.EncodeObject`'s use of the caller's buffer (frugal.go):
      ret, err := reflect.Append(buf[:0:len(buf)], val); if len(ret) > len(buf) { return 0, error }
  together with Go's `append` semantics: an append that does not fit the capacity moves the
  slice to a freshly allocated array and never touches the old one again.  The encoder's
  output arrives as an arbitrary sequence of appended chunks.
-/
import Frugal.Basic
namespace Frugal

structure AppSt where
  pre : Bytes       -- what has been written into the caller's array (its prefix)
  rest : Bytes      -- the untouched remainder of the caller's array (up to its capacity)
  own : Bool        -- b still lives in the caller's array
  total : Nat       -- len(b)
  deriving Repr

/-- `b = append(b, c...)`; `cap` is the capacity of `buf[:0:len(buf)]`, i.e. len(buf) -/
def appendChunk (cap : Nat) (s : AppSt) (c : Bytes) : AppSt :=
  if s.own && decide (s.total + c.length ≤ cap) then
    { pre := s.pre ++ c, rest := s.rest.drop c.length, own := true, total := s.total + c.length }
  else
    { s with own := false, total := s.total + c.length }

def appendAll (cap : Nat) (back : Bytes) (chunks : List Bytes) : AppSt :=
  chunks.foldl (appendChunk cap) { pre := [], rest := back, own := true, total := 0 }

/-- result of EncodeObject: (n, ok?, the caller's backing array afterwards) -/
def encodeObjectM (back : Bytes) (len : Nat) (chunks : List Bytes) : Nat × Bool × Bytes :=
  let s := appendAll len back chunks
  if s.total > len then (0, false, s.pre ++ s.rest) else (s.total, true, s.pre ++ s.rest)

end Frugal
