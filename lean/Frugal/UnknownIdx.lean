/-
  UnknownIdx.lean — the unknown-field index of internal/reflect/unknownfields.go as it is written:
  `(offset, size)` pairs into the struct's input slice `b`, recorded while skipping
  (`ufs.Add(i-fieldHeaderLen, n+fieldHeaderLen)`) and copied out after STOP (`ufs.Copy(b)`: a buffer
  of `p.sz` bytes filled range by range).  The byte-level decoder model (Decode.lean, `fieldLoop`)
  appends the skipped bytes directly; `Proofs/UnknownIdxLemmas.lean` shows the two agree.
-/
import Frugal.Basic
namespace Frugal

structure UF where
  sz : Nat := 0
  offs : List (Nat × Nat) := []
  deriving Repr, DecidableEq, Inhabited

/-- `Reset`: `p.sz = 0; p.offs = p.offs[:0]` -/
def UF.reset : UF := {}

/-- `Add(off, sz)`: `p.sz += sz; p.offs = append(p.offs, {off, sz})` -/
def UF.add (p : UF) (off sz : Nat) : UF := { sz := p.sz + sz, offs := p.offs ++ [(off, sz)] }

/-- the bytes `b[off : off+sz]` (Go panics when the range leaves `b`; `inBounds` is the guard) -/
def slice (b : Bytes) (off sz : Nat) : Bytes := (b.drop off).take sz

/-- what `Copy(b)` writes into its result, range by range, at a running offset -/
def UF.copied (p : UF) (b : Bytes) : Bytes := p.offs.flatMap fun e => slice b e.1 e.2

/-- `Copy(b)`: a buffer of `p.Size()` bytes, **not zeroed**, of which the first `len (copied)` are
    written: `none` when some byte of the result would be left uninitialised or a range leaves `b` -/
def UF.copy (p : UF) (b : Bytes) : Option Bytes :=
  if p.offs.all (fun e => e.1 + e.2 ≤ b.length) && (p.copied b).length == p.sz then some (p.copied b) else none

def UF.inBounds (p : UF) (b : Bytes) : Bool := p.offs.all fun e => e.1 + e.2 ≤ b.length

end Frugal
