/-
  Proto.lean — the line protocol shared by the Go harness and the model driver:
  parsers / printers for Go types, values, and canonicalisation (map entries sorted).
  Nothing here is used by a theorem; it is the glue the correspondence check runs through.
-/
import Frugal.Tags
import Frugal.Decode
namespace Frugal.Proto
open Frugal

def hexDigit (n : Nat) : Char := if n < 10 then Char.ofNat (48 + n) else Char.ofNat (87 + n)

def hexOf (b : Bytes) : String :=
  String.ofList (b.foldr (fun x acc => hexDigit (x.toNat / 16) :: hexDigit (x.toNat % 16) :: acc) [])

def hexVal (c : Char) : Option Nat :=
  if '0' ≤ c ∧ c ≤ '9' then some (c.toNat - 48)
  else if 'a' ≤ c ∧ c ≤ 'f' then some (c.toNat - 87)
  else none

/-- parse a maximal run of hex digit pairs -/
partial def takeHex (s : List Char) (acc : Array UInt8) : Bytes × List Char :=
  match s with
  | a :: b :: r =>
    match hexVal a, hexVal b with
    | some x, some y => takeHex r (acc.push (UInt8.ofNat (x * 16 + y)))
    | _, _ => (acc.toList, s)
  | _ => (acc.toList, s)

def unhex (s : String) : Bytes := if s == "-" then [] else (takeHex s.toList #[]).1

partial def takeNat (s : List Char) (acc : Nat) : Nat × List Char :=
  match s with
  | c :: r => if c.isDigit then takeNat r (acc * 10 + (c.toNat - 48)) else (acc, s)
  | [] => (acc, [])

/-! ### values -/

partial def parseVal (s : List Char) : Option (Val × List Char) :=
  match s with
  | 'n' :: r => let (n, r') := takeNat r 0; some (.sc n, r')
  | 's' :: r => let (b, r') := takeHex r #[]; some (.str b, r')
  | 'b' :: r => let (b, r') := takeHex r #[]; some (.bin false b, r')
  | 'B' :: r => some (.bin true [], r)
  | 'N' :: r => some (.nilp, r)
  | 'P' :: '(' :: r =>
    match parseVal r with
    | some (v, ')' :: r') => some (.ptr v, r')
    | _ => none
  | 'l' :: r => some (.lst true [], r)
  | 'm' :: r => some (.mp true [], r)
  | 'L' :: '(' :: r =>
    match parseVals r #[] with
    | some (vs, ')' :: r') => some (.lst false vs, r')
    | _ => none
  | 'M' :: '(' :: r =>
    match parseEnts r #[] with
    | some (es, ')' :: r') => some (.mp false es, r')
    | _ => none
  | 'S' :: '(' :: r =>
    match parseVals r #[] with
    | some (vs, ';' :: r') =>
      let (h, r'') := takeHex r' #[]
      match r'' with
      | ')' :: r3 => some (.st vs h, r3)
      | _ => none
    | _ => none
  | 'v' :: r =>
    let (o, r') := takeNat r 0
    match r' with
    | ':' :: r'' => let (b, r3) := takeHex r'' #[]; some (.vstr o b, r3)
    | _ => none
  | 'w' :: r =>
    let (o, r') := takeNat r 0
    match r' with
    | ':' :: r'' => let (b, r3) := takeHex r'' #[]; some (.vbin o b, r3)
    | _ => none
  | _ => none
where
  parseVals (s : List Char) (acc : Array Val) : Option (List Val × List Char) :=
    match s with
    | ')' :: _ => some (acc.toList, s)
    | ';' :: _ => some (acc.toList, s)
    | _ =>
      match parseVal s with
      | some (v, ',' :: r) => parseVals r (acc.push v)
      | some (v, r) => some ((acc.push v).toList, r)
      | none => none
  parseEnts (s : List Char) (acc : Array (Val × Val)) : Option (List (Val × Val) × List Char) :=
    match s with
    | ')' :: _ => some (acc.toList, s)
    | _ =>
      match parseVal s with
      | some (k, ':' :: r) =>
        match parseVal r with
        | some (v, ',' :: r') => parseEnts r' (acc.push (k, v))
        | some (v, r') => some ((acc.push (k, v)).toList, r')
        | none => none
      | _ => none

def parseValStr (s : String) : Option Val :=
  match parseVal s.toList with
  | some (v, []) => some v
  | _ => none

/-- canonical printing: map entries sorted by their printed form -/
partial def showVal : Val → String
  | .sc n => "n" ++ toString n
  | .str s => "s" ++ hexOf s
  | .bin true _ => "B"
  | .bin false s => "b" ++ hexOf s
  | .nilp => "N"
  | .ptr v => "P(" ++ showVal v ++ ")"
  | .lst true _ => "l"
  | .lst false xs => "L(" ++ ",".intercalate (xs.map showVal) ++ ")"
  | .mp true _ => "m"
  | .mp false es =>
    let strs := es.map fun (k, v) => showVal k ++ ":" ++ showVal v
    let sorted := strs.toArray.qsort (· < ·)
    "M(" ++ ",".intercalate sorted.toList ++ ")"
  | .st fs h => "S(" ++ ",".intercalate (fs.map showVal) ++ ";" ++ hexOf h ++ ")"
  | .vstr o s => "v" ++ toString o ++ ":" ++ hexOf s
  | .vbin o s => "w" ++ toString o ++ ":" ++ hexOf s

/-! ### Go types -/

def kindOfName (s : String) : Option GoKind :=
  match s with
  | "bool" => some .bool | "int" => some .int | "int8" => some .int8 | "int16" => some .int16
  | "int32" => some .int32 | "int64" => some .int64 | "uint" => some .uint | "uint8" => some .uint8
  | "uint16" => some .uint16 | "uint32" => some .uint32 | "uint64" => some .uint64
  | "uintptr" => some .uintptr | "float32" => some .float32 | "float64" => some .float64
  | "complex64" => some .complex64 | "complex128" => some .complex128 | "string" => some .string
  | "chan" => some .chan | "func" => some .func | "iface" => some .iface
  | "unsafeptr" => some .unsafeptr
  | _ => none

def takeIdent (s : List Char) : String × List Char :=
  (String.ofList (s.takeWhile fun c => c.isAlphanum || c == '_'), s.dropWhile fun c => c.isAlphanum || c == '_')

partial def parseGoTy (s : List Char) : Option (GoTy × List Char) :=
  match s with
  | 'P' :: '(' :: r =>
    match parseGoTy r with
    | some (t, ')' :: r') => some (.ptr t, r')
    | _ => none
  | 'L' :: '(' :: r =>
    match parseGoTy r with
    | some (t, ')' :: r') => some (.slice t, r')
    | _ => none
  | 'A' :: '(' :: r =>
    let (n, r1) := takeNat r 0
    match r1 with
    | ',' :: r2 =>
      match parseGoTy r2 with
      | some (t, ')' :: r') => some (.arr n t, r')
      | _ => none
    | _ => none
  | 'M' :: '(' :: r =>
    match parseGoTy r with
    | some (k, ',' :: r1) =>
      match parseGoTy r1 with
      | some (v, ')' :: r2) => some (.map k v, r2)
      | _ => none
    | _ => none
  | 'S' :: ':' :: r =>
    let (sid, r1) := takeNat r 0
    match r1 with
    | ':' :: r2 => let (nm, r3) := takeIdent r2; some (.strct nm sid, r3)
    | _ => none
  | 'N' :: ':' :: r =>
    let (k, r1) := takeIdent r
    match kindOfName k, r1 with
    | some kk, ':' :: r2 => let (nm, r3) := takeIdent r2; some (.prim kk nm, r3)
    | _, _ => none
  | _ =>
    let (k, r1) := takeIdent s
    match kindOfName k with
    | some kk => some (.prim kk k, r1)
    | none => none

/-- `defs.Type.String()` of a resolved type (used to compare with the real resolver's dump) -/
def tyString (U : Universe) : Ty → String
  | .base .bool => "bool" | .base .i8 => "i8" | .base .i16 => "i16" | .base .i32 => "i32"
  | .base .i64 => "i64" | .base .double => "double" | .base .string => "string"
  | .base .enum => "enum" | .base .binary => "binary"
  | .strct sid => (U.getD sid default).name
  | .list true e => "set<" ++ tyString U e ++ ">"
  | .list false e => "list<" ++ tyString U e ++ ">"
  | .map k v => "map<" ++ tyString U k ++ ":" ++ tyString U v ++ ">"
  | .ptr e => "*" ++ tyString U e

def reqString : Req → String
  | .dflt => "default" | .required => "required" | .optional => "optional"

def fieldsString (U : Universe) (sd : SDesc) : String :=
  ";".intercalate (sd.fields.map fun f =>
    toString f.id ++ ":" ++ reqString f.req ++ ":" ++ tyString U f.ty ++ ":" ++ (if f.nocopy then "1" else "0"))

/-! ### schema-less canonicalisation of encoder output -/

partial def canonT : TVal → TVal
  | .strct fs => .strct (fs.map fun (i, v) => (i, canonT v))
  | .map kt vt es =>
    let es' := es.map fun (k, v) => (canonT k, canonT v)
    let keyed := es'.map fun (k, v) => (hexOf (ser k ++ ser v), (k, v))
    let sorted := keyed.toArray.qsort (fun a b => a.1 < b.1)
    .map kt vt (sorted.toList.map (·.2))
  | .set et xs => .set et (xs.map canonT)
  | .list et xs => .list et (xs.map canonT)
  | v => v

/-- parse a struct message with the reference parser, sort map entries, re-serialise;
    `none` when the bytes are not exactly one well-formed struct. -/
def canonBytes (b : Bytes) : Option Bytes :=
  match parse 100000 12 b with
  | some (tv, []) => some (ser (canonT tv))
  | _ => none

end Frugal.Proto
