/-
  TypeKey.lean — the process-wide cache of type nodes (`ttypes` in ttype.go) and its key.
  `newTType(x)` looks the node up under `ttypesK{T: x.String(), S: x.S}` — the annotation's text and the
  Go type — and otherwise builds it from `x` and stores it.  The key has to tell apart annotations of the
  *same* Go type that mean different things on the wire (`set` vs `list`, a named int64 as enum vs
  `i64`).  `Proofs/TypeKeyLemmas.lean`: the text is a prefix code on annotations of one Go type, hence
  the key determines the annotation, hence whatever the history of lookups a lookup returns the node
  built from its own argument.
-/
import Frugal.Schema
namespace Frugal

/-- what a resolved type keeps of the Go type it annotates (`x.S`): enum and i64 are both an int64
    kind, a set and a list are both a slice -/
inductive Shape
  | k (n : Nat)
  | strct (sid : Nat)
  | slice (e : Shape)
  | map (k v : Shape)
  | ptr (e : Shape)
  deriving DecidableEq, Repr, Inhabited

def Kind.goKind : Kind → Nat
  | .bool => 0 | .i8 => 1 | .i16 => 2 | .i32 => 3 | .i64 => 4 | .enum => 4 | .double => 5
  | .string => 6 | .binary => 7

def Ty.shape : Ty → Shape
  | .base k => .k k.goKind
  | .strct sid => .strct sid
  | .list _ e => .slice e.shape
  | .map k v => .map k.shape v.shape
  | .ptr e => .ptr e.shape

def Kind.chars : Kind → List Char
  | .bool => "bool".toList | .i8 => "i8".toList | .i16 => "i16".toList | .i32 => "i32".toList
  | .i64 => "i64".toList | .double => "double".toList | .string => "string".toList
  | .enum => "enum".toList | .binary => "binary".toList

/-- `defs.Type.String()`, as characters; `nm sid` is the struct's name -/
def tyChars (nm : Nat → List Char) : Ty → List Char
  | .base k => k.chars
  | .strct sid => nm sid
  | .list true e => "set<".toList ++ tyChars nm e ++ ">".toList
  | .list false e => "list<".toList ++ tyChars nm e ++ ">".toList
  | .map k v => "map<".toList ++ tyChars nm k ++ ":".toList ++ tyChars nm v ++ ">".toList
  | .ptr e => "*".toList ++ tyChars nm e

/-- the cache key of `newTType` -/
def nodeKey (nm : Nat → List Char) (x : Ty) : List Char × Shape := (tyChars nm x, x.shape)

/-- the cache: key ↦ the annotation the stored node was built from (the node is a function of it) -/
abbrev NodeCache := List ((List Char × Shape) × Ty)

def NodeCache.find (c : NodeCache) (k : List Char × Shape) : Option Ty :=
  match c with
  | [] => none
  | (k', y) :: r => if k' = k then some y else NodeCache.find r k

/-- `newTType(x)`: the annotation whose node is returned, and the cache afterwards -/
def getNode (nm : Nat → List Char) (c : NodeCache) (x : Ty) : Ty × NodeCache :=
  match c.find (nodeKey nm x) with
  | some y => (y, c)
  | none => (x, (nodeKey nm x, x) :: c)

/-- the same with a key that drops the text for leaf nodes (the mutation C07c / I1 / I7 of the rounds) -/
def nodeKeyLeafless (nm : Nat → List Char) (x : Ty) : List Char × Shape :=
  match x with
  | .base _ => ([], x.shape)
  | _ => (tyChars nm x, x.shape)

end Frugal
