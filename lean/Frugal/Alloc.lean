/-
  Alloc.lean — model of the decoder's bump allocator (`span.Malloc`, span.go) on absolute
  addresses, and of the routing in `tDecoder.Malloc` (decoder.go).
-/
import Frugal.Schema
namespace Frugal

structure SpanSt where
  p : Nat        -- bytes used in the current block
  n : Nat        -- size of the current block
  base : Nat     -- absolute address of the current block (whatever the runtime returned)
  blk : Nat      -- index of the current block (0 = the block made by init)
  deriving Repr, Inhabited

/-- `(a + mask) &^ mask` for `mask = 2^k - 1`, written arithmetically -/
def alignUp (a mask : Nat) : Nat := (a + mask) / (mask + 1) * (mask + 1)

structure Region where
  blk : Nat
  addr : Nat     -- absolute start address
  size : Nat
  align : Nat    -- the alignment that was asked for
  blockBase : Nat
  blockSize : Nat
  deriving Repr, Inhabited

/-- `(*span).Malloc(n, align)`; `fresh` is the address the runtime returns if a new block is
    needed. Returns the new state and the region handed out. -/
def SpanSt.malloc (blockSize : Nat) (s : SpanSt) (fresh : Nat) (n align : Nat) : SpanSt × Region :=
  let mask := align - 1
  let s1 : SpanSt :=
    if s.p + n + mask > s.n then
      { p := 0, n := (if n + mask > blockSize then n + mask else blockSize), base := fresh, blk := s.blk + 1 }
    else s
  let ret := s1.base + s1.p
  let off := alignUp ret mask - ret
  ({ s1 with p := s1.p + n + off },
   { blk := s1.blk, addr := ret + off, size := n, align := align, blockBase := s1.base, blockSize := s1.n })

def SpanSt.init (blockSize base : Nat) : SpanSt := { p := 0, n := blockSize, base := base, blk := 0 }

/-- `tDecoder.Malloc`: does the request bypass the span? -/
def routeDirect (P : Params) (n : Nat) (typed : Bool) : Bool :=
  n > P.blockSize / P.directDiv || typed

/-- run a request list `(n, align, baseMod8)` — the harness reports each block's base address
    modulo 8 so that no alignment assumption about the runtime is needed — and print
    `blk:off` per request. -/
def spanRun (P : Params) : SpanSt → List (Nat × Nat × Nat) → List String
  | _, [] => []
  | s, (n, a, bm) :: r =>
    let (s', reg) := s.malloc P.blockSize bm n a
    s!"{reg.blk}:{reg.addr - s'.base}" :: spanRun P s' r

def spanRunStr (P : Params) (reqs : List (Nat × Nat × Nat)) (initBaseMod : Nat) : String :=
  " ".intercalate (spanRun P (SpanSt.init P.blockSize initBaseMod) reqs)

/-- all regions handed out by a request list `(n, align, fresh)` -/
def spanRegions (bs : Nat) : SpanSt → List (Nat × Nat × Nat) → List Region
  | _, [] => []
  | s, (n, a, fresh) :: r =>
    let (s', reg) := s.malloc bs fresh n a
    reg :: spanRegions bs s' r

end Frugal
