/-
  Skeleton.lean -- fingerprints of the control structure (guards, switches, loops, returns, call
  sequence) of the Go functions that the hand-written parts of the model were written from and
  validated against, on the unchanged tree; committed (tools/mkreference.py).  Props/Instances.lean
  compares them with the regenerated ones: an edit that adds, drops or reorders a check in one of
  those functions fails the obligation whatever the correspondence run happens to sample.
-/
namespace Frugal.Skeleton
def decoder : String := "ccc4122215142eb0a0ebde38"
def encoder : String := "5cbdaefa998ed87261c39697"
def resolver : String := "fc893de27c26c5f74381c563"
/-- full text (not only control structure) of `structDesc`, `tField`, `tType`, `fromDefsFields`,
    `fromDefsField`, `GetField`, `newTType`: the descriptor tables every codec theorem takes for granted -/
def descTable : String := "cbfebd4eaff63fd247cc0a76"
end Frugal.Skeleton
