/-
  Skeleton.lean -- fingerprints of the control structure (guards, switches, loops, returns, call
  sequence) of the Go functions that the hand-written parts of the model were written from and
  validated against, on the unchanged tree; committed (tools/mkreference.py).  Props/Instances.lean
  compares them with the regenerated ones: an edit that adds, drops or reorders a check in one of
  those functions fails the obligation whatever the correspondence run happens to sample.
-/
namespace Frugal.Skeleton
def decoder : String := "17ca3b1513b97227a6799a0a"
def encoder : String := "5cbdaefa998ed87261c39697"
def resolver : String := "dc943200c8dda6024f8f48fc"
/-- full text (not only control structure) of `structDesc`, `tField`, `tType`, `fromDefsFields`,
    `fromDefsField`, `GetField`, `newTType`: the descriptor tables every codec theorem takes for granted -/
def descTable : String := "cbfebd4eaff63fd247cc0a76"
/-- every store into package-level state of `internal/reflect` and `internal/defs` outside `init` functions
    ("pkg/file:func writes var"): the descriptor build under its lock (`createStructDesc`,
    `newStructDescAndPrefetch`, `fetchStructDesc`, `rollbackBuild`, `newTType`), the two table registrations
    that only `init` calls, and the caller-less caching `ResolveFields` under its own lock — nothing on the
    encode / size / decode paths -/
def sharedWrites : List String := ["defs/resolver.go:ResolveFields writes fieldsCache", "reflect/append_list.go:registerListAppendFunc writes listAppendFuncs", "reflect/append_map.go:registerMapAppendFunc writes mapAppendFuncs", "reflect/desc.go:createStructDesc writes buildCached", "reflect/desc.go:createStructDesc writes buildLinked", "reflect/desc.go:fetchStructDesc writes buildLinked", "reflect/desc.go:newStructDescAndPrefetch writes buildCached", "reflect/desc.go:newStructDescAndPrefetch writes prefetchStructDescCache", "reflect/desc.go:rollbackBuild writes prefetchStructDescCache", "reflect/ttype.go:newTType writes ttypes"]
/-- full normalised text of every function and package-level declaration of `internal/defs` /
    `internal/reflect` (hooks aside) that none of the fingerprints above, no table translation and no
    protocol fact looks at: the small predicates and helpers the model mirrors by hand -/
def residualDefs : String := "2f863e8ac98e98063831115e"
def residualReflect : String := "82e3c8dd9c9235ca4f17fb71"
end Frugal.Skeleton
