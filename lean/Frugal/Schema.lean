/-
  Schema.lean — the resolved schema (what `internal/defs` + `newStructDesc` compute from the
  struct tags), Go values as rose trees, the typing predicate, and `Params`: the constants
  and dispatch tables that `tools/extract` regenerates from /repo on every run.
-/
import Frugal.Wire
namespace Frugal

/-- non-container, non-struct kinds after tag resolution (`enum` = named int64 written as i32,
    `binary` = []byte written as string) -/
inductive Kind | bool | i8 | i16 | i32 | i64 | double | enum | string | binary
  deriving DecidableEq, Repr, Inhabited

inductive Req | dflt | required | optional
  deriving DecidableEq, Repr, Inhabited

inductive Ty
  | base (k : Kind)
  | strct (sid : Nat)
  | list (isSet : Bool) (e : Ty)
  | map (k v : Ty)
  | ptr (e : Ty)
  deriving DecidableEq, Repr, Inhabited

/-- internal type tags of `internal/reflect` (`ttype` constants incl. the private tENUM) -/
inductive TT | bool | byte | double | i16 | i32 | i64 | string | strct | map | set | list | enum
  deriving DecidableEq, Repr, Inhabited

def Kind.tt : Kind → TT
  | .bool => .bool | .i8 => .byte | .i16 => .i16 | .i32 => .i32 | .i64 => .i64
  | .double => .double | .enum => .enum | .string => .string | .binary => .string

/-- `t.T` of the type node: a pointer node carries its element's tag -/
def Ty.tt : Ty → TT
  | .base k => k.tt
  | .strct _ => .strct
  | .list s _ => if s then .set else .list
  | .map _ _ => .map
  | .ptr e => e.tt

/-- `t.WT`: the wire type code -/
def TT.wire : TT → Nat
  | .bool => 2 | .byte => 3 | .double => 4 | .i16 => 6 | .i32 => 8 | .i64 => 10
  | .string => 11 | .strct => 12 | .map => 13 | .set => 14 | .list => 15 | .enum => 8

def Ty.wire (t : Ty) : Nat := t.tt.wire

def Ty.isPtr : Ty → Bool
  | .ptr _ => true
  | _ => false

def Ty.deref : Ty → Ty
  | .ptr e => e
  | t => t

def Ty.isBinary : Ty → Bool
  | .base .binary => true
  | _ => false

/-- Go values. Scalars are raw bit patterns (bool: the byte in memory; i8..i64, double: the
    unsigned reading of the bits; enum: the 64-bit pattern). -/
inductive Val
  | sc (bits : Nat)
  | str (s : Bytes)
  | bin (isNil : Bool) (s : Bytes)
  | nilp
  | ptr (v : Val)
  | lst (isNil : Bool) (xs : List Val)
  | mp (isNil : Bool) (es : List (Val × Val))
  | st (fs : List Val) (holder : Bytes)
  /-- produced only by the decoder for `nocopy` fields: a string / []byte whose data pointer is
      `&input[off]` (a view of the input buffer, cap = len) -/
  | vstr (off : Nat) (s : Bytes)
  | vbin (off : Nat) (s : Bytes)
  deriving Inhabited, Repr

structure Field where
  id : Nat
  req : Req
  ty : Ty
  nocopy : Bool := false
  /-- value of the field after `InitDefault()` on a zero struct, when the struct has one -/
  dflt : Option Val := none
  /-- does `InitDefault()` assign this field? -/
  assigned : Bool := false
  name : String := ""
  deriving Inhabited, Repr

structure SDesc where
  name : String := ""
  fields : List Field   -- sorted by id
  hasHolder : Bool := false
  hasInit : Bool := false
  deriving Inhabited, Repr

abbrev Schema := List SDesc

def Schema.get (S : Schema) (sid : Nat) : SDesc := S.getD sid { fields := [] }

/-! ### widths -/
def Kind.bits : Kind → Nat
  | .bool => 8 | .i8 => 8 | .i16 => 16 | .i32 => 32 | .i64 => 64 | .double => 64 | .enum => 64
  | _ => 0

/-! ### zero values -/
def zeroVal (S : Schema) : Nat → Ty → Val
  | _, .base .string => .str []
  | _, .base .binary => .bin true []
  | _, .base _ => .sc 0
  | _, .ptr _ => .nilp
  | _, .list _ _ => .lst true []
  | _, .map _ _ => .mp true []
  | 0, .strct _ => .st [] []
  | fuel + 1, .strct sid => .st ((S.get sid).fields.map fun f => zeroVal S fuel f.ty) []

def zeroFields (S : Schema) (fuel : Nat) (fs : List Field) : List Val :=
  fs.map fun f => zeroVal S fuel f.ty

/-- the value `InitDefault()` leaves in a zero struct -/
def defaultFields (S : Schema) (fuel : Nat) : List Field → List Val
  | [] => []
  | f :: r => (match f.dflt with
               | some d => d
               | none => zeroVal S fuel f.ty) :: defaultFields S fuel r

/-- a freshly created struct as the decoder sees it before decoding into it -/
def freshStruct (S : Schema) (sid : Nat) : Val :=
  let sd := S.get sid
  if sd.hasInit then .st (defaultFields S S.length sd.fields) [] else .st (zeroFields S S.length sd.fields) []

/-- `InitDefault()` applied to an existing struct value: assigns the declared defaults only -/
def applyInit : List Field → List Val → List Val
  | f :: fr, v :: vr => (if f.assigned then f.dflt.getD v else v) :: applyInit fr vr
  | _, vs => vs

/-! ### typing -/
mutual
def hasTy (S : Schema) : Ty → Val → Bool
  | .base .string, .str _ => true
  | .base .binary, .bin n s => !n || s.isEmpty
  | .base .string, _ => false
  | .base .binary, _ => false
  | .base .bool, .sc n => n < 2          -- a valid Go bool is 0 or 1
  | .base k, .sc n => n < 2 ^ k.bits
  | .base _, _ => false
  | .ptr _, .nilp => true
  | .ptr e, .ptr v => !e.isPtr && hasTy S e v
  | .ptr _, _ => false
  | .list _ e, .lst n xs => (!n || xs.isEmpty) && hasTyList S e xs
  | .list _ _, _ => false
  | .map k v, .mp n es => (!n || es.isEmpty) && hasTyEntries S k v es
  | .map _ _, _ => false
  | .strct sid, .st fs h => ((S.get sid).hasHolder || h.isEmpty) && hasTyFields S (S.get sid).fields fs
  | .strct _, _ => false
def hasTyList (S : Schema) (e : Ty) : List Val → Bool
  | [] => true
  | v :: r => hasTy S e v && hasTyList S e r
def hasTyEntries (S : Schema) (k v : Ty) : List (Val × Val) → Bool
  | [] => true
  | (a, b) :: r => hasTy S k a && hasTy S v b && hasTyEntries S k v r
def hasTyFields (S : Schema) : List Field → List Val → Bool
  | [], [] => true
  | f :: fr, v :: vr => hasTy S f.ty v && hasTyFields S fr vr
  | _, _ => false
end

/-! ### types the annotation parser can produce (see `Tags.parseType_ok`) -/

def Ty.isStructPtr : Ty → Bool
  | .ptr (.strct _) => true
  | _ => false

/-- no pointer to pointer / to container; container elements and map values are values or
    pointers to structs; map keys are scalars, strings or pointers to structs -/
def Ty.ok : Ty → Bool
  | .base _ => true
  | .strct _ => true
  | .ptr (.base _) => true
  | .ptr (.strct _) => true
  | .ptr _ => false
  | .list _ e => e.ok && (!e.isPtr || e.isStructPtr)
  | .map k v => k.ok && v.ok && (!v.isPtr || v.isStructPtr) &&
      (match k with
       | .base .binary => false
       | .base _ => true
       | .ptr (.strct _) => true
       | _ => false)

/-- resolver rule: only optional fields or structs can be pointers -/
def Field.ok (f : Field) : Bool :=
  f.ty.ok && (!f.ty.isPtr || f.ty.isStructPtr || f.req == .optional) && (!f.nocopy || f.ty.tt == .string) &&
  decide (f.id < 65536)
def SDesc.ok (sd : SDesc) : Bool := sd.fields.all Field.ok
def Schema.ok (S : Schema) : Bool := S.all SDesc.ok

/-! ### regenerated constants and tables -/

/-- element / key / value writer operations found in the fast-path routines -/
inductive WOp
  | boolNorm   -- appendMapBool: 1 if the byte is non-zero else 0
  | byte       -- append(b, *(*byte)(p))
  | u16 | u32 | u64
  | enum32     -- appendUint32(b, uint32(*(*int64)(p)))
  | str        -- length-prefixed bytes
  | dispatch   -- t.AppendFunc(t, b, p) with the pointer dereferenced when t.IsPointer
  | any        -- appendAny(t, b, p)
  | unknown
  deriving DecidableEq, Repr, Inhabited

/-- the Go map type a typed-range routine casts the map to (`iter` = reflect iterator) -/
inductive Cast | bool | u8 | u16 | u32 | u64 | i64 | str | iter | unknown
  deriving DecidableEq, Repr, Inhabited

structure MapRoutine where
  castK : Cast
  castV : Cast
  kw : WOp
  vw : WOp
  deriving DecidableEq, Repr, Inhabited

structure Params where
  -- ttype.go, desc.go
  typeToSize : List (TT × Nat)
  simpleTypes : List TT
  containerTypes : List TT
  fieldHeaderLen : Nat
  mapHeaderLen : Nat
  listHeaderLen : Nat
  strHeaderLen : Nat
  -- decoder.go
  maxDepth : Nat
  minWire : List (Nat × Nat)
  -- gopkg skipper
  skipDepth : Nat
  skipFixed : List (Nat × Nat)
  skipRecovers : Bool        -- frugal wraps thrift.Binary.Skip in a recover
  -- span.go / decoder.go Malloc routing
  blockSize : Nat
  directDiv : Nat            -- `n > defaultDecoderMemSize / directDiv` goes to the runtime
  -- bitset.go
  bsWords : Nat
  bsShift : Nat
  bsMask : Nat
  -- fast-path tables
  listTable : List (TT × WOp)
  listDefault : WOp
  mapTable : List ((TT × TT) × MapRoutine)
  mapDefault : MapRoutine
  mapBinaryGuard : Bool
  /-- `updateMapAppendFunc` sends maps with double keys to the generic iterator (D13) -/
  mapDoubleKeyGuard : Bool
  /-- decoder.go: every `T_binary` test of the string decoders looks through a pointer node
      (`*[]byte` fields), so that the slot is written as a `[]byte` and not as a `string` -/
  binarySeesThroughPtr : Bool
  deriving Repr, Inhabited

namespace Params
def fixedSize (P : Params) (t : TT) : Nat := (P.typeToSize.lookup t).getD 0
def simple (P : Params) (t : TT) : Bool := P.simpleTypes.contains t
def container (P : Params) (t : TT) : Bool := P.containerTypes.contains t
def minWireOf (P : Params) (w : Nat) : Nat := (P.minWire.lookup w).getD 0
def skipFixedOf (P : Params) (w : Nat) : Nat := (P.skipFixed.lookup w).getD 0
def listRoutine (P : Params) (e : TT) : WOp := (P.listTable.lookup e).getD P.listDefault
def mapRoutine (P : Params) (k v : TT) (vIsBinary : Bool) : MapRoutine :=
  if P.mapBinaryGuard && vIsBinary then P.mapDefault
  else if P.mapDoubleKeyGuard && k == .double then P.mapDefault
  else (P.mapTable.lookup (k, v)).getD P.mapDefault
end Params

end Frugal
