/-
  Tags.lean — model of `internal/defs` (tag lookup, field resolution, the recursive type
  annotation parser matched against the Go type) and of what `newStructDesc` /
  `newStructDescAndPrefetch` add on top (holder detection, InitDefault, transitive
  acceptance).  Input: a *universe* of Go struct declarations with their raw tag strings.
-/
import Frugal.Schema
import Frugal.BuildCache
namespace Frugal

inductive GoKind
  | bool | int | int8 | int16 | int32 | int64 | uint | uint8 | uint16 | uint32 | uint64
  | uintptr | float32 | float64 | complex64 | complex128 | string | chan | func | iface | unsafeptr
  deriving DecidableEq, Repr, Inhabited

/-- Go types as `reflect` shows them. `name` is `Type.Name()` ("" for unnamed types). -/
inductive GoTy
  | prim (k : GoKind) (name : String)
  | ptr (e : GoTy)
  | slice (e : GoTy)
  | arr (n : Nat) (e : GoTy)
  | map (k v : GoTy)
  | strct (name : String) (sid : Nat)
  deriving Repr, Inhabited, DecidableEq

structure GoField where
  name : String
  exported : Bool := true
  anonymous : Bool := false
  ty : GoTy
  tag : String := ""
  /-- value assigned by `InitDefault()`, if the struct has one and it assigns this field -/
  dflt : Option Val := none
  deriving Repr, Inhabited

structure GoStruct where
  name : String
  fields : List GoField
  hasInit : Bool := false
  deriving Repr, Inhabited

abbrev Universe := List GoStruct

/-! ### reflect.StructTag.Lookup (conventional format, no escapes inside values) -/

def tagScanName : List Char → List Char → (List Char × List Char)
  | acc, c :: r =>
    if c.toNat > 32 && c != ':' && c != '"' && c.toNat != 127 then tagScanName (acc ++ [c]) r
    else (acc, c :: r)
  | acc, [] => (acc, [])

def tagScanValue : List Char → List Char → Option (List Char × List Char)
  | acc, c :: r =>
    if c == '"' then some (acc, r)
    else if c == '\\' then none          -- escapes: outside the model (generators avoid them)
    else tagScanValue (acc ++ [c]) r
  | _, [] => none

def tagLookupAux (key : List Char) : Nat → List Char → Option (List Char)
  | 0, _ => none
  | fuel + 1, tag =>
    let tag := tag.dropWhile (· == ' ')
    if tag.isEmpty then none else
    let (name, rest) := tagScanName [] tag
    match rest with
    | ':' :: '"' :: r =>
      if name.isEmpty then none else
      match tagScanValue [] r with
      | none => none
      | some (v, r') => if name == key then some v else tagLookupAux key fuel r'
    | _ => none

def tagLookup (tag : String) (key : String) : Option String :=
  (tagLookupAux key.toList (tag.length + 1) tag.toList).map String.ofList

/-! ### strings.Split / TrimSpace -/

def isGoSpace (c : Char) : Bool :=
  c == ' ' || c == '\t' || c == '\n' || c.toNat == 11 || c.toNat == 12 || c == '\r' ||
  c.toNat == 0x85 || c.toNat == 0xA0

def trimSpace (s : List Char) : List Char :=
  ((s.dropWhile isGoSpace).reverse.dropWhile isGoSpace).reverse

def splitComma : List Char → List Char → List (List Char)
  | acc, [] => [acc]
  | acc, c :: r => if c == ',' then acc :: splitComma [] r else splitComma (acc ++ [c]) r

/-- `lookupStructTag`: frugal first; thrift minus the field name -/
def lookupStructTag (tag : String) : Option (List (List Char)) :=
  match tagLookup tag "frugal" with
  | some s => some ((splitComma [] s.toList).map trimSpace)
  | none =>
    match tagLookup tag "thrift" with
    | some s => some (((splitComma [] s.toList).drop 1).map trimSpace)
    | none => none

/-- `strconv.ParseUint(s, 10, 16)` -/
def parseU16 (s : List Char) : Option Nat :=
  if s.isEmpty then none
  else if s.all Char.isDigit then
    let n := s.foldl (fun a c => a * 10 + (c.toNat - 48)) 0
    if n < 65536 then some n else none
  else none

/-! ### the annotation parser -/

def isIdent0 (c : Char) : Bool := c == '_' || c.isAlpha
def isIdent (c : Char) : Bool := isIdent0 c || c.isDigit

/-- `readToken`: returns the token and the rest; `none` is the "unexpected EOF" syntax error
    (only when `eofok` is false). -/
def readToken (src : List Char) (eofok : Bool) : Option (List Char × List Char) :=
  let s := src.dropWhile isGoSpace
  match s with
  | [] => if eofok then some ([], []) else none
  | c :: r =>
    if isIdent0 c then some (c :: r.takeWhile isIdent, r.dropWhile isIdent)
    else some ([c], r)

/-- internal/defs `Tag`s that have a keyword -/
inductive DTag | bool | i8 | double | i16 | i32 | i64 | string | binary | strct | map
  deriving DecidableEq, Repr, Inhabited

def keywordOf : DTag → String
  | .bool => "bool" | .i8 => "i8 byte" | .double => "double" | .i16 => "i16" | .i32 => "i32"
  | .i64 => "i64" | .string => "string" | .binary => "binary" | .strct => "struct" | .map => "map"

/-- the keyword(s) of a tag, as the annotation parser matches them: whole tokens (until D18 the code
    asked `strings.Contains(keywordTab[tag], token)`: `i6`, `6`, `t`, `str` were keywords too) -/
def keywordsOf : DTag → List (List Char)
  | .bool => ["bool".toList] | .i8 => ["i8".toList, "byte".toList] | .double => ["double".toList]
  | .i16 => ["i16".toList] | .i32 => ["i32".toList] | .i64 => ["i64".toList]
  | .string => ["string".toList] | .binary => ["binary".toList] | .strct => ["struct".toList]
  | .map => ["map".toList]

def isKeyword (tag : DTag) (tv : List Char) : Bool := (keywordsOf tag).contains tv

/-- the annotation keyword of some Thrift type (`isTypeKeyword` of types.go) -/
def isTypeKeyword (tv : List Char) : Bool :=
  [DTag.bool, .i8, .double, .i16, .i32, .i64, .string, .binary, .strct, .map].any (isKeyword · tv) ||
    tv == "list".toList || tv == "set".toList

/-- the parsed type together with what the cache key / later checks need -/
structure PTy where
  ty : Ty
  deriving Repr, Inhabited

def GoTy.name : GoTy → String
  | .prim _ n => n
  | .strct n _ => n
  | _ => ""

def GoTy.isStructKind : GoTy → Bool
  | .strct _ _ => true
  | _ => false

/-- `doMatchStruct`: returns (matched?, new rest, possibly replaced token); `none` = syntax error -/
def doMatchStruct (vt : GoTy) (rest : List Char) (tv : List Char) :
    Option (Bool × List Char) :=
  match readToken rest true with
  | none => none
  | some (tok, sp) =>
    -- an anonymous struct answers to any name, qualified or not (D23: it used to answer before the
    -- qualifier was consumed)
    -- … and not to the keyword of another type (D25)
    let anon := vt.name == "" && vt.isStructKind
    if tok.isEmpty || tok == [':'] || tok == ['>'] then
      some ((anon && !isTypeKeyword tv) || String.ofList tv == vt.name, rest)
    else if tok != ['.'] then none
    else
      match readToken sp false with
      | none => none
      | some (tv2, sp2) =>
        match tv2 with
        | c :: _ =>
          if !isIdent0 c then none else some ((anon && !isTypeKeyword tv2) || String.ofList tv2 == vt.name, sp2)
        | [] => none

def isKeyType : Ty → Bool
  | .base .binary => false
  | .base _ => true
  | .ptr (.strct _) => true
  | _ => false

def isValueType : Ty → Bool
  | .ptr (.strct _) => true
  | .ptr _ => false
  | _ => true

/-- kind switch of `doParseType`: the tag, `none` for a refused kind, `some none` for a slice -/
def kindTag : GoKind → Option DTag
  | .bool => some .bool | .int => some .i64 | .int8 => some .i8 | .int16 => some .i16
  | .int32 => some .i32 | .int64 => some .i64 | .float64 => some .double | .string => some .string
  | _ => none

def baseOfTag : DTag → Ty
  | .bool => .base .bool | .i8 => .base .i8 | .double => .base .double | .i16 => .base .i16
  | .i32 => .base .i32 | .i64 => .base .i64 | .string => .base .string | .binary => .base .binary
  | _ => .base .bool

/-- the predeclared 64-bit integer types: naming one of them in the annotation is a redundant
    annotation, naming any other (defined) 64-bit integer type makes the field an enum (D24: `int` used
    to count as defined) -/
def isPredeclared64 (vt : GoTy) : Bool := vt == .prim .int64 "int64" || vt == .prim .int "int"

/-- match the annotation token against the kind's keyword(s) (`isKeyword`) or the type's
    own name (`doMatchStruct`); returns the rest and whether the type became an enum. -/
def matchAnnot (vt : GoTy) (tag : DTag) (def_ : List Char) : Option (List Char × Bool) :=
  match readToken def_ false with
  | none => none
  | some (tv, rest) =>
    if isKeyword tag tv then some (rest, false)
    else match tv with
      | c :: _ =>
        if !isIdent0 c then none else
        match doMatchStruct vt rest tv with
        | none => none
        | some (ok, rest') =>
          if !ok then none
          else some (rest', tag == .i64 && !isPredeclared64 vt)
      | [] => none

def expectTok (def_ : List Char) (tok : Char) : Option (List Char) :=
  match readToken def_ false with
  | some (t, r) => if t == [tok] then some r else none
  | none => none

/-- `doParseSlice` after the element parser is known: `set<…>` / `list<…>` -/
def parseSliceBody (inner : List Char → Option (Ty × List Char)) (def_ : List Char) : Option (Ty × List Char) :=
  match readToken def_ false with
  | none => none
  | some (tok, r) =>
    let isSet? : Option Bool :=
      if tok == "set".toList then some true else if tok == "list".toList then some false else none
    match isSet? with
    | none => none
    | some isSet =>
      match expectTok r '<' with
      | none => none
      | some r1 =>
        match inner r1 with
        | none => none
        | some (et, r2) =>
          match expectTok r2 '>' with
          | none => none
          | some r3 => if isValueType et then some (.list isSet et, r3) else none

/-- the `map<K:V>` part of `doParseType` after key and value parsers are known -/
def parseMapBody (hasDef : Bool) (pk pv : List Char → Option (Ty × List Char)) (r0 : List Char) :
    Option (Ty × List Char) :=
  let r1? := if hasDef then expectTok r0 '<' else some r0
  match r1? with
  | none => none
  | some r1 =>
    match pk r1 with
    | none => none
    | some (kt, r2) =>
      if !isKeyType kt then none else
      let r3? := if hasDef then expectTok r2 ':' else some r2
      match r3? with
      | none => none
      | some r3 =>
        match pv r3 with
        | none => none
        | some (vt, r4) =>
          let r5? := if hasDef then expectTok r4 '>' else some r4
          match r5? with
          | none => none
          | some r5 => if isValueType vt then some (.map kt vt, r5) else none

/-- `doParseType(vt, def, &i, allowPtrs)`; `hasDef` is `def != ""`. Returns the type and the
    unread rest of the annotation. `none` = any error. -/
def doParseType : GoTy → Bool → List Char → Bool → Option (Ty × List Char)
  | .ptr e, hasDef, def_, allowPtrs =>
    if !allowPtrs then none else
    match doParseType e hasDef def_ false with
    | none => none
    | some (t, r) =>
      match t with
      | .map _ _ => none
      | .list _ _ => none
      | _ => some (.ptr t, r)
  | .prim k nm, hasDef, def_, _ =>
    match kindTag k with
    | none => none
    | some tag =>
      if hasDef then
        match matchAnnot (.prim k nm) tag def_ with
        | none => none
        | some (r, isEnum) => some (if isEnum then .base .enum else baseOfTag tag, r)
      else some (baseOfTag tag, def_)
  | .arr _ _, _, _, _ => none
  | .strct nm sid, hasDef, def_, _ =>
    if hasDef then
      match matchAnnot (.strct nm sid) .strct def_ with
      | none => none
      | some (r, _) => some (.strct sid, r)
    else some (.strct sid, def_)
  | .slice e, hasDef, def_, _ =>
    if e == .prim .uint8 "uint8" then
      if hasDef then
        match matchAnnot (.slice e) .binary def_ with
        | none => none
        | some (r, _) => some (.base .binary, r)
      else some (.base .binary, def_)
    else if !hasDef then none
    else parseSliceBody (fun r1 => doParseType e hasDef r1 true) def_
  | .map k v, hasDef, def_, _ =>
    let afterKw : Option (List Char) :=
      if hasDef then (matchAnnot (.map k v) .map def_).map (·.1) else some def_
    match afterKw with
    | none => none
    | some r0 =>
      parseMapBody hasDef (fun r1 => doParseType k hasDef r1 true) (fun r3 => doParseType v hasDef r3 true) r0

/-- `ParseType`: the type, provided the whole annotation was consumed (D19: text after a complete
    annotation used to be ignored) -/
def parseType (vt : GoTy) (def_ : List Char) : Option Ty :=
  match doParseType vt (!def_.isEmpty) def_ true with
  | none => none
  | some (t, r) =>
    match readToken r true with
    | some ([], _) => some t
    | _ => none

/-! ### DoResolveFields -/

def parseReq (s : List Char) : Option Req :=
  if s == "default".toList then some .dflt
  else if s == "required".toList then some .required
  else if s == "optional".toList then some .optional
  else none

def Ty.isStringWire (t : Ty) : Bool := t.tt == .string

/-- options: only "nocopy", once, only on string-wire types -/
def parseOpts (t : Ty) : List (List Char) → Bool → Option Bool
  | [], acc => some acc
  | o :: r, acc =>
    if o == "nocopy".toList then
      if !t.isStringWire then none else if acc then none else parseOpts t r true
    else none

/-- requiredness word assumed when the tag stops after the id -/
def dfltWord : List Char := "default".toList

/-- "only optional fields or structs can be pointers" -/
def ptrRuleOk (ty : Ty) (req : Req) : Bool :=
  match ty with
  | .ptr (.strct _) => true
  | .ptr _ => req == .optional
  | _ => true

def zeroOfKindTy : Ty → Val
  | .base .string => .str []
  | .base .binary => .bin true []
  | .base _ => .sc 0
  | .ptr _ => .nilp
  | .list _ _ => .lst true []
  | .map _ _ => .mp true []
  | .strct _ => .st [] []

def mkField (hasInit : Bool) (gf : GoField) (id : Nat) (req : Req) (ty : Ty) (nocopy : Bool) : Field :=
  { id := id, req := req, ty := ty, nocopy := nocopy, name := gf.name,
    dflt := if hasInit then some (gf.dflt.getD (zeroOfKindTy ty)) else none,
    assigned := hasInit && gf.dflt.isSome }

/-- one tagged field: id, requiredness (default when omitted), type annotation, options -/
def resolveField (hasInit : Bool) (gf : GoField) (ft : List (List Char)) : Option Field :=
  match ft with
  | [] => none
  | idS :: r =>
    match parseU16 idS with
    | none => none
    | some id =>
      match parseReq (r.headD dfltWord) with
      | none => none
      | some req =>
        match parseType gf.ty (r.tail.headD []) with
        | none => none
        | some ty =>
          if !ptrRuleOk ty req then none else
          match parseOpts ty r.tail.tail false with
          | none => none
          | some nocopy => some (mkField hasInit gf id req ty nocopy)

def resolveFieldsAux (hasInit : Bool) : List GoField → List Nat → Option (List Field)
  | [], _ => some []
  | gf :: r, ids =>
    if gf.anonymous || !gf.exported then resolveFieldsAux hasInit r ids else
    match lookupStructTag gf.tag with
    | none => resolveFieldsAux hasInit r ids
    | some ft =>
      match resolveField hasInit gf ft with
      | none => none
      | some f =>
        if ids.contains f.id then none else
        match resolveFieldsAux hasInit r (f.id :: ids) with
        | none => none
        | some fs => some (f :: fs)

def insertById (f : Field) : List Field → List Field
  | [] => [f]
  | g :: r => if f.id < g.id then f :: g :: r else g :: insertById f r

def sortById (fs : List Field) : List Field := fs.foldr insertById []

def isHolderField (gf : GoField) : Bool :=
  gf.name == "_unknownFields" &&
  (match gf.ty with
   | .slice (.prim .uint8 _) => true
   | _ => false)

/-- `newStructDesc`: one struct, not looking into nested structs -/
def resolveStruct (gs : GoStruct) : Option SDesc :=
  match resolveFieldsAux gs.hasInit gs.fields [] with
  | none => none
  | some fs => some { name := gs.name, fields := sortById fs, hasInit := gs.hasInit,
                      hasHolder := gs.fields.any isHolderField }

/-! ### transitive acceptance (prefetch of nested descriptors) -/

def Ty.structRefs : Ty → List Nat
  | .strct sid => [sid]
  | .ptr e => e.structRefs
  | .list _ e => e.structRefs
  | .map k v => k.structRefs ++ v.structRefs
  | .base _ => []

/-- all structs resolved independently; `none` marks a rejected definition -/
def resolveAll (U : Universe) : List (Option SDesc) := U.map resolveStruct

/-- is struct `sid` accepted by frugal?  The outcome of its first use in a fresh process
    (`BuildCache.useType`); `Proofs/BuildCacheLemmas.lean` shows that this is "every struct
    reachable from it resolves" and that every later use, after any history, gives the same. -/
def accepted (U : Universe) (sid : Nat) : Bool :=
  (useType (resolveAll U) sid {}).1

/-- the schema used by the codec model: rejected structs become empty descriptors (never used
    for an accepted type) -/
def schemaOf (U : Universe) : Schema :=
  (resolveAll U).map fun o => o.getD { fields := [] }

/-- model of the argument checks of the three entry points (reflect.go, desc.go
    `createStructDesc`): results of (EncodedSize, EncodeObject, DecodeObject[STOP]) for an
    argument that is not a (pointer to a) struct, and for the degenerate struct arguments. -/
def argOutcome (kind : String) : String :=
  match kind with
  | "ptr" => "ok:8 ok:8 ok:1"              -- &S{A int32}: field header + 4 + STOP
  | "struct" => "ok:8 ok:8 err"            -- by value: encodable, not decodable
  | "nilptr" => "ok:1 ok:1 err"            -- typed nil *S: written as a lone STOP
  | "rectype" => "panic:ordinary err err"  -- a self-referential map type: rejected like any unsupported one
  | "recnested" => "panic:ordinary err err"
  | "decstruct" => "err"                   -- DecodeObject alone on a struct by value, before / after use
  | _ => "panic:ordinary err err"          -- nil, int, *int, **S, slice, map, string, func, chan

end Frugal
