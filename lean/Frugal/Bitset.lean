/-
  Bitset.lean — model of the decoder's presence set (bitset.go): `[words]uint64`,
  `set/unset/test` with `x, y := i >> shift, i & mask`.
-/
import Frugal.Schema
namespace Frugal

/-- word index → 64-bit word -/
structure BitSet where
  w : Nat → Nat

def BitSet.empty : BitSet := ⟨fun _ => 0⟩

def two64 : Nat := 18446744073709551616

def bsIdx (P : Params) (i : Nat) : Nat × Nat := (i >>> P.bsShift, i &&& P.bsMask)

def BitSet.set (P : Params) (s : BitSet) (i : Nat) : BitSet :=
  let (x, y) := bsIdx P i
  ⟨fun k => if k = x then (s.w k ||| ((1 <<< y) % two64)) else s.w k⟩

/-- `s.data[x] &^= (1 << y)` -/
def BitSet.unset (P : Params) (s : BitSet) (i : Nat) : BitSet :=
  let (x, y) := bsIdx P i
  ⟨fun k => if k = x then (s.w k &&& ((two64 - 1) ^^^ ((1 <<< y) % two64))) else s.w k⟩

def BitSet.test (P : Params) (s : BitSet) (i : Nat) : Bool :=
  let (x, y) := bsIdx P i
  (s.w x &&& ((1 <<< y) % two64)) != 0

/-- index panics when the word index is outside the array -/
def bsInRange (P : Params) (i : Nat) : Bool := (bsIdx P i).1 < P.bsWords

def bitsetRun (P : Params) : BitSet → List String → List String
  | _, [] => []
  | s, op :: r =>
    match op.toList with
    | 's' :: d => let i := (String.ofList d).toNat!
                  if bsInRange P i then bitsetRun P (s.set P i) r else ["panic"]
    | 'u' :: d => let i := (String.ofList d).toNat!
                  if bsInRange P i then bitsetRun P (s.unset P i) r else ["panic"]
    | 't' :: d => let i := (String.ofList d).toNat!
                  if bsInRange P i then (if s.test P i then "1" else "0") :: bitsetRun P s r else ["panic"]
    | _ => bitsetRun P s r

def bitsetRunStr (P : Params) (ops : String) : String :=
  "".intercalate (bitsetRun P BitSet.empty (ops.splitOn ","))

end Frugal
