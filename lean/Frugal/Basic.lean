/-
  Basic.lean — bytes, big-endian codecs (arithmetic form so that `omega` can reason
  about them), the `Outcome` type used by every partial Go operation we model.
-/
namespace Frugal

abbrev Bytes := List UInt8

/-- low byte of a natural number -/
def u8 (n : Nat) : UInt8 := UInt8.ofNat (n % 256)

@[simp] theorem u8_toNat (n : Nat) : (u8 n).toNat = n % 256 := by
  simp [u8, UInt8.toNat_ofNat']

def be16 (n : Nat) : Bytes := [u8 (n / 256), u8 n]
def be32 (n : Nat) : Bytes := [u8 (n / 16777216), u8 (n / 65536), u8 (n / 256), u8 n]
def be64 (n : Nat) : Bytes :=
  [u8 (n / 72057594037927936), u8 (n / 281474976710656), u8 (n / 1099511627776), u8 (n / 4294967296),
   u8 (n / 16777216), u8 (n / 65536), u8 (n / 256), u8 n]

@[simp] theorem be16_length (n : Nat) : (be16 n).length = 2 := rfl
@[simp] theorem be32_length (n : Nat) : (be32 n).length = 4 := rfl
@[simp] theorem be64_length (n : Nat) : (be64 n).length = 8 := rfl

/-- readers return the value and the rest; `none` when the input is too short
    (the Go code would index out of range there). -/
def rd8 : Bytes → Option (Nat × Bytes)
  | a :: r => some (a.toNat, r)
  | _ => none

def rd16 : Bytes → Option (Nat × Bytes)
  | a :: b :: r => some (a.toNat * 256 + b.toNat, r)
  | _ => none

def rd32 : Bytes → Option (Nat × Bytes)
  | a :: b :: c :: d :: r => some (a.toNat * 16777216 + b.toNat * 65536 + c.toNat * 256 + d.toNat, r)
  | _ => none

def rd64 : Bytes → Option (Nat × Bytes)
  | a :: b :: c :: d :: e :: f :: g :: h :: r =>
      some (a.toNat * 72057594037927936 + b.toNat * 281474976710656 + c.toNat * 1099511627776
            + d.toNat * 4294967296 + e.toNat * 16777216 + f.toNat * 65536 + g.toNat * 256 + h.toNat, r)
  | _ => none

theorem rd8_u8 (n : Nat) (r : Bytes) (h : n < 256) : rd8 (u8 n :: r) = some (n, r) := by
  simp only [rd8, u8_toNat]; congr; omega

theorem rd16_be16 (n : Nat) (r : Bytes) (h : n < 65536) : rd16 (be16 n ++ r) = some (n, r) := by
  simp only [be16, List.cons_append, List.nil_append, rd16, u8_toNat]; congr; omega

theorem rd32_be32 (n : Nat) (r : Bytes) (h : n < 4294967296) : rd32 (be32 n ++ r) = some (n, r) := by
  simp only [be32, List.cons_append, List.nil_append, rd32, u8_toNat]; congr; omega

theorem rd64_be64 (n : Nat) (r : Bytes) (h : n < 18446744073709551616) :
    rd64 (be64 n ++ r) = some (n, r) := by
  simp only [be64, List.cons_append, List.nil_append, rd64, u8_toNat]; congr; omega

/-- The result of a modelled Go call: a normal return, a returned `error`, or a run-time panic.
    Partial Go operations (`b[i]`, `b[i:]`, nil dereference) are modelled as `panic`, never totalised. -/
inductive ErrKind
  | short | negative | sizeLimit | typeMismatch | depth | skip | required (name : String)
  | unknownType | other
  deriving Repr, DecidableEq, Inhabited

inductive PanicKind
  | bounds | nilDeref | other
  deriving Repr, DecidableEq, Inhabited

inductive Outcome (α : Type)
  | ok (a : α)
  | err (k : ErrKind)
  | panic (k : PanicKind)
  deriving Repr, Inhabited

namespace Outcome
def bind {α β} (x : Outcome α) (f : α → Outcome β) : Outcome β :=
  match x with
  | ok a => f a
  | err k => err k
  | panic k => panic k
instance : Monad Outcome where
  pure := ok
  bind := bind
def isPanic {α} : Outcome α → Bool
  | panic _ => true
  | _ => false
def isOk {α} : Outcome α → Bool
  | ok _ => true
  | _ => false
end Outcome

/-- two's complement reading of a 32-bit pattern -/
def isNeg32 (n : Nat) : Bool := n ≥ 2147483648

/-- sign extension of a 32-bit pattern to a 64-bit pattern (`int64(int32(x))`) -/
def sext32to64 (n : Nat) : Nat := if n ≥ 2147483648 then n + 18446744069414584320 else n

end Frugal
