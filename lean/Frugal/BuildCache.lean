/-
  BuildCache.lean — model of the process-wide descriptor caches of `internal/reflect`
  (desc.go `createStructDesc` / `newStructDescAndPrefetch` / `prefetchSubStructDesc` /
  `fetchStructDesc` / `rollbackBuild`, ttype.go `ttypes`), as a state machine over *uses* of struct
  types.  State:

    * `pub`    — types with a published descriptor (`sds`);
    * `pf`     — keys of `prefetchStructDescCache` (a struct type or a pointer-to-struct type);
    * `linked` — struct type nodes (`*tType`, unique per key: `ttypes` is keyed by type string and
                 reflect type) whose `Sd` is set;
    * `jc`, `jl` — the journal of the build in progress (`buildCached`, `buildLinked`).

  `Proofs/BuildCacheLemmas.lean` shows: whatever the history, a use succeeds exactly when every
  struct reachable from the type resolves, a failed use leaves the caches exactly as they were,
  and the caches only ever hold types all of whose dependencies resolve (C07, C13).
-/
import Frugal.Schema
namespace Frugal

/-- a struct type (`false`) or a pointer-to-struct type (`true`), as a cache key -/
abbrev BKey := Nat × Bool

/-- the struct type nodes `fetchStructDesc` visits for one field type, in its order -/
def Ty.keyRefs : Ty → List BKey
  | .strct sid => [(sid, false)]
  | .ptr (.strct sid) => [(sid, true)]
  | .ptr _ => []
  | .list _ e => e.keyRefs
  | .map k v => k.keyRefs ++ v.keyRefs
  | .base _ => []

def SDesc.keyRefs (sd : SDesc) : List BKey := sd.fields.flatMap (·.ty.keyRefs)

structure BSt where
  pf : List BKey := []
  linked : List BKey := []
  jc : List BKey := []
  jl : List BKey := []
  deriving Repr, Inhabited

/-- the loop of `prefetchSubStructDesc` + `fetchStructDesc` over the struct nodes of a descriptor,
    given the recursive builder -/
def fetchAll (b : BKey → BSt → Bool × BSt) : List BKey → BSt → Bool × BSt
  | [], s => (true, s)
  | n :: r, s =>
    if s.linked.contains n then fetchAll b r s      -- `t.Sd != nil`
    else
      match b n s with
      | (true, s') => fetchAll b r { s' with linked := n :: s'.linked, jl := n :: s'.jl }
      | (false, s') => (false, s')

/-- `newStructDescAndPrefetch`; `R` are the per-struct resolution results (`newStructDesc`).
    The budget is the recursion depth (never exhausted when it exceeds the number of keys, see
    `build_complete`). -/
def build (R : List (Option SDesc)) : Nat → BKey → BSt → Bool × BSt
  | 0, _, s => (false, s)
  | fuel + 1, k, s =>
    if s.pf.contains k then (true, s)
    else
      match R.getD k.1 none with
      | none => (false, s)
      | some sd =>
        match fetchAll (build R fuel) sd.keyRefs { s with pf := k :: s.pf, jc := k :: s.jc } with
        | (true, s2) => (true, s2)
        | (false, s2) => (false, { s2 with pf := s2.pf.erase k })

structure CacheSt where
  pub : List Nat := []
  pf : List BKey := []
  linked : List BKey := []
  deriving Repr, Inhabited

def buildFuel (R : List (Option SDesc)) : Nat := 2 * R.length + 2

/-- `createStructDesc` for (a pointer to) struct `sid` -/
def useType (R : List (Option SDesc)) (sid : Nat) (st : CacheSt) : Bool × CacheSt :=
  if st.pub.contains sid then (true, st)
  else
    match build R (buildFuel R) (sid, false) { pf := st.pf, linked := st.linked } with
    | (true, s) => (true, { pub := sid :: st.pub, pf := s.pf, linked := s.linked })
    | (false, s) =>     -- rollbackBuild
      (false, { pub := st.pub, pf := s.pf.filter (fun k => !s.jc.contains k),
                linked := s.linked.filter (fun n => !s.jl.contains n) })

/-- the same code without `rollbackBuild` (the tree before the repair of D10), kept to show what
    the journal is for: see `noRollback_breaks` -/
def useTypeNoRollback (R : List (Option SDesc)) (sid : Nat) (st : CacheSt) : Bool × CacheSt :=
  if st.pub.contains sid then (true, st)
  else
    match build R (buildFuel R) (sid, false) { pf := st.pf, linked := st.linked } with
    | (true, s) => (true, { pub := sid :: st.pub, pf := s.pf, linked := s.linked })
    | (false, s) => (false, { pub := st.pub, pf := s.pf, linked := s.linked })

/-- user code runs during a build (`InitDefault`, called to read the declared defaults) and may fail
    — panic — on one call and work on the next: the resolution results while the structs `bs` fail -/
def failing (R : List (Option SDesc)) (bs : List Nat) : List (Option SDesc) :=
  R.zipIdx.map fun p => if bs.contains p.2 then none else p.1

def useAll (R : List (Option SDesc)) : List Nat → CacheSt → CacheSt
  | [], st => st
  | sid :: r, st => useAll R r (useType R sid st).2

end Frugal
