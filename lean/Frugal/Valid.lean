/-
  Valid.lean — the decidable side conditions (`Params.valid`) under which the generic
  theorems hold.  `Generated.params` is checked against them by `decide` in
  `Props/Instances.lean`; every conjunct is named so that a failing `decide` identifies the
  constant or table entry that changed.
-/
import Frugal.Encode
namespace Frugal

def TT.all : List TT := [.bool, .byte, .double, .i16, .i32, .i64, .string, .strct, .map, .set, .list, .enum]

/-- wire size of fixed-size kinds (0 = not fixed) -/
def specFixed : TT → Nat
  | .bool => 1 | .byte => 1 | .double => 8 | .i16 => 2 | .i32 => 4 | .i64 => 8 | .enum => 4
  | _ => 0

def specSimple : TT → Bool
  | .bool | .byte | .double | .i16 | .i32 | .i64 | .enum | .string => true
  | _ => false

def specContainer : TT → Bool
  | .map | .set | .list => true
  | _ => false

/-- the writer operation that is correct for an element / key / value of tag `t` -/
def expectedOp : TT → WOp
  | .bool => .byte | .byte => .byte | .i16 => .u16 | .i32 => .u32 | .i64 => .u64 | .double => .u64
  | .enum => .enum32 | .string => .str
  | _ => .dispatch

/-- is `w` a correct writer for tag `t`?  (`boolNorm` and `byte` agree on valid Go bools) -/
def opOK (t : TT) (w : WOp) : Bool :=
  w.isRec || w == expectedOp t || (t == .bool && w == .boolNorm)

/-- the Go type a typed-range routine may cast the key / value to: same size and layout -/
def castOK (t : TT) (c : Cast) : Bool :=
  c == .iter ||
  (match t with
   | .bool => c == .bool | .byte => c == .u8 | .i16 => c == .u16 | .i32 => c == .u32
   | .i64 => c == .u64 || c == .i64 | .double => c == .u64 | .enum => c == .i64 || c == .u64
   | .string => c == .str      -- only for Go `string`; []byte values are excluded by the guard
   | _ => false)

/-- … and for the *key* of a typed `range` also the same hash function: while it iterates a map that
    is growing the runtime rehashes keys with the hasher of the map type it was given.  `float64` keys
    hash by value (`f64hash`), integers by their bytes, so a `map[float64]V` ranged as `map[uint64]V`
    loses and repeats entries mid-growth (D13: "map size changed during encoding" on a valid value) -/
def keyCastOK (t : TT) (c : Cast) : Bool :=
  castOK t c && (t != .double || c == .iter)

def routineOK (k v : TT) (r : MapRoutine) : Bool :=
  opOK k r.kw && opOK v r.vw && keyCastOK k r.castK && castOK v r.castV &&
  ((r.castK == .iter) == (r.castV == .iter))

namespace Params

def validSizes (P : Params) : Bool := TT.all.all fun t => P.fixedSize t == specFixed t
def validSimple (P : Params) : Bool := TT.all.all fun t => P.simple t == specSimple t
def validContainer (P : Params) : Bool := TT.all.all fun t => P.container t == specContainer t
def validHeaders (P : Params) : Bool :=
  P.fieldHeaderLen == 3 && P.mapHeaderLen == 6 && P.listHeaderLen == 5 && P.strHeaderLen == 4
def validList (P : Params) : Bool := TT.all.all fun t => opOK t (P.listRoutine t)
def validMap (P : Params) : Bool :=
  TT.all.all fun k => TT.all.all fun v =>
    routineOK k v (P.mapRoutine k v false) &&
    -- binary values (tag string, Go type []byte) must not take a typed-range routine
    (v != .string || (P.mapRoutine k v true).castV == .iter && routineOK k v (P.mapRoutine k v true))

/-- every wire type's minimum size is positive and not larger than the shortest encoding -/
def minSer : Nat → Nat
  | 2 => 1 | 3 => 1 | 4 => 8 | 6 => 2 | 8 => 4 | 10 => 8 | 11 => 4 | 12 => 1 | 13 => 6 | 14 => 5 | 15 => 5
  | _ => 0
def wireCodes : List Nat := [2, 3, 4, 6, 8, 10, 11, 12, 13, 14, 15]
def validMinWire (P : Params) : Bool :=
  wireCodes.all fun w => 0 < P.minWireOf w && P.minWireOf w ≤ minSer w
/-- fixed-size kinds: the count check alone guarantees the unguarded list element reads -/
def validMinWireFixed (P : Params) : Bool :=
  TT.all.all fun t => specFixed t == 0 || P.minWireOf t.wire == specFixed t

def validSkip (P : Params) : Bool :=
  P.skipRecovers && P.skipDepth == 64 &&
  (List.range 128).all fun w => P.skipFixedOf w == (if w ∈ [2, 3] then 1 else if w = 6 then 2 else if w = 8 then 4 else if w ∈ [4, 10] then 8 else 0)

def validDepth (P : Params) : Bool := 96 ≤ P.maxDepth && P.maxDepth ≤ 4096

def validBitset (P : Params) : Bool :=
  2 ^ P.bsShift == P.bsMask + 1 && 65536 ≤ P.bsWords * 2 ^ P.bsShift && P.bsShift ≤ 6

def validSpan (P : Params) : Bool := 0 < P.blockSize && 0 < P.directDiv

def valid (P : Params) : Bool :=
  P.validSizes && P.validSimple && P.validContainer && P.validHeaders && P.validList && P.validMap &&
  P.validMinWire && P.validMinWireFixed && P.validSkip && P.validDepth && P.validBitset && P.validSpan &&
  P.mapBinaryGuard && P.binarySeesThroughPtr

end Params
end Frugal
