/-
  Decode.lean — model of `tDecoder.Decode` / `decodeType` / `decodeStringNoCopy` /
  `decodeFixedSizeTypes` and of gopkg's `thrift.Binary.Skip` (`skipType`, `skipstr`),
  as written.  Rest-based byte streams: every function returns the remaining input, the
  Go cursor is `len - rest.length`.  `fuel` is the code's own `maxdepth`.  Every Go read
  that has no length test in front of it is modelled as `Outcome.panic .bounds`.
-/
import Frugal.Encode
namespace Frugal

/-! ### gopkg skipper -/

/-- `skipstr`: returns the number of bytes to skip -/
def skipStr (b : Bytes) : Outcome Nat :=
  match rd32 b with
  | none => .err .skip
  | some (n, r) =>
    if n ≥ 2147483648 then .err .skip
    else if n ≤ r.length then .ok (4 + n) else .err .skip

/-- one element / key / value / field value inside the skipper -/
def skipElem (P : Params) (sk : Nat → Bytes → Outcome Nat) (t : Nat) (b : Bytes) : Outcome Nat :=
  if t ≥ 128 then .panic .bounds     -- `typeToSize[t]` with t : int8 negative
  else if P.skipFixedOf t > 0 then .ok (P.skipFixedOf t)      -- NB: no length test here in gopkg
  else if t = 11 then skipStr b
  else sk t b

def skipListLoop (P : Params) (sk : Nat → Bytes → Outcome Nat) (et : Nat) :
    Nat → Bytes → Nat → Outcome Nat
  | 0, _, i => .ok i
  | n + 1, b, i =>
    if b.isEmpty then .err .skip else
    match skipElem P sk et b with
    | .ok k => skipListLoop P sk et n (b.drop k) (i + k)
    | .err e => .err e
    | .panic p => .panic p

def skipMapLoop (P : Params) (sk : Nat → Bytes → Outcome Nat) (kt vt : Nat) :
    Nat → Bytes → Nat → Outcome Nat
  | 0, _, i => .ok i
  | n + 1, b, i =>
    if b.isEmpty then .err .skip else
    match skipElem P sk kt b with
    | .ok k =>
      let b1 := b.drop k
      if b1.isEmpty then .err .skip else
      match skipElem P sk vt b1 with
      | .ok k2 => skipMapLoop P sk kt vt n (b1.drop k2) (i + k + k2)
      | .err e => .err e
      | .panic p => .panic p
    | .err e => .err e
    | .panic p => .panic p

def skipStructLoop (P : Params) (sk : Nat → Bytes → Outcome Nat) :
    Nat → Bytes → Nat → Outcome Nat
  | 0, _, _ => .err .skip
  | cnt + 1, b, i =>
    match b with
    | [] => .err .skip
    | ft :: r =>
      if ft = 0 then .ok (i + 1) else
      let r1 := r.drop 2
      if r1.isEmpty then .err .skip else
      match skipElem P sk ft.toNat r1 with
      | .ok k => skipStructLoop P sk cnt (r1.drop k) (i + 3 + k)
      | .err e => .err e
      | .panic p => .panic p

/-- `skipType(p, e, t, maxdepth)`; the result may exceed `b.length` (gopkg adds fixed sizes
    without a length test in the non-fast paths) — callers must cope, see `fieldLoop`. -/
def skipType (P : Params) : Nat → Nat → Bytes → Outcome Nat
  | 0, _, _ => .err .depth
  | fuel + 1, t, b =>
    if t ≥ 128 then .panic .bounds    -- `typeToSize[t]` with t : int8 negative
    else if P.skipFixedOf t > 0 then
      if P.skipFixedOf t > b.length then .err .skip else .ok (P.skipFixedOf t)
    else if t = 11 then skipStr b
    else if t = 13 then
      match rd8 b with
      | none => .err .skip
      | some (kt, r) =>
        match rd8 r with
        | none => .err .skip
        | some (vt, r1) =>
          match rd32 r1 with
          | none => .err .skip
          | some (sz, r2) =>
            if sz ≥ 2147483648 then .err .skip else
            if kt ≥ 128 ∨ vt ≥ 128 then .panic .bounds else
            let ks := P.skipFixedOf kt
            let vs := P.skipFixedOf vt
            if ks > 0 ∧ vs > 0 then
              if sz * (ks + vs) > r2.length then .err .skip else .ok (6 + sz * (ks + vs))
            else skipMapLoop P (skipType P fuel) kt vt sz r2 6
    else if t = 14 ∨ t = 15 then
      match rd8 b with
      | none => .err .skip
      | some (et, r) =>
        match rd32 r with
        | none => .err .skip
        | some (sz, r1) =>
          if sz ≥ 2147483648 then .err .skip else
          if et ≥ 128 then .panic .bounds else
          let es := P.skipFixedOf et
          if es > 0 then
            if sz * es > r1.length then .err .skip else .ok (5 + sz * es)
          else skipListLoop P (skipType P fuel) et sz r1 5
    else if t = 12 then skipStructLoop P (skipType P fuel) (b.length + 1) b 0
    else .err .skip

/-- `thrift.Binary.Skip(b, t)` -/
def skipM (P : Params) (t : Nat) (b : Bytes) : Outcome Nat :=
  if b.isEmpty then .err .skip else skipType P P.skipDepth t b

/-! ### fixed-size values -/

/-- `decodeFixedSizeTypes`; the caller has (or has not!) checked the length — an unguarded
    short read is a bounds panic. -/
def decodeFixed (t : TT) (b : Bytes) : Outcome (Val × Bytes) :=
  match t with
  | .bool => match rd8 b with   -- `*(*bool)(p) = b[0] == 1` (D16: the byte used to be stored as it is)
      | some (n, r) => .ok (.sc (if n = 1 then 1 else 0), r) | none => .panic .bounds
  | .byte => match rd8 b with
      | some (n, r) => .ok (.sc n, r) | none => .panic .bounds
  | .double | .i64 => match rd64 b with
      | some (n, r) => .ok (.sc n, r) | none => .panic .bounds
  | .i16 => match rd16 b with
      | some (n, r) => .ok (.sc n, r) | none => .panic .bounds
  | .i32 => match rd32 b with
      | some (n, r) => .ok (.sc n, r) | none => .panic .bounds
  | .enum => match rd32 b with
      | some (n, r) => .ok (.sc (sext32to64 n), r) | none => .panic .bounds
  | _ => .panic .other

/-- read a string body after its 4-byte length: shared by the copying and the nocopy path.
    `total` is the length of the whole input so that a view can record its absolute offset. -/
def decodeStr (isBin nocopy : Bool) (total : Nat) (b : Bytes) : Outcome (Val × Bytes) :=
  match rd32 b with
  | none => .err .short
  | some (l, r) =>
    if l ≥ 2147483648 then .err .negative
    else if l = 0 then .ok (if isBin then .bin false [] else .str [], r)
    else if l > r.length then .err .sizeLimit
    else
      let s := r.take l
      let off := total - r.length
      .ok (if nocopy then (if isBin then .vbin off s else .vstr off s)
           else (if isBin then .bin false s else .str s), r.drop l)

/-! ### map insertion (`reflect.Value.SetMapIndex`) -/

def keyEq (k : Ty) : Val → Val → Bool
  | .sc a, .sc b => if k.tt == .double then f64Eq a b else a == b
  | .str a, .str b => a == b
  | _, _ => false      -- pointer keys are fresh allocations: never equal

def mapInsert (kt : Ty) : List (Val × Val) → Val → Val → List (Val × Val)
  | [], k, v => [(k, v)]
  | (a, b) :: r, k, v => if keyEq kt a k then (k, v) :: r else (a, b) :: mapInsert kt r k v

/-! ### the struct field loop -/

structure LoopSt where
  fs : List Val
  seen : List Nat := []
  unk : Bytes := []
  deriving Inhabited

def findField : List Field → Nat → Nat → Option (Nat × Field)
  | [], _, _ => none
  | f :: r, fid, ix => if f.id = fid then some (ix, f) else findField r fid (ix + 1)

/-- value a pointer field / element / key / value is decoded into: freshly allocated memory -/
def freshTarget (S : Schema) (t : Ty) (slot : Val) : Val :=
  if t.isPtr then zeroVal S S.length t.deref else slot

def wrapPtr (t : Ty) (v : Val) : Val := if t.isPtr then .ptr v else v

/-- decode one value of (node) type `t` whose slot currently holds `slot`: the common shape
    `if t.FixedSize > 0 { guard?; decodeFixedSizeTypes } else { decodeType }`.
    `guarded` says whether the call site tests the remaining length first. -/
def decodeSlot (P : Params) (S : Schema) (dt : Ty → Bytes → Val → Outcome (Val × Bytes))
    (guarded : Bool) (t : Ty) (b : Bytes) (slot : Val) : Outcome (Val × Bytes) :=
  let target := freshTarget S t slot
  if P.fixedSize t.tt > 0 then
    if guarded && b.length < P.fixedSize t.tt then .err .short
    else match decodeFixed t.tt b with
      | .ok (v, r) => .ok (wrapPtr t v, r)
      | .err e => .err e
      | .panic p => .panic p
  else match dt t.deref b target with
    | .ok (v, r) => .ok (wrapPtr t v, r)
    | .err e => .err e
    | .panic p => .panic p

/-- the field a message field (id, wire tag) is decoded into, if any: `sd.GetField(fid)` plus the
    wire-type comparison -/
def lookupKnown (sd : SDesc) (id tag : Nat) : Option (Nat × Field) :=
  match findField sd.fields id 0 with
  | some (ix, f) => if f.ty.wire = tag then some (ix, f) else none
  | none => none

/-- decode the value of a known field into its slot -/
def decodeField (P : Params) (S : Schema) (total : Nat) (dt : Ty → Bytes → Val → Outcome (Val × Bytes))
    (f : Field) (b : Bytes) (slot : Val) : Outcome (Val × Bytes) :=
  if P.fixedSize f.ty.tt = 0 && f.nocopy then
    match decodeStr (f.ty.isBinary || (P.binarySeesThroughPtr && f.ty.deref.isBinary)) true total b with
    | .ok (v, r2) => .ok (wrapPtr f.ty v, r2)
    | .err e => .err e
    | .panic p => .panic p
  else decodeSlot P S dt true f.ty b slot

def fieldLoop (P : Params) (S : Schema) (sd : SDesc) (total : Nat)
    (dt : Ty → Bytes → Val → Outcome (Val × Bytes)) :
    Nat → Bytes → LoopSt → Outcome (LoopSt × Bytes)
  | 0, _, _ => .err .other
  | cnt + 1, b, st =>
    match b with
    | [] => .err .short
    | tp :: r =>
      if tp = 0 then .ok (st, r) else
      match rd16 r with
      | none => .err .short
      | some (fid, r1) =>
        match lookupKnown sd fid tp.toNat with
        | none =>
          match skipM P tp.toNat r1 with
          | .ok n =>
            let st' := if sd.hasHolder then { st with unk := st.unk ++ tp :: (r.take 2 ++ r1.take n) } else st
            fieldLoop P S sd total dt cnt (r1.drop n) st'
          | .err e => .err (if e == .depth then .depth else .skip)
          | .panic p => if P.skipRecovers then .err .skip else .panic p   -- `skipUnknown` recovers
        | some (ix, f) =>
          match decodeField P S total dt f r1 (st.fs.getD ix default) with
          | .ok (v, r2) =>
            fieldLoop P S sd total dt cnt r2 { st with fs := st.fs.set ix v, seen := f.id :: st.seen }
          | .err e => .err e
          | .panic p => .panic p

def firstMissing : List Field → List Nat → Option Field
  | [], _ => none
  | f :: r, seen => if f.req == .required && !seen.contains f.id then some f else firstMissing r seen

/-! ### container loops -/

def listLoop (de : Bytes → Outcome (Val × Bytes)) : Nat → Bytes → Outcome (List Val × Bytes)
  | 0, b => .ok ([], b)
  | n + 1, b =>
    match de b with
    | .ok (v, r) =>
      match listLoop de n r with
      | .ok (vs, r') => .ok (v :: vs, r')
      | .err e => .err e
      | .panic p => .panic p
    | .err e => .err e
    | .panic p => .panic p

def mapLoop (kt : Ty) (dk dv : Bytes → Outcome (Val × Bytes)) :
    Nat → Bytes → List (Val × Val) → Outcome (List (Val × Val) × Bytes)
  | 0, b, acc => .ok (acc, b)
  | n + 1, b, acc =>
    match dk b with
    | .ok (k, r) =>
      match dv r with
      | .ok (v, r1) => mapLoop kt dk dv n r1 (mapInsert kt acc k v)
      | .err e => .err e
      | .panic p => .panic p
    | .err e => .err e
    | .panic p => .panic p

/-! ### the decoder -/

mutual
/-- `(*tDecoder).Decode(b, base, sd, maxdepth)` -/
def decodeStruct (P : Params) (S : Schema) (total : Nat) :
    Nat → Nat → Bytes → Val → Outcome (Val × Bytes)
  | 0, _, _, _ => .err .depth
  | fuel + 1, sid, b, dest =>
    let sd := S.get sid
    match dest with
    | .st fs h =>
      match fieldLoop P S sd total (decodeType P S total fuel) (b.length + 1) b { fs := fs } with
      | .ok (st, r) =>
        match firstMissing sd.fields st.seen with
        | some f => .err (.required f.name)
        | none => .ok (.st st.fs (if sd.hasHolder && st.unk.length > 0 then st.unk else h), r)
      | .err e => .err e
      | .panic p => .panic p
    | _ => .err .other
/-- `(*tDecoder).decodeType(t, b, p, maxdepth)`; `t` is already dereferenced (`decodeSlot`). -/
def decodeType (P : Params) (S : Schema) (total : Nat) :
    Nat → Ty → Bytes → Val → Outcome (Val × Bytes)
  | 0, _, _, _ => .err .depth
  | fuel + 1, t, b, dest =>
    if P.fixedSize t.tt > 0 then
      if b.length < P.fixedSize t.tt then .err .short else decodeFixed t.tt b
    else
    match t with
    | .base k =>
      if t.tt == .string then decodeStr (k == .binary) false total b else .err .unknownType
    | .map kt vt =>
      match rd8 b with
      | none => .err .short
      | some (t0, r) =>
      match rd8 r with
      | none => .err .short
      | some (t1, r1) =>
      match rd32 r1 with
      | none => .err .short
      | some (l, r2) =>
        if b.length < P.mapHeaderLen then .err .short
        else if l ≥ 2147483648 then .err .negative
        else if t0 ≠ kt.wire ∨ t1 ≠ vt.wire then .err .typeMismatch
        else
          let per := P.minWireOf kt.wire + P.minWireOf vt.wire
          if per = 0 then .panic .other      -- integer divide by zero
          else if l > r2.length / per then .err .sizeLimit
          else
            -- by-value struct values are decoded into the (cleared) temporary slot
            let vslot := zeroVal S S.length vt
            match mapLoop kt
                (fun bb => decodeSlot P S (decodeType P S total fuel) true kt bb (zeroVal S S.length kt))
                (fun bb => decodeSlot P S (decodeType P S total fuel) true vt bb vslot) l r2 [] with
            | .ok (es, r3) => .ok (.mp false es, r3)
            | .err e => .err e
            | .panic p => .panic p
    | .list _ et =>
      match rd8 b with
      | none => .err .short
      | some (tp, r) =>
      match rd32 r with
      | none => .err .short
      | some (l, r1) =>
        if b.length < P.listHeaderLen then .err .short
        else if l ≥ 2147483648 then .err .negative
        else if et.wire ≠ tp then .err .typeMismatch
        else if l = 0 then .ok (.lst false [], r1)
        else
          let per := P.minWireOf et.wire
          if per = 0 then .panic .other
          else if l > r1.length / per then .err .sizeLimit
          else
            -- list elements: the fixed-size read is NOT guarded (the count check covers it)
            match listLoop (fun bb => decodeSlot P S (decodeType P S total fuel) false et bb
                                        (zeroVal S S.length et)) l r1 with
            | .ok (xs, r2) => .ok (.lst false xs, r2)
            | .err e => .err e
            | .panic p => .panic p
    | .strct sid =>
      let sd := S.get sid
      let dest' := match dest with
        | .st fs h => if sd.hasInit then Val.st (applyInit sd.fields fs) h else dest
        | d => d
      decodeStruct P S total fuel sid b dest'
    | .ptr _ => .err .unknownType
end

/-- `reflect.Decode(b, &dest)`; returns the new value and the number of bytes consumed. -/
def decodeM (P : Params) (S : Schema) (sid : Nat) (b : Bytes) (dest : Val) : Outcome (Val × Nat) :=
  match decodeStruct P S b.length P.maxDepth sid b dest with
  | .ok (v, r) => .ok (v, b.length - r.length)
  | .err e => .err e
  | .panic p => .panic p

/- forget decoder provenance (views become ordinary strings) -/
mutual
def erase : Val → Val
  | .vstr _ s => .str s
  | .vbin _ s => .bin false s
  | .ptr v => .ptr (erase v)
  | .lst n xs => .lst n (eraseList xs)
  | .mp n es => .mp n (eraseEntries es)
  | .st fs h => .st (eraseList fs) h
  | v => v
def eraseList : List Val → List Val
  | [] => []
  | x :: r => erase x :: eraseList r
def eraseEntries : List (Val × Val) → List (Val × Val)
  | [] => []
  | (a, b) :: r => (erase a, erase b) :: eraseEntries r
end

end Frugal
