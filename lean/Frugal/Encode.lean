/-
  Encode.lean —
    * `refEnc`   : the independent reference encoder (schema-directed, 40 lines, no tables);
    * `toWire`   : the denotation of a Go value under its schema as a Thrift value;
    * `appendM`  : the model of frugal's encoder as written (appendStruct / appendAny / the
                   list and map fast paths interpreted from the regenerated tables in `Params`);
    * `sizeM`    : the model of the separate size walk (`EncodedSize`, `encodedMapSize`,
                   `encodedListSize`, precomputed `fixedLenFieldSize` / `varLenFields`).
-/
import Frugal.Schema
namespace Frugal

/-! ### shared predicates (C10) -/

/-- the first word of the slot is nil (nil pointer, nil slice, nil map) -/
def isNilWord : Val → Bool
  | .nilp => true
  | .bin n _ => n
  | .lst n _ => n
  | .mp n _ => n
  | _ => false

def Ty.isContainer : Ty → Bool
  | .list _ _ => true
  | .map _ _ => true
  | _ => false

/-- IEEE-754 `==` on two 64-bit patterns -/
def f64Eq (a b : Nat) : Bool :=
  let isNaN (x : Nat) := (x / 4503599627370496) % 2048 == 2047 && x % 4503599627370496 != 0
  let isZero (x : Nat) := x % 9223372036854775808 == 0
  if isNaN a || isNaN b then false
  else if isZero a && isZero b then true
  else a == b

/-- `tType.Equal`: Go `==` per kind; false for containers and structs -/
def goEqual (t : TT) : Val → Val → Bool
  | .sc a, .sc b => if t == .double then f64Eq a b else
                    (t == .bool || t == .byte || t == .i16 || t == .i32 || t == .i64 || t == .enum) && a == b
  | .str a, .str b => t == .string && a == b
  | .bin _ a, .bin _ b => t == .string && a == b
  | _, _ => false

def zeroOfKind : Ty → Val
  | .base .string => .str []
  | .base .binary => .bin true []
  | .base _ => .sc 0
  | .ptr _ => .nilp
  | .list _ _ => .lst true []
  | .map _ _ => .mp true []
  | .strct _ => .st [] []

def Field.default (f : Field) : Val := f.dflt.getD (zeroOfKind f.ty)

/-- C10: is the field written by the encoder? -/
def fieldWritten (sd : SDesc) (f : Field) (v : Val) : Bool :=
  !(f.req == .optional && (f.ty.isPtr || f.ty.isBinary || f.ty.isContainer) && isNilWord v) &&
  !(f.req == .optional && !f.ty.isPtr && sd.hasInit && goEqual f.ty.tt f.default v)

/-! ### reference encoder -/

def encScalar (k : Kind) (n : Nat) : Bytes :=
  match k with
  | .bool => [u8 n]
  | .i8 => [u8 n]
  | .i16 => be16 n
  | .i32 => be32 n
  | .i64 => be64 n
  | .double => be64 n
  | .enum => be32 n
  | _ => []

def encStr (s : Bytes) : Bytes := be32 s.length ++ s

mutual
def refEnc (S : Schema) : Ty → Val → Bytes
  | .base k, .sc n => encScalar k n
  | .base _, .str s => encStr s
  | .base _, .bin _ s => encStr s
  | .ptr e, .ptr v => refEnc S e v
  | .ptr (.strct _), .nilp => [0]     -- a nil struct pointer is written as an empty struct
  | .list _ e, .lst _ xs => u8 e.wire :: be32 xs.length ++ refEncList S e xs
  | .map k v, .mp _ es => u8 k.wire :: u8 v.wire :: be32 es.length ++ refEncEntries S k v es
  | .strct sid, .st fs h => refEncFields S (S.get sid) (S.get sid).fields fs ++ h ++ [0]
  | _, _ => []
def refEncList (S : Schema) (e : Ty) : List Val → Bytes
  | [] => []
  | x :: r => refEnc S e x ++ refEncList S e r
def refEncEntries (S : Schema) (k v : Ty) : List (Val × Val) → Bytes
  | [] => []
  | (a, b) :: r => refEnc S k a ++ refEnc S v b ++ refEncEntries S k v r
def refEncFields (S : Schema) (sd : SDesc) : List Field → List Val → Bytes
  | f :: fr, x :: xr =>
      (if fieldWritten sd f x then u8 f.ty.wire :: be16 f.id ++ refEnc S f.ty x else [])
        ++ refEncFields S sd fr xr
  | _, _ => []
end

/-- reference encoding of a whole struct value (what `EncodeObject` must write) -/
def refEncStruct (S : Schema) (sid : Nat) (v : Val) : Bytes := refEnc S (.strct sid) v

/-! ### denotation as a Thrift value (holder bytes are not interpreted here; see C11) -/

def scalarTVal (k : Kind) (n : Nat) : TVal :=
  match k with
  | .bool => .bool n
  | .i8 => .i8 n
  | .i16 => .i16 n
  | .i32 => .i32 n
  | .i64 => .i64 n
  | .double => .double n
  | .enum => .i32 (n % 4294967296)
  | _ => .str []

mutual
def toWire (S : Schema) : Ty → Val → TVal
  | .base k, .sc n => scalarTVal k n
  | .base _, .str s => .str s
  | .base _, .bin _ s => .str s
  | .ptr e, .ptr v => toWire S e v
  | .ptr (.strct _), .nilp => .strct []
  | .list isSet e, .lst _ xs =>
      if isSet then .set e.wire (toWireList S e xs) else .list e.wire (toWireList S e xs)
  | .map k v, .mp _ es => .map k.wire v.wire (toWireEntries S k v es)
  | .strct sid, .st fs _ => .strct (toWireFields S (S.get sid) (S.get sid).fields fs)
  | _, _ => .strct []
def toWireList (S : Schema) (e : Ty) : List Val → List TVal
  | [] => []
  | x :: r => toWire S e x :: toWireList S e r
def toWireEntries (S : Schema) (k v : Ty) : List (Val × Val) → List (TVal × TVal)
  | [] => []
  | (a, b) :: r => (toWire S k a, toWire S v b) :: toWireEntries S k v r
def toWireFields (S : Schema) (sd : SDesc) : List Field → List Val → List (Nat × TVal)
  | f :: fr, x :: xr =>
      if fieldWritten sd f x then (f.id, toWire S f.ty x) :: toWireFields S sd fr xr
      else toWireFields S sd fr xr
  | _, _ => []
end

/-! ### model of the encoder as written -/

/-- the scalar `switch t.T` of `appendStruct` / `appendAny` -/
def simpleSwitch (t : TT) (n : Nat) : Bytes :=
  match t with
  | .byte => [u8 n]
  | .bool => [u8 n]
  | .i16 => be16 n
  | .i32 => be32 n
  | .enum => be32 n
  | .i64 => be64 n
  | .double => be64 n
  | _ => []

/-- non-recursive writer operations of the fast paths -/
def runScalarOp (w : WOp) : Val → Bytes
  | .sc n =>
    match w with
    | .boolNorm => [if n % 256 = 0 then 0 else 1]
    | .byte => [u8 n]
    | .u16 => be16 n
    | .u32 => be32 n
    | .u64 => be64 n
    | .enum32 => be32 n
    | _ => []
  | .str s => if w == .str then encStr s else []
  | .bin _ s => if w == .str then encStr s else []
  | _ => []

def WOp.isRec : WOp → Bool
  | .dispatch => true
  | .any => true
  | _ => false

/-- the struct-field flags computed by `fromDefsField` -/
def canSkipNil (P : Params) (f : Field) : Bool :=
  f.req == .optional && (f.ty.isPtr || f.ty.isBinary || P.container f.ty.tt)

def canSkipDefault (sd : SDesc) (f : Field) : Bool :=
  f.req == .optional && !f.ty.isPtr && sd.hasInit

mutual
/-- `appendAny` (also the inlined copy in `appendStruct`, and `AppendFunc` dispatch) -/
def appendAny (P : Params) (S : Schema) : Ty → Val → Bytes
  | ty, .ptr v => appendAny P S ty.deref v
  | ty, .nilp => if ty.tt == .strct then [0] else []
  | ty, .sc n => if P.simple ty.tt then simpleSwitch ty.tt n else []
  | ty, .str s => if P.simple ty.tt && ty.tt == .string then encStr s else []
  | ty, .bin _ s => if P.simple ty.tt && ty.tt == .string then encStr s else []
  | ty, .lst _ xs =>
      match ty with
      | .list _ e =>
          -- appendListHeader writes the element wire type and the live length
          u8 e.wire :: be32 xs.length ++ appendElems P S (P.listRoutine e.tt) e xs
      | _ => []
  | ty, .mp _ es =>
      match ty with
      | .map k v =>
          let r := P.mapRoutine k.tt v.tt v.isBinary
          u8 k.wire :: u8 v.wire :: be32 es.length ++ appendEntries P S r.kw r.vw k v es
      | _ => []
  | ty, .st fs h =>
      match ty with
      | .strct sid =>
          let sd := S.get sid
          appendFields P S sd sd.fields fs ++ (if sd.hasHolder then h else []) ++ [0]
      | _ => []
  | _, .vstr _ _ => []
  | _, .vbin _ _ => []
def appendElems (P : Params) (S : Schema) (w : WOp) (e : Ty) : List Val → Bytes
  | [] => []
  | x :: r => (if w.isRec then appendAny P S e x else runScalarOp w x) ++ appendElems P S w e r
def appendEntries (P : Params) (S : Schema) (kw vw : WOp) (k v : Ty) : List (Val × Val) → Bytes
  | [] => []
  | (a, b) :: r =>
      (if kw.isRec then appendAny P S k a else runScalarOp kw a) ++
      (if vw.isRec then appendAny P S v b else runScalarOp vw b) ++ appendEntries P S kw vw k v r
def appendFields (P : Params) (S : Schema) (sd : SDesc) : List Field → List Val → Bytes
  | f :: fr, x :: xr =>
      (if canSkipNil P f && isNilWord x then []
       else if canSkipDefault sd f && goEqual f.ty.tt f.default x then []
       else u8 f.ty.wire :: be16 f.id ++ appendAny P S f.ty x) ++ appendFields P S sd fr xr
  | _, _ => []
end

/-- `reflect.Append(b, v)` for a (pointer to a) struct of type `sid`; a nil `*T` argument
    writes a lone STOP. -/
def appendM (P : Params) (S : Schema) (sid : Nat) (v : Val) : Bytes := appendAny P S (.strct sid) v

/-! ### model of the size walk -/

/-- `tField.EncodedSize()`: `some n` when the field has a size known in advance -/
def fieldFixedSize (P : Params) (f : Field) : Option Nat :=
  if f.ty.isPtr then none
  else if f.req == .optional then none
  else if P.fixedSize f.ty.tt > 0 then some (P.fieldHeaderLen + P.fixedSize f.ty.tt)
  else none

/-- `sd.fixedLenFieldSize` -/
def fixedLenFieldSize (P : Params) : List Field → Nat
  | [] => 0
  | f :: r => (fieldFixedSize P f).getD 0 + fixedLenFieldSize P r

def strLen : Val → Nat
  | .str s => s.length
  | .bin _ s => s.length
  | .ptr (.str s) => s.length
  | .ptr (.bin _ s) => s.length
  | _ => 0

mutual
/-- `EncodedSizeFunc(p)` of a list / set / map / struct node (`tType.EncodedSize`,
    `encodedMapSize`, `encodedListSize`) -/
def sizeFunc (P : Params) (S : Schema) : Ty → Val → Nat
  | ty, .ptr v => sizeFunc P S ty.deref v          -- `if t.IsPointer { base = *base }`
  | _, .nilp => 1                                   -- nil struct: tSTOP
  | ty, .st fs h =>
      match ty with
      | .strct sid =>
          let sd := S.get sid
          fixedLenFieldSize P sd.fields + sizeVarFields P S sd sd.fields fs
            + (if sd.hasHolder then h.length else 0) + 1
      | _ => 0
  | ty, .lst isNil xs =>
      match ty with
      | .list _ e =>
          if isNil then P.listHeaderLen
          else if P.fixedSize e.tt > 0 then P.listHeaderLen + xs.length * P.fixedSize e.tt
          else P.listHeaderLen + sizeElems P S e xs
      | _ => 0
  | ty, .mp isNil es =>
      match ty with
      | .map k v =>
          if isNil then P.mapHeaderLen
          else if es.length = 0 then P.mapHeaderLen
          else
            let kf := P.fixedSize k.tt
            let vf := P.fixedSize v.tt
            P.mapHeaderLen + (if kf > 0 then es.length * kf else 0) + (if vf > 0 then es.length * vf else 0)
              + (if kf > 0 && vf > 0 then 0 else sizeEntries P S (kf > 0) (vf > 0) k v es)
      | _ => 0
  | _, _ => 0
def sizeElems (P : Params) (S : Schema) (e : Ty) : List Val → Nat
  | [] => 0
  | x :: r => (if e.tt == .string then P.strHeaderLen + strLen x else sizeFunc P S e x) + sizeElems P S e r
def sizeEntries (P : Params) (S : Schema) (doneK doneV : Bool) (k v : Ty) : List (Val × Val) → Nat
  | [] => 0
  | (a, b) :: r =>
      (if doneK then 0 else if k.tt == .string then P.strHeaderLen + strLen a else sizeFunc P S k a) +
      (if doneV then 0 else if v.tt == .string then P.strHeaderLen + strLen b else sizeFunc P S v b) +
      sizeEntries P S doneK doneV k v r
/-- the loop over `sd.varLenFields` -/
def sizeVarFields (P : Params) (S : Schema) (sd : SDesc) : List Field → List Val → Nat
  | f :: fr, x :: xr =>
      (if (fieldFixedSize P f).isSome then 0
       else if canSkipNil P f && isNilWord x then 0
       else if canSkipDefault sd f && goEqual f.ty.tt f.default x then 0
       else if P.fixedSize f.ty.tt > 0 then P.fieldHeaderLen + P.fixedSize f.ty.tt
       else if f.ty.tt == .string then P.fieldHeaderLen + P.strHeaderLen + strLen x
       else P.fieldHeaderLen + sizeFunc P S f.ty x) + sizeVarFields P S sd fr xr
  | _, _ => 0
end

/-- `reflect.EncodedSize(v)` for a (pointer to a) struct of type `sid` -/
def sizeM (P : Params) (S : Schema) (sid : Nat) (v : Val) : Nat := sizeFunc P S (.strct sid) v

end Frugal
