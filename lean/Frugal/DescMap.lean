/-
  DescMap.lean — (1) sequential model of `mapStructDesc` (descmap.go: lock-free Get, copy-on-write
  Set) used by the `descmap` correspondence op; (2) small-step interleaving semantics of
  `getOrcreateStructDesc` / `createStructDesc` (desc.go) for any number of goroutines.
-/
import Frugal.Basic
namespace Frugal

/-! ### (1) sequential hash map with 65536 buckets -/

structure DM where
  slots : Nat → List (Nat × Nat)      -- bucket → published items (key, descriptor)

def DM.empty : DM := ⟨fun _ => []⟩

def lookupFirst (key : Nat) : List (Nat × Nat) → Option Nat
  | [] => none
  | (k, d) :: r => if k = key then some d else lookupFirst key r

def replaceFirst (key d : Nat) : List (Nat × Nat) → Option (List (Nat × Nat))
  | [] => none
  | (k, x) :: r => if k = key then some ((k, d) :: r) else (replaceFirst key d r).map ((k, x) :: ·)

def DM.get (m : DM) (key : Nat) : Option Nat := lookupFirst key (m.slots (key % 65536))

def DM.set (m : DM) (key d : Nat) : DM :=
  if m.get key = some d then m else
  let old := m.slots (key % 65536)
  let items := match replaceFirst key d old with
    | some l => l
    | none => old ++ [(key, d)]
  ⟨fun b => if b = key % 65536 then items else m.slots b⟩

def descmapRun : DM → List String → List String
  | _, [] => []
  | m, op :: r =>
    match op.toList with
    | 'g' :: ds =>
      let key := (String.ofList ds).toNat!
      (match m.get key with | some d => toString d | none => "-1") :: descmapRun m r
    | 's' :: ds =>
      match (String.ofList ds).splitOn ":" with
      | [k, d] => "1" :: descmapRun (m.set k.toNat! d.toNat!) r   -- "1": the old slice is never modified
      | _ => descmapRun m r
    | _ => descmapRun m r

def descmapRunStr (ops : String) : String := ",".intercalate (descmapRun DM.empty (ops.splitOn ","))

/-! ### (2) concurrent first use

  Threads are a total function `Nat → …`, so "any number of goroutines" is all naturals.
  Every thread runs `getOrCreate key`:
     load slot; scan the snapshot; (miss) lock; re-check under the lock; build; publish
     a *new* list (copy + append + atomic store); unlock.
  `descOf` is the descriptor the (deterministic) sequential build gives for a key.
  All keys share one bucket — the worst case for interference. -/

inductive PC
  | start | loaded | wantLock | locked | rechecked | built (d : Nat) | stored (d : Nat) | done
  deriving DecidableEq, Repr

structure CSt where
  slot : List (Nat × Nat)
  owner : Option Nat
  pc : Nat → PC
  key : Nat → Nat
  snap : Nat → List (Nat × Nat)
  ret : Nat → Option Nat

def upd {α} (f : Nat → α) (t : Nat) (v : α) : Nat → α := fun x => if x = t then v else f x

/-- one atomic step of thread `t`; `none` = the step is not enabled (blocked on the mutex / finished) -/
def cstep (descOf : Nat → Nat) (s : CSt) (t : Nat) : Option CSt :=
  match s.pc t with
  | .start => some { s with snap := upd s.snap t s.slot, pc := upd s.pc t .loaded }
  | .loaded =>
    match lookupFirst (s.key t) (s.snap t) with
    | some d => some { s with ret := upd s.ret t (some d), pc := upd s.pc t .done }
    | none => some { s with pc := upd s.pc t .wantLock }
  | .wantLock =>
    match s.owner with
    | none => some { s with owner := some t, pc := upd s.pc t .locked }
    | some _ => none
  | .locked =>
    match lookupFirst (s.key t) s.slot with
    | some d => some { s with ret := upd s.ret t (some d), owner := none, pc := upd s.pc t .done }
    | none => some { s with pc := upd s.pc t .rechecked }
  | .rechecked => some { s with pc := upd s.pc t (.built (descOf (s.key t))) }
  | .built d => some { s with slot := s.slot ++ [(s.key t, d)], pc := upd s.pc t (.stored d) }
  | .stored d => some { s with ret := upd s.ret t (some d), owner := none, pc := upd s.pc t .done }
  | .done => none

/-- run a schedule; steps that are not enabled are skipped -/
def crun (descOf : Nat → Nat) : CSt → List Nat → CSt
  | s, [] => s
  | s, t :: r => match cstep descOf s t with
    | some s' => crun descOf s' r
    | none => crun descOf s r

def cinit (key : Nat → Nat) : CSt :=
  { slot := [], owner := none, pc := fun _ => .start, key := key, snap := fun _ => [], ret := fun _ => none }

end Frugal
