/-
  Generated.lean — REGENERATED on every run by tools/extract from /repo's current sources.
  Do not edit by hand.
-/
import Frugal.Schema
namespace Frugal.Generated
open Frugal

def params : Params := {
  typeToSize := [(.bool, 1), (.byte, 1), (.double, 8), (.i16, 2), (.i32, 4), (.i64, 8), (.enum, 4)]
  simpleTypes := [.bool, .byte, .double, .i16, .i32, .i64, .enum, .string]
  containerTypes := [.map, .list, .set]
  fieldHeaderLen := 3
  mapHeaderLen := 6
  listHeaderLen := 5
  strHeaderLen := 4
  maxDepth := 1023
  minWire := [(2, 1), (3, 1), (6, 2), (8, 4), (10, 8), (4, 8), (11, 4), (12, 1), (13, 6), (14, 5), (15, 5)]
  skipDepth := 64
  skipFixed := [(2, 1), (3, 1), (4, 8), (6, 2), (8, 4), (10, 8)]
  skipRecovers := true
  blockSize := 2048
  directDiv := 8
  bsWords := 1024
  bsShift := 6
  bsMask := 63
  listTable := []
  listDefault := .any
  mapTable := []
  mapDefault := { castK := .iter, castV := .iter, kw := .any, vw := .any }
  mapBinaryGuard := true
}

end Frugal.Generated
