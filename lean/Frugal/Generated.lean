/-
  Generated.lean — REGENERATED on every run by tools/extract from /repo's current sources.
  Do not edit by hand.
-/
import Frugal.Schema
import Frugal.Facts
namespace Frugal.Generated
open Frugal

def params : Params := {
  typeToSize := [(.bool, 1), (.byte, 1), (.double, 8), (.i16, 2), (.i32, 4), (.i64, 8), (.enum, 4)]
  simpleTypes := [.bool, .byte, .double, .i16, .i32, .i64, .enum, .string]
  containerTypes := [.map, .list, .set]
  fieldHeaderLen := 3
  mapHeaderLen := 6
  listHeaderLen := 5
  strHeaderLen := 4
  maxDepth := 1023
  minWire := [(2, 1), (3, 1), (6, 2), (8, 4), (10, 8), (4, 8), (11, 4), (12, 1), (13, 6), (14, 5), (15, 5)]
  skipDepth := 64
  skipFixed := [(2, 1), (3, 1), (4, 8), (6, 2), (8, 4), (10, 8)]
  skipRecovers := true
  blockSize := 2048
  directDiv := 8
  bsWords := 1024
  bsShift := 6
  bsMask := 63
  listTable := [
    (.byte, .byte),
    (.i16, .u16),
    (.i32, .u32),
    (.i64, .u64),
    (.double, .u64),
    (.enum, .enum32),
    (.string, .str),
    (.strct, .dispatch),
    (.map, .dispatch),
    (.set, .dispatch),
    (.list, .dispatch)]
  listDefault := .any
  mapTable := [
    ((.bool, .bool), ⟨.bool, .bool, .boolNorm, .boolNorm⟩),
    ((.bool, .byte), ⟨.bool, .u8, .boolNorm, .byte⟩),
    ((.bool, .i16), ⟨.bool, .u16, .boolNorm, .u16⟩),
    ((.bool, .i32), ⟨.bool, .u32, .boolNorm, .u32⟩),
    ((.bool, .i64), ⟨.bool, .u64, .boolNorm, .u64⟩),
    ((.bool, .double), ⟨.bool, .u64, .boolNorm, .u64⟩),
    ((.bool, .enum), ⟨.bool, .i64, .boolNorm, .enum32⟩),
    ((.bool, .string), ⟨.bool, .str, .boolNorm, .str⟩),
    ((.bool, .strct), ⟨.iter, .iter, .byte, .dispatch⟩),
    ((.bool, .map), ⟨.iter, .iter, .byte, .dispatch⟩),
    ((.bool, .set), ⟨.iter, .iter, .byte, .dispatch⟩),
    ((.bool, .list), ⟨.iter, .iter, .byte, .dispatch⟩),
    ((.byte, .byte), ⟨.u8, .u8, .byte, .byte⟩),
    ((.byte, .bool), ⟨.u8, .bool, .byte, .boolNorm⟩),
    ((.byte, .i16), ⟨.u8, .u16, .byte, .u16⟩),
    ((.byte, .i32), ⟨.u8, .u32, .byte, .u32⟩),
    ((.byte, .i64), ⟨.u8, .u64, .byte, .u64⟩),
    ((.byte, .double), ⟨.u8, .u64, .byte, .u64⟩),
    ((.byte, .enum), ⟨.u8, .i64, .byte, .enum32⟩),
    ((.byte, .string), ⟨.u8, .str, .byte, .str⟩),
    ((.byte, .strct), ⟨.iter, .iter, .byte, .dispatch⟩),
    ((.byte, .map), ⟨.iter, .iter, .byte, .dispatch⟩),
    ((.byte, .set), ⟨.iter, .iter, .byte, .dispatch⟩),
    ((.byte, .list), ⟨.iter, .iter, .byte, .dispatch⟩),
    ((.i16, .bool), ⟨.u16, .bool, .u16, .boolNorm⟩),
    ((.i16, .byte), ⟨.u16, .u8, .u16, .byte⟩),
    ((.i16, .i16), ⟨.u16, .u16, .u16, .u16⟩),
    ((.i16, .i32), ⟨.u16, .u32, .u16, .u32⟩),
    ((.i16, .i64), ⟨.u16, .u64, .u16, .u64⟩),
    ((.i16, .double), ⟨.u16, .u64, .u16, .u64⟩),
    ((.i16, .enum), ⟨.u16, .i64, .u16, .enum32⟩),
    ((.i16, .string), ⟨.u16, .str, .u16, .str⟩),
    ((.i16, .strct), ⟨.iter, .iter, .u16, .dispatch⟩),
    ((.i16, .map), ⟨.iter, .iter, .u16, .dispatch⟩),
    ((.i16, .set), ⟨.iter, .iter, .u16, .dispatch⟩),
    ((.i16, .list), ⟨.iter, .iter, .u16, .dispatch⟩),
    ((.i32, .bool), ⟨.u32, .bool, .u32, .boolNorm⟩),
    ((.i32, .byte), ⟨.u32, .u8, .u32, .byte⟩),
    ((.i32, .i16), ⟨.u32, .u16, .u32, .u16⟩),
    ((.i32, .i32), ⟨.u32, .u32, .u32, .u32⟩),
    ((.i32, .i64), ⟨.u32, .u64, .u32, .u64⟩),
    ((.i32, .double), ⟨.u32, .u64, .u32, .u64⟩),
    ((.i32, .enum), ⟨.u32, .i64, .u32, .enum32⟩),
    ((.i32, .string), ⟨.u32, .str, .u32, .str⟩),
    ((.i32, .strct), ⟨.iter, .iter, .u32, .dispatch⟩),
    ((.i32, .map), ⟨.iter, .iter, .u32, .dispatch⟩),
    ((.i32, .set), ⟨.iter, .iter, .u32, .dispatch⟩),
    ((.i32, .list), ⟨.iter, .iter, .u32, .dispatch⟩),
    ((.i64, .bool), ⟨.u64, .bool, .u64, .boolNorm⟩),
    ((.i64, .byte), ⟨.u64, .u8, .u64, .byte⟩),
    ((.i64, .i16), ⟨.u64, .u16, .u64, .u16⟩),
    ((.i64, .i32), ⟨.u64, .u32, .u64, .u32⟩),
    ((.i64, .i64), ⟨.u64, .u64, .u64, .u64⟩),
    ((.i64, .double), ⟨.u64, .u64, .u64, .u64⟩),
    ((.i64, .enum), ⟨.u64, .i64, .u64, .enum32⟩),
    ((.i64, .string), ⟨.u64, .str, .u64, .str⟩),
    ((.i64, .strct), ⟨.iter, .iter, .u64, .dispatch⟩),
    ((.i64, .map), ⟨.iter, .iter, .u64, .dispatch⟩),
    ((.i64, .set), ⟨.iter, .iter, .u64, .dispatch⟩),
    ((.i64, .list), ⟨.iter, .iter, .u64, .dispatch⟩),
    ((.double, .bool), ⟨.u64, .bool, .u64, .boolNorm⟩),
    ((.double, .byte), ⟨.u64, .u8, .u64, .byte⟩),
    ((.double, .i16), ⟨.u64, .u16, .u64, .u16⟩),
    ((.double, .i32), ⟨.u64, .u32, .u64, .u32⟩),
    ((.double, .i64), ⟨.u64, .u64, .u64, .u64⟩),
    ((.double, .double), ⟨.u64, .u64, .u64, .u64⟩),
    ((.double, .enum), ⟨.u64, .i64, .u64, .enum32⟩),
    ((.double, .string), ⟨.u64, .str, .u64, .str⟩),
    ((.double, .strct), ⟨.iter, .iter, .u64, .dispatch⟩),
    ((.double, .map), ⟨.iter, .iter, .u64, .dispatch⟩),
    ((.double, .set), ⟨.iter, .iter, .u64, .dispatch⟩),
    ((.double, .list), ⟨.iter, .iter, .u64, .dispatch⟩),
    ((.enum, .bool), ⟨.i64, .bool, .enum32, .boolNorm⟩),
    ((.enum, .byte), ⟨.i64, .u8, .enum32, .byte⟩),
    ((.enum, .i16), ⟨.i64, .u16, .enum32, .u16⟩),
    ((.enum, .i32), ⟨.i64, .u32, .enum32, .u32⟩),
    ((.enum, .i64), ⟨.i64, .u64, .enum32, .u64⟩),
    ((.enum, .double), ⟨.i64, .u64, .enum32, .u64⟩),
    ((.enum, .enum), ⟨.i64, .i64, .enum32, .enum32⟩),
    ((.enum, .string), ⟨.i64, .str, .enum32, .str⟩),
    ((.enum, .strct), ⟨.iter, .iter, .enum32, .dispatch⟩),
    ((.enum, .map), ⟨.iter, .iter, .enum32, .dispatch⟩),
    ((.enum, .set), ⟨.iter, .iter, .enum32, .dispatch⟩),
    ((.enum, .list), ⟨.iter, .iter, .enum32, .dispatch⟩),
    ((.string, .bool), ⟨.str, .bool, .str, .boolNorm⟩),
    ((.string, .byte), ⟨.str, .u8, .str, .byte⟩),
    ((.string, .i16), ⟨.str, .u16, .str, .u16⟩),
    ((.string, .i32), ⟨.str, .u32, .str, .u32⟩),
    ((.string, .i64), ⟨.str, .u64, .str, .u64⟩),
    ((.string, .double), ⟨.str, .u64, .str, .u64⟩),
    ((.string, .enum), ⟨.str, .i64, .str, .enum32⟩),
    ((.string, .string), ⟨.str, .str, .str, .str⟩),
    ((.string, .strct), ⟨.iter, .iter, .str, .dispatch⟩),
    ((.string, .map), ⟨.iter, .iter, .str, .dispatch⟩),
    ((.string, .set), ⟨.iter, .iter, .str, .dispatch⟩),
    ((.string, .list), ⟨.iter, .iter, .str, .dispatch⟩),
    ((.strct, .bool), ⟨.iter, .iter, .dispatch, .byte⟩),
    ((.strct, .byte), ⟨.iter, .iter, .dispatch, .byte⟩),
    ((.strct, .i16), ⟨.iter, .iter, .dispatch, .u16⟩),
    ((.strct, .i32), ⟨.iter, .iter, .dispatch, .u32⟩),
    ((.strct, .i64), ⟨.iter, .iter, .dispatch, .u64⟩),
    ((.strct, .double), ⟨.iter, .iter, .dispatch, .u64⟩),
    ((.strct, .enum), ⟨.iter, .iter, .dispatch, .enum32⟩),
    ((.strct, .string), ⟨.iter, .iter, .dispatch, .str⟩),
    ((.strct, .strct), ⟨.iter, .iter, .dispatch, .dispatch⟩),
    ((.strct, .map), ⟨.iter, .iter, .dispatch, .dispatch⟩),
    ((.strct, .set), ⟨.iter, .iter, .dispatch, .dispatch⟩),
    ((.strct, .list), ⟨.iter, .iter, .dispatch, .dispatch⟩),
    ((.map, .bool), ⟨.iter, .iter, .dispatch, .byte⟩),
    ((.map, .byte), ⟨.iter, .iter, .dispatch, .byte⟩),
    ((.map, .i16), ⟨.iter, .iter, .dispatch, .u16⟩),
    ((.map, .i32), ⟨.iter, .iter, .dispatch, .u32⟩),
    ((.map, .i64), ⟨.iter, .iter, .dispatch, .u64⟩),
    ((.map, .double), ⟨.iter, .iter, .dispatch, .u64⟩),
    ((.map, .enum), ⟨.iter, .iter, .dispatch, .enum32⟩),
    ((.map, .string), ⟨.iter, .iter, .dispatch, .str⟩),
    ((.map, .strct), ⟨.iter, .iter, .dispatch, .dispatch⟩),
    ((.map, .map), ⟨.iter, .iter, .dispatch, .dispatch⟩),
    ((.map, .set), ⟨.iter, .iter, .dispatch, .dispatch⟩),
    ((.map, .list), ⟨.iter, .iter, .dispatch, .dispatch⟩),
    ((.set, .bool), ⟨.iter, .iter, .dispatch, .byte⟩),
    ((.set, .byte), ⟨.iter, .iter, .dispatch, .byte⟩),
    ((.set, .i16), ⟨.iter, .iter, .dispatch, .u16⟩),
    ((.set, .i32), ⟨.iter, .iter, .dispatch, .u32⟩),
    ((.set, .i64), ⟨.iter, .iter, .dispatch, .u64⟩),
    ((.set, .double), ⟨.iter, .iter, .dispatch, .u64⟩),
    ((.set, .enum), ⟨.iter, .iter, .dispatch, .enum32⟩),
    ((.set, .string), ⟨.iter, .iter, .dispatch, .str⟩),
    ((.set, .strct), ⟨.iter, .iter, .dispatch, .dispatch⟩),
    ((.set, .map), ⟨.iter, .iter, .dispatch, .dispatch⟩),
    ((.set, .set), ⟨.iter, .iter, .dispatch, .dispatch⟩),
    ((.set, .list), ⟨.iter, .iter, .dispatch, .dispatch⟩),
    ((.list, .bool), ⟨.iter, .iter, .dispatch, .byte⟩),
    ((.list, .byte), ⟨.iter, .iter, .dispatch, .byte⟩),
    ((.list, .i16), ⟨.iter, .iter, .dispatch, .u16⟩),
    ((.list, .i32), ⟨.iter, .iter, .dispatch, .u32⟩),
    ((.list, .i64), ⟨.iter, .iter, .dispatch, .u64⟩),
    ((.list, .double), ⟨.iter, .iter, .dispatch, .u64⟩),
    ((.list, .enum), ⟨.iter, .iter, .dispatch, .enum32⟩),
    ((.list, .string), ⟨.iter, .iter, .dispatch, .str⟩),
    ((.list, .strct), ⟨.iter, .iter, .dispatch, .dispatch⟩),
    ((.list, .map), ⟨.iter, .iter, .dispatch, .dispatch⟩),
    ((.list, .set), ⟨.iter, .iter, .dispatch, .dispatch⟩),
    ((.list, .list), ⟨.iter, .iter, .dispatch, .dispatch⟩)]
  mapDefault := ⟨.iter, .iter, .any, .any⟩
  mapBinaryGuard := true
  mapDoubleKeyGuard := true
  binarySeesThroughPtr := true
}

def facts : Facts := {
  pretouch := .returnsNil
  noJIT := .noop
  withOptions := [.returnsEmptyClosure, .returnsEmptyClosure, .returnsEmptyClosure]
  setters := [.returnsArg, .returnsArg]
  getStats := .returnsZero
  optsRefsOutsideOpts := 0
  optsImportsInCodec := 0
  envParseBase0 := true
  envEmptyIsDefault := true
  envTooSmallIsLeMin := true
  encodeCapsAtLen := true
  encodeChecksLen := true
  recursionDecrements := true
  recursiveCalls := 5
  depthZeroTests := 2
  allocAfterSizeCheck := true
  allocSitesSized := 6
  pointeeAfterLengthCheck := true
  typedAllocOK := true
  typedAllocSites := 6
  decoderSkeleton := "17ca3b1513b97227a6799a0a"
  encoderSkeleton := "5cbdaefa998ed87261c39697"
  resolverSkeleton := "dc943200c8dda6024f8f48fc"
  descTableSkeleton := "cbfebd4eaff63fd247cc0a76"
  residualDefsSkeleton := "2f863e8ac98e98063831115e"
  residualReflectSkeleton := "82e3c8dd9c9235ca4f17fb71"
  topLevelUsesLimit := true
  createLocksRechecksBuildsPublishes := true
  getIsReadOnly := true
  setCopiesThenStores := true
  cachesConfinedToLockedPath := true
  publishOnlyInCreate := true
  buildPathCallersOK := true
  scratchPooledAndCleared := true
  rollbackOnFailedBuild := true
  buildProtocol := true
  typeNodeCacheKeyed := true
  unknownIndexProtocol := true
  decodeInputWriteSites := 0
  decodeInputWriteSiteList := []
  encodeForeignWriteSites := 0
  encodeForeignWriteSiteList := []
  descriptorWriteSites := 0
  descriptorWriteSiteList := []
  sharedWriteSiteList := ["defs/resolver.go:ResolveFields writes fieldsCache", "reflect/append_list.go:registerListAppendFunc writes listAppendFuncs", "reflect/append_map.go:registerMapAppendFunc writes mapAppendFuncs", "reflect/desc.go:createStructDesc writes buildCached", "reflect/desc.go:createStructDesc writes buildLinked", "reflect/desc.go:fetchStructDesc writes buildLinked", "reflect/desc.go:newStructDescAndPrefetch writes buildCached", "reflect/desc.go:newStructDescAndPrefetch writes prefetchStructDescCache", "reflect/desc.go:rollbackBuild writes prefetchStructDescCache", "reflect/ttype.go:newTType writes ttypes"]
  hotPathHeapSites := 0
  hotPathHeapSiteList := []
  escapeAnalysisRan := true
}

/- control-structure skeletons behind the three fingerprints (for diffing; not read by Lean):
-- decoder / tDecoder.Decode
--   if maxdepth == 0 => return
--   return 0, errDepthLimitExceeded
--   if len(sd.requiredFieldIDs) > 0
--   call len
--   call bitsetPool.Get
--   defer
--   call bitsetPool.Put
--   range sd.requiredFieldIDs
--   call bs.unset
--   if sd.hasUnknownFields
--   call unknownFieldsPool.Get
--   defer
--   call unknownFieldsPool.Put
--   call ufs.Reset
--   for 
--   if i >= len(b) => return
--   call len
--   return i, io.ErrShortBuffer
--   call ttype
--   if tp == tSTOP => break
--   if len(b)-i < 2 => return
--   call len
--   return i, io.ErrShortBuffer
--   call binary.BigEndian.Uint16
--   call sd.GetField
--   if f == nil || f.Type.WT != tp => continue
--   call skipUnknown
--   if err != nil => return
--   return i, fmt.Errorf("skip unknown field %d of struct %s err: %w", fid, sd.rt.String(), err)
--   call fmt.Errorf
--   call sd.rt.String
--   if ufs != nil
--   call ufs.Add
--   call unsafe.Add
--   if t.FixedSize > 0 && len(b)-i < t.FixedSize => return
--   call len
--   return i, io.ErrShortBuffer
--   call d.mallocIfPointer
--   if t.FixedSize > 0
--   call decodeFixedSizeTypes
--   if f.NoCopy
--   call decodeStringNoCopy
--   call d.decodeType
--   if err != nil => return
--   return i, fmt.Errorf("decode field %d of struct %s err: %w", fid, sd.rt.String(), err)
--   call fmt.Errorf
--   call sd.rt.String
--   if bs != nil
--   call bs.set
--   range sd.requiredFieldIDs
--   if !bs.test(fid) => return
--   call bs.test
--   return i, newRequiredFieldNotSetException(sd.GetField(fid).Name)
--   call newRequiredFieldNotSetException
--   call sd.GetField
--   if ufs != nil && ufs.Size() > 0
--   call ufs.Size
--   call (*[]byte)
--   call unsafe.Add
--   call ufs.Copy
--   return i, nil
-- decoder / tDecoder.decodeType
--   if maxdepth == 0 => return
--   return 0, errDepthLimitExceeded
--   if t.FixedSize > 0 => return
--   if len(b) < t.FixedSize => return
--   call len
--   return 0, io.ErrShortBuffer
--   return decodeFixedSizeTypes(t.T, b, p), nil
--   call decodeFixedSizeTypes
--   switch t.T
--   case tSTRING
--   if len(b) < strHeaderLen => return
--   call len
--   return 0, io.ErrShortBuffer
--   call int
--   call int32
--   call binary.BigEndian.Uint32
--   if l < 0 => return
--   return 0, errNegativeSize
--   if l == 0 => return
--   if isBinaryType(t)
--   call isBinaryType
--   call (*[]byte)
--   call (*string)
--   return i, nil
--   if l > len(b)-i => return
--   call len
--   return i, newSizeExceedsBufferException(l, len(b)-i)
--   call newSizeExceedsBufferException
--   call len
--   call d.Malloc
--   if isBinaryType(t)
--   call isBinaryType
--   call (*[]byte)
--   call unsafe.Slice
--   call (*byte)
--   call (*string)
--   call unsafe.String
--   call (*byte)
--   call copy
--   call unsafe.Slice
--   call (*byte)
--   return i, nil
--   case tMAP
--   if len(b) < mapHeaderLen => return
--   call len
--   return 0, io.ErrShortBuffer
--   call ttype
--   call ttype
--   call int
--   call int32
--   call binary.BigEndian.Uint32
--   if l < 0 => return
--   return 0, errNegativeSize
--   if t0 != kt.WT || t1 != vt.WT => return
--   return 0, newTypeMismatchKV(kt.WT, vt.WT, t0, t1)
--   call newTypeMismatchKV
--   if remain := len(b) - mapHeaderLen; l > remain/(int(minWireSize[kt.WT])+int(minWireSize[vt.WT])) => return
--   call len
--   call int
--   call int
--   return mapHeaderLen, newSizeExceedsBufferException(l, remain)
--   call newSizeExceedsBufferException
--   call t.MapTmpVarsPool.Get
--   call reflect.MakeMapWithSize
--   if kt.IsPointer && l > 0
--   call d.Malloc
--   if vt.IsPointer && l > 0
--   call d.Malloc
--   for j < l
--   if kt.IsPointer
--   if j != 0
--   call unsafe.Add
--   call (*unsafe.Pointer)
--   if kt.FixedSize > 0
--   if len(b)-i < kt.FixedSize => break
--   call len
--   call decodeFixedSizeTypes
--   if n, err = d.decodeType(kt, b[i:], tmp, maxdepth-1); err != nil => break
--   call d.decodeType
--   if vt.T == tSTRUCT && !vt.IsPointer
--   call v.SetZero
--   if vt.IsPointer
--   if j != 0
--   call unsafe.Add
--   call (*unsafe.Pointer)
--   if vt.FixedSize > 0
--   if len(b)-i < vt.FixedSize => break
--   call len
--   call decodeFixedSizeTypes
--   if n, err = d.decodeType(vt, b[i:], tmp, maxdepth-1); err != nil => break
--   call d.decodeType
--   call m.SetMapIndex
--   if err == nil
--   call (*unsafe.Pointer)
--   call m.UnsafePointer
--   call t.MapTmpVarsPool.Put
--   return i, err
--   case tLIST,tSET
--   if len(b) < listHeaderLen => return
--   call len
--   return 0, io.ErrShortBuffer
--   call ttype
--   call int
--   call int32
--   call binary.BigEndian.Uint32
--   if l < 0 => return
--   return 0, errNegativeSize
--   if et.WT != tp => return
--   return 0, newTypeMismatch(et.WT, tp)
--   call newTypeMismatch
--   call (*sliceHeader)
--   if l <= 0 => return
--   call h.Zero
--   return i, nil
--   if remain := len(b) - i; l > remain/int(minWireSize[et.WT]) => return
--   call len
--   call int
--   return i, newSizeExceedsBufferException(l, remain)
--   call newSizeExceedsBufferException
--   call d.Malloc
--   if et.IsPointer
--   call d.Malloc
--   for j < l
--   if j != 0
--   call unsafe.Add
--   if et.IsPointer
--   if j != 0
--   call unsafe.Add
--   call (*unsafe.Pointer)
--   if et.FixedSize > 0
--   call decodeFixedSizeTypes
--   call d.decodeType
--   if err != nil => return
--   return i, err
--   return i, nil
--   case tSTRUCT
--   if t.Sd.hasInitFunc
--   call updateIface
--   call unsafe.Pointer
--   call f.InitDefault
--   return d.Decode(b, p, t.Sd, maxdepth-1)
--   call d.Decode
--   return 0, fmt.Errorf("unknown type: %d", t.T)
--   call fmt.Errorf
-- decoder / decodeStringNoCopy
--   if len(b) < strHeaderLen => return
--   call len
--   return 0, io.ErrShortBuffer
--   call int
--   call int32
--   call binary.BigEndian.Uint32
--   if l < 0 => return
--   return 
--   if l == 0 => return
--   if isBinaryType(t)
--   call isBinaryType
--   call (*[]byte)
--   call (*string)
--   return 
--   if l > len(b)-i => return
--   call len
--   return i, newSizeExceedsBufferException(l, len(b)-i)
--   call newSizeExceedsBufferException
--   call len
--   if isBinaryType(t)
--   call isBinaryType
--   call (*[]byte)
--   call unsafe.Slice
--   call (*string)
--   call unsafe.String
--   return 
-- decoder / decodeFixedSizeTypes
--   switch t
--   case tBOOL
--   call (*bool)
--   return 1
--   case tBYTE
--   call (*byte)
--   return 1
--   case tDOUBLE,tI64
--   call (*uint64)
--   call binary.BigEndian.Uint64
--   return 8
--   case tI16
--   call (*int16)
--   call int16
--   call binary.BigEndian.Uint16
--   return 2
--   case tI32
--   call (*int32)
--   call int32
--   call binary.BigEndian.Uint32
--   return 4
--   case tENUM
--   call (*int64)
--   call int64
--   call int32
--   call binary.BigEndian.Uint32
--   return 4
--   case 
--   call panic
-- decoder / skipUnknown
--   defer
--   call func() { if r := recover(); r != nil { n, err = 0, thrift.NewProtocolException(thrift.INVALID_DATA, fmt.Sprintf("unknown data type: %v", r)) } }
--   funclit
--   if r := recover(); r != nil
--   call recover
--   call thrift.NewProtocolException
--   call fmt.Sprintf
--   return thrift.Binary.Skip(b, thrift.TType(tp))
--   call thrift.Binary.Skip
--   call thrift.TType
-- decoder / tDecoder.mallocIfPointer
--   if t.IsPointer => return
--   call d.Malloc
--   call (*unsafe.Pointer)
--   return 
--   return p
-- decoder / tDecoder.Malloc
--   if n > defaultDecoderMemSize/8 || abiType != 0 => return
--   return mallocgc(uintptr(n), abiType, abiType != 0)
--   call mallocgc
--   call uintptr
--   return d.s.Malloc(n, align)
--   call d.s.Malloc
-- encoder / appendStruct
--   if base == nil => return
--   return append(b, byte(tSTOP)), nil
--   call append
--   call byte
--   range sd.fields
--   call unsafe.Add
--   if f.CanSkipEncodeIfNil && *(*unsafe.Pointer)(p) == nil => continue
--   call (*unsafe.Pointer)
--   if f.CanSkipIfDefault && t.Equal(f.Default, p) => continue
--   call t.Equal
--   call append
--   call byte
--   call byte
--   call byte
--   if t.IsPointer
--   call (*unsafe.Pointer)
--   if t.SimpleType
--   switch t.T
--   case tBYTE,tBOOL
--   call append
--   call (*byte)
--   case tI16
--   call appendUint16
--   call (*uint16)
--   case tI32
--   call appendUint32
--   call (*uint32)
--   case tENUM
--   call appendUint32
--   call uint32
--   call (*int64)
--   case tI64,tDOUBLE
--   call appendUint64
--   call (*uint64)
--   case tSTRING
--   call (*string)
--   call appendUint32
--   call uint32
--   call len
--   call append
--   call t.AppendFunc
--   if err != nil => return
--   return b, withFieldErr(err, sd, f)
--   call withFieldErr
--   if sd.hasUnknownFields
--   call (*[]byte)
--   call unsafe.Add
--   if len(xb) > 0
--   call len
--   call append
--   return append(b, byte(tSTOP)), nil
--   call append
--   call byte
-- encoder / appendAny
--   if t.IsPointer
--   call (*unsafe.Pointer)
--   if t.SimpleType => return
--   switch t.T
--   case tBYTE,tBOOL
--   call append
--   call (*byte)
--   case tI16
--   call appendUint16
--   call (*uint16)
--   case tI32
--   call appendUint32
--   call (*uint32)
--   case tENUM
--   call appendUint32
--   call uint32
--   call (*int64)
--   case tI64,tDOUBLE
--   call appendUint64
--   call (*uint64)
--   case tSTRING
--   call (*string)
--   call appendUint32
--   call uint32
--   call len
--   call append
--   return b, nil
--   return t.AppendFunc(t, b, p)
--   call t.AppendFunc
-- encoder / tType.EncodedSize
--   if t.IsPointer
--   call (*unsafe.Pointer)
--   if base == nil => return
--   return 1, nil
--   range sd.varLenFields
--   call unsafe.Add
--   if f.CanSkipEncodeIfNil && *(*unsafe.Pointer)(p) == nil => continue
--   call (*unsafe.Pointer)
--   if f.CanSkipIfDefault && t.Equal(f.Default, p) => continue
--   call t.Equal
--   if n := t.FixedSize; n > 0 => continue
--   call int
--   if t.T == tSTRING => continue
--   if t.IsPointer
--   call (*unsafe.Pointer)
--   call encodedStringSize
--   call t.EncodedSizeFunc
--   if err != nil => return
--   return ret, err
--   if sd.hasUnknownFields
--   call len
--   call (*[]byte)
--   call unsafe.Add
--   return ret, nil
-- encoder / tType.encodedMapSize
--   if *(*unsafe.Pointer)(p) == nil => return
--   call (*unsafe.Pointer)
--   return mapHeaderLen, nil
--   call maplen
--   call (*unsafe.Pointer)
--   if l == 0 => return
--   return mapHeaderLen, nil
--   if kt.FixedSize > 0
--   if vt.FixedSize > 0
--   if doneK && doneV => return
--   return ret, nil
--   call newMapIter
--   call rvWithPtr
--   for kp != nil
--   call it.Next
--   call it.Next
--   if !doneK
--   if kt.T == tSTRING
--   call encodedStringSize
--   call kt.EncodedSize
--   if err != nil => return
--   return ret, err
--   if doneV => continue
--   if vt.T == tSTRING
--   call encodedStringSize
--   call vt.EncodedSizeFunc
--   if err != nil => return
--   return ret, err
--   return ret, nil
-- encoder / tType.encodedListSize
--   if *(*unsafe.Pointer)(p) == nil => return
--   call (*unsafe.Pointer)
--   return listHeaderLen, nil
--   call (*sliceHeader)
--   if vt.FixedSize > 0 => return
--   return listHeaderLen + (h.Len * vt.FixedSize), nil
--   if h.Len == 0 => return
--   return ret, nil
--   for i < h.Len
--   if i != 0
--   call unsafe.Add
--   if vt.T == tSTRING
--   call encodedStringSize
--   call vt.EncodedSizeFunc
--   if err != nil => return
--   return ret, err
--   return ret, nil
-- encoder / appendListHeader
--   if *(*unsafe.Pointer)(p) == nil => return
--   call (*unsafe.Pointer)
--   return append(b, byte(t.WT), 0, 0, 0, 0), 0, nil
--   call append
--   call byte
--   call (*sliceHeader)
--   call uint32
--   return append(b, byte(t.WT), byte(n>>24), byte(n>>16), byte(n>>8), byte(n)), n, h.Data
--   call append
--   call byte
--   call byte
--   call byte
--   call byte
--   call byte
-- encoder / appendMapHeader
--   if *(*unsafe.Pointer)(p) != nil
--   call (*unsafe.Pointer)
--   call uint32
--   call maplen
--   call (*unsafe.Pointer)
--   return append(b, byte(t.K.WT), byte(t.V.WT), byte(n>>24), byte(n>>16), byte(n>>8), byte(n)), n
--   call append
--   call byte
--   call byte
--   call byte
--   call byte
--   call byte
--   call byte
-- encoder / Append
--   call panicIfHackErr
--   call reflect.ValueOf
--   call getStructDesc
--   if sd == nil
--   call createStructDesc
--   if err != nil => return
--   return b, err
--   if rv.Kind() == reflect.Struct
--   call rv.Kind
--   call sd.rvPool.Get
--   defer
--   call sd.rvPool.Put
--   call (*prv).Elem().Set
--   call (*prv).Elem
--   call (*rvtype)
--   call unsafe.Pointer
--   call rvPtr
--   return appendStruct(&tType{Sd: sd}, b, p)
--   call appendStruct
-- encoder / EncodedSize
--   call panicIfHackErr
--   call reflect.ValueOf
--   call getStructDesc
--   if sd == nil
--   call createStructDesc
--   if err != nil => panic
--   call panic
--   call fmt.Sprintf
--   if rv.Kind() == reflect.Struct
--   call rv.Kind
--   call sd.rvPool.Get
--   defer
--   call sd.rvPool.Put
--   call (*prv).Elem().Set
--   call (*prv).Elem
--   call (*rvtype)
--   call unsafe.Pointer
--   call rvPtr
--   call t.EncodedSize
--   if err != nil => panic
--   call panic
--   call fmt.Sprintf
--   return n
-- resolver / DoResolveFields
--   call reflect.New
--   call make
--   call vt.NumField
--   if def, ok := val.Interface().(DefaultInitializer); ok
--   call val.Interface
--   call val.Elem
--   call def.InitDefault
--   for i < vt.NumField()
--   call vt.NumField
--   if sf = vt.Field(i); sf.Anonymous || sf.PkgPath != "" => continue
--   call vt.Field
--   if ft, ok = lookupStructTag(sf.Tag); !ok => continue
--   call lookupStructTag
--   if len(ft) == 0 => return
--   call len
--   return nil, fmt.Errorf("invalid tag for field %s.%s", vt, sf.Name)
--   call fmt.Errorf
--   if id, err = strconv.ParseUint(ft[0], 10, 16); err != nil => return
--   call strconv.ParseUint
--   return nil, fmt.Errorf("invalid field number for field %s.%s: %w", vt, sf.Name, err)
--   call fmt.Errorf
--   if _, ok = ids[id]; !ok
--   return nil, fmt.Errorf("duplicated field ID %d for field %s.%s", id, vt, sf.Name)
--   call fmt.Errorf
--   if len(ft) == 0
--   call len
--   switch tv
--   case "default"
--   case "required"
--   case "optional"
--   case 
--   return nil, fmt.Errorf("invalid requiredness for field %s.%s", vt, sf.Name)
--   call fmt.Errorf
--   if len(ft) == 0
--   call len
--   if pt, err = ParseType(sf.Type, tv); err != nil => return
--   call ParseType
--   return nil, fmt.Errorf("cannot parse type descriptor: %w", err)
--   call fmt.Errorf
--   if rx != Optional && pt.T == T_pointer && pt.V.T != T_struct => return
--   return nil, fmt.Errorf("only optional fields or structs can be pointers, not %s: %s.%s", sf.Type, vt, sf.Name)
--   call fmt.Errorf
--   range ft
--   switch opt
--   case 
--   return nil, fmt.Errorf("invalid option: %s", opt)
--   call fmt.Errorf
--   case "nocopy"
--   if pt.Tag() != T_string => return
--   call pt.Tag
--   return nil, fmt.Errorf(`"nocopy" is only applicable to "string" and "binary" types, not %s`, pt)
--   call fmt.Errorf
--   if fv&NoCopy != 0 => return
--   return nil, fmt.Errorf(`duplicated option "nocopy" for field %s.%s`, vt, sf.Name)
--   call fmt.Errorf
--   if mem.IsValid()
--   call mem.IsValid
--   call mem.FieldByIndex
--   call append
--   call int
--   call uint16
--   call sort.Slice
--   funclit
--   return ret[i].ID < ret[j].ID
--   return ret, nil
-- resolver / lookupStructTag
--   if s, ok := tag.Lookup("frugal"); ok => return
--   call tag.Lookup
--   return trimSpaces(strings.Split(s, ",")), true
--   call trimSpaces
--   call strings.Split
--   if s, ok := tag.Lookup("thrift"); ok
--   call tag.Lookup
--   if ss := strings.Split(s, ","); len(ss) > 0 => return
--   call strings.Split
--   call len
--   return trimSpaces(ss[1:]), true
--   call trimSpaces
--   return nil, false
-- resolver / trimSpaces
--   range ss
--   call strings.TrimSpace
--   return ss
-- resolver / doParseType
--   if depth > maxTypeDepth => return
--   return nil, EType(vt, "type is nested too deeply")
--   call EType
--   if ret = newType(); vt.Kind() == reflect.Ptr => return
--   call newType
--   call vt.Kind
--   if !allowPtrs => return
--   return nil, EType(vt, "nested pointer is not allowed")
--   call EType
--   if ret.V, err = doParseType(vt.Elem(), def, i, false, depth+1); err != nil => return
--   call doParseType
--   call vt.Elem
--   return nil, err
--   switch ret.V.T
--   case T_map,T_set,T_list
--   return nil, EType(vt, "pointer to map, set or list is not allowed")
--   call EType
--   return ret, nil
--   switch vt.Kind()
--   call vt.Kind
--   case reflect.Bool
--   case reflect.Int
--   call T_int
--   case reflect.Int8
--   case reflect.Int16
--   case reflect.Int32
--   case reflect.Int64
--   case reflect.Uint
--   return nil, EUseOther(vt, "int")
--   call EUseOther
--   case reflect.Uint8
--   return nil, EUseOther(vt, "int8")
--   call EUseOther
--   case reflect.Uint16
--   return nil, EUseOther(vt, "int16")
--   call EUseOther
--   case reflect.Uint32
--   return nil, EUseOther(vt, "int32")
--   call EUseOther
--   case reflect.Uint64
--   return nil, EUseOther(vt, "int64")
--   call EUseOther
--   case reflect.Float32
--   return nil, EUseOther(vt, "float64")
--   call EUseOther
--   case reflect.Float64
--   case reflect.Array
--   return nil, EUseOther(vt, "[]"+vt.Elem().String())
--   call EUseOther
--   call vt.Elem().String
--   call vt.Elem
--   case reflect.Map
--   case reflect.Slice
--   case reflect.String
--   case reflect.Struct
--   case 
--   return nil, EType(vt, "unsupported type")
--   call EType
--   if tag == 0
--   if et := vt.Elem(); et == bytetype
--   call vt.Elem
--   if def == "" => return
--   return nil, ESetList(*i, def, et)
--   call ESetList
--   return doParseSlice(vt, et, def, i, ret, depth)
--   call doParseSlice
--   if def != ""
--   if tv, et := readToken(def, i, false); et != nil => return
--   call readToken
--   return nil, et
--   if !isKeyword(tag, tv)
--   call isKeyword
--   if !isident0(tv[0]) => return
--   call isident0
--   return nil, mkMistyped(*i-len(tv), def, tv, tag, vt)
--   call mkMistyped
--   call len
--   if ok, ex := doMatchStruct(vt, def, i, &tv); ex != nil => return
--   call doMatchStruct
--   return nil, ex
--   if !ok => return
--   return nil, mkMistyped(*i-len(tv), def, tv, tag, vt)
--   call mkMistyped
--   call len
--   if tag == T_i64 && vt != i64type && vt != inttype
--   if tag != T_map => return
--   return ret, nil
--   if def != ""
--   if tk, et := readToken(def, i, false); et != nil => return
--   call readToken
--   return nil, et
--   if tk != "<" => return
--   return nil, ESyntax(*i-len(tk), def, "'<' expected")
--   call ESyntax
--   call len
--   if ret.K, err = doParseType(vt.Key(), def, i, true, depth+1); err != nil => return
--   call doParseType
--   call vt.Key
--   return nil, err
--   if !ret.K.IsKeyType() => return
--   call ret.K.IsKeyType
--   return nil, EType(ret.K.S, "not a valid map key type")
--   call EType
--   if def != ""
--   if tk, et := readToken(def, i, false); et != nil => return
--   call readToken
--   return nil, et
--   if tk != ":" => return
--   return nil, ESyntax(*i-len(tk), def, "':' expected")
--   call ESyntax
--   call len
--   if ret.V, err = doParseType(vt.Elem(), def, i, true, depth+1); err != nil => return
--   call doParseType
--   call vt.Elem
--   return nil, err
--   if def != ""
--   if tk, et := readToken(def, i, false); et != nil => return
--   call readToken
--   return nil, et
--   if tk != ">" => return
--   return nil, ESyntax(*i-len(tk), def, "'>' expected")
--   call ESyntax
--   call len
--   if !ret.V.IsValueType() => return
--   call ret.V.IsValueType
--   return nil, EType(ret.V.S, "non-struct pointers are not valid map value types")
--   call EType
--   return ret, nil
-- resolver / doParseSlice
--   if tok, err = readToken(def, i, false); err != nil => return
--   call readToken
--   return nil, err
--   switch tok
--   case "set"
--   case "list"
--   case 
--   return nil, ESyntax(*i-len(tok), def, `"set" or "list" expected`)
--   call ESyntax
--   call len
--   if tok, err = readToken(def, i, false); err != nil => return
--   call readToken
--   return nil, err
--   if tok != "<" => return
--   return nil, ESyntax(*i-len(tok), def, "'<' expected")
--   call ESyntax
--   call len
--   if rt.V, err = doParseType(et, def, i, true, depth+1); err != nil => return
--   call doParseType
--   return nil, err
--   if tok, err = readToken(def, i, false); err != nil => return
--   call readToken
--   return nil, err
--   if tok != ">" => return
--   return nil, ESyntax(*i-len(tok), def, "'>' expected")
--   call ESyntax
--   call len
--   if !rt.V.IsValueType() => return
--   call rt.V.IsValueType
--   return nil, EType(rt.V.S, "non-struct pointers are not valid list/set elements")
--   call EType
--   return rt, nil
-- resolver / doMatchStruct
--   call vt.Name
--   if tok, err = readToken(def, &sp, true); err != nil => return
--   call readToken
--   return false, err
--   call vt.Kind
--   if tok == "" || tok == ":" || tok == ">" => return
--   return anon && !isTypeKeyword(*tv) || tn == *tv, nil
--   call isTypeKeyword
--   if tok != "." => return
--   return false, ESyntax(sp, def, "'.' or '>' expected")
--   call ESyntax
--   if *tv, err = readToken(def, &sp, false); err != nil => return
--   call readToken
--   return false, err
--   if !isident0((*tv)[0]) => return
--   call isident0
--   return false, ESyntax(sp, def, "struct name expected")
--   call ESyntax
--   return anon && !isTypeKeyword(*tv) || tn == *tv, nil
--   call isTypeKeyword
-- resolver / readToken
--   call len
--   for p < n && unicode.IsSpace(rune(src[p]))
--   call unicode.IsSpace
--   call rune
--   if p == n
--   if eofok => return
--   return "", nil
--   return "", ESyntax(p, src, "unexpected EOF")
--   call ESyntax
--   if isident0(src[q])
--   call isident0
--   for p < n && isident(src[p])
--   call isident
--   return src[q:p], nil
-- resolver / newStructDesc
--   if t.Kind() == reflect.Ptr
--   call t.Kind
--   call t.Elem
--   if t.Kind() != reflect.Struct => return
--   call t.Kind
--   return nil, errType
--   call defs.DoResolveFields
--   if err != nil => return
--   return nil, err
--   funclit
--   call reflect.New
--   return &rv
--   call d.fromDefsFields
--   call reflect.New(t).Interface
--   call reflect.New
--   call t.FieldByName
--   if ok && len(f.Index) == 1 && f.Type.Kind() == reflect.Slice && f.Type.Elem().Kind() == reflect.Uint8
--   call len
--   call f.Type.Kind
--   call f.Type.Elem().Kind
--   call f.Type.Elem
--   return d, nil
-- resolver / tField.fromDefsField
--   call uintptr
--   call newTType
--   if f.NoCopy && f.Type.WT != tSTRING => panic
--   call panic
--   for v.Kind() == reflect.Ptr
--   call v.Kind
--   call v.Elem
--   if !v.IsValid() => return
--   call v.IsValid
--   return 
--   call unsafe.Pointer
--   call v.UnsafeAddr
-- resolver / isident0
--   return c == '_' || c >= 'a' && c <= 'z' || c >= 'A' && c <= 'Z'
-- resolver / isident
--   return isident0(c) || c >= '0' && c <= '9'
--   call isident0
-- resolver / isKeyword
--   range strings.Fields(keywordTab[tag])
--   call strings.Fields
--   if kw == tv => return
--   return true
--   return false
-- resolver / isTypeKeyword
--   range keywordTab
--   if kw != "" && isKeyword(Tag(tag), tv) => return
--   call isKeyword
--   call Tag
--   return true
--   return tv == "list" || tv == "set"
-- descTable
--   type structDesc: structDesc struct { rt reflect.Type // always Kind() == reflect.Struct // tmp var for direct type, need to copy to heap before using unsafe.Pointer rvPool sync.Pool maxID uint16 // protect fieldIdx fieldIdx []int // directly maps field id to Field for performance fields []*tField hasInitFunc bool // true if reflect.Type implements iInitDefault initFunc iInitDefault // need to change the data pointer when calling hasUnknownFields bool // for the _unknownFields feature unknownFieldsOffset uintptr fixedLenFieldSize int // sum of f.EncodedSize() > 0 varLenFields []int // maps to fields. list of fields that f.EncodedSize() <= 0 requiredFieldIDs []uint16 }
--   type tField: tField struct { ID uint16 Offset uintptr Type *tType Name string // Go field name, for the required-field error Spec defs.Requiredness Default unsafe.Pointer NoCopy bool CanSkipEncodeIfNil bool CanSkipIfDefault bool }
--   type tType: tType struct { T ttype K *tType V *tType WT ttype // wiretype tNUM -> tI32 Tag defs.Tag RT reflect.Type Size int Align int // for Malloc MallocAbiType uintptr // 0 if a type contains no pointer // tmp var for reflect.Type, use `rvWithPtr` to copy-on-write // only used for newMapIter RV reflect.Value IsPointer bool // true if t.Tag == defs.T_pointer SimpleType bool // true if simpleTypes[t.T] FixedSize int // typeToSize[t.T] // for tSTRUCT Sd *structDesc // for tLIST, tSET, tMAP, tSTRUCT EncodedSizeFunc func(p unsafe.Pointer) (int, error) AppendFunc appendFuncType // tMAP only MapTmpVarsPool *sync.Pool // for decoder tmp vars }
--   structDesc.fromDefsFields: func (d *structDesc) fromDefsFields(ff []defs.Field) { maxFieldID := uint16(0) for _, f := range ff { if f.ID > maxFieldID { maxFieldID = f.ID } } d.maxID = maxFieldID d.fieldIdx = make([]int, int(maxFieldID)+1) for i := range d.fieldIdx { d.fieldIdx[i] = -1 } fields := make([]tField, len(ff)) d.fields = make([]*tField, len(ff)) for i, f := range ff { d.fields[i] = &fields[i] d.fields[i].fromDefsField(f) d.fieldIdx[f.ID] = i } d.varLenFields = make([]int, 0, len(ff)) d.requiredFieldIDs = make([]uint16, 0, len(ff)) for i, f := range d.fields { if n := f.EncodedSize(); n > 0 { d.fixedLenFieldSize += n } else { d.varLenFields = append(d.varLenFields, i) } if f.Spec == defs.Required { d.requiredFieldIDs = append(d.requiredFieldIDs, f.ID) } } }
--   tField.fromDefsField: func (f *tField) fromDefsField(x defs.Field) { f.ID = x.ID f.Name = x.Name f.Offset = uintptr(x.F) f.Type = newTType(x.Type) f.Spec = x.Spec t := f.Type f.NoCopy = (x.Opts & defs.NoCopy) != 0 if f.NoCopy && f.Type.WT != tSTRING { panic("[BUG] nocopy on non-STRING type") } f.CanSkipEncodeIfNil = f.Spec == defs.Optional && (t.Tag == defs.T_pointer || t.Tag == defs.T_binary || containerTypes[t.T]) v := x.Default for v.Kind() == reflect.Ptr { v = v.Elem() } if !v.IsValid() { return } f.Default = unsafe.Pointer(v.UnsafeAddr()) f.CanSkipIfDefault = (f.Spec == defs.Optional) && t.Tag != defs.T_pointer && f.Default != nil }
--   structDesc.GetField: func (d *structDesc) GetField(fid uint16) *tField { if fid > d.maxID { return nil } i := d.fieldIdx[fid] if i < 0 { return nil } return d.fields[i] }
--   newTType: func newTType(x *defs.Type) *tType { k := ttypesK{T: x.String(), S: x.S} if t := ttypes[k]; t != nil { return t } t := &tType{} ttypes[k] = t t.T = ttype(x.Tag()) t.WT = t.T t.Tag = x.T if x.IsEnum() { t.T = tENUM } t.RT = x.S t.Size = int(x.S.Size()) t.Align = x.S.Align() switch t.RT.Kind() { case reflect.Array, reflect.Map, reflect.Ptr, reflect.Slice, reflect.String, reflect.Struct: t.MallocAbiType = rtTypePtr(t.RT) } if t.T == tMAP { t.RV = reflect.New(t.RT) t.RV = t.RV.Elem() t.MapTmpVarsPool = initOrGetMapTmpVarsPool(t) } t.IsPointer = t.Tag == defs.T_pointer t.SimpleType = simpleTypes[t.T] t.FixedSize = int(typeToSize[t.T]) switch t.T { case tMAP: t.EncodedSizeFunc = t.encodedMapSize case tLIST, tSET: t.EncodedSizeFunc = t.encodedListSize case tSTRUCT: t.EncodedSizeFunc = t.EncodedSize } if x.K != nil { t.K = newTType(x.K) } if x.V != nil { t.V = newTType(x.V) } switch t.T { case tLIST, tSET: updateListAppendFunc(t) case tMAP: updateMapAppendFunc(t) case tSTRUCT: t.AppendFunc = appendStruct default: t.AppendFunc = appendAny } if t.IsPointer && t.V.IsPointer { panic("doesn't support multilevel pointers like **p") } return t }
-/

end Frugal.Generated
