/-
  AllocLemmas.lean — the bump allocator hands out aligned, in-block, pairwise disjoint
  regions, for every request sequence and whatever block addresses the runtime returns.
-/
import Frugal.Alloc
namespace Frugal

/-- the code computes `(ret + mask) &^ mask`; for `mask = 2^k - 1` that is `alignUp` -/
theorem andNot_eq_alignUp (a k : Nat) :
    (a + (2 ^ k - 1)) - ((a + (2 ^ k - 1)) &&& (2 ^ k - 1)) = alignUp a (2 ^ k - 1) := by
  have hp : 0 < 2 ^ k := Nat.two_pow_pos k
  rw [Nat.and_two_pow_sub_one_eq_mod, alignUp]
  have e : 2 ^ k - 1 + 1 = 2 ^ k := by omega
  rw [e]
  have := Nat.div_add_mod (a + (2 ^ k - 1)) (2 ^ k)
  rw [Nat.mul_comm] at this
  omega

theorem alignUp_ge (a m : Nat) : a ≤ alignUp a m := by
  unfold alignUp
  have h1 := Nat.div_add_mod (a + m) (m + 1)
  have h2 := Nat.mod_lt (a + m) (by omega : 0 < m + 1)
  rw [Nat.mul_comm] at h1
  generalize (a + m) / (m + 1) * (m + 1) = q at *
  omega

theorem alignUp_le (a m : Nat) : alignUp a m ≤ a + m := by
  unfold alignUp
  have h1 := Nat.div_add_mod (a + m) (m + 1)
  rw [Nat.mul_comm] at h1
  generalize (a + m) / (m + 1) * (m + 1) = q at *
  omega

theorem alignUp_mod (a m : Nat) : alignUp a m % (m + 1) = 0 := by
  unfold alignUp
  exact Nat.mul_mod_left _ _

/-- one call: the state stays well formed, the region is aligned, inside the current block
    and starts at or after everything handed out from that block before. -/
theorem malloc_spec (bs : Nat) (s : SpanSt) (fresh n align : Nat) (hs : s.p ≤ s.n) (ha : 0 < align) :
    let r := s.malloc bs fresh n align
    r.1.p ≤ r.1.n ∧
    r.2.addr % align = 0 ∧
    r.2.blk = r.1.blk ∧ r.2.blockBase = r.1.base ∧ r.2.blockSize = r.1.n ∧ r.2.size = n ∧
    r.1.base ≤ r.2.addr ∧ r.2.addr + n ≤ r.1.base + r.1.p ∧
    s.blk ≤ r.1.blk ∧
    (r.1.blk = s.blk → r.1.base = s.base ∧ r.1.n = s.n ∧ s.base + s.p ≤ r.2.addr) := by
  intro r
  have hm : align - 1 + 1 = align := by omega
  by_cases hc : s.p + n + (align - 1) > s.n
  · -- a new block
    have e : r = s.malloc bs fresh n align := rfl
    simp only [SpanSt.malloc, hc, ↓reduceIte] at e
    have g1 := alignUp_ge (fresh + 0) (align - 1)
    have g2 := alignUp_le (fresh + 0) (align - 1)
    have g3 := alignUp_mod (fresh + 0) (align - 1)
    rw [hm] at g3
    rw [e]
    refine ⟨?_, ?_, rfl, rfl, rfl, rfl, ?_, ?_, ?_, ?_⟩
    · simp only
      split <;> omega
    · simp only
      have : fresh + 0 + (alignUp (fresh + 0) (align - 1) - (fresh + 0)) = alignUp (fresh + 0) (align - 1) := by omega
      rw [this]; exact g3
    · simp only; omega
    · simp only; omega
    · simp only; omega
    · simp only; intro h; omega
  · have e : r = s.malloc bs fresh n align := rfl
    simp only [SpanSt.malloc, hc, ↓reduceIte] at e
    have g1 := alignUp_ge (s.base + s.p) (align - 1)
    have g2 := alignUp_le (s.base + s.p) (align - 1)
    have g3 := alignUp_mod (s.base + s.p) (align - 1)
    rw [hm] at g3
    rw [e]
    refine ⟨?_, ?_, rfl, rfl, rfl, rfl, ?_, ?_, ?_, ?_⟩
    · simp only; omega
    · simp only
      have : s.base + s.p + (alignUp (s.base + s.p) (align - 1) - (s.base + s.p)) = alignUp (s.base + s.p) (align - 1) := by omega
      rw [this]; exact g3
    · simp only; omega
    · simp only; omega
    · simp only; omega
    · intro _; exact ⟨rfl, rfl, by simp only; omega⟩

/-- a region is well placed: aligned and inside its block -/
def Region.ok (r : Region) : Prop :=
  r.addr % r.align = 0 ∧ r.blockBase ≤ r.addr ∧ r.addr + r.size ≤ r.blockBase + r.blockSize

theorem malloc_region_ok (bs : Nat) (s : SpanSt) (fresh n align : Nat) (hs : s.p ≤ s.n) (ha : 0 < align) :
    (s.malloc bs fresh n align).2.ok ∧ (s.malloc bs fresh n align).2.align = align := by
  have h := malloc_spec bs s fresh n align hs ha
  simp only at h
  obtain ⟨h1, h2, _, h4, h5, h6, h7, h8, _, _⟩ := h
  refine ⟨⟨?_, ?_, ?_⟩, ?_⟩
  · have : (s.malloc bs fresh n align).2.align = align := by
      unfold SpanSt.malloc; simp only
    rw [this]; exact h2
  · rw [h4]; exact h7
  · rw [h4, h5, h6]; omega
  · unfold SpanSt.malloc; simp only

/-- every region of a run is well placed, and every region lies entirely before the
    allocation cursor of its block or in an earlier block -/
theorem spanRegions_spec (bs : Nat) :
    ∀ (reqs : List (Nat × Nat × Nat)) (s : SpanSt), s.p ≤ s.n → (∀ q ∈ reqs, 0 < q.2.1) →
      ∀ r ∈ spanRegions bs s reqs,
        r.ok ∧ s.blk ≤ r.blk ∧ (r.blk = s.blk → s.base + s.p ≤ r.addr ∧ r.blockBase = s.base) := by
  intro reqs
  induction reqs with
  | nil => intro s _ _ r hr; simp [spanRegions] at hr
  | cons q t ih =>
    intro s hs ha r hr
    obtain ⟨n, a, fresh⟩ := q
    have ha0 : 0 < a := ha (n, a, fresh) (List.mem_cons_self ..)
    have sp := malloc_spec bs s fresh n a hs ha0
    simp only at sp
    obtain ⟨p1, p2, p3, p4, p5, p6, p7, p8, p9, p10⟩ := sp
    simp only [spanRegions, List.mem_cons] at hr
    rcases hr with hr | hr
    · subst hr
      refine ⟨(malloc_region_ok bs s fresh n a hs ha0).1, by omega, ?_⟩
      intro hb
      have := p10 (by omega)
      exact ⟨this.2.2, by rw [p4]; exact this.1⟩
    · have ih' := ih (s.malloc bs fresh n a).1 p1 (fun q hq => ha q (List.mem_cons_of_mem _ hq)) r hr
      obtain ⟨i1, i2, i3⟩ := ih'
      refine ⟨i1, by omega, ?_⟩
      intro hb
      have hb' : r.blk = (s.malloc bs fresh n a).1.blk := by omega
      have := i3 hb'
      have q10 := p10 (by omega)
      exact ⟨by omega, by rw [this.2]; exact q10.1⟩

/-- regions handed out from the same block never overlap -/
theorem spanRegions_disjoint (bs : Nat) :
    ∀ (reqs : List (Nat × Nat × Nat)) (s : SpanSt), s.p ≤ s.n → (∀ q ∈ reqs, 0 < q.2.1) →
      (spanRegions bs s reqs).Pairwise (fun r1 r2 => r1.blk = r2.blk → r1.addr + r1.size ≤ r2.addr) := by
  intro reqs
  induction reqs with
  | nil => intro s _ _; simp [spanRegions]
  | cons q t ih =>
    intro s hs ha
    obtain ⟨n, a, fresh⟩ := q
    have ha0 : 0 < a := ha (n, a, fresh) (List.mem_cons_self ..)
    have sp := malloc_spec bs s fresh n a hs ha0
    simp only at sp
    obtain ⟨p1, p2, p3, p4, p5, p6, p7, p8, p9, p10⟩ := sp
    simp only [spanRegions]
    refine List.Pairwise.cons ?_ (ih _ p1 (fun q hq => ha q (List.mem_cons_of_mem _ hq)))
    intro r2 hr2 hb
    have h2 := spanRegions_spec bs t (s.malloc bs fresh n a).1 p1 (fun q hq => ha q (List.mem_cons_of_mem _ hq)) r2 hr2
    have := h2.2.2 (by omega)
    omega

end Frugal
