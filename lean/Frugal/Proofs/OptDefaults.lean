/-
  OptDefaults.lean — C10: which fields the encoder writes (in terms of the message it produces),
  what the decoder does to nested and top-level destinations before reading into them, and what
  an optional pointer field holds afterwards.
-/
import Frugal.Proofs.ReadNorm
set_option linter.unusedSimpArgs false
set_option linter.unusedVariables false
namespace Frugal

/-! ### encoder side -/

/-- a field is omitted exactly when it is optional and either (pointer / binary / container) nil, or
    a non-pointer field of a struct with declared defaults whose value `==` its default -/
theorem omitted_iff (sd : SDesc) (f : Field) (x : Val) :
    fieldWritten sd f x = false ↔
      f.req = .optional ∧
        (((f.ty.isPtr = true ∨ f.ty.isBinary = true ∨ f.ty.isContainer = true) ∧ isNilWord x = true) ∨
         (f.ty.isPtr = false ∧ sd.hasInit = true ∧ goEqual f.ty.tt f.default x = true)) := by
  unfold fieldWritten
  cases hr : (f.req == Req.optional) <;> cases hp : f.ty.isPtr <;> cases hb : f.ty.isBinary <;>
    cases hc : f.ty.isContainer <;> cases hn : isNilWord x <;> cases hi : sd.hasInit <;>
    cases hg : goEqual f.ty.tt f.default x <;> simp_all

/-- containers and structs are never "equal to the default": only nil-ness can omit them -/
theorem goEqual_container (t : TT) (a b : Val) (h : t = .list ∨ t = .set ∨ t = .map ∨ t = .strct) :
    goEqual t a b = false := by
  rcases h with rfl | rfl | rfl | rfl <;> cases a <;> cases b <;> simp [goEqual]

/-- doubles compare as IEEE-754 `==`: a NaN never equals the default (always written), and -0.0
    equals a default of 0.0 (omitted, comes back as the default 0.0) -/
theorem nan_never_default (a : Nat) : f64Eq 0x7ff8000000000001 a = false ∧ f64Eq a 0x7ff8000000000001 = false := by
  constructor <;> simp [f64Eq]

theorem neg_zero_equals_zero : f64Eq 0x8000000000000000 0 = true := by decide

/-- the entries of the produced message: one per written field, in field order -/
theorem mem_toWireFields (S : Schema) (sd : SDesc) (id : Nat) (tv : TVal) :
    ∀ (fs : List Field) (xs : List Val),
    (id, tv) ∈ toWireFields S sd fs xs ↔
      ∃ p ∈ fs.zip xs, fieldWritten sd p.1 p.2 = true ∧ id = p.1.id ∧ tv = toWire S p.1.ty p.2
  | [], _ => by simp [toWireFields]
  | _ :: _, [] => by simp [toWireFields]
  | f :: fr, x :: xr => by
    have ih := mem_toWireFields S sd id tv fr xr
    by_cases hw : fieldWritten sd f x = true
    · simp only [toWireFields, hw, ↓reduceIte, List.mem_cons, Prod.mk.injEq, ih, List.zip_cons_cons]
      constructor
      · rintro (⟨h1, h2⟩ | ⟨p, hp, h⟩)
        · exact ⟨(f, x), Or.inl rfl, hw, h1, h2⟩
        · exact ⟨p, Or.inr hp, h⟩
      · rintro ⟨p, hp | hp, h⟩
        · subst hp; exact Or.inl ⟨h.2.1, h.2.2⟩
        · exact Or.inr ⟨p, hp, h⟩
    · have hw' : fieldWritten sd f x = false := by simpa using hw
      simp only [toWireFields, hw', Bool.false_eq_true, ↓reduceIte, ih, List.zip_cons_cons, List.mem_cons]
      constructor
      · rintro ⟨p, hp, h⟩; exact ⟨p, Or.inr hp, h⟩
      · rintro ⟨p, hp | hp, h⟩
        · subst hp; rw [hw'] at h; cases h.1
        · exact ⟨p, hp, h⟩

/-- with distinct ids: the message carries a header for field `f` exactly when `f` is written -/
theorem header_present_iff (S : Schema) (sd : SDesc) (fs : List Field) (xs : List Val)
    (hpw : fs.Pairwise (fun a b => a.id ≠ b.id)) (f : Field) (x : Val) (hm : (f, x) ∈ fs.zip xs) :
    (∃ tv, (f.id, tv) ∈ toWireFields S sd fs xs) ↔ fieldWritten sd f x = true := by
  constructor
  · rintro ⟨tv, h⟩
    obtain ⟨p, hp, hw, hid, _⟩ := (mem_toWireFields S sd f.id tv fs xs).1 h
    -- same id, both in fs: same position, hence the same pair
    have : p = (f, x) := by
      clear h
      induction fs generalizing xs with
      | nil => simp at hm
      | cons g fr ih =>
        cases xs with
        | nil => simp at hm
        | cons y xr =>
          simp only [List.zip_cons_cons, List.mem_cons] at hm hp
          have hpc := List.pairwise_cons.1 hpw
          rcases hm with hm | hm <;> rcases hp with hp | hp
          · rw [hp, hm]
          · exfalso
            have hg : g = f := by cases hm; rfl
            have := hpc.1 p.1 (List.of_mem_zip hp).1
            rw [hg] at this
            exact this hid
          · exfalso
            have hg : g = p.1 := by rw [hp]
            have := hpc.1 f (List.of_mem_zip hm).1
            rw [hg] at this
            exact this hid.symm
          · exact ih xr hpc.2 hm hp
    rw [this] at hw
    exact hw
  · intro hw
    exact ⟨toWire S f.ty x, (mem_toWireFields S sd f.id _ fs xs).2 ⟨(f, x), hm, hw, rfl, rfl⟩⟩

/-! ### decoder side -/

/-- the top-level destination is used as it is -/
theorem top_level_not_reinitialised (P : Params) (S : Schema) (sid : Nat) (fs : List (Nat × TVal))
    (trailing : Nat) (dest : Val) :
    readMessage P S sid fs trailing dest =
      readStruct P S ((ser (.strct fs)).length + trailing) P.maxDepth sid fs trailing dest := rfl

/-- every nested struct is given its declared defaults before it is read into -/
theorem nested_struct_initialised (P : Params) (S : Schema) (total f sid : Nat) (F : List (Nat × TVal))
    (tail : Nat) (vs : List Val) (hh : Bytes) :
    readVal P S total (f + 1) (.strct sid) (.strct F) tail (.st vs hh) =
      readStruct P S total f sid F tail (initDest S sid (.st vs hh)) :=
  readVal_struct P S total f sid F tail vs hh

/-- `InitDefault()` assigns exactly the fields it declares, leaving the others as they were -/
theorem applyInit_slot : ∀ (fs : List Field) (vs : List Val) (j : Nat) (f : Field) (v : Val),
    fs[j]? = some f → vs[j]? = some v →
    (applyInit fs vs)[j]? = some (if f.assigned then f.dflt.getD v else v)
  | [], _, _, _, _, h, _ => by simp at h
  | _ :: _, [], _, _, _, _, h => by simp at h
  | g :: fr, w :: vr, 0, f, v, hf, hv => by
    simp only [List.getElem?_cons_zero, Option.some.injEq] at hf hv
    subst hf; subst hv
    simp [applyInit]
  | g :: fr, w :: vr, j + 1, f, v, hf, hv => by
    simp only [List.getElem?_cons_succ] at hf hv
    simp only [applyInit, List.getElem?_cons_succ]
    exact applyInit_slot fr vr j f v hf hv

theorem readStruct_ok_inv (P : Params) (S : Schema) (total f sid : Nat) (F : List (Nat × TVal)) (tail : Nat)
    (vs : List Val) (h : Bytes) (w : Val)
    (hok : readStruct P S total (f + 1) sid F tail (.st vs h) = .ok w) :
    ∃ st', readFields P S total f (S.get sid) F (tail + 1) { fs := vs } = .ok st' ∧
      ∃ h2, w = .st st'.fs h2 := by
  rw [readStruct] at hok
  cases hl : readFields P S total f (S.get sid) F (tail + 1) { fs := vs } with
  | ok st' =>
    simp only [hl] at hok
    split at hok
    · cases hok
    · simp only [Outcome.ok.injEq] at hok
      exact ⟨st', rfl, _, hok.symm⟩
  | err e => simp [hl] at hok
  | panic p => simp [hl] at hok

/-- fields absent from the message read as the (initialised) destination had them -/
theorem absent_fields_keep_destination (P : Params) (S : Schema) (total f sid : Nat) (F : List (Nat × TVal))
    (tail : Nat) (vs out : List Val) (h h2 : Bytes)
    (hok : readStruct P S total (f + 1) sid F tail (.st vs h) = .ok (.st out h2))
    (j : Nat) (hj : j ∉ writtenIxs (S.get sid) F) : out.getD j default = vs.getD j default := by
  obtain ⟨st', hl, h3, hw⟩ := readStruct_ok_inv P S total f sid F tail vs h _ hok
  cases hw
  exact untouched P S total f (S.get sid) F (tail + 1) vs st' hl j hj

/-! ### optional pointers -/

theorem readField_ok_ptr (P : Params) (S : Schema) (total fuel : Nat) (f : Field) (v : TVal) (tail : Nat)
    (slot x : Val) (h : readField P S total fuel f v tail slot = .ok x) (hp : f.ty.isPtr = true) :
    ∃ w, x = .ptr w := by
  rw [readField] at h
  have key : ∀ o : Outcome Val, o.mapv (wrapPtr f.ty) = .ok x → ∃ w, x = .ptr w := by
    intro o ho
    cases o with
    | ok a => simp only [Outcome.mapv, wrapPtr, hp, ↓reduceIte, Outcome.ok.injEq] at ho; exact ⟨a, ho.symm⟩
    | err e => cases ho
    | panic p => cases ho
  split at h
  · exact key _ h
  · split at h
    · exact key _ h
    · exact key _ h

theorem writtenIxs_mem (sd : SDesc) (ix : Nat) : ∀ r : List (Nat × TVal), ix ∈ writtenIxs sd r →
    ∃ id' v' f', (id', v') ∈ r ∧ lookupKnown sd id' v'.tag = some (ix, f')
  | [], h => by simp [writtenIxs] at h
  | (i1, v1) :: r, h => by
    simp only [writtenIxs, List.mem_append] at h
    rcases h with hl | hl
    · cases hq : lookupKnown sd i1 v1.tag with
      | none => simp [hq] at hl
      | some pq =>
        obtain ⟨ixq, fq⟩ := pq
        simp only [hq, List.mem_singleton] at hl
        subst hl
        exact ⟨i1, v1, fq, List.mem_cons_self .., hq⟩
    · obtain ⟨a, b, c, d, e⟩ := writtenIxs_mem sd ix r hl
      exact ⟨a, b, c, List.mem_cons_of_mem _ d, e⟩

/-- the index determines the field -/
theorem lookupKnown_ix_unique (sd : SDesc) (id id' t t' ix : Nat) (f f' : Field)
    (hk : lookupKnown sd id t = some (ix, f)) (hk' : lookupKnown sd id' t' = some (ix, f')) : f' = f := by
  unfold lookupKnown at hk hk'
  cases h1 : findField sd.fields id 0 with
  | none => simp [h1] at hk
  | some p1 =>
    cases h2 : findField sd.fields id' 0 with
    | none => simp [h2] at hk'
    | some p2 =>
      obtain ⟨a1, g1⟩ := p1
      obtain ⟨a2, g2⟩ := p2
      simp only [h1] at hk
      simp only [h2] at hk'
      split at hk
      · split at hk'
        · simp only [Option.some.injEq, Prod.mk.injEq] at hk hk'
          obtain ⟨rfl, rfl⟩ := hk
          obtain ⟨rfl, rfl⟩ := hk'
          have s1 := (findField_sound sd.fields id 0 _ _ h1).1
          have s2 := (findField_sound sd.fields id' 0 _ _ h2).1
          simp only [Nat.sub_zero] at s1 s2
          rw [s1] at s2
          exact (Option.some.inj s2).symm
        · cases hk'
      · cases hk

/-- after the field loop, every pointer field the message carried (with its declared wire type)
    holds a non-nil pointer -/
theorem carried_ptr_nonnil (P : Params) (S : Schema) (total fuel : Nat) (sd : SDesc) :
    ∀ (fs : List (Nat × TVal)) (tail : Nat) (st st' : LoopSt),
      readFields P S total fuel sd fs tail st = .ok st' →
      ∀ id v ix f, (id, v) ∈ fs → lookupKnown sd id v.tag = some (ix, f) → f.ty.isPtr = true →
        ix < st.fs.length → ∃ w, st'.fs.getD ix default = .ptr w
  | [], _, _, _, _, _, _, _, _, hm, _, _, _ => by cases hm
  | (id0, v0) :: r, tail, st, st', h, id, v, ix, f, hm, hk, hp, hlt => by
    rw [readFields] at h
    by_cases hin : (id, v) ∈ r
    · -- a later occurrence decides
      cases hk0 : lookupKnown sd id0 v0.tag with
      | none =>
        simp only [hk0] at h
        split at h
        · cases h
        · exact carried_ptr_nonnil P S total fuel sd r tail _ st' h id v ix f hin hk hp
            (by cases sd.hasHolder <;> simpa using hlt)
      | some p0 =>
        obtain ⟨ix0, f0⟩ := p0
        simp only [hk0] at h
        split at h
        · exact carried_ptr_nonnil P S total fuel sd r tail _ st' h id v ix f hin hk hp (by simpa using hlt)
        · cases h
        · cases h
    · have hhead : (id, v) = (id0, v0) := by
        rcases List.mem_cons.1 hm with h' | h'
        · exact h'
        · exact absurd h' hin
      simp only [Prod.mk.injEq] at hhead
      obtain ⟨h1, h2⟩ := hhead
      subst h1; subst h2
      simp only [hk] at h
      split at h
      · rename_i x hx
        obtain ⟨w, hw⟩ := readField_ok_ptr P S total fuel f v _ _ x hx hp
        by_cases hlater : ix ∈ writtenIxs sd r
        · -- overwritten by a later occurrence of the same field: still a pointer
          obtain ⟨id', v', f', hm', hk'⟩ := writtenIxs_mem sd ix r hlater
          have hf' := lookupKnown_ix_unique sd id id' _ _ ix f f' hk hk'
          subst hf'
          exact carried_ptr_nonnil P S total fuel sd r tail _ st' h id' v' ix f' hm' hk' hp (by simpa using hlt)
        · have hu := (readFields_spec P S total fuel sd r tail _ st' h).2.2.1 ix hlater
          rw [hu]
          simp only [List.getD_eq_getElem?_getD]
          rw [List.getElem?_set_self hlt]
          exact ⟨w, by simpa using hw⟩
      · cases h
      · cases h

end Frugal
