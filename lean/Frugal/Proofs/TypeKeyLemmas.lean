/-
  TypeKeyLemmas.lean — the key of the type-node cache is faithful, so a lookup returns the node of its
  own argument whatever was looked up before.
-/
import Frugal.TypeKey
set_option linter.unusedSimpArgs false
set_option linter.unusedVariables false
namespace Frugal

/-- among annotations of one Go type the text is a prefix code: if one text followed by anything equals
    another followed by anything, the annotations and the rests are equal -/
theorem tyChars_prefix_free (nm : Nat → List Char) : ∀ (a b : Ty) (r1 r2 : List Char),
    a.shape = b.shape → tyChars nm a ++ r1 = tyChars nm b ++ r2 → a = b ∧ r1 = r2
  | .base k, b, r1, r2, hs, h => by
    cases b with
    | base k' =>
      simp only [Ty.shape, Shape.k.injEq] at hs
      cases k <;> cases k' <;> simp [Kind.goKind] at hs <;>
        simp [tyChars, Kind.chars] at h <;> first | exact ⟨rfl, h⟩ | exact absurd h (by decide)
    | _ => simp [Ty.shape] at hs
  | .strct sid, b, r1, r2, hs, h => by
    cases b with
    | strct sid' =>
      simp only [Ty.shape, Shape.strct.injEq] at hs
      subst hs
      simp only [tyChars] at h
      exact ⟨rfl, List.append_cancel_left h⟩
    | _ => simp [Ty.shape] at hs
  | .ptr e, b, r1, r2, hs, h => by
    cases b with
    | ptr e' =>
      simp only [Ty.shape, Shape.ptr.injEq] at hs
      simp only [tyChars, List.append_assoc] at h
      have h' := List.append_cancel_left h
      obtain ⟨rfl, hr⟩ := tyChars_prefix_free nm e e' r1 r2 hs h'
      exact ⟨rfl, hr⟩
    | _ => simp [Ty.shape] at hs
  | .list s e, b, r1, r2, hs, h => by
    cases b with
    | list s' e' =>
      simp only [Ty.shape, Shape.slice.injEq] at hs
      cases s <;> cases s' <;> simp only [tyChars, List.append_assoc] at h
      · have h' := List.append_cancel_left h
        obtain ⟨rfl, hr⟩ := tyChars_prefix_free nm e e' _ _ hs h'
        exact ⟨rfl, List.append_cancel_left hr⟩
      · simp at h
      · simp at h
      · have h' := List.append_cancel_left h
        obtain ⟨rfl, hr⟩ := tyChars_prefix_free nm e e' _ _ hs h'
        exact ⟨rfl, List.append_cancel_left hr⟩
    | _ => simp [Ty.shape] at hs
  | .map k v, b, r1, r2, hs, h => by
    cases b with
    | map k' v' =>
      simp only [Ty.shape, Shape.map.injEq] at hs
      simp only [tyChars, List.append_assoc] at h
      have h' := List.append_cancel_left h
      obtain ⟨rfl, hr⟩ := tyChars_prefix_free nm k k' _ _ hs.1 h'
      have h'' := List.append_cancel_left hr
      obtain ⟨rfl, hr2⟩ := tyChars_prefix_free nm v v' _ _ hs.2 h''
      exact ⟨rfl, List.append_cancel_left hr2⟩
    | _ => simp [Ty.shape] at hs

/-- the cache key determines the annotation -/
theorem nodeKey_injective (nm : Nat → List Char) (a b : Ty) (h : nodeKey nm a = nodeKey nm b) : a = b := by
  simp only [nodeKey, Prod.mk.injEq] at h
  have := tyChars_prefix_free nm a b [] [] h.2 (by simpa using h.1)
  exact this.1

/-- invariant of the cache: every entry is stored under the key of the annotation it was built from -/
def NodeCache.Inv (nm : Nat → List Char) (c : NodeCache) : Prop := ∀ p ∈ c, p.1 = nodeKey nm p.2

theorem NodeCache.find_mem (c : NodeCache) (k : List Char × Shape) (y : Ty) (h : c.find k = some y) :
    (k, y) ∈ c := by
  induction c with
  | nil => simp [NodeCache.find] at h
  | cons p r ih =>
    obtain ⟨k', y'⟩ := p
    simp only [NodeCache.find] at h
    split at h
    · rename_i hk
      simp only [Option.some.injEq] at h
      subst h; subst hk
      exact List.mem_cons_self ..
    · exact List.mem_cons_of_mem _ (ih h)

/-- one lookup: returns the node of its own argument and keeps the invariant -/
theorem getNode_correct (nm : Nat → List Char) (c : NodeCache) (x : Ty) (hc : c.Inv nm) :
    (getNode nm c x).1 = x ∧ (getNode nm c x).2.Inv nm := by
  unfold getNode
  cases hf : c.find (nodeKey nm x) with
  | some y =>
    have hm := NodeCache.find_mem c _ y hf
    have := hc _ hm
    simp only at this
    exact ⟨(nodeKey_injective nm x y this).symm, hc⟩
  | none =>
    refine ⟨rfl, ?_⟩
    intro p hp
    rcases List.mem_cons.1 hp with rfl | hp
    · rfl
    · exact hc p hp

/-- any history of lookups from the empty cache: every lookup returns the node of its own argument -/
theorem getNode_history (nm : Nat → List Char) : ∀ (xs : List Ty) (c : NodeCache), c.Inv nm →
    (xs.foldl (fun c x => (getNode nm c x).2) c).Inv nm
  | [], c, hc => hc
  | x :: r, c, hc => getNode_history nm r _ (getNode_correct nm c x hc).2

/-- with the text dropped for leaf nodes the key no longer determines the annotation: a named int64
    annotated as an enum and as `i64` share a key, and the second lookup returns the first one's node -/
theorem leafless_key_collides (nm : Nat → List Char) :
    nodeKeyLeafless nm (.base .enum) = nodeKeyLeafless nm (.base .i64) ∧ (Ty.base .enum) ≠ (.base .i64) := by
  refine ⟨rfl, by simp⟩
end Frugal
