/-
  RoundTrip.lean — C01, composition of C02 and C03: decoding what the encoder wrote consumes
  exactly the encoded length and yields what the reference reader reads from the value's
  denotation.
-/
import Frugal.Proofs.ToWire
import Frugal.Proofs.DecodeRefine
import Frugal.Proofs.ReadNorm
set_option linter.unusedSimpArgs false
namespace Frugal

/-- the message a struct value denotes -/
def messageOf (S : Schema) (sid : Nat) (v : Val) : List (Nat × TVal) :=
  match v with
  | .st xs _ => toWireFields S (S.get sid) (S.get sid).fields xs
  | _ => []

theorem toWire_struct (S : Schema) (sid : Nat) (xs : List Val) (h : Bytes) :
    toWire S (.strct sid) (.st xs h) = .strct (messageOf S sid (.st xs h)) := by
  simp [toWire, messageOf]

/-- Encode, then decode (into any destination): the decoder consumes exactly the bytes written and
    returns what the reference reader reads from the denotation of the value. -/
theorem roundtrip_via_reader {P : Params} (hP : P.valid = true) (S : Schema) (hS : S.ok = true) (sid : Nat)
    (xs : List Val) (dest : Val) (ht : hasTy S (.strct sid) (.st xs []) = true)
    (hn : noHolderList xs = true) (hf : sizesFitList xs = true) :
    decodeM P S sid (appendM P S sid (.st xs [])) dest =
      (readMessage P S sid (messageOf S sid (.st xs [])) 0 dest).mapv
        (·, (appendM P S sid (.st xs [])).length) := by
  have hnh : noHolder (.st xs []) = true := by simp [noHolder, hn]
  have hnil : nilOK (.strct sid) (.st xs []) = true := by simp [nilOK, Ty.isPtr]
  have e1 : appendM P S sid (.st xs []) = refEnc S (.strct sid) (.st xs []) :=
    appendAny_eq hP S hS _ (.strct sid) rfl ht
  have e2 := refEnc_eq_ser S hS (.st xs []) (.strct sid) rfl hnil ht hnh
  have hwf := toWire_wf S hS (.st xs []) (.strct sid) rfl hnil ht (by simp [sizesFit, hf])
  rw [toWire_struct] at e2 hwf
  simp only [wf] at hwf
  rw [e1, e2]
  have := decodeM_refines hP S hS sid (messageOf S sid (.st xs [])) [] dest hwf
  simp only [List.append_nil, List.length_nil] at this
  exact this


/-- the reference reader on the denotation of a value returns its normal form -/
theorem readMessage_norm {P : Params} (S : Schema) (hS : S.ok = true) (hside : S.rtSide) (sid : Nat)
    (xs : List Val) (h : Bytes) (ds : List Val) (h' : Bytes) (trailing : Nat)
    (ht : hasTy S (.strct sid) (.st xs h) = true) (hdest : hasTy S (.strct sid) (.st ds h') = true)
    (hr : rtOK S (.strct sid) (.st xs h) = true)
    (hd : 2 * depth (toWire S (.strct sid) (.st xs h)) ≤ P.maxDepth) :
    readMessage P S sid (messageOf S sid (.st xs h)) trailing (.st ds h') =
      .ok (normTop S sid (.st xs h) (.st ds h')) := by
  unfold readMessage
  simp only [hasTy, Bool.and_eq_true] at ht hdest
  simp only [rtOK] at hr
  simp only [toWire, depth] at hd
  obtain ⟨f, hf⟩ : ∃ f, P.maxDepth = f + 1 := ⟨P.maxDepth - 1, by omega⟩
  rw [hf]
  have hsd := sd_ok hS sid
  simp only [SDesc.ok, List.all_eq_true] at hsd
  simp only [messageOf]
  generalize (ser (.strct (toWireFields S (S.get sid) (S.get sid).fields xs))).length + trailing = total
  have hloop := readFields_norm P S total hS hside xs (S.get sid) (S.get sid).fields [] [] ds [] f (trailing + 1)
    rfl (hside.distinct sid) (fun g hg => ⟨hsd g hg, hside.noNocopy sid g hg⟩) rfl ht.2 hdest.2 hr (by omega)
  simp only [List.nil_append] at hloop
  have hreq := seenOf_required S (S.get sid) (S.get sid).fields xs [] ht.2
  rw [readStruct_done P S total f sid trailing _ ds h' _ _ _ rfl hloop hreq]
  simp only [normTop]

/-- C01: encode, then decode into a destination of the type: succeeds, consumes exactly the encoded
    length, and yields the value's normal form. -/
theorem roundtrip_full {P : Params} (hP : P.valid = true) (S : Schema) (hS : S.ok = true) (hside : S.rtSide)
    (sid : Nat) (xs ds : List Val) (h' : Bytes)
    (ht : hasTy S (.strct sid) (.st xs []) = true) (hdest : hasTy S (.strct sid) (.st ds h') = true)
    (hn : noHolderList xs = true) (hf : sizesFitList xs = true)
    (hr : rtOK S (.strct sid) (.st xs []) = true)
    (hd : 2 * depth (toWire S (.strct sid) (.st xs [])) ≤ P.maxDepth) :
    decodeM P S sid (appendM P S sid (.st xs [])) (.st ds h') =
      .ok (normTop S sid (.st xs []) (.st ds h'), (appendM P S sid (.st xs [])).length) := by
  rw [roundtrip_via_reader hP S hS sid xs (.st ds h') ht hn hf]
  rw [readMessage_norm S hS hside sid xs [] ds h' 0 ht hdest hr hd]
  rfl

end Frugal
