/-
  RoundTrip.lean — C01, composition of C02 and C03: decoding what the encoder wrote consumes
  exactly the encoded length and yields what the reference reader reads from the value's
  denotation.
-/
import Frugal.Proofs.ToWire
import Frugal.Proofs.DecodeRefine
set_option linter.unusedSimpArgs false
namespace Frugal

/-- the message a struct value denotes -/
def messageOf (S : Schema) (sid : Nat) (v : Val) : List (Nat × TVal) :=
  match v with
  | .st xs _ => toWireFields S (S.get sid) (S.get sid).fields xs
  | _ => []

theorem toWire_struct (S : Schema) (sid : Nat) (xs : List Val) (h : Bytes) :
    toWire S (.strct sid) (.st xs h) = .strct (messageOf S sid (.st xs h)) := by
  simp [toWire, messageOf]

/-- Encode, then decode (into any destination): the decoder consumes exactly the bytes written and
    returns what the reference reader reads from the denotation of the value. -/
theorem roundtrip_via_reader {P : Params} (hP : P.valid = true) (S : Schema) (hS : S.ok = true) (sid : Nat)
    (xs : List Val) (dest : Val) (ht : hasTy S (.strct sid) (.st xs []) = true)
    (hn : noHolderList xs = true) (hf : sizesFitList xs = true) :
    decodeM P S sid (appendM P S sid (.st xs [])) dest =
      (readMessage P S sid (messageOf S sid (.st xs [])) 0 dest).mapv
        (·, (appendM P S sid (.st xs [])).length) := by
  have hnh : noHolder (.st xs []) = true := by simp [noHolder, hn]
  have hnil : nilOK (.strct sid) (.st xs []) = true := by simp [nilOK, Ty.isPtr]
  have e1 : appendM P S sid (.st xs []) = refEnc S (.strct sid) (.st xs []) :=
    appendAny_eq hP S hS _ (.strct sid) rfl ht
  have e2 := refEnc_eq_ser S hS (.st xs []) (.strct sid) rfl hnil ht hnh
  have hwf := toWire_wf S hS (.st xs []) (.strct sid) rfl hnil ht (by simp [sizesFit, hf])
  rw [toWire_struct] at e2 hwf
  simp only [wf] at hwf
  rw [e1, e2]
  have := decodeM_refines hP S hS sid (messageOf S sid (.st xs [])) [] dest hwf
  simp only [List.append_nil, List.length_nil] at this
  exact this

end Frugal
