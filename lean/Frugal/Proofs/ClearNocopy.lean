/-
  ClearNocopy.lean — `nocopy` only changes *where the bytes of a string live*: forgetting the
  provenance of views (`erase`), the reference reader for a schema S computes what the reader for
  `S.clearNC` (the same schema without the option) computes.  Everything else about S and S.clearNC
  coincides (typing, denotation, zero values, written-field predicate), so C01 carries over to
  schemas with `nocopy` fields.
-/
import Frugal.Proofs.ViewsLemmas
import Frugal.Proofs.DecodeRefine
set_option linter.unusedSimpArgs false
set_option linter.unusedVariables false
namespace Frugal

def Field.clearNC (f : Field) : Field := { f with nocopy := false }
def SDesc.clearNC (sd : SDesc) : SDesc := { sd with fields := sd.fields.map Field.clearNC }
def Schema.clearNC (S : Schema) : Schema := S.map SDesc.clearNC

@[simp] theorem clearNC_length (S : Schema) : S.clearNC.length = S.length := by simp [Schema.clearNC]

theorem get_clearNC (S : Schema) (sid : Nat) : S.clearNC.get sid = (S.get sid).clearNC := by
  simp only [Schema.get, Schema.clearNC, List.getD_eq_getElem?_getD, List.getElem?_map]
  cases S[sid]? <;> rfl

@[simp] theorem clearNC_ty (f : Field) : f.clearNC.ty = f.ty := rfl
@[simp] theorem clearNC_id (f : Field) : f.clearNC.id = f.id := rfl
@[simp] theorem clearNC_req (f : Field) : f.clearNC.req = f.req := rfl
@[simp] theorem clearNC_dflt (f : Field) : f.clearNC.dflt = f.dflt := rfl
@[simp] theorem clearNC_assigned (f : Field) : f.clearNC.assigned = f.assigned := rfl
@[simp] theorem clearNC_nocopy (f : Field) : f.clearNC.nocopy = false := rfl
@[simp] theorem clearNC_name (f : Field) : f.clearNC.name = f.name := rfl
@[simp] theorem sd_clearNC_hasInit (sd : SDesc) : sd.clearNC.hasInit = sd.hasInit := rfl
@[simp] theorem sd_clearNC_hasHolder (sd : SDesc) : sd.clearNC.hasHolder = sd.hasHolder := rfl
@[simp] theorem sd_clearNC_fields (sd : SDesc) : sd.clearNC.fields = sd.fields.map Field.clearNC := rfl

theorem zeroVal_clearNC (S : Schema) : ∀ (n : Nat) (t : Ty), zeroVal S.clearNC n t = zeroVal S n t
  | 0, t => by cases t with
    | base k => cases k <;> rfl
    | _ => rfl
  | n + 1, t => by
    cases t with
    | base k => cases k <;> rfl
    | strct sid =>
      simp only [zeroVal, get_clearNC, sd_clearNC_fields, List.map_map]
      congr 1
      apply List.map_congr_left
      intro f _
      simp [zeroVal_clearNC S n]
    | _ => rfl

theorem fieldWritten_clearNC (sd : SDesc) (f : Field) (x : Val) :
    fieldWritten sd.clearNC f.clearNC x = fieldWritten sd f x := by
  simp [fieldWritten, Field.default]

theorem applyInit_clearNC : ∀ (fs : List Field) (vs : List Val),
    applyInit (fs.map Field.clearNC) vs = applyInit fs vs
  | [], vs => by simp [applyInit]
  | f :: fr, [] => by simp [applyInit]
  | f :: fr, v :: vr => by
    simp only [List.map_cons, applyInit, clearNC_assigned, clearNC_dflt, applyInit_clearNC fr vr]
    rfl

theorem findField_clearNC : ∀ (fs : List Field) (id ix : Nat),
    findField (fs.map Field.clearNC) id ix = (findField fs id ix).map fun p => (p.1, p.2.clearNC)
  | [], _, _ => rfl
  | f :: fr, id, ix => by
    simp only [List.map_cons, findField, clearNC_id]
    by_cases h : f.id = id
    · simp [h]
    · simp only [h, ↓reduceIte]
      exact findField_clearNC fr id (ix + 1)

theorem lookupKnown_clearNC (sd : SDesc) (id tag : Nat) :
    lookupKnown sd.clearNC id tag = (lookupKnown sd id tag).map fun p => (p.1, p.2.clearNC) := by
  unfold lookupKnown
  rw [sd_clearNC_fields, findField_clearNC]
  cases findField sd.fields id 0 with
  | none => rfl
  | some p =>
    obtain ⟨ix, f⟩ := p
    simp only [Option.map_some, clearNC_ty, Ty.wire]
    by_cases h : f.ty.tt.wire = tag <;> simp [h]

theorem firstMissing_clearNC : ∀ (fs : List Field) (seen : List Nat),
    firstMissing (fs.map Field.clearNC) seen = (firstMissing fs seen).map Field.clearNC
  | [], _ => rfl
  | f :: fr, seen => by
    have ih := firstMissing_clearNC fr seen
    simp only [List.map_cons, firstMissing, clearNC_req, clearNC_id, ih]
    split <;> rfl

/-! ### erase -/

mutual
theorem erase_plain : ∀ v : Val, plain v = true → erase v = v
  | .sc _, _ | .str _, _ | .bin _ _, _ | .nilp, _ => by simp [erase]
  | .vstr _ _, h | .vbin _ _, h => by simp [plain] at h
  | .ptr v, h => by simp only [plain] at h; simp only [erase, erase_plain v h]
  | .lst n xs, h => by simp only [plain] at h; simp only [erase, eraseList_plain xs h]
  | .mp n es, h => by simp only [plain] at h; simp only [erase, eraseEntries_plain es h]
  | .st fs hh, h => by simp only [plain] at h; simp only [erase, eraseList_plain fs h]
theorem eraseList_plain : ∀ xs : List Val, plainList xs = true → eraseList xs = xs
  | [], _ => rfl
  | x :: r, h => by
    simp only [plainList, Bool.and_eq_true] at h
    simp only [eraseList, erase_plain x h.1, eraseList_plain r h.2]
theorem eraseEntries_plain : ∀ es : List (Val × Val), plainEntries es = true → eraseEntries es = es
  | [], _ => rfl
  | (a, b) :: r, h => by
    simp only [plainEntries, Bool.and_eq_true] at h
    simp only [eraseEntries, erase_plain a h.1.1, erase_plain b h.1.2, eraseEntries_plain r h.2]
end


theorem erase_wrapPtr (t : Ty) (w : Val) : erase (wrapPtr t w) = wrapPtr t (erase w) := by
  unfold wrapPtr; split <;> simp [erase]

theorem erase_zeroVal (S : Schema) (n : Nat) (t : Ty) : erase (zeroVal S n t) = zeroVal S n t :=
  erase_plain _ (zeroVal_plain S n t)

theorem eraseList_length : ∀ xs : List Val, (eraseList xs).length = xs.length
  | [] => rfl
  | x :: r => by simp [eraseList, eraseList_length r]

theorem eraseList_getD : ∀ (xs : List Val) (i : Nat), (eraseList xs).getD i default = erase (xs.getD i default)
  | [], i => by simp [eraseList, List.getD_eq_getElem?_getD]; rfl
  | x :: r, 0 => by simp [eraseList, List.getD_eq_getElem?_getD]
  | x :: r, i + 1 => by
    have := eraseList_getD r i
    simpa [eraseList, List.getD_eq_getElem?_getD] using this

theorem eraseList_set : ∀ (xs : List Val) (i : Nat) (x : Val),
    eraseList (xs.set i x) = (eraseList xs).set i (erase x)
  | [], _, _ => rfl
  | y :: r, 0, x => by simp [eraseList]
  | y :: r, i + 1, x => by simp [eraseList, eraseList_set r i x]

/-- a value that is not itself a view (it may contain views further down) -/
def notView : Val → Bool
  | .vstr _ _ => false
  | .vbin _ _ => false
  | _ => true

theorem keyEq_erase (kt : Ty) (a k : Val) (ha : notView a = true) (hk : notView k = true) :
    keyEq kt (erase a) (erase k) = keyEq kt a k := by
  cases a <;> cases k <;> simp [notView] at ha hk <;> simp [keyEq, erase]

theorem notView_erase (a : Val) (h : notView a = true) : notView (erase a) = true := by
  cases a <;> simp [notView] at h <;> simp [erase, notView]

theorem mapInsert_erase (kt : Ty) : ∀ (acc : List (Val × Val)) (k v : Val),
    (∀ p ∈ acc, notView p.1 = true) → notView k = true →
    eraseEntries (mapInsert kt acc k v) = mapInsert kt (eraseEntries acc) (erase k) (erase v)
  | [], k, v, _, _ => by simp [mapInsert, eraseEntries]
  | (a, b) :: r, k, v, hacc, hk => by
    have ha := hacc (a, b) (List.mem_cons_self ..)
    simp only at ha
    simp only [mapInsert, eraseEntries, keyEq_erase kt a k ha hk]
    split
    · simp [eraseEntries]
    · simp only [eraseEntries]
      rw [mapInsert_erase kt r k v (fun p hp => hacc p (List.mem_cons_of_mem _ hp)) hk]

theorem mapInsert_keys_notView (kt : Ty) : ∀ (acc : List (Val × Val)) (k v : Val),
    (∀ p ∈ acc, notView p.1 = true) → notView k = true → ∀ p ∈ mapInsert kt acc k v, notView p.1 = true
  | [], k, v, _, hk, p, hp => by
    simp only [mapInsert, List.mem_singleton] at hp
    subst hp; exact hk
  | (a, b) :: r, k, v, hacc, hk, p, hp => by
    simp only [mapInsert] at hp
    split at hp
    · rcases List.mem_cons.1 hp with rfl | hp
      · exact hk
      · exact hacc p (List.mem_cons_of_mem _ hp)
    · rcases List.mem_cons.1 hp with rfl | hp
      · exact hacc _ (List.mem_cons_self ..)
      · exact mapInsert_keys_notView kt r k v (fun q hq => hacc q (List.mem_cons_of_mem _ hq)) hk p hp

theorem readFixed_erase (t : TT) (tv : TVal) (w : Val) (h : readFixed t tv = .ok w) :
    erase w = w ∧ notView w = true := by
  have hp := readFixed_plain t tv w h
  refine ⟨erase_plain w hp, ?_⟩
  cases w <;> simp [plain] at hp <;> rfl

theorem readStr_copy_erase (isBin : Bool) (total tail : Nat) (tv : TVal) (w : Val)
    (h : readStr isBin false total tail tv = .ok w) : erase w = w ∧ notView w = true := by
  have hp := readStr_copy_plain isBin total tail tv w h
  refine ⟨erase_plain w hp, ?_⟩
  cases w <;> simp [plain] at hp <;> rfl

/-- the nocopy read, with its provenance forgotten, is the copying read -/
theorem readStr_nocopy_erase (isBin : Bool) (total tail : Nat) (tv : TVal) (w' : Val)
    (h : readStr isBin false total tail tv = .ok w') :
    ∃ w, readStr isBin true total tail tv = .ok w ∧ erase w = w' := by
  cases tv <;> simp only [readStr] at h ⊢ <;> try cases h
  rename_i s
  split at h
  · rename_i hz
    simp only [hz, ↓reduceIte]
    exact ⟨_, rfl, by cases h; cases isBin <;> rfl⟩
  · rename_i hz
    simp only [hz, ↓reduceIte]
    refine ⟨_, rfl, ?_⟩
    cases h
    cases isBin <;> rfl


def eraseSt (st : LoopSt) : LoopSt := { st with fs := eraseList st.fs }

theorem eraseList_applyInit : ∀ (fs : List Field) (vs : List Val),
    (∀ f ∈ fs, ∀ d, f.dflt = some d → plain d = true) →
    eraseList (applyInit fs vs) = applyInit fs (eraseList vs)
  | [], vs, _ => by simp [applyInit]
  | f :: fr, [], _ => by simp [applyInit, eraseList]
  | f :: fr, v :: vr, hd => by
    have ih := eraseList_applyInit fr vr (fun g hg => hd g (List.mem_cons_of_mem _ hg))
    simp only [applyInit, eraseList, ih]
    congr 1
    by_cases ha : f.assigned = true
    · simp only [ha, ↓reduceIte]
      cases hdf : f.dflt with
      | none => rfl
      | some d => simp only [Option.getD_some]; exact erase_plain d (hd f (List.mem_cons_self ..) d hdf)
    · have : f.assigned = false := by simpa using ha
      simp only [this, Bool.false_eq_true, ↓reduceIte]

theorem tt_string_deref (t : Ty) (hok : t.ok = true) (h : t.tt = .string) :
    t.deref = .base .string ∨ t.deref = .base .binary := by
  cases t with
  | base k => cases k <;> simp [Ty.tt, Kind.tt] at h <;> simp [Ty.deref]
  | ptr e =>
    cases e with
    | base k => cases k <;> simp [Ty.tt, Kind.tt] at h <;> simp [Ty.deref]
    | ptr e' => simp [Ty.ok] at hok
    | strct s => simp [Ty.tt] at h
    | list s e' => cases s <;> simp [Ty.tt] at h
    | map k v => simp [Ty.tt] at h
  | strct s => simp [Ty.tt] at h
  | list s e' => cases s <;> simp [Ty.tt] at h
  | map k v => simp [Ty.tt] at h


section
variable (P : Params) (S : Schema) (total : Nat)

theorem freshTarget_clearNC (t : Ty) (slot : Val) :
    freshTarget S.clearNC t (erase slot) = erase (freshTarget S t slot) := by
  unfold freshTarget
  split
  · rw [clearNC_length, zeroVal_clearNC, erase_zeroVal]
  · rfl

theorem notView_wrapPtr (t : Ty) (w : Val) (h : notView w = true) : notView (wrapPtr t w) = true := by
  unfold wrapPtr; split
  · rfl
  · exact h

/-- one element / key / value -/
theorem readSlot_erase (fuel : Nat) (t : Ty) (x : TVal) (tail : Nat) (slot w' : Val)
    (hv : ∀ dest w', readVal P S.clearNC total fuel t.deref x tail (erase dest) = .ok w' →
      ∃ w, readVal P S total fuel t.deref x tail dest = .ok w ∧ erase w = w' ∧ notView w = true)
    (h : readSlot P S.clearNC total fuel t x tail (erase slot) = .ok w') :
    ∃ w, readSlot P S total fuel t x tail slot = .ok w ∧ erase w = w' ∧ notView w = true := by
  rw [readSlot] at h ⊢
  split at h
  · rename_i hfx
    simp only [hfx, ↓reduceIte]
    obtain ⟨w0, h0, rfl⟩ := mapv_ok_inv _ _ _ h
    obtain ⟨e1, e2⟩ := readFixed_erase _ _ _ h0
    exact ⟨wrapPtr t w0, by rw [h0]; rfl, by rw [erase_wrapPtr, e1], notView_wrapPtr t w0 e2⟩
  · rename_i hfx
    simp only [hfx, ↓reduceIte]
    obtain ⟨w0', h0, rfl⟩ := mapv_ok_inv _ _ _ h
    rw [freshTarget_clearNC] at h0
    obtain ⟨w0, hw0, e1, e2⟩ := hv _ _ h0
    exact ⟨wrapPtr t w0, by rw [hw0]; rfl, by rw [erase_wrapPtr, e1], notView_wrapPtr t w0 e2⟩

/-- one known field -/
theorem readField_erase (fuel : Nat) (f : Field) (v : TVal) (tail : Nat) (slot x' : Val)
    (hok : f.ty.ok = true) (hstr : f.nocopy = true → f.ty.tt = .string)
    (hv : ∀ dest w', readVal P S.clearNC total fuel f.ty.deref v tail (erase dest) = .ok w' →
      ∃ w, readVal P S total fuel f.ty.deref v tail dest = .ok w ∧ erase w = w' ∧ notView w = true)
    (h : readField P S.clearNC total fuel f.clearNC v tail (erase slot) = .ok x') :
    ∃ x, readField P S total fuel f v tail slot = .ok x ∧ erase x = x' := by
  rw [readField] at h ⊢
  simp only [clearNC_ty, clearNC_nocopy, Bool.false_eq_true, ↓reduceIte] at h
  split at h
  · rename_i hfx
    simp only [hfx, ↓reduceIte]
    obtain ⟨w0, h0, rfl⟩ := mapv_ok_inv _ _ _ h
    obtain ⟨e1, _⟩ := readFixed_erase _ _ _ h0
    exact ⟨wrapPtr f.ty w0, by rw [h0]; rfl, by rw [erase_wrapPtr, e1]⟩
  · rename_i hfx
    simp only [hfx, ↓reduceIte]
    obtain ⟨w0', h0, rfl⟩ := mapv_ok_inv _ _ _ h
    by_cases hnc : f.nocopy = true
    · simp only [hnc, ↓reduceIte]
      -- the copying reader of `S.clearNC` read a string here: forget where the bytes live
      have hcopy : ∃ k, f.ty.deref = .base k ∧ (Ty.base k).tt = .string := by
        rcases tt_string_deref f.ty hok (hstr hnc) with e | e
        · exact ⟨.string, e, rfl⟩
        · exact ⟨.binary, e, rfl⟩
      obtain ⟨k, hk, hks⟩ := hcopy
      rw [hk] at h0
      cases fuel with
      | zero => simp [readVal] at h0
      | succ fu =>
        rw [readVal] at h0
        have hsf : ¬ specFixed (Ty.base k).tt > 0 := by rw [hks]; decide
        simp only [hsf, ↓reduceIte, hks, beq_self_eq_true] at h0
        have hb : (Ty.base k).isBinary = (k == .binary) := by cases k <;> rfl
        obtain ⟨w, hw, e⟩ := readStr_nocopy_erase (k == .binary) total tail v w0' h0
        rw [hk, hb, hw]
        exact ⟨wrapPtr f.ty w, rfl, by rw [erase_wrapPtr, e]⟩
    · have hnc' : f.nocopy = false := by simpa using hnc
      simp only [hnc', Bool.false_eq_true, ↓reduceIte]
      rw [freshTarget_clearNC] at h0
      obtain ⟨w0, hw0, e1, _⟩ := hv _ _ h0
      exact ⟨wrapPtr f.ty w0, by rw [hw0]; rfl, by rw [erase_wrapPtr, e1]⟩

variable (hS : S.ok = true)
  (hdf : ∀ sid, ∀ f ∈ (S.get sid).fields, ∀ d, f.dflt = some d → plain d = true)
include hS hdf

mutual
theorem readVal_erase : ∀ (tv : TVal) (fuel : Nat) (t : Ty) (tail : Nat) (dest w' : Val),
    readVal P S.clearNC total fuel t tv tail (erase dest) = .ok w' →
    ∃ w, readVal P S total fuel t tv tail dest = .ok w ∧ erase w = w' ∧ notView w = true
  | tv, 0, t, tail, dest, w', h => by simp [readVal] at h
  | tv, fuel + 1, t, tail, dest, w', h => by
    by_cases hfx : specFixed t.tt > 0
    · have hr : ∀ (S0 : Schema) (d : Val), readVal P S0 total (fuel + 1) t tv tail d = readFixed t.tt tv := by
        intro S0 d
        cases t with
        | base k => rw [readVal]; simp only [hfx, ↓reduceIte]
        | ptr e => rw [readVal]; simp only [hfx, ↓reduceIte]
        | strct s => simp [Ty.tt, specFixed] at hfx
        | map k v => simp [Ty.tt, specFixed] at hfx
        | list s e => cases s <;> simp [Ty.tt, specFixed] at hfx
      rw [hr] at h ⊢
      obtain ⟨e1, e2⟩ := readFixed_erase _ _ _ h
      exact ⟨w', h, e1, e2⟩
    · cases t with
      | base k =>
        rw [readVal] at h ⊢; simp only [hfx, ↓reduceIte] at h ⊢
        split at h
        · rename_i hs
          simp only [hs, ↓reduceIte]
          obtain ⟨e1, e2⟩ := readStr_copy_erase _ _ _ _ _ h
          exact ⟨w', h, e1, e2⟩
        · cases h
      | ptr e => rw [readVal] at h; simp only [hfx, ↓reduceIte] at h; cases h
      | map kt vt =>
        cases tv with
        | map a b es =>
          rw [readVal] at h ⊢; simp only [hfx, ↓reduceIte] at h ⊢
          split at h
          · cases h
          · rename_i hm
            simp only [hm, ↓reduceIte]
            obtain ⟨es', h0, rfl⟩ := mapv_ok_inv _ _ _ h
            obtain ⟨es0, h1, e1⟩ := readEntries_erase es fuel kt vt tail [] es' (by simp) (by simpa [eraseEntries] using h0)
            exact ⟨.mp false es0, by rw [h1]; rfl, by simp [erase, e1], rfl⟩
        | _ => unfold readVal at h; simp only [hfx, ↓reduceIte] at h; cases h
      | list s et =>
        cases tv with
        | list a xs =>
          rw [readVal] at h ⊢; simp only [hfx, ↓reduceIte] at h ⊢
          split at h
          · cases h
          · rename_i hm
            simp only [hm, ↓reduceIte]
            split at h
            · rename_i hz
              simp only [hz, ↓reduceIte]
              cases h
              exact ⟨_, rfl, rfl, rfl⟩
            · rename_i hz
              simp only [hz, ↓reduceIte]
              obtain ⟨xs', h0, rfl⟩ := mapv_ok_inv _ _ _ h
              obtain ⟨xs0, h1, e1⟩ := readList_erase xs fuel et tail xs' h0
              exact ⟨.lst false xs0, by rw [h1]; rfl, by simp [erase, e1], rfl⟩
        | set a xs =>
          rw [readVal] at h ⊢; simp only [hfx, ↓reduceIte] at h ⊢
          split at h
          · cases h
          · rename_i hm
            simp only [hm, ↓reduceIte]
            split at h
            · rename_i hz
              simp only [hz, ↓reduceIte]
              cases h
              exact ⟨_, rfl, rfl, rfl⟩
            · rename_i hz
              simp only [hz, ↓reduceIte]
              obtain ⟨xs', h0, rfl⟩ := mapv_ok_inv _ _ _ h
              obtain ⟨xs0, h1, e1⟩ := readList_erase xs fuel et tail xs' h0
              exact ⟨.lst false xs0, by rw [h1]; rfl, by simp [erase, e1], rfl⟩
        | _ => unfold readVal at h; simp only [hfx, ↓reduceIte] at h; cases h
      | strct sid =>
        cases tv with
        | strct fs =>
          rw [readVal] at h ⊢; simp only [hfx, ↓reduceIte] at h ⊢
          cases fuel with
          | zero => cases dest <;> simp [erase, readStruct] at h
          | succ f =>
            cases dest with
            | st vs hh =>
              have hsdf := hdf sid
              simp only [erase, get_clearNC, sd_clearNC_hasInit, sd_clearNC_fields, applyInit_clearNC] at h
              have hd' : ∃ vs', (if (S.get sid).hasInit = true then Val.st (applyInit (S.get sid).fields vs) hh
                    else Val.st vs hh) = .st vs' hh ∧
                  (if (S.get sid).hasInit = true then Val.st (applyInit (S.get sid).fields (eraseList vs)) hh
                    else Val.st (eraseList vs) hh) = .st (eraseList vs') hh := by
                by_cases hi : (S.get sid).hasInit = true
                · refine ⟨applyInit (S.get sid).fields vs, by simp [hi], ?_⟩
                  simp only [hi, ↓reduceIte]
                  rw [eraseList_applyInit _ _ hsdf]
                · have hi' : (S.get sid).hasInit = false := by simpa using hi
                  exact ⟨vs, by simp [hi'], by simp [hi']⟩
              obtain ⟨vs', e1, e2⟩ := hd'
              simp only [e1]
              simp only [e2] at h
              rw [readStruct] at h ⊢
              rw [get_clearNC] at h
              split at h
              · rename_i st'' hl
                have hsd := sd_ok hS sid
                simp only [SDesc.ok, List.all_eq_true] at hsd
                obtain ⟨st', hl', est⟩ := readFields_erase fs f (S.get sid) (tail + 1) { fs := vs' } st''
                  (fun g hg => by
                    have := hsd g hg
                    simp only [Field.ok, Bool.and_eq_true, Bool.or_eq_true, Bool.not_eq_true', beq_iff_eq] at this
                    refine ⟨this.1.1.1, fun hn => ?_⟩
                    rcases this.1.2 with h' | h'
                    · rw [hn] at h'; cases h'
                    · exact h')
                  (by simpa [eraseSt] using hl)
                rw [hl']
                simp only
                rw [sd_clearNC_fields, firstMissing_clearNC] at h
                have hseen : st''.seen = st'.seen := by rw [← est]; rfl
                have hunk : st''.unk = st'.unk := by rw [← est]; rfl
                have hfs : st''.fs = eraseList st'.fs := by rw [← est]; rfl
                rw [hseen] at h
                cases hfm : firstMissing (S.get sid).fields st'.seen with
                | some g => rw [hfm] at h; simp at h
                | none =>
                  rw [hfm] at h
                  simp only [Option.map_none, sd_clearNC_hasHolder, Outcome.ok.injEq] at h
                  subst h
                  exact ⟨_, rfl, by simp [erase, hfs, hunk], rfl⟩
              · cases h
              · cases h
            | _ => simp [erase, readStruct] at h
        | _ => unfold readVal at h; simp only [hfx, ↓reduceIte] at h; cases h
theorem readFields_erase : ∀ (fs : List (Nat × TVal)) (fuel : Nat) (sd : SDesc) (tail : Nat) (st st'' : LoopSt),
    (∀ g ∈ sd.fields, g.ty.ok = true ∧ (g.nocopy = true → g.ty.tt = .string)) →
    readFields P S.clearNC total fuel sd.clearNC fs tail (eraseSt st) = .ok st'' →
    ∃ st', readFields P S total fuel sd fs tail st = .ok st' ∧ eraseSt st' = st''
  | [], fuel, sd, tail, st, st'', _, h => by
    rw [readFields] at h ⊢
    cases h
    exact ⟨st, rfl, rfl⟩
  | (id, v) :: r, fuel, sd, tail, st, st'', hsd, h => by
    rw [readFields] at h ⊢
    rw [lookupKnown_clearNC] at h
    cases hk : lookupKnown sd id v.tag with
    | none =>
      simp only [hk, Option.map_none] at h ⊢
      split at h
      · cases h
      · rename_i hskip
        simp only [hskip, ↓reduceIte]
        refine readFields_erase r fuel sd tail _ st'' hsd ?_
        cases hh : sd.hasHolder <;> simpa [eraseSt, hh] using h
    | some p =>
      obtain ⟨ix, f⟩ := p
      simp only [hk, Option.map_some] at h ⊢
      have hfmem : f ∈ sd.fields := by
        unfold lookupKnown at hk
        split at hk
        · rename_i ix' f' hfind
          split at hk
          · simp only [Option.some.injEq, Prod.mk.injEq] at hk
            obtain ⟨_, rfl⟩ := hk
            exact findField_mem _ _ _ _ _ hfind
          · cases hk
        · cases hk
      split at h
      · rename_i x' hx
        have hx' : readField P S.clearNC total fuel f.clearNC v ((serFields r).length + tail)
            (erase (st.fs.getD ix default)) = .ok x' := by
          rw [← eraseList_getD]; exact hx
        obtain ⟨x, hxS, ex⟩ := readField_erase P S total fuel f v _ _ x' (hsd f hfmem).1 (hsd f hfmem).2
          (fun dest w' hw => readVal_erase v fuel f.ty.deref _ dest w' hw) hx'
        rw [hxS]
        simp only
        refine readFields_erase r fuel sd tail _ st'' hsd ?_
        simpa [eraseSt, eraseList_set, ex] using h
      · cases h
      · cases h
theorem readList_erase : ∀ (xs : List TVal) (fuel : Nat) (et : Ty) (tail : Nat) (vs' : List Val),
    readList P S.clearNC total fuel et xs tail = .ok vs' →
    ∃ vs, readList P S total fuel et xs tail = .ok vs ∧ eraseList vs = vs'
  | [], fuel, et, tail, vs', h => by
    rw [readList] at h ⊢
    cases h
    exact ⟨[], rfl, rfl⟩
  | x :: r, fuel, et, tail, vs', h => by
    rw [readList] at h ⊢
    rw [clearNC_length, zeroVal_clearNC] at h
    split at h
    · rename_i w' hw
      have hw' : readSlot P S.clearNC total fuel et x ((serList r).length + tail)
          (erase (zeroVal S S.length et)) = .ok w' := by rw [erase_zeroVal]; exact hw
      obtain ⟨w, hwS, ew, _⟩ := readSlot_erase P S total fuel et x _ _ w'
        (fun dest w' hh => readVal_erase x fuel et.deref _ dest w' hh) hw'
      rw [hwS]
      simp only
      split at h
      · rename_i ws' hws
        obtain ⟨ws, hwsS, ews⟩ := readList_erase r fuel et tail ws' hws
        rw [hwsS]
        simp only [Outcome.ok.injEq] at h ⊢
        subst h
        exact ⟨_, rfl, by simp [eraseList, ew, ews]⟩
      · cases h
      · cases h
    · cases h
    · cases h
theorem readEntries_erase : ∀ (es : List (TVal × TVal)) (fuel : Nat) (kt vt : Ty) (tail : Nat)
    (acc res' : List (Val × Val)), (∀ p ∈ acc, notView p.1 = true) →
    readEntries P S.clearNC total fuel kt vt es tail (eraseEntries acc) = .ok res' →
    ∃ res, readEntries P S total fuel kt vt es tail acc = .ok res ∧ eraseEntries res = res'
  | [], fuel, kt, vt, tail, acc, res', _, h => by
    rw [readEntries] at h ⊢
    cases h
    exact ⟨acc, rfl, rfl⟩
  | (a, b) :: r, fuel, kt, vt, tail, acc, res', hacc, h => by
    rw [readEntries] at h ⊢
    rw [clearNC_length, zeroVal_clearNC, zeroVal_clearNC] at h
    split at h
    · rename_i k' hk
      have hk' : readSlot P S.clearNC total fuel kt a ((ser b).length + ((serEntries r).length + tail))
          (erase (zeroVal S S.length kt)) = .ok k' := by rw [erase_zeroVal]; exact hk
      obtain ⟨k, hkS, ek, nk⟩ := readSlot_erase P S total fuel kt a _ _ k'
        (fun dest w' hh => readVal_erase a fuel kt.deref _ dest w' hh) hk'
      rw [hkS]
      simp only
      split at h
      · rename_i v' hv
        have hv' : readSlot P S.clearNC total fuel vt b ((serEntries r).length + tail)
            (erase (zeroVal S S.length vt)) = .ok v' := by rw [erase_zeroVal]; exact hv
        obtain ⟨v, hvS, ev, _⟩ := readSlot_erase P S total fuel vt b _ _ v'
          (fun dest w' hh => readVal_erase b fuel vt.deref _ dest w' hh) hv'
        rw [hvS]
        simp only
        refine readEntries_erase r fuel kt vt tail _ res' (mapInsert_keys_notView kt acc k v hacc nk) ?_
        rw [mapInsert_erase kt acc k v hacc nk, ek, ev]
        exact h
      · cases h
      · cases h
    · cases h
    · cases h
end

end
end Frugal
