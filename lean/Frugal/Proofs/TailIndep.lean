/-
  TailIndep.lean — for a schema without `nocopy` fields the reference reader does not depend on
  where in the input buffer the value sits (`total`, `tail` only serve to place views).  Used by
  C11: the recognised fields are read as if the unknown ones were not there.
-/
import Frugal.Proofs.ReaderProps
import Frugal.Proofs.ClearNocopy
set_option linter.unusedSimpArgs false
set_option linter.unusedVariables false
namespace Frugal

theorem readStr_copy_tail (isBin : Bool) (total total' tail tail' : Nat) (tv : TVal) :
    readStr isBin false total tail tv = readStr isBin false total' tail' tv := by
  cases tv <;> simp [readStr]

theorem lookupKnown_mem (sd : SDesc) (id tag ix : Nat) (f : Field)
    (hk : lookupKnown sd id tag = some (ix, f)) : f ∈ sd.fields := by
  unfold lookupKnown at hk
  split at hk
  · rename_i ix' f' hfind
    split at hk
    · simp only [Option.some.injEq, Prod.mk.injEq] at hk
      obtain ⟨_, rfl⟩ := hk
      exact findField_mem _ _ _ _ _ hfind
    · cases hk
  · cases hk

section
variable (P : Params) (S : Schema) (total total' : Nat)

theorem readSlot_tail (fuel : Nat) (t : Ty) (x : TVal) (tail tail' : Nat) (slot : Val)
    (hv : ∀ dest, readVal P S total fuel t.deref x tail dest = readVal P S total' fuel t.deref x tail' dest) :
    readSlot P S total fuel t x tail slot = readSlot P S total' fuel t x tail' slot := by
  unfold readSlot
  split
  · rfl
  · rw [hv]

theorem readField_tail (fuel : Nat) (f : Field) (v : TVal) (tail tail' : Nat) (slot : Val)
    (hnc : f.nocopy = false)
    (hv : ∀ dest, readVal P S total fuel f.ty.deref v tail dest = readVal P S total' fuel f.ty.deref v tail' dest) :
    readField P S total fuel f v tail slot = readField P S total' fuel f v tail' slot := by
  unfold readField
  split
  · rfl
  · simp only [hnc, Bool.false_eq_true, ↓reduceIte]
    rw [hv]

variable (hS : ∀ sid, ∀ f ∈ (S.get sid).fields, f.nocopy = false)
include hS

mutual
theorem readVal_tail : ∀ (tv : TVal) (fuel : Nat) (t : Ty) (tail tail' : Nat) (dest : Val),
    readVal P S total fuel t tv tail dest = readVal P S total' fuel t tv tail' dest
  | tv, 0, t, tail, tail', dest => by simp [readVal]
  | tv, fuel + 1, t, tail, tail', dest => by
    by_cases hfx : specFixed t.tt > 0
    · have hr : ∀ (tot tl : Nat), readVal P S tot (fuel + 1) t tv tl dest = readFixed t.tt tv := by
        intro tot tl
        cases t with
        | base k => rw [readVal]; simp only [hfx, ↓reduceIte]
        | ptr e => rw [readVal]; simp only [hfx, ↓reduceIte]
        | strct s => simp [Ty.tt, specFixed] at hfx
        | map k v => simp [Ty.tt, specFixed] at hfx
        | list s e => cases s <;> simp [Ty.tt, specFixed] at hfx
      rw [hr, hr]
    · cases t with
      | base k =>
        rw [readVal, readVal]; simp only [hfx, ↓reduceIte]
        split
        · exact readStr_copy_tail _ _ _ _ _ _
        · rfl
      | ptr e => rw [readVal, readVal]
      | map kt vt =>
        cases tv with
        | map a b es =>
          rw [readVal, readVal]; simp only [hfx, ↓reduceIte]
          split
          · rfl
          · rw [readEntries_tail es fuel kt vt tail tail' []]
        | _ => unfold readVal; simp only [hfx, ↓reduceIte]
      | list s et =>
        cases tv with
        | list a xs =>
          rw [readVal, readVal]; simp only [hfx, ↓reduceIte]
          split
          · rfl
          · split
            · rfl
            · rw [readList_tail xs fuel et tail tail']
        | set a xs =>
          rw [readVal, readVal]; simp only [hfx, ↓reduceIte]
          split
          · rfl
          · split
            · rfl
            · rw [readList_tail xs fuel et tail tail']
        | _ => unfold readVal; simp only [hfx, ↓reduceIte]
      | strct sid =>
        cases tv with
        | strct fs =>
          rw [readVal, readVal]; simp only [hfx, ↓reduceIte]
          cases fuel with
          | zero => cases dest <;> simp [readStruct]
          | succ f =>
            cases dest with
            | st vs hh =>
              simp only
              by_cases hi : (S.get sid).hasInit = true
              · simp only [hi, ↓reduceIte]
                rw [readStruct, readStruct]
                rw [readFields_tail fs f (S.get sid) (tail + 1) (tail' + 1) _ (hS sid)]
              · simp only [hi, Bool.false_eq_true, ↓reduceIte]
                rw [readStruct, readStruct]
                rw [readFields_tail fs f (S.get sid) (tail + 1) (tail' + 1) _ (hS sid)]
            | _ => simp [readStruct]
        | _ => unfold readVal; simp only [hfx, ↓reduceIte]
theorem readFields_tail : ∀ (fs : List (Nat × TVal)) (fuel : Nat) (sd : SDesc) (tail tail' : Nat) (st : LoopSt),
    (∀ g ∈ sd.fields, g.nocopy = false) →
    readFields P S total fuel sd fs tail st = readFields P S total' fuel sd fs tail' st
  | [], fuel, sd, tail, tail', st, _ => by rw [readFields, readFields]
  | (id, v) :: r, fuel, sd, tail, tail', st, hsd => by
    rw [readFields, readFields]
    cases hk : lookupKnown sd id v.tag with
    | none =>
      simp only
      split
      · rfl
      · exact readFields_tail r fuel sd tail tail' _ hsd
    | some p =>
      obtain ⟨ix, f⟩ := p
      simp only
      rw [readField_tail P S total total' fuel f v _ ((serFields r).length + tail') _
        (hsd f (lookupKnown_mem sd id v.tag ix f hk))
        (fun dest => readVal_tail v fuel f.ty.deref _ _ dest)]
      split
      · exact readFields_tail r fuel sd tail tail' _ hsd
      · rfl
      · rfl
theorem readList_tail : ∀ (xs : List TVal) (fuel : Nat) (et : Ty) (tail tail' : Nat),
    readList P S total fuel et xs tail = readList P S total' fuel et xs tail'
  | [], fuel, et, tail, tail' => by rw [readList, readList]
  | x :: r, fuel, et, tail, tail' => by
    rw [readList, readList]
    rw [readSlot_tail P S total total' fuel et x _ ((serList r).length + tail') _
      (fun dest => readVal_tail x fuel et.deref _ _ dest)]
    rw [readList_tail r fuel et tail tail']
theorem readEntries_tail : ∀ (es : List (TVal × TVal)) (fuel : Nat) (kt vt : Ty) (tail tail' : Nat)
    (acc : List (Val × Val)),
    readEntries P S total fuel kt vt es tail acc = readEntries P S total' fuel kt vt es tail' acc
  | [], fuel, kt, vt, tail, tail', acc => by rw [readEntries, readEntries]
  | (a, b) :: r, fuel, kt, vt, tail, tail', acc => by
    rw [readEntries, readEntries]
    rw [readSlot_tail P S total total' fuel kt a _ ((ser b).length + ((serEntries r).length + tail')) _
      (fun dest => readVal_tail a fuel kt.deref _ _ dest)]
    rw [readSlot_tail P S total total' fuel vt b _ ((serEntries r).length + tail') _
      (fun dest => readVal_tail b fuel vt.deref _ _ dest)]
    split
    · split
      · exact readEntries_tail r fuel kt vt tail tail' _
      · rfl
      · rfl
    · rfl
    · rfl
end
end
end Frugal
