/-
  NormFacts.lean — the normal form of C01 spelled out: which parts of a value come back unchanged,
  and a decidable sufficient condition for the schema side conditions.
-/
import Frugal.Norm
import Frugal.Proofs.TagsSpec
import Frugal.Proofs.ToWire
set_option linter.unusedSimpArgs false
set_option linter.unusedVariables false
namespace Frugal

/-- every scalar kind but enum is bit-exact (incl. NaN payloads: a double is its 64 bits) -/
theorem normScalar_exact (k : Kind) (n : Nat) (hk : k ≠ .enum) : normScalar k n = n := by
  cases k <;> simp [normScalar] at hk ⊢

/-- an enum whose 64-bit pattern is the sign extension of its low 32 bits (a value within int32,
    negative ones included) is bit-exact -/
theorem normScalar_enum_exact (n : Nat) (h64 : n < 2 ^ 64)
    (h32 : n < 2 ^ 31 ∨ 2 ^ 64 - 2 ^ 31 ≤ n) : normScalar .enum n = n := by
  simp only [normScalar, beq_self_eq_true, ↓reduceIte, sext32to64]
  split <;> omega

/-- outside 32 bits only the low 32 bits survive (the documented limit of C01) -/
theorem normScalar_enum_general (n : Nat) : normScalar .enum n = sext32to64 (n % 4294967296) := by
  simp [normScalar]

/-- lists and sets keep their length and element order -/
theorem normList_eq_map (S : Schema) (e : Ty) : ∀ xs : List Val,
    normList S e xs = xs.map (fun x => norm S e x (zeroVal S S.length e))
  | [] => rfl
  | x :: r => by simp [normList, normList_eq_map S e r]

theorem normList_length (S : Schema) (e : Ty) (xs : List Val) : (normList S e xs).length = xs.length := by
  simp [normList_eq_map]

/-- strings and binaries are byte-exact -/
theorem norm_string (S : Schema) (s : Bytes) (d : Val) : norm S (.base .string) (.str s) d = .str s := by
  simp [norm]

theorem norm_binary (S : Schema) (n : Bool) (s : Bytes) (d : Val) :
    norm S (.base .binary) (.bin n s) d = .bin false s := by
  simp [norm]

/-- a written field comes back as its own normal form, an omitted one as the destination had it
    (the declared default, for a default-initialised destination) -/
theorem normFields_cons (S : Schema) (sd : SDesc) (f : Field) (fr : List Field) (x : Val) (xr : List Val)
    (d : Val) (dr : List Val) :
    normFields S sd (f :: fr) (x :: xr) (d :: dr) =
      (if fieldWritten sd f x then norm S f.ty x d else d) :: normFields S sd fr xr dr := by
  simp [normFields]

theorem normFields_length (S : Schema) (sd : SDesc) : ∀ (fs : List Field) (xs ds : List Val),
    (normFields S sd fs xs ds).length = ds.length
  | [], _, _ => by simp [normFields]
  | _ :: _, [], _ => by simp [normFields]
  | _ :: _, _ :: _, [] => by simp [normFields]
  | f :: fr, x :: xr, d :: dr => by simp [normFields, normFields_length S sd fr xr dr]

/-- a nil non-optional list / set / map comes back empty, not nil -/
theorem norm_nil_list (S : Schema) (s : Bool) (e : Ty) (d : Val) :
    norm S (.list s e) (.lst true []) d = .lst false [] := by
  simp [norm, normList]

theorem norm_nil_map (S : Schema) (k v : Ty) (d : Val) :
    norm S (.map k v) (.mp true []) d = .mp false [] := by
  simp [norm, normEntries]

/-! ### maps: with pairwise distinct keys (every real Go map) entries come back in iteration order -/

theorem mapInsert_fresh (kt : Ty) : ∀ (acc : List (Val × Val)) (k v : Val),
    (∀ p ∈ acc, keyEq kt p.1 k = false) → mapInsert kt acc k v = acc ++ [(k, v)]
  | [], _, _, _ => rfl
  | (a, b) :: r, k, v, h => by
    have ha := h (a, b) (List.mem_cons_self ..)
    simp only at ha
    simp only [mapInsert, ha, Bool.false_eq_true, ↓reduceIte, List.cons_append]
    rw [mapInsert_fresh kt r k v (fun p hp => h p (List.mem_cons_of_mem _ hp))]

/-- the keys of `es`, normalised -/
def normKeys (S : Schema) (k : Ty) (es : List (Val × Val)) : List Val :=
  es.map fun p => norm S k p.1 (zeroVal S S.length k)

theorem normEntries_distinct (S : Schema) (k v : Ty) : ∀ (es acc : List (Val × Val)),
    ((acc.map (·.1)) ++ normKeys S k es).Pairwise (fun a b => keyEq k a b = false) →
    normEntries S k v es acc =
      acc ++ es.map fun p => (norm S k p.1 (zeroVal S S.length k), norm S v p.2 (zeroVal S S.length v))
  | [], acc, _ => by simp [normEntries]
  | (a, b) :: r, acc, h => by
    simp only [normEntries]
    have hfresh : ∀ p ∈ acc, keyEq k p.1 (norm S k a (zeroVal S S.length k)) = false := by
      intro p hp
      have := (List.pairwise_append.1 h).2.2 p.1 (List.mem_map_of_mem hp)
        (norm S k a (zeroVal S S.length k)) (by simp [normKeys])
      exact this
    rw [mapInsert_fresh k acc _ _ hfresh]
    rw [normEntries_distinct S k v r]
    · simp
    · simpa [normKeys, List.map_append] using h

/-! ### a decidable sufficient condition for `Schema.rtSide` -/

def distinctIdsB : List Field → Bool
  | [] => true
  | f :: r => r.all (fun g => f.id != g.id) && distinctIdsB r

theorem distinctIdsB_pairwise : ∀ fs : List Field, distinctIdsB fs = true →
    fs.Pairwise (fun a b => a.id ≠ b.id)
  | [], _ => List.Pairwise.nil
  | f :: r, h => by
    simp only [distinctIdsB, Bool.and_eq_true, List.all_eq_true, bne_iff_ne, ne_eq] at h
    exact List.pairwise_cons.2 ⟨h.1, distinctIdsB_pairwise r h.2⟩

def Schema.rtSideB (S : Schema) : Bool :=
  S.all (fun sd =>
    distinctIdsB sd.fields &&
    sd.fields.all (fun f => !f.nocopy &&
      (!f.assigned || match f.dflt with
        | some d => hasTy S f.ty d
        | none => true))) &&
  (List.range S.length).all (fun sid => hasTy S (.strct sid) (zeroVal S S.length (.strct sid)))

theorem get_oob (S : Schema) (sid : Nat) (h : S.length ≤ sid) : S.get sid = { fields := [] } := by
  simp [Schema.get, List.getD_eq_getElem?_getD, List.getElem?_eq_none h]

theorem get_mem (S : Schema) (sid : Nat) (h : sid < S.length) : S.get sid ∈ S := by
  simp only [Schema.get, List.getD_eq_getElem?_getD, List.getElem?_eq_getElem h, Option.getD_some]
  exact List.getElem_mem h

theorem rtSide_of_rtSideB (S : Schema) (h : S.rtSideB = true) : S.rtSide := by
  simp only [Schema.rtSideB, Bool.and_eq_true, List.all_eq_true, decide_eq_true_eq, Bool.or_eq_true,
    Bool.not_eq_true', List.mem_range] at h
  obtain ⟨h1, h2⟩ := h
  have key : ∀ sid, S.length ≤ sid ∨ S.get sid ∈ S := fun sid => by
    by_cases hs : sid < S.length
    · exact Or.inr (get_mem S sid hs)
    · exact Or.inl (by omega)
  constructor
  · intro sid
    rcases key sid with ho | hm
    · rw [get_oob S sid ho]; exact List.Pairwise.nil
    · exact distinctIdsB_pairwise _ (h1 _ hm).1
  · intro sid f hf
    rcases key sid with ho | hm
    · rw [get_oob S sid ho] at hf; cases hf
    · exact ((h1 _ hm).2 f hf).1
  · intro sid f hf ha d hd
    rcases key sid with ho | hm
    · rw [get_oob S sid ho] at hf; cases hf
    · have := ((h1 _ hm).2 f hf).2
      rcases this with h' | h'
      · rw [ha] at h'; cases h'
      · simpa [hd] using h'
  · intro sid
    by_cases hs : sid < S.length
    · exact h2 sid hs
    · have ho : S.length ≤ sid := by omega
      cases hl : S.length with
      | zero => simp [zeroVal, hasTy, hasTyFields, get_oob S sid ho]
      | succ n => simp [zeroVal, zeroFields, hasTy, hasTyFields, get_oob S sid ho]

/-- the resolver guarantees distinct ids in every schema it builds -/
theorem schemaOf_distinct (U : Universe) (sid : Nat) :
    ((schemaOf U).get sid).fields.Pairwise (fun a b => a.id ≠ b.id) := by
  by_cases hs : sid < (schemaOf U).length
  · have hm := get_mem (schemaOf U) sid hs
    generalize (schemaOf U).get sid = sd0 at hm ⊢
    simp only [schemaOf, resolveAll, List.mem_map] at hm
    obtain ⟨o, ⟨gs, _, rfl⟩, hsd⟩ := hm
    rw [← hsd]
    cases hr : resolveStruct gs with
    | none => simp
    | some sd =>
      simp only [Option.getD_some]
      exact (resolveStruct_fields gs sd hr).1.imp (fun h => Nat.ne_of_lt h)
  · rw [get_oob _ sid (by omega)]
    exact List.Pairwise.nil

end Frugal
