/-
  ReadNorm.lean — the reference reader applied to the denotation of a well-typed value returns the
  value's normal form (`Norm.lean`): `readSlot … (toWire S t v) … slot = .ok (norm S t v slot)`.
  With C02 (`refEnc = ser ∘ toWire`) and C03 (decoder = reader) this is C01.
-/
import Frugal.Norm
import Frugal.Proofs.ToWire
import Frugal.Proofs.ReaderProps
set_option linter.unusedSimpArgs false
set_option linter.unusedVariables false
namespace Frugal

/-! ### small facts -/

theorem mapv_id' {α} (o : Outcome α) : o.mapv (fun x => x) = o := by cases o <;> rfl

theorem mapv_ok {α β} (f : α → β) (a : α) : (Outcome.ok a).mapv f = .ok (f a) := rfl

theorem deref_nonptr {e : Ty} (h : e.isPtr = false) : e.deref = e := by
  cases e <;> simp [Ty.isPtr] at h <;> rfl

theorem bool01 (n : Nat) (h : n < 2) : (if n = 1 then 1 else 0) = n := by
  split <;> omega

theorem readFixed_scalar (k : Kind) (n : Nat) (hk : k ≠ .string) (hb : k ≠ .binary)
    (hbool : k = .bool → n < 2) :
    readFixed k.tt (scalarTVal k n) = .ok (.sc (normScalar k n)) := by
  cases k <;> simp [Kind.tt, scalarTVal, readFixed, normScalar] at *
  exact bool01 n hbool

theorem specFixed_scalar (k : Kind) (hk : k ≠ .string) (hb : k ≠ .binary) : specFixed k.tt > 0 := by
  cases k <;> simp [Kind.tt, specFixed] at *

/-- a non-optional field is always written -/
theorem written_of_required (sd : SDesc) (f : Field) (x : Val) (h : f.req = .required) :
    fieldWritten sd f x = true := by
  simp [fieldWritten, h]

/-! ### typing is preserved by what the decoder prepares -/

theorem applyInit_typed (S : Schema) : ∀ (fs : List Field) (vs : List Val),
    (∀ f ∈ fs, f.assigned = true → ∀ d, f.dflt = some d → hasTy S f.ty d = true) →
    hasTyFields S fs vs = true → hasTyFields S fs (applyInit fs vs) = true
  | [], [], _, _ => by simp [applyInit, hasTyFields]
  | [], _ :: _, _, h => by simp [hasTyFields] at h
  | _ :: _, [], _, h => by simp [hasTyFields] at h
  | f :: fr, v :: vr, hd, h => by
    simp only [hasTyFields, Bool.and_eq_true] at h
    have ih := applyInit_typed S fr vr (fun g hg => hd g (List.mem_cons_of_mem _ hg)) h.2
    simp only [applyInit, hasTyFields, Bool.and_eq_true]
    refine ⟨?_, ih⟩
    by_cases ha : f.assigned = true
    · simp only [ha, ↓reduceIte]
      cases hdf : f.dflt with
      | none => simpa using h.1
      | some d => simpa using hd f (List.mem_cons_self ..) ha d hdf
    · have : f.assigned = false := by simpa using ha
      simp only [this, Bool.false_eq_true, ↓reduceIte]
      exact h.1

theorem initDest_typed (S : Schema) (hside : S.rtSide) (sid : Nat) (d : Val)
    (h : hasTy S (.strct sid) d = true) :
    ∃ ds hh, initDest S sid d = .st ds hh ∧ hasTyFields S (S.get sid).fields ds = true := by
  cases d with
  | st vs hh =>
    simp only [hasTy, Bool.and_eq_true] at h
    unfold initDest
    by_cases hi : (S.get sid).hasInit = true
    · simp only [hi, ↓reduceIte]
      exact ⟨_, _, rfl, applyInit_typed S _ _ (hside.defaultsTyped sid) h.2⟩
    · have : (S.get sid).hasInit = false := by simpa using hi
      simp only [this, Bool.false_eq_true, ↓reduceIte]
      exact ⟨_, _, rfl, h.2⟩
  | _ => hasTy_absurd h

theorem hasTyFields_length (S : Schema) : ∀ (fs : List Field) (vs : List Val),
    hasTyFields S fs vs = true → vs.length = fs.length
  | [], [], _ => rfl
  | [], _ :: _, h => by simp [hasTyFields] at h
  | _ :: _, [], h => by simp [hasTyFields] at h
  | f :: fr, v :: vr, h => by
    simp only [hasTyFields, Bool.and_eq_true] at h
    simp [hasTyFields_length S fr vr h.2]

/-- the zero value of every (well-formed) type is a value of that type -/
theorem zeroVal_typed (S : Schema) (hside : S.rtSide) (t : Ty) : hasTy S t (zeroVal S S.length t) = true := by
  cases t with
  | base k => cases k <;> simp [zeroVal, hasTy, Kind.bits]
  | strct sid => exact hside.zeroOk sid
  | list s e => simp [zeroVal, hasTy, hasTyList]
  | map k v => simp [zeroVal, hasTy, hasTyEntries]
  | ptr e => simp [zeroVal, hasTy]

/-! ### field lookup -/

theorem findField_skip (pre : List Field) (f : Field) (fr : List Field) (ix : Nat)
    (h : ∀ g ∈ pre, g.id ≠ f.id) :
    findField (pre ++ f :: fr) f.id ix = some (ix + pre.length, f) := by
  induction pre generalizing ix with
  | nil => simp [findField]
  | cons g pre ih =>
    have hg : g.id ≠ f.id := h g (List.mem_cons_self ..)
    simp only [List.cons_append, findField, hg, ↓reduceIte]
    rw [ih (ix + 1) (fun x hx => h x (List.mem_cons_of_mem _ hx))]
    simp only [List.length_cons]
    congr 2
    omega

theorem findField_sound : ∀ (fs : List Field) (id k ix : Nat) (f : Field),
    findField fs id k = some (ix, f) → fs[ix - k]? = some f ∧ k ≤ ix
  | [], _, _, _, _, h => by simp [findField] at h
  | g :: r, id, k, ix, f, h => by
    simp only [findField] at h
    split at h
    · simp only [Option.some.injEq, Prod.mk.injEq] at h
      obtain ⟨rfl, rfl⟩ := h
      simp
    · have := findField_sound r id (k + 1) ix f h
      have hk : ix - k = (ix - (k + 1)) + 1 := by omega
      rw [hk, List.getElem?_cons_succ]
      exact ⟨this.1, by omega⟩

theorem lookupKnown_at (sd : SDesc) (pre : List Field) (f : Field) (fr : List Field)
    (hsd : sd.fields = pre ++ f :: fr) (hpw : sd.fields.Pairwise (fun a b => a.id ≠ b.id)) :
    lookupKnown sd f.id f.ty.wire = some (pre.length, f) := by
  unfold lookupKnown
  rw [hsd] at hpw ⊢
  have := (List.pairwise_append.1 hpw).2.2
  rw [findField_skip pre f fr 0 (fun g hg => this g hg f (List.mem_cons_self ..))]
  simp

theorem getD_at (done : List Val) (d : Val) (dr : List Val) (n : Nat) (h : done.length = n) :
    (done ++ d :: dr).getD n default = d := by
  subst h
  simp [List.getD_eq_getElem?_getD]

theorem set_at (done : List Val) (d y : Val) (dr : List Val) (n : Nat) (h : done.length = n) :
    (done ++ d :: dr).set n y = (done ++ [y]) ++ dr := by
  subst h
  simp [List.set_append]

/-! ### seen ids -/

theorem seenOf_mono (sd : SDesc) : ∀ (fs : List Field) (xs : List Val) (seen : List Nat) (a : Nat),
    a ∈ seen → a ∈ seenOf sd fs xs seen
  | [], _, _, _, h => by simpa [seenOf] using h
  | _ :: _, [], _, _, h => by simpa [seenOf] using h
  | f :: fr, x :: xr, seen, a, h => by
    simp only [seenOf]
    apply seenOf_mono sd fr xr
    split
    · exact List.mem_cons_of_mem _ h
    · exact h

theorem seenOf_required (S : Schema) (sd : SDesc) : ∀ (fs : List Field) (xs : List Val) (seen : List Nat),
    hasTyFields S fs xs = true → ∀ f ∈ fs, f.req = .required → f.id ∈ seenOf sd fs xs seen
  | [], _, _, _, f, hf, _ => by cases hf
  | _ :: _, [], _, h, _, _, _ => by simp [hasTyFields] at h
  | g :: fr, x :: xr, seen, h, f, hf, hr => by
    simp only [hasTyFields, Bool.and_eq_true] at h
    simp only [seenOf]
    rcases List.mem_cons.1 hf with rfl | hf
    · apply seenOf_mono
      simp [written_of_required sd f x hr]
    · exact seenOf_required S sd fr xr _ h.2 f hf hr


/-! ### the reader, one construct at a time -/

section
variable (P : Params) (S : Schema) (total : Nat)

theorem toWireList_length (e : Ty) : ∀ xs : List Val, (toWireList S e xs).length = xs.length
  | [] => rfl
  | x :: r => by simp [toWireList, toWireList_length e r]

theorem readField_eq_readSlot (fuel : Nat) (f : Field) (v : TVal) (tail : Nat) (slot : Val)
    (hnc : f.nocopy = false) :
    readField P S total fuel f v tail slot = readSlot P S total fuel f.ty v tail slot := by
  rw [readField, readSlot]
  simp [hnc]

theorem readSlot_ptr (fuel : Nat) (e : Ty) (X : TVal) (tail : Nat) (slot : Val) (he : e.isPtr = false) :
    readSlot P S total fuel (.ptr e) X tail slot =
      (readSlot P S total fuel e X tail (zeroVal S S.length e)).mapv .ptr := by
  rw [readSlot, readSlot]
  have hd := deref_nonptr he
  have hp : (Ty.ptr e).isPtr = true := rfl
  have hdp : (Ty.ptr e).deref = e := rfl
  have htt : (Ty.ptr e).tt = e.tt := rfl
  by_cases hfx : specFixed e.tt > 0
  · simp only [htt, hfx, ↓reduceIte, wrapPtr, hp, he, Bool.false_eq_true]
    cases readFixed e.tt X <;> simp [Outcome.mapv, wrapPtr, hp, he]
  · simp only [htt, hfx, ↓reduceIte, wrapPtr, hp, he, Bool.false_eq_true, hdp, hd, freshTarget]
    cases readVal P S total fuel e X tail (zeroVal S S.length e) <;> simp [Outcome.mapv, wrapPtr, hp, he]

theorem readSlot_nonfixed (fuel : Nat) (t : Ty) (X : TVal) (tail : Nat) (slot : Val)
    (ht : t.isPtr = false) (hfx : specFixed t.tt = 0) :
    readSlot P S total fuel t X tail slot = readVal P S total fuel t X tail slot := by
  rw [readSlot]
  have hd := deref_nonptr ht
  have hfx' : ¬ specFixed t.tt > 0 := by omega
  simp only [hfx', ↓reduceIte, hd, freshTarget, ht, Bool.false_eq_true, wrapPtr]
  cases readVal P S total fuel t X tail slot <;> simp [Outcome.mapv, wrapPtr, ht]

theorem readVal_struct (f sid : Nat) (F : List (Nat × TVal)) (tail : Nat) (vs : List Val) (hh : Bytes) :
    readVal P S total (f + 1) (.strct sid) (.strct F) tail (.st vs hh) =
      readStruct P S total f sid F tail (initDest S sid (.st vs hh)) := by
  rw [readVal]
  by_cases hi : (S.get sid).hasInit = true
  · simp [Ty.tt, specFixed, initDest, hi]
  · have : (S.get sid).hasInit = false := by simpa using hi
    simp [Ty.tt, specFixed, initDest, this]

theorem readVal_list (f : Nat) (s : Bool) (e : Ty) (L : List TVal) (tail : Nat) (slot : Val) :
    readVal P S total (f + 1) (.list s e) (if s then .set e.wire L else .list e.wire L) tail slot =
      if L.length = 0 then .ok (.lst false [])
      else (readList P S total f e L tail).mapv fun xs' => .lst false xs' := by
  cases s <;> simp only [Bool.false_eq_true, ↓reduceIte] <;> rw [readVal] <;> simp [Ty.tt, specFixed]

theorem readVal_map (f : Nat) (k v : Ty) (E : List (TVal × TVal)) (tail : Nat) (slot : Val) :
    readVal P S total (f + 1) (.map k v) (.map k.wire v.wire E) tail slot =
      (readEntries P S total f k v E tail []).mapv fun es' => .mp false es' := by
  rw [readVal]
  simp [Ty.tt, specFixed]

theorem readVal_string (f : Nat) (k : Kind) (hk : k.tt = .string) (s : Bytes) (tail : Nat) (slot : Val) :
    readVal P S total (f + 1) (.base k) (.str s) tail slot =
      .ok (if k == .binary then .bin false s else .str s) := by
  rw [readVal]
  simp only [Ty.tt, hk, specFixed, Nat.lt_irrefl, gt_iff_lt, ↓reduceIte, beq_self_eq_true, readStr,
    Bool.false_eq_true]
  cases s with
  | nil => simp
  | cons c r => simp

/-- reading an empty struct message into a typed destination -/
theorem readStruct_done (f sid : Nat) (tail : Nat) (dest : Val) (ds : List Val) (h' : Bytes)
    (F : List (Nat × TVal)) (out : List Val) (seen : List Nat)
    (hd : dest = .st ds h')
    (hloop : readFields P S total f (S.get sid) F (tail + 1) { fs := ds } =
      .ok { fs := out, seen := seen, unk := [] })
    (hreq : ∀ g ∈ (S.get sid).fields, g.req = .required → g.id ∈ seen) :
    readStruct P S total (f + 1) sid F tail dest = .ok (.st out h') := by
  subst hd
  rw [required_verdict P S total f sid F tail ds h' _ hloop]
  have := (firstMissing_none_iff (S.get sid).fields seen).2 hreq
  simp only [this]
  simp

variable (hS : S.ok = true) (hside : S.rtSide)
include hS hside

mutual
theorem readSlot_norm : ∀ (v : Val) (t : Ty) (fuel tail : Nat) (slot : Val),
    t.ok = true → nilOK t v = true → hasTy S t v = true → rtOK S t v = true →
    (∀ sid, t = .strct sid → hasTy S t slot = true) →
    2 * depth (toWire S t v) + 1 ≤ fuel →
    readSlot P S total fuel t (toWire S t v) tail slot = .ok (norm S t v slot)
  | .sc n, t, fuel, tail, slot, hok, hnil, ht, hr, hslot, hd => by
    cases t with
    | base k =>
      cases k with
      | string => hasTy_absurd ht
      | binary => hasTy_absurd ht
      | bool =>
        have hn : n < 2 := by simpa [hasTy] using ht
        rw [readSlot]
        simp [toWire, Ty.tt, Kind.tt, specFixed, scalarTVal, readFixed, Outcome.mapv, wrapPtr, Ty.isPtr,
          norm, normScalar, bool01 n hn]
      | _ =>
        rw [readSlot]
        simp [toWire, Ty.tt, Kind.tt, specFixed, scalarTVal, readFixed, Outcome.mapv, wrapPtr, Ty.isPtr,
          norm, normScalar]
    | _ => hasTy_absurd ht
  | .str s, t, fuel, tail, slot, hok, hnil, ht, hr, hslot, hd => by
    obtain ⟨f, rfl⟩ : ∃ f, fuel = f + 1 := ⟨fuel - 1, by omega⟩
    cases t with
    | base k =>
      cases k with
      | string =>
        rw [readSlot_nonfixed P S total _ _ _ _ _ rfl rfl]
        simp only [toWire]
        rw [readVal_string P S total f .string rfl]
        simp [norm]
      | _ => hasTy_absurd ht
    | _ => hasTy_absurd ht
  | .bin n s, t, fuel, tail, slot, hok, hnil, ht, hr, hslot, hd => by
    obtain ⟨f, rfl⟩ : ∃ f, fuel = f + 1 := ⟨fuel - 1, by omega⟩
    cases t with
    | base k =>
      cases k with
      | binary =>
        rw [readSlot_nonfixed P S total _ _ _ _ _ rfl rfl]
        simp only [toWire]
        rw [readVal_string P S total f .binary rfl]
        simp [norm]
      | _ => hasTy_absurd ht
    | _ => hasTy_absurd ht
  | .nilp, t, fuel, tail, slot, hok, hnil, ht, hr, hslot, hd => by
    cases t with
    | ptr e =>
      cases e with
      | strct sid =>
        simp only [toWire, depth, depthFields] at hd
        obtain ⟨f, rfl⟩ : ∃ f, fuel = f + 2 := ⟨fuel - 2, by omega⟩
        rw [readSlot_ptr P S total _ _ _ _ _ rfl, readSlot_nonfixed P S total _ _ _ _ _ rfl rfl]
        simp only [toWire]
        have hz := hside.zeroOk sid
        obtain ⟨ds, h', hi, hty⟩ := initDest_typed S hside sid _ hz
        generalize hzz : zeroVal S S.length (.strct sid) = z at hz hi
        cases z with
        | st vs hh =>
          rw [readVal_struct]
          have hloop : readFields P S total f (S.get sid) [] (tail + 1) { fs := ds } =
              .ok { fs := ds, seen := [], unk := [] } := by rw [readFields]
          have hreq : ∀ g ∈ (S.get sid).fields, g.req = .required → g.id ∈ ([] : List Nat) := by
            intro g hg hreq
            simp only [rtOK, List.all_eq_true, bne_iff_ne, ne_eq] at hr
            exact absurd hreq (hr g hg)
          rw [readStruct_done P S total f sid tail _ ds h' [] ds [] hi hloop hreq]
          simp only [Outcome.mapv, norm, hzz, hi]
        | _ => hasTy_absurd hz
      | _ => simp [nilOK, Ty.isPtr, Ty.isStructPtr, isNilWord] at hnil
    | base k => cases k <;> hasTy_absurd ht
    | _ => hasTy_absurd ht
  | .ptr w, t, fuel, tail, slot, hok, hnil, ht, hr, hslot, hd => by
    cases t with
    | ptr e =>
      simp only [hasTy, Bool.and_eq_true, Bool.not_eq_true'] at ht
      have hoke : e.ok = true := by cases e <;> simp [Ty.ok] at hok ⊢
      have hnile : nilOK e w = true := by simp [nilOK, ht.1]
      simp only [rtOK] at hr
      simp only [toWire] at hd ⊢
      rw [readSlot_ptr P S total _ _ _ _ _ ht.1]
      have hr' : rtOK S e w = true := by
        cases e <;> first | exact hr | (simp [Ty.isPtr] at ht)
      rw [readSlot_norm w e fuel tail (zeroVal S S.length e) hoke hnile ht.2 hr'
        (fun sid _ => zeroVal_typed S hside e) hd]
      simp only [Outcome.mapv, norm]
    | base k => cases k <;> hasTy_absurd ht
    | _ => hasTy_absurd ht
  | .lst n xs, t, fuel, tail, slot, hok, hnil, ht, hr, hslot, hd => by
    cases t with
    | list s e =>
      simp only [hasTy, Bool.and_eq_true] at ht
      simp only [Ty.ok, Bool.and_eq_true] at hok
      simp only [rtOK] at hr
      have hdl : 2 * depthList (toWireList S e xs) + 3 ≤ fuel := by
        cases s <;> simp only [toWire, depth, ↓reduceIte, Bool.false_eq_true] at hd <;> omega
      obtain ⟨f, rfl⟩ : ∃ f, fuel = f + 1 := ⟨fuel - 1, by omega⟩
      have hfx : specFixed (Ty.list s e).tt = 0 := by cases s <;> rfl
      rw [readSlot_nonfixed P S total _ _ _ _ _ rfl hfx]
      simp only [toWire]
      rw [readVal_list]
      by_cases hl : (toWireList S e xs).length = 0
      · have : xs = [] := by
          rw [toWireList_length] at hl
          exact List.eq_nil_of_length_eq_zero hl
        subst this
        simp [toWireList, norm, normList]
      · simp only [hl, ↓reduceIte]
        rw [readList_norm xs e f tail hok.1 hok.2 ht.2 hr (by omega)]
        simp only [Outcome.mapv, norm]
    | base k => cases k <;> hasTy_absurd ht
    | _ => hasTy_absurd ht
  | .mp n es, t, fuel, tail, slot, hok, hnil, ht, hr, hslot, hd => by
    cases t with
    | map k v =>
      simp only [hasTy, Bool.and_eq_true] at ht
      simp only [Ty.ok, Bool.and_eq_true] at hok
      obtain ⟨⟨⟨hk, hv⟩, hvp⟩, hkk⟩ := hok
      have hkp : (!k.isPtr || k.isStructPtr) = true := by
        cases k with
        | ptr e => cases e <;> simp_all [Ty.isPtr, Ty.isStructPtr]
        | _ => simp [Ty.isPtr]
      simp only [rtOK] at hr
      simp only [toWire, depth] at hd
      obtain ⟨f, rfl⟩ : ∃ f, fuel = f + 1 := ⟨fuel - 1, by omega⟩
      rw [readSlot_nonfixed P S total _ _ _ _ _ rfl rfl]
      simp only [toWire]
      rw [readVal_map]
      rw [readEntries_norm es k v [] f tail hk hv hkp hvp ht.2 hr (by omega)]
      simp only [Outcome.mapv, norm]
    | base k => cases k <;> hasTy_absurd ht
    | _ => hasTy_absurd ht
  | .st xs h, t, fuel, tail, slot, hok, hnil, ht, hr, hslot, hd => by
    cases t with
    | strct sid =>
      simp only [hasTy, Bool.and_eq_true] at ht
      simp only [rtOK] at hr
      simp only [toWire, depth] at hd
      obtain ⟨f, rfl⟩ : ∃ f, fuel = f + 2 := ⟨fuel - 2, by omega⟩
      rw [readSlot_nonfixed P S total _ _ _ _ _ rfl rfl]
      simp only [toWire]
      have hz := hslot sid rfl
      obtain ⟨ds, h', hi, hty⟩ := initDest_typed S hside sid _ hz
      cases slot with
      | st vs hh =>
        rw [readVal_struct]
        have hsd := sd_ok hS sid
        simp only [SDesc.ok, List.all_eq_true] at hsd
        have hloop := readFields_norm xs (S.get sid) (S.get sid).fields [] [] ds [] f (tail + 1)
          rfl (hside.distinct sid) (fun g hg => ⟨hsd g hg, hside.noNocopy sid g hg⟩) rfl ht.2 hty hr (by omega)
        simp only [List.nil_append] at hloop
        have hreq := seenOf_required S (S.get sid) (S.get sid).fields xs [] ht.2
        rw [readStruct_done P S total f sid tail _ ds h' _ _ _ hi hloop hreq]
        simp only [norm, hi]
      | _ => hasTy_absurd hz
    | base k => cases k <;> hasTy_absurd ht
    | _ => hasTy_absurd ht
  | .vstr _ _, t, _, _, _, _, _, ht, _, _, _ => by
    cases t with
    | base k => cases k <;> hasTy_absurd ht
    | _ => hasTy_absurd ht
  | .vbin _ _, t, _, _, _, _, _, ht, _, _, _ => by
    cases t with
    | base k => cases k <;> hasTy_absurd ht
    | _ => hasTy_absurd ht
theorem readList_norm : ∀ (xs : List Val) (e : Ty) (fuel tail : Nat),
    e.ok = true → (!e.isPtr || e.isStructPtr) = true → hasTyList S e xs = true → rtOKList S e xs = true →
    2 * depthList (toWireList S e xs) + 1 ≤ fuel →
    readList P S total fuel e (toWireList S e xs) tail = .ok (normList S e xs)
  | [], e, fuel, tail, _, _, _, _, _ => by simp only [toWireList, normList]; rw [readList]
  | x :: r, e, fuel, tail, hok, hp, ht, hr, hd => by
    simp only [hasTyList, Bool.and_eq_true] at ht
    simp only [rtOKList, Bool.and_eq_true] at hr
    simp only [toWireList, depthList] at hd
    simp only [toWireList, normList]
    rw [readList]
    rw [readSlot_norm x e fuel _ _ hok (nilOK_of_elem hp x) ht.1 hr.1
      (fun sid _ => zeroVal_typed S hside e) (by omega)]
    simp only []
    rw [readList_norm r e fuel tail hok hp ht.2 hr.2 (by omega)]
theorem readEntries_norm : ∀ (es : List (Val × Val)) (k v : Ty) (acc : List (Val × Val)) (fuel tail : Nat),
    k.ok = true → v.ok = true → (!k.isPtr || k.isStructPtr) = true → (!v.isPtr || v.isStructPtr) = true →
    hasTyEntries S k v es = true → rtOKEntries S k v es = true →
    2 * depthEntries (toWireEntries S k v es) + 1 ≤ fuel →
    readEntries P S total fuel k v (toWireEntries S k v es) tail acc = .ok (normEntries S k v es acc)
  | [], k, v, acc, fuel, tail, _, _, _, _, _, _, _ => by simp only [toWireEntries, normEntries]; rw [readEntries]
  | (a, b) :: r, k, v, acc, fuel, tail, hk, hv, hkp, hvp, ht, hr, hd => by
    simp only [hasTyEntries, Bool.and_eq_true] at ht
    simp only [rtOKEntries, Bool.and_eq_true] at hr
    simp only [toWireEntries, depthEntries] at hd
    simp only [toWireEntries, normEntries]
    rw [readEntries]
    rw [readSlot_norm a k fuel _ _ hk (nilOK_of_elem hkp a) ht.1.1 hr.1.1
      (fun sid _ => zeroVal_typed S hside k) (by omega)]
    simp only []
    rw [readSlot_norm b v fuel _ _ hv (nilOK_of_elem hvp b) ht.1.2 hr.1.2
      (fun sid _ => zeroVal_typed S hside v) (by omega)]
    simp only []
    exact readEntries_norm r k v _ fuel tail hk hv hkp hvp ht.2 hr.2 (by omega)
theorem readFields_norm : ∀ (xs : List Val) (sd : SDesc) (fs pre : List Field) (done ds : List Val)
    (seen : List Nat) (fuel tail : Nat),
    sd.fields = pre ++ fs → sd.fields.Pairwise (fun a b => a.id ≠ b.id) →
    (∀ g ∈ fs, g.ok = true ∧ g.nocopy = false) → done.length = pre.length →
    hasTyFields S fs xs = true → hasTyFields S fs ds = true → rtOKFields S sd fs xs = true →
    2 * depthFields (toWireFields S sd fs xs) + 1 ≤ fuel →
    readFields P S total fuel sd (toWireFields S sd fs xs) tail { fs := done ++ ds, seen := seen, unk := [] } =
      .ok { fs := done ++ normFields S sd fs xs ds, seen := seenOf sd fs xs seen, unk := [] }
  | [], sd, [], pre, done, ds, seen, fuel, tail, _, _, _, _, _, hds, _, _ => by
    cases ds with
    | nil => simp only [toWireFields, normFields, seenOf]; rw [readFields]
    | cons _ _ => simp [hasTyFields] at hds
  | [], _, _ :: _, _, _, _, _, _, _, _, _, _, _, ht, _, _, _ => by simp [hasTyFields] at ht
  | _ :: _, _, [], _, _, _, _, _, _, _, _, _, _, ht, _, _, _ => by simp [hasTyFields] at ht
  | x :: xr, sd, f :: fr, pre, done, ds, seen, fuel, tail, hsd, hpw, hok, hlen, ht, hds, hr, hd => by
    cases ds with
    | nil => simp [hasTyFields] at hds
    | cons d dr =>
      simp only [hasTyFields, Bool.and_eq_true] at ht hds
      simp only [rtOKFields, Bool.and_eq_true, Bool.or_eq_true, Bool.not_eq_true'] at hr
      have hfok := hok f (List.mem_cons_self ..)
      have hsd' : sd.fields = (pre ++ [f]) ++ fr := by simp [hsd]
      have hok' : ∀ g ∈ fr, g.ok = true ∧ g.nocopy = false := fun g hg => hok g (List.mem_cons_of_mem _ hg)
      by_cases hw : fieldWritten sd f x = true
      · have hty : f.ty.ok = true := by
          have := hfok.1; simp only [Field.ok, Bool.and_eq_true] at this; exact this.1.1.1
        have hnil := nilOK_of_written hfok.1 hw
        have hrx : rtOK S f.ty x = true := by
          rcases hr.1 with h | h
          · rw [hw] at h; cases h
          · exact h
        simp only [toWireFields, hw, ↓reduceIte, depthFields] at hd ⊢
        simp only [normFields, seenOf, hw, ↓reduceIte]
        rw [readFields]
        have htag := toWire_tag S x f.ty hnil ht.1
        rw [htag, lookupKnown_at sd pre f fr hsd hpw]
        simp only []
        rw [getD_at done d dr pre.length hlen, readField_eq_readSlot P S total _ _ _ _ _ hfok.2]
        rw [readSlot_norm x f.ty fuel _ d hty hnil ht.1 hrx (fun sid _ => hds.1) (by omega)]
        simp only []
        rw [set_at done d _ dr pre.length hlen]
        have := readFields_norm xr sd fr (pre ++ [f]) (done ++ [norm S f.ty x d]) dr (f.id :: seen) fuel tail
          hsd' hpw hok' (by simp [hlen]) ht.2 hds.2 hr.2 (by omega)
        rw [this]
        simp
      · have hw' : fieldWritten sd f x = false := by simpa using hw
        simp only [toWireFields, hw', Bool.false_eq_true, ↓reduceIte] at hd ⊢
        simp only [normFields, seenOf, hw', Bool.false_eq_true, ↓reduceIte]
        have := readFields_norm xr sd fr (pre ++ [f]) (done ++ [d]) dr seen fuel tail
          hsd' hpw hok' (by simp [hlen]) ht.2 hds.2 hr.2 hd
        simp only [List.append_assoc, List.singleton_append] at this
        exact this
end

end
end Frugal
