/-
  SerFacts.lean — lengths of serialisations: every value takes at least its wire type's minimum,
  fixed-size wire types take exactly their size.
-/
import Frugal.Proofs.WireRT
import Frugal.Valid
import Frugal.Reader
set_option linter.unusedSimpArgs false
namespace Frugal

theorem ser_pos (v : TVal) : 0 < (ser v).length := by
  cases v <;> simp [ser] <;> omega

/-- size of fixed-size wire types as the gopkg skipper's table has it -/
def wireFixed (w : Nat) : Nat :=
  if w = 2 ∨ w = 3 then 1 else if w = 6 then 2 else if w = 8 then 4 else if w = 4 ∨ w = 10 then 8 else 0

theorem ser_fixed_len (v : TVal) (h : wireFixed v.tag > 0) : (ser v).length = wireFixed v.tag := by
  cases v <;> simp [TVal.tag, wireFixed, ser] at h ⊢

theorem wireFixed_scalar (v : TVal) (h : wireFixed v.tag > 0) : v.isScalarOrStr = true := by
  cases v <;> simp [TVal.tag, wireFixed, TVal.isScalarOrStr] at h ⊢

theorem minSer_le (v : TVal) : Params.minSer v.tag ≤ (ser v).length := by
  cases v <;> simp [TVal.tag, Params.minSer, ser] <;> omega

theorem tag_mem_codes (v : TVal) : v.tag ∈ Params.wireCodes := by
  cases v <;> simp [TVal.tag, Params.wireCodes]

section
variable {P : Params}

theorem minWire_le_ser (h : P.valid = true) (v : TVal) : P.minWireOf v.tag ≤ (ser v).length := by
  simp only [Params.valid, Bool.and_eq_true] at h
  have hm := h.1.1.1.1.1.1.1.2
  simp only [Params.validMinWire, List.all_eq_true, Bool.and_eq_true, decide_eq_true_eq] at hm
  have := (hm _ (tag_mem_codes v)).2
  have := minSer_le v
  omega

theorem list_count_fits (h : P.valid = true) (et : Nat) :
    ∀ xs : List TVal, wfList et xs = true → xs.length * P.minWireOf et ≤ (serList xs).length
  | [], _ => by simp [serList]
  | x :: r, hw => by
    simp only [wfList, Bool.and_eq_true, beq_iff_eq] at hw
    have ih := list_count_fits h et r hw.2
    have hx := minWire_le_ser h x
    rw [hw.1.1] at hx
    simp only [serList, List.length_cons, List.length_append, Nat.succ_mul]
    omega

theorem entries_count_fits (h : P.valid = true) (kt vt : Nat) :
    ∀ es : List (TVal × TVal), wfEntries kt vt es = true →
      es.length * (P.minWireOf kt + P.minWireOf vt) ≤ (serEntries es).length
  | [], _ => by simp [serEntries]
  | (a, b) :: r, hw => by
    simp only [wfEntries, Bool.and_eq_true, beq_iff_eq] at hw
    have ih := entries_count_fits h kt vt r hw.2
    have ha := minWire_le_ser h a
    have hb := minWire_le_ser h b
    rw [hw.1.1.1.1] at ha
    rw [hw.1.1.1.2] at hb
    simp only [serEntries, List.length_cons, List.length_append, Nat.succ_mul]
    omega

theorem skipFixed_eq (h : P.valid = true) (w : Nat) (hw : w < 128) : P.skipFixedOf w = wireFixed w := by
  simp only [Params.valid, Bool.and_eq_true] at h
  have hm := h.1.1.1.1.1.2
  simp only [Params.validSkip, Bool.and_eq_true, List.all_eq_true, beq_iff_eq, List.mem_range] at hm
  have := hm.2 w hw
  rw [this]
  unfold wireFixed
  by_cases a : w = 2 ∨ w = 3
  · rcases a with a | a <;> simp [a]
  · by_cases b : w = 6
    · simp [b]
    · by_cases c : w = 8
      · simp [c]
      · by_cases d : w = 4 ∨ w = 10
        · rcases d with d | d <;> simp [d]
        · have : ¬ (w ∈ [2, 3]) := by simpa using a
          have : ¬ (w ∈ [4, 10]) := by simpa using d
          simp_all

theorem skipDepth_eq (h : P.valid = true) : P.skipDepth = 64 := by
  simp only [Params.valid, Bool.and_eq_true] at h
  have hm := h.1.1.1.1.1.2
  simp only [Params.validSkip, Bool.and_eq_true, beq_iff_eq] at hm
  exact hm.1.2
end

theorem tag_lt128 (v : TVal) : v.tag < 128 := by cases v <;> simp [TVal.tag]

end Frugal
