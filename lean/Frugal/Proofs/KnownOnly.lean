/-
  KnownOnly.lean — C11: the recognised fields are read as if the unknown ones were not there, and
  the retained bytes are the serialisation of the unrecognised fields.
-/
import Frugal.Proofs.TailIndep
import Frugal.Proofs.EraseTail
set_option linter.unusedSimpArgs false
set_option linter.unusedVariables false
namespace Frugal

/-- the fields of a message that the schema does not recognise, in message order -/
def unknownOnly (sd : SDesc) : List (Nat × TVal) → List (Nat × TVal)
  | [] => []
  | (id, v) :: r => if (lookupKnown sd id v.tag).isNone then (id, v) :: unknownOnly sd r else unknownOnly sd r

theorem unknownBytes_eq_ser (sd : SDesc) : ∀ fs, unknownBytes sd fs = serFields (unknownOnly sd fs)
  | [] => by simp [unknownBytes, unknownOnly, serFields]
  | (id, v) :: r => by
    simp only [unknownBytes, unknownOnly]
    cases h : (lookupKnown sd id v.tag).isNone
    · simp [unknownBytes_eq_ser sd r]
    · simp [unknownBytes_eq_ser sd r, serFields, serField]

theorem unknownOnly_sublist (sd : SDesc) : ∀ fs, (unknownOnly sd fs).Sublist fs
  | [] => by simp [unknownOnly]
  | (id, v) :: r => by
    simp only [unknownOnly]
    split
    · exact (unknownOnly_sublist sd r).cons_cons _
    · exact (unknownOnly_sublist sd r).cons _

theorem knownOnly_sublist (sd : SDesc) : ∀ fs, (knownOnly sd fs).Sublist fs
  | [] => by simp [knownOnly]
  | (id, v) :: r => by
    simp only [knownOnly]
    split
    · exact (knownOnly_sublist sd r).cons _
    · exact (knownOnly_sublist sd r).cons_cons _

theorem mem_unknownOnly (sd : SDesc) (id : Nat) (v : TVal) : ∀ fs,
    (id, v) ∈ unknownOnly sd fs ↔ (id, v) ∈ fs ∧ (lookupKnown sd id v.tag).isNone = true
  | [] => by simp [unknownOnly]
  | (id', v') :: r => by
    simp only [unknownOnly]
    split
    · rename_i h
      simp only [List.mem_cons, Prod.mk.injEq, mem_unknownOnly sd id v r]
      constructor
      · rintro (⟨rfl, rfl⟩ | ⟨h1, h2⟩)
        · exact ⟨Or.inl ⟨rfl, rfl⟩, h⟩
        · exact ⟨Or.inr h1, h2⟩
      · rintro ⟨⟨rfl, rfl⟩ | h1, h2⟩
        · exact Or.inl ⟨rfl, rfl⟩
        · exact Or.inr ⟨h1, h2⟩
    · rename_i h
      simp only [List.mem_cons, Prod.mk.injEq, mem_unknownOnly sd id v r]
      constructor
      · rintro ⟨h1, h2⟩; exact ⟨Or.inr h1, h2⟩
      · rintro ⟨⟨rfl, rfl⟩ | h1, h2⟩
        · exact absurd h2 h
        · exact ⟨h1, h2⟩

/-- for a schema without `nocopy` fields: when a message is read successfully, the message without
    its unrecognised fields — anywhere in the buffer — is read to the same field values and the same
    presence record, and records nothing -/
theorem readFields_knownOnly (P : Params) (S : Schema) (total total' fuel : Nat) (sd : SDesc)
    (hS : ∀ sid, ∀ f ∈ (S.get sid).fields, f.nocopy = false) (hsd : ∀ g ∈ sd.fields, g.nocopy = false) :
    ∀ (fs : List (Nat × TVal)) (tail tail' : Nat) (st1 st2 st' : LoopSt),
      st1.fs = st2.fs → st1.seen = st2.seen →
      readFields P S total fuel sd fs tail st1 = .ok st' →
      ∃ st'', readFields P S total' fuel sd (knownOnly sd fs) tail' st2 = .ok st'' ∧
        st''.fs = st'.fs ∧ st''.seen = st'.seen ∧ st''.unk = st2.unk
  | [], tail, tail', st1, st2, st', h1, h2, h => by
    rw [readFields] at h
    cases h
    exact ⟨st2, by simp [knownOnly, readFields], h1.symm, h2.symm, rfl⟩
  | (id, v) :: r, tail, tail', st1, st2, st', h1, h2, h => by
    rw [readFields] at h
    cases hk : lookupKnown sd id v.tag with
    | none =>
      simp only [hk] at h
      have hko : knownOnly sd ((id, v) :: r) = knownOnly sd r := by simp [knownOnly, hk]
      rw [hko]
      split at h
      · cases h
      · refine readFields_knownOnly P S total total' fuel sd hS hsd r tail tail' _ st2 st' ?_ ?_ h
        · cases sd.hasHolder <;> simpa using h1
        · cases sd.hasHolder <;> simpa using h2
    | some p =>
      obtain ⟨ix, f⟩ := p
      simp only [hk] at h
      have hko : knownOnly sd ((id, v) :: r) = (id, v) :: knownOnly sd r := by simp [knownOnly, hk]
      rw [hko, readFields]
      simp only [hk]
      rw [readField_tail P S total' total fuel f v _ ((serFields r).length + tail) _
        (hsd f (lookupKnown_mem sd id v.tag ix f hk))
        (fun dest => readVal_tail P S total' total hS v fuel f.ty.deref _ _ dest)]
      rw [← h1]
      split at h
      · rename_i x hx
        exact readFields_knownOnly P S total total' fuel sd hS hsd r tail tail' _ _ st'
          (by simp [h1]) (by simp [h2]) h
      · cases h
      · cases h

/-- the same for every schema: with `nocopy` fields the two results differ at most in the buffer
    offsets that their views record (`erase` forgets them) -/
theorem readFields_knownOnly_erase (P : Params) (S : Schema) (total total' fuel : Nat) (sd : SDesc)
    (hdf : ∀ sid, ∀ f ∈ (S.get sid).fields, ∀ d, f.dflt = some d → plain d = true) :
    ∀ (fs : List (Nat × TVal)) (tail tail' : Nat) (st1 st2 st' : LoopSt),
      eraseList st1.fs = eraseList st2.fs → st1.seen = st2.seen →
      readFields P S total fuel sd fs tail st1 = .ok st' →
      ∃ st'', readFields P S total' fuel sd (knownOnly sd fs) tail' st2 = .ok st'' ∧
        eraseList st''.fs = eraseList st'.fs ∧ st''.seen = st'.seen ∧ st''.unk = st2.unk
  | [], tail, tail', st1, st2, st', h1, h2, h => by
    rw [readFields] at h
    cases h
    exact ⟨st2, by simp [knownOnly, readFields], h1.symm, h2.symm, rfl⟩
  | (id, v) :: r, tail, tail', st1, st2, st', h1, h2, h => by
    rw [readFields] at h
    cases hk : lookupKnown sd id v.tag with
    | none =>
      simp only [hk] at h
      have hko : knownOnly sd ((id, v) :: r) = knownOnly sd r := by simp [knownOnly, hk]
      rw [hko]
      split at h
      · cases h
      · refine readFields_knownOnly_erase P S total total' fuel sd hdf r tail tail' _ st2 st' ?_ ?_ h
        · cases sd.hasHolder <;> simpa using h1
        · cases sd.hasHolder <;> simpa using h2
    | some p =>
      obtain ⟨ix, f⟩ := p
      simp only [hk] at h
      have hko : knownOnly sd ((id, v) :: r) = (id, v) :: knownOnly sd r := by simp [knownOnly, hk]
      rw [hko, readFields]
      simp only [hk]
      have hslot : erase (st1.fs.getD ix default) = erase (st2.fs.getD ix default) := by
        rw [← eraseList_getD, ← eraseList_getD, h1]
      have ih := readField_te P S total total' fuel f v ((serFields r).length + tail)
        ((serFields (knownOnly sd r)).length + tail') _ _ hslot
        (fun dest dest' hd => readVal_te P S total total' hdf v fuel f.ty.deref _ _ dest dest' hd)
      rcases mapv_eq_cases _ _ _ ih with ⟨x, y, g1, g2, e⟩ | ⟨e, g1, g2⟩ | ⟨p, g1, g2⟩
      · rw [g1] at h
        rw [g2]
        simp only at h ⊢
        exact readFields_knownOnly_erase P S total total' fuel sd hdf r tail tail' _ _ st'
          (by simp [eraseList_set, h1, e]) (by simp [h2]) h
      · rw [g1] at h; cases h
      · rw [g1] at h; cases h
end Frugal
