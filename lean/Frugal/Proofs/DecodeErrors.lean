/-
  DecodeErrors.lean — the error classes C05 names, each as a statement about the decoder as written:
  a negative length or count, a count that the remaining input cannot hold, a mismatching element
  type code and a truncated header are reported as errors before any element is decoded (hence
  before anything is allocated for them: `Facts.allocationDiscipline`).
-/
import Frugal.Decode
import Frugal.Valid
set_option linter.unusedSimpArgs false
set_option linter.unusedVariables false
namespace Frugal

section
variable (P : Params) (S : Schema) (total fuel : Nat)

theorem fixed0_list (s : Bool) (et : Ty) (hf : P.fixedSize (Ty.list s et).tt = 0) :
    ¬ (P.fixedSize (Ty.list s et).tt > 0) := by omega

/-- list / set: negative count -/
theorem list_negative_count (s : Bool) (et : Ty) (b r r1 : Bytes) (tp l : Nat) (dest : Val)
    (hf : P.fixedSize (Ty.list s et).tt = 0)
    (h8 : rd8 b = some (tp, r)) (h32 : rd32 r = some (l, r1)) (hlen : ¬ b.length < P.listHeaderLen)
    (hneg : l ≥ 2147483648) :
    decodeType P S total (fuel + 1) (.list s et) b dest = .err .negative := by
  rw [decodeType]
  simp [hf, h8, h32, hlen, hneg]

/-- list / set: element type code differs from the schema's -/
theorem list_type_mismatch (s : Bool) (et : Ty) (b r r1 : Bytes) (tp l : Nat) (dest : Val)
    (hf : P.fixedSize (Ty.list s et).tt = 0)
    (h8 : rd8 b = some (tp, r)) (h32 : rd32 r = some (l, r1)) (hlen : ¬ b.length < P.listHeaderLen)
    (hneg : ¬ l ≥ 2147483648) (hty : et.wire ≠ tp) :
    decodeType P S total (fuel + 1) (.list s et) b dest = .err .typeMismatch := by
  rw [decodeType]
  simp [hf, h8, h32, hlen, hneg, hty]

/-- list / set: more elements announced than the remaining bytes can hold — rejected before the
    element loop -/
theorem list_count_exceeds (s : Bool) (et : Ty) (b r r1 : Bytes) (tp l : Nat) (dest : Val)
    (hf : P.fixedSize (Ty.list s et).tt = 0)
    (h8 : rd8 b = some (tp, r)) (h32 : rd32 r = some (l, r1)) (hlen : ¬ b.length < P.listHeaderLen)
    (hneg : ¬ l ≥ 2147483648) (hty : et.wire = tp) (hl0 : l ≠ 0) (hper : P.minWireOf et.wire ≠ 0)
    (hbig : l > r1.length / P.minWireOf et.wire) :
    decodeType P S total (fuel + 1) (.list s et) b dest = .err .sizeLimit := by
  rw [decodeType]
  subst hty
  simp [hf, h8, h32, hlen, hneg, hl0, hper, hbig]

/-- list / set: truncated header -/
theorem list_truncated_header (s : Bool) (et : Ty) (b : Bytes) (dest : Val)
    (hf : P.fixedSize (Ty.list s et).tt = 0) (hshort : b.length < 5) :
    decodeType P S total (fuel + 1) (.list s et) b dest = .err .short := by
  rw [decodeType]
  simp only [hf, Nat.lt_irrefl, gt_iff_lt, ↓reduceIte]
  match b, hshort with
  | [], _ => simp [rd8]
  | [a], _ => simp [rd8, rd32]
  | [a, c], _ => simp [rd8, rd32]
  | [a, c, d], _ => simp [rd8, rd32]
  | [a, c, d, e], _ => simp [rd8, rd32]

/-- map: negative count, mismatching codes, count the remaining bytes cannot hold -/
theorem map_negative_count (kt vt : Ty) (b r r1 r2 : Bytes) (t0 t1 l : Nat) (dest : Val)
    (hf : P.fixedSize (Ty.map kt vt).tt = 0)
    (h8a : rd8 b = some (t0, r)) (h8b : rd8 r = some (t1, r1)) (h32 : rd32 r1 = some (l, r2))
    (hlen : ¬ b.length < P.mapHeaderLen) (hneg : l ≥ 2147483648) :
    decodeType P S total (fuel + 1) (.map kt vt) b dest = .err .negative := by
  rw [decodeType]
  simp [hf, h8a, h8b, h32, hlen, hneg]

theorem map_type_mismatch (kt vt : Ty) (b r r1 r2 : Bytes) (t0 t1 l : Nat) (dest : Val)
    (hf : P.fixedSize (Ty.map kt vt).tt = 0)
    (h8a : rd8 b = some (t0, r)) (h8b : rd8 r = some (t1, r1)) (h32 : rd32 r1 = some (l, r2))
    (hlen : ¬ b.length < P.mapHeaderLen) (hneg : ¬ l ≥ 2147483648) (hty : t0 ≠ kt.wire ∨ t1 ≠ vt.wire) :
    decodeType P S total (fuel + 1) (.map kt vt) b dest = .err .typeMismatch := by
  rw [decodeType]
  simp [hf, h8a, h8b, h32, hlen, hneg, hty]

theorem map_count_exceeds (kt vt : Ty) (b r r1 r2 : Bytes) (t0 t1 l : Nat) (dest : Val)
    (hf : P.fixedSize (Ty.map kt vt).tt = 0)
    (h8a : rd8 b = some (t0, r)) (h8b : rd8 r = some (t1, r1)) (h32 : rd32 r1 = some (l, r2))
    (hlen : ¬ b.length < P.mapHeaderLen) (hneg : ¬ l ≥ 2147483648) (hk : t0 = kt.wire) (hv : t1 = vt.wire)
    (hper : P.minWireOf kt.wire + P.minWireOf vt.wire ≠ 0)
    (hbig : l > r2.length / (P.minWireOf kt.wire + P.minWireOf vt.wire)) :
    decodeType P S total (fuel + 1) (.map kt vt) b dest = .err .sizeLimit := by
  rw [decodeType]
  subst hk; subst hv
  have hper' : ¬ (P.minWireOf kt.wire + P.minWireOf vt.wire = 0) := hper
  simp only [hf, Nat.lt_irrefl, gt_iff_lt, ↓reduceIte, h8a, h8b, h32, hlen, hneg, ne_eq, not_true_eq_false,
    or_self, hper']
  simp [hbig]

/-- string / binary: negative length, length exceeding the remaining bytes, truncated length -/
theorem str_negative_length (isBin nocopy : Bool) (b r : Bytes) (l : Nat) (h32 : rd32 b = some (l, r))
    (hneg : l ≥ 2147483648) : decodeStr isBin nocopy total b = .err .negative := by
  simp [decodeStr, h32, hneg]

theorem str_length_exceeds (isBin nocopy : Bool) (b r : Bytes) (l : Nat) (h32 : rd32 b = some (l, r))
    (hneg : ¬ l ≥ 2147483648) (hbig : l > r.length) : decodeStr isBin nocopy total b = .err .sizeLimit := by
  have hl0 : l ≠ 0 := by omega
  simp [decodeStr, h32, hneg, hl0, hbig]

theorem str_truncated_length (isBin nocopy : Bool) (b : Bytes) (h : rd32 b = none) :
    decodeStr isBin nocopy total b = .err .short := by
  simp [decodeStr, h]

end
end Frugal
