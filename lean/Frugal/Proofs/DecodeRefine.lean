/-
  DecodeRefine.lean — C03: on the serialisation of every well-formed message (any field order,
  duplicates, unknown fields, any trailing bytes, any depth budget) frugal's byte-level decoder
  computes exactly what the reference reader computes on the parsed message.
-/
import Frugal.Proofs.SkipCorrect
import Frugal.Proofs.DecodeSafe
set_option linter.unusedSimpArgs false
namespace Frugal

theorem mapv_ok {α β} (f : α → β) (a : α) : (Outcome.ok a).mapv f = .ok (f a) := rfl
theorem mapv_err {α β} (f : α → β) (e : ErrKind) : (Outcome.err e : Outcome α).mapv f = .err e := rfl

/-- which wire tag a fixed-size internal tag has -/
theorem wire_of_fixed (t : TT) (h : specFixed t > 0) : wireFixed t.wire = specFixed t := by
  cases t <;> simp [specFixed, TT.wire] at h ⊢ <;> rfl

/-- a fixed-size read of the serialisation of a value with the expected wire tag -/
theorem decodeFixed_ser (t : TT) (tv : TVal) (r : Bytes) (hf : specFixed t > 0) (hw : wf tv = true)
    (ht : tv.tag = t.wire) :
    decodeFixed t (ser tv ++ r) = (readFixed t tv).mapv (·, r) ∧ (ser tv).length = specFixed t := by
  cases t <;> simp only [specFixed, Nat.lt_irrefl] at hf <;>
    cases tv <;> simp only [TVal.tag, TT.wire] at ht <;> first
      | omega
      | (simp only [wf, decide_eq_true_eq] at hw
         first
           | simp [decodeFixed, readFixed, ser, rd8_u8 _ r hw, Outcome.mapv, specFixed]
           | simp [decodeFixed, readFixed, ser, rd16_be16 _ r hw, Outcome.mapv, specFixed]
           | simp [decodeFixed, readFixed, ser, rd32_be32 _ r hw, Outcome.mapv, specFixed]
           | simp [decodeFixed, readFixed, ser, rd64_be64 _ r hw, Outcome.mapv, specFixed])

theorem decodeStr_ser (isBin nocopy : Bool) (total : Nat) (s r : Bytes) (hw : s.length < 2147483648) :
    decodeStr isBin nocopy total (ser (.str s) ++ r) =
      (readStr isBin nocopy total r.length (.str s)).mapv (·, r) := by
  have h32 : s.length < 4294967296 := by omega
  have hn : ¬ s.length ≥ 2147483648 := by omega
  simp only [decodeStr, ser, List.append_assoc, rd32_be32 s.length (s ++ r) h32, hn, ↓reduceIte, readStr]
  by_cases h0 : s.length = 0
  · have : s = [] := List.length_eq_zero_iff.mp h0
    subst this
    simp [Outcome.mapv]
  · have h1 : ¬ s.length > (s ++ r).length := by simp
    simp only [h0, ↓reduceIte, h1, List.take_left', List.drop_left', List.length_append, Outcome.mapv]
    simp

theorem Ty.deref_tt (t : Ty) : t.deref.tt = t.tt := by cases t <;> rfl
theorem Ty.deref_wire (t : Ty) : t.deref.wire = t.wire := by unfold Ty.wire; rw [Ty.deref_tt]

theorem mapv_mapv {α β γ} (o : Outcome α) (f : α → β) (g : β → γ) : (o.mapv f).mapv g = o.mapv (g ∘ f) := by
  cases o <;> rfl

theorem decodeSlot_ser {P : Params} (hP : P.valid = true) (S : Schema) (total fuel : Nat) (g : Bool) (t : Ty)
    (x : TVal) (r : Bytes) (slot : Val) (hw : wf x = true) (ht : x.tag = t.wire)
    (hdt : specFixed t.tt = 0 →
      decodeType P S total fuel t.deref (ser x ++ r) (freshTarget S t slot) =
        (readVal P S total fuel t.deref x r.length (freshTarget S t slot)).mapv (·, r)) :
    decodeSlot P S (decodeType P S total fuel) g t (ser x ++ r) slot =
      (readSlot P S total fuel t x r.length slot).mapv (·, r) := by
  unfold decodeSlot readSlot
  simp only [fixed_eq hP]
  by_cases hf : specFixed t.tt > 0
  · obtain ⟨e, hl⟩ := decodeFixed_ser t.tt x r hf hw ht
    have hg : ¬ ((g && decide ((ser x ++ r).length < specFixed t.tt)) = true) := by
      simp only [List.length_append, Bool.and_eq_true, decide_eq_true_eq]; omega
    simp only [hf, ↓reduceIte, hg, e]
    cases readFixed t.tt x <;> simp [Outcome.mapv]
  · have h0 : specFixed t.tt = 0 := by omega
    simp only [hf, ↓reduceIte, hdt h0]
    cases readVal P S total fuel t.deref x r.length (freshTarget S t slot) <;> simp [Outcome.mapv]

theorem readVal_fixed (P : Params) (S : Schema) (total fuel : Nat) (t : Ty) (tv : TVal) (tail : Nat) (dest : Val)
    (hf : specFixed t.tt > 0) : readVal P S total (fuel + 1) t tv tail dest = readFixed t.tt tv := by
  cases t with
  | base k => simp [readVal, hf]
  | ptr e => simp [readVal, hf]
  | strct s => simp [Ty.tt, specFixed] at hf
  | map k v => simp [Ty.tt, specFixed] at hf
  | list s e => cases s <;> simp [Ty.tt, specFixed] at hf

/-- fixed-size types: no recursion involved -/
theorem decodeType_fixed {P : Params} (hP : P.valid = true) (S : Schema) (total fuel : Nat) (t : Ty) (tv : TVal)
    (r : Bytes) (dest : Val) (hf : specFixed t.tt > 0) (hw : wf tv = true) (ht : tv.tag = t.wire) :
    decodeType P S total (fuel + 1) t (ser tv ++ r) dest =
      (readVal P S total (fuel + 1) t tv r.length dest).mapv (·, r) := by
  obtain ⟨e, hl⟩ := decodeFixed_ser t.tt tv r hf hw ht
  have hg : ¬ ((ser tv).length + r.length < specFixed t.tt) := by omega
  rw [readVal_fixed P S total fuel t tv r.length dest hf, ← e]
  cases t with
  | base k => simp [decodeType, fixed_eq hP, hf, hg]
  | ptr e => simp [decodeType, fixed_eq hP, hf, hg]
  | strct s => simp [Ty.tt, specFixed] at hf
  | map k v => simp [Ty.tt, specFixed] at hf
  | list s e => cases s <;> simp [Ty.tt, specFixed] at hf

theorem fixed_of_wire (t : Ty) (h : wireFixed t.wire > 0) : specFixed t.tt > 0 := by
  unfold Ty.wire at h
  cases ht : t.tt <;> simp [ht, TT.wire, wireFixed, specFixed] at h ⊢

theorem tt_of_wire11 (t : Ty) (h : t.wire = 11) : t.tt = .string := by
  unfold Ty.wire at h
  cases ht : t.tt <;> simp [ht, TT.wire] at h ⊢
theorem tt_of_wire12 (t : Ty) (h : t.wire = 12) : t.tt = .strct := by
  unfold Ty.wire at h
  cases ht : t.tt <;> simp [ht, TT.wire] at h ⊢
theorem tt_of_wire13 (t : Ty) (h : t.wire = 13) : t.tt = .map := by
  unfold Ty.wire at h
  cases ht : t.tt <;> simp [ht, TT.wire] at h ⊢
theorem tt_of_wire14 (t : Ty) (h : t.wire = 14) : t.tt = .set := by
  unfold Ty.wire at h
  cases ht : t.tt <;> simp [ht, TT.wire] at h ⊢
theorem tt_of_wire15 (t : Ty) (h : t.wire = 15) : t.tt = .list := by
  unfold Ty.wire at h
  cases ht : t.tt <;> simp [ht, TT.wire] at h ⊢

theorem findField_mem : ∀ (fs : List Field) (fid ix : Nat) (j : Nat) (f : Field),
    findField fs fid ix = some (j, f) → f ∈ fs
  | [], _, _, _, _, h => by simp [findField] at h
  | g :: r, fid, ix, j, f, h => by
    simp only [findField] at h
    split at h
    · cases h; exact List.mem_cons_self ..
    · exact List.mem_cons_of_mem _ (findField_mem r fid (ix + 1) j f h)

theorem take_be16 (id : Nat) (x : Bytes) : (be16 id ++ x).take 2 = be16 id := by simp [be16]

theorem u8_tag_ne_zero (v : TVal) : ¬ (u8 v.tag = 0) := by
  intro h
  have := congrArg UInt8.toNat h
  simp only [u8_toNat] at this
  have h3 : v.tag % 256 = v.tag := Nat.mod_eq_of_lt (tag_lt v)
  rw [h3] at this
  exact tag_pos v (by simpa using this)

theorem u8_tag_toNat (v : TVal) : (u8 v.tag).toNat = v.tag := by
  simp only [u8_toNat]; exact Nat.mod_eq_of_lt (tag_lt v)

/-- the refinement statement for one transmitted value -/
def Refines (P : Params) (S : Schema) (total : Nat) (tv : TVal) : Prop :=
  ∀ (fuel : Nat) (t : Ty) (r : Bytes) (dest : Val), wf tv = true → tv.tag = t.wire →
    decodeType P S total fuel t (ser tv ++ r) dest = (readVal P S total fuel t tv r.length dest).mapv (·, r)

theorem refines_zero (P : Params) (S : Schema) (total : Nat) (tv : TVal) (t : Ty) (r : Bytes) (dest : Val) :
    decodeType P S total 0 t (ser tv ++ r) dest = (readVal P S total 0 t tv r.length dest).mapv (·, r) := by
  simp [decodeType, readVal, Outcome.mapv]

theorem refines_scalar {P : Params} (hP : P.valid = true) (S : Schema) (total : Nat) (tv : TVal)
    (hs : wireFixed tv.tag > 0) : Refines P S total tv := by
  intro fuel t r dest hw ht
  cases fuel with
  | zero => exact refines_zero P S total tv t r dest
  | succ f => exact decodeType_fixed hP S total f t tv r dest (fixed_of_wire t (by rw [← ht]; exact hs)) hw ht

theorem refines_str {P : Params} (hP : P.valid = true) (S : Schema) (total : Nat) (s : Bytes) :
    Refines P S total (.str s) := by
  intro fuel t r dest hw ht
  cases fuel with
  | zero => exact refines_zero P S total _ t r dest
  | succ fuel =>
    have htt := tt_of_wire11 t (by rw [← ht]; rfl)
    simp only [wf, decide_eq_true_eq] at hw
    cases t with
    | base k =>
      cases k <;> simp only [Ty.tt, Kind.tt] at htt <;> try (cases htt)
      · have h0 : ¬ (specFixed TT.string > 0) := by decide
        rw [decodeType, readVal]
        simp only [fixed_eq hP, h0, ↓reduceIte, Ty.tt, Kind.tt, beq_self_eq_true]
        rw [decodeStr_ser _ _ _ _ _ hw]
      · have h0 : ¬ (specFixed TT.string > 0) := by decide
        rw [decodeType, readVal]
        simp only [fixed_eq hP, h0, ↓reduceIte, Ty.tt, Kind.tt, beq_self_eq_true]
        rw [decodeStr_ser _ _ _ _ _ hw]
    | ptr e =>
      have h0 : ¬ (specFixed (Ty.ptr e).tt > 0) := by rw [htt]; decide
      rw [decodeType, readVal]
      simp only [fixed_eq hP, h0, ↓reduceIte, Outcome.mapv]
    | strct sid => simp [Ty.tt] at htt
    | map k v => simp [Ty.tt] at htt
    | list s e => cases s <;> simp [Ty.tt] at htt

/-! ### loops, given the refinement for the members -/

theorem listLoop_ser {P : Params} (hP : P.valid = true) (S : Schema) (total : Nat) (fuel : Nat) (et : Ty) (g : Bool) :
    ∀ (xs : List TVal) (r : Bytes), (∀ x ∈ xs, Refines P S total x) → wfList et.wire xs = true →
      listLoop (fun bb => decodeSlot P S (decodeType P S total fuel) g et bb (zeroVal S S.length et))
        xs.length (serList xs ++ r) = (readList P S total fuel et xs r.length).mapv (·, r)
  | [], r, _, _ => by simp [listLoop, readList, serList, Outcome.mapv]
  | x :: t, r, hall, hw => by
    simp only [wfList, Bool.and_eq_true, beq_iff_eq] at hw
    obtain ⟨⟨hxt, hx⟩, ht⟩ := hw
    have hslot := decodeSlot_ser hP S total fuel g et x (serList t ++ r) (zeroVal S S.length et) hx hxt
      (fun _ => hall x (List.mem_cons_self ..) fuel et.deref (serList t ++ r) _ hx (by rw [Ty.deref_wire]; exact hxt))
    have ih := listLoop_ser hP S total fuel et g t r (fun y hy => hall y (List.mem_cons_of_mem _ hy)) ht
    rw [List.length_append] at hslot
    rw [readList]
    simp only [serList, List.length_cons, listLoop, List.append_assoc, hslot]
    generalize readSlot P S total fuel et x ((serList t).length + r.length) (zeroVal S S.length et) = o
    cases o with
    | ok v =>
      simp only [Outcome.mapv, ih]
      cases readList P S total fuel et t r.length <;> simp only [Outcome.mapv]
    | err e => simp only [Outcome.mapv]
    | panic p => simp only [Outcome.mapv]

theorem mapLoop_ser {P : Params} (hP : P.valid = true) (S : Schema) (total : Nat) (fuel : Nat) (kt vt : Ty) :
    ∀ (es : List (TVal × TVal)) (r : Bytes) (acc : List (Val × Val)),
      (∀ p ∈ es, Refines P S total p.1 ∧ Refines P S total p.2) → wfEntries kt.wire vt.wire es = true →
      mapLoop kt
        (fun bb => decodeSlot P S (decodeType P S total fuel) true kt bb (zeroVal S S.length kt))
        (fun bb => decodeSlot P S (decodeType P S total fuel) true vt bb (zeroVal S S.length vt))
        es.length (serEntries es ++ r) acc = (readEntries P S total fuel kt vt es r.length acc).mapv (·, r)
  | [], r, acc, _, _ => by simp [mapLoop, readEntries, serEntries, Outcome.mapv]
  | (a, b) :: t, r, acc, hall, hw => by
    simp only [wfEntries, Bool.and_eq_true, beq_iff_eq] at hw
    obtain ⟨⟨⟨⟨hkt, hvt⟩, ha⟩, hb⟩, ht⟩ := hw
    have hab := hall (a, b) (List.mem_cons_self ..)
    have hsa := decodeSlot_ser hP S total fuel true kt a (ser b ++ (serEntries t ++ r)) (zeroVal S S.length kt) ha hkt
      (fun _ => hab.1 fuel kt.deref _ _ ha (by rw [Ty.deref_wire]; exact hkt))
    have hsb := decodeSlot_ser hP S total fuel true vt b (serEntries t ++ r) (zeroVal S S.length vt) hb hvt
      (fun _ => hab.2 fuel vt.deref _ _ hb (by rw [Ty.deref_wire]; exact hvt))
    have ih := fun acc' => mapLoop_ser hP S total fuel kt vt t r acc'
      (fun y hy => hall y (List.mem_cons_of_mem _ hy)) ht
    simp only [List.length_append] at hsa hsb
    rw [readEntries]
    simp only [serEntries, List.length_cons, mapLoop, List.append_assoc, hsa]
    generalize readSlot P S total fuel kt a ((ser b).length + ((serEntries t).length + r.length))
      (zeroVal S S.length kt) = ok
    cases ok with
    | ok k =>
      simp only [Outcome.mapv, hsb]
      generalize readSlot P S total fuel vt b ((serEntries t).length + r.length) (zeroVal S S.length vt) = ov
      cases ov with
      | ok v => simp only [ih]; simp only [Outcome.mapv]
      | err e => simp only [Outcome.mapv]
      | panic p => simp only [Outcome.mapv]
    | err e => simp only [Outcome.mapv]
    | panic p => simp only [Outcome.mapv]

theorem lookupKnown_spec {sd : SDesc} {id tag ix : Nat} {f : Field} (h : lookupKnown sd id tag = some (ix, f)) :
    f ∈ sd.fields ∧ f.ty.wire = tag := by
  unfold lookupKnown at h
  cases hff : findField sd.fields id 0 with
  | none => simp [hff] at h
  | some q =>
    obtain ⟨j, g⟩ := q
    simp only [hff] at h
    split at h
    · rename_i hwire
      cases h
      exact ⟨findField_mem _ _ _ _ _ hff, hwire⟩
    · cases h

/-- one known field: the decoder's three-way branch against the reader's -/
theorem decodeField_ser {P : Params} (hP : P.valid = true) (S : Schema) (total fuel : Nat) (f : Field) (v : TVal)
    (rest : Bytes) (slot : Val) (hfok : f.ok = true) (hv : wf v = true) (hwire : f.ty.wire = v.tag)
    (hrv : Refines P S total v) :
    decodeField P S total (decodeType P S total fuel) f (ser v ++ rest) slot =
      (readField P S total fuel f v rest.length slot).mapv (·, rest) := by
  simp only [Field.ok, Bool.and_eq_true, Bool.or_eq_true, Bool.not_eq_true', beq_iff_eq] at hfok
  have hnc := hfok.1.2
  have hslot := decodeSlot_ser hP S total fuel true f.ty v rest slot hv hwire.symm
    (fun _ => hrv fuel f.ty.deref _ _ hv (by rw [Ty.deref_wire]; exact hwire.symm))
  unfold readField decodeField
  simp only [fixed_eq hP]
  by_cases hf : specFixed f.ty.tt > 0
  · have hz : ¬ (specFixed f.ty.tt = 0) := by omega
    simp only [hf, hz, ↓reduceIte, decide_false, Bool.false_and, Bool.false_eq_true, hslot]
    unfold readSlot
    simp only [hf, ↓reduceIte]
  · have hz : specFixed f.ty.tt = 0 := by omega
    by_cases hnoc : f.nocopy = true
    · have hstr : f.ty.tt = .string := by
        rcases hnc with h | h
        · rw [h] at hnoc; cases hnoc
        · exact h
      have hv11 : v.tag = 11 := by rw [← hwire]; unfold Ty.wire; rw [hstr]; rfl
      cases v with
      | str s =>
        simp only [wf, decide_eq_true_eq] at hv
        have hbp : P.binarySeesThroughPtr = true := by
          have h := hP
          simp only [Params.valid, Bool.and_eq_true] at h
          exact h.2
        have hisb : (f.ty.isBinary || (P.binarySeesThroughPtr && f.ty.deref.isBinary)) = f.ty.deref.isBinary := by
          rw [hbp]
          cases hty : f.ty with
          | base k => cases k <;> rfl
          | ptr e => simp [Ty.isBinary, Ty.deref]
          | _ => rfl
        simp only [hf, hz, hnoc, ↓reduceIte, decide_true, Bool.and_self, hisb, decodeStr_ser _ _ _ _ _ hv]
        generalize readStr f.ty.deref.isBinary true total rest.length (TVal.str s) = o
        cases o <;> simp only [Outcome.mapv, gt_iff_lt, Nat.lt_irrefl, ↓reduceIte]
      | _ => simp [TVal.tag] at hv11
    · have hnoc' : f.nocopy = false := by simpa using hnoc
      simp only [hf, hz, hnoc', ↓reduceIte, decide_true, Bool.and_false, Bool.false_eq_true, hslot]
      unfold readSlot
      simp only [hz, gt_iff_lt, Nat.lt_irrefl, ↓reduceIte]

theorem fieldLoop_ser {P : Params} (hP : P.valid = true) (S : Schema) (total : Nat) (fuel : Nat) (sd : SDesc)
    (hsd : sd.ok = true) :
    ∀ (fs : List (Nat × TVal)) (cnt : Nat) (r : Bytes) (st : LoopSt), (∀ p ∈ fs, Refines P S total p.2) →
      wfFields fs = true → fs.length < cnt →
      fieldLoop P S sd total (decodeType P S total fuel) cnt (serFields fs ++ 0 :: r) st =
        (readFields P S total fuel sd fs (r.length + 1) st).mapv (·, r)
  | [], cnt + 1, r, st, _, _, _ => by simp [fieldLoop, readFields, serFields, Outcome.mapv]
  | (id, v) :: t, cnt + 1, r, st, hall, hw, hc => by
    simp only [wfFields, Bool.and_eq_true, decide_eq_true_eq] at hw
    obtain ⟨⟨hid, hv⟩, ht⟩ := hw
    simp only [List.length_cons] at hc
    have hrv := hall (id, v) (List.mem_cons_self ..)
    have ih := fun st' => fieldLoop_ser hP S total fuel sd hsd t cnt r st'
      (fun y hy => hall y (List.mem_cons_of_mem _ hy)) ht (by omega)
    rw [readFields]
    simp only [serFields, List.cons_append, List.append_assoc, fieldLoop, u8_tag_ne_zero v, ↓reduceIte,
      rd16_be16 id _ hid, u8_tag_toNat]
    cases hk : lookupKnown sd id v.tag with
    | none =>
      simp only [skipM, ser_append_nonempty, Bool.false_eq_true, ↓reduceIte,
        skipType_ser hP v P.skipDepth (serFields t ++ 0 :: r) hv]
      by_cases hdeep : skipNeed v > P.skipDepth
      · have hnd : ¬ skipNeed v ≤ P.skipDepth := by omega
        simp only [hdeep, hnd, ↓reduceIte, Outcome.mapv, beq_self_eq_true]
      · have hnd : skipNeed v ≤ P.skipDepth := by omega
        simp only [hdeep, hnd, ↓reduceIte, drop_ser, take_be16, List.take_left', serField, List.cons_append]
        rw [ih]
    | some p =>
      obtain ⟨ix, f⟩ := p
      obtain ⟨hmem, hwire⟩ := lookupKnown_spec hk
      have hfok : f.ok = true := by
        simp only [SDesc.ok, List.all_eq_true] at hsd
        exact hsd f hmem
      have hfield := decodeField_ser hP S total fuel f v (serFields t ++ 0 :: r) (st.fs.getD ix default)
        hfok hv hwire hrv
      simp only [List.length_append, List.length_cons] at hfield
      simp only [hfield]
      generalize readField P S total fuel f v ((serFields t).length + (r.length + 1)) (st.fs.getD ix default) = o
      cases o with
      | ok x => simp only [Outcome.mapv, ih]
      | err e => simp only [Outcome.mapv]
      | panic p => simp only [Outcome.mapv]

/-- `decodeStruct` from its field loop -/
theorem decodeStruct_of_fieldLoop (P : Params) (S : Schema) (total f sid : Nat) (fs : List (Nat × TVal)) (r : Bytes)
    (hloop : ∀ vs : List Val,
      fieldLoop P S (S.get sid) total (decodeType P S total f) ((serFields fs ++ 0 :: r).length + 1)
        (serFields fs ++ 0 :: r) { fs := vs } =
        (readFields P S total f (S.get sid) fs (r.length + 1) { fs := vs }).mapv (·, r)) (dest : Val) :
    decodeStruct P S total (f + 1) sid (serFields fs ++ 0 :: r) dest =
      (readStruct P S total (f + 1) sid fs r.length dest).mapv (·, r) := by
  cases dest with
  | st vs h =>
    rw [decodeStruct, readStruct]
    simp only [hloop vs]
    generalize readFields P S total f (S.get sid) fs (r.length + 1) { fs := vs } = o
    cases o with
    | ok st =>
      simp only [Outcome.mapv]
      cases firstMissing (S.get sid).fields st.seen <;> simp only [Outcome.mapv]
    | err e => simp only [Outcome.mapv]
    | panic p => simp only [Outcome.mapv]
  | _ =>
    rw [decodeStruct, readStruct]
    all_goals first | (intro _ _ e; cases e) | simp only [Outcome.mapv]

theorem sd_ok_of_schema {S : Schema} (hS : S.ok = true) (sid : Nat) : (S.get sid).ok = true := by
  simp only [Schema.ok, List.all_eq_true] at hS
  simp only [Schema.get, List.getD_eq_getElem?_getD]
  cases hg : S[sid]? with
  | none => simp [SDesc.ok]
  | some sd => simpa using hS sd (List.mem_of_getElem? hg)

theorem refines_struct {P : Params} (hP : P.valid = true) (S : Schema) (hS : S.ok = true) (total : Nat)
    (fs : List (Nat × TVal)) (hall : ∀ p ∈ fs, Refines P S total p.2) : Refines P S total (.strct fs) := by
  intro fuel t r dest hw ht
  cases fuel with
  | zero => exact refines_zero P S total _ t r dest
  | succ fuel =>
    have htt := tt_of_wire12 t (by rw [← ht]; rfl)
    simp only [wf] at hw
    have h0 : ¬ (specFixed TT.strct > 0) := by decide
    have e : ser (.strct fs) ++ r = serFields fs ++ 0 :: r := by simp [ser]
    cases t with
    | strct sid =>
      rw [e, decodeType, readVal]
      simp only [fixed_eq hP, Ty.tt, h0, ↓reduceIte]
      cases fuel with
      | zero => rw [decodeStruct, readStruct]; simp only [Outcome.mapv]
      | succ f =>
        have hl := serFields_len fs
        exact decodeStruct_of_fieldLoop P S total f sid fs r
          (fun vs => fieldLoop_ser hP S total f (S.get sid) (sd_ok_of_schema hS sid) fs _ r { fs := vs } hall hw
            (by simp only [List.length_append]; omega)) _
    | ptr e =>
      have h1 : ¬ (specFixed (Ty.ptr e).tt > 0) := by rw [htt]; decide
      rw [decodeType, readVal]
      simp only [fixed_eq hP, h1, ↓reduceIte, Outcome.mapv]
    | base k => cases k <;> simp [Ty.tt, Kind.tt] at htt
    | map k v => simp [Ty.tt] at htt
    | list s e => cases s <;> simp [Ty.tt] at htt

theorem refines_map {P : Params} (hP : P.valid = true) (S : Schema) (total : Nat) (a b : Nat)
    (es : List (TVal × TVal)) (hall : ∀ p ∈ es, Refines P S total p.1 ∧ Refines P S total p.2) :
    Refines P S total (.map a b es) := by
  intro fuel t r dest hw ht
  cases fuel with
  | zero => exact refines_zero P S total _ t r dest
  | succ fuel =>
    have htt := tt_of_wire13 t (by rw [← ht]; rfl)
    simp only [wf, Bool.and_eq_true, decide_eq_true_eq] at hw
    obtain ⟨⟨⟨hk, hv⟩, hn⟩, he⟩ := hw
    have hk8 := isCode_lt hk
    have hv8 := isCode_lt hv
    have h0 : ¬ (specFixed TT.map > 0) := by decide
    cases t with
    | map kt vt =>
      have h32 : es.length < 4294967296 := by omega
      have hn' : ¬ es.length ≥ 2147483648 := by omega
      have e : ser (.map a b es) ++ r = u8 a :: u8 b :: (be32 es.length ++ (serEntries es ++ r)) := by simp [ser]
      have hmh := (headers_eq hP).2.1
      have hlen : ¬ ((u8 a :: u8 b :: (be32 es.length ++ (serEntries es ++ r))).length < 6) := by
        simp only [List.length_cons, List.length_append, be32_length]; omega
      rw [e, decodeType, readVal]
      simp only [fixed_eq hP, Ty.tt, h0, ↓reduceIte, rd8_u8 a _ (by omega : a < 256),
        rd8_u8 b _ (by omega : b < 256), rd32_be32 es.length _ h32, hmh, hlen, hn']
      by_cases hmis : a ≠ kt.wire ∨ b ≠ vt.wire
      · rw [if_pos hmis, if_pos hmis]; simp only [Outcome.mapv]
      · rw [if_neg hmis, if_neg hmis]
        have hab : a = kt.wire ∧ b = vt.wire := by
          constructor
          · exact Classical.byContradiction fun h => hmis (Or.inl h)
          · exact Classical.byContradiction fun h => hmis (Or.inr h)
        have hkp := minWire_pos hP kt
        have hper : ¬ (P.minWireOf kt.wire + P.minWireOf vt.wire = 0) := by omega
        have hcount : ¬ (es.length > (serEntries es ++ r).length / (P.minWireOf kt.wire + P.minWireOf vt.wire)) := by
          have := entries_count_fits hP a b es he
          rw [hab.1, hab.2] at this
          have h2 : es.length ≤ (serEntries es ++ r).length / (P.minWireOf kt.wire + P.minWireOf vt.wire) := by
            apply (Nat.le_div_iff_mul_le (by omega)).mpr
            simp only [List.length_append]; omega
          omega
        simp only [hper, hcount, ↓reduceIte]
        rw [hab.1, hab.2] at he
        rw [mapLoop_ser hP S total fuel kt vt es r [] hall he]
        generalize readEntries P S total fuel kt vt es r.length [] = o
        cases o <;> simp only [Outcome.mapv]
    | ptr e =>
      have h1 : ¬ (specFixed (Ty.ptr e).tt > 0) := by rw [htt]; decide
      rw [decodeType, readVal]
      simp only [fixed_eq hP, h1, ↓reduceIte, Outcome.mapv]
    | base k => cases k <;> simp [Ty.tt, Kind.tt] at htt
    | strct sid => simp [Ty.tt] at htt
    | list s e => cases s <;> simp [Ty.tt] at htt

/-- the body shared by the list and the set branch, after the 5-byte header has been read -/
theorem listBody_ser {P : Params} (hP : P.valid = true) (S : Schema) (total fuel : Nat) (a : Nat) (et : Ty)
    (xs : List TVal) (r : Bytes) (hall : ∀ x ∈ xs, Refines P S total x) (hl : wfList a xs = true) :
    (if et.wire ≠ a then (Outcome.err ErrKind.typeMismatch : Outcome (Val × Bytes))
      else if xs.length = 0 then Outcome.ok (Val.lst false [], serList xs ++ r)
      else
        if P.minWireOf et.wire = 0 then Outcome.panic PanicKind.other
        else
          if xs.length > (serList xs ++ r).length / P.minWireOf et.wire then Outcome.err ErrKind.sizeLimit
          else
            match listLoop (fun bb => decodeSlot P S (decodeType P S total fuel) false et bb
                (zeroVal S S.length et)) xs.length (serList xs ++ r) with
            | Outcome.ok (xs', r2) => Outcome.ok (Val.lst false xs', r2)
            | Outcome.err e => Outcome.err e
            | Outcome.panic p => Outcome.panic p) =
    (if et.wire ≠ a then (Outcome.err ErrKind.typeMismatch : Outcome Val)
      else if xs.length = 0 then Outcome.ok (Val.lst false [])
      else (readList P S total fuel et xs r.length).mapv fun xs' => Val.lst false xs').mapv (·, r) := by
  by_cases hmis : et.wire ≠ a
  · rw [if_pos hmis, if_pos hmis]; simp only [Outcome.mapv]
  · have hea : et.wire = a := Classical.byContradiction fun h => hmis h
    rw [if_neg hmis, if_neg hmis]
    by_cases h0' : xs.length = 0
    · have : xs = [] := List.length_eq_zero_iff.mp h0'
      subst this
      simp only [List.length_nil, ↓reduceIte, serList, List.nil_append, Outcome.mapv]
    · simp only [h0', ↓reduceIte]
      have hper := minWire_pos hP et
      have hper' : ¬ (P.minWireOf et.wire = 0) := by omega
      have hcount : ¬ (xs.length > (serList xs ++ r).length / P.minWireOf et.wire) := by
        have := list_count_fits hP a xs hl
        rw [← hea] at this
        have h2 : xs.length ≤ (serList xs ++ r).length / P.minWireOf et.wire := by
          apply (Nat.le_div_iff_mul_le (by omega)).mpr
          simp only [List.length_append]; omega
        omega
      simp only [hper', hcount, ↓reduceIte]
      rw [← hea] at hl
      rw [listLoop_ser hP S total fuel et false xs r hall hl]
      generalize readList P S total fuel et xs r.length = o
      cases o <;> simp only [Outcome.mapv]

theorem refines_set {P : Params} (hP : P.valid = true) (S : Schema) (total : Nat) (a : Nat)
    (xs : List TVal) (hall : ∀ x ∈ xs, Refines P S total x) : Refines P S total (.set a xs) := by
  intro fuel t r dest hw ht
  cases fuel with
  | zero => exact refines_zero P S total _ t r dest
  | succ fuel =>
    simp only [wf, Bool.and_eq_true, decide_eq_true_eq] at hw
    obtain ⟨⟨ha, hn⟩, hl⟩ := hw
    have ha8 := isCode_lt ha
    have htt := tt_of_wire14 t (by rw [← ht]; rfl)
    have e : ser (.set a xs) ++ r = u8 a :: (be32 xs.length ++ (serList xs ++ r)) := by simp [ser]
    cases t with
    | list s et =>
      have h0 : ¬ (specFixed (Ty.list s et).tt > 0) := by rw [htt]; decide
      have h32 : xs.length < 4294967296 := by omega
      have hn' : ¬ xs.length ≥ 2147483648 := by omega
      have hlh := (headers_eq hP).2.2.1
      have hlen : ¬ ((u8 a :: (be32 xs.length ++ (serList xs ++ r))).length < 5) := by
        simp only [List.length_cons, List.length_append, be32_length]; omega
      rw [e, decodeType, readVal]
      simp only [fixed_eq hP, h0, ↓reduceIte, rd8_u8 a _ (by omega : a < 256), rd32_be32 xs.length _ h32, hlh,
        hlen, hn']
      exact listBody_ser hP S total fuel a et xs r hall hl
    | ptr e =>
      have h1 : ¬ (specFixed (Ty.ptr e).tt > 0) := by rw [htt]; decide
      rw [decodeType, readVal]
      simp only [fixed_eq hP, h1, ↓reduceIte, Outcome.mapv]
    | base k => cases k <;> simp [Ty.tt, Kind.tt] at htt
    | strct sid => simp [Ty.tt] at htt
    | map k v => simp [Ty.tt] at htt

theorem refines_list' {P : Params} (hP : P.valid = true) (S : Schema) (total : Nat) (a : Nat)
    (xs : List TVal) (hall : ∀ x ∈ xs, Refines P S total x) : Refines P S total (.list a xs) := by
  intro fuel t r dest hw ht
  cases fuel with
  | zero => exact refines_zero P S total _ t r dest
  | succ fuel =>
    simp only [wf, Bool.and_eq_true, decide_eq_true_eq] at hw
    obtain ⟨⟨ha, hn⟩, hl⟩ := hw
    have ha8 := isCode_lt ha
    have htt := tt_of_wire15 t (by rw [← ht]; rfl)
    have e : ser (.list a xs) ++ r = u8 a :: (be32 xs.length ++ (serList xs ++ r)) := by simp [ser]
    cases t with
    | list s et =>
      have h0 : ¬ (specFixed (Ty.list s et).tt > 0) := by rw [htt]; decide
      have h32 : xs.length < 4294967296 := by omega
      have hn' : ¬ xs.length ≥ 2147483648 := by omega
      have hlh := (headers_eq hP).2.2.1
      have hlen : ¬ ((u8 a :: (be32 xs.length ++ (serList xs ++ r))).length < 5) := by
        simp only [List.length_cons, List.length_append, be32_length]; omega
      rw [e, decodeType, readVal]
      simp only [fixed_eq hP, h0, ↓reduceIte, rd8_u8 a _ (by omega : a < 256), rd32_be32 xs.length _ h32, hlh,
        hlen, hn']
      exact listBody_ser hP S total fuel a et xs r hall hl
    | ptr e =>
      have h1 : ¬ (specFixed (Ty.ptr e).tt > 0) := by rw [htt]; decide
      rw [decodeType, readVal]
      simp only [fixed_eq hP, h1, ↓reduceIte, Outcome.mapv]
    | base k => cases k <;> simp [Ty.tt, Kind.tt] at htt
    | strct sid => simp [Ty.tt] at htt
    | map k v => simp [Ty.tt] at htt

/-! ### tying the knot: every transmitted value is read as the reference reader reads it -/

mutual
theorem refines_all {P : Params} (hP : P.valid = true) (S : Schema) (hS : S.ok = true) (total : Nat) :
    ∀ tv : TVal, Refines P S total tv
  | .bool _ => refines_scalar hP S total _ (by simp [TVal.tag, wireFixed])
  | .i8 _ => refines_scalar hP S total _ (by simp [TVal.tag, wireFixed])
  | .double _ => refines_scalar hP S total _ (by simp [TVal.tag, wireFixed])
  | .i16 _ => refines_scalar hP S total _ (by simp [TVal.tag, wireFixed])
  | .i32 _ => refines_scalar hP S total _ (by simp [TVal.tag, wireFixed])
  | .i64 _ => refines_scalar hP S total _ (by simp [TVal.tag, wireFixed])
  | .str s => refines_str hP S total s
  | .strct fs => refines_struct hP S hS total fs (refines_fields hP S hS total fs)
  | .map a b es => refines_map hP S total a b es (refines_entries hP S hS total es)
  | .set a xs => refines_set hP S total a xs (refines_list hP S hS total xs)
  | .list a xs => refines_list' hP S total a xs (refines_list hP S hS total xs)
theorem refines_fields {P : Params} (hP : P.valid = true) (S : Schema) (hS : S.ok = true) (total : Nat) :
    ∀ fs : List (Nat × TVal), ∀ p ∈ fs, Refines P S total p.2
  | [], _, h => by cases h
  | (id, v) :: t, p, h => by
    rcases List.mem_cons.mp h with hp | h'
    · rw [hp]; exact refines_all hP S hS total v
    · exact refines_fields hP S hS total t p h'
theorem refines_entries {P : Params} (hP : P.valid = true) (S : Schema) (hS : S.ok = true) (total : Nat) :
    ∀ es : List (TVal × TVal), ∀ p ∈ es, Refines P S total p.1 ∧ Refines P S total p.2
  | [], _, h => by cases h
  | (a, b) :: t, p, h => by
    rcases List.mem_cons.mp h with hp | h'
    · rw [hp]; exact ⟨refines_all hP S hS total a, refines_all hP S hS total b⟩
    · exact refines_entries hP S hS total t p h'
theorem refines_list {P : Params} (hP : P.valid = true) (S : Schema) (hS : S.ok = true) (total : Nat) :
    ∀ xs : List TVal, ∀ x ∈ xs, Refines P S total x
  | [], _, h => by cases h
  | y :: t, x, h => by
    rcases List.mem_cons.mp h with hp | h'
    · rw [hp]; exact refines_all hP S hS total y
    · exact refines_list hP S hS total t x h'
end

/-- C03, top level: `DecodeObject(ser msg ++ trailing, &dest)` is the reference reader's result and
    the number of bytes up to and including the top-level STOP. -/
theorem decodeM_refines {P : Params} (hP : P.valid = true) (S : Schema) (hS : S.ok = true) (sid : Nat)
    (fs : List (Nat × TVal)) (trailing : Bytes) (dest : Val) (hw : wfFields fs = true) :
    decodeM P S sid (ser (.strct fs) ++ trailing) dest =
      (readMessage P S sid fs trailing.length dest).mapv (·, (ser (.strct fs)).length) := by
  unfold decodeM readMessage
  have e : ser (.strct fs) ++ trailing = serFields fs ++ 0 :: trailing := by simp [ser]
  have hlen : (ser (.strct fs)).length = (serFields fs).length + 1 := by simp [ser]
  have hl := serFields_len fs
  rw [e]
  have htot : (serFields fs ++ 0 :: trailing).length = (ser (.strct fs)).length + trailing.length := by
    simp only [List.length_append, List.length_cons, hlen]; omega
  rw [htot]
  cases hm : P.maxDepth with
  | zero => rw [decodeStruct, readStruct]; simp only [Outcome.mapv]
  | succ f =>
    rw [decodeStruct_of_fieldLoop P S _ f sid fs trailing
      (fun vs => fieldLoop_ser hP S _ f (S.get sid) (sd_ok_of_schema hS sid) fs _ trailing { fs := vs }
        (refines_fields hP S hS _ fs) hw (by simp only [List.length_append]; omega)) dest]
    generalize readStruct P S ((ser (.strct fs)).length + trailing.length) (f + 1) sid fs trailing.length dest = o
    cases o with
    | ok v =>
      simp only [Outcome.mapv]
      congr 2; omega
    | err e => simp only [Outcome.mapv]
    | panic p => simp only [Outcome.mapv]

end Frugal
