/-
  ReadUnk.lean — what a decode leaves in holders meets the hypothesis of the round trip with retained
  bytes (`unkOK`, ReadNormH.lean): every holder of a decoded value serialises fields that the struct
  holding it does not recognise and that the skipper accepted (nesting ≤ its limit), at every nesting
  level.  With HoldersRead (`fitH`) and ReadTyped (`hasTy`) this makes the value an intermediary decoded
  a legitimate input of `roundtrip_holders`: decode, re-encode, decode again loses nothing.
-/
import Frugal.Proofs.ReadNormH
import Frugal.Proofs.HoldersRead
import Frugal.Proofs.ViewsLemmas
set_option linter.unusedSimpArgs false
set_option linter.unusedVariables false
namespace Frugal

section
variable (P : Params) (S : Schema)

theorem unkOK_sc (t : Ty) (n : Nat) : unkOK P S t (.sc n) = true := by cases t <;> simp [unkOK]
theorem unkOK_str (t : Ty) (s : Bytes) : unkOK P S t (.str s) = true := by cases t <;> simp [unkOK]
theorem unkOK_bin (t : Ty) (b : Bool) (s : Bytes) : unkOK P S t (.bin b s) = true := by cases t <;> simp [unkOK]
theorem unkOK_vstr (t : Ty) (o : Nat) (s : Bytes) : unkOK P S t (.vstr o s) = true := by cases t <;> simp [unkOK]
theorem unkOK_vbin (t : Ty) (o : Nat) (s : Bytes) : unkOK P S t (.vbin o s) = true := by cases t <;> simp [unkOK]
theorem unkOK_nilp (t : Ty) : unkOK P S t .nilp = true := by cases t <;> simp [unkOK]
theorem unkOK_default (t : Ty) : unkOK P S t (default : Val) = true := by
  show unkOK P S t (.sc 0) = true
  exact unkOK_sc P S t 0

theorem unkFieldsOK_nil (sd : SDesc) : unkFieldsOK P sd [] = true := rfl

theorem zeroVal_unkOK : ∀ (n : Nat) (t : Ty), unkOK P S t (zeroVal S n t) = true
  | 0, t => by
    cases t with
    | base k => cases k <;> simp [zeroVal, unkOK]
    | _ => simp [zeroVal, unkOK, unkOKList, unkOKEntries, unkOKFields, unkFieldsOK]
  | n + 1, t => by
    cases t with
    | base k => cases k <;> simp [zeroVal, unkOK]
    | strct sid =>
      simp only [zeroVal, unkOK, holderFields_nil, unkFieldsOK_nil, Bool.true_and]
      generalize (S.get sid).fields = fs
      induction fs with
      | nil => simp [unkOKFields]
      | cons f r ih => simp [unkOKFields, zeroVal_unkOK n f.ty, ih]
    | _ => simp [zeroVal, unkOK, unkOKList, unkOKEntries]

theorem readFixed_unkOK (t' : Ty) (t : TT) (tv : TVal) (w : Val) (h : readFixed t tv = .ok w) :
    unkOK P S t' w = true := by
  cases tv <;> simp only [readFixed] at h <;> (repeat' split at h) <;>
    first | (cases h; exact unkOK_sc P S t' _) | cases h

theorem readStr_unkOK (t' : Ty) (isBin nc : Bool) (total tail : Nat) (tv : TVal) (w : Val)
    (h : readStr isBin nc total tail tv = .ok w) : unkOK P S t' w = true := by
  cases tv <;> simp only [readStr] at h <;> try cases h
  split at h
  · cases h; cases isBin <;> simp [unkOK_bin, unkOK_str]
  · cases h; cases nc <;> cases isBin <;> simp [unkOK_bin, unkOK_str, unkOK_vstr, unkOK_vbin]

theorem wrapPtr_unkOK (t : Ty) (w : Val) (h : unkOK P S t.deref w = true) : unkOK P S t (wrapPtr t w) = true := by
  cases t with
  | ptr e =>
    have hp : (Ty.ptr e).isPtr = true := rfl
    simp only [wrapPtr, hp, ↓reduceIte, unkOK]
    simpa [Ty.deref] using h
  | _ => simpa [wrapPtr, Ty.isPtr, Ty.deref] using h

theorem freshTarget_unkOK (t : Ty) (slot : Val) (h : unkOK P S t slot = true) :
    unkOK P S t.deref (freshTarget S t slot) = true := by
  unfold freshTarget
  cases t with
  | ptr e => simp only [Ty.isPtr, ↓reduceIte, Ty.deref]; exact zeroVal_unkOK P S _ e
  | _ => simpa [Ty.isPtr, Ty.deref] using h

theorem unkOKFields_getD : ∀ (fs : List Field) (vs : List Val) (ix : Nat) (f : Field),
    fs[ix]? = some f → unkOKFields P S fs vs = true → unkOK P S f.ty (vs.getD ix default) = true
  | [], _, ix, f, hf, _ => by simp at hf
  | g :: fr, [], ix, f, _, _ => by simp [unkOK_default]
  | g :: fr, v :: vr, 0, f, hf, h => by
    simp only [List.getElem?_cons_zero, Option.some.injEq] at hf
    subst hf
    simp only [unkOKFields, Bool.and_eq_true] at h
    simpa using h.1
  | g :: fr, v :: vr, ix + 1, f, hf, h => by
    simp only [List.getElem?_cons_succ] at hf
    simp only [unkOKFields, Bool.and_eq_true] at h
    simpa using unkOKFields_getD fr vr ix f hf h.2

theorem unkOKFields_set : ∀ (fs : List Field) (vs : List Val) (ix : Nat) (f : Field) (x : Val),
    fs[ix]? = some f → unkOKFields P S fs vs = true → unkOK P S f.ty x = true →
    unkOKFields P S fs (vs.set ix x) = true
  | [], _, ix, f, x, hf, _, _ => by simp at hf
  | g :: fr, [], ix, f, x, _, _, _ => by simp [unkOKFields]
  | g :: fr, v :: vr, 0, f, x, hf, h, hx => by
    simp only [List.getElem?_cons_zero, Option.some.injEq] at hf
    subst hf
    simp only [unkOKFields, Bool.and_eq_true] at h
    simp [unkOKFields, hx, h.2]
  | g :: fr, v :: vr, ix + 1, f, x, hf, h, hx => by
    simp only [List.getElem?_cons_succ] at hf
    simp only [unkOKFields, Bool.and_eq_true] at h
    simp [unkOKFields, h.1, unkOKFields_set fr vr ix f x hf h.2 hx]

theorem mapInsert_unkOK (kt vt : Ty) : ∀ (acc : List (Val × Val)) (k v : Val),
    unkOKEntries P S kt vt acc = true → unkOK P S kt k = true → unkOK P S vt v = true →
    unkOKEntries P S kt vt (mapInsert kt acc k v) = true
  | [], k, v, _, hk, hv => by simp [mapInsert, unkOKEntries, hk, hv]
  | (a, b) :: r, k, v, h, hk, hv => by
    simp only [unkOKEntries, Bool.and_eq_true] at h
    simp only [mapInsert]
    split
    · simp only [unkOKEntries, Bool.and_eq_true]; exact ⟨⟨hk, hv⟩, h.2⟩
    · simp only [unkOKEntries, Bool.and_eq_true]
      exact ⟨h.1, mapInsert_unkOK kt vt r k v h.2 hk hv⟩

theorem applyInit_unkOK : ∀ (fs : List Field) (vs : List Val),
    (∀ f ∈ fs, ∀ d, f.dflt = some d → unkOK P S f.ty d = true) → unkOKFields P S fs vs = true →
    unkOKFields P S fs (applyInit fs vs) = true
  | [], vs, _, h => by simp [unkOKFields]
  | f :: fr, [], _, h => by simp [applyInit, unkOKFields]
  | f :: fr, v :: vr, hd, h => by
    simp only [unkOKFields, Bool.and_eq_true] at h
    simp only [applyInit, unkOKFields, Bool.and_eq_true]
    refine ⟨?_, applyInit_unkOK fr vr (fun g hg => hd g (List.mem_cons_of_mem _ hg)) h.2⟩
    by_cases ha : f.assigned = true
    · simp only [ha, ↓reduceIte]
      cases hdf : f.dflt with
      | none => simpa using h.1
      | some d => simpa using hd f (List.mem_cons_self ..) d hdf
    · have : f.assigned = false := by simpa using ha
      simp only [this, Bool.false_eq_true, ↓reduceIte]
      exact h.1

theorem initDest_unkOK (sid : Nat) (dest : Val)
    (hdf : ∀ f ∈ (S.get sid).fields, ∀ d, f.dflt = some d → unkOK P S f.ty d = true)
    (h : unkOK P S (.strct sid) dest = true) : unkOK P S (.strct sid) (initDest S sid dest) = true := by
  cases dest with
  | st vs hh =>
    simp only [initDest]
    split
    · simp only [unkOK, Bool.and_eq_true] at h ⊢
      exact ⟨h.1, applyInit_unkOK P S _ _ hdf h.2⟩
    · exact h
  | _ => exact h

/-- the unrecognised fields of a message that the field loop accepted are within the skipper's limit -/
theorem readFields_unknown_skippable (total fuel : Nat) (sd : SDesc) : ∀ (fs : List (Nat × TVal)) (tail : Nat)
    (st st' : LoopSt), readFields P S total fuel sd fs tail st = .ok st' →
    unkFieldsOK P sd (unknownOnly sd fs) = true
  | [], _, _, _, _ => rfl
  | (id, v) :: r, tail, st, st', h => by
    rw [readFields] at h
    simp only [unknownOnly]
    cases hk : lookupKnown sd id v.tag with
    | none =>
      simp only [hk] at h
      split at h
      · cases h
      · rename_i hsk
        have ih := readFields_unknown_skippable total fuel sd r tail _ st' h
        simp only [Option.isNone_none, ↓reduceIte, unkFieldsOK, List.all_cons, hk, Bool.true_and,
          Bool.and_eq_true, decide_eq_true_eq]
        exact ⟨by omega, ih⟩
    | some p =>
      obtain ⟨ix, f⟩ := p
      simp only [hk] at h
      simp only [Option.isNone_some, Bool.false_eq_true, ↓reduceIte]
      split at h
      · exact readFields_unknown_skippable total fuel sd r tail _ st' h
      · cases h
      · cases h

/-- the holder a struct ends up with: the unrecognised fields of its message, or what it held -/
theorem holder_unk (sd : SDesc) (fs : List (Nat × TVal)) (hw : wfFields fs = true) (hh : Bytes) (b : Bool)
    (hsk : unkFieldsOK P sd (unknownOnly sd fs) = true)
    (h0 : unkFieldsOK P sd (holderFields hh) = true) :
    unkFieldsOK P sd (holderFields (if b then unknownBytes sd fs else hh)) = true := by
  cases b with
  | false => exact h0
  | true =>
    have hwu := wfFields_sublist _ _ (unknownOnly_sublist sd fs) hw
    simp only [↓reduceIte, unknownBytes_eq_ser, holderFields_ser _ hwu]
    exact hsk
end

section
variable (P : Params) (S : Schema) (total : Nat)
variable (hdf : ∀ sid, ∀ f ∈ (S.get sid).fields, ∀ d, f.dflt = some d → unkOK P S f.ty d = true)
include hdf

mutual
theorem readVal_unkOK : ∀ (tv : TVal) (fuel : Nat) (t : Ty) (tail : Nat) (dest w : Val),
    wf tv = true → unkOK P S t dest = true → readVal P S total fuel t tv tail dest = .ok w →
    unkOK P S t w = true
  | tv, 0, t, tail, dest, w, _, _, h => by simp [readVal] at h
  | tv, fuel + 1, t, tail, dest, w, hw, hd, h => by
    by_cases hfx : specFixed t.tt > 0
    · have hr : readVal P S total (fuel + 1) t tv tail dest = readFixed t.tt tv := by
        cases t with
        | base k => rw [readVal]; simp only [hfx, ↓reduceIte]
        | ptr e => rw [readVal]; simp only [hfx, ↓reduceIte]
        | strct s => simp [Ty.tt, specFixed] at hfx
        | map k v => simp [Ty.tt, specFixed] at hfx
        | list s e => cases s <;> simp [Ty.tt, specFixed] at hfx
      rw [hr] at h
      exact readFixed_unkOK P S t _ _ _ h
    · cases t with
      | base k =>
        rw [readVal] at h; simp only [hfx, ↓reduceIte] at h
        split at h
        · exact readStr_unkOK P S _ _ _ _ _ _ _ h
        · cases h
      | ptr e => rw [readVal] at h; simp only [hfx, ↓reduceIte] at h; cases h
      | map kt vt =>
        cases tv with
        | map a b es =>
          rw [readVal] at h; simp only [hfx, ↓reduceIte] at h
          simp only [wf, Bool.and_eq_true, decide_eq_true_eq] at hw
          split at h
          · cases h
          · obtain ⟨es', h0, rfl⟩ := mapv_ok_inv _ _ _ h
            simp only [unkOK]
            exact readEntries_unkOK es fuel kt vt tail [] es' a b hw.2 rfl h0
        | _ => unfold readVal at h; simp only [hfx, ↓reduceIte] at h; cases h
      | list s et =>
        cases tv with
        | list a xs =>
          rw [readVal] at h; simp only [hfx, ↓reduceIte] at h
          simp only [wf, Bool.and_eq_true, decide_eq_true_eq] at hw
          split at h
          · cases h
          · split at h
            · cases h; simp [unkOK, unkOKList]
            · obtain ⟨xs', h0, rfl⟩ := mapv_ok_inv _ _ _ h
              simp only [unkOK]
              exact readList_unkOK xs fuel et tail xs' a hw.2 h0
        | set a xs =>
          rw [readVal] at h; simp only [hfx, ↓reduceIte] at h
          simp only [wf, Bool.and_eq_true, decide_eq_true_eq] at hw
          split at h
          · cases h
          · split at h
            · cases h; simp [unkOK, unkOKList]
            · obtain ⟨xs', h0, rfl⟩ := mapv_ok_inv _ _ _ h
              simp only [unkOK]
              exact readList_unkOK xs fuel et tail xs' a hw.2 h0
        | _ => unfold readVal at h; simp only [hfx, ↓reduceIte] at h; cases h
      | strct sid =>
        cases tv with
        | strct fs =>
          rw [readVal_struct_any] at h
          simp only [wf] at hw
          have hd' := initDest_unkOK P S sid dest (hdf sid) hd
          cases fuel with
          | zero => simp [readStruct] at h
          | succ f =>
            cases hi : initDest S sid dest with
            | st vs hh =>
              rw [hi] at hd'
              simp only [unkOK, Bool.and_eq_true] at hd'
              rw [hi, readStruct] at h
              split at h
              · rename_i st hl
                split at h
                · cases h
                · cases h
                  have hfs := readFields_unkOK fs f sid (tail + 1) _ st hw hd'.2 hl
                  have hu := holder_content P S total f (S.get sid) fs (tail + 1) vs st
                  have hsk := readFields_unknown_skippable P S total f (S.get sid) fs (tail + 1) _ st hl
                  simp only [unkOK, Bool.and_eq_true]
                  refine ⟨?_, hfs⟩
                  split
                  · rename_i hb
                    rw [hu hb.1 hl]
                    have := holder_unk P (S.get sid) fs hw hh true hsk hd'.1
                    simpa using this
                  · exact hd'.1
              · cases h
              · cases h
            | _ =>
              rw [hi, readStruct_nonst P S total f sid fs tail _ (by intro vs h' hh; cases hh)] at h
              cases h
        | _ => unfold readVal at h; simp only [hfx, ↓reduceIte] at h; cases h
theorem readFields_unkOK : ∀ (fs : List (Nat × TVal)) (fuel : Nat) (sid : Nat) (tail : Nat) (st st' : LoopSt),
    wfFields fs = true → unkOKFields P S (S.get sid).fields st.fs = true →
    readFields P S total fuel (S.get sid) fs tail st = .ok st' →
    unkOKFields P S (S.get sid).fields st'.fs = true
  | [], _, _, _, st, st', _, hs, h => by
    rw [readFields] at h; cases h; exact hs
  | (id, v) :: r, fuel, sid, tail, st, st', hw, hs, h => by
    rw [readFields] at h
    simp only [wfFields, Bool.and_eq_true, decide_eq_true_eq] at hw
    cases hk : lookupKnown (S.get sid) id v.tag with
    | none =>
      simp only [hk] at h
      split at h
      · cases h
      · refine readFields_unkOK r fuel sid tail _ st' hw.2 ?_ h
        cases (S.get sid).hasHolder <;> simpa using hs
    | some p =>
      obtain ⟨ix, f⟩ := p
      simp only [hk] at h
      have hfix := lookupKnown_getElem _ _ _ _ _ hk
      have hslot := unkOKFields_getD P S _ _ ix f hfix hs
      split at h
      · rename_i x hx
        refine readFields_unkOK r fuel sid tail _ st' hw.2 ?_ h
        refine unkOKFields_set P S _ _ ix f x hfix hs ?_
        rw [readField] at hx
        split at hx
        · obtain ⟨w0, h0, rfl⟩ := mapv_ok_inv _ _ _ hx
          exact wrapPtr_unkOK P S _ _ (readFixed_unkOK P S _ _ _ _ h0)
        · split at hx
          · obtain ⟨w0, h0, rfl⟩ := mapv_ok_inv _ _ _ hx
            exact wrapPtr_unkOK P S _ _ (readStr_unkOK P S _ _ _ _ _ _ _ h0)
          · obtain ⟨w0, h0, rfl⟩ := mapv_ok_inv _ _ _ hx
            exact wrapPtr_unkOK P S _ _ (readVal_unkOK v fuel f.ty.deref _ _ w0 hw.1.2
              (freshTarget_unkOK P S f.ty _ hslot) h0)
      · cases h
      · cases h
theorem readList_unkOK : ∀ (xs : List TVal) (fuel : Nat) (et : Ty) (tail : Nat) (vs : List Val) (a : Nat),
    wfList a xs = true → readList P S total fuel et xs tail = .ok vs → unkOKList P S et vs = true
  | [], _, _, _, vs, _, _, h => by rw [readList] at h; cases h; rfl
  | x :: r, fuel, et, tail, vs, a, hw, h => by
    rw [readList] at h
    simp only [wfList, Bool.and_eq_true] at hw
    split at h
    · rename_i w hx
      split at h
      · rename_i ws hws
        cases h
        simp only [unkOKList, Bool.and_eq_true]
        refine ⟨?_, readList_unkOK r fuel et tail ws a hw.2 hws⟩
        rw [readSlot] at hx
        split at hx
        · obtain ⟨w0, h0, rfl⟩ := mapv_ok_inv _ _ _ hx
          exact wrapPtr_unkOK P S _ _ (readFixed_unkOK P S _ _ _ _ h0)
        · obtain ⟨w0, h0, rfl⟩ := mapv_ok_inv _ _ _ hx
          exact wrapPtr_unkOK P S _ _ (readVal_unkOK x fuel et.deref _ _ w0 hw.1.2
            (freshTarget_unkOK P S et _ (zeroVal_unkOK P S _ _)) h0)
      · cases h
      · cases h
    · cases h
    · cases h
theorem readEntries_unkOK : ∀ (es : List (TVal × TVal)) (fuel : Nat) (kt vt : Ty) (tail : Nat)
    (acc res : List (Val × Val)) (a b : Nat), wfEntries a b es = true → unkOKEntries P S kt vt acc = true →
    readEntries P S total fuel kt vt es tail acc = .ok res → unkOKEntries P S kt vt res = true
  | [], _, _, _, _, acc, res, _, _, _, ha, h => by
    rw [readEntries] at h; cases h; exact ha
  | (x, y) :: r, fuel, kt, vt, tail, acc, res, a, b, hw, ha, h => by
    rw [readEntries] at h
    simp only [wfEntries, Bool.and_eq_true] at hw
    split at h
    · rename_i k hk
      split at h
      · rename_i v hv
        have fk : unkOK P S kt k = true := by
          rw [readSlot] at hk
          split at hk
          · obtain ⟨w0, h0, rfl⟩ := mapv_ok_inv _ _ _ hk
            exact wrapPtr_unkOK P S _ _ (readFixed_unkOK P S _ _ _ _ h0)
          · obtain ⟨w0, h0, rfl⟩ := mapv_ok_inv _ _ _ hk
            exact wrapPtr_unkOK P S _ _ (readVal_unkOK x fuel kt.deref _ _ w0 hw.1.1.2
              (freshTarget_unkOK P S kt _ (zeroVal_unkOK P S _ _)) h0)
        have fv : unkOK P S vt v = true := by
          rw [readSlot] at hv
          split at hv
          · obtain ⟨w0, h0, rfl⟩ := mapv_ok_inv _ _ _ hv
            exact wrapPtr_unkOK P S _ _ (readFixed_unkOK P S _ _ _ _ h0)
          · obtain ⟨w0, h0, rfl⟩ := mapv_ok_inv _ _ _ hv
            exact wrapPtr_unkOK P S _ _ (readVal_unkOK y fuel vt.deref _ _ w0 hw.1.2
              (freshTarget_unkOK P S vt _ (zeroVal_unkOK P S _ _)) h0)
        exact readEntries_unkOK r fuel kt vt tail _ res a b hw.2 (mapInsert_unkOK P S kt vt acc k v ha fk fv) h
      · cases h
      · cases h
    · cases h
    · cases h
end

omit total in
/-- top level: what `readMessage` returns for a well-formed message into an `unkOK` destination -/
theorem readMessage_unkOK (sid : Nat) (fs : List (Nat × TVal)) (trailing : Nat) (dest w : Val)
    (hw : wfFields fs = true) (hd : unkOK P S (.strct sid) dest = true)
    (h : readMessage P S sid fs trailing dest = .ok w) : unkOK P S (.strct sid) w = true := by
  unfold readMessage at h
  cases hm : P.maxDepth with
  | zero => rw [hm] at h; simp [readStruct] at h
  | succ f =>
    rw [hm] at h
    cases dest with
    | st vs hh =>
      simp only [unkOK, Bool.and_eq_true] at hd
      rw [readStruct] at h
      split at h
      · rename_i st hl
        split at h
        · cases h
        · cases h
          have hfs := readFields_unkOK P S ((ser (.strct fs)).length + trailing) hdf fs f sid (trailing + 1) _ st hw hd.2 hl
          have hu := holder_content P S ((ser (.strct fs)).length + trailing) f (S.get sid) fs (trailing + 1) vs st
          have hsk := readFields_unknown_skippable P S _ f (S.get sid) fs (trailing + 1) _ st hl
          simp only [unkOK, Bool.and_eq_true]
          refine ⟨?_, hfs⟩
          split
          · rename_i hb
            rw [hu hb.1 hl]
            have := holder_unk P (S.get sid) fs hw hh true hsk hd.1
            simpa using this
          · exact hd.1
      · cases h
      · cases h
    | _ =>
      rw [readStruct_nonst P S _ f sid fs trailing _ (by intro vs h' hh; cases hh)] at h
      cases h
end
end Frugal
