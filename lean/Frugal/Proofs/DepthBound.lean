/-
  DepthBound.lean — C15, the other direction: whatever the reader accepts is nested no deeper, along
  the positions the schema recognises, than its budget.  `knownDepth` counts one per struct / list /
  set / map on a recognised path (fields the schema knows with their declared wire type, elements,
  keys, values); skipped positions are bounded separately by the skipper's own limit (DepthProps).
-/
import Frugal.Proofs.ReqEverywhere
set_option linter.unusedSimpArgs false
set_option linter.unusedVariables false
namespace Frugal

mutual
def knownDepth (S : Schema) : Ty → TVal → Nat
  | .strct sid, .strct fs => knownDepthFields S (S.get sid) fs + 1
  | .list _ e, .list _ xs => knownDepthList S e.deref xs + 1
  | .list _ e, .set _ xs => knownDepthList S e.deref xs + 1
  | .map k v, .map _ _ es => knownDepthEntries S k.deref v.deref es + 1
  | _, _ => 0
def knownDepthFields (S : Schema) (sd : SDesc) : List (Nat × TVal) → Nat
  | [] => 0
  | (id, v) :: r =>
      max (match lookupKnown sd id v.tag with
           | some (_, f) => if f.nocopy then 0 else knownDepth S f.ty.deref v
           | none => 0) (knownDepthFields S sd r)
def knownDepthList (S : Schema) (e : Ty) : List TVal → Nat
  | [] => 0
  | x :: r => max (knownDepth S e x) (knownDepthList S e r)
def knownDepthEntries (S : Schema) (k v : Ty) : List (TVal × TVal) → Nat
  | [] => 0
  | (a, b) :: r => max (max (knownDepth S k a) (knownDepth S v b)) (knownDepthEntries S k v r)
end

theorem knownDepth_of_fixed (S : Schema) (t : Ty) (tv : TVal) (h : specFixed t.tt > 0) :
    knownDepth S t.deref tv = 0 := by
  cases t with
  | base k => cases tv <;> simp [Ty.deref, knownDepth]
  | ptr e =>
    cases e with
    | base k => cases tv <;> simp [Ty.deref, knownDepth]
    | ptr e' => cases tv <;> simp [Ty.deref, knownDepth]
    | strct s => simp [Ty.tt, specFixed] at h
    | list s e' => cases s <;> simp [Ty.tt, specFixed] at h
    | map k v => simp [Ty.tt, specFixed] at h
  | strct s => simp [Ty.tt, specFixed] at h
  | list s e' => cases s <;> simp [Ty.tt, specFixed] at h
  | map k v => simp [Ty.tt, specFixed] at h

section
variable (P : Params) (S : Schema) (total : Nat)

mutual
theorem readVal_depth : ∀ (tv : TVal) (fuel : Nat) (t : Ty) (tail : Nat) (dest w : Val),
    readVal P S total fuel t tv tail dest = .ok w → knownDepth S t tv ≤ fuel
  | tv, 0, t, tail, dest, w, h => by simp [readVal] at h
  | tv, fuel + 1, t, tail, dest, w, h => by
    cases t with
    | base k => cases tv <;> simp [knownDepth]
    | ptr e => cases tv <;> simp [knownDepth]
    | map kt vt =>
      cases tv with
      | map a b es =>
        have hfx : ¬ specFixed (Ty.map kt vt).tt > 0 := by simp [Ty.tt, specFixed]
        rw [readVal] at h; simp only [hfx, ↓reduceIte] at h
        split at h
        · cases h
        · obtain ⟨es', h0, _⟩ := mapv_ok_inv _ _ _ h
          have := readEntries_depth es fuel kt vt tail [] es' h0
          simp only [knownDepth]; omega
      | _ => simp [knownDepth]
    | list s et =>
      have hfx : ¬ specFixed (Ty.list s et).tt > 0 := by cases s <;> simp [Ty.tt, specFixed]
      cases tv with
      | list a xs =>
        rw [readVal] at h; simp only [hfx, ↓reduceIte] at h
        split at h
        · cases h
        · split at h
          · rename_i hz
            have : xs = [] := List.eq_nil_of_length_eq_zero hz
            subst this
            simp [knownDepth, knownDepthList]
          · obtain ⟨xs', h0, _⟩ := mapv_ok_inv _ _ _ h
            have := readList_depth xs fuel et tail xs' h0
            simp only [knownDepth]; omega
      | set a xs =>
        rw [readVal] at h; simp only [hfx, ↓reduceIte] at h
        split at h
        · cases h
        · split at h
          · rename_i hz
            have : xs = [] := List.eq_nil_of_length_eq_zero hz
            subst this
            simp [knownDepth, knownDepthList]
          · obtain ⟨xs', h0, _⟩ := mapv_ok_inv _ _ _ h
            have := readList_depth xs fuel et tail xs' h0
            simp only [knownDepth]; omega
      | _ => simp [knownDepth]
    | strct sid =>
      cases tv with
      | strct fs =>
        rw [readVal_struct_any] at h
        cases fuel with
        | zero => simp [readStruct] at h
        | succ f =>
          cases hd : initDest S sid dest with
          | st vs hh =>
            rw [hd, readStruct] at h
            split at h
            · rename_i st hl
              have := readFields_depth fs f (S.get sid) (tail + 1) _ st hl
              simp only [knownDepth]; omega
            · cases h
            · cases h
          | _ =>
            rw [hd, readStruct_nonst P S total f sid fs tail _ (by intro vs h' hh; cases hh)] at h
            cases h
      | _ => simp [knownDepth]
theorem readFields_depth : ∀ (fs : List (Nat × TVal)) (fuel : Nat) (sd : SDesc) (tail : Nat) (st st' : LoopSt),
    readFields P S total fuel sd fs tail st = .ok st' → knownDepthFields S sd fs ≤ fuel
  | [], _, _, _, _, _, _ => by simp [knownDepthFields]
  | (id, v) :: r, fuel, sd, tail, st, st', h => by
    rw [readFields] at h
    simp only [knownDepthFields]
    cases hk : lookupKnown sd id v.tag with
    | none =>
      simp only [hk] at h
      split at h
      · cases h
      · have := readFields_depth r fuel sd tail _ st' h
        simp only [Nat.zero_max]; exact this
    | some p =>
      obtain ⟨ix, f⟩ := p
      simp only [hk] at h ⊢
      split at h
      · rename_i x hx
        have ih := readFields_depth r fuel sd tail _ st' h
        rw [readField] at hx
        split at hx
        · rename_i hfx
          have := knownDepth_of_fixed S f.ty v hfx
          split <;> simp only [*, Nat.zero_max] <;> exact ih
        · split at hx
          · rename_i hnc
            simp only [hnc, ↓reduceIte, Nat.zero_max]; exact ih
          · rename_i hnc
            obtain ⟨w0, h0, _⟩ := mapv_ok_inv _ _ _ hx
            have := readVal_depth v fuel f.ty.deref _ _ w0 h0
            have hnc' : f.nocopy = false := by simpa using hnc
            simp only [hnc', Bool.false_eq_true, ↓reduceIte]
            omega
      · cases h
      · cases h
theorem readList_depth : ∀ (xs : List TVal) (fuel : Nat) (et : Ty) (tail : Nat) (vs : List Val),
    readList P S total fuel et xs tail = .ok vs → knownDepthList S et.deref xs ≤ fuel
  | [], _, _, _, _, _ => by simp [knownDepthList]
  | x :: r, fuel, et, tail, vs, h => by
    rw [readList] at h
    simp only [knownDepthList]
    split at h
    · rename_i w hw
      split at h
      · rename_i ws hws
        have ih := readList_depth r fuel et tail ws hws
        rw [readSlot] at hw
        split at hw
        · rename_i hfx
          rw [knownDepth_of_fixed S et x hfx]; simp only [Nat.zero_max]; exact ih
        · obtain ⟨w0, h0, _⟩ := mapv_ok_inv _ _ _ hw
          have := readVal_depth x fuel et.deref _ _ w0 h0
          omega
      · cases h
      · cases h
    · cases h
    · cases h
theorem readEntries_depth : ∀ (es : List (TVal × TVal)) (fuel : Nat) (kt vt : Ty) (tail : Nat)
    (acc res : List (Val × Val)), readEntries P S total fuel kt vt es tail acc = .ok res →
    knownDepthEntries S kt.deref vt.deref es ≤ fuel
  | [], _, _, _, _, _, _, _ => by simp [knownDepthEntries]
  | (a, b) :: r, fuel, kt, vt, tail, acc, res, h => by
    rw [readEntries] at h
    simp only [knownDepthEntries]
    split at h
    · rename_i k hk
      split at h
      · rename_i v hv
        have ih := readEntries_depth r fuel kt vt tail _ res h
        have ha : knownDepth S kt.deref a ≤ fuel := by
          rw [readSlot] at hk
          split at hk
          · rename_i hfx; rw [knownDepth_of_fixed S kt a hfx]; omega
          · obtain ⟨w0, h0, _⟩ := mapv_ok_inv _ _ _ hk
            exact readVal_depth a fuel kt.deref _ _ w0 h0
        have hb : knownDepth S vt.deref b ≤ fuel := by
          rw [readSlot] at hv
          split at hv
          · rename_i hfx; rw [knownDepth_of_fixed S vt b hfx]; omega
          · obtain ⟨w0, h0, _⟩ := mapv_ok_inv _ _ _ hv
            exact readVal_depth b fuel vt.deref _ _ w0 h0
        omega
      · cases h
      · cases h
    · cases h
    · cases h
end

omit total in
/-- top level: an accepted message is nested at most `maxDepth` levels along recognised positions -/
theorem readMessage_depth (sid : Nat) (fs : List (Nat × TVal)) (trailing : Nat) (dest w : Val)
    (h : readMessage P S sid fs trailing dest = .ok w) :
    knownDepth S (.strct sid) (.strct fs) ≤ P.maxDepth := by
  unfold readMessage at h
  cases hm : P.maxDepth with
  | zero => rw [hm] at h; simp [readStruct] at h
  | succ f =>
    rw [hm] at h
    cases dest with
    | st vs hh =>
      rw [readStruct] at h
      split at h
      · rename_i st hl
        have := readFields_depth P S _ fs f (S.get sid) (trailing + 1) _ st hl
        simp only [knownDepth]; omega
      · cases h
      · cases h
    | _ =>
      rw [readStruct_nonst P S _ f sid fs trailing _ (by intro vs h' hh; cases hh)] at h
      cases h
end
end Frugal
