/-
  DescMapLemmas.lean — every interleaving of concurrent first uses returns, to every caller, the
  descriptor a sequential execution would have returned; there is no deadlock.
-/
import Frugal.DescMap
namespace Frugal

def inCrit : PC → Bool
  | .locked | .rechecked | .built _ | .stored _ => true
  | _ => false

def agrees (descOf : Nat → Nat) (l : List (Nat × Nat)) : Prop := ∀ k d, (k, d) ∈ l → d = descOf k

theorem lookupFirst_mem {key d : Nat} {l : List (Nat × Nat)} (h : lookupFirst key l = some d) : (key, d) ∈ l := by
  induction l with
  | nil => simp [lookupFirst] at h
  | cons a t ih =>
    obtain ⟨k, x⟩ := a
    simp only [lookupFirst] at h
    split at h
    · rename_i e; cases h; subst e; exact List.mem_cons_self ..
    · exact List.mem_cons_of_mem _ (ih h)

/-- per-thread goodness of a program point -/
def pcGood (descOf : Nat → Nat) (key : Nat) (ret : Option Nat) : PC → Prop
  | .built d => d = descOf key
  | .stored d => d = descOf key
  | .done => ret = some (descOf key)
  | _ => True

structure SInv (descOf : Nat → Nat) (key : Nat → Nat) (s : CSt) : Prop where
  keyFix : s.key = key
  slotOK : agrees descOf s.slot
  snapOK : ∀ t, agrees descOf (s.snap t)
  crit : ∀ t, inCrit (s.pc t) = true ↔ s.owner = some t
  good : ∀ t, pcGood descOf (key t) (s.ret t) (s.pc t)

theorem cinit_inv (descOf : Nat → Nat) (key : Nat → Nat) : SInv descOf key (cinit key) := by
  refine ⟨rfl, ?_, ?_, ?_, ?_⟩
  · intro k d h; simp [cinit] at h
  · intro t k d h; simp [cinit] at h
  · intro t; simp [cinit, inCrit]
  · intro t; simp [cinit, pcGood]

/-- frame lemma: thread `t` moves to `pc'` (with new return value `r'`), the mutex owner becomes
    `o'`, the published list and `t`'s snapshot are replaced by lists that still agree. -/
theorem frame {descOf : Nat → Nat} {key : Nat → Nat} {s : CSt} (h : SInv descOf key s) (t : Nat)
    (pc' : PC) (r' : Option Nat) (o' : Option Nat) (slot' snap' : List (Nat × Nat))
    (hslot : agrees descOf slot') (hsnap : agrees descOf snap')
    (hgood : pcGood descOf (key t) r' pc')
    (hcrit : inCrit pc' = true ↔ o' = some t)
    (hothers : ∀ u, u ≠ t → (s.owner = some u ↔ o' = some u)) :
    SInv descOf key { s with slot := slot', owner := o', pc := upd s.pc t pc', snap := upd s.snap t snap',
                             ret := upd s.ret t r' } := by
  refine ⟨h.keyFix, hslot, ?_, ?_, ?_⟩
  · intro u; by_cases e : u = t
    · simp [upd, e]; exact hsnap
    · simp [upd, e]; exact h.snapOK u
  · intro u; by_cases e : u = t
    · subst e; simp [upd]; exact hcrit
    · simp only [upd, e, ↓reduceIte]; rw [h.crit u]; exact hothers u e
  · intro u; by_cases e : u = t
    · subst e; simp [upd]; exact hgood
    · simp only [upd, e, ↓reduceIte]; exact h.good u

theorem agrees_append {descOf : Nat → Nat} {l : List (Nat × Nat)} {k d : Nat}
    (h : agrees descOf l) (e : d = descOf k) : agrees descOf (l ++ [(k, d)]) := by
  intro k' d' hm
  simp only [List.mem_append, List.mem_singleton, Prod.mk.injEq] at hm
  rcases hm with hm | ⟨rfl, rfl⟩
  · exact h _ _ hm
  · exact e

theorem cstep_inv {descOf : Nat → Nat} {key : Nat → Nat} {s s' : CSt} (h : SInv descOf key s) (t : Nat)
    (hs : cstep descOf s t = some s') : SInv descOf key s' := by
  have hk : s.key t = key t := by rw [h.keyFix]
  have hnot : ∀ {o : Option Nat}, (∀ u, u ≠ t → (s.owner = some u ↔ o = some u)) → True := fun _ => trivial
  unfold cstep at hs
  split at hs
  · -- start
    rename_i hpc
    cases hs
    have := frame h t .loaded (s.ret t) s.owner s.slot s.slot h.slotOK h.slotOK (by simp [pcGood])
      (by have := h.crit t; rw [hpc] at this; simpa [inCrit] using this) (fun u _ => Iff.rfl)
    simpa [upd] using (by
      have e : upd s.ret t (s.ret t) = s.ret := by funext x; simp [upd]; intro e; rw [e]
      rw [e] at this; exact this)
  · -- loaded
    rename_i hpc
    have hc := h.crit t; rw [hpc] at hc
    split at hs
    · rename_i d hl
      cases hs
      have hd : d = descOf (key t) := by
        have := h.snapOK t _ _ (lookupFirst_mem hl); rw [hk] at this; exact this
      have := frame h t .done (some d) s.owner s.slot (s.snap t) h.slotOK (h.snapOK t)
        (by simp [pcGood, hd]) (by simpa [inCrit] using hc) (fun u _ => Iff.rfl)
      have e : upd s.snap t (s.snap t) = s.snap := by funext x; simp [upd]; intro e; rw [e]
      rw [e] at this; exact this
    · cases hs
      have := frame h t .wantLock (s.ret t) s.owner s.slot (s.snap t) h.slotOK (h.snapOK t)
        (by simp [pcGood]) (by simpa [inCrit] using hc) (fun u _ => Iff.rfl)
      have e : upd s.snap t (s.snap t) = s.snap := by funext x; simp [upd]; intro e; rw [e]
      have e2 : upd s.ret t (s.ret t) = s.ret := by funext x; simp [upd]; intro e; rw [e]
      rw [e, e2] at this; exact this
  · -- wantLock
    rename_i hpc
    split at hs
    · rename_i ho
      cases hs
      have := frame h t .locked (s.ret t) (some t) s.slot (s.snap t) h.slotOK (h.snapOK t)
        (by simp [pcGood]) (by simp [inCrit]) (fun u hu => by rw [ho]; simp; exact fun e => hu e.symm)
      have e : upd s.snap t (s.snap t) = s.snap := by funext x; simp [upd]; intro e; rw [e]
      have e2 : upd s.ret t (s.ret t) = s.ret := by funext x; simp [upd]; intro e; rw [e]
      rw [e, e2] at this; exact this
    · cases hs
  · -- locked
    rename_i hpc
    have hc := h.crit t; rw [hpc] at hc
    have hown : s.owner = some t := hc.mp (by simp [inCrit])
    split at hs
    · rename_i d hl
      cases hs
      have hd : d = descOf (key t) := by
        have := h.slotOK _ _ (lookupFirst_mem hl); rw [hk] at this; exact this
      have := frame h t .done (some d) none s.slot (s.snap t) h.slotOK (h.snapOK t)
        (by simp [pcGood, hd]) (by simp [inCrit]) (fun u hu => by rw [hown]; simp; exact fun e => hu e.symm)
      have e : upd s.snap t (s.snap t) = s.snap := by funext x; simp [upd]; intro e; rw [e]
      rw [e] at this; exact this
    · cases hs
      have := frame h t .rechecked (s.ret t) s.owner s.slot (s.snap t) h.slotOK (h.snapOK t)
        (by simp [pcGood]) (by simp [inCrit, hown]) (fun u _ => Iff.rfl)
      have e : upd s.snap t (s.snap t) = s.snap := by funext x; simp [upd]; intro e; rw [e]
      have e2 : upd s.ret t (s.ret t) = s.ret := by funext x; simp [upd]; intro e; rw [e]
      rw [e, e2] at this; exact this
  · -- rechecked
    rename_i hpc
    have hc := h.crit t; rw [hpc] at hc
    have hown : s.owner = some t := hc.mp (by simp [inCrit])
    cases hs
    have := frame h t (.built (descOf (s.key t))) (s.ret t) s.owner s.slot (s.snap t) h.slotOK (h.snapOK t)
      (by simp [pcGood, hk]) (by simp [inCrit, hown]) (fun u _ => Iff.rfl)
    have e : upd s.snap t (s.snap t) = s.snap := by funext x; simp [upd]; intro e; rw [e]
    have e2 : upd s.ret t (s.ret t) = s.ret := by funext x; simp [upd]; intro e; rw [e]
    rw [e, e2] at this; exact this
  · -- built
    rename_i d hpc
    have hc := h.crit t; rw [hpc] at hc
    have hown : s.owner = some t := hc.mp (by simp [inCrit])
    have hg := h.good t; rw [hpc] at hg; simp only [pcGood] at hg
    cases hs
    have := frame h t (.stored d) (s.ret t) s.owner (s.slot ++ [(s.key t, d)]) (s.snap t)
      (agrees_append h.slotOK (by rw [hk]; exact hg)) (h.snapOK t)
      (by simp [pcGood, hg]) (by simp [inCrit, hown]) (fun u _ => Iff.rfl)
    have e : upd s.snap t (s.snap t) = s.snap := by funext x; simp [upd]; intro e; rw [e]
    have e2 : upd s.ret t (s.ret t) = s.ret := by funext x; simp [upd]; intro e; rw [e]
    rw [e, e2] at this; exact this
  · -- stored
    rename_i d hpc
    have hc := h.crit t; rw [hpc] at hc
    have hown : s.owner = some t := hc.mp (by simp [inCrit])
    have hg := h.good t; rw [hpc] at hg; simp only [pcGood] at hg
    cases hs
    have := frame h t .done (some d) none s.slot (s.snap t) h.slotOK (h.snapOK t)
      (by simp [pcGood, hg]) (by simp [inCrit]) (fun u hu => by rw [hown]; simp; exact fun e => hu e.symm)
    have e : upd s.snap t (s.snap t) = s.snap := by funext x; simp [upd]; intro e; rw [e]
    rw [e] at this; exact this
  · cases hs

theorem crun_inv {descOf : Nat → Nat} {key : Nat → Nat} (sched : List Nat) :
    ∀ s, SInv descOf key s → SInv descOf key (crun descOf s sched) := by
  induction sched with
  | nil => intro s h; exact h
  | cons t r ih =>
    intro s h
    simp only [crun]
    split
    · rename_i s' hs; exact ih s' (cstep_inv h t hs)
    · exact ih s h

/-- Agreement: under every schedule, every call that has returned has returned exactly the
    descriptor of its own key — the sequential result. -/
theorem agreement (descOf : Nat → Nat) (key : Nat → Nat) (sched : List Nat) (t : Nat)
    (hd : (crun descOf (cinit key) sched).pc t = .done) :
    (crun descOf (cinit key) sched).ret t = some (descOf (key t)) := by
  have h := crun_inv (descOf := descOf) sched (cinit key) (cinit_inv descOf key)
  have := h.good t
  rw [hd] at this
  exact this

/-- Mutual exclusion: at most one thread is between lock and unlock. -/
theorem mutual_exclusion (descOf : Nat → Nat) (key : Nat → Nat) (sched : List Nat) (t u : Nat)
    (ht : inCrit ((crun descOf (cinit key) sched).pc t) = true)
    (hu : inCrit ((crun descOf (cinit key) sched).pc u) = true) : t = u := by
  have h := crun_inv (descOf := descOf) sched (cinit key) (cinit_inv descOf key)
  have a := (h.crit t).mp ht
  have b := (h.crit u).mp hu
  rw [a] at b; exact Option.some.inj b

/-- Progress (no deadlock): while some thread has not finished, some thread can take a step. -/
theorem progress {descOf : Nat → Nat} {key : Nat → Nat} {s : CSt} (h : SInv descOf key s) (t : Nat)
    (hn : s.pc t ≠ .done) : ∃ u, (cstep descOf s u).isSome = true := by
  by_cases hw : s.pc t = .wantLock
  · cases ho : s.owner with
    | none => exact ⟨t, by simp [cstep, hw, ho]⟩
    | some o =>
      -- the owner is inside the critical section and every such point is enabled
      have hc := (h.crit o).mpr ho
      refine ⟨o, ?_⟩
      unfold cstep
      cases hp : s.pc o <;> simp [hp, inCrit] at hc ⊢
      · split <;> simp
  · refine ⟨t, ?_⟩
    unfold cstep
    cases hp : s.pc t <;> simp [hp] at hn hw ⊢
    · split <;> simp
    · split <;> simp

end Frugal
