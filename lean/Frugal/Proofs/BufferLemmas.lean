/-
  BufferLemmas.lean — the buffer contract of EncodeObject, for every chunking of the output.
-/
import Frugal.Buffer
namespace Frugal

structure AppInv (back : Bytes) (cap : Nat) (done : Bytes) (s : AppSt) : Prop where
  rest : s.rest = back.drop s.pre.length
  preLe : s.pre.length ≤ cap
  total : s.total = done.length
  owned : s.own = true → s.pre = done
  moved : s.own = false → s.total > cap

theorem appendChunk_inv (back : Bytes) (cap : Nat) (done : Bytes) (s : AppSt) (c : Bytes)
    (h : AppInv back cap done s) : AppInv back cap (done ++ c) (appendChunk cap s c) := by
  unfold appendChunk
  by_cases hfit : (s.own && decide (s.total + c.length ≤ cap)) = true
  · simp only [hfit, ↓reduceIte]
    simp only [Bool.and_eq_true, decide_eq_true_eq] at hfit
    obtain ⟨hown, hle⟩ := hfit
    have hpre := h.owned hown
    have ht := h.total
    refine ⟨?_, ?_, ?_, ?_, ?_⟩
    · simp only [h.rest, List.drop_drop, List.length_append]
    · simp only [List.length_append, hpre]; omega
    · simp only [List.length_append]; omega
    · intro _; simp [hpre]
    · intro hf; cases hf
  · simp only [hfit, Bool.false_eq_true, ↓reduceIte]
    have ht := h.total
    refine ⟨h.rest, h.preLe, ?_, ?_, ?_⟩
    · simp only [List.length_append]; omega
    · intro hf; cases hf
    · intro _
      simp only [Bool.and_eq_true, decide_eq_true_eq, not_and, Nat.not_le] at hfit
      cases ho : s.own with
      | true => exact hfit ho
      | false => have := h.moved ho; simp only []; omega

theorem appendAll_inv (back : Bytes) (cap : Nat) (chunks : List Bytes) :
    AppInv back cap chunks.flatten (appendAll cap back chunks) := by
  unfold appendAll
  suffices ∀ (cs : List Bytes) (done : Bytes) (s : AppSt), AppInv back cap done s →
      AppInv back cap (done ++ cs.flatten) (cs.foldl (appendChunk cap) s) by
    have := this chunks [] { pre := [], rest := back, own := true, total := 0 }
      ⟨by simp, by simp, by simp, by intro _; rfl, by intro h; cases h⟩
    simpa using this
  intro cs
  induction cs with
  | nil => intro done s h; simpa using h
  | cons c t ih =>
    intro done s h
    have := ih (done ++ c) (appendChunk cap s c) (appendChunk_inv back cap done s c h)
    simpa [List.foldl_cons, List.flatten_cons, List.append_assoc] using this

theorem drop_pre_append (pre back : Bytes) (n : Nat) (h : pre.length ≤ n) :
    (pre ++ back.drop pre.length).drop n = back.drop n := by
  obtain ⟨i, rfl⟩ : ∃ i, n = pre.length + i := ⟨n - pre.length, by omega⟩
  rw [List.drop_append, List.drop_drop, List.drop_eq_nil_of_le (by omega), List.nil_append]
  congr 1; omega

/-- Whatever is appended, in whatever pieces: the caller's memory behind `len(buf)` is untouched. -/
theorem encodeObject_tail_untouched (back : Bytes) (len : Nat) (chunks : List Bytes) :
    (encodeObjectM back len chunks).2.2.drop len = back.drop len := by
  have h := appendAll_inv back len chunks
  have key : ((appendAll len back chunks).pre ++ (appendAll len back chunks).rest).drop len = back.drop len := by
    rw [h.rest]; exact drop_pre_append _ _ _ h.preLe
  unfold encodeObjectM
  simp only
  split <;> exact key

/-- A buffer that is long enough: success, `n` = the encoded length, the first `n` bytes are the
    encoding and everything after them (inside and outside `len(buf)`) is untouched. -/
theorem encodeObject_fits (back : Bytes) (len : Nat) (chunks : List Bytes)
    (hfit : chunks.flatten.length ≤ len) :
    encodeObjectM back len chunks =
      (chunks.flatten.length, true, chunks.flatten ++ back.drop chunks.flatten.length) := by
  have h := appendAll_inv back len chunks
  have hown : (appendAll len back chunks).own = true := by
    cases ho : (appendAll len back chunks).own with
    | true => rfl
    | false => have := h.moved ho; have := h.total; omega
  have hpre := h.owned hown
  have hn : ¬ chunks.flatten.length > len := by omega
  unfold encodeObjectM
  simp only [h.total, h.rest, hpre]
  rw [if_neg hn]

/-- A buffer that is too short: an error and `n = 0`, never a truncated message. -/
theorem encodeObject_short (back : Bytes) (len : Nat) (chunks : List Bytes)
    (hshort : len < chunks.flatten.length) :
    (encodeObjectM back len chunks).1 = 0 ∧ (encodeObjectM back len chunks).2.1 = false := by
  have h := appendAll_inv back len chunks
  have hn : chunks.flatten.length > len := by omega
  unfold encodeObjectM
  simp only [h.total]
  rw [if_pos hn]; exact ⟨rfl, rfl⟩

end Frugal
