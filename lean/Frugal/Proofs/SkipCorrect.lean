/-
  SkipCorrect.lean — the model of gopkg's skipper, run on the serialisation of a well-formed
  value, returns exactly its length, or a depth error when the value nests deeper than the
  skipper's own budget.
-/
import Frugal.Proofs.SerFacts
set_option linter.unusedSimpArgs false
namespace Frugal

theorem skipStr_ser (s r : Bytes) (h : s.length < 2147483648) :
    skipStr (be32 s.length ++ (s ++ r)) = .ok (4 + s.length) := by
  have h32 : s.length < 4294967296 := by omega
  have hn : ¬ s.length ≥ 2147483648 := by omega
  simp only [skipStr, rd32_be32 s.length (s ++ r) h32]
  simp [hn]

theorem wireFixed_2 : wireFixed 2 = 1 := rfl
theorem wireFixed_3 : wireFixed 3 = 1 := rfl
theorem wireFixed_4 : wireFixed 4 = 8 := rfl
theorem wireFixed_6 : wireFixed 6 = 2 := rfl
theorem wireFixed_8 : wireFixed 8 = 4 := rfl
theorem wireFixed_10 : wireFixed 10 = 8 := rfl
theorem wireFixed_11 : wireFixed 11 = 0 := rfl
theorem wireFixed_12 : wireFixed 12 = 0 := rfl
theorem wireFixed_13 : wireFixed 13 = 0 := rfl
theorem wireFixed_14 : wireFixed 14 = 0 := rfl
theorem wireFixed_15 : wireFixed 15 = 0 := rfl

theorem entries_fixed_len (kt vt : Nat) (hk : wireFixed kt > 0) (hv : wireFixed vt > 0) :
    ∀ es : List (TVal × TVal), wfEntries kt vt es = true →
      (serEntries es).length = es.length * (wireFixed kt + wireFixed vt) ∧ skipNeedEntries es = 0
  | [], _ => by simp [serEntries, skipNeedEntries]
  | (a, b) :: r, hw => by
    simp only [wfEntries, Bool.and_eq_true, beq_iff_eq] at hw
    have ih := entries_fixed_len kt vt hk hv r hw.2
    have ha := ser_fixed_len a (by rw [hw.1.1.1.1]; exact hk)
    have hb := ser_fixed_len b (by rw [hw.1.1.1.2]; exact hv)
    have sa := wireFixed_scalar a (by rw [hw.1.1.1.1]; exact hk)
    have sb := wireFixed_scalar b (by rw [hw.1.1.1.2]; exact hv)
    rw [hw.1.1.1.1] at ha; rw [hw.1.1.1.2] at hb
    simp only [serEntries, List.length_append, List.length_cons, ha, hb, ih.1, skipNeedEntries, sa, sb, ih.2,
      ↓reduceIte, Nat.succ_mul]
    constructor
    · omega
    · simp

theorem list_fixed_len (et : Nat) (he : wireFixed et > 0) :
    ∀ xs : List TVal, wfList et xs = true →
      (serList xs).length = xs.length * wireFixed et ∧ skipNeedList xs = 0
  | [], _ => by simp [serList, skipNeedList]
  | x :: r, hw => by
    simp only [wfList, Bool.and_eq_true, beq_iff_eq] at hw
    have ih := list_fixed_len et he r hw.2
    have hx := ser_fixed_len x (by rw [hw.1.1]; exact he)
    have sx := wireFixed_scalar x (by rw [hw.1.1]; exact he)
    rw [hw.1.1] at hx
    simp only [serList, List.length_append, List.length_cons, hx, ih.1, skipNeedList, sx, ih.2, ↓reduceIte,
      Nat.succ_mul]
    constructor
    · omega
    · simp

/-- can the skipper get through element `x` with `fuel` levels left? -/
def needOK (fuel : Nat) (x : TVal) : Bool := x.isScalarOrStr || decide (skipNeed x ≤ fuel)

theorem needList_iff (fuel : Nat) : ∀ xs : List TVal, skipNeedList xs ≤ fuel ↔ xs.all (needOK fuel) = true
  | [] => by simp [skipNeedList]
  | x :: r => by
    have ih := needList_iff fuel r
    simp only [skipNeedList, Nat.max_le, ih, List.all_cons, Bool.and_eq_true, needOK, Bool.or_eq_true,
      decide_eq_true_eq]
    by_cases h : x.isScalarOrStr = true <;> simp [h]

theorem needFields_iff (fuel : Nat) :
    ∀ fs : List (Nat × TVal), skipNeedFields fs ≤ fuel ↔ fs.all (fun p => needOK fuel p.2) = true
  | [] => by simp [skipNeedFields]
  | (id, x) :: r => by
    have ih := needFields_iff fuel r
    simp only [skipNeedFields, Nat.max_le, ih, List.all_cons, Bool.and_eq_true, needOK, Bool.or_eq_true,
      decide_eq_true_eq]
    by_cases h : x.isScalarOrStr = true <;> simp [h]

theorem needEntries_iff (fuel : Nat) :
    ∀ es : List (TVal × TVal), skipNeedEntries es ≤ fuel ↔
      es.all (fun p => needOK fuel p.1 && needOK fuel p.2) = true
  | [] => by simp [skipNeedEntries]
  | (a, b) :: r => by
    have ih := needEntries_iff fuel r
    simp only [skipNeedEntries, Nat.max_le, ih, List.all_cons, Bool.and_eq_true, needOK, Bool.or_eq_true,
      decide_eq_true_eq]
    by_cases h : a.isScalarOrStr = true <;> by_cases h2 : b.isScalarOrStr = true <;> simp [h, h2]

/-- what `skipElem` returns on the serialisation of one well-formed element -/
def elemResult (fuel : Nat) (x : TVal) : Outcome Nat :=
  if needOK fuel x then .ok (ser x).length else .err .depth

theorem skipElem_ser {P : Params} (hP : P.valid = true) (fuel : Nat) (x : TVal) (r : Bytes) (hw : wf x = true)
    (ih : skipType P fuel x.tag (ser x ++ r) = if skipNeed x ≤ fuel then .ok (ser x).length else .err .depth) :
    skipElem P (skipType P fuel) x.tag (ser x ++ r) = elemResult fuel x := by
  unfold skipElem elemResult needOK
  have h128 : ¬ x.tag ≥ 128 := by have := tag_lt128 x; omega
  simp only [h128, ↓reduceIte, skipFixed_eq hP x.tag (tag_lt128 x)]
  by_cases hf : wireFixed x.tag > 0
  · simp only [hf, ↓reduceIte, wireFixed_scalar x hf, ser_fixed_len x hf, Bool.true_or]
  · simp only [hf, ↓reduceIte]
    cases x with
    | str s =>
      simp only [wf, decide_eq_true_eq] at hw
      simp [TVal.tag, TVal.isScalarOrStr, ser, List.append_assoc, skipStr_ser s r hw]
    | strct fs => simp [TVal.tag, TVal.isScalarOrStr] at ih ⊢; exact ih
    | map kt vt es => simp [TVal.tag, TVal.isScalarOrStr] at ih ⊢; exact ih
    | set et xs => simp [TVal.tag, TVal.isScalarOrStr] at ih ⊢; exact ih
    | list et xs => simp [TVal.tag, TVal.isScalarOrStr] at ih ⊢; exact ih
    | _ => simp [TVal.tag, wireFixed_2, wireFixed_3, wireFixed_4, wireFixed_6, wireFixed_8, wireFixed_10, wireFixed_11, wireFixed_12, wireFixed_13, wireFixed_14, wireFixed_15] at hf

theorem ite_iff_congr {α : Type} {p q : Prop} [Decidable p] [Decidable q] (h : p ↔ q) (a b : α) :
    (if p then a else b) = (if q then a else b) := by
  by_cases hp : p
  · simp [hp, h.mp hp]
  · have : ¬ q := fun hq => hp (h.mpr hq)
    simp [hp, this]

theorem drop_ser (x : TVal) (r : Bytes) : (ser x ++ r).drop (ser x).length = r := by simp

theorem ser_append_nonempty (x : TVal) (r : Bytes) : (ser x ++ r).isEmpty = false := by
  have := ser_pos x
  cases hs : ser x with
  | nil => simp [hs] at this
  | cons a l => simp

theorem skipType_struct (P : Params) (fuel : Nat) (b : Bytes) (h : P.skipFixedOf 12 = 0) :
    skipType P (fuel + 1) 12 b = skipStructLoop P (skipType P fuel) (b.length + 1) b 0 := by
  simp [skipType, h]

theorem skipType_map (P : Params) (fuel kt vt sz : Nat) (r2 : Bytes) (h : P.skipFixedOf 13 = 0)
    (hk : kt < 128) (hv : vt < 128) (hs : sz < 2147483648) :
    skipType P (fuel + 1) 13 (u8 kt :: u8 vt :: (be32 sz ++ r2)) =
      if P.skipFixedOf kt > 0 ∧ P.skipFixedOf vt > 0 then
        (if sz * (P.skipFixedOf kt + P.skipFixedOf vt) > r2.length then .err .skip
         else .ok (6 + sz * (P.skipFixedOf kt + P.skipFixedOf vt)))
      else skipMapLoop P (skipType P fuel) kt vt sz r2 6 := by
  have h1 : ¬ sz ≥ 2147483648 := by omega
  have h2 : ¬ (kt ≥ 128 ∨ vt ≥ 128) := by omega
  simp only [skipType, h, rd8_u8 kt _ (by omega : kt < 256), rd8_u8 vt _ (by omega : vt < 256),
    rd32_be32 sz r2 (by omega : sz < 4294967296)]
  simp [h1, h2]

theorem skipType_list (P : Params) (fuel t et sz : Nat) (r1 : Bytes) (ht : t = 14 ∨ t = 15)
    (h : P.skipFixedOf t = 0) (he : et < 128) (hs : sz < 2147483648) :
    skipType P (fuel + 1) t (u8 et :: (be32 sz ++ r1)) =
      if P.skipFixedOf et > 0 then
        (if sz * P.skipFixedOf et > r1.length then .err .skip else .ok (5 + sz * P.skipFixedOf et))
      else skipListLoop P (skipType P fuel) et sz r1 5 := by
  have h1 : ¬ sz ≥ 2147483648 := by omega
  have h2 : ¬ et ≥ 128 := by omega
  have h3 : ¬ t ≥ 128 := by omega
  have h4 : ¬ t = 11 := by omega
  have h5 : ¬ t = 13 := by omega
  simp only [skipType, h, h3, h4, h5, ht, Nat.lt_irrefl, ↓reduceIte, rd8_u8 et _ (by omega : et < 256),
    rd32_be32 sz r1 (by omega : sz < 4294967296)]
  simp [h1, h2]

mutual
theorem skipType_ser {P : Params} (hP : P.valid = true) :
    ∀ (v : TVal) (fuel : Nat) (r : Bytes), wf v = true →
      skipType P fuel v.tag (ser v ++ r) = if skipNeed v ≤ fuel then .ok (ser v).length else .err .depth
  | v, 0, r, _ => by
    have : ¬ skipNeed v ≤ 0 := by cases v <;> simp [skipNeed]
    simp [skipType, this]
  | .bool b, fuel + 1, r, _ => by
    simp [skipType, TVal.tag, skipFixed_eq hP, wireFixed_2, wireFixed_3, wireFixed_4, wireFixed_6, wireFixed_8, wireFixed_10, wireFixed_11, wireFixed_12, wireFixed_13, wireFixed_14, wireFixed_15, ser, skipNeed]
  | .i8 b, fuel + 1, r, _ => by
    simp [skipType, TVal.tag, skipFixed_eq hP, wireFixed_2, wireFixed_3, wireFixed_4, wireFixed_6, wireFixed_8, wireFixed_10, wireFixed_11, wireFixed_12, wireFixed_13, wireFixed_14, wireFixed_15, ser, skipNeed]
  | .double n, fuel + 1, r, _ => by
    simp [skipType, TVal.tag, skipFixed_eq hP, wireFixed_2, wireFixed_3, wireFixed_4, wireFixed_6, wireFixed_8, wireFixed_10, wireFixed_11, wireFixed_12, wireFixed_13, wireFixed_14, wireFixed_15, ser, skipNeed]
  | .i16 n, fuel + 1, r, _ => by
    simp [skipType, TVal.tag, skipFixed_eq hP, wireFixed_2, wireFixed_3, wireFixed_4, wireFixed_6, wireFixed_8, wireFixed_10, wireFixed_11, wireFixed_12, wireFixed_13, wireFixed_14, wireFixed_15, ser, skipNeed]
  | .i32 n, fuel + 1, r, _ => by
    simp [skipType, TVal.tag, skipFixed_eq hP, wireFixed_2, wireFixed_3, wireFixed_4, wireFixed_6, wireFixed_8, wireFixed_10, wireFixed_11, wireFixed_12, wireFixed_13, wireFixed_14, wireFixed_15, ser, skipNeed]
  | .i64 n, fuel + 1, r, _ => by
    simp [skipType, TVal.tag, skipFixed_eq hP, wireFixed_2, wireFixed_3, wireFixed_4, wireFixed_6, wireFixed_8, wireFixed_10, wireFixed_11, wireFixed_12, wireFixed_13, wireFixed_14, wireFixed_15, ser, skipNeed]
  | .str s, fuel + 1, r, hw => by
    simp only [wf, decide_eq_true_eq] at hw
    simp [skipType, TVal.tag, skipFixed_eq hP, wireFixed_2, wireFixed_3, wireFixed_4, wireFixed_6, wireFixed_8, wireFixed_10, wireFixed_11, wireFixed_12, wireFixed_13, wireFixed_14, wireFixed_15, ser, skipNeed, List.append_assoc, skipStr_ser s r hw]
  | .strct fs, fuel + 1, r, hw => by
    simp only [wf] at hw
    have hl := serFields_len fs
    have hloop := skipStructLoop_ser hP fs fuel ((serFields fs ++ 0 :: r).length + 1) r 0 hw
      (by simp only [List.length_append]; omega)
    have hiff : skipNeed (.strct fs) ≤ fuel + 1 ↔ fs.all (fun p => needOK fuel p.2) = true := by
      rw [← needFields_iff]; simp only [skipNeed]; omega
    have e : ser (.strct fs) ++ r = serFields fs ++ 0 :: r := by simp [ser]
    have hlen : (ser (.strct fs)).length = 0 + (serFields fs).length + 1 := by simp [ser]
    rw [e, show (TVal.strct fs).tag = 12 from rfl,
      skipType_struct P fuel _ (by rw [skipFixed_eq hP 12 (by decide)]; rfl), hloop, hlen]
    exact ite_iff_congr hiff.symm _ _
  | .map kt vt es, fuel + 1, r, hw => by
    simp only [wf, Bool.and_eq_true, decide_eq_true_eq] at hw
    obtain ⟨⟨⟨hk, hv⟩, hn⟩, he⟩ := hw
    have hk8 := isCode_lt hk
    have hv8 := isCode_lt hv
    have e : ser (.map kt vt es) ++ r = u8 kt :: u8 vt :: (be32 es.length ++ (serEntries es ++ r)) := by
      simp [ser]
    have hlen : (ser (.map kt vt es)).length = 6 + (serEntries es).length := by simp [ser]; omega
    rw [e, show (TVal.map kt vt es).tag = 13 from rfl,
      skipType_map P fuel kt vt es.length _ (by rw [skipFixed_eq hP 13 (by decide)]; rfl) hk8 hv8 hn,
      skipFixed_eq hP kt hk8, skipFixed_eq hP vt hv8, hlen]
    by_cases hfast : wireFixed kt > 0 ∧ wireFixed vt > 0
    · obtain ⟨e1, e2⟩ := entries_fixed_len kt vt hfast.1 hfast.2 es he
      have hneed : skipNeed (.map kt vt es) ≤ fuel + 1 := by simp only [skipNeed, e2]; omega
      rw [if_pos hfast, if_pos hneed, e1]
      have : ¬ (es.length * (wireFixed kt + wireFixed vt) > (serEntries es ++ r).length) := by
        rw [List.length_append, e1]; omega
      rw [if_neg this]
    · rw [if_neg hfast, skipMapLoop_ser hP es fuel kt vt r 6 he]
      have hiff : skipNeed (.map kt vt es) ≤ fuel + 1 ↔
          es.all (fun p => needOK fuel p.1 && needOK fuel p.2) = true := by
        rw [← needEntries_iff]; simp only [skipNeed]; omega
      exact ite_iff_congr hiff.symm _ _
  | .set et xs, fuel + 1, r, hw => by
    simp only [wf, Bool.and_eq_true, decide_eq_true_eq] at hw
    obtain ⟨⟨he, hn⟩, hl⟩ := hw
    have he8 := isCode_lt he
    have e : ser (.set et xs) ++ r = u8 et :: (be32 xs.length ++ (serList xs ++ r)) := by simp [ser]
    have hlen : (ser (.set et xs)).length = 5 + (serList xs).length := by simp [ser]; omega
    rw [e, show (TVal.set et xs).tag = 14 from rfl,
      skipType_list P fuel 14 et xs.length _ (Or.inl rfl) (by rw [skipFixed_eq hP 14 (by decide)]; rfl) he8 hn,
      skipFixed_eq hP et he8, hlen]
    by_cases hfast : wireFixed et > 0
    · obtain ⟨e1, e2⟩ := list_fixed_len et hfast xs hl
      have hneed : skipNeed (.set et xs) ≤ fuel + 1 := by simp only [skipNeed, e2]; omega
      rw [if_pos hfast, if_pos hneed, e1]
      have : ¬ (xs.length * wireFixed et > (serList xs ++ r).length) := by
        rw [List.length_append, e1]; omega
      rw [if_neg this]
    · rw [if_neg hfast, skipListLoop_ser hP xs fuel et r 5 hl]
      have hiff : skipNeed (.set et xs) ≤ fuel + 1 ↔ xs.all (needOK fuel) = true := by
        rw [← needList_iff]; simp only [skipNeed]; omega
      exact ite_iff_congr hiff.symm _ _
  | .list et xs, fuel + 1, r, hw => by
    simp only [wf, Bool.and_eq_true, decide_eq_true_eq] at hw
    obtain ⟨⟨he, hn⟩, hl⟩ := hw
    have he8 := isCode_lt he
    have e : ser (.list et xs) ++ r = u8 et :: (be32 xs.length ++ (serList xs ++ r)) := by simp [ser]
    have hlen : (ser (.list et xs)).length = 5 + (serList xs).length := by simp [ser]; omega
    rw [e, show (TVal.list et xs).tag = 15 from rfl,
      skipType_list P fuel 15 et xs.length _ (Or.inr rfl) (by rw [skipFixed_eq hP 15 (by decide)]; rfl) he8 hn,
      skipFixed_eq hP et he8, hlen]
    by_cases hfast : wireFixed et > 0
    · obtain ⟨e1, e2⟩ := list_fixed_len et hfast xs hl
      have hneed : skipNeed (.list et xs) ≤ fuel + 1 := by simp only [skipNeed, e2]; omega
      rw [if_pos hfast, if_pos hneed, e1]
      have : ¬ (xs.length * wireFixed et > (serList xs ++ r).length) := by
        rw [List.length_append, e1]; omega
      rw [if_neg this]
    · rw [if_neg hfast, skipListLoop_ser hP xs fuel et r 5 hl]
      have hiff : skipNeed (.list et xs) ≤ fuel + 1 ↔ xs.all (needOK fuel) = true := by
        rw [← needList_iff]; simp only [skipNeed]; omega
      exact ite_iff_congr hiff.symm _ _
theorem skipStructLoop_ser {P : Params} (hP : P.valid = true) :
    ∀ (fs : List (Nat × TVal)) (fuel cnt : Nat) (r : Bytes) (i : Nat), wfFields fs = true → fs.length < cnt →
      skipStructLoop P (skipType P fuel) cnt (serFields fs ++ 0 :: r) i =
        if fs.all (fun p => needOK fuel p.2) = true then .ok (i + (serFields fs).length + 1) else .err .depth
  | [], fuel, cnt + 1, r, i, _, _ => by simp [serFields, skipStructLoop]
  | (id, v) :: t, fuel, cnt + 1, r, i, hw, hc => by
    simp only [wfFields, Bool.and_eq_true, decide_eq_true_eq] at hw
    obtain ⟨⟨hid, hv⟩, ht⟩ := hw
    simp only [List.length_cons] at hc
    have ihv := skipType_ser hP v fuel (serFields t ++ 0 :: r) hv
    have e1 := skipElem_ser hP fuel v (serFields t ++ 0 :: r) hv ihv
    have ih := skipStructLoop_ser hP t fuel cnt r (i + 3 + (ser v).length) ht (by omega)
    have hne : ¬ (u8 v.tag = 0) := by
      intro h
      have := congrArg UInt8.toNat h
      simp only [u8_toNat] at this
      have h1 := tag_lt v
      have h2 := tag_pos v
      have h3 : v.tag % 256 = v.tag := Nat.mod_eq_of_lt h1
      rw [h3] at this
      exact h2 (by simpa using this)
    have htn : (u8 v.tag).toNat = v.tag := by
      simp only [u8_toNat]; exact Nat.mod_eq_of_lt (tag_lt v)
    simp only [serFields, List.cons_append, List.append_assoc, skipStructLoop, hne, ↓reduceIte, be16,
      List.nil_append, List.drop_succ_cons, List.drop_zero, htn, ser_append_nonempty, Bool.false_eq_true, e1]
    unfold elemResult
    simp only [List.all_cons, List.length_cons, List.length_append]
    cases hk : needOK fuel v with
    | true =>
      simp only [↓reduceIte, drop_ser, ih, Bool.true_and]
      cases hall : (t.all fun p => needOK fuel p.2) <;> simp [hall] <;> omega
    | false => simp
theorem skipListLoop_ser {P : Params} (hP : P.valid = true) :
    ∀ (xs : List TVal) (fuel et : Nat) (r : Bytes) (i : Nat), wfList et xs = true →
      skipListLoop P (skipType P fuel) et xs.length (serList xs ++ r) i =
        if xs.all (needOK fuel) = true then .ok (i + (serList xs).length) else .err .depth
  | [], fuel, et, r, i, _ => by simp [serList, skipListLoop]
  | x :: t, fuel, et, r, i, hw => by
    simp only [wfList, Bool.and_eq_true, beq_iff_eq] at hw
    obtain ⟨⟨hxt, hx⟩, ht⟩ := hw
    have ihx := skipType_ser hP x fuel (serList t ++ r) hx
    have e1 := skipElem_ser hP fuel x (serList t ++ r) hx ihx
    rw [hxt] at e1
    have ih := skipListLoop_ser hP t fuel et r (i + (ser x).length) ht
    simp only [serList, List.length_cons, skipListLoop, List.append_assoc, ser_append_nonempty,
      Bool.false_eq_true, ↓reduceIte, e1]
    unfold elemResult
    simp only [List.all_cons, List.length_append]
    cases hk : needOK fuel x with
    | true =>
      simp only [↓reduceIte, drop_ser, ih, Bool.true_and]
      cases hall : (t.all (needOK fuel)) <;> simp [hall] <;> omega
    | false => simp
theorem skipMapLoop_ser {P : Params} (hP : P.valid = true) :
    ∀ (es : List (TVal × TVal)) (fuel kt vt : Nat) (r : Bytes) (i : Nat), wfEntries kt vt es = true →
      skipMapLoop P (skipType P fuel) kt vt es.length (serEntries es ++ r) i =
        if es.all (fun p => needOK fuel p.1 && needOK fuel p.2) = true then .ok (i + (serEntries es).length)
        else .err .depth
  | [], fuel, kt, vt, r, i, _ => by simp [serEntries, skipMapLoop]
  | (a, b) :: t, fuel, kt, vt, r, i, hw => by
    simp only [wfEntries, Bool.and_eq_true, beq_iff_eq] at hw
    obtain ⟨⟨⟨⟨hkt, hvt⟩, ha⟩, hb⟩, ht⟩ := hw
    have iha := skipType_ser hP a fuel (ser b ++ (serEntries t ++ r)) ha
    have ea := skipElem_ser hP fuel a (ser b ++ (serEntries t ++ r)) ha iha
    rw [hkt] at ea
    have ihb := skipType_ser hP b fuel (serEntries t ++ r) hb
    have eb := skipElem_ser hP fuel b (serEntries t ++ r) hb ihb
    rw [hvt] at eb
    have ih := skipMapLoop_ser hP t fuel kt vt r (i + (ser a).length + (ser b).length) ht
    simp only [serEntries, List.length_cons, skipMapLoop, List.append_assoc, ser_append_nonempty,
      Bool.false_eq_true, ↓reduceIte, ea]
    unfold elemResult
    simp only [List.all_cons, List.length_append]
    cases hka : needOK fuel a with
    | true =>
      simp only [↓reduceIte, drop_ser, ser_append_nonempty, Bool.false_eq_true, eb, Bool.true_and]
      unfold elemResult
      cases hkb : needOK fuel b with
      | true =>
        simp only [↓reduceIte, drop_ser, ih, Bool.true_and]
        cases hall : (t.all fun p => needOK fuel p.1 && needOK fuel p.2) <;> simp [hall] <;> omega
      | false => simp
    | false => simp
end

end Frugal
