/-
  Cells.lean — C05, allocation on the accepting side.  The decoder allocates one cell per list / set
  element, two (key, value) per map entry, one target per pointer field — each a bounded number of bytes
  (`tType.Size` of the element type).  In a well-formed message every such cell owns at least one byte of
  the message, so the number of cells of everything a successful decode created is less than the number
  of bytes it consumed: what `DecodeObject` accepts it built in memory proportional to the input.  (The
  disproportion of D22 is confined to inputs that are rejected in the end: the cells are claimed by
  nested counts before the bytes that would have to back them are read.)
-/
import Frugal.Proofs.WireRT
set_option linter.unusedSimpArgs false
namespace Frugal

/- the storage cells a reader creates for a value: one per struct field value, list / set element, two per
   map entry, recursively -/
mutual
def cells : TVal → Nat
  | .strct fs => cellsFields fs
  | .map _ _ es => cellsEntries es
  | .set _ xs => cellsList xs
  | .list _ xs => cellsList xs
  | _ => 0
def cellsFields : List (Nat × TVal) → Nat
  | [] => 0
  | (_, v) :: r => 1 + cells v + cellsFields r
def cellsEntries : List (TVal × TVal) → Nat
  | [] => 0
  | (k, v) :: r => 2 + cells k + cells v + cellsEntries r
def cellsList : List TVal → Nat
  | [] => 0
  | v :: r => 1 + cells v + cellsList r
end

mutual
theorem cells_lt_ser : ∀ v : TVal, cells v + 1 ≤ (ser v).length
  | .bool _ => by simp [cells, ser]
  | .i8 _ => by simp [cells, ser]
  | .double _ => by simp [cells, ser]
  | .i16 _ => by simp [cells, ser]
  | .i32 _ => by simp [cells, ser]
  | .i64 _ => by simp [cells, ser]
  | .str _ => by simp [cells, ser]; omega
  | .strct fs => by
    have := cellsFields_le_ser fs
    simp only [cells, ser, List.length_append, List.length_cons, List.length_nil]; omega
  | .map _ _ es => by
    have := cellsEntries_le_ser es
    simp only [cells, ser, List.length_append, List.length_cons, be32_length]; omega
  | .set _ xs => by
    have := cellsList_le_ser xs
    simp only [cells, ser, List.length_append, List.length_cons, be32_length]; omega
  | .list _ xs => by
    have := cellsList_le_ser xs
    simp only [cells, ser, List.length_append, List.length_cons, be32_length]; omega
theorem cellsFields_le_ser : ∀ fs : List (Nat × TVal), cellsFields fs ≤ (serFields fs).length
  | [] => by simp [cellsFields]
  | (_, v) :: r => by
    have := cells_lt_ser v
    have := cellsFields_le_ser r
    simp only [cellsFields, serFields, List.length_append, List.length_cons]; omega
theorem cellsEntries_le_ser : ∀ es : List (TVal × TVal), cellsEntries es ≤ (serEntries es).length
  | [] => by simp [cellsEntries]
  | (k, v) :: r => by
    have := cells_lt_ser k
    have := cells_lt_ser v
    have := cellsEntries_le_ser r
    simp only [cellsEntries, serEntries, List.length_append]; omega
theorem cellsList_le_ser : ∀ xs : List TVal, cellsList xs ≤ (serList xs).length
  | [] => by simp [cellsList]
  | v :: r => by
    have := cells_lt_ser v
    have := cellsList_le_ser r
    simp only [cellsList, serList, List.length_append]; omega
end

end Frugal
