/-
  ClearNocopy2.lean — S and S.clearNC agree on typing, denotation and the round-trip side conditions;
  C01 for schemas with `nocopy` fields.
-/
import Frugal.Proofs.ClearNocopy
import Frugal.Proofs.RoundTrip
import Frugal.Proofs.NormFacts
set_option linter.unusedSimpArgs false
set_option linter.unusedVariables false
namespace Frugal

/-! ### typed values are plain -/
mutual
theorem hasTy_plain (S : Schema) : ∀ (v : Val) (t : Ty), hasTy S t v = true → plain v = true
  | .sc _, _, _ | .str _, _, _ | .bin _ _, _, _ | .nilp, _, _ => by simp [plain]
  | .vstr _ _, t, h => by cases t with
    | base k => cases k <;> hasTy_absurd h
    | _ => hasTy_absurd h
  | .vbin _ _, t, h => by cases t with
    | base k => cases k <;> hasTy_absurd h
    | _ => hasTy_absurd h
  | .ptr v, t, h => by
    cases t with
    | ptr e =>
      simp only [hasTy, Bool.and_eq_true] at h
      simp only [plain]; exact hasTy_plain S v e h.2
    | base k => cases k <;> hasTy_absurd h
    | _ => hasTy_absurd h
  | .lst n xs, t, h => by
    cases t with
    | list s e =>
      simp only [hasTy, Bool.and_eq_true] at h
      simp only [plain]; exact hasTyList_plain S xs e h.2
    | base k => cases k <;> hasTy_absurd h
    | _ => hasTy_absurd h
  | .mp n es, t, h => by
    cases t with
    | map k v =>
      simp only [hasTy, Bool.and_eq_true] at h
      simp only [plain]; exact hasTyEntries_plain S es k v h.2
    | base k => cases k <;> hasTy_absurd h
    | _ => hasTy_absurd h
  | .st fs hh, t, h => by
    cases t with
    | strct sid =>
      simp only [hasTy, Bool.and_eq_true] at h
      simp only [plain]; exact hasTyFields_plain S fs (S.get sid).fields h.2
    | base k => cases k <;> hasTy_absurd h
    | _ => hasTy_absurd h
theorem hasTyList_plain (S : Schema) : ∀ (xs : List Val) (e : Ty), hasTyList S e xs = true → plainList xs = true
  | [], _, _ => rfl
  | x :: r, e, h => by
    simp only [hasTyList, Bool.and_eq_true] at h
    simp only [plainList, Bool.and_eq_true]
    exact ⟨hasTy_plain S x e h.1, hasTyList_plain S r e h.2⟩
theorem hasTyEntries_plain (S : Schema) : ∀ (es : List (Val × Val)) (k v : Ty),
    hasTyEntries S k v es = true → plainEntries es = true
  | [], _, _, _ => rfl
  | (a, b) :: r, k, v, h => by
    simp only [hasTyEntries, Bool.and_eq_true] at h
    simp only [plainEntries, Bool.and_eq_true]
    exact ⟨⟨hasTy_plain S a k h.1.1, hasTy_plain S b v h.1.2⟩, hasTyEntries_plain S r k v h.2⟩
theorem hasTyFields_plain (S : Schema) : ∀ (xs : List Val) (fs : List Field),
    hasTyFields S fs xs = true → plainList xs = true
  | [], _, _ => rfl
  | x :: r, [], h => by simp [hasTyFields] at h
  | x :: r, f :: fr, h => by
    simp only [hasTyFields, Bool.and_eq_true] at h
    simp only [plainList, Bool.and_eq_true]
    exact ⟨hasTy_plain S x f.ty h.1, hasTyFields_plain S r fr h.2⟩
end

/-! ### S and S.clearNC agree -/
mutual
theorem hasTy_clearNC (S : Schema) : ∀ (v : Val) (t : Ty), hasTy S.clearNC t v = hasTy S t v
  | .sc n, t => by cases t with
    | base k => cases k <;> simp [hasTy]
    | _ => simp [hasTy]
  | .str s, t => by cases t with
    | base k => cases k <;> simp [hasTy]
    | _ => simp [hasTy]
  | .bin n s, t => by cases t with
    | base k => cases k <;> simp [hasTy]
    | _ => simp [hasTy]
  | .nilp, t => by cases t with
    | base k => cases k <;> simp [hasTy]
    | _ => simp [hasTy]
  | .vstr _ _, t => by cases t with
    | base k => cases k <;> simp [hasTy]
    | _ => simp [hasTy]
  | .vbin _ _, t => by cases t with
    | base k => cases k <;> simp [hasTy]
    | _ => simp [hasTy]
  | .ptr v, t => by cases t with
    | ptr e => simp only [hasTy, hasTy_clearNC S v e]
    | base k => cases k <;> simp [hasTy]
    | _ => simp [hasTy]
  | .lst n xs, t => by cases t with
    | list s e => simp only [hasTy, hasTyList_clearNC S xs e]
    | base k => cases k <;> simp [hasTy]
    | _ => simp [hasTy]
  | .mp n es, t => by cases t with
    | map k v => simp only [hasTy, hasTyEntries_clearNC S es k v]
    | base k => cases k <;> simp [hasTy]
    | _ => simp [hasTy]
  | .st fs hh, t => by cases t with
    | strct sid =>
      simp only [hasTy, get_clearNC, sd_clearNC_hasHolder, sd_clearNC_fields,
        hasTyFields_clearNC S fs (S.get sid).fields]
    | base k => cases k <;> simp [hasTy]
    | _ => simp [hasTy]
theorem hasTyList_clearNC (S : Schema) : ∀ (xs : List Val) (e : Ty), hasTyList S.clearNC e xs = hasTyList S e xs
  | [], _ => rfl
  | x :: r, e => by simp only [hasTyList, hasTy_clearNC S x e, hasTyList_clearNC S r e]
theorem hasTyEntries_clearNC (S : Schema) : ∀ (es : List (Val × Val)) (k v : Ty),
    hasTyEntries S.clearNC k v es = hasTyEntries S k v es
  | [], _, _ => rfl
  | (a, b) :: r, k, v => by
    simp only [hasTyEntries, hasTy_clearNC S a k, hasTy_clearNC S b v, hasTyEntries_clearNC S r k v]
theorem hasTyFields_clearNC (S : Schema) : ∀ (xs : List Val) (fs : List Field),
    hasTyFields S.clearNC (fs.map Field.clearNC) xs = hasTyFields S fs xs
  | [], fs => by cases fs <;> simp [hasTyFields]
  | x :: r, [] => by simp [hasTyFields]
  | x :: r, f :: fr => by
    simp only [List.map_cons, hasTyFields, clearNC_ty, hasTy_clearNC S x f.ty, hasTyFields_clearNC S r fr]
end

mutual
theorem toWire_clearNC (S : Schema) : ∀ (v : Val) (t : Ty), toWire S.clearNC t v = toWire S t v
  | .sc n, t => by cases t <;> simp [toWire]
  | .str s, t => by cases t <;> simp [toWire]
  | .bin n s, t => by cases t <;> simp [toWire]
  | .nilp, t => by cases t with
    | ptr e => cases e <;> simp [toWire]
    | _ => simp [toWire]
  | .vstr _ _, t => by cases t <;> simp [toWire]
  | .vbin _ _, t => by cases t <;> simp [toWire]
  | .ptr v, t => by cases t with
    | ptr e => simp only [toWire, toWire_clearNC S v e]
    | _ => simp [toWire]
  | .lst n xs, t => by cases t with
    | list s e => simp only [toWire, toWireList_clearNC S xs e]
    | _ => simp [toWire]
  | .mp n es, t => by cases t with
    | map k v => simp only [toWire, toWireEntries_clearNC S es k v]
    | _ => simp [toWire]
  | .st fs hh, t => by cases t with
    | strct sid =>
      simp only [toWire, get_clearNC, sd_clearNC_fields]
      rw [toWireFields_clearNC S fs (S.get sid) (S.get sid).fields]
    | _ => simp [toWire]
theorem toWireList_clearNC (S : Schema) : ∀ (xs : List Val) (e : Ty), toWireList S.clearNC e xs = toWireList S e xs
  | [], _ => rfl
  | x :: r, e => by simp only [toWireList, toWire_clearNC S x e, toWireList_clearNC S r e]
theorem toWireEntries_clearNC (S : Schema) : ∀ (es : List (Val × Val)) (k v : Ty),
    toWireEntries S.clearNC k v es = toWireEntries S k v es
  | [], _, _ => rfl
  | (a, b) :: r, k, v => by
    simp only [toWireEntries, toWire_clearNC S a k, toWire_clearNC S b v, toWireEntries_clearNC S r k v]
theorem toWireFields_clearNC (S : Schema) : ∀ (xs : List Val) (sd : SDesc) (fs : List Field),
    toWireFields S.clearNC sd.clearNC (fs.map Field.clearNC) xs = toWireFields S sd fs xs
  | [], sd, fs => by cases fs <;> simp [toWireFields]
  | x :: r, sd, [] => by simp [toWireFields]
  | x :: r, sd, f :: fr => by
    simp only [List.map_cons, toWireFields, fieldWritten_clearNC, clearNC_id, clearNC_ty,
      toWire_clearNC S x f.ty, toWireFields_clearNC S r sd fr]
end

mutual
theorem rtOK_clearNC (S : Schema) : ∀ (v : Val) (t : Ty), rtOK S.clearNC t v = rtOK S t v
  | .sc n, t => by cases t <;> simp [rtOK]
  | .str s, t => by cases t <;> simp [rtOK]
  | .bin n s, t => by cases t <;> simp [rtOK]
  | .nilp, t => by cases t with
    | ptr e =>
      cases e with
      | strct sid =>
        simp only [rtOK, get_clearNC, sd_clearNC_fields, List.all_map]
        rfl
      | _ => simp [rtOK]
    | _ => simp [rtOK]
  | .vstr _ _, t => by cases t <;> simp [rtOK]
  | .vbin _ _, t => by cases t <;> simp [rtOK]
  | .ptr v, t => by cases t with
    | ptr e => cases e <;> simp only [rtOK, rtOK_clearNC S v]
    | _ => simp [rtOK]
  | .lst n xs, t => by cases t with
    | list s e => simp only [rtOK, rtOKList_clearNC S xs e]
    | _ => simp [rtOK]
  | .mp n es, t => by cases t with
    | map k v => simp only [rtOK, rtOKEntries_clearNC S es k v]
    | _ => simp [rtOK]
  | .st fs hh, t => by cases t with
    | strct sid =>
      simp only [rtOK, get_clearNC, sd_clearNC_fields]
      rw [rtOKFields_clearNC S fs (S.get sid) (S.get sid).fields]
    | _ => simp [rtOK]
theorem rtOKList_clearNC (S : Schema) : ∀ (xs : List Val) (e : Ty), rtOKList S.clearNC e xs = rtOKList S e xs
  | [], _ => rfl
  | x :: r, e => by simp only [rtOKList, rtOK_clearNC S x e, rtOKList_clearNC S r e]
theorem rtOKEntries_clearNC (S : Schema) : ∀ (es : List (Val × Val)) (k v : Ty),
    rtOKEntries S.clearNC k v es = rtOKEntries S k v es
  | [], _, _ => rfl
  | (a, b) :: r, k, v => by
    simp only [rtOKEntries, rtOK_clearNC S a k, rtOK_clearNC S b v, rtOKEntries_clearNC S r k v]
theorem rtOKFields_clearNC (S : Schema) : ∀ (xs : List Val) (sd : SDesc) (fs : List Field),
    rtOKFields S.clearNC sd.clearNC (fs.map Field.clearNC) xs = rtOKFields S sd fs xs
  | [], sd, fs => by cases fs <;> simp [rtOKFields]
  | x :: r, sd, [] => by simp [rtOKFields]
  | x :: r, sd, f :: fr => by
    simp only [List.map_cons, rtOKFields, fieldWritten_clearNC, clearNC_ty, rtOK_clearNC S x f.ty,
      rtOKFields_clearNC S r sd fr]
end


theorem initDest_clearNC (S : Schema) (sid : Nat) (d : Val) : initDest S.clearNC sid d = initDest S sid d := by
  cases d <;> simp [initDest, get_clearNC, applyInit_clearNC]

mutual
theorem norm_clearNC (S : Schema) : ∀ (v : Val) (t : Ty) (d : Val), norm S.clearNC t v d = norm S t v d
  | .sc n, t, d => by cases t <;> simp [norm]
  | .str s, t, d => by cases t <;> simp [norm]
  | .bin n s, t, d => by cases t <;> simp [norm]
  | .nilp, t, d => by cases t with
    | ptr e => cases e <;> simp [norm, initDest_clearNC, zeroVal_clearNC]
    | _ => simp [norm]
  | .vstr _ _, t, d => by cases t <;> simp [norm]
  | .vbin _ _, t, d => by cases t <;> simp [norm]
  | .ptr v, t, d => by cases t with
    | ptr e => cases e <;> simp only [norm, clearNC_length, zeroVal_clearNC, norm_clearNC S v]
    | _ => simp [norm]
  | .lst n xs, t, d => by cases t with
    | list s e => simp only [norm, normList_clearNC S xs e]
    | _ => simp [norm]
  | .mp n es, t, d => by cases t with
    | map k v => simp only [norm, normEntries_clearNC S es k v]
    | _ => simp [norm]
  | .st fs hh, t, d => by cases t with
    | strct sid =>
      simp only [norm, initDest_clearNC, get_clearNC, sd_clearNC_fields]
      cases initDest S sid d with
      | st ds h => simp only [normFields_clearNC S fs (S.get sid) (S.get sid).fields ds]
      | _ => rfl
    | _ => simp [norm]
theorem normList_clearNC (S : Schema) : ∀ (xs : List Val) (e : Ty), normList S.clearNC e xs = normList S e xs
  | [], _ => rfl
  | x :: r, e => by simp only [normList, clearNC_length, zeroVal_clearNC, norm_clearNC S x, normList_clearNC S r e]
theorem normEntries_clearNC (S : Schema) : ∀ (es : List (Val × Val)) (k v : Ty) (acc : List (Val × Val)),
    normEntries S.clearNC k v es acc = normEntries S k v es acc
  | [], _, _, _ => rfl
  | (a, b) :: r, k, v, acc => by
    simp only [normEntries, clearNC_length, zeroVal_clearNC, norm_clearNC S a, norm_clearNC S b,
      normEntries_clearNC S r k v]
theorem normFields_clearNC (S : Schema) : ∀ (xs : List Val) (sd : SDesc) (fs : List Field) (ds : List Val),
    normFields S.clearNC sd.clearNC (fs.map Field.clearNC) xs ds = normFields S sd fs xs ds
  | [], sd, fs, ds => by cases fs <;> simp [normFields]
  | x :: r, sd, [], ds => by simp [normFields]
  | x :: r, sd, f :: fr, [] => by simp [normFields]
  | x :: r, sd, f :: fr, d :: dr => by
    simp only [List.map_cons, normFields, fieldWritten_clearNC, clearNC_ty, norm_clearNC S x,
      normFields_clearNC S r sd fr dr]
end

theorem normTop_clearNC (S : Schema) (sid : Nat) (v d : Val) : normTop S.clearNC sid v d = normTop S sid v d := by
  cases v with
  | st xs h =>
    cases d with
    | st ds h' =>
      simp only [normTop, get_clearNC, sd_clearNC_fields]
      rw [normFields_clearNC S xs (S.get sid) (S.get sid).fields ds]
    | _ => rfl
  | _ => cases d <;> rfl

theorem field_ok_clearNC (f : Field) (h : f.ok = true) : f.clearNC.ok = true := by
  simp only [Field.ok, Bool.and_eq_true, Bool.or_eq_true, Bool.not_eq_true', beq_iff_eq, clearNC_ty,
    clearNC_req, clearNC_nocopy, clearNC_id] at h ⊢
  exact ⟨⟨h.1.1, by simp⟩, h.2⟩

theorem ok_clearNC (S : Schema) (h : S.ok = true) : S.clearNC.ok = true := by
  simp only [Schema.ok, List.all_eq_true, Schema.clearNC, List.mem_map] at h ⊢
  rintro sd' ⟨sd, hsd, rfl⟩
  have := h sd hsd
  simp only [SDesc.ok, List.all_eq_true, sd_clearNC_fields, List.mem_map] at this ⊢
  rintro f' ⟨f, hf, rfl⟩
  exact field_ok_clearNC f (this f hf)

/-- the side conditions of the round trip, without the `noNocopy` one: those of `S.clearNC` -/
structure Schema.rtSideNC (S : Schema) : Prop where
  distinct : ∀ sid, (S.get sid).fields.Pairwise (fun a b => a.id ≠ b.id)
  defaultsTyped : ∀ sid, ∀ f ∈ (S.get sid).fields, ∀ d, f.dflt = some d → hasTy S f.ty d = true
  zeroOk : ∀ sid, hasTy S (.strct sid) (zeroVal S S.length (.strct sid)) = true

theorem rtSide_clearNC (S : Schema) (h : S.rtSideNC) : S.clearNC.rtSide := by
  constructor
  · intro sid
    rw [get_clearNC, sd_clearNC_fields, List.pairwise_map]
    exact h.distinct sid
  · intro sid f hf
    rw [get_clearNC, sd_clearNC_fields, List.mem_map] at hf
    obtain ⟨g, _, rfl⟩ := hf
    rfl
  · intro sid f hf _ d hd
    rw [get_clearNC, sd_clearNC_fields, List.mem_map] at hf
    obtain ⟨g, hg, rfl⟩ := hf
    rw [hasTy_clearNC]
    exact h.defaultsTyped sid g hg d hd
  · intro sid
    rw [clearNC_length, zeroVal_clearNC, hasTy_clearNC]
    exact h.zeroOk sid

theorem messageOf_clearNC (S : Schema) (sid : Nat) (v : Val) : messageOf S.clearNC sid v = messageOf S sid v := by
  cases v with
  | st xs h =>
    simp only [messageOf, get_clearNC, sd_clearNC_fields]
    exact toWireFields_clearNC S xs (S.get sid) (S.get sid).fields
  | _ => rfl

theorem normTop_st (S : Schema) (sid : Nat) (xs ds : List Val) (h h' : Bytes) :
    normTop S sid (.st xs h) (.st ds h') = .st (normFields S (S.get sid) (S.get sid).fields xs ds) h' := rfl

/-- the top-level reader: forget provenance, get the reader of the schema without `nocopy` -/
theorem readMessage_erase (P : Params) (S : Schema) (hS : S.ok = true)
    (hdf : ∀ sid, ∀ f ∈ (S.get sid).fields, ∀ d, f.dflt = some d → plain d = true)
    (sid : Nat) (fs : List (Nat × TVal)) (trailing : Nat) (vs : List Val) (hh : Bytes) (w' : Val)
    (h : readMessage P S.clearNC sid fs trailing (.st (eraseList vs) hh) = .ok w') :
    ∃ w, readMessage P S sid fs trailing (.st vs hh) = .ok w ∧ erase w = w' := by
  unfold readMessage at h ⊢
  generalize (ser (.strct fs)).length + trailing = total at h ⊢
  cases hm : P.maxDepth with
  | zero => rw [hm] at h; simp [readStruct] at h
  | succ f =>
    rw [hm] at h
    rw [readStruct] at h ⊢
    rw [get_clearNC] at h
    split at h
    · rename_i st'' hl
      have hsd := sd_ok hS sid
      simp only [SDesc.ok, List.all_eq_true] at hsd
      obtain ⟨st', hl', est⟩ := readFields_erase P S total hS hdf fs f (S.get sid) (trailing + 1) { fs := vs } st''
        (fun g hg => by
          have := hsd g hg
          simp only [Field.ok, Bool.and_eq_true, Bool.or_eq_true, Bool.not_eq_true', beq_iff_eq] at this
          refine ⟨this.1.1.1, fun hn => ?_⟩
          rcases this.1.2 with h' | h'
          · rw [hn] at h'; cases h'
          · exact h')
        (by simpa [eraseSt] using hl)
      rw [hl']
      simp only
      rw [sd_clearNC_fields, firstMissing_clearNC] at h
      have hseen : st''.seen = st'.seen := by rw [← est]; rfl
      have hunk : st''.unk = st'.unk := by rw [← est]; rfl
      have hfs : st''.fs = eraseList st'.fs := by rw [← est]; rfl
      rw [hseen] at h
      cases hfm : firstMissing (S.get sid).fields st'.seen with
      | some g => rw [hfm] at h; simp at h
      | none =>
        rw [hfm] at h
        simp only [Option.map_none, sd_clearNC_hasHolder, Outcome.ok.injEq] at h
        subst h
        exact ⟨_, rfl, by simp [erase, hfs, hunk]⟩
    · cases h
    · cases h

/-- **C01 for schemas with `nocopy` fields.**  Encode, then decode: success, exactly the encoded
    length, and — forgetting where the bytes of `nocopy` strings live (C14 says where: in the input) —
    the normal form of the value under the same schema without the option. -/
theorem roundtrip_nocopy {P : Params} (hP : P.valid = true) (S : Schema) (hS : S.ok = true)
    (hside : S.rtSideNC) (sid : Nat) (xs ds : List Val) (h' : Bytes)
    (ht : hasTy S (.strct sid) (.st xs []) = true) (hdest : hasTy S (.strct sid) (.st ds h') = true)
    (hn : noHolderList xs = true) (hf : sizesFitList xs = true)
    (hr : rtOK S (.strct sid) (.st xs []) = true)
    (hd : 2 * depth (toWire S (.strct sid) (.st xs [])) ≤ P.maxDepth) :
    ∃ w, decodeM P S sid (appendM P S sid (.st xs [])) (.st ds h') =
        .ok (w, (appendM P S sid (.st xs [])).length) ∧
      erase w = normTop S sid (.st xs []) (.st ds h') := by
  rw [roundtrip_via_reader hP S hS sid xs (.st ds h') ht hn hf]
  have hdf : ∀ sid, ∀ f ∈ (S.get sid).fields, ∀ d, f.dflt = some d → plain d = true :=
    fun sid f hfm d hdd => hasTy_plain S d f.ty (hside.defaultsTyped sid f hfm d hdd)
  have hdp : eraseList ds = ds := by
    simp only [hasTy, Bool.and_eq_true] at hdest
    exact eraseList_plain ds (hasTyFields_plain S ds _ hdest.2)
  have hnorm := readMessage_norm (P := P) S.clearNC (ok_clearNC S hS) (rtSide_clearNC S hside) sid xs [] ds h' 0
    (by rw [hasTy_clearNC]; exact ht) (by rw [hasTy_clearNC]; exact hdest) (by rw [rtOK_clearNC]; exact hr)
    (by rw [toWire_clearNC]; exact hd)
  rw [messageOf_clearNC] at hnorm
  rw [← hdp] at hnorm
  obtain ⟨w, hw, ew⟩ := readMessage_erase P S hS hdf sid _ 0 ds h' _ hnorm
  rw [hdp] at ew
  rw [normTop_clearNC] at ew
  exact ⟨w, by rw [hw]; rfl, ew⟩

end Frugal
