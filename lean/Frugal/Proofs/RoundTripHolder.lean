/-
  RoundTripHolder.lean — C01 / C11 for values that carry retained unknown-field bytes at the top
  level: encode, then decode into a destination of the type: the recognised fields come back as the
  normal form and the holder comes back byte for byte.
-/
import Frugal.Proofs.RoundTrip
import Frugal.Proofs.Holders
set_option linter.unusedSimpArgs false
set_option linter.unusedVariables false
namespace Frugal

/-- the field loop over a concatenation: the first part, placed before the bytes of the second -/
theorem readFields_append (P : Params) (S : Schema) (total fuel : Nat) (sd : SDesc) :
    ∀ (A B : List (Nat × TVal)) (tail : Nat) (st : LoopSt),
      readFields P S total fuel sd (A ++ B) tail st =
        match readFields P S total fuel sd A ((serFields B).length + tail) st with
        | .ok st1 => readFields P S total fuel sd B tail st1
        | .err e => .err e
        | .panic p => .panic p
  | [], B, tail, st => by simp [readFields]
  | (id, v) :: r, B, tail, st => by
    simp only [List.cons_append]
    rw [readFields, readFields]
    have hlen : (serFields (r ++ B)).length + tail = (serFields r).length + ((serFields B).length + tail) := by
      rw [serFields_append, List.length_append]; omega
    cases hk : lookupKnown sd id v.tag with
    | none =>
      simp only
      split
      · rfl
      · exact readFields_append P S total fuel sd r B tail _
    | some p =>
      obtain ⟨ix, f⟩ := p
      simp only
      rw [hlen]
      cases readField P S total fuel f v ((serFields r).length + ((serFields B).length + tail))
          (st.fs.getD ix default) with
      | ok x => simp only; exact readFields_append P S total fuel sd r B tail _
      | err e => rfl
      | panic p => rfl

/-- a run of fields none of which the schema recognises: recorded (when the struct has the holder),
    nothing else changes -/
theorem readFields_allUnknown (P : Params) (S : Schema) (total fuel : Nat) (sd : SDesc) :
    ∀ (us : List (Nat × TVal)) (tail : Nat) (st : LoopSt),
      (∀ p ∈ us, lookupKnown sd p.1 p.2.tag = none ∧ skipNeed p.2 ≤ P.skipDepth) →
      readFields P S total fuel sd us tail st =
        .ok { st with unk := st.unk ++ (if sd.hasHolder then serFields us else []) }
  | [], tail, st, _ => by
    rw [readFields]; cases sd.hasHolder <;> simp [serFields]
  | (id, v) :: r, tail, st, h => by
    have h0 := h (id, v) (List.mem_cons_self ..)
    rw [readFields]
    simp only [h0.1]
    have : ¬ skipNeed v > P.skipDepth := by have := h0.2; simp only at this; omega
    simp only [this, ↓reduceIte]
    rw [readFields_allUnknown P S total fuel sd r tail _ (fun p hp => h p (List.mem_cons_of_mem _ hp))]
    cases sd.hasHolder <;> simp [serFields, serField, List.append_assoc]

theorem refEnc_struct_holder (S : Schema) (hS : S.ok = true) (sid : Nat) (xs : List Val) (h : Bytes)
    (us : List (Nat × TVal)) (hser : serFields us = h)
    (ht : hasTyFields S (S.get sid).fields xs = true) (hn : noHolderList xs = true) :
    refEnc S (.strct sid) (.st xs h) =
      ser (.strct (toWireFields S (S.get sid) (S.get sid).fields xs ++ us)) := by
  have hsd := sd_ok hS sid
  simp only [SDesc.ok, List.all_eq_true] at hsd
  have := refEncFields_eq_ser S hS xs (S.get sid) (S.get sid).fields (fun f hf => hsd f hf) ht hn
  simp [refEnc, ser, this, serFields_append, hser]

/-- C01 with a holder at the top level: the value `.st xs h` whose holder `h` is the serialisation of
    fields `us` that the schema does not recognise (what a decode left there) round-trips: the
    recognised fields to their normal form, the holder byte for byte (a type without the holder has
    `h = []` and keeps the destination's). -/
theorem roundtrip_top_holder {P : Params} (hP : P.valid = true) (S : Schema) (hS : S.ok = true)
    (hside : S.rtSide) (sid : Nat) (xs ds : List Val) (h h' : Bytes) (us : List (Nat × TVal))
    (hser : serFields us = h) (hwu : wfFields us = true)
    (hunk : ∀ p ∈ us, lookupKnown (S.get sid) p.1 p.2.tag = none ∧ skipNeed p.2 ≤ P.skipDepth)
    (ht : hasTy S (.strct sid) (.st xs h) = true) (hdest : hasTy S (.strct sid) (.st ds h') = true)
    (hn : noHolderList xs = true) (hf : sizesFitList xs = true)
    (hr : rtOK S (.strct sid) (.st xs h) = true)
    (hd : 2 * depth (toWire S (.strct sid) (.st xs h)) ≤ P.maxDepth) :
    decodeM P S sid (appendM P S sid (.st xs h)) (.st ds h') =
      .ok (.st (normFields S (S.get sid) (S.get sid).fields xs ds)
            (if (S.get sid).hasHolder && h.length > 0 then h else h'),
           (appendM P S sid (.st xs h)).length) := by
  have ht' := ht
  simp only [hasTy, Bool.and_eq_true] at ht hdest
  have e1 : appendM P S sid (.st xs h) = refEnc S (.strct sid) (.st xs h) :=
    appendAny_eq hP S hS _ (.strct sid) rfl ht'
  have e2 := refEnc_struct_holder S hS sid xs h us hser ht.2 hn
  have hsd := sd_ok hS sid
  simp only [SDesc.ok, List.all_eq_true] at hsd
  have hwF := toWireFields_wf S hS xs (S.get sid) (S.get sid).fields (fun f hf => hsd f hf) ht.2 hf
  have hwf : wfFields (toWireFields S (S.get sid) (S.get sid).fields xs ++ us) = true := by
    rw [wfFields_append, hwF, hwu]; rfl
  rw [e1, e2]
  have hdec := decodeM_refines hP S hS sid _ [] (.st ds h') hwf
  simp only [List.append_nil, List.length_nil] at hdec
  rw [hdec]
  -- the reader on  F ++ us
  unfold readMessage
  simp only [rtOK] at hr
  simp only [toWire, depth] at hd
  obtain ⟨f, hfm⟩ : ∃ f, P.maxDepth = f + 1 := ⟨P.maxDepth - 1, by omega⟩
  rw [hfm]
  generalize (ser (.strct (toWireFields S (S.get sid) (S.get sid).fields xs ++ us))).length + 0 = total
  have hloopA := readFields_norm P S total hS hside xs (S.get sid) (S.get sid).fields [] [] ds [] f
    ((serFields us).length + (0 + 1)) rfl (hside.distinct sid)
    (fun g hg => ⟨hsd g hg, hside.noNocopy sid g hg⟩) rfl ht.2 hdest.2 hr (by omega)
  simp only [List.nil_append] at hloopA
  have hloop : readFields P S total f (S.get sid)
      (toWireFields S (S.get sid) (S.get sid).fields xs ++ us) (0 + 1) { fs := ds } =
      .ok { fs := normFields S (S.get sid) (S.get sid).fields xs ds,
            seen := seenOf (S.get sid) (S.get sid).fields xs [],
            unk := if (S.get sid).hasHolder then serFields us else [] } := by
    rw [readFields_append, hloopA]
    simp only
    rw [readFields_allUnknown P S total f (S.get sid) us (0 + 1) _ hunk]
    simp
  have hreq := seenOf_required S (S.get sid) (S.get sid).fields xs [] ht.2
  rw [required_verdict P S total f sid _ 0 ds h' _ hloop]
  have hfm0 := (firstMissing_none_iff (S.get sid).fields
    (seenOf (S.get sid) (S.get sid).fields xs [])).2 hreq
  simp only [hfm0, Outcome.mapv]
  congr 2
  rw [hser]
  cases hh : (S.get sid).hasHolder with
  | true => simp
  | false =>
    have : h.isEmpty = true := by simpa [hh] using ht.1
    have : h = [] := List.isEmpty_iff.1 this
    simp [this]
end Frugal
