/-
  FieldOrder.lean — C03 "whatever the order of its fields": for a schema without `nocopy` fields (a
  view records where in the buffer its bytes sit, which a reordering changes: C14) the reference reader
  gives the same field values and the same required-field verdict for every permutation of a struct's
  fields in which no destination field is written twice.  (Two occurrences of one field do not commute:
  the last one wins, or — for a by-value struct — they merge in message order.)
-/
import Frugal.Proofs.TailIndep
import Frugal.Proofs.ReaderProps
import Frugal.Proofs.ViewsLemmas
import Frugal.Proofs.SecondHop
import Frugal.Proofs.DecodeRefine
import Frugal.Proofs.EraseTail
set_option linter.unusedSimpArgs false
set_option linter.unusedVariables false
namespace Frugal

theorem writtenIxs_perm (sd : SDesc) {l1 l2 : List (Nat × TVal)} (hp : l1.Perm l2) :
    (writtenIxs sd l1).Perm (writtenIxs sd l2) := by
  induction hp with
  | nil => exact List.Perm.refl _
  | cons x _ ih => simp only [writtenIxs]; exact List.Perm.append_left _ ih
  | swap x y l =>
    simp only [writtenIxs, ← List.append_assoc]
    exact List.Perm.append_right _ List.perm_append_comm
  | trans _ _ ih1 ih2 => exact ih1.trans ih2

section
variable (g : Val → Val) (P : Params) (S : Schema) (total fuel : Nat) (sd : SDesc)

/-- one field of the message applied to the destination's field values (`g`: the identity, or `erase`
    when the values are looked at up to the provenance of views) -/
def stepV (p : Nat × TVal) (vs : List Val) : Outcome (List Val) :=
  match lookupKnown sd p.1 p.2.tag with
  | none => if skipNeed p.2 > P.skipDepth then .err .depth else .ok vs
  | some (ix, f) => (readField P S total fuel f p.2 0 (vs.getD ix default)).mapv (fun x => vs.set ix (g x))

/-- the field loop as far as the destination's field values go -/
def fsRun : List (Nat × TVal) → List Val → Outcome (List Val)
  | [], vs => .ok vs
  | p :: r, vs =>
    match stepV g P S total fuel sd p vs with
    | .ok vs1 => fsRun r vs1
    | .err e => .err e
    | .panic q => .panic q

variable (hS : ∀ sid, ∀ f ∈ (S.get sid).fields, f.nocopy = false) (hsd : ∀ g ∈ sd.fields, g.nocopy = false)
include hS hsd

omit g in
theorem readFields_fs : ∀ (fs : List (Nat × TVal)) (tail : Nat) (st : LoopSt),
    (readFields P S total fuel sd fs tail st).mapv (·.fs) = fsRun id P S total fuel sd fs st.fs
  | [], tail, st => by rw [readFields]; rfl
  | (id, v) :: r, tail, st => by
    rw [readFields, fsRun, stepV]
    cases hk : lookupKnown sd id v.tag with
    | none =>
      simp only
      split
      · rfl
      · simp only
        rw [readFields_fs r tail _]
        cases sd.hasHolder <;> rfl
    | some p =>
      obtain ⟨ix, f⟩ := p
      simp only
      rw [readField_tail P S total total fuel f v _ 0 _
        (hsd f (lookupKnown_mem sd id v.tag ix f hk))
        (fun dest => readVal_tail P S total total hS v fuel f.ty.deref _ _ dest)]
      cases readField P S total fuel f v 0 (st.fs.getD ix default) with
      | ok x => simp only [Outcome.mapv]; exact readFields_fs r tail _
      | err e => rfl
      | panic q => rfl

omit hS hsd in
/-- two fields that do not write the same destination field commute (when both are accepted) -/
theorem stepV_swap (a b : Nat × TVal) (vs vs2 : List Val)
    (hd : ∀ ia fa ib fb, lookupKnown sd a.1 a.2.tag = some (ia, fa) →
      lookupKnown sd b.1 b.2.tag = some (ib, fb) → ia ≠ ib)
    (h : fsRun g P S total fuel sd [a, b] vs = .ok vs2) :
    fsRun g P S total fuel sd [b, a] vs = .ok vs2 := by
  simp only [fsRun] at h ⊢
  cases ha : lookupKnown sd a.1 a.2.tag with
  | none =>
    cases hb : lookupKnown sd b.1 b.2.tag with
    | none =>
      simp only [stepV, ha, hb] at h ⊢
      by_cases h1 : skipNeed a.2 > P.skipDepth
      · simp [h1] at h
      · by_cases h2 : skipNeed b.2 > P.skipDepth
        · simp [h1, h2] at h
        · simp only [h1, h2, ↓reduceIte] at h ⊢
          exact h
    | some q =>
      obtain ⟨ib, fb⟩ := q
      simp only [stepV, ha, hb] at h ⊢
      by_cases h1 : skipNeed a.2 > P.skipDepth
      · simp [h1] at h
      · simp only [h1, ↓reduceIte] at h ⊢
        cases hr : readField P S total fuel fb b.2 0 (vs.getD ib default) with
        | ok y => rw [hr] at h; simpa [Outcome.mapv, h1] using h
        | err e => rw [hr] at h; simp [Outcome.mapv] at h
        | panic q => rw [hr] at h; simp [Outcome.mapv] at h
  | some q =>
    obtain ⟨ia, fa⟩ := q
    cases hb : lookupKnown sd b.1 b.2.tag with
    | none =>
      simp only [stepV, ha, hb] at h ⊢
      by_cases h2 : skipNeed b.2 > P.skipDepth
      · cases hr : readField P S total fuel fa a.2 0 (vs.getD ia default) with
        | ok x => rw [hr] at h; simp [Outcome.mapv, h2] at h
        | err e => rw [hr] at h; simp [Outcome.mapv] at h
        | panic q => rw [hr] at h; simp [Outcome.mapv] at h
      · simp only [h2, ↓reduceIte] at h ⊢
        cases hr : readField P S total fuel fa a.2 0 (vs.getD ia default) with
        | ok x => rw [hr] at h; simpa [Outcome.mapv, h2] using h
        | err e => rw [hr] at h; simp [Outcome.mapv] at h
        | panic q => rw [hr] at h; simp [Outcome.mapv] at h
    | some q =>
      obtain ⟨ib, fb⟩ := q
      have hne : ia ≠ ib := hd ia fa ib fb ha hb
      simp only [stepV, ha, hb] at h ⊢
      cases hra : readField P S total fuel fa a.2 0 (vs.getD ia default) with
      | err e => rw [hra] at h; simp [Outcome.mapv] at h
      | panic q => rw [hra] at h; simp [Outcome.mapv] at h
      | ok x =>
        rw [hra] at h
        simp only [Outcome.mapv] at h
        have g1 : (vs.set ia (g x)).getD ib default = vs.getD ib default := by
          simp only [List.getD_eq_getElem?_getD]; rw [List.getElem?_set_ne hne]
        rw [g1] at h
        cases hrb : readField P S total fuel fb b.2 0 (vs.getD ib default) with
        | err e => rw [hrb] at h; simp [Outcome.mapv] at h
        | panic q => rw [hrb] at h; simp [Outcome.mapv] at h
        | ok y =>
          rw [hrb] at h
          simp only [Outcome.mapv, Outcome.ok.injEq] at h
          have g2 : (vs.set ib (g y)).getD ia default = vs.getD ia default := by
            simp only [List.getD_eq_getElem?_getD]; rw [List.getElem?_set_ne (Ne.symm hne)]
          simp only [Outcome.mapv, g2, hra, Outcome.ok.injEq]
          rw [← h, List.set_comm _ _ (Ne.symm hne)]

omit hS hsd in
theorem fsRun_append (l1 l2 : List (Nat × TVal)) (vs : List Val) :
    fsRun g P S total fuel sd (l1 ++ l2) vs =
      match fsRun g P S total fuel sd l1 vs with
      | .ok v1 => fsRun g P S total fuel sd l2 v1
      | .err e => .err e
      | .panic q => .panic q := by
  induction l1 generalizing vs with
  | nil => rfl
  | cons p r ih =>
    simp only [List.cons_append, fsRun]
    cases stepV g P S total fuel sd p vs with
    | ok v => exact ih v
    | err e => rfl
    | panic q => rfl

omit hS hsd in
/-- permutation invariance of the field values, for messages that write no destination field twice -/
theorem fsRun_perm {l1 l2 : List (Nat × TVal)} (hp : l1.Perm l2) :
    (writtenIxs sd l1).Nodup → ∀ vs vs', fsRun g P S total fuel sd l1 vs = .ok vs' →
      fsRun g P S total fuel sd l2 vs = .ok vs' := by
  induction hp with
  | nil => intro _ vs vs' h; exact h
  | cons x _ ih =>
    intro hnd vs vs' h
    simp only [fsRun] at h ⊢
    cases hx : stepV g P S total fuel sd x vs with
    | ok v1 =>
      rw [hx] at h
      simp only at h ⊢
      refine ih ?_ v1 vs' h
      simp only [writtenIxs] at hnd
      exact (List.nodup_append.1 hnd).2.1
    | err e => rw [hx] at h; cases h
    | panic q => rw [hx] at h; cases h
  | swap x y l =>
    intro hnd vs vs' h
    -- y :: x :: l  ~>  x :: y :: l
    have e1 := fsRun_append g P S total fuel sd [y, x] l vs
    have e2 := fsRun_append g P S total fuel sd [x, y] l vs
    simp only [List.cons_append, List.nil_append] at e1 e2
    rw [e1] at h
    rw [e2]
    cases hyx : fsRun g P S total fuel sd [y, x] vs with
    | ok v2 =>
      rw [hyx] at h
      have hd : ∀ ia fa ib fb, lookupKnown sd y.1 y.2.tag = some (ia, fa) →
          lookupKnown sd x.1 x.2.tag = some (ib, fb) → ia ≠ ib := by
        intro ia fa ib fb h1 h2 he
        subst he
        simp [writtenIxs, h1, h2] at hnd
      rw [stepV_swap g P S total fuel sd y x vs v2 hd hyx]
      exact h
    | err e => rw [hyx] at h; cases h
    | panic q => rw [hyx] at h; cases h
  | trans hp1 hp2 ih1 ih2 =>
    intro hnd vs vs' h
    exact ih2 ((writtenIxs_perm sd hp1).nodup_iff.1 hnd) vs vs' (ih1 hnd vs vs' h)
end


theorem knownIds_perm (sd : SDesc) {l1 l2 : List (Nat × TVal)} (hp : l1.Perm l2) :
    (knownIds sd l1).Perm (knownIds sd l2) := by
  induction hp with
  | nil => exact List.Perm.refl _
  | cons x _ ih => simp only [knownIds]; exact List.Perm.append_left _ ih
  | swap x y l =>
    simp only [knownIds, ← List.append_assoc]
    exact List.Perm.append_right _ List.perm_append_comm
  | trans _ _ ih1 ih2 => exact ih1.trans ih2

theorem firstMissing_congr (fields : List Field) (s1 s2 : List Nat) (h : ∀ i, i ∈ s1 ↔ i ∈ s2) :
    firstMissing fields s1 = firstMissing fields s2 := by
  induction fields with
  | nil => rfl
  | cons f r ih =>
    simp only [firstMissing]
    have : s1.contains f.id = s2.contains f.id := by
      cases h1 : s1.contains f.id <;> cases h2 : s2.contains f.id <;> simp_all
    rw [this, ih]

theorem serFields_length_perm {l1 l2 : List (Nat × TVal)} (hp : l1.Perm l2) :
    (serFields l1).length = (serFields l2).length := by
  induction hp with
  | nil => rfl
  | cons x _ ih => obtain ⟨i, v⟩ := x; simp only [serFields, List.length_cons, List.length_append, ih]
  | swap x y l =>
    obtain ⟨i, v⟩ := x; obtain ⟨j, w⟩ := y
    simp only [serFields, List.length_cons, List.length_append]; omega
  | trans _ _ ih1 ih2 => exact ih1.trans ih2

theorem wfFields_perm {l1 l2 : List (Nat × TVal)} (hp : l1.Perm l2) : wfFields l1 = wfFields l2 := by
  induction hp with
  | nil => rfl
  | cons x _ ih => obtain ⟨i, v⟩ := x; simp only [wfFields, ih]
  | swap x y l =>
    obtain ⟨i, v⟩ := x; obtain ⟨j, w⟩ := y
    simp only [wfFields]
    cases decide (i < 65536) <;> cases decide (j < 65536) <;> cases wf v <;> cases wf w <;> simp
  | trans _ _ ih1 ih2 => exact ih1.trans ih2

section
variable (P : Params) (S : Schema) (total total' fuel : Nat) (sd : SDesc)
variable (hS : ∀ sid, ∀ f ∈ (S.get sid).fields, f.nocopy = false) (hsd : ∀ g ∈ sd.fields, g.nocopy = false)
include hS hsd

/-- the field loop on a permuted message: same field values, same presence record up to order -/
theorem readFields_perm {l1 l2 : List (Nat × TVal)} (hp : l1.Perm l2) (hnd : (writtenIxs sd l1).Nodup)
    (tail tail' : Nat) (st st1 : LoopSt) (h : readFields P S total fuel sd l1 tail st = .ok st1) :
    ∃ st2, readFields P S total' fuel sd l2 tail' st = .ok st2 ∧ st2.fs = st1.fs ∧
      (∀ i, i ∈ st2.seen ↔ i ∈ st1.seen) := by
  have h1 := readFields_fs P S total fuel sd hS hsd l1 tail st
  rw [h] at h1
  simp only [Outcome.mapv] at h1
  have h2 := fsRun_perm id P S total fuel sd hp hnd st.fs st1.fs h1.symm
  have h3 := readFields_fs P S total fuel sd hS hsd l2 tail' st
  rw [h2] at h3
  obtain ⟨st2, h4, h5⟩ := mapv_ok_inv _ _ _ h3
  rw [readFields_tail P S total total' hS l2 fuel sd tail' tail' st hsd] at h4
  refine ⟨st2, h4, h5.symm, ?_⟩
  have s1 := (readFields_spec P S total fuel sd l1 tail st st1 h).2.1
  have s2 := (readFields_spec P S total' fuel sd l2 tail' st st2 h4).2.1
  intro i
  rw [s1, s2, (knownIds_perm sd hp).mem_iff]
end

/-- the fields of a struct value -/
def Val.fieldsOf : Val → List Val
  | .st fs _ => fs
  | _ => []

/-- C03, field order: the reference reader on a message whose top-level fields are permuted (no
    destination field written twice) succeeds as well and returns the same field values -/
theorem readMessage_perm (P : Params) (S : Schema)
    (hS : ∀ sid, ∀ f ∈ (S.get sid).fields, f.nocopy = false) (sid : Nat)
    {l1 l2 : List (Nat × TVal)} (hp : l1.Perm l2) (hnd : (writtenIxs (S.get sid) l1).Nodup)
    (tr tr' : Nat) (dest w : Val) (h : readMessage P S sid l1 tr dest = .ok w) :
    ∃ w', readMessage P S sid l2 tr' dest = .ok w' ∧ w'.fieldsOf = w.fieldsOf := by
  unfold readMessage at h ⊢
  cases hm : P.maxDepth with
  | zero => rw [hm] at h; simp [readStruct] at h
  | succ f =>
    rw [hm] at h
    cases dest with
    | st vs hh =>
      rw [readStruct] at h ⊢
      split at h
      · rename_i st1 hl
        obtain ⟨st2, h2, e1, e2⟩ := readFields_perm P S _ ((ser (.strct l2)).length + tr') f (S.get sid) hS (hS sid)
          hp hnd (tr + 1) (tr' + 1) _ st1 hl
        rw [h2]
        simp only
        rw [firstMissing_congr _ _ _ e2]
        split at h
        · cases h
        · cases h
          exact ⟨_, rfl, by simp [Val.fieldsOf, e1]⟩
      · cases h
      · cases h
    | _ =>
      rw [readStruct_nonst P S _ f sid l1 tr _ (by intro vs h' hh; cases hh)] at h
      cases h

/-- … and so does the decoder, on the bytes: any trailing bytes, the permuted message has the same length -/
theorem decodeM_perm {P : Params} (hP : P.valid = true) (S : Schema) (hSok : S.ok = true)
    (hS : ∀ sid, ∀ f ∈ (S.get sid).fields, f.nocopy = false) (sid : Nat)
    {l1 l2 : List (Nat × TVal)} (hp : l1.Perm l2) (hnd : (writtenIxs (S.get sid) l1).Nodup)
    (hw : wfFields l1 = true) (tr tr' : Bytes) (dest w : Val) (n : Nat)
    (h : decodeM P S sid (ser (.strct l1) ++ tr) dest = .ok (w, n)) :
    ∃ w', decodeM P S sid (ser (.strct l2) ++ tr') dest = .ok (w', n) ∧ w'.fieldsOf = w.fieldsOf := by
  rw [decodeM_refines hP S hSok sid l1 tr _ hw] at h
  obtain ⟨w0, h0, e⟩ := mapv_ok_inv _ _ _ h
  simp only [Prod.mk.injEq] at e
  obtain ⟨rfl, rfl⟩ := e
  obtain ⟨w', h', ef⟩ := readMessage_perm P S hS sid hp hnd tr.length tr'.length dest w h0
  refine ⟨w', ?_, ef⟩
  rw [decodeM_refines hP S hSok sid l2 tr' _ (by rw [← wfFields_perm hp]; exact hw), h']
  simp only [Outcome.mapv, ser, List.length_append, serFields_length_perm hp]


/-! ### every schema: the same up to the provenance of views -/

mutual
theorem erase_erase : ∀ v : Val, erase (erase v) = erase v
  | .sc _ => rfl
  | .str _ => rfl
  | .bin _ _ => rfl
  | .nilp => rfl
  | .vstr _ _ => rfl
  | .vbin _ _ => rfl
  | .ptr v => by simp only [erase, erase_erase v]
  | .lst n xs => by simp only [erase, eraseList_eraseList xs]
  | .mp n es => by simp only [erase, eraseEntries_eraseEntries es]
  | .st fs h => by simp only [erase, eraseList_eraseList fs]
theorem eraseList_eraseList : ∀ xs : List Val, eraseList (eraseList xs) = eraseList xs
  | [] => rfl
  | x :: r => by simp only [eraseList, erase_erase x, eraseList_eraseList r]
theorem eraseEntries_eraseEntries : ∀ es : List (Val × Val), eraseEntries (eraseEntries es) = eraseEntries es
  | [] => rfl
  | (a, b) :: r => by simp only [eraseEntries, erase_erase a, erase_erase b, eraseEntries_eraseEntries r]
end

section
variable (P : Params) (S : Schema) (total total' fuel : Nat) (sd : SDesc)
variable (hdf : ∀ sid, ∀ f ∈ (S.get sid).fields, ∀ d, f.dflt = some d → plain d = true)
include hdf

theorem readFields_fsE : ∀ (fs : List (Nat × TVal)) (tail : Nat) (st : LoopSt),
    (readFields P S total fuel sd fs tail st).mapv (fun s => eraseList s.fs) =
      fsRun erase P S total' fuel sd fs (eraseList st.fs)
  | [], tail, st => by rw [readFields]; rfl
  | (id, v) :: r, tail, st => by
    rw [readFields, fsRun, stepV]
    cases hk : lookupKnown sd id v.tag with
    | none =>
      simp only
      split
      · rfl
      · simp only
        rw [readFields_fsE r tail _]
        cases sd.hasHolder <;> rfl
    | some p =>
      obtain ⟨ix, f⟩ := p
      simp only
      have hslot : erase (st.fs.getD ix default) = erase ((eraseList st.fs).getD ix default) := by
        rw [eraseList_getD, erase_erase]
      have ih := readField_te P S total total' fuel f v ((serFields r).length + tail) 0 _ _ hslot
        (fun dest dest' hd => readVal_te P S total total' hdf v fuel f.ty.deref _ _ dest dest' hd)
      rcases mapv_eq_cases _ _ _ ih with ⟨x, y, h1, h2, e⟩ | ⟨e, h1, h2⟩ | ⟨q, h1, h2⟩
      · rw [h1, h2]
        have ih2 := readFields_fsE r tail { st with fs := st.fs.set ix x, seen := f.id :: st.seen }
        simp only [eraseList_set, e] at ih2
        simpa [Outcome.mapv] using ih2
      · rw [h1, h2]; rfl
      · rw [h1, h2]; rfl

/-- the field loop on a permuted message, any schema: the same field values up to where the bytes of
    `nocopy` strings live, the same presence record up to order -/
theorem readFields_permE {l1 l2 : List (Nat × TVal)} (hp : l1.Perm l2) (hnd : (writtenIxs sd l1).Nodup)
    (tail tail' : Nat) (st st1 : LoopSt) (h : readFields P S total fuel sd l1 tail st = .ok st1) :
    ∃ st2, readFields P S total' fuel sd l2 tail' st = .ok st2 ∧ eraseList st2.fs = eraseList st1.fs ∧
      (∀ i, i ∈ st2.seen ↔ i ∈ st1.seen) := by
  have h1 := readFields_fsE P S total total fuel sd hdf l1 tail st
  rw [h] at h1
  simp only [Outcome.mapv] at h1
  have h2 := fsRun_perm erase P S total fuel sd hp hnd _ _ h1.symm
  have h3 := readFields_fsE P S total' total fuel sd hdf l2 tail' st
  rw [h2] at h3
  obtain ⟨st2, h4, h5⟩ := mapv_ok_inv _ _ _ h3
  refine ⟨st2, h4, h5.symm, ?_⟩
  have s1 := (readFields_spec P S total fuel sd l1 tail st st1 h).2.1
  have s2 := (readFields_spec P S total' fuel sd l2 tail' st st2 h4).2.1
  intro i
  rw [s1, s2, (knownIds_perm sd hp).mem_iff]
end

/-- C03, field order, every schema -/
theorem readMessage_permE (P : Params) (S : Schema)
    (hdf : ∀ sid, ∀ f ∈ (S.get sid).fields, ∀ d, f.dflt = some d → plain d = true) (sid : Nat)
    {l1 l2 : List (Nat × TVal)} (hp : l1.Perm l2) (hnd : (writtenIxs (S.get sid) l1).Nodup)
    (tr tr' : Nat) (dest w : Val) (h : readMessage P S sid l1 tr dest = .ok w) :
    ∃ w', readMessage P S sid l2 tr' dest = .ok w' ∧ eraseList w'.fieldsOf = eraseList w.fieldsOf := by
  unfold readMessage at h ⊢
  cases hm : P.maxDepth with
  | zero => rw [hm] at h; simp [readStruct] at h
  | succ f =>
    rw [hm] at h
    cases dest with
    | st vs hh =>
      rw [readStruct] at h ⊢
      split at h
      · rename_i st1 hl
        obtain ⟨st2, h2, e1, e2⟩ := readFields_permE P S _ ((ser (.strct l2)).length + tr') f (S.get sid) hdf
          hp hnd (tr + 1) (tr' + 1) _ st1 hl
        rw [h2]
        simp only
        rw [firstMissing_congr _ _ _ e2]
        split at h
        · cases h
        · cases h
          exact ⟨_, rfl, by simp [Val.fieldsOf, e1]⟩
      · cases h
      · cases h
    | _ =>
      rw [readStruct_nonst P S _ f sid l1 tr _ (by intro vs h' hh; cases hh)] at h
      cases h

theorem decodeM_permE {P : Params} (hP : P.valid = true) (S : Schema) (hSok : S.ok = true)
    (hdf : ∀ sid, ∀ f ∈ (S.get sid).fields, ∀ d, f.dflt = some d → plain d = true) (sid : Nat)
    {l1 l2 : List (Nat × TVal)} (hp : l1.Perm l2) (hnd : (writtenIxs (S.get sid) l1).Nodup)
    (hw : wfFields l1 = true) (tr tr' : Bytes) (dest w : Val) (n : Nat)
    (h : decodeM P S sid (ser (.strct l1) ++ tr) dest = .ok (w, n)) :
    ∃ w', decodeM P S sid (ser (.strct l2) ++ tr') dest = .ok (w', n) ∧
      eraseList w'.fieldsOf = eraseList w.fieldsOf := by
  rw [decodeM_refines hP S hSok sid l1 tr _ hw] at h
  obtain ⟨w0, h0, e⟩ := mapv_ok_inv _ _ _ h
  simp only [Prod.mk.injEq] at e
  obtain ⟨rfl, rfl⟩ := e
  obtain ⟨w', h', ef⟩ := readMessage_permE P S hdf sid hp hnd tr.length tr'.length dest w h0
  refine ⟨w', ?_, ef⟩
  rw [decodeM_refines hP S hSok sid l2 tr' _ (by rw [← wfFields_perm hp]; exact hw), h']
  simp only [Outcome.mapv, ser, List.length_append, serFields_length_perm hp]

end Frugal
