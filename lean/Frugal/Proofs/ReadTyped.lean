/-
  ReadTyped.lean — type soundness of the reference reader: reading a well-formed message whose bool
  bytes are 0 / 1 into a typed destination yields a typed value (`hasTy`: scalar ranges per kind, nil
  flags only on empty containers, no pointer to pointer, holder bytes only in types that declare the
  holder, every struct with exactly its schema's fields).  For schemas without `nocopy` fields
  (`S.rtSide`; views are not Go values of the model's typing).

  (Until D16 the decoder stored a bool byte as it was and the theorem needed the hypothesis that the
  message's bool bytes are 0 / 1; now `b == 1` is stored and the statement is unconditional.)
-/
import Frugal.Proofs.ReadNorm
import Frugal.Proofs.ReqEverywhere
import Frugal.Proofs.TailIndep
set_option linter.unusedSimpArgs false
set_option linter.unusedVariables false
namespace Frugal

theorem sext32to64_lt (n : Nat) (h : n < 4294967296) : sext32to64 n < 18446744073709551616 := by
  unfold sext32to64; split <;> omega

theorem readFixed_typed (S : Schema) (k : Kind) (tv : TVal) (w : Val) (hfx : specFixed k.tt > 0)
    (hw : wf tv = true) (h : readFixed k.tt tv = .ok w) :
    hasTy S (.base k) w = true := by
  cases tv with
  | bool n =>
    cases k <;> simp [readFixed, Kind.tt] at h
    subst h; simp only [hasTy]; refine decide_eq_true ?_; split <;> omega
  | i8 n =>
    simp only [wf, decide_eq_true_eq] at hw
    cases k <;> simp [readFixed, Kind.tt] at h
    subst h; simp only [hasTy, Kind.bits]; refine decide_eq_true ?_; omega
  | double n =>
    simp only [wf, decide_eq_true_eq] at hw
    cases k <;> simp [readFixed, Kind.tt] at h
    subst h; simp only [hasTy, Kind.bits]; refine decide_eq_true ?_; omega
  | i16 n =>
    simp only [wf, decide_eq_true_eq] at hw
    cases k <;> simp [readFixed, Kind.tt] at h
    subst h; simp only [hasTy, Kind.bits]; refine decide_eq_true ?_; omega
  | i32 n =>
    simp only [wf, decide_eq_true_eq] at hw
    cases k <;> simp [readFixed, Kind.tt] at h
    · subst h; simp only [hasTy, Kind.bits]; refine decide_eq_true ?_; omega
    · subst h; simp only [hasTy, Kind.bits]; exact decide_eq_true (sext32to64_lt n hw)
  | i64 n =>
    simp only [wf, decide_eq_true_eq] at hw
    cases k <;> simp [readFixed, Kind.tt] at h
    subst h; simp only [hasTy, Kind.bits]; refine decide_eq_true ?_; omega
  | str s => simp [readFixed] at h
  | strct fs => simp [readFixed] at h
  | map a b es => simp [readFixed] at h
  | set a xs => simp [readFixed] at h
  | list a xs => simp [readFixed] at h

theorem wrapPtr_typed (S : Schema) (t : Ty) (w : Val) (hok : t.ok = true) (h : hasTy S t.deref w = true) :
    hasTy S t (wrapPtr t w) = true := by
  cases t with
  | ptr e =>
    have : e.isPtr = false := by cases e <;> simp [Ty.ok, Ty.isPtr] at hok ⊢
    have hp : (Ty.ptr e).isPtr = true := rfl
    simp only [wrapPtr, hp, ↓reduceIte, hasTy, this, Ty.deref, Bool.not_false, Bool.true_and] at h ⊢
    exact h
  | _ => simpa [wrapPtr, Ty.isPtr, Ty.deref] using h

theorem fixed_deref_base (t : Ty) (hok : t.ok = true) (hfx : specFixed t.tt > 0) :
    ∃ k, t.deref = .base k ∧ t.tt = k.tt := by
  cases t with
  | base k => exact ⟨k, rfl, rfl⟩
  | ptr e =>
    cases e with
    | base k => exact ⟨k, rfl, rfl⟩
    | strct s => simp [Ty.tt, specFixed] at hfx
    | ptr e' => simp [Ty.ok] at hok
    | list s e' => simp [Ty.ok] at hok
    | map a b => simp [Ty.ok] at hok
  | strct s => simp [Ty.tt, specFixed] at hfx
  | map a b => simp [Ty.tt, specFixed] at hfx
  | list s e => cases s <;> simp [Ty.tt, specFixed] at hfx

theorem deref_ok (t : Ty) (hok : t.ok = true) : t.deref.ok = true ∧ t.deref.isPtr = false := by
  cases t with
  | ptr e => cases e <;> simp [Ty.ok, Ty.deref, Ty.isPtr] at hok ⊢
  | _ => simpa [Ty.deref, Ty.isPtr] using hok

theorem freshTarget_typed (S : Schema) (hside : S.rtSide) (t : Ty) (slot : Val) (h : hasTy S t slot = true) :
    hasTy S t.deref (freshTarget S t slot) = true := by
  unfold freshTarget
  cases t with
  | ptr e => simp only [Ty.isPtr, ↓reduceIte, Ty.deref]; exact zeroVal_typed S hside e
  | _ => simpa [Ty.isPtr, Ty.deref] using h

theorem hasTyFields_getD (S : Schema) : ∀ (fs : List Field) (vs : List Val) (ix : Nat) (f : Field),
    fs[ix]? = some f → hasTyFields S fs vs = true → hasTy S f.ty (vs.getD ix default) = true
  | [], _, ix, f, hf, _ => by simp at hf
  | g :: fr, [], ix, f, _, h => by simp [hasTyFields] at h
  | g :: fr, v :: vr, 0, f, hf, h => by
    simp only [List.getElem?_cons_zero, Option.some.injEq] at hf
    subst hf
    simp only [hasTyFields, Bool.and_eq_true] at h
    simpa using h.1
  | g :: fr, v :: vr, ix + 1, f, hf, h => by
    simp only [List.getElem?_cons_succ] at hf
    simp only [hasTyFields, Bool.and_eq_true] at h
    simpa using hasTyFields_getD S fr vr ix f hf h.2

theorem hasTyFields_set (S : Schema) : ∀ (fs : List Field) (vs : List Val) (ix : Nat) (f : Field) (x : Val),
    fs[ix]? = some f → hasTyFields S fs vs = true → hasTy S f.ty x = true →
    hasTyFields S fs (vs.set ix x) = true
  | [], _, ix, f, x, hf, _, _ => by simp at hf
  | g :: fr, [], ix, f, x, _, h, _ => by simp [hasTyFields] at h
  | g :: fr, v :: vr, 0, f, x, hf, h, hx => by
    simp only [List.getElem?_cons_zero, Option.some.injEq] at hf
    subst hf
    simp only [hasTyFields, Bool.and_eq_true] at h
    simp [hasTyFields, hx, h.2]
  | g :: fr, v :: vr, ix + 1, f, x, hf, h, hx => by
    simp only [List.getElem?_cons_succ] at hf
    simp only [hasTyFields, Bool.and_eq_true] at h
    simp [hasTyFields, h.1, hasTyFields_set S fr vr ix f x hf h.2 hx]

theorem mapInsert_typed (S : Schema) (kt vt : Ty) : ∀ (acc : List (Val × Val)) (k v : Val),
    hasTyEntries S kt vt acc = true → hasTy S kt k = true → hasTy S vt v = true →
    hasTyEntries S kt vt (mapInsert kt acc k v) = true
  | [], k, v, _, hk, hv => by simp [mapInsert, hasTyEntries, hk, hv]
  | (a, b) :: r, k, v, h, hk, hv => by
    simp only [hasTyEntries, Bool.and_eq_true] at h
    simp only [mapInsert]
    split
    · simp only [hasTyEntries, Bool.and_eq_true]; exact ⟨⟨hk, hv⟩, h.2⟩
    · simp only [hasTyEntries, Bool.and_eq_true]
      exact ⟨h.1, mapInsert_typed S kt vt r k v h.2 hk hv⟩

section
variable (P : Params) (S : Schema) (total : Nat) (hS : S.ok = true) (hside : S.rtSide)
include hS hside

theorem field_ok_of_mem (sid : Nat) (f : Field) (hf : f ∈ (S.get sid).fields) : f.ty.ok = true := by
  have hsd := sd_ok hS sid
  simp only [SDesc.ok, List.all_eq_true] at hsd
  have := hsd f hf
  simp only [Field.ok, Bool.and_eq_true] at this
  exact this.1.1.1

mutual
theorem readVal_typed : ∀ (tv : TVal) (fuel : Nat) (t : Ty) (tail : Nat) (dest w : Val),
    t.ok = true → t.isPtr = false → wf tv = true → hasTy S t dest = true →
    readVal P S total fuel t tv tail dest = .ok w → hasTy S t w = true
  | tv, 0, t, tail, dest, w, _, _, _, _, h => by simp [readVal] at h
  | tv, fuel + 1, t, tail, dest, w, hok, hnp, hw, hd, h => by
    by_cases hfx : specFixed t.tt > 0
    · cases t with
      | base k =>
        rw [readVal] at h; simp only [hfx, ↓reduceIte] at h
        exact readFixed_typed S k tv w hfx hw h
      | ptr e => simp [Ty.isPtr] at hnp
      | strct s => simp [Ty.tt, specFixed] at hfx
      | map k v => simp [Ty.tt, specFixed] at hfx
      | list s e => cases s <;> simp [Ty.tt, specFixed] at hfx
    · cases t with
      | base k =>
        rw [readVal] at h; simp only [hfx, ↓reduceIte] at h
        split at h
        · rename_i hs
          cases tv <;> simp only [readStr] at h <;> try cases h
          cases k <;> simp [Ty.tt, Kind.tt] at hs <;> (split at h <;> cases h <;> simp [hasTy])
        · cases h
      | ptr e => simp [Ty.isPtr] at hnp
      | map kt vt =>
        simp only [Ty.ok, Bool.and_eq_true] at hok
        cases tv with
        | map a b es =>
          rw [readVal] at h; simp only [hfx, ↓reduceIte] at h
          simp only [wf, Bool.and_eq_true] at hw
          split at h
          · cases h
          · obtain ⟨es', h0, rfl⟩ := mapv_ok_inv _ _ _ h
            simp only [hasTy, Bool.not_false, Bool.true_or, Bool.true_and]
            exact readEntries_typed es fuel kt vt tail [] es' a b hok.1.1.1 hok.1.1.2 hw.2 rfl h0
        | _ => unfold readVal at h; simp only [hfx, ↓reduceIte] at h; cases h
      | list s et =>
        simp only [Ty.ok, Bool.and_eq_true] at hok
        cases tv with
        | list a xs =>
          rw [readVal] at h; simp only [hfx, ↓reduceIte] at h
          simp only [wf, Bool.and_eq_true] at hw
          split at h
          · cases h
          · split at h
            · cases h; simp [hasTy, hasTyList]
            · obtain ⟨xs', h0, rfl⟩ := mapv_ok_inv _ _ _ h
              simp only [hasTy, Bool.not_false, Bool.true_or, Bool.true_and]
              exact readList_typed xs fuel et tail xs' a hok.1 hw.2 h0
        | set a xs =>
          rw [readVal] at h; simp only [hfx, ↓reduceIte] at h
          simp only [wf, Bool.and_eq_true] at hw
          split at h
          · cases h
          · split at h
            · cases h; simp [hasTy, hasTyList]
            · obtain ⟨xs', h0, rfl⟩ := mapv_ok_inv _ _ _ h
              simp only [hasTy, Bool.not_false, Bool.true_or, Bool.true_and]
              exact readList_typed xs fuel et tail xs' a hok.1 hw.2 h0
        | _ => unfold readVal at h; simp only [hfx, ↓reduceIte] at h; cases h
      | strct sid =>
        cases tv with
        | strct fs =>
          rw [readVal_struct_any] at h
          simp only [wf] at hw
          obtain ⟨ds, hh, hi, hds⟩ := initDest_typed S hside sid dest hd
          have hhold : ((S.get sid).hasHolder || hh.isEmpty) = true := by
            cases dest with
            | st vs h0 =>
              simp only [hasTy, Bool.and_eq_true] at hd
              simp only [initDest] at hi
              split at hi <;> (simp only [Val.st.injEq] at hi; rw [← hi.2]; exact hd.1)
            | _ => hasTy_absurd hd
          cases fuel with
          | zero => simp [readStruct] at h
          | succ f =>
            rw [hi, readStruct] at h
            split at h
            · rename_i st hl
              split at h
              · cases h
              · cases h
                have hfs := readFields_typed fs f sid (tail + 1) _ st hw hds hl
                simp only [hasTy, Bool.and_eq_true]
                refine ⟨?_, hfs⟩
                split
                · rename_i hb; simp [hb.1]
                · exact hhold
            · cases h
            · cases h
        | _ => unfold readVal at h; simp only [hfx, ↓reduceIte] at h; cases h
theorem readFields_typed : ∀ (fs : List (Nat × TVal)) (fuel : Nat) (sid : Nat) (tail : Nat) (st st' : LoopSt),
    wfFields fs = true → hasTyFields S (S.get sid).fields st.fs = true →
    readFields P S total fuel (S.get sid) fs tail st = .ok st' →
    hasTyFields S (S.get sid).fields st'.fs = true
  | [], _, _, _, st, st', _, hs, h => by
    rw [readFields] at h; cases h; exact hs
  | (id, v) :: r, fuel, sid, tail, st, st', hw, hs, h => by
    rw [readFields] at h
    simp only [wfFields, Bool.and_eq_true, decide_eq_true_eq] at hw
    cases hk : lookupKnown (S.get sid) id v.tag with
    | none =>
      simp only [hk] at h
      split at h
      · cases h
      · refine readFields_typed r fuel sid tail _ st' hw.2 ?_ h
        cases (S.get sid).hasHolder <;> simpa using hs
    | some p =>
      obtain ⟨ix, f⟩ := p
      simp only [hk] at h
      have hfmem := lookupKnown_mem _ _ _ _ _ hk
      have hfix := lookupKnown_getElem _ _ _ _ _ hk
      have hfok := field_ok_of_mem S hS hside sid f hfmem
      have hnc := hside.noNocopy sid f hfmem
      have hslot := hasTyFields_getD S _ _ ix f hfix hs
      split at h
      · rename_i x hx
        refine readFields_typed r fuel sid tail _ st' hw.2 ?_ h
        refine hasTyFields_set S _ _ ix f x hfix hs ?_
        rw [readField] at hx
        simp only [hnc, Bool.false_eq_true, ↓reduceIte] at hx
        split at hx
        · rename_i hfx
          obtain ⟨w0, h0, rfl⟩ := mapv_ok_inv _ _ _ hx
          refine wrapPtr_typed S _ _ hfok ?_
          obtain ⟨k, hdk, htk⟩ := fixed_deref_base f.ty hfok hfx
          rw [hdk]
          rw [htk] at h0 hfx
          exact readFixed_typed S k v w0 hfx hw.1.2 h0
        · obtain ⟨w0, h0, rfl⟩ := mapv_ok_inv _ _ _ hx
          have hd := deref_ok f.ty hfok
          exact wrapPtr_typed S _ _ hfok (readVal_typed v fuel f.ty.deref _ _ w0 hd.1 hd.2 hw.1.2
            (freshTarget_typed S hside f.ty _ hslot) h0)
      · cases h
      · cases h
theorem readList_typed : ∀ (xs : List TVal) (fuel : Nat) (et : Ty) (tail : Nat) (vs : List Val) (a : Nat),
    et.ok = true → wfList a xs = true →
    readList P S total fuel et xs tail = .ok vs → hasTyList S et vs = true
  | [], _, _, _, vs, _, _, _, h => by rw [readList] at h; cases h; rfl
  | x :: r, fuel, et, tail, vs, a, hok, hw, h => by
    rw [readList] at h
    simp only [wfList, Bool.and_eq_true] at hw
    split at h
    · rename_i w hx
      split at h
      · rename_i ws hws
        cases h
        simp only [hasTyList, Bool.and_eq_true]
        exact ⟨readSlot_typed x fuel et _ _ w hok hw.1.2 (zeroVal_typed S hside et) hx,
          readList_typed r fuel et tail ws a hok hw.2 hws⟩
      · cases h
      · cases h
    · cases h
    · cases h
theorem readEntries_typed : ∀ (es : List (TVal × TVal)) (fuel : Nat) (kt vt : Ty) (tail : Nat)
    (acc res : List (Val × Val)) (a b : Nat), kt.ok = true → vt.ok = true →
    wfEntries a b es = true → hasTyEntries S kt vt acc = true →
    readEntries P S total fuel kt vt es tail acc = .ok res → hasTyEntries S kt vt res = true
  | [], _, _, _, _, acc, res, _, _, _, _, _, ha, h => by
    rw [readEntries] at h; cases h; exact ha
  | (x, y) :: r, fuel, kt, vt, tail, acc, res, a, b, hk, hv, hw, ha, h => by
    rw [readEntries] at h
    simp only [wfEntries, Bool.and_eq_true] at hw
    split at h
    · rename_i k hkx
      split at h
      · rename_i v hvx
        have tk := readSlot_typed x fuel kt _ _ k hk hw.1.1.2 (zeroVal_typed S hside kt) hkx
        have tv := readSlot_typed y fuel vt _ _ v hv hw.1.2 (zeroVal_typed S hside vt) hvx
        exact readEntries_typed r fuel kt vt tail _ res a b hk hv hw.2
          (mapInsert_typed S kt vt acc k v ha tk tv) h
      · cases h
      · cases h
    · cases h
    · cases h
theorem readSlot_typed : ∀ (x : TVal) (fuel : Nat) (t : Ty) (tail : Nat) (slot w : Val),
    t.ok = true → wf x = true → hasTy S t slot = true →
    readSlot P S total fuel t x tail slot = .ok w → hasTy S t w = true
  | x, fuel, t, tail, slot, w, hok, hw, hs, h => by
    rw [readSlot] at h
    have hd := deref_ok t hok
    split at h
    · rename_i hfx
      obtain ⟨w0, h0, rfl⟩ := mapv_ok_inv _ _ _ h
      refine wrapPtr_typed S _ _ hok ?_
      obtain ⟨k, hdk, htk⟩ := fixed_deref_base t hok hfx
      rw [hdk]
      rw [htk] at h0 hfx
      exact readFixed_typed S k x w0 hfx hw h0
    · obtain ⟨w0, h0, rfl⟩ := mapv_ok_inv _ _ _ h
      exact wrapPtr_typed S _ _ hok (readVal_typed x fuel t.deref _ _ w0 hd.1 hd.2 hw
        (freshTarget_typed S hside t _ hs) h0)
end

omit total in
/-- top level: `readMessage` into a typed destination returns a typed value -/
theorem readMessage_typed (sid : Nat) (fs : List (Nat × TVal)) (trailing : Nat) (dest w : Val)
    (hw : wfFields fs = true) (hd : hasTy S (.strct sid) dest = true)
    (h : readMessage P S sid fs trailing dest = .ok w) : hasTy S (.strct sid) w = true := by
  unfold readMessage at h
  cases hm : P.maxDepth with
  | zero => rw [hm] at h; simp [readStruct] at h
  | succ f =>
    rw [hm] at h
    cases dest with
    | st vs hh =>
      simp only [hasTy, Bool.and_eq_true] at hd
      rw [readStruct] at h
      split at h
      · rename_i st hl
        split at h
        · cases h
        · cases h
          have hfs := readFields_typed P S ((ser (.strct fs)).length + trailing) hS hside fs f sid (trailing + 1)
            _ st hw hd.2 hl
          simp only [hasTy, Bool.and_eq_true]
          refine ⟨?_, hfs⟩
          split
          · rename_i hb; simp [hb.1]
          · exact hd.1
      · cases h
      · cases h
    | _ => hasTy_absurd hd
end
end Frugal
