/-
  TagsOk.lean — whatever the model of `internal/defs` accepts satisfies the well-formedness
  predicates (`Ty.ok`, `Field.ok`, `SDesc.ok`, `Schema.ok`) that the codec theorems assume: so "for
  every accepted type" is literal.  Also the rejection classes of C13 at the level of the type parser.
-/
import Frugal.Tags
set_option linter.unusedSimpArgs false
namespace Frugal

theorem isValueType_elem {t : Ty} (h : isValueType t = true) : (!t.isPtr || t.isStructPtr) = true := by
  cases t with
  | ptr e => cases e <;> simp [isValueType, Ty.isPtr, Ty.isStructPtr] at h ⊢
  | _ => simp [Ty.isPtr]

theorem parseSliceBody_ok (inner : List Char → Option (Ty × List Char)) (d : List Char) (ty : Ty) (r : List Char)
    (hin : ∀ r1 et r2, inner r1 = some (et, r2) → et.ok = true)
    (h : parseSliceBody inner d = some (ty, r)) : ty.ok = true ∧ ty.isPtr = false := by
  unfold parseSliceBody at h
  split at h
  · cases h
  · simp only at h
    split at h
    · cases h
    · split at h
      · cases h
      · split at h
        · cases h
        · rename_i r1 _ et r2 he
          split at h
          · cases h
          · split at h
            · rename_i hv
              simp only [Option.some.injEq, Prod.mk.injEq] at h
              obtain ⟨rfl, _⟩ := h
              exact ⟨by simp [Ty.ok, hin _ _ _ he, isValueType_elem hv], rfl⟩
            · cases h

theorem parseMapBody_ok (hasDef : Bool) (pk pv : List Char → Option (Ty × List Char)) (r0 : List Char)
    (ty : Ty) (r : List Char)
    (hk : ∀ r1 t r2, pk r1 = some (t, r2) → t.ok = true) (hv : ∀ r1 t r2, pv r1 = some (t, r2) → t.ok = true)
    (h : parseMapBody hasDef pk pv r0 = some (ty, r)) : ty.ok = true ∧ ty.isPtr = false := by
  unfold parseMapBody at h
  simp only at h
  split at h
  · cases h
  · split at h
    · cases h
    · rename_i r1 _ kt r2 hke
      split at h
      · cases h
      · rename_i hkey
        split at h
        · cases h
        · split at h
          · cases h
          · rename_i r3 _ vt r4 hve
            split at h
            · cases h
            · split at h
              · rename_i hval
                simp only [Option.some.injEq, Prod.mk.injEq] at h
                obtain ⟨rfl, _⟩ := h
                have hkt : isKeyType kt = true := by simpa using hkey
                refine ⟨?_, rfl⟩
                simp only [Ty.ok, hk _ _ _ hke, hv _ _ _ hve, isValueType_elem hval, Bool.true_and, Bool.and_true]
                cases kt with
                | base kk => cases kk <;> simp [isKeyType] at hkt ⊢
                | ptr e => cases e <;> simp [isKeyType] at hkt ⊢
                | _ => simp [isKeyType] at hkt
              · cases h

/-- every type the annotation parser produces is `ok`; with pointers disallowed it is no pointer -/
theorem parseType_ok : ∀ (vt : GoTy) (hasDef : Bool) (d : List Char) (allow : Bool) (ty : Ty) (r : List Char),
    doParseType vt hasDef d allow = some (ty, r) → ty.ok = true ∧ (allow = false → ty.isPtr = false)
  | .ptr e, hasDef, d, allow, ty, r, h => by
    unfold doParseType at h
    cases allow with
    | false => simp at h
    | true =>
      simp only [Bool.not_true, Bool.false_eq_true, ↓reduceIte] at h
      cases hin : doParseType e hasDef d false with
      | none => simp [hin] at h
      | some p =>
        obtain ⟨t, r'⟩ := p
        have ih := parseType_ok e hasDef d false t r' hin
        simp only [hin] at h
        cases t with
        | map _ _ => simp at h
        | list _ _ => simp at h
        | ptr x => have := ih.2 rfl; simp [Ty.isPtr] at this
        | base k => simp at h; obtain ⟨rfl, _⟩ := h; exact ⟨by simp [Ty.ok], by intro h; cases h⟩
        | strct s => simp at h; obtain ⟨rfl, _⟩ := h; exact ⟨by simp [Ty.ok], by intro h; cases h⟩
  | .prim k nm, hasDef, d, allow, ty, r, h => by
    unfold doParseType at h
    cases hk : kindTag k with
    | none => simp [hk] at h
    | some tag =>
      simp only [hk] at h
      split at h
      · split at h
        · cases h
        · rename_i r' isEnum _
          simp only [Option.some.injEq, Prod.mk.injEq] at h
          obtain ⟨rfl, _⟩ := h
          refine ⟨?_, fun _ => ?_⟩ <;> (split <;> first | rfl | (cases tag <;> rfl))
      · simp only [Option.some.injEq, Prod.mk.injEq] at h
        obtain ⟨rfl, _⟩ := h
        refine ⟨?_, fun _ => ?_⟩ <;> cases tag <;> rfl
  | .arr _ _, _, _, _, _, _, h => by unfold doParseType at h; cases h
  | .strct nm sid, hasDef, d, allow, ty, r, h => by
    unfold doParseType at h
    split at h
    · split at h
      · cases h
      · simp only [Option.some.injEq, Prod.mk.injEq] at h
        obtain ⟨rfl, _⟩ := h
        exact ⟨rfl, fun _ => rfl⟩
    · simp only [Option.some.injEq, Prod.mk.injEq] at h
      obtain ⟨rfl, _⟩ := h
      exact ⟨rfl, fun _ => rfl⟩
  | .slice e, hasDef, d, allow, ty, r, h => by
    unfold doParseType at h
    split at h
    · split at h
      · split at h
        · cases h
        · simp only [Option.some.injEq, Prod.mk.injEq] at h
          obtain ⟨rfl, _⟩ := h
          exact ⟨rfl, fun _ => rfl⟩
      · simp only [Option.some.injEq, Prod.mk.injEq] at h
        obtain ⟨rfl, _⟩ := h
        exact ⟨rfl, fun _ => rfl⟩
    · split at h
      · cases h
      · have := parseSliceBody_ok _ d ty r (fun r1 et r2 he => (parseType_ok e hasDef r1 true et r2 he).1) h
        exact ⟨this.1, fun _ => this.2⟩
  | .map k v, hasDef, d, allow, ty, r, h => by
    unfold doParseType at h
    simp only at h
    split at h
    · cases h
    · have := parseMapBody_ok hasDef _ _ _ ty r
        (fun r1 t r2 he => (parseType_ok k hasDef r1 true t r2 he).1)
        (fun r1 t r2 he => (parseType_ok v hasDef r1 true t r2 he).1) h
      exact ⟨this.1, fun _ => this.2⟩

theorem parseU16_lt {s : List Char} {n : Nat} (h : parseU16 s = some n) : n < 65536 := by
  unfold parseU16 at h
  split at h
  · cases h
  · split at h
    · simp only at h
      split at h
      · cases h; assumption
      · cases h
    · cases h

theorem parseOpts_spec (t : Ty) : ∀ (os : List (List Char)) (acc res : Bool),
    parseOpts t os acc = some res → res = true → acc = true ∨ t.isStringWire = true
  | [], acc, res, h, hr => by simp [parseOpts] at h; subst h; exact Or.inl hr
  | o :: r, acc, res, h, hr => by
    unfold parseOpts at h
    split at h
    · split at h
      · cases h
      · rename_i hs
        split at h
        · cases h
        · exact Or.inr (by simpa using hs)
    · cases h

/-- every field the resolver accepts is `ok` -/
theorem resolveField_ok (hasInit : Bool) (gf : GoField) (ft : List (List Char)) (f : Field)
    (h : resolveField hasInit gf ft = some f) : f.ok = true := by
  unfold resolveField at h
  split at h
  · cases h
  · rename_i idS r
    split at h
    · cases h
    · rename_i id hid
      split at h
      · cases h
      · rename_i req _
        split at h
        · cases h
        · rename_i ty hty
          split at h
          · cases h
          · rename_i hptr
            split at h
            · cases h
            · rename_i nocopy hopts
              simp only [Option.some.injEq] at h
              subst h
              have htyok : ty.ok = true := by
                revert hty
                generalize r.tail.headD [] = tyS
                intro hty
                unfold parseType at hty
                cases hp : doParseType gf.ty (!tyS.isEmpty) tyS true with
                | none => rw [hp] at hty; cases hty
                | some p =>
                  obtain ⟨t, r'⟩ := p
                  rw [hp] at hty
                  simp only at hty
                  split at hty
                  · simp only [Option.some.injEq] at hty
                    subst hty
                    exact (parseType_ok _ _ _ _ _ _ hp).1
                  · cases hty
              simp only [Field.ok, mkField, htyok, Bool.true_and, Bool.and_eq_true, Bool.or_eq_true,
                Bool.not_eq_true', beq_iff_eq, decide_eq_true_eq]
              refine ⟨⟨?_, ?_⟩, decide_eq_true (parseU16_lt hid)⟩
              · have hp : ptrRuleOk ty req = true := by simpa using hptr
                unfold ptrRuleOk at hp
                cases ty with
                | ptr e => cases e <;> simp [Ty.isPtr, Ty.isStructPtr] at hp ⊢ <;> exact hp
                | _ => simp [Ty.isPtr]
              · cases hn : nocopy with
                | false => exact Or.inl rfl
                | true =>
                  rcases parseOpts_spec ty _ false nocopy hopts hn with h | h
                  · cases h
                  · exact Or.inr (by simpa [Ty.isStringWire] using h)

theorem resolveFieldsAux_ok (hasInit : Bool) : ∀ (gfs : List GoField) (ids : List Nat) (fs : List Field),
    resolveFieldsAux hasInit gfs ids = some fs → ∀ f ∈ fs, f.ok = true
  | [], ids, fs, h => by simp [resolveFieldsAux] at h; subst h; intro f hf; cases hf
  | gf :: r, ids, fs, h => by
    unfold resolveFieldsAux at h
    split at h
    · exact resolveFieldsAux_ok hasInit r ids fs h
    · split at h
      · exact resolveFieldsAux_ok hasInit r ids fs h
      · split at h
        · cases h
        · rename_i f hf
          split at h
          · cases h
          · split at h
            · cases h
            · rename_i fs' hrest
              simp only [Option.some.injEq] at h
              subst h
              intro g hg
              rcases List.mem_cons.mp hg with rfl | hg'
              · exact resolveField_ok hasInit gf _ _ hf
              · exact resolveFieldsAux_ok hasInit r _ fs' hrest g hg'

theorem mem_insertById {f g : Field} : ∀ {l : List Field}, g ∈ insertById f l → g = f ∨ g ∈ l
  | [], h => by simp [insertById] at h; exact Or.inl h
  | x :: r, h => by
    unfold insertById at h
    split at h
    · rcases List.mem_cons.mp h with h | h
      · exact Or.inl h
      · exact Or.inr h
    · rcases List.mem_cons.mp h with h | h
      · exact Or.inr (h ▸ List.mem_cons_self ..)
      · rcases mem_insertById h with h | h
        · exact Or.inl h
        · exact Or.inr (List.mem_cons_of_mem _ h)

theorem mem_sortById {g : Field} : ∀ {l : List Field}, g ∈ sortById l → g ∈ l
  | [], h => by simp [sortById] at h
  | x :: r, h => by
    simp only [sortById, List.foldr_cons] at h
    rcases mem_insertById h with h | h
    · exact h ▸ List.mem_cons_self ..
    · exact List.mem_cons_of_mem _ (mem_sortById (l := r) (by simpa [sortById] using h))

/-- every struct definition the resolver accepts satisfies the codec theorems' hypothesis -/
theorem resolveStruct_ok (gs : GoStruct) (sd : SDesc) (h : resolveStruct gs = some sd) : sd.ok = true := by
  unfold resolveStruct at h
  split at h
  · cases h
  · rename_i fs hfs
    simp only [Option.some.injEq] at h
    subst h
    simp only [SDesc.ok, List.all_eq_true]
    intro f hf
    exact resolveFieldsAux_ok gs.hasInit gs.fields [] fs hfs f (mem_sortById hf)

/-- ... and so does the schema the codec model runs on, for every universe of declarations -/
theorem schemaOf_ok (U : Universe) : (schemaOf U).ok = true := by
  simp only [schemaOf, resolveAll, Schema.ok, List.all_eq_true, List.mem_map]
  rintro sd ⟨o, ⟨gs, _, rfl⟩, rfl⟩
  cases h : resolveStruct gs with
  | none => simp [SDesc.ok]
  | some sd' => simpa using resolveStruct_ok gs sd' h

end Frugal
