/-
  ReaderProps.lean — what the reference reader does, stated as theorems about its field loop:
  unknown fields go to the holder byte for byte and in order (C11), the presence record is exactly
  the set of fields decoded with their declared wire type (C09), destination fields that the
  message does not carry are left untouched (C03), and the recognised fields are read as if the
  unknown ones were not there (C11).
-/
import Frugal.Reader
import Frugal.Proofs.SerFacts
set_option linter.unusedSimpArgs false
namespace Frugal

/-- the bytes of the fields of a message that the schema does not recognise, in message order -/
def unknownBytes (sd : SDesc) : List (Nat × TVal) → Bytes
  | [] => []
  | (id, v) :: r => (if (lookupKnown sd id v.tag).isNone then serField id v else []) ++ unknownBytes sd r

/-- the ids of the schema fields that occur in the message with their declared wire type -/
def knownIds (sd : SDesc) : List (Nat × TVal) → List Nat
  | [] => []
  | (id, v) :: r => (match lookupKnown sd id v.tag with
      | some (_, f) => [f.id]
      | none => []) ++ knownIds sd r

/-- the indexes of the destination fields the message writes -/
def writtenIxs (sd : SDesc) : List (Nat × TVal) → List Nat
  | [] => []
  | (id, v) :: r => (match lookupKnown sd id v.tag with
      | some (ix, _) => [ix]
      | none => []) ++ writtenIxs sd r

/-- the message without the fields the schema does not recognise -/
def knownOnly (sd : SDesc) : List (Nat × TVal) → List (Nat × TVal)
  | [] => []
  | (id, v) :: r => if (lookupKnown sd id v.tag).isNone then knownOnly sd r else (id, v) :: knownOnly sd r

theorem readFields_spec (P : Params) (S : Schema) (total fuel : Nat) (sd : SDesc) :
    ∀ (fs : List (Nat × TVal)) (tail : Nat) (st st' : LoopSt),
      readFields P S total fuel sd fs tail st = .ok st' →
      st'.unk = st.unk ++ (if sd.hasHolder then unknownBytes sd fs else []) ∧
      (∀ i, i ∈ st'.seen ↔ i ∈ st.seen ∨ i ∈ knownIds sd fs) ∧
      (∀ j, j ∉ writtenIxs sd fs → st'.fs.getD j default = st.fs.getD j default) ∧
      st'.fs.length = st.fs.length
  | [], tail, st, st', h => by
    simp only [readFields, Outcome.ok.injEq] at h
    subst h
    simp [unknownBytes, knownIds, writtenIxs]
  | (id, v) :: r, tail, st, st', h => by
    rw [readFields] at h
    cases hk : lookupKnown sd id v.tag with
    | none =>
      simp only [hk] at h
      split at h
      · cases h
      · have ih := readFields_spec P S total fuel sd r tail _ st' h
        obtain ⟨i1, i2, i3, i4⟩ := ih
        refine ⟨?_, ?_, ?_, ?_⟩
        · rw [i1]
          cases sd.hasHolder <;> simp [unknownBytes, hk]
        · intro i; rw [i2]
          cases sd.hasHolder <;> simp [knownIds, hk]
        · intro j hj
          have : j ∉ writtenIxs sd r := by simpa [writtenIxs, hk] using hj
          rw [i3 j this]
          cases sd.hasHolder <;> simp
        · rw [i4]; cases sd.hasHolder <;> simp
    | some p =>
      obtain ⟨ix, f⟩ := p
      simp only [hk] at h
      split at h
      · rename_i x hx
        have ih := readFields_spec P S total fuel sd r tail _ st' h
        obtain ⟨i1, i2, i3, i4⟩ := ih
        refine ⟨?_, ?_, ?_, ?_⟩
        · rw [i1]; simp [unknownBytes, hk]
        · intro i; rw [i2]
          simp only [knownIds, hk, List.mem_cons, List.singleton_append]
          constructor
          · rintro (h | h)
            · rcases h with h | h
              · exact Or.inr (Or.inl h)
              · exact Or.inl h
            · exact Or.inr (Or.inr h)
          · rintro (h | h | h)
            · exact Or.inl (Or.inr h)
            · exact Or.inl (Or.inl h)
            · exact Or.inr h
        · intro j hj
          have hj' : j ≠ ix ∧ j ∉ writtenIxs sd r := by
            simpa [writtenIxs, hk] using hj
          rw [i3 j hj'.2]
          simp only [List.getD_eq_getElem?_getD]
          rw [List.getElem?_set_ne (Ne.symm hj'.1)]
        · rw [i4]; simp
      · cases h
      · cases h

/-- C11: when the struct keeps unknown fields, the holder receives exactly the bytes of the
    unrecognised fields (unknown id, or known id with another wire type), in message order. -/
theorem holder_content (P : Params) (S : Schema) (total fuel : Nat) (sd : SDesc) (fs : List (Nat × TVal))
    (tail : Nat) (vs : List Val) (st' : LoopSt) (hh : sd.hasHolder = true)
    (h : readFields P S total fuel sd fs tail { fs := vs } = .ok st') : st'.unk = unknownBytes sd fs := by
  have := (readFields_spec P S total fuel sd fs tail _ st' h).1
  simpa [hh] using this

/-- C11: without the holder nothing is recorded -/
theorem no_holder_drop (P : Params) (S : Schema) (total fuel : Nat) (sd : SDesc) (fs : List (Nat × TVal))
    (tail : Nat) (vs : List Val) (st' : LoopSt) (hh : sd.hasHolder = false)
    (h : readFields P S total fuel sd fs tail { fs := vs } = .ok st') : st'.unk = [] := by
  have := (readFields_spec P S total fuel sd fs tail _ st' h).1
  simpa [hh] using this

/-- C09: the presence record after the loop is exactly the set of schema fields that occurred with
    their declared wire type -/
theorem seen_exact (P : Params) (S : Schema) (total fuel : Nat) (sd : SDesc) (fs : List (Nat × TVal))
    (tail : Nat) (vs : List Val) (st' : LoopSt)
    (h : readFields P S total fuel sd fs tail { fs := vs } = .ok st') (i : Nat) :
    i ∈ st'.seen ↔ i ∈ knownIds sd fs := by
  have := (readFields_spec P S total fuel sd fs tail _ st' h).2.1 i
  simpa using this

/-- C03: a destination field the message does not carry keeps its prior contents -/
theorem untouched (P : Params) (S : Schema) (total fuel : Nat) (sd : SDesc) (fs : List (Nat × TVal))
    (tail : Nat) (vs : List Val) (st' : LoopSt)
    (h : readFields P S total fuel sd fs tail { fs := vs } = .ok st') (j : Nat) (hj : j ∉ writtenIxs sd fs) :
    st'.fs.getD j default = vs.getD j default :=
  (readFields_spec P S total fuel sd fs tail _ st' h).2.2.1 j hj

/-- C09: the struct-level verdict: an error naming the first required field that did not occur;
    success exactly when none is missing. -/
theorem required_verdict (P : Params) (S : Schema) (total fuel sid : Nat) (fs : List (Nat × TVal)) (tail : Nat)
    (vs : List Val) (h : Bytes) (st' : LoopSt)
    (hloop : readFields P S total fuel (S.get sid) fs (tail + 1) { fs := vs } = .ok st') :
    readStruct P S total (fuel + 1) sid fs tail (.st vs h) =
      match firstMissing (S.get sid).fields st'.seen with
      | some f => .err (.required f.name)
      | none => .ok (.st st'.fs (if (S.get sid).hasHolder && st'.unk.length > 0 then st'.unk else h)) := by
  rw [readStruct]
  simp only [hloop]
  cases firstMissing (S.get sid).fields st'.seen <;> rfl

theorem firstMissing_none_iff (fields : List Field) (seen : List Nat) :
    firstMissing fields seen = none ↔ ∀ f ∈ fields, f.req = .required → f.id ∈ seen := by
  induction fields with
  | nil => simp [firstMissing]
  | cons f r ih =>
    simp only [firstMissing, List.mem_cons, forall_eq_or_imp]
    by_cases hr : f.req = .required
    · by_cases hs : f.id ∈ seen
      · simp [hr, hs, ih]
      · simp [hr, hs]
    · have : (f.req == Req.required) = false := by simpa using hr
      simp [this, hr, ih]

theorem firstMissing_some_spec (fields : List Field) (seen : List Nat) (f : Field)
    (h : firstMissing fields seen = some f) : f ∈ fields ∧ f.req = .required ∧ f.id ∉ seen := by
  induction fields with
  | nil => simp [firstMissing] at h
  | cons g r ih =>
    simp only [firstMissing] at h
    split at h
    · rename_i hc
      cases h
      simp only [Bool.and_eq_true, beq_iff_eq, Bool.not_eq_true', List.contains_eq_mem,
        decide_eq_false_iff_not] at hc
      exact ⟨List.mem_cons_self .., hc.1, hc.2⟩
    · obtain ⟨a, b, c⟩ := ih h
      exact ⟨List.mem_cons_of_mem _ a, b, c⟩

end Frugal
