/-
  BuildCacheMixed.lean — C07 when the user code a build runs changes its mind.  The build calls the
  type's `InitDefault`; it may panic on one call and work on the next (D21).  `failing R bs` are the
  resolution results while the structs `bs` fail.  A use that succeeds under `failing R bs` is the same
  use under `R` (it never needed a failing struct), one that fails leaves no trace; so any history in
  which every call has its own set of failing structs ends in the state of a plain history under `R` —
  the failed calls dropped — and the history theorems of BuildCacheLemmas apply to it.
-/
import Frugal.Proofs.BuildCacheLemmas
set_option linter.unusedSimpArgs false
set_option linter.unusedVariables false
namespace Frugal

theorem failing_length (R : List (Option SDesc)) (bs : List Nat) : (failing R bs).length = R.length := by
  simp [failing]

theorem failing_getD (R : List (Option SDesc)) (bs : List Nat) (i : Nat) :
    (failing R bs).getD i none = if bs.contains i then none else R.getD i none := by
  simp only [failing, List.getD_eq_getElem?_getD, List.getElem?_map, List.getElem?_zipIdx]
  cases h : R[i]? with
  | none => simp
  | some r => simp

theorem fetchAll_mono (b b' : BKey → BSt → Bool × BSt)
    (h : ∀ k s s', b' k s = (true, s') → b k s = (true, s')) :
    ∀ (ks : List BKey) (s s' : BSt), fetchAll b' ks s = (true, s') → fetchAll b ks s = (true, s')
  | [], s, s', hf => by simpa [fetchAll] using hf
  | n :: r, s, s', hf => by
    rw [fetchAll] at hf ⊢
    split
    · rename_i hc
      simp only [hc, ↓reduceIte] at hf
      exact fetchAll_mono b b' h r s s' hf
    · rename_i hc
      simp only [hc, Bool.false_eq_true, ↓reduceIte] at hf
      cases hb : b' n s with
      | mk ok s1 =>
        rw [hb] at hf
        cases ok with
        | true =>
          rw [h n s s1 hb]
          exact fetchAll_mono b b' h r _ s' hf
        | false => simp at hf

theorem build_mono (R' R : List (Option SDesc))
    (hsub : ∀ i sd, R'.getD i none = some sd → R.getD i none = some sd) :
    ∀ (fuel : Nat) (k : BKey) (s s' : BSt), build R' fuel k s = (true, s') → build R fuel k s = (true, s')
  | 0, k, s, s', h => by simp [build] at h
  | fuel + 1, k, s, s', h => by
    rw [build] at h ⊢
    by_cases hc : s.pf.contains k = true
    · rw [if_pos hc] at h ⊢; exact h
    · rw [if_neg hc] at h ⊢
      cases hr : R'.getD k.1 none with
      | none => rw [hr] at h; cases h
      | some sd =>
        rw [hr] at h
        rw [hsub k.1 sd hr]
        dsimp only at h ⊢
        cases hf : fetchAll (build R' fuel) sd.keyRefs { s with pf := k :: s.pf, jc := k :: s.jc } with
        | mk ok s2 =>
          rw [hf] at h
          cases ok with
          | true =>
            rw [fetchAll_mono (build R fuel) (build R' fuel) (build_mono R' R hsub fuel) _ _ _ hf]
            exact h
          | false => cases h

/-- a use that succeeds while the structs `bs` fail is the use it is when nothing fails -/
theorem useType_failing_ok (R : List (Option SDesc)) (bs : List Nat) (sid : Nat) (st : CacheSt)
    (h : (useType (failing R bs) sid st).1 = true) : useType (failing R bs) sid st = useType R sid st := by
  unfold useType at h ⊢
  by_cases hp : st.pub.contains sid = true
  · rw [if_pos hp, if_pos hp]
  · rw [if_neg hp] at h ⊢
    rw [if_neg hp]
    have hfu : buildFuel (failing R bs) = buildFuel R := by simp [buildFuel, failing_length]
    rw [hfu] at h ⊢
    cases hb : build (failing R bs) (buildFuel R) (sid, false) { pf := st.pf, linked := st.linked } with
    | mk ok s =>
      rw [hb] at h
      cases ok with
      | false => cases h
      | true =>
        have := build_mono (failing R bs) R (by
          intro i sd hi
          rw [failing_getD] at hi
          split at hi
          · cases hi
          · exact hi) _ _ _ _ hb
        rw [this]

/-- a history in which every call comes with the set of structs whose user code fails during it -/
def useMixed (R : List (Option SDesc)) : List (Nat × List Nat) → CacheSt → CacheSt
  | [], st => st
  | (sid, bs) :: r, st => useMixed R r (useType (failing R bs) sid st).2

/-- the calls of such a history that succeeded -/
def succeeded (R : List (Option SDesc)) : List (Nat × List Nat) → CacheSt → List Nat
  | [], _ => []
  | (sid, bs) :: r, st =>
    if (useType (failing R bs) sid st).1 then sid :: succeeded R r (useType (failing R bs) sid st).2
    else succeeded R r (useType (failing R bs) sid st).2

/-- … it ends in the state of the plain history of its successful calls -/
theorem useMixed_eq_useAll (R : List (Option SDesc)) : ∀ (hist : List (Nat × List Nat)) (st : CacheSt),
    useMixed R hist st = useAll R (succeeded R hist st) st
  | [], st => rfl
  | (sid, bs) :: r, st => by
    simp only [useMixed, succeeded]
    cases h : (useType (failing R bs) sid st).1 with
    | true =>
      simp only [↓reduceIte, useAll]
      rw [← useType_failing_ok R bs sid st h]
      exact useMixed_eq_useAll R r _
    | false =>
      simp only [Bool.false_eq_true, ↓reduceIte]
      have := useType_fail_unchanged (failing R bs) sid st h
      rw [this]
      exact useMixed_eq_useAll R r st

/-- whatever calls were made before and whatever user code failed during each of them, a use has
    the outcome it has in a fresh process -/
theorem mixed_history_independent (R : List (Option SDesc)) (hist : List (Nat × List Nat)) (sid : Nat) :
    (useType R sid (useMixed R hist {})).1 = (useType R sid {}).1 := by
  rw [useMixed_eq_useAll]
  exact use_history_independent R _ sid

end Frugal
