/-
  Holders.lean — the denotation of values that carry retained unknown-field bytes.  `toWireH` is
  `toWire` (Encode.lean) except that a struct's denotation also lists the fields its holder bytes
  serialise (`holderFields`, computed with the reference parser of Wire.lean); `holdersOK` says that
  every holder in a value is the serialisation of a list of fields.  For such values the reference
  encoder writes `ser (toWireH v)`, a well-formed message (C02 extended to values with holders), every
  value the reader returns is such a value (Proofs/HoldersRead.lean), and the denotation of a struct
  decoded from message `fs` lists the unrecognised fields of `fs` verbatim (C11, every nesting level).
  The bodies of `toWireH_tag`, `refEnc_eq_serH`, `toWireH_wf` are those of ToWire.lean with the struct
  case extended.
-/
import Frugal.Proofs.ToWire
import Frugal.Proofs.SecondHop
set_option linter.unusedSimpArgs false
namespace Frugal

mutual
theorem depth_le_ser : ∀ v : TVal, depth v ≤ (ser v).length
  | .bool _ => by simp [depth]
  | .i8 _ => by simp [depth]
  | .double _ => by simp [depth]
  | .i16 _ => by simp [depth]
  | .i32 _ => by simp [depth]
  | .i64 _ => by simp [depth]
  | .str _ => by simp [depth]
  | .strct fs => by
    have := depthFields_le_ser fs
    simp only [depth, ser, List.length_append, List.length_cons, List.length_nil]; omega
  | .map _ _ es => by
    have := depthEntries_le_ser es
    simp only [depth, ser, List.length_append, List.length_cons, be32_length]; omega
  | .set _ xs => by
    have := depthList_le_ser xs
    simp only [depth, ser, List.length_append, List.length_cons, be32_length]; omega
  | .list _ xs => by
    have := depthList_le_ser xs
    simp only [depth, ser, List.length_append, List.length_cons, be32_length]; omega
theorem depthFields_le_ser : ∀ fs : List (Nat × TVal), depthFields fs ≤ (serFields fs).length
  | [] => by simp [depthFields]
  | (_, v) :: r => by
    have := depth_le_ser v
    have := depthFields_le_ser r
    simp only [depthFields, serFields, List.length_append, List.length_cons]; omega
theorem depthEntries_le_ser : ∀ es : List (TVal × TVal), depthEntries es ≤ (serEntries es).length
  | [] => by simp [depthEntries]
  | (k, v) :: r => by
    have := depth_le_ser k
    have := depth_le_ser v
    have := depthEntries_le_ser r
    simp only [depthEntries, serEntries, List.length_append]; omega
theorem depthList_le_ser : ∀ xs : List TVal, depthList xs ≤ (serList xs).length
  | [] => by simp [depthList]
  | v :: r => by
    have := depth_le_ser v
    have := depthList_le_ser r
    simp only [depthList, serList, List.length_append]; omega
end

/-- the fields that retained bytes serialise (none when the bytes are not a field sequence) -/
def holderFields (h : Bytes) : List (Nat × TVal) :=
  match parseFields (parse (h.length + 1)) (h.length + 2) (h ++ [0]) with
  | some (fs, _) => fs
  | none => []

theorem holderFields_ser (us : List (Nat × TVal)) (hw : wfFields us = true) :
    holderFields (serFields us) = us := by
  unfold holderFields
  have h1 := depthFields_le_ser us
  have h2 := serFields_len us
  rw [parseFields_ser us _ _ [] hw (by omega) (by omega)]

@[simp] theorem holderFields_nil : holderFields [] = [] := holderFields_ser [] rfl

mutual
def toWireH (S : Schema) : Ty → Val → TVal
  | .base k, .sc n => scalarTVal k n
  | .base _, .str s => .str s
  | .base _, .bin _ s => .str s
  | .ptr e, .ptr v => toWireH S e v
  | .ptr (.strct _), .nilp => .strct []
  | .list isSet e, .lst _ xs =>
      if isSet then .set e.wire (toWireListH S e xs) else .list e.wire (toWireListH S e xs)
  | .map k v, .mp _ es => .map k.wire v.wire (toWireEntriesH S k v es)
  | .strct sid, .st fs h => .strct (toWireFieldsH S (S.get sid) (S.get sid).fields fs ++ holderFields h)
  | _, _ => .strct []
def toWireListH (S : Schema) (e : Ty) : List Val → List TVal
  | [] => []
  | x :: r => toWireH S e x :: toWireListH S e r
def toWireEntriesH (S : Schema) (k v : Ty) : List (Val × Val) → List (TVal × TVal)
  | [] => []
  | (a, b) :: r => (toWireH S k a, toWireH S v b) :: toWireEntriesH S k v r
def toWireFieldsH (S : Schema) (sd : SDesc) : List Field → List Val → List (Nat × TVal)
  | f :: fr, x :: xr =>
      if fieldWritten sd f x then (f.id, toWireH S f.ty x) :: toWireFieldsH S sd fr xr
      else toWireFieldsH S sd fr xr
  | _, _ => []
end

/- every holder of the value is the serialisation of a list of fields -/
mutual
def holdersOK : Val → Bool
  | .st fs h => decide (serFields (holderFields h) = h) && holdersOKList fs
  | .ptr v => holdersOK v
  | .lst _ xs => holdersOKList xs
  | .mp _ es => holdersOKEntries es
  | _ => true
def holdersOKList : List Val → Bool
  | [] => true
  | x :: r => holdersOK x && holdersOKList r
def holdersOKEntries : List (Val × Val) → Bool
  | [] => true
  | (a, b) :: r => holdersOK a && holdersOK b && holdersOKEntries r
end

/- `sizesFit`, and every holder is the serialisation of a list of well-formed fields -/
mutual
def fitH : Val → Bool
  | .str s => s.length < 2147483648
  | .bin _ s => s.length < 2147483648
  | .ptr v => fitH v
  | .lst _ xs => xs.length < 2147483648 && fitHList xs
  | .mp _ es => es.length < 2147483648 && fitHEntries es
  | .st fs h => decide (serFields (holderFields h) = h) && wfFields (holderFields h) && fitHList fs
  | _ => true
def fitHList : List Val → Bool
  | [] => true
  | x :: r => fitH x && fitHList r
def fitHEntries : List (Val × Val) → Bool
  | [] => true
  | (a, b) :: r => fitH a && fitH b && fitHEntries r
end

/-- the denotation carries the declared wire type -/
theorem toWireH_tag (S : Schema) (v : Val) (ty : Ty) (hn : nilOK ty v = true) (ht : hasTy S ty v = true) :
    (toWireH S ty v).tag = ty.wire := by
  cases v with
  | sc n =>
    cases ty with
    | base k =>
      cases k with
      | string => hasTy_absurd ht
      | binary => hasTy_absurd ht
      | _ => simp only [toWireH]; rw [scalarTVal_tag] <;> simp
    | _ => hasTy_absurd ht
  | str s =>
    cases ty with
    | base k => cases k <;> first | (hasTy_absurd ht; done) | rfl
    | _ => hasTy_absurd ht
  | bin n s =>
    cases ty with
    | base k => cases k <;> first | (hasTy_absurd ht; done) | rfl
    | _ => hasTy_absurd ht
  | nilp =>
    cases ty with
    | ptr e =>
      cases e with
      | strct sid => rfl
      | _ => simp [nilOK, Ty.isPtr, Ty.isStructPtr, isNilWord] at hn
    | base k => cases k <;> hasTy_absurd ht
    | _ => hasTy_absurd ht
  | ptr v =>
    cases ty with
    | ptr e =>
      simp only [hasTy, Bool.and_eq_true, Bool.not_eq_true'] at ht
      -- e is not a pointer: the denotation of the pointee has e's wire type
      cases v with
      | sc n =>
        cases e with
        | base k =>
          cases k with
          | string => have := ht.2; hasTy_absurd this
          | binary => have := ht.2; hasTy_absurd this
          | _ => simp only [toWireH]; rw [scalarTVal_tag] <;> first | rfl | simp
        | _ => have := ht.2; hasTy_absurd this
      | str s =>
        cases e with
        | base k => cases k <;> first | (have := ht.2; hasTy_absurd this; done) | rfl
        | _ => have := ht.2; hasTy_absurd this
      | bin n s =>
        cases e with
        | base k => cases k <;> first | (have := ht.2; hasTy_absurd this; done) | rfl
        | _ => have := ht.2; hasTy_absurd this
      | st fs h =>
        cases e with
        | strct sid => rfl
        | base k => cases k <;> (have := ht.2; hasTy_absurd this)
        | _ => have := ht.2; hasTy_absurd this
      | lst n xs =>
        cases e with
        | list s e' => cases s <;> rfl
        | base k => cases k <;> (have := ht.2; hasTy_absurd this)
        | _ => have := ht.2; hasTy_absurd this
      | mp n es =>
        cases e with
        | map k v => rfl
        | base k => cases k <;> (have := ht.2; hasTy_absurd this)
        | _ => have := ht.2; hasTy_absurd this
      | nilp =>
        cases e with
        | ptr e' => simp [Ty.isPtr] at ht
        | base k => cases k <;> (have := ht.2; hasTy_absurd this)
        | _ => have := ht.2; hasTy_absurd this
      | ptr v' =>
        cases e with
        | ptr e' => simp [Ty.isPtr] at ht
        | base k => cases k <;> (have := ht.2; hasTy_absurd this)
        | _ => have := ht.2; hasTy_absurd this
      | vstr _ _ =>
        cases e with
        | base k => cases k <;> (have := ht.2; hasTy_absurd this)
        | _ => have := ht.2; hasTy_absurd this
      | vbin _ _ =>
        cases e with
        | base k => cases k <;> (have := ht.2; hasTy_absurd this)
        | _ => have := ht.2; hasTy_absurd this
    | base k => cases k <;> hasTy_absurd ht
    | _ => hasTy_absurd ht
  | lst n xs =>
    cases ty with
    | list s e => cases s <;> rfl
    | base k => cases k <;> hasTy_absurd ht
    | _ => hasTy_absurd ht
  | mp n es =>
    cases ty with
    | map k v => rfl
    | base k => cases k <;> hasTy_absurd ht
    | _ => hasTy_absurd ht
  | st fs h =>
    cases ty with
    | strct sid => rfl
    | base k => cases k <;> hasTy_absurd ht
    | _ => hasTy_absurd ht
  | vstr _ _ =>
    cases ty with
    | base k => cases k <;> hasTy_absurd ht
    | _ => hasTy_absurd ht
  | vbin _ _ =>
    cases ty with
    | base k => cases k <;> hasTy_absurd ht
    | _ => hasTy_absurd ht

mutual
theorem refEnc_eq_serH (S : Schema) (hS : S.ok = true) : ∀ (v : Val) (ty : Ty), ty.ok = true → nilOK ty v = true →
    hasTy S ty v = true → holdersOK v = true → refEnc S ty v = ser (toWireH S ty v)
  | .sc n, ty, _, _, ht, _ => by
    cases ty with
    | base k =>
      cases k with
      | string => hasTy_absurd ht
      | binary => hasTy_absurd ht
      | _ => simp only [refEnc, toWireH]; rw [scalarTVal_ser] <;> simp
    | _ => hasTy_absurd ht
  | .str s, ty, _, _, ht, _ => by
    cases ty with
    | base k => cases k <;> first | (hasTy_absurd ht; done) | simp [refEnc, toWireH, ser, encStr]
    | _ => hasTy_absurd ht
  | .bin n s, ty, _, _, ht, _ => by
    cases ty with
    | base k => cases k <;> first | (hasTy_absurd ht; done) | simp [refEnc, toWireH, ser, encStr]
    | _ => hasTy_absurd ht
  | .nilp, ty, _, hnil, ht, _ => by
    cases ty with
    | ptr e =>
      cases e with
      | strct sid => simp [refEnc, toWireH, ser, serFields]
      | _ => simp [nilOK, Ty.isPtr, Ty.isStructPtr, isNilWord] at hnil
    | base k => cases k <;> hasTy_absurd ht
    | _ => hasTy_absurd ht
  | .ptr v, ty, hok, _, ht, hn => by
    cases ty with
    | ptr e =>
      simp only [hasTy, Bool.and_eq_true, Bool.not_eq_true'] at ht
      simp only [holdersOK] at hn
      have hoke : e.ok = true := by cases e <;> simp [Ty.ok] at hok ⊢
      have hnil : nilOK e v = true := by simp [nilOK, ht.1]
      simp only [refEnc, toWireH]
      exact refEnc_eq_serH S hS v e hoke hnil ht.2 hn
    | base k => cases k <;> hasTy_absurd ht
    | _ => hasTy_absurd ht
  | .lst n xs, ty, hok, _, ht, hn => by
    cases ty with
    | list s e =>
      simp only [hasTy, Bool.and_eq_true] at ht
      simp only [holdersOK] at hn
      simp only [Ty.ok, Bool.and_eq_true] at hok
      have := refEncList_eq_serH S hS xs e hok.1 hok.2 ht.2 hn
      cases s <;> simp [refEnc, toWireH, ser, this.1, this.2]
    | base k => cases k <;> hasTy_absurd ht
    | _ => hasTy_absurd ht
  | .mp n es, ty, hok, _, ht, hn => by
    cases ty with
    | map k v =>
      simp only [hasTy, Bool.and_eq_true] at ht
      simp only [holdersOK] at hn
      simp only [Ty.ok, Bool.and_eq_true] at hok
      obtain ⟨⟨⟨hk, hv⟩, hvp⟩, hkk⟩ := hok
      have hkp : (!k.isPtr || k.isStructPtr) = true := by
        cases k with
        | ptr e => cases e <;> simp_all [Ty.isPtr, Ty.isStructPtr]
        | _ => simp [Ty.isPtr]
      have := refEncEntries_eq_serH S hS es k v hk hv hkp hvp ht.2 hn
      simp [refEnc, toWireH, ser, this.1, this.2]
    | base k => cases k <;> hasTy_absurd ht
    | _ => hasTy_absurd ht
  | .st fs h, ty, _, _, ht, hn => by
    cases ty with
    | strct sid =>
      simp only [hasTy, Bool.and_eq_true] at ht
      simp only [holdersOK, Bool.and_eq_true, decide_eq_true_eq] at hn
      have hsd := sd_ok hS sid
      simp only [SDesc.ok, List.all_eq_true] at hsd
      have := refEncFields_eq_serH S hS fs (S.get sid) (S.get sid).fields (fun f hf => hsd f hf) ht.2 hn.2
      simp [refEnc, toWireH, ser, this, serFields_append, hn.1]
    | base k => cases k <;> hasTy_absurd ht
    | _ => hasTy_absurd ht
  | .vstr _ _, ty, _, _, ht, _ => by
    cases ty with
    | base k => cases k <;> hasTy_absurd ht
    | _ => hasTy_absurd ht
  | .vbin _ _, ty, _, _, ht, _ => by
    cases ty with
    | base k => cases k <;> hasTy_absurd ht
    | _ => hasTy_absurd ht
theorem refEncList_eq_serH (S : Schema) (hS : S.ok = true) : ∀ (xs : List Val) (e : Ty), e.ok = true →
    (!e.isPtr || e.isStructPtr) = true → hasTyList S e xs = true → holdersOKList xs = true →
    refEncList S e xs = serList (toWireListH S e xs) ∧ (toWireListH S e xs).length = xs.length
  | [], _, _, _, _, _ => by simp [refEncList, toWireListH, serList]
  | x :: r, e, hok, hp, ht, hn => by
    simp only [hasTyList, Bool.and_eq_true] at ht
    simp only [holdersOKList, Bool.and_eq_true] at hn
    have ih := refEncList_eq_serH S hS r e hok hp ht.2 hn.2
    simp [refEncList, toWireListH, serList, refEnc_eq_serH S hS x e hok (nilOK_of_elem hp x) ht.1 hn.1, ih.1, ih.2]
theorem refEncEntries_eq_serH (S : Schema) (hS : S.ok = true) : ∀ (es : List (Val × Val)) (k v : Ty),
    k.ok = true → v.ok = true → (!k.isPtr || k.isStructPtr) = true → (!v.isPtr || v.isStructPtr) = true →
    hasTyEntries S k v es = true → holdersOKEntries es = true →
    refEncEntries S k v es = serEntries (toWireEntriesH S k v es) ∧ (toWireEntriesH S k v es).length = es.length
  | [], _, _, _, _, _, _, _, _ => by simp [refEncEntries, toWireEntriesH, serEntries]
  | (a, b) :: r, k, v, hk, hv, hkp, hvp, ht, hn => by
    simp only [hasTyEntries, Bool.and_eq_true] at ht
    simp only [holdersOKEntries, Bool.and_eq_true] at hn
    have ih := refEncEntries_eq_serH S hS r k v hk hv hkp hvp ht.2 hn.2
    simp [refEncEntries, toWireEntriesH, serEntries,
      refEnc_eq_serH S hS a k hk (nilOK_of_elem hkp a) ht.1.1 hn.1.1,
      refEnc_eq_serH S hS b v hv (nilOK_of_elem hvp b) ht.1.2 hn.1.2, ih.1, ih.2]
theorem refEncFields_eq_serH (S : Schema) (hS : S.ok = true) : ∀ (xs : List Val) (sd : SDesc) (fs : List Field),
    (∀ f ∈ fs, f.ok = true) → hasTyFields S fs xs = true → holdersOKList xs = true →
    refEncFields S sd fs xs = serFields (toWireFieldsH S sd fs xs)
  | [], _, [], _, _, _ => by simp [refEncFields, toWireFieldsH, serFields]
  | [], _, _ :: _, _, ht, _ => by simp [hasTyFields] at ht
  | _ :: _, _, [], _, ht, _ => by simp [hasTyFields] at ht
  | x :: xr, sd, f :: fr, hok, ht, hn => by
    simp only [hasTyFields, Bool.and_eq_true] at ht
    simp only [holdersOKList, Bool.and_eq_true] at hn
    have ih := refEncFields_eq_serH S hS xr sd fr (fun g hg => hok g (List.mem_cons_of_mem _ hg)) ht.2 hn.2
    have hfok := hok f (List.mem_cons_self ..)
    have hty : f.ty.ok = true := by simp only [Field.ok, Bool.and_eq_true] at hfok; exact hfok.1.1.1
    by_cases hw : fieldWritten sd f x = true
    · have hnil := nilOK_of_written hfok hw
      have hx := refEnc_eq_serH S hS x f.ty hty hnil ht.1 hn.1
      have htag := toWireH_tag S x f.ty hnil ht.1
      simp [refEncFields, toWireFieldsH, serFields, hw, ih, hx, htag]
    · have : fieldWritten sd f x = false := by simpa using hw
      simp [refEncFields, toWireFieldsH, serFields, this, ih]
end

mutual
theorem toWireH_wf (S : Schema) (hS : S.ok = true) : ∀ (v : Val) (ty : Ty), ty.ok = true → nilOK ty v = true →
    hasTy S ty v = true → fitH v = true → wf (toWireH S ty v) = true
  | .sc n, ty, _, _, ht, _ => by
    cases ty with
    | base k =>
      cases k with
      | string => hasTy_absurd ht
      | binary => hasTy_absurd ht
      | _ => simp only [toWireH]; exact scalarTVal_wf _ n (by simp) (by simp) ht
    | _ => hasTy_absurd ht
  | .str s, ty, _, _, ht, hf => by
    cases ty with
    | base k => cases k <;> first | (hasTy_absurd ht; done) | (simp only [fitH] at hf; simpa [toWireH, wf] using hf)
    | _ => hasTy_absurd ht
  | .bin n s, ty, _, _, ht, hf => by
    cases ty with
    | base k => cases k <;> first | (hasTy_absurd ht; done) | (simp only [fitH] at hf; simpa [toWireH, wf] using hf)
    | _ => hasTy_absurd ht
  | .nilp, ty, _, hnil, ht, _ => by
    cases ty with
    | ptr e =>
      cases e with
      | strct sid => simp [toWireH, wf, wfFields]
      | _ => simp [nilOK, Ty.isPtr, Ty.isStructPtr, isNilWord] at hnil
    | base k => cases k <;> hasTy_absurd ht
    | _ => hasTy_absurd ht
  | .ptr v, ty, hok, _, ht, hf => by
    cases ty with
    | ptr e =>
      simp only [hasTy, Bool.and_eq_true, Bool.not_eq_true'] at ht
      simp only [fitH] at hf
      have hoke : e.ok = true := by cases e <;> simp [Ty.ok] at hok ⊢
      have hnil : nilOK e v = true := by simp [nilOK, ht.1]
      simp only [toWireH]
      exact toWireH_wf S hS v e hoke hnil ht.2 hf
    | base k => cases k <;> hasTy_absurd ht
    | _ => hasTy_absurd ht
  | .lst n xs, ty, hok, _, ht, hf => by
    cases ty with
    | list s e =>
      simp only [hasTy, Bool.and_eq_true] at ht
      simp only [fitH, Bool.and_eq_true, decide_eq_true_eq] at hf
      simp only [Ty.ok, Bool.and_eq_true] at hok
      have := toWireListH_wf S hS xs e hok.1 hok.2 ht.2 hf.2
      cases s <;> simp [toWireH, wf, isCode_wire, this.1, this.2, hf.1]
    | base k => cases k <;> hasTy_absurd ht
    | _ => hasTy_absurd ht
  | .mp n es, ty, hok, _, ht, hf => by
    cases ty with
    | map k v =>
      simp only [hasTy, Bool.and_eq_true] at ht
      simp only [fitH, Bool.and_eq_true, decide_eq_true_eq] at hf
      simp only [Ty.ok, Bool.and_eq_true] at hok
      obtain ⟨⟨⟨hk, hv⟩, hvp⟩, hkk⟩ := hok
      have hkp : (!k.isPtr || k.isStructPtr) = true := by
        cases k with
        | ptr e => cases e <;> simp_all [Ty.isPtr, Ty.isStructPtr]
        | _ => simp [Ty.isPtr]
      have := toWireEntriesH_wf S hS es k v hk hv hkp hvp ht.2 hf.2
      simp [toWireH, wf, isCode_wire, this.1, this.2, hf.1]
    | base k => cases k <;> hasTy_absurd ht
    | _ => hasTy_absurd ht
  | .st fs h, ty, _, _, ht, hf => by
    cases ty with
    | strct sid =>
      simp only [hasTy, Bool.and_eq_true] at ht
      simp only [fitH, Bool.and_eq_true] at hf
      have hsd := sd_ok hS sid
      simp only [SDesc.ok, List.all_eq_true] at hsd
      simp only [toWireH, wf, wfFields_append, Bool.and_eq_true]
      exact ⟨toWireFieldsH_wf S hS fs (S.get sid) (S.get sid).fields (fun f hf => hsd f hf) ht.2 hf.2, hf.1.2⟩
    | base k => cases k <;> hasTy_absurd ht
    | _ => hasTy_absurd ht
  | .vstr _ _, ty, _, _, ht, _ => by
    cases ty with
    | base k => cases k <;> hasTy_absurd ht
    | _ => hasTy_absurd ht
  | .vbin _ _, ty, _, _, ht, _ => by
    cases ty with
    | base k => cases k <;> hasTy_absurd ht
    | _ => hasTy_absurd ht
theorem toWireListH_wf (S : Schema) (hS : S.ok = true) : ∀ (xs : List Val) (e : Ty), e.ok = true →
    (!e.isPtr || e.isStructPtr) = true → hasTyList S e xs = true → fitHList xs = true →
    wfList e.wire (toWireListH S e xs) = true ∧ (toWireListH S e xs).length = xs.length
  | [], _, _, _, _, _ => by simp [toWireListH, wfList]
  | x :: r, e, hok, hp, ht, hf => by
    simp only [hasTyList, Bool.and_eq_true] at ht
    simp only [fitHList, Bool.and_eq_true] at hf
    have ih := toWireListH_wf S hS r e hok hp ht.2 hf.2
    have hx := toWireH_wf S hS x e hok (nilOK_of_elem hp x) ht.1 hf.1
    have htag := toWireH_tag S x e (nilOK_of_elem hp x) ht.1
    simp [toWireListH, wfList, hx, htag, ih.1, ih.2]
theorem toWireEntriesH_wf (S : Schema) (hS : S.ok = true) : ∀ (es : List (Val × Val)) (k v : Ty),
    k.ok = true → v.ok = true → (!k.isPtr || k.isStructPtr) = true → (!v.isPtr || v.isStructPtr) = true →
    hasTyEntries S k v es = true → fitHEntries es = true →
    wfEntries k.wire v.wire (toWireEntriesH S k v es) = true ∧ (toWireEntriesH S k v es).length = es.length
  | [], _, _, _, _, _, _, _, _ => by simp [toWireEntriesH, wfEntries]
  | (a, b) :: r, k, v, hk, hv, hkp, hvp, ht, hf => by
    simp only [hasTyEntries, Bool.and_eq_true] at ht
    simp only [fitHEntries, Bool.and_eq_true] at hf
    have ih := toWireEntriesH_wf S hS r k v hk hv hkp hvp ht.2 hf.2
    have ha := toWireH_wf S hS a k hk (nilOK_of_elem hkp a) ht.1.1 hf.1.1
    have hb := toWireH_wf S hS b v hv (nilOK_of_elem hvp b) ht.1.2 hf.1.2
    have ta := toWireH_tag S a k (nilOK_of_elem hkp a) ht.1.1
    have tb := toWireH_tag S b v (nilOK_of_elem hvp b) ht.1.2
    simp [toWireEntriesH, wfEntries, ha, hb, ta, tb, ih.1, ih.2]
theorem toWireFieldsH_wf (S : Schema) (hS : S.ok = true) : ∀ (xs : List Val) (sd : SDesc) (fs : List Field),
    (∀ f ∈ fs, f.ok = true) → hasTyFields S fs xs = true → fitHList xs = true →
    wfFields (toWireFieldsH S sd fs xs) = true
  | [], _, [], _, _, _ => by simp [toWireFieldsH, wfFields]
  | [], _, _ :: _, _, ht, _ => by simp [hasTyFields] at ht
  | _ :: _, _, [], _, ht, _ => by simp [hasTyFields] at ht
  | x :: xr, sd, f :: fr, hok, ht, hf => by
    simp only [hasTyFields, Bool.and_eq_true] at ht
    simp only [fitHList, Bool.and_eq_true] at hf
    have ih := toWireFieldsH_wf S hS xr sd fr (fun g hg => hok g (List.mem_cons_of_mem _ hg)) ht.2 hf.2
    have hfok := hok f (List.mem_cons_self ..)
    have hty : f.ty.ok = true := by simp only [Field.ok, Bool.and_eq_true] at hfok; exact hfok.1.1.1
    by_cases hw : fieldWritten sd f x = true
    · have hnil := nilOK_of_written hfok hw
      have hx := toWireH_wf S hS x f.ty hty hnil ht.1 hf.1
      have : f.id < 65536 := by simp only [Field.ok, Bool.and_eq_true, decide_eq_true_eq] at hfok; exact hfok.2
      simp [toWireFieldsH, wfFields, hw, ih, hx, this]
    · have : fieldWritten sd f x = false := by simpa using hw
      simp [toWireFieldsH, this, ih]
end

mutual
theorem fitH_holdersOK : ∀ v : Val, fitH v = true → holdersOK v = true
  | .st fs h, hf => by
    simp only [fitH, Bool.and_eq_true] at hf
    simp only [holdersOK, Bool.and_eq_true]
    exact ⟨hf.1.1, fitHList_holdersOK fs hf.2⟩
  | .ptr v, hf => by simp only [fitH] at hf; simp only [holdersOK]; exact fitH_holdersOK v hf
  | .lst _ xs, hf => by
    simp only [fitH, Bool.and_eq_true] at hf; simp only [holdersOK]; exact fitHList_holdersOK xs hf.2
  | .mp _ es, hf => by
    simp only [fitH, Bool.and_eq_true] at hf; simp only [holdersOK]; exact fitHEntries_holdersOK es hf.2
  | .sc _, _ => rfl
  | .str _, _ => rfl
  | .bin _ _, _ => rfl
  | .nilp, _ => rfl
  | .vstr _ _, _ => rfl
  | .vbin _ _, _ => rfl
theorem fitHList_holdersOK : ∀ xs : List Val, fitHList xs = true → holdersOKList xs = true
  | [], _ => rfl
  | x :: r, hf => by
    simp only [fitHList, Bool.and_eq_true] at hf
    simp only [holdersOKList, Bool.and_eq_true]
    exact ⟨fitH_holdersOK x hf.1, fitHList_holdersOK r hf.2⟩
theorem fitHEntries_holdersOK : ∀ es : List (Val × Val), fitHEntries es = true → holdersOKEntries es = true
  | [], _ => rfl
  | (a, b) :: r, hf => by
    simp only [fitHEntries, Bool.and_eq_true] at hf
    simp only [holdersOKEntries, Bool.and_eq_true]
    exact ⟨⟨fitH_holdersOK a hf.1.1, fitH_holdersOK b hf.1.2⟩, fitHEntries_holdersOK r hf.2⟩
end

/- for values without retained bytes the denotation is `toWire` -/
mutual
theorem toWireH_of_noHolder (S : Schema) : ∀ (v : Val) (ty : Ty), noHolder v = true →
    toWireH S ty v = toWire S ty v
  | .sc n, ty, _ => by cases ty <;> simp [toWireH, toWire]
  | .str s, ty, _ => by cases ty <;> simp [toWireH, toWire]
  | .bin n s, ty, _ => by cases ty <;> simp [toWireH, toWire]
  | .vstr _ _, ty, _ => by cases ty <;> simp [toWireH, toWire]
  | .vbin _ _, ty, _ => by cases ty <;> simp [toWireH, toWire]
  | .nilp, ty, _ => by
    cases ty with
    | ptr e => cases e <;> simp [toWireH, toWire]
    | _ => simp [toWireH, toWire]
  | .ptr v, ty, hn => by
    simp only [noHolder] at hn
    cases ty with
    | ptr e => simp only [toWireH, toWire]; exact toWireH_of_noHolder S v e hn
    | _ => simp [toWireH, toWire]
  | .lst n xs, ty, hn => by
    simp only [noHolder] at hn
    cases ty with
    | list s e => simp only [toWireH, toWire, toWireListH_of_noHolder S xs e hn]
    | _ => simp [toWireH, toWire]
  | .mp n es, ty, hn => by
    simp only [noHolder] at hn
    cases ty with
    | map k v => simp only [toWireH, toWire, toWireEntriesH_of_noHolder S es k v hn]
    | _ => simp [toWireH, toWire]
  | .st fs h, ty, hn => by
    simp only [noHolder, Bool.and_eq_true, List.isEmpty_iff] at hn
    cases ty with
    | strct sid =>
      simp only [toWireH, toWire, hn.1, holderFields_nil, List.append_nil,
        toWireFieldsH_of_noHolder S fs (S.get sid) (S.get sid).fields hn.2]
    | _ => simp [toWireH, toWire]
theorem toWireListH_of_noHolder (S : Schema) : ∀ (xs : List Val) (e : Ty), noHolderList xs = true →
    toWireListH S e xs = toWireList S e xs
  | [], _, _ => rfl
  | x :: r, e, hn => by
    simp only [noHolderList, Bool.and_eq_true] at hn
    simp only [toWireListH, toWireList, toWireH_of_noHolder S x e hn.1, toWireListH_of_noHolder S r e hn.2]
theorem toWireEntriesH_of_noHolder (S : Schema) : ∀ (es : List (Val × Val)) (k v : Ty),
    noHolderEntries es = true → toWireEntriesH S k v es = toWireEntries S k v es
  | [], _, _, _ => rfl
  | (a, b) :: r, k, v, hn => by
    simp only [noHolderEntries, Bool.and_eq_true] at hn
    simp only [toWireEntriesH, toWireEntries, toWireH_of_noHolder S a k hn.1.1,
      toWireH_of_noHolder S b v hn.1.2, toWireEntriesH_of_noHolder S r k v hn.2]
theorem toWireFieldsH_of_noHolder (S : Schema) : ∀ (xs : List Val) (sd : SDesc) (fs : List Field),
    noHolderList xs = true → toWireFieldsH S sd fs xs = toWireFields S sd fs xs
  | [], _, [], _ => by simp [toWireFieldsH, toWireFields]
  | [], _, _ :: _, _ => by simp [toWireFieldsH, toWireFields]
  | _ :: _, _, [], _ => by simp [toWireFieldsH, toWireFields]
  | x :: xr, sd, f :: fr, hn => by
    simp only [noHolderList, Bool.and_eq_true] at hn
    simp only [toWireFieldsH, toWireFields, toWireH_of_noHolder S x f.ty hn.1,
      toWireFieldsH_of_noHolder S xr sd fr hn.2]
end

/-- a value without retained bytes and with int32-sized strings and containers is `fitH` -/
theorem holderFields_eq_of_empty (h : Bytes) (he : h.isEmpty = true) :
    serFields (holderFields h) = h ∧ wfFields (holderFields h) = true := by
  have : h = [] := List.isEmpty_iff.1 he
  subst this
  simp [serFields, wfFields]

end Frugal
