/-
  FuelMono.lean — the depth budget only ever turns an outcome into the depth error: if the reference
  reader, run with budget `fuel`, returns anything other than the depth-limit error, it returns the
  same with any larger budget.  With `DepthBound` this gives C15 as the property states it: a message
  that a larger budget would accept but that is nested more deeply than the bound is rejected with
  the depth-limit error — not with some other error.
-/
import Frugal.Proofs.DepthBound
import Frugal.Proofs.DepthProps
set_option linter.unusedSimpArgs false
set_option linter.unusedVariables false
namespace Frugal

theorem isDepthErr_ok {α} (a : α) : (Outcome.ok a : Outcome α).isDepthErr = false := rfl
theorem isDepthErr_panic {α} (p : PanicKind) : (Outcome.panic p : Outcome α).isDepthErr = false := rfl

section
variable (P : Params) (S : Schema) (total : Nat)

theorem readSlot_mono (fuel : Nat) (t : Ty) (x : TVal) (tail : Nat) (slot : Val)
    (hv : ∀ dest, (readVal P S total fuel t.deref x tail dest).isDepthErr = false →
      readVal P S total (fuel + 1) t.deref x tail dest = readVal P S total fuel t.deref x tail dest)
    (h : (readSlot P S total fuel t x tail slot).isDepthErr = false) :
    readSlot P S total (fuel + 1) t x tail slot = readSlot P S total fuel t x tail slot := by
  unfold readSlot at h ⊢
  split
  · rfl
  · rename_i hfx
    simp only [hfx, ↓reduceIte, mapv_isDepthErr] at h
    rw [hv _ h]

theorem readField_mono (fuel : Nat) (f : Field) (v : TVal) (tail : Nat) (slot : Val)
    (hv : ∀ dest, (readVal P S total fuel f.ty.deref v tail dest).isDepthErr = false →
      readVal P S total (fuel + 1) f.ty.deref v tail dest = readVal P S total fuel f.ty.deref v tail dest)
    (h : (readField P S total fuel f v tail slot).isDepthErr = false) :
    readField P S total (fuel + 1) f v tail slot = readField P S total fuel f v tail slot := by
  unfold readField at h ⊢
  split
  · rfl
  · rename_i hfx
    split
    · rfl
    · rename_i hnc
      have hnc' : f.nocopy = false := by simpa using hnc
      simp only [hfx, hnc', Bool.false_eq_true, ↓reduceIte, mapv_isDepthErr] at h
      rw [hv _ h]

mutual
theorem readVal_mono : ∀ (tv : TVal) (fuel : Nat) (t : Ty) (tail : Nat) (dest : Val),
    (readVal P S total fuel t tv tail dest).isDepthErr = false →
    readVal P S total (fuel + 1) t tv tail dest = readVal P S total fuel t tv tail dest
  | tv, 0, t, tail, dest, h => by simp [readVal, Outcome.isDepthErr] at h
  | tv, fuel + 1, t, tail, dest, h => by
    by_cases hfx : specFixed t.tt > 0
    · have hr : ∀ (fu : Nat), readVal P S total (fu + 1) t tv tail dest = readFixed t.tt tv := by
        intro fu
        cases t with
        | base k => rw [readVal]; simp only [hfx, ↓reduceIte]
        | ptr e => rw [readVal]; simp only [hfx, ↓reduceIte]
        | strct s => simp [Ty.tt, specFixed] at hfx
        | map k v => simp [Ty.tt, specFixed] at hfx
        | list s e => cases s <;> simp [Ty.tt, specFixed] at hfx
      rw [hr, hr]
    · cases t with
      | base k => rw [readVal, readVal]
      | ptr e => rw [readVal, readVal]
      | map kt vt =>
        cases tv with
        | map a b es =>
          rw [readVal] at h; rw [readVal, readVal]
          simp only [hfx, ↓reduceIte] at h ⊢
          split
          · rfl
          · rename_i hm
            simp only [hm, ↓reduceIte, mapv_isDepthErr] at h
            rw [readEntries_mono es fuel kt vt tail [] h]
        | _ => unfold readVal; simp only [hfx, ↓reduceIte]
      | list s et =>
        cases tv with
        | list a xs =>
          rw [readVal] at h; rw [readVal, readVal]
          simp only [hfx, ↓reduceIte] at h ⊢
          split
          · rfl
          · rename_i hm
            split
            · rfl
            · rename_i hz
              simp only [hm, hz, ↓reduceIte, mapv_isDepthErr] at h
              rw [readList_mono xs fuel et tail h]
        | set a xs =>
          rw [readVal] at h; rw [readVal, readVal]
          simp only [hfx, ↓reduceIte] at h ⊢
          split
          · rfl
          · rename_i hm
            split
            · rfl
            · rename_i hz
              simp only [hm, hz, ↓reduceIte, mapv_isDepthErr] at h
              rw [readList_mono xs fuel et tail h]
        | _ => unfold readVal; simp only [hfx, ↓reduceIte]
      | strct sid =>
        cases tv with
        | strct fs =>
          rw [readVal_struct_any] at h ⊢
          rw [readVal_struct_any]
          cases fuel with
          | zero => simp [readStruct, Outcome.isDepthErr] at h
          | succ f =>
            cases hd : initDest S sid dest with
            | st vs hh =>
              rw [hd] at h
              rw [readStruct] at h
              rw [readStruct, readStruct]
              have hl : (readFields P S total f (S.get sid) fs (tail + 1) { fs := vs }).isDepthErr = false := by
                cases hr : readFields P S total f (S.get sid) fs (tail + 1) { fs := vs } with
                | ok st => rfl
                | err e => rw [hr] at h; simp only [isDepthErr_err] at h ⊢; exact h
                | panic p => rfl
              rw [readFields_mono fs f (S.get sid) (tail + 1) _ hl]
            | _ =>
              rw [readStruct_nonst P S total f sid fs tail _ (by intro vs h' hh; cases hh),
                readStruct_nonst P S total (f + 1) sid fs tail _ (by intro vs h' hh; cases hh)]
        | _ => unfold readVal; simp only [hfx, ↓reduceIte]
theorem readFields_mono : ∀ (fs : List (Nat × TVal)) (fuel : Nat) (sd : SDesc) (tail : Nat) (st : LoopSt),
    (readFields P S total fuel sd fs tail st).isDepthErr = false →
    readFields P S total (fuel + 1) sd fs tail st = readFields P S total fuel sd fs tail st
  | [], _, _, _, _, _ => by rw [readFields, readFields]
  | (id, v) :: r, fuel, sd, tail, st, h => by
    rw [readFields] at h; rw [readFields, readFields]
    cases hk : lookupKnown sd id v.tag with
    | none =>
      simp only [hk] at h ⊢
      split
      · rfl
      · rename_i hs
        simp only [hs, ↓reduceIte] at h
        exact readFields_mono r fuel sd tail _ h
    | some p =>
      obtain ⟨ix, f⟩ := p
      simp only [hk] at h ⊢
      have hf : (readField P S total fuel f v ((serFields r).length + tail) (st.fs.getD ix default)).isDepthErr = false := by
        cases hr : readField P S total fuel f v ((serFields r).length + tail) (st.fs.getD ix default) with
        | ok x => rfl
        | err e => rw [hr] at h; simp only [isDepthErr_err] at h ⊢; exact h
        | panic p => rfl
      rw [readField_mono P S total fuel f v _ _ (fun dest hd => readVal_mono v fuel f.ty.deref _ dest hd) hf]
      cases hr : readField P S total fuel f v ((serFields r).length + tail) (st.fs.getD ix default) with
      | ok x =>
        rw [hr] at h
        simp only at h ⊢
        exact readFields_mono r fuel sd tail _ h
      | err e => rfl
      | panic p => rfl
theorem readList_mono : ∀ (xs : List TVal) (fuel : Nat) (et : Ty) (tail : Nat),
    (readList P S total fuel et xs tail).isDepthErr = false →
    readList P S total (fuel + 1) et xs tail = readList P S total fuel et xs tail
  | [], _, _, _, _ => by rw [readList, readList]
  | x :: r, fuel, et, tail, h => by
    rw [readList] at h; rw [readList, readList]
    have hs : (readSlot P S total fuel et x ((serList r).length + tail) (zeroVal S S.length et)).isDepthErr = false := by
      cases hr : readSlot P S total fuel et x ((serList r).length + tail) (zeroVal S S.length et) with
      | ok w => rfl
      | err e => rw [hr] at h; simp only [isDepthErr_err] at h ⊢; exact h
      | panic p => rfl
    rw [readSlot_mono P S total fuel et x _ _ (fun dest hd => readVal_mono x fuel et.deref _ dest hd) hs]
    cases hr : readSlot P S total fuel et x ((serList r).length + tail) (zeroVal S S.length et) with
    | ok w =>
      rw [hr] at h
      simp only at h ⊢
      have hl : (readList P S total fuel et r tail).isDepthErr = false := by
        cases hr2 : readList P S total fuel et r tail with
        | ok ws => rfl
        | err e => rw [hr2] at h; simp only [isDepthErr_err] at h ⊢; exact h
        | panic p => rfl
      rw [readList_mono r fuel et tail hl]
    | err e => rfl
    | panic p => rfl
theorem readEntries_mono : ∀ (es : List (TVal × TVal)) (fuel : Nat) (kt vt : Ty) (tail : Nat)
    (acc : List (Val × Val)), (readEntries P S total fuel kt vt es tail acc).isDepthErr = false →
    readEntries P S total (fuel + 1) kt vt es tail acc = readEntries P S total fuel kt vt es tail acc
  | [], _, _, _, _, _, _ => by rw [readEntries, readEntries]
  | (a, b) :: r, fuel, kt, vt, tail, acc, h => by
    rw [readEntries] at h; rw [readEntries, readEntries]
    have hk : (readSlot P S total fuel kt a ((ser b).length + ((serEntries r).length + tail))
        (zeroVal S S.length kt)).isDepthErr = false := by
      cases hr : readSlot P S total fuel kt a ((ser b).length + ((serEntries r).length + tail)) (zeroVal S S.length kt) with
      | ok w => rfl
      | err e => rw [hr] at h; simp only [isDepthErr_err] at h ⊢; exact h
      | panic p => rfl
    rw [readSlot_mono P S total fuel kt a _ _ (fun dest hd => readVal_mono a fuel kt.deref _ dest hd) hk]
    cases hr : readSlot P S total fuel kt a ((ser b).length + ((serEntries r).length + tail)) (zeroVal S S.length kt) with
    | ok k =>
      rw [hr] at h
      simp only at h ⊢
      have hv : (readSlot P S total fuel vt b ((serEntries r).length + tail) (zeroVal S S.length vt)).isDepthErr = false := by
        cases hr2 : readSlot P S total fuel vt b ((serEntries r).length + tail) (zeroVal S S.length vt) with
        | ok w => rfl
        | err e => rw [hr2] at h; simp only [isDepthErr_err] at h ⊢; exact h
        | panic p => rfl
      rw [readSlot_mono P S total fuel vt b _ _ (fun dest hd => readVal_mono b fuel vt.deref _ dest hd) hv]
      cases hr2 : readSlot P S total fuel vt b ((serEntries r).length + tail) (zeroVal S S.length vt) with
      | ok w =>
        rw [hr2] at h
        simp only at h ⊢
        exact readEntries_mono r fuel kt vt tail _ h
      | err e => rfl
      | panic p => rfl
    | err e => rfl
    | panic p => rfl
end

/-- any larger budget -/
theorem readStruct_mono_add (k : Nat) : ∀ (fuel sid : Nat) (fs : List (Nat × TVal)) (tail : Nat) (dest : Val),
    (readStruct P S total fuel sid fs tail dest).isDepthErr = false →
    readStruct P S total (fuel + k) sid fs tail dest = readStruct P S total fuel sid fs tail dest := by
  induction k with
  | zero => intros; rfl
  | succ k ih =>
    intro fuel sid fs tail dest h
    have h1 := ih fuel sid fs tail dest h
    have : (readStruct P S total (fuel + k) sid fs tail dest).isDepthErr = false := by rw [h1]; exact h
    rw [← h1]
    -- one more unit
    cases hfk : fuel + k with
    | zero =>
      rw [hfk] at this; simp [readStruct, Outcome.isDepthErr] at this
    | succ g =>
      rw [hfk] at this
      have e : fuel + (k + 1) = g + 1 + 1 := by omega
      rw [e]
      cases dest with
      | st vs hh =>
        rw [readStruct] at this
        rw [readStruct, readStruct]
        have hl : (readFields P S total g (S.get sid) fs (tail + 1) { fs := vs }).isDepthErr = false := by
          cases hr : readFields P S total g (S.get sid) fs (tail + 1) { fs := vs } with
          | ok st => rfl
          | err e => rw [hr] at this; simp only [isDepthErr_err] at this ⊢; exact this
          | panic p => rfl
        rw [readFields_mono P S total fs g (S.get sid) (tail + 1) _ hl]
      | _ =>
        rw [readStruct_nonst P S total g sid fs tail _ (by intro vs h' hh; cases hh),
          readStruct_nonst P S total (g + 1) sid fs tail _ (by intro vs h' hh; cases hh)]
end
end Frugal
