/-
  DecodeSound2.lean — the decoder is sound: `ok` implies that the consumed bytes are the
  serialisation of a (laxly) well-formed value of the expected wire type; for `DecodeObject`: the
  input begins with a well-formed struct message and the returned count is its length.
-/
import Frugal.Proofs.DecodeSound
import Frugal.Proofs.DecodeRefine
import Frugal.Proofs.ToWire
set_option linter.unusedSimpArgs false
set_option linter.unusedVariables false
namespace Frugal

def DtSound (dt : Ty → Bytes → Val → Outcome (Val × Bytes)) : Prop :=
  ∀ t b dest v r, dt t b dest = .ok (v, r) → ∃ tv, wf tv = true ∧ tv.tag = t.wire ∧ b = ser tv ++ r

theorem wire_lt128 (t : Ty) : t.wire < 128 := by
  unfold Ty.wire
  cases t.tt <;> simp [TT.wire]

section
variable {P : Params} (S : Schema)

theorem decodeSlot_sound (dt : Ty → Bytes → Val → Outcome (Val × Bytes)) (hdt : DtSound dt) (g : Bool)
    (t : Ty) (b : Bytes) (slot v : Val) (r : Bytes) (h : decodeSlot P S dt g t b slot = .ok (v, r)) :
    ∃ tv, wf tv = true ∧ tv.tag = t.wire ∧ b = ser tv ++ r := by
  unfold decodeSlot at h
  simp only at h
  split at h
  · split at h
    · cases h
    · split at h
      · rename_i v0 r0 hd
        simp only [Outcome.ok.injEq, Prod.mk.injEq] at h
        obtain ⟨_, rfl⟩ := h
        exact decodeFixed_sound t.tt b v0 _ hd
      · cases h
      · cases h
  · split at h
    · rename_i v0 r0 hd
      simp only [Outcome.ok.injEq, Prod.mk.injEq] at h
      obtain ⟨_, rfl⟩ := h
      obtain ⟨tv, w1, w2, w3⟩ := hdt _ _ _ _ _ hd
      exact ⟨tv, w1, by rw [w2, Ty.deref_wire], w3⟩
    · cases h
    · cases h

theorem listLoop_sound (de : Bytes → Outcome (Val × Bytes)) (w : Nat)
    (hde : ∀ bb v r, de bb = .ok (v, r) → ∃ tv, wf tv = true ∧ tv.tag = w ∧ bb = ser tv ++ r) :
    ∀ (n : Nat) (b : Bytes) (vs : List Val) (r : Bytes), listLoop de n b = .ok (vs, r) →
      ∃ xs, xs.length = n ∧ wfList w xs = true ∧ b = serList xs ++ r
  | 0, b, vs, r, h => by
    simp only [listLoop, Outcome.ok.injEq, Prod.mk.injEq] at h
    obtain ⟨_, rfl⟩ := h
    exact ⟨[], rfl, rfl, by simp [serList]⟩
  | n + 1, b, vs, r, h => by
    simp only [listLoop] at h
    split at h
    · rename_i v0 r0 hd
      split at h
      · rename_i vs0 r1 hl
        simp only [Outcome.ok.injEq, Prod.mk.injEq] at h
        obtain ⟨_, rfl⟩ := h
        obtain ⟨tv, w1, w2, w3⟩ := hde _ _ _ hd
        obtain ⟨xs, x1, x2, x3⟩ := listLoop_sound de w hde n r0 vs0 _ hl
        exact ⟨tv :: xs, by simp [x1], by simp [wfList, w1, w2, x2], by rw [w3, x3]; simp [serList]⟩
      · cases h
      · cases h
    · cases h
    · cases h

theorem mapLoop_sound (kt : Ty) (dk dv : Bytes → Outcome (Val × Bytes)) (wk wv : Nat)
    (hdk : ∀ bb v r, dk bb = .ok (v, r) → ∃ tv, wf tv = true ∧ tv.tag = wk ∧ bb = ser tv ++ r)
    (hdv : ∀ bb v r, dv bb = .ok (v, r) → ∃ tv, wf tv = true ∧ tv.tag = wv ∧ bb = ser tv ++ r) :
    ∀ (n : Nat) (b : Bytes) (acc es : List (Val × Val)) (r : Bytes), mapLoop kt dk dv n b acc = .ok (es, r) →
      ∃ xs, xs.length = n ∧ wfEntries wk wv xs = true ∧ b = serEntries xs ++ r
  | 0, b, acc, es, r, h => by
    simp only [mapLoop, Outcome.ok.injEq, Prod.mk.injEq] at h
    obtain ⟨_, rfl⟩ := h
    exact ⟨[], rfl, rfl, by simp [serEntries]⟩
  | n + 1, b, acc, es, r, h => by
    simp only [mapLoop] at h
    split at h
    · rename_i k0 r0 hk
      split at h
      · rename_i v0 r1 hv
        obtain ⟨tk, a1, a2, a3⟩ := hdk _ _ _ hk
        obtain ⟨tv, w1, w2, w3⟩ := hdv _ _ _ hv
        obtain ⟨xs, x1, x2, x3⟩ := mapLoop_sound kt dk dv wk wv hdk hdv n r1 _ es r h
        exact ⟨(tk, tv) :: xs, by simp [x1], by simp [wfEntries, a1, a2, w1, w2, x2],
          by rw [a3, w3, x3]; simp [serEntries]⟩
      · cases h
      · cases h
    · cases h
    · cases h

variable (hP : P.valid = true) (hS : S.ok = true)
include hP hS

theorem decodeField_sound (total : Nat) (dt : Ty → Bytes → Val → Outcome (Val × Bytes)) (hdt : DtSound dt)
    (f : Field) (hf : f.ok = true) (b : Bytes) (slot v : Val) (r : Bytes)
    (h : decodeField P S total dt f b slot = .ok (v, r)) :
    ∃ tv, wf tv = true ∧ tv.tag = f.ty.wire ∧ b = ser tv ++ r := by
  unfold decodeField at h
  split at h
  · rename_i hnc
    simp only [Bool.and_eq_true, beq_iff_eq] at hnc
    split at h
    · rename_i v0 r0 hd
      simp only [Outcome.ok.injEq, Prod.mk.injEq] at h
      obtain ⟨_, rfl⟩ := h
      obtain ⟨s, hs, e⟩ := decodeStr_sound _ _ _ _ _ _ hd
      refine ⟨.str s, by simp [wf, hs], ?_, e⟩
      simp only [Field.ok, Bool.and_eq_true, Bool.or_eq_true, Bool.not_eq_true', beq_iff_eq] at hf
      rcases hf.1.2 with h' | h'
      · rw [hnc.2] at h'; cases h'
      · simp [TVal.tag, Ty.wire, h', TT.wire]
    · cases h
    · cases h
  · exact decodeSlot_sound S dt hdt true f.ty b slot v r h

theorem fieldLoop_sound (sd : SDesc) (hsd : ∀ f ∈ sd.fields, f.ok = true) (total : Nat)
    (dt : Ty → Bytes → Val → Outcome (Val × Bytes)) (hdt : DtSound dt) :
    ∀ (cnt : Nat) (b : Bytes) (st st' : LoopSt) (r : Bytes),
      fieldLoop P S sd total dt cnt b st = .ok (st', r) →
      ∃ fs, wfFields fs = true ∧ b = serFields fs ++ [0] ++ r
  | 0, b, st, st', r, h => by simp [fieldLoop] at h
  | cnt + 1, b, st, st', r, h => by
    simp only [fieldLoop] at h
    split at h
    · cases h
    · rename_i tp r0
      split at h
      · rename_i hz
        simp only [Outcome.ok.injEq, Prod.mk.injEq] at h
        obtain ⟨_, rfl⟩ := h
        subst hz
        exact ⟨[], rfl, by simp [serFields]⟩
      · rename_i hnz
        split at h
        · cases h
        · rename_i fid r1 hr16
          obtain ⟨e16, hfid⟩ := rd16_inv hr16
          have fin : ∀ (tv : TVal) (rest : Bytes) (fs : List (Nat × TVal)), wf tv = true →
              tv.tag = tp.toNat → r1 = ser tv ++ rest → wfFields fs = true →
              rest = serFields fs ++ [0] ++ r →
              ∃ fs', wfFields fs' = true ∧ tp :: r0 = serFields fs' ++ [0] ++ r := by
            intro tv rest fs w1 w2 w3 f1 f2
            refine ⟨(fid, tv) :: fs, by simp [wfFields, hfid, w1, f1], ?_⟩
            have hft : u8 tv.tag = tp := by rw [w2]; exact u8_toNat_self tp
            rw [e16, w3, f2]
            simp [serFields, hft]
          split at h
          · -- unknown field: skipped
            rename_i hlk
            split at h
            · rename_i n hskip
              have hn : n ≤ r1.length := by
                by_cases hh : n ≤ r1.length
                · exact hh
                · exfalso
                  have hnil : r1.drop n = [] := List.drop_eq_nil_of_le (by omega)
                  rw [hnil] at h
                  cases cnt <;> simp [fieldLoop] at h
              unfold skipM at hskip
              split at hskip
              · cases hskip
              · obtain ⟨tv, w1, w2, w3⟩ := skipType_sound hP P.skipDepth tp.toNat r1 n hskip hn
                obtain ⟨fs, f1, f2⟩ := fieldLoop_sound sd hsd total dt hdt cnt (r1.drop n) _ st' r h
                exact fin tv (r1.drop n) fs w1 w2 w3 f1 f2
            · cases h
            · split at h <;> cases h
          · rename_i ix f hlk
            split at h
            · rename_i v0 r2 hdf
              have hfmem : f ∈ sd.fields ∧ f.ty.wire = tp.toNat := by
                unfold lookupKnown at hlk
                split at hlk
                · rename_i ix' f' hfind
                  split at hlk
                  · rename_i hw
                    simp only [Option.some.injEq, Prod.mk.injEq] at hlk
                    obtain ⟨_, rfl⟩ := hlk
                    exact ⟨findField_mem _ _ _ _ _ hfind, hw⟩
                  · cases hlk
                · cases hlk
              obtain ⟨tv, w1, w2, w3⟩ := decodeField_sound S hP hS total dt hdt f (hsd f hfmem.1) r1 _ v0 r2 hdf
              obtain ⟨fs, f1, f2⟩ := fieldLoop_sound sd hsd total dt hdt cnt r2 _ st' r h
              exact fin tv r2 fs w1 (by rw [w2, hfmem.2]) w3 f1 f2
            · cases h
            · cases h


def StSound (ds : Nat → Bytes → Val → Outcome (Val × Bytes)) : Prop :=
  ∀ sid b dest v r, ds sid b dest = .ok (v, r) → ∃ fs, wfFields fs = true ∧ b = ser (.strct fs) ++ r

theorem decodeStruct_sound_step (total fuel : Nat) (hdt : DtSound (decodeType P S total fuel)) :
    StSound (decodeStruct P S total (fuel + 1)) := by
  intro sid b dest v r h
  cases dest with
  | st fs0 h0 =>
    rw [decodeStruct] at h
    split at h
    · rename_i st r0 hl
      split at h
      · cases h
      · simp only [Outcome.ok.injEq, Prod.mk.injEq] at h
        obtain ⟨_, rfl⟩ := h
        have hsd := sd_ok hS sid
        simp only [SDesc.ok, List.all_eq_true] at hsd
        obtain ⟨fs, f1, f2⟩ := fieldLoop_sound S hP hS (S.get sid) hsd total _ hdt _ _ _ _ _ hl
        exact ⟨fs, f1, by simpa [ser] using f2⟩
    · cases h
    · cases h
  | _ => rw [decodeStruct] at h <;> first | cases h | (intro _ _ hh; cases hh)

theorem decodeType_sound_step (total fuel : Nat) (hdt : DtSound (decodeType P S total fuel))
    (hst : StSound (decodeStruct P S total fuel)) : DtSound (decodeType P S total (fuel + 1)) := by
  intro t b dest v r h
  have hfixed : ∀ t : Ty, (if b.length < P.fixedSize t.tt then Outcome.err ErrKind.short else decodeFixed t.tt b) =
      .ok (v, r) → ∃ tv, wf tv = true ∧ tv.tag = t.wire ∧ b = ser tv ++ r := by
    intro t h
    split at h
    · cases h
    · exact decodeFixed_sound t.tt b v r h
  cases t with
    | base k =>
      rw [decodeType] at h
      split at h
      · exact hfixed _ h
      try simp only at h
      split at h
      · rename_i hstr
        obtain ⟨s, hs, e⟩ := decodeStr_sound _ _ _ _ _ _ h
        refine ⟨.str s, by simp [wf, hs], ?_, e⟩
        have : (Ty.base k).tt = .string := by simpa using hstr
        simp [TVal.tag, Ty.wire, this, TT.wire]
      · cases h
    | ptr e =>
      rw [decodeType] at h
      split at h
      · exact hfixed _ h
      simp at h
    | strct sid =>
      rw [decodeType] at h
      split at h
      · exact hfixed _ h
      try simp only at h
      obtain ⟨fs, f1, f2⟩ := hst _ _ _ _ _ h
      exact ⟨.strct fs, by simp [wf, f1], rfl, f2⟩
    | map kt vt =>
      rw [decodeType] at h
      split at h
      · exact hfixed _ h
      try simp only at h
      split at h
      · cases h
      · rename_i t0 r0 h8a
        obtain ⟨e1, _⟩ := rd8_inv h8a
        split at h
        · cases h
        · rename_i t1 r1 h8b
          obtain ⟨e2, _⟩ := rd8_inv h8b
          split at h
          · cases h
          · rename_i l r2 h32
            obtain ⟨e3, hl⟩ := rd32_inv h32
            split at h
            · cases h
            · split at h
              · cases h
              · rename_i hneg
                split at h
                · cases h
                · rename_i hty
                  try simp only at h
                  split at h
                  · cases h
                  · split at h
                    · cases h
                    · split at h
                      · rename_i es r3 hml
                        simp only [Outcome.ok.injEq, Prod.mk.injEq] at h
                        obtain ⟨_, rfl⟩ := h
                        have htt : t0 = kt.wire ∧ t1 = vt.wire := by
                          constructor
                          · by_cases hh : t0 = kt.wire
                            · exact hh
                            · exact absurd (Or.inl hh) hty
                          · by_cases hh : t1 = vt.wire
                            · exact hh
                            · exact absurd (Or.inr hh) hty
                        obtain ⟨xs, x1, x2, x3⟩ := mapLoop_sound kt _ _ kt.wire vt.wire
                          (fun bb v r hd => decodeSlot_sound S _ hdt true kt bb _ v r hd)
                          (fun bb v r hd => decodeSlot_sound S _ hdt true vt bb _ v r hd) l r2 [] es r3 hml
                        refine ⟨.map kt.wire vt.wire xs, ?_, rfl, ?_⟩
                        · simp [wf, codeOK, wire_lt128, x1, x2]; omega
                        · rw [e1, e2, e3, x3, htt.1, htt.2]
                          simp [ser, x1]
                      · cases h
                      · cases h
    | list s et =>
      rw [decodeType] at h
      split at h
      · exact hfixed _ h
      try simp only at h
      split at h
      · cases h
      · rename_i tp r0 h8
        obtain ⟨e1, _⟩ := rd8_inv h8
        split at h
        · cases h
        · rename_i l r1 h32
          obtain ⟨e3, hl⟩ := rd32_inv h32
          have fin : ∀ xs : List TVal, xs.length = l → wfList et.wire xs = true → l < 2147483648 →
              tp = et.wire → r1 = serList xs ++ r →
              ∃ tv, wf tv = true ∧ tv.tag = (Ty.list s et).wire ∧ b = ser tv ++ r := by
            intro xs x1 x2 hl31 htp x3
            cases s with
            | true =>
              refine ⟨.set et.wire xs, ?_, rfl, ?_⟩
              · simp [wf, codeOK, wire_lt128, x1, x2]; omega
              · rw [e1, e3, x3, htp]; simp [ser, x1]
            | false =>
              refine ⟨.list et.wire xs, ?_, rfl, ?_⟩
              · simp [wf, codeOK, wire_lt128, x1, x2]; omega
              · rw [e1, e3, x3, htp]; simp [ser, x1]
          split at h
          · cases h
          · split at h
            · cases h
            · rename_i hneg
              split at h
              · cases h
              · rename_i hty
                have htp : tp = et.wire := by
                  by_cases hh : et.wire = tp
                  · exact hh.symm
                  · exact absurd hh hty
                split at h
                · rename_i hz
                  simp only [Outcome.ok.injEq, Prod.mk.injEq] at h
                  obtain ⟨_, rfl⟩ := h
                  exact fin [] hz.symm rfl (by omega) htp (by simp [serList])
                · try simp only at h
                  split at h
                  · cases h
                  · split at h
                    · cases h
                    · split at h
                      · rename_i vs r2 hll
                        simp only [Outcome.ok.injEq, Prod.mk.injEq] at h
                        obtain ⟨_, rfl⟩ := h
                        obtain ⟨xs, x1, x2, x3⟩ := listLoop_sound _ et.wire
                          (fun bb v r hd => decodeSlot_sound S _ hdt false et bb _ v r hd) l r1 vs r2 hll
                        exact fin xs x1 x2 (by omega) htp x3
                      · cases h
                      · cases h

theorem decode_sound_all (total : Nat) : ∀ fuel : Nat,
    DtSound (decodeType P S total fuel) ∧ StSound (decodeStruct P S total fuel)
  | 0 => by
    constructor
    · intro t b dest v r h; simp [decodeType] at h
    · intro sid b dest v r h; simp [decodeStruct] at h
  | fuel + 1 => by
    obtain ⟨h1, h2⟩ := decode_sound_all total fuel
    exact ⟨decodeType_sound_step S hP hS total fuel h1 h2, decodeStruct_sound_step S hP hS total fuel h1⟩

/-- **C05, converse of C03**: when `DecodeObject` succeeds with count `n`, the input begins with a
    (laxly) well-formed struct message whose serialisation is exactly the first `n` bytes -/
theorem decodeM_sound (sid : Nat) (b : Bytes) (dest v : Val) (n : Nat)
    (h : decodeM P S sid b dest = .ok (v, n)) :
    ∃ fs trailing, wfFields fs = true ∧ b = ser (.strct fs) ++ trailing ∧ n = (ser (.strct fs)).length := by
  unfold decodeM at h
  split at h
  · rename_i v0 r hd
    simp only [Outcome.ok.injEq, Prod.mk.injEq] at h
    obtain ⟨_, rfl⟩ := h
    obtain ⟨fs, f1, f2⟩ := (decode_sound_all S hP hS b.length P.maxDepth).2 _ _ _ _ _ hd
    refine ⟨fs, r, f1, f2, ?_⟩
    have := congrArg List.length f2
    simp only [List.length_append] at this
    omega
  · cases h
  · cases h

end
end Frugal
