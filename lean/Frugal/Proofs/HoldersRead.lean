/-
  HoldersRead.lean — every value the reference reader returns for a well-formed message is `fitH`:
  strings and containers within int32, and every holder (at every nesting level) the serialisation
  of a list of well-formed fields — namely the unrecognised fields of the struct message it was
  filled from, or what the destination held before.
-/
import Frugal.Proofs.Holders
import Frugal.Proofs.ReqEverywhere
set_option linter.unusedSimpArgs false
set_option linter.unusedVariables false
namespace Frugal

theorem default_fitH : fitH (default : Val) = true := rfl

theorem zeroVal_fitH (S : Schema) : ∀ (n : Nat) (t : Ty), fitH (zeroVal S n t) = true
  | 0, t => by cases t with
    | base k => cases k <;> simp [zeroVal, fitH]
    | _ => simp [zeroVal, fitH, fitHList, fitHEntries, serFields, wfFields]
  | n + 1, t => by
    cases t with
    | base k => cases k <;> simp [zeroVal, fitH]
    | strct sid =>
      simp only [zeroVal, fitH, holderFields_nil, serFields, wfFields, decide_true, Bool.true_and]
      generalize (S.get sid).fields = fs
      induction fs with
      | nil => rfl
      | cons f r ih => simp [fitHList, zeroVal_fitH S n f.ty, ih]
    | _ => simp [zeroVal, fitH, fitHList, fitHEntries]

theorem readFixed_fitH (t : TT) (tv : TVal) (w : Val) (h : readFixed t tv = .ok w) : fitH w = true := by
  cases tv <;> simp only [readFixed] at h <;> (repeat' split at h) <;>
    first | (cases h; rfl) | cases h

theorem readStr_fitH (isBin nc : Bool) (total tail : Nat) (tv : TVal) (w : Val) (hw : wf tv = true)
    (h : readStr isBin nc total tail tv = .ok w) : fitH w = true := by
  cases tv <;> simp only [readStr] at h <;> try cases h
  rename_i s
  simp only [wf, decide_eq_true_eq] at hw
  split at h
  · cases h; cases isBin <;> simp [fitH]
  · cases h; cases nc <;> cases isBin <;> simp [fitH, hw]

theorem wrapPtr_fitH (t : Ty) (w : Val) (h : fitH w = true) : fitH (wrapPtr t w) = true := by
  unfold wrapPtr; split <;> simp [fitH, h]

theorem freshTarget_fitH (S : Schema) (t : Ty) (slot : Val) (h : fitH slot = true) :
    fitH (freshTarget S t slot) = true := by
  unfold freshTarget; split
  · exact zeroVal_fitH S _ _
  · exact h

theorem fitHList_getD : ∀ (vs : List Val) (i : Nat), fitHList vs = true → fitH (vs.getD i default) = true
  | [], i, _ => by simp [default_fitH]
  | v :: r, 0, h => by simp only [fitHList, Bool.and_eq_true] at h; simpa using h.1
  | v :: r, i + 1, h => by
    simp only [fitHList, Bool.and_eq_true] at h
    simpa using fitHList_getD r i h.2

theorem fitHList_set : ∀ (vs : List Val) (i : Nat) (x : Val), fitHList vs = true → fitH x = true →
    fitHList (vs.set i x) = true
  | [], i, x, _, _ => by simp [fitHList]
  | v :: r, 0, x, h, hx => by
    simp only [fitHList, Bool.and_eq_true] at h
    simp [fitHList, hx, h.2]
  | v :: r, i + 1, x, h, hx => by
    simp only [fitHList, Bool.and_eq_true] at h
    simp [fitHList, h.1, fitHList_set r i x h.2 hx]

theorem applyInit_fitH : ∀ (fs : List Field) (vs : List Val),
    (∀ f ∈ fs, ∀ d, f.dflt = some d → fitH d = true) → fitHList vs = true → fitHList (applyInit fs vs) = true
  | [], vs, _, h => by simpa [applyInit] using h
  | f :: fr, [], _, h => by simpa [applyInit] using h
  | f :: fr, v :: vr, hd, h => by
    simp only [fitHList, Bool.and_eq_true] at h
    simp only [applyInit, fitHList, Bool.and_eq_true]
    refine ⟨?_, applyInit_fitH fr vr (fun g hg => hd g (List.mem_cons_of_mem _ hg)) h.2⟩
    by_cases ha : f.assigned = true
    · simp only [ha, ↓reduceIte]
      cases hdf : f.dflt with
      | none => simpa using h.1
      | some d => simpa using hd f (List.mem_cons_self ..) d hdf
    · have : f.assigned = false := by simpa using ha
      simp only [this, Bool.false_eq_true, ↓reduceIte]
      exact h.1

theorem mapInsert_fitH (kt : Ty) : ∀ (acc : List (Val × Val)) (k v : Val),
    fitHEntries acc = true → fitH k = true → fitH v = true →
    fitHEntries (mapInsert kt acc k v) = true ∧ (mapInsert kt acc k v).length ≤ acc.length + 1
  | [], k, v, _, hk, hv => by simp [mapInsert, fitHEntries, hk, hv]
  | (a, b) :: r, k, v, h, hk, hv => by
    simp only [fitHEntries, Bool.and_eq_true] at h
    simp only [mapInsert]
    split
    · simp only [fitHEntries, Bool.and_eq_true, List.length_cons]
      exact ⟨⟨⟨hk, hv⟩, h.2⟩, by omega⟩
    · have ih := mapInsert_fitH kt r k v h.2 hk hv
      simp only [fitHEntries, Bool.and_eq_true, List.length_cons]
      exact ⟨⟨h.1, ih.1⟩, by omega⟩

theorem initDest_fitH (S : Schema) (sid : Nat) (dest : Val)
    (hdf : ∀ f ∈ (S.get sid).fields, ∀ d, f.dflt = some d → fitH d = true) (h : fitH dest = true) :
    fitH (initDest S sid dest) = true := by
  cases dest with
  | st vs hh =>
    simp only [initDest]
    split
    · simp only [fitH, Bool.and_eq_true] at h ⊢
      exact ⟨h.1, applyInit_fitH _ _ hdf h.2⟩
    · exact h
  | _ => exact h

/-- the holder a struct ends up with: the unrecognised fields of its message, or what it held -/
theorem holder_fit (sd : SDesc) (fs : List (Nat × TVal)) (hw : wfFields fs = true) (hh : Bytes) (b : Bool)
    (h0 : serFields (holderFields hh) = hh ∧ wfFields (holderFields hh) = true) :
    let H := if b then unknownBytes sd fs else hh
    serFields (holderFields H) = H ∧ wfFields (holderFields H) = true := by
  cases b with
  | false => exact h0
  | true =>
    have hwu := wfFields_sublist _ _ (unknownOnly_sublist sd fs) hw
    simp only [↓reduceIte, unknownBytes_eq_ser, holderFields_ser _ hwu]
    exact ⟨trivial, hwu⟩

section
variable (P : Params) (S : Schema) (total : Nat)
variable (hdf : ∀ sid, ∀ f ∈ (S.get sid).fields, ∀ d, f.dflt = some d → fitH d = true)
include hdf

mutual
theorem readVal_fitH : ∀ (tv : TVal) (fuel : Nat) (t : Ty) (tail : Nat) (dest w : Val),
    wf tv = true → fitH dest = true → readVal P S total fuel t tv tail dest = .ok w → fitH w = true
  | tv, 0, t, tail, dest, w, _, _, h => by simp [readVal] at h
  | tv, fuel + 1, t, tail, dest, w, hw, hd, h => by
    by_cases hfx : specFixed t.tt > 0
    · have hr : readVal P S total (fuel + 1) t tv tail dest = readFixed t.tt tv := by
        cases t with
        | base k => rw [readVal]; simp only [hfx, ↓reduceIte]
        | ptr e => rw [readVal]; simp only [hfx, ↓reduceIte]
        | strct s => simp [Ty.tt, specFixed] at hfx
        | map k v => simp [Ty.tt, specFixed] at hfx
        | list s e => cases s <;> simp [Ty.tt, specFixed] at hfx
      rw [hr] at h
      exact readFixed_fitH _ _ _ h
    · cases t with
      | base k =>
        rw [readVal] at h; simp only [hfx, ↓reduceIte] at h
        split at h
        · exact readStr_fitH _ _ _ _ _ _ hw h
        · cases h
      | ptr e => rw [readVal] at h; simp only [hfx, ↓reduceIte] at h; cases h
      | map kt vt =>
        cases tv with
        | map a b es =>
          rw [readVal] at h; simp only [hfx, ↓reduceIte] at h
          simp only [wf, Bool.and_eq_true, decide_eq_true_eq] at hw
          split at h
          · cases h
          · obtain ⟨es', h0, rfl⟩ := mapv_ok_inv _ _ _ h
            have := readEntries_fitH es fuel kt vt tail [] es' a b hw.2 rfl h0
            simp only [fitH, Bool.and_eq_true, decide_eq_true_eq]
            refine ⟨?_, this.1⟩
            have := this.2
            simp only [List.length_nil] at this
            omega
        | _ => unfold readVal at h; simp only [hfx, ↓reduceIte] at h; cases h
      | list s et =>
        cases tv with
        | list a xs =>
          rw [readVal] at h; simp only [hfx, ↓reduceIte] at h
          simp only [wf, Bool.and_eq_true, decide_eq_true_eq] at hw
          split at h
          · cases h
          · split at h
            · cases h; rfl
            · obtain ⟨xs', h0, rfl⟩ := mapv_ok_inv _ _ _ h
              have := readList_fitH xs fuel et tail xs' a hw.2 h0
              simp only [fitH, Bool.and_eq_true, decide_eq_true_eq]
              exact ⟨by rw [this.2]; exact hw.1.2, this.1⟩
        | set a xs =>
          rw [readVal] at h; simp only [hfx, ↓reduceIte] at h
          simp only [wf, Bool.and_eq_true, decide_eq_true_eq] at hw
          split at h
          · cases h
          · split at h
            · cases h; rfl
            · obtain ⟨xs', h0, rfl⟩ := mapv_ok_inv _ _ _ h
              have := readList_fitH xs fuel et tail xs' a hw.2 h0
              simp only [fitH, Bool.and_eq_true, decide_eq_true_eq]
              exact ⟨by rw [this.2]; exact hw.1.2, this.1⟩
        | _ => unfold readVal at h; simp only [hfx, ↓reduceIte] at h; cases h
      | strct sid =>
        cases tv with
        | strct fs =>
          rw [readVal_struct_any] at h
          simp only [wf] at hw
          have hd' := initDest_fitH S sid dest (hdf sid) hd
          cases fuel with
          | zero => simp [readStruct] at h
          | succ f =>
            cases hi : initDest S sid dest with
            | st vs hh =>
              rw [hi] at hd'
              simp only [fitH, Bool.and_eq_true, decide_eq_true_eq] at hd'
              rw [hi, readStruct] at h
              split at h
              · rename_i st hl
                split at h
                · cases h
                · cases h
                  have hfs := readFields_fitH fs f (S.get sid) (tail + 1) _ st hw hd'.2 hl
                  have hu := holder_content P S total f (S.get sid) fs (tail + 1) vs st
                  have hn := no_holder_drop P S total f (S.get sid) fs (tail + 1) vs st
                  simp only [fitH, Bool.and_eq_true, decide_eq_true_eq]
                  refine ⟨?_, hfs⟩
                  split
                  · rename_i hb
                    rw [hu hb.1 hl]
                    have := holder_fit (S.get sid) fs hw hh true hd'.1
                    simpa using this
                  · exact hd'.1
              · cases h
              · cases h
            | _ =>
              rw [hi, readStruct_nonst P S total f sid fs tail _ (by intro vs h' hh; cases hh)] at h
              cases h
        | _ => unfold readVal at h; simp only [hfx, ↓reduceIte] at h; cases h
theorem readFields_fitH : ∀ (fs : List (Nat × TVal)) (fuel : Nat) (sd : SDesc) (tail : Nat) (st st' : LoopSt),
    wfFields fs = true → fitHList st.fs = true → readFields P S total fuel sd fs tail st = .ok st' →
    fitHList st'.fs = true
  | [], _, _, _, st, st', _, hs, h => by
    rw [readFields] at h; cases h; exact hs
  | (id, v) :: r, fuel, sd, tail, st, st', hw, hs, h => by
    rw [readFields] at h
    simp only [wfFields, Bool.and_eq_true, decide_eq_true_eq] at hw
    cases hk : lookupKnown sd id v.tag with
    | none =>
      simp only [hk] at h
      split at h
      · cases h
      · refine readFields_fitH r fuel sd tail _ st' hw.2 ?_ h
        cases sd.hasHolder <;> simpa using hs
    | some p =>
      obtain ⟨ix, f⟩ := p
      simp only [hk] at h
      split at h
      · rename_i x hx
        refine readFields_fitH r fuel sd tail _ st' hw.2 ?_ h
        refine fitHList_set _ _ _ hs ?_
        rw [readField] at hx
        split at hx
        · obtain ⟨w0, h0, rfl⟩ := mapv_ok_inv _ _ _ hx
          exact wrapPtr_fitH _ _ (readFixed_fitH _ _ _ h0)
        · split at hx
          · obtain ⟨w0, h0, rfl⟩ := mapv_ok_inv _ _ _ hx
            exact wrapPtr_fitH _ _ (readStr_fitH _ _ _ _ _ _ hw.1.2 h0)
          · obtain ⟨w0, h0, rfl⟩ := mapv_ok_inv _ _ _ hx
            exact wrapPtr_fitH _ _ (readVal_fitH v fuel f.ty.deref _ _ w0 hw.1.2
              (freshTarget_fitH S _ _ (fitHList_getD _ _ hs)) h0)
      · cases h
      · cases h
theorem readList_fitH : ∀ (xs : List TVal) (fuel : Nat) (et : Ty) (tail : Nat) (vs : List Val) (a : Nat),
    wfList a xs = true → readList P S total fuel et xs tail = .ok vs →
    fitHList vs = true ∧ vs.length = xs.length
  | [], _, _, _, vs, _, _, h => by rw [readList] at h; cases h; exact ⟨rfl, rfl⟩
  | x :: r, fuel, et, tail, vs, a, hw, h => by
    rw [readList] at h
    simp only [wfList, Bool.and_eq_true] at hw
    split at h
    · rename_i w hx
      split at h
      · rename_i ws hws
        cases h
        have ih := readList_fitH r fuel et tail ws a hw.2 hws
        simp only [fitHList, Bool.and_eq_true, List.length_cons]
        refine ⟨⟨?_, ih.1⟩, by rw [ih.2]⟩
        rw [readSlot] at hx
        split at hx
        · obtain ⟨w0, h0, rfl⟩ := mapv_ok_inv _ _ _ hx
          exact wrapPtr_fitH _ _ (readFixed_fitH _ _ _ h0)
        · obtain ⟨w0, h0, rfl⟩ := mapv_ok_inv _ _ _ hx
          exact wrapPtr_fitH _ _ (readVal_fitH x fuel et.deref _ _ w0 hw.1.2
            (freshTarget_fitH S _ _ (zeroVal_fitH S _ _)) h0)
      · cases h
      · cases h
    · cases h
    · cases h
theorem readEntries_fitH : ∀ (es : List (TVal × TVal)) (fuel : Nat) (kt vt : Ty) (tail : Nat)
    (acc res : List (Val × Val)) (a b : Nat), wfEntries a b es = true → fitHEntries acc = true →
    readEntries P S total fuel kt vt es tail acc = .ok res →
    fitHEntries res = true ∧ res.length ≤ acc.length + es.length
  | [], _, _, _, _, acc, res, _, _, _, ha, h => by
    rw [readEntries] at h; cases h; exact ⟨ha, by simp⟩
  | (x, y) :: r, fuel, kt, vt, tail, acc, res, a, b, hw, ha, h => by
    rw [readEntries] at h
    simp only [wfEntries, Bool.and_eq_true] at hw
    split at h
    · rename_i k hk
      split at h
      · rename_i v hv
        have fk : fitH k = true := by
          rw [readSlot] at hk
          split at hk
          · obtain ⟨w0, h0, rfl⟩ := mapv_ok_inv _ _ _ hk
            exact wrapPtr_fitH _ _ (readFixed_fitH _ _ _ h0)
          · obtain ⟨w0, h0, rfl⟩ := mapv_ok_inv _ _ _ hk
            exact wrapPtr_fitH _ _ (readVal_fitH x fuel kt.deref _ _ w0 hw.1.1.2
              (freshTarget_fitH S _ _ (zeroVal_fitH S _ _)) h0)
        have fv : fitH v = true := by
          rw [readSlot] at hv
          split at hv
          · obtain ⟨w0, h0, rfl⟩ := mapv_ok_inv _ _ _ hv
            exact wrapPtr_fitH _ _ (readFixed_fitH _ _ _ h0)
          · obtain ⟨w0, h0, rfl⟩ := mapv_ok_inv _ _ _ hv
            exact wrapPtr_fitH _ _ (readVal_fitH y fuel vt.deref _ _ w0 hw.1.2
              (freshTarget_fitH S _ _ (zeroVal_fitH S _ _)) h0)
        have hm := mapInsert_fitH kt acc k v ha fk fv
        have ih := readEntries_fitH r fuel kt vt tail _ res a b hw.2 hm.1 h
        refine ⟨ih.1, ?_⟩
        have := ih.2
        simp only [List.length_cons]
        omega
      · cases h
      · cases h
    · cases h
    · cases h
end

omit total in
/-- top level: what `readMessage` returns for a well-formed message into a `fitH` destination -/
theorem readMessage_fitH (sid : Nat) (fs : List (Nat × TVal)) (trailing : Nat) (dest w : Val)
    (hw : wfFields fs = true) (hd : fitH dest = true)
    (h : readMessage P S sid fs trailing dest = .ok w) : fitH w = true := by
  unfold readMessage at h
  cases hm : P.maxDepth with
  | zero => rw [hm] at h; simp [readStruct] at h
  | succ f =>
    rw [hm] at h
    cases dest with
    | st vs hh =>
      simp only [fitH, Bool.and_eq_true, decide_eq_true_eq] at hd
      rw [readStruct] at h
      split at h
      · rename_i st hl
        split at h
        · cases h
        · cases h
          have hfs := readFields_fitH P S ((ser (.strct fs)).length + trailing) hdf fs f (S.get sid) (trailing + 1) _ st hw hd.2 hl
          have hu := holder_content P S ((ser (.strct fs)).length + trailing) f (S.get sid) fs (trailing + 1) vs st
          simp only [fitH, Bool.and_eq_true, decide_eq_true_eq]
          refine ⟨?_, hfs⟩
          split
          · rename_i hb
            rw [hu hb.1 hl]
            have := holder_fit (S.get sid) fs hw hh true hd.1
            simpa using this
          · exact hd.1
      · cases h
      · cases h
    | _ =>
      rw [readStruct_nonst P S _ f sid fs trailing _ (by intro vs h' hh; cases hh)] at h
      cases h
end
end Frugal
