/-
  TagsSpec.lean — what the model of `internal/defs` says about the schema it builds (C12) and about
  the definitions it refuses (C13): statements for every Go type, annotation and tag list.
-/
import Frugal.Proofs.TagsOk
set_option linter.unusedSimpArgs false
set_option linter.unusedVariables false
namespace Frugal

/-! ### rejection classes of the type parser -/

theorem ptr_ptr_none (e : GoTy) (hasDef : Bool) (d : List Char) (allow : Bool) :
    doParseType (.ptr (.ptr e)) hasDef d allow = none := by
  cases allow <;> simp [doParseType]

/-- a pointer is only ever a pointer to a scalar/string/binary or to a struct -/
theorem ptr_result (e : GoTy) (hasDef : Bool) (d : List Char) (allow : Bool) (t : Ty) (r : List Char)
    (h : doParseType (.ptr e) hasDef d allow = some (t, r)) :
    allow = true ∧ ∃ t', t = .ptr t' ∧ doParseType e hasDef d false = some (t', r) ∧
      ((∃ k, t' = .base k) ∨ (∃ s, t' = .strct s)) := by
  unfold doParseType at h
  cases allow with
  | false => simp at h
  | true =>
    simp only [Bool.not_true, Bool.false_eq_true, ↓reduceIte] at h
    cases hin : doParseType e hasDef d false with
    | none => simp [hin] at h
    | some p =>
      obtain ⟨t', r'⟩ := p
      have ih := parseType_ok e hasDef d false t' r' hin
      simp only [hin] at h
      cases t' with
      | map _ _ => simp at h
      | list _ _ => simp at h
      | ptr x => have := ih.2 rfl; simp [Ty.isPtr] at this
      | base k => simp at h; obtain ⟨rfl, rfl⟩ := h; exact ⟨rfl, _, rfl, rfl, Or.inl ⟨_, rfl⟩⟩
      | strct s => simp at h; obtain ⟨rfl, rfl⟩ := h; exact ⟨rfl, _, rfl, rfl, Or.inr ⟨_, rfl⟩⟩

/-- pointers are refused wherever only values are allowed -/
theorem ptr_disallowed (e : GoTy) (hasDef : Bool) (d : List Char) :
    doParseType (.ptr e) hasDef d false = none := by
  simp [doParseType]

/-- pointer to slice or map: refused (whatever the annotation) -/
theorem ptr_to_container_none (e : GoTy) (hasDef : Bool) (d : List Char) (allow : Bool)
    (he : (∃ x, e = .slice x ∧ x ≠ .prim .uint8 "uint8") ∨ (∃ k v, e = .map k v)) :
    doParseType (.ptr e) hasDef d allow = none := by
  cases h : doParseType (.ptr e) hasDef d allow with
  | none => rfl
  | some p =>
    obtain ⟨t, r⟩ := p
    obtain ⟨_, t', rfl, hin, hshape⟩ := ptr_result e hasDef d allow t r h
    exfalso
    rcases he with ⟨x, rfl, hx⟩ | ⟨k, v, rfl⟩
    · unfold doParseType at hin
      have hb : (x == GoTy.prim .uint8 "uint8") = false := by simpa using hx
      simp only [hb, Bool.false_eq_true, ↓reduceIte] at hin
      split at hin
      · cases hin
      · unfold parseSliceBody at hin
        split at hin
        · cases hin
        · simp only at hin
          split at hin
          · cases hin
          · split at hin
            · cases hin
            · split at hin
              · cases hin
              · split at hin
                · cases hin
                · split at hin
                  · simp only [Option.some.injEq, Prod.mk.injEq] at hin
                    obtain ⟨rfl, _⟩ := hin
                    rcases hshape with ⟨_, h⟩ | ⟨_, h⟩ <;> cases h
                  · cases hin
    · unfold doParseType at hin
      simp only at hin
      split at hin
      · cases hin
      · unfold parseMapBody at hin
        simp only at hin
        split at hin
        · cases hin
        · split at hin
          · cases hin
          · split at hin
            · cases hin
            · split at hin
              · cases hin
              · split at hin
                · cases hin
                · split at hin
                  · cases hin
                  · split at hin
                    · simp only [Option.some.injEq, Prod.mk.injEq] at hin
                      obtain ⟨rfl, _⟩ := hin
                      rcases hshape with ⟨_, h⟩ | ⟨_, h⟩ <;> cases h
                    · cases hin

/-- Go kinds Thrift cannot express -/
theorem unsupported_kind_none (k : GoKind) (nm : String) (hasDef : Bool) (d : List Char) (allow : Bool)
    (hk : kindTag k = none) : doParseType (.prim k nm) hasDef d allow = none := by
  simp [doParseType, hk]

theorem unsupported_kinds (k : GoKind) :
    kindTag k = none ↔ k ∈ [GoKind.uint, .uint8, .uint16, .uint32, .uint64, .uintptr, .float32,
      .complex64, .complex128, .chan, .func, .iface, .unsafeptr] := by
  cases k <;> simp [kindTag]

theorem array_none (n : Nat) (e : GoTy) (hasDef : Bool) (d : List Char) (allow : Bool) :
    doParseType (.arr n e) hasDef d allow = none := by
  simp [doParseType]

/-- a slice (other than []byte) without an annotation is refused -/
theorem slice_without_annotation_none (e : GoTy) (d : List Char) (allow : Bool)
    (he : e ≠ .prim .uint8 "uint8") : doParseType (.slice e) false d allow = none := by
  have hb : (e == GoTy.prim .uint8 "uint8") = false := by simpa using he
  simp [doParseType, hb]

/-- a slice is a list or a set, as its annotation's first token says, of its element's type;
    elements are values or pointers to structs -/
theorem slice_result (e : GoTy) (d : List Char) (allow : Bool) (t : Ty) (r : List Char)
    (he : e ≠ .prim .uint8 "uint8") (h : doParseType (.slice e) true d allow = some (t, r)) :
    ∃ tok r0 r1 r2 et, readToken d false = some (tok, r0) ∧ expectTok r0 '<' = some r1 ∧
      doParseType e true r1 true = some (et, r2) ∧ expectTok r2 '>' = some r ∧ isValueType et = true ∧
      ((tok = "set".toList ∧ t = .list true et) ∨ (tok = "list".toList ∧ t = .list false et)) := by
  unfold doParseType at h
  have hb : (e == GoTy.prim .uint8 "uint8") = false := by simpa using he
  simp only [hb, ↓reduceIte, Bool.not_true, Bool.false_eq_true] at h
  unfold parseSliceBody at h
  split at h
  · cases h
  · rename_i tok r0 htok
    simp only at h
    split at h
    · cases h
    · rename_i isSet hset
      split at h
      · cases h
      · rename_i r1 h1
        split at h
        · cases h
        · rename_i et r2 hin
          split at h
          · cases h
          · rename_i r3 h3
            split at h
            · rename_i hv
              simp only [Option.some.injEq, Prod.mk.injEq] at h
              obtain ⟨rfl, rfl⟩ := h
              refine ⟨tok, r0, r1, r2, et, htok, h1, hin, h3, hv, ?_⟩
              by_cases hs : (tok == "set".toList) = true
              · simp only [hs, ↓reduceIte, Option.some.injEq] at hset
                subst hset
                exact Or.inl ⟨eq_of_beq hs, rfl⟩
              · simp only [hs, ↓reduceIte] at hset
                by_cases hl : (tok == "list".toList) = true
                · simp only [hl, ↓reduceIte, Option.some.injEq, Bool.false_eq_true] at hset
                  subst hset
                  exact Or.inr ⟨eq_of_beq hl, rfl⟩
                · simp only [hl, ↓reduceIte, Bool.false_eq_true] at hset
                  cases hset
            · cases h

/-- maps: keys are scalars, strings or struct pointers; values are values or struct pointers -/
theorem map_result (k v : GoTy) (hasDef : Bool) (d : List Char) (allow : Bool) (t : Ty) (r : List Char)
    (h : doParseType (.map k v) hasDef d allow = some (t, r)) :
    ∃ kt vt, t = .map kt vt ∧ isKeyType kt = true ∧ isValueType vt = true := by
  unfold doParseType at h
  simp only at h
  split at h
  · cases h
  · unfold parseMapBody at h
    simp only at h
    split at h
    · cases h
    · split at h
      · cases h
      · rename_i kt _ _
        split at h
        · cases h
        · rename_i hkey
          split at h
          · cases h
          · split at h
            · cases h
            · rename_i vt _ _
              split at h
              · cases h
              · split at h
                · rename_i hval
                  simp only [Option.some.injEq, Prod.mk.injEq] at h
                  obtain ⟨rfl, _⟩ := h
                  exact ⟨kt, vt, rfl, by simpa using hkey, hval⟩
                · cases h

theorem key_types (t : Ty) : isKeyType t = true ↔
    (∃ k, t = .base k ∧ k ≠ .binary) ∨ (∃ s, t = .ptr (.strct s)) := by
  cases t with
  | base k => cases k <;> simp [isKeyType]
  | ptr e => cases e <;> simp [isKeyType]
  | _ => simp [isKeyType]

theorem value_types (t : Ty) : isValueType t = true ↔ (t.isPtr = false ∨ ∃ s, t = .ptr (.strct s)) := by
  cases t with
  | ptr e => cases e <;> simp [isValueType, Ty.isPtr]
  | _ => simp [isValueType, Ty.isPtr]

/-! ### field resolution -/

theorem parseU16_nondigit {s : List Char} (h : s.all Char.isDigit = false) : parseU16 s = none := by
  unfold parseU16
  split
  · rfl
  · simp [h]

theorem parseU16_empty : parseU16 [] = none := by simp [parseU16]

theorem parseU16_range {s : List Char}
    (h : 65536 ≤ s.foldl (fun a c => a * 10 + (c.toNat - 48)) 0) : parseU16 s = none := by
  unfold parseU16
  split
  · rfl
  · split
    · simp only []
      rw [if_neg (by omega)]
    · rfl

theorem resolveField_bad_id (hasInit : Bool) (gf : GoField) (idS : List Char) (r : List (List Char))
    (h : parseU16 idS = none) : resolveField hasInit gf (idS :: r) = none := by
  simp [resolveField, h]

theorem resolveField_bad_req (hasInit : Bool) (gf : GoField) (idS reqS : List Char) (r : List (List Char))
    (h : parseReq reqS = none) : resolveField hasInit gf (idS :: reqS :: r) = none := by
  unfold resolveField
  simp only [List.headD_cons, h]
  split <;> rfl

theorem parseReq_words (s : List Char) : parseReq s ≠ none ↔
    s = "default".toList ∨ s = "required".toList ∨ s = "optional".toList := by
  unfold parseReq
  by_cases h1 : s = "default".toList
  · subst h1; simp
  · by_cases h2 : s = "required".toList
    · subst h2; simp
    · by_cases h3 : s = "optional".toList
      · subst h3; simp
      · rw [if_neg (fun hb => h1 (eq_of_beq hb)), if_neg (fun hb => h2 (eq_of_beq hb)),
          if_neg (fun hb => h3 (eq_of_beq hb))]
        constructor
        · intro h; exact absurd rfl h
        · rintro (h | h | h) <;> contradiction

theorem resolveField_bad_type (hasInit : Bool) (gf : GoField) (idS reqS tyS : List Char)
    (r : List (List Char)) (h : parseType gf.ty tyS = none) :
    resolveField hasInit gf (idS :: reqS :: tyS :: r) = none := by
  unfold resolveField
  simp only [List.headD_cons, List.tail_cons, h]
  split
  · rfl
  · split <;> rfl

/-- unknown option, repeated `nocopy`, or `nocopy` on something that is not a string/binary -/
theorem parseOpts_unknown (t : Ty) (o : List Char) (r : List (List Char)) (acc : Bool)
    (h : o ≠ "nocopy".toList) : parseOpts t (o :: r) acc = none := by
  unfold parseOpts
  rw [if_neg (fun hb => h (eq_of_beq hb))]

theorem parseOpts_nocopy_nonstring (t : Ty) (r : List (List Char)) (acc : Bool)
    (h : t.isStringWire = false) : parseOpts t ("nocopy".toList :: r) acc = none := by
  simp [parseOpts, h]

theorem parseOpts_nocopy_twice (t : Ty) (r : List (List Char)) :
    parseOpts t ("nocopy".toList :: "nocopy".toList :: r) false = none := by
  simp only [parseOpts]
  cases t.isStringWire <;> simp

theorem resolveField_bad_opts (hasInit : Bool) (gf : GoField) (idS reqS tyS : List Char)
    (opts : List (List Char))
    (h : ∀ ty, parseOpts ty opts false = none) :
    resolveField hasInit gf (idS :: reqS :: tyS :: opts) = none := by
  unfold resolveField
  simp only [List.headD_cons, List.tail_cons, h]
  split
  · rfl
  · split
    · rfl
    · split
      · rfl
      · split <;> rfl

/-- "only optional fields or structs can be pointers" -/
theorem resolveField_ptr_rule (hasInit : Bool) (gf : GoField) (ft : List (List Char)) (f : Field)
    (h : resolveField hasInit gf ft = some f) (hp : f.ty.isPtr = true) :
    f.req = .optional ∨ f.ty.isStructPtr = true := by
  have := resolveField_ok hasInit gf ft f h
  simp only [Field.ok, Bool.and_eq_true, Bool.or_eq_true, Bool.not_eq_true', beq_iff_eq] at this
  rcases this.1.1.2 with h1 | h1
  · rcases h1 with h1 | h1
    · rw [hp] at h1; cases h1
    · exact Or.inr h1
  · exact Or.inl h1

/-- id, requiredness and type of an accepted field are those its tag spells -/
theorem resolveField_from_tag (hasInit : Bool) (gf : GoField) (idS reqS tyS : List Char)
    (opts : List (List Char)) (f : Field)
    (h : resolveField hasInit gf (idS :: reqS :: tyS :: opts) = some f) :
    parseU16 idS = some f.id ∧ parseReq reqS = some f.req ∧ parseType gf.ty tyS = some f.ty ∧
    parseOpts f.ty opts false = some f.nocopy ∧ f.name = gf.name := by
  unfold resolveField at h
  simp only [List.headD_cons, List.tail_cons] at h
  split at h
  · cases h
  · rename_i id hid
    split at h
    · cases h
    · rename_i req hreq
      split at h
      · cases h
      · rename_i ty hty
        split at h
        · cases h
        · split at h
          · cases h
          · rename_i nc hnc
            simp only [Option.some.injEq] at h
            subst h
            exact ⟨hid, hreq, hty, hnc, rfl⟩

/-- requiredness is `default` when the tag stops after the id; the type then comes from the Go type -/
theorem default_req_when_omitted (hasInit : Bool) (gf : GoField) (idS : List Char) :
    resolveField hasInit gf [idS] = resolveField hasInit gf [idS, dfltWord] ∧
    resolveField hasInit gf [idS] = resolveField hasInit gf [idS, dfltWord, []] ∧
    dfltWord = "default".toList := by
  exact ⟨rfl, rfl, rfl⟩

/-- untagged, unexported and embedded fields are ignored -/
theorem ignored_fields (hasInit : Bool) (gf : GoField) (r : List GoField) (ids : List Nat)
    (h : gf.anonymous = true ∨ gf.exported = false ∨ lookupStructTag gf.tag = none) :
    resolveFieldsAux hasInit (gf :: r) ids = resolveFieldsAux hasInit r ids := by
  rw [resolveFieldsAux]
  rcases h with h | h | h
  · simp [h]
  · simp [h]
  · split
    · rfl
    · simp [h]

/-- a tagged field that does not resolve makes the whole struct unacceptable -/
theorem bad_field_rejects (hasInit : Bool) (gf : GoField) (r : List GoField) (ids : List Nat)
    (ft : List (List Char)) (h0 : gf.anonymous = false) (h1 : gf.exported = true)
    (ht : lookupStructTag gf.tag = some ft) (hf : resolveField hasInit gf ft = none) :
    resolveFieldsAux hasInit (gf :: r) ids = none := by
  rw [resolveFieldsAux]
  simp [h0, h1, ht, hf]

/-! ### ids: distinct, then sorted -/

theorem resolveFieldsAux_ids (hasInit : Bool) : ∀ (gfs : List GoField) (ids : List Nat) (fs : List Field),
    resolveFieldsAux hasInit gfs ids = some fs →
    (fs.map (·.id)).Nodup ∧ ∀ f ∈ fs, f.id ∉ ids
  | [], ids, fs, h => by
    simp only [resolveFieldsAux, Option.some.injEq] at h
    subst h
    simp
  | gf :: r, ids, fs, h => by
    rw [resolveFieldsAux] at h
    split at h
    · exact resolveFieldsAux_ids hasInit r ids fs h
    · split at h
      · exact resolveFieldsAux_ids hasInit r ids fs h
      · split at h
        · cases h
        · rename_i f _
          split at h
          · cases h
          · rename_i hnot
            split at h
            · cases h
            · rename_i fs' hfs'
              simp only [Option.some.injEq] at h
              subst h
              have ih := resolveFieldsAux_ids hasInit r (f.id :: ids) fs' hfs'
              have hnot' : f.id ∉ ids := by simpa using hnot
              refine ⟨?_, ?_⟩
              · simp only [List.map_cons, List.nodup_cons, List.mem_map, not_exists, not_and]
                refine ⟨?_, ih.1⟩
                intro g hg heq
                have := ih.2 g hg
                simp [heq] at this
              · intro g hg
                rcases List.mem_cons.1 hg with rfl | hg
                · exact hnot'
                · have := ih.2 g hg
                  intro hc
                  exact this (List.mem_cons_of_mem _ hc)

/-- two tagged fields with the same id: the struct is refused -/
theorem duplicate_id_rejects (hasInit : Bool) (gfs : List GoField) (fs : List Field)
    (h : resolveFieldsAux hasInit gfs [] = some fs) : (fs.map (·.id)).Nodup :=
  (resolveFieldsAux_ids hasInit gfs [] fs h).1

theorem mem_insertById' {f g : Field} : ∀ {l : List Field}, g = f ∨ g ∈ l → g ∈ insertById f l
  | [], h => by
    rcases h with rfl | h
    · simp [insertById]
    · cases h
  | x :: r, h => by
    unfold insertById
    split
    · rcases h with rfl | h
      · simp
      · exact List.mem_cons_of_mem _ h
    · rcases h with rfl | h
      · exact List.mem_cons_of_mem _ (mem_insertById' (Or.inl rfl))
      · rcases List.mem_cons.1 h with rfl | h
        · simp
        · exact List.mem_cons_of_mem _ (mem_insertById' (Or.inr h))

theorem mem_sortById' {g : Field} : ∀ {l : List Field}, g ∈ l → g ∈ sortById l
  | [], h => by cases h
  | f :: r, h => by
    show g ∈ insertById f (sortById r)
    rcases List.mem_cons.1 h with rfl | h
    · exact mem_insertById' (Or.inl rfl)
    · exact mem_insertById' (Or.inr (mem_sortById' h))

theorem insertById_sorted {f : Field} : ∀ {l : List Field},
    l.Pairwise (fun a b => a.id < b.id) → (∀ g ∈ l, g.id ≠ f.id) →
    (insertById f l).Pairwise (fun a b => a.id < b.id)
  | [], _, _ => by simp [insertById]
  | x :: r, hs, hne => by
    unfold insertById
    have hx := List.pairwise_cons.1 hs
    split
    · rename_i hlt
      refine List.pairwise_cons.2 ⟨?_, hs⟩
      intro g hg
      rcases List.mem_cons.1 hg with rfl | hg
      · exact hlt
      · exact Nat.lt_trans hlt (hx.1 g hg)
    · rename_i hge
      have hxf : x.id < f.id := by
        have := hne x (by simp)
        omega
      refine List.pairwise_cons.2 ⟨?_, insertById_sorted hx.2 (fun g hg => hne g (List.mem_cons_of_mem _ hg))⟩
      intro g hg
      rcases mem_insertById hg with rfl | hg
      · exact hxf
      · exact hx.1 g hg

theorem sortById_sorted : ∀ {l : List Field}, (l.map (·.id)).Nodup →
    (sortById l).Pairwise (fun a b => a.id < b.id)
  | [], _ => by simp [sortById]
  | f :: r, h => by
    show (insertById f (sortById r)).Pairwise _
    simp only [List.map_cons, List.nodup_cons, List.mem_map, not_exists, not_and] at h
    refine insertById_sorted (sortById_sorted h.2) ?_
    intro g hg
    exact h.1 g (mem_sortById hg)

/-- the descriptor's field table: exactly the resolved fields, in strictly increasing id order -/
theorem resolveStruct_fields (gs : GoStruct) (sd : SDesc) (h : resolveStruct gs = some sd) :
    sd.fields.Pairwise (fun a b => a.id < b.id) ∧
    ∃ fs, resolveFieldsAux gs.hasInit gs.fields [] = some fs ∧ ∀ f, f ∈ sd.fields ↔ f ∈ fs := by
  unfold resolveStruct at h
  split at h
  · cases h
  · rename_i fs hfs
    simp only [Option.some.injEq] at h
    subst h
    exact ⟨sortById_sorted (resolveFieldsAux_ids _ _ _ _ hfs).1, fs, hfs,
      fun f => ⟨mem_sortById, mem_sortById'⟩⟩

/-! ### tags -/

theorem thrift_drops_name (tag s : String) (h0 : tagLookup tag "frugal" = none)
    (h : tagLookup tag "thrift" = some s) :
    lookupStructTag tag = some (((splitComma [] s.toList).drop 1).map trimSpace) := by
  simp [lookupStructTag, h0, h]

theorem no_tag_none (tag : String) (h0 : tagLookup tag "frugal" = none)
    (h : tagLookup tag "thrift" = none) : lookupStructTag tag = none := by
  simp [lookupStructTag, h0, h]

end Frugal
