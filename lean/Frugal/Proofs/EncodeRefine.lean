/-
  EncodeRefine.lean — the encoder as written (table-driven `appendAny`) produces exactly the
  bytes of the reference encoder, for every schema and every well-typed value, provided the
  regenerated tables satisfy `Params.valid`.
-/
import Frugal.Valid
namespace Frugal

theorem TT.mem_all (t : TT) : t ∈ TT.all := by cases t <;> simp [TT.all]

section
variable {P : Params}

theorem valid_parts (h : P.valid = true) :
    P.validSizes = true ∧ P.validSimple = true ∧ P.validContainer = true ∧ P.validHeaders = true ∧
    P.validList = true ∧ P.validMap = true ∧ P.mapBinaryGuard = true := by
  simp only [Params.valid, Bool.and_eq_true] at h
  obtain ⟨⟨⟨⟨⟨⟨⟨⟨⟨⟨⟨⟨⟨a, b⟩, c⟩, d⟩, e⟩, f⟩, _⟩, _⟩, _⟩, _⟩, _⟩, _⟩, g⟩, _⟩ := h
  exact ⟨a, b, c, d, e, f, g⟩

theorem simple_eq (h : P.valid = true) (t : TT) : P.simple t = specSimple t := by
  have := (valid_parts h).2.1
  simp only [Params.validSimple, List.all_eq_true, beq_iff_eq] at this
  exact this t (TT.mem_all t)

theorem fixed_eq (h : P.valid = true) (t : TT) : P.fixedSize t = specFixed t := by
  have := (valid_parts h).1
  simp only [Params.validSizes, List.all_eq_true, beq_iff_eq] at this
  exact this t (TT.mem_all t)

theorem container_eq (h : P.valid = true) (t : TT) : P.container t = specContainer t := by
  have := (valid_parts h).2.2.1
  simp only [Params.validContainer, List.all_eq_true, beq_iff_eq] at this
  exact this t (TT.mem_all t)

theorem headers_eq (h : P.valid = true) :
    P.fieldHeaderLen = 3 ∧ P.mapHeaderLen = 6 ∧ P.listHeaderLen = 5 ∧ P.strHeaderLen = 4 := by
  have := (valid_parts h).2.2.2.1
  simp only [Params.validHeaders, Bool.and_eq_true, beq_iff_eq] at this
  obtain ⟨⟨⟨a, b⟩, c⟩, d⟩ := this
  exact ⟨a, b, c, d⟩

theorem list_ok (h : P.valid = true) (t : TT) : opOK t (P.listRoutine t) = true := by
  have := (valid_parts h).2.2.2.2.1
  simp only [Params.validList, List.all_eq_true] at this
  exact this t (TT.mem_all t)

theorem map_ok (h : P.valid = true) (k v : TT) (b : Bool) (hb : b = true → v = .string) :
    opOK k (P.mapRoutine k v b).kw = true ∧ opOK v (P.mapRoutine k v b).vw = true := by
  have := (valid_parts h).2.2.2.2.2.1
  simp only [Params.validMap, List.all_eq_true, Bool.and_eq_true, Bool.or_eq_true] at this
  have hk := this k (TT.mem_all k) v (TT.mem_all v)
  cases b with
  | false =>
    have := hk.1
    simp only [routineOK, Bool.and_eq_true] at this
    exact ⟨this.1.1.1.1, this.1.1.1.2⟩
  | true =>
    have hv := hb rfl
    rcases hk.2 with hne | hr
    · simp [hv] at hne
    · have := hr.2
      simp only [routineOK, Bool.and_eq_true] at this
      exact ⟨this.1.1.1.1, this.1.1.1.2⟩
end

/-- close a goal whose hypothesis claims an ill-typed (type, value) pair is well typed -/
macro "hasTy_absurd" h:ident : tactic => `(tactic| (unfold hasTy at $h:ident; simp at $h:ident))

theorem u8_one : u8 1 = 1 := by decide
theorem u8_zero : u8 0 = 0 := by decide

/-- a non-recursive writer that is correct for the element's tag writes what the reference
    encoder writes -/
theorem scalarOp_eq (S : Schema) (w : WOp) (e : Ty) (x : Val) (hw : w.isRec = false)
    (hok : opOK e.tt w = true) (hp : (!e.isPtr || e.isStructPtr) = true) (ht : hasTy S e x = true) :
    runScalarOp w x = refEnc S e x := by
  simp only [opOK, hw, Bool.false_or, Bool.or_eq_true, beq_iff_eq, Bool.and_eq_true] at hok
  cases e with
  | base k =>
    cases x with
    | sc n =>
      cases k <;> simp only [Ty.tt, Kind.tt, expectedOp] at hok <;>
        first
        | (rcases hok with hok | hok
           · subst hok; simp [runScalarOp, refEnc, encScalar]
           · first
             | (obtain ⟨_, hok⟩ := hok; subst hok
                simp only [hasTy, decide_eq_true_eq] at ht
                have : n = 0 ∨ n = 1 := by omega
                rcases this with rfl | rfl <;> simp [runScalarOp, refEnc, encScalar, u8_one, u8_zero])
             | (simp at hok))
        | (simp [hasTy] at ht)
    | str s =>
      cases k <;> simp only [Ty.tt, Kind.tt, expectedOp] at hok <;>
        first
        | (simp [hasTy] at ht; done)
        | (rcases hok with hok | hok
           · subst hok; simp [runScalarOp, refEnc]
           · simp at hok)
    | bin n s =>
      cases k <;> simp only [Ty.tt, Kind.tt, expectedOp] at hok <;>
        first
        | (simp [hasTy] at ht; done)
        | (rcases hok with hok | hok
           · subst hok; simp [runScalarOp, refEnc]
           · simp at hok)
    | _ => cases k <;> simp [hasTy] at ht
  | strct sid =>
    simp only [Ty.tt, expectedOp] at hok
    rcases hok with hok | hok
    · subst hok; simp [WOp.isRec] at hw
    · simp at hok
  | list s e' =>
    cases s <;> simp only [Ty.tt, expectedOp] at hok <;>
      (rcases hok with hok | hok
       · subst hok; simp [WOp.isRec] at hw
       · simp at hok)
  | map k v =>
    simp only [Ty.tt, expectedOp] at hok
    rcases hok with hok | hok
    · subst hok; simp [WOp.isRec] at hw
    · simp at hok
  | ptr e' =>
    cases e' with
    | strct sid =>
      simp only [Ty.tt, expectedOp] at hok
      rcases hok with hok | hok
      · subst hok; simp [WOp.isRec] at hw
      · simp at hok
    | _ => simp [Ty.isPtr, Ty.isStructPtr] at hp

theorem simpleSwitch_eq (k : Kind) (n : Nat) (hk : k ≠ .string) (hb : k ≠ .binary) :
    simpleSwitch k.tt n = encScalar k n := by
  cases k <;> simp [Kind.tt, simpleSwitch, encScalar] at *

theorem skipNil_eq {P : Params} (h : P.valid = true) (f : Field) :
    canSkipNil P f = (f.req == .optional && (f.ty.isPtr || f.ty.isBinary || f.ty.isContainer)) := by
  unfold canSkipNil
  rw [container_eq h]
  cases hty : f.ty with
  | base k => simp [Ty.isPtr, Ty.isContainer, Ty.tt, specContainer]; cases k <;> simp [Kind.tt]
  | strct s => simp [Ty.isPtr, Ty.isContainer, Ty.tt, specContainer]
  | list s e => cases s <;> simp [Ty.isPtr, Ty.isContainer, Ty.tt, specContainer]
  | map k v => simp [Ty.isPtr, Ty.isContainer, Ty.tt, specContainer]
  | ptr e => simp [Ty.isPtr]

/-- the field-skipping logic of the code is the `fieldWritten` predicate of the specification -/
theorem skip_eq {P : Params} (h : P.valid = true) (sd : SDesc) (f : Field) (x : Val) :
    (!(canSkipNil P f && isNilWord x) && !(canSkipDefault sd f && goEqual f.ty.tt f.default x)) =
      fieldWritten sd f x := by
  rw [skipNil_eq h]
  simp only [fieldWritten, canSkipDefault, Bool.and_assoc]

mutual
theorem appendAny_eq {P : Params} (hP : P.valid = true) (S : Schema) (hS : S.ok = true) :
    ∀ (v : Val) (ty : Ty), ty.ok = true → hasTy S ty v = true → appendAny P S ty v = refEnc S ty v
  | .sc n, ty, _, ht => by
    cases ty with
    | base k =>
      have hs : P.simple (Ty.base k).tt = true := by
        rw [simple_eq hP]; cases k <;> simp [Ty.tt, Kind.tt, specSimple]
      cases k with
      | string => hasTy_absurd ht
      | binary => hasTy_absurd ht
      | _ =>
        simp only [Ty.tt, Kind.tt] at hs
        simp [appendAny, hs, refEnc, Ty.tt, Kind.tt, simpleSwitch, encScalar]
    | _ => hasTy_absurd ht
  | .str s, ty, _, ht => by
    cases ty with
    | base k =>
      cases k <;> first
        | (hasTy_absurd ht; done)
        | (have hs : P.simple TT.string = true := by rw [simple_eq hP]; rfl
           simp [appendAny, refEnc, Ty.tt, Kind.tt, hs])
    | _ => hasTy_absurd ht
  | .bin n s, ty, _, ht => by
    cases ty with
    | base k =>
      cases k <;> first
        | (hasTy_absurd ht; done)
        | (have hs : P.simple TT.string = true := by rw [simple_eq hP]; rfl
           simp [appendAny, refEnc, Ty.tt, Kind.tt, hs])
    | _ => hasTy_absurd ht
  | .nilp, ty, hok, ht => by
    cases ty with
    | ptr e =>
      cases e <;> simp [appendAny, refEnc, Ty.tt, Ty.ok] at hok ⊢
      · rename_i k; cases k <;> simp [Kind.tt]
    | base k => cases k <;> hasTy_absurd ht
    | _ => hasTy_absurd ht
  | .ptr v, ty, hok, ht => by
    cases ty with
    | ptr e =>
      simp only [hasTy, Bool.and_eq_true] at ht
      have hoke : e.ok = true := by cases e <;> simp [Ty.ok] at hok ⊢
      simp only [appendAny, Ty.deref, refEnc]
      exact appendAny_eq hP S hS v e hoke ht.2
    | base k => cases k <;> hasTy_absurd ht
    | _ => hasTy_absurd ht
  | .lst n xs, ty, hok, ht => by
    cases ty with
    | list s e =>
      simp only [hasTy, Bool.and_eq_true] at ht
      simp only [Ty.ok, Bool.and_eq_true] at hok
      simp only [appendAny, refEnc]
      rw [appendElems_eq hP S hS xs (P.listRoutine e.tt) e hok.1 hok.2 (list_ok hP e.tt) ht.2]
    | base k => cases k <;> hasTy_absurd ht
    | _ => hasTy_absurd ht
  | .mp n es, ty, hok, ht => by
    cases ty with
    | map k v =>
      simp only [hasTy, Bool.and_eq_true] at ht
      simp only [Ty.ok, Bool.and_eq_true] at hok
      obtain ⟨⟨⟨hk, hv⟩, hvp⟩, hkk⟩ := hok
      have hb : v.isBinary = true → v.tt = .string := by
        intro hb; cases v <;> simp [Ty.isBinary] at hb
        rename_i kk; cases kk <;> simp [Ty.isBinary] at hb; simp [Ty.tt, Kind.tt]
      have hm := map_ok hP k.tt v.tt v.isBinary hb
      have hkp : (!k.isPtr || k.isStructPtr) = true := by
        cases k <;> simp [Ty.isPtr, Ty.isStructPtr] at hkk ⊢
        rename_i e; cases e <;> simp at hkk ⊢
      simp only [appendAny, refEnc]
      rw [appendEntries_eq hP S hS es _ _ k v hk hv hkp hvp hm.1 hm.2 ht.2]
    | base k => cases k <;> hasTy_absurd ht
    | _ => hasTy_absurd ht
  | .st fs h, ty, _, ht => by
    cases ty with
    | strct sid =>
      simp only [hasTy, Bool.and_eq_true, Bool.or_eq_true] at ht
      have hsd : (S.get sid).ok = true := by
        simp only [Schema.ok, List.all_eq_true] at hS
        simp only [Schema.get, List.getD_eq_getElem?_getD]
        cases hg : S[sid]? with
        | none => simp [SDesc.ok]
        | some sd => simpa using hS sd (List.mem_of_getElem? hg)
      simp only [SDesc.ok, List.all_eq_true] at hsd
      simp only [appendAny, refEnc]
      rw [appendFields_eq hP S hS fs (S.get sid) (S.get sid).fields (fun f hf => by have := hsd f hf; simp only [Field.ok, Bool.and_eq_true] at this; exact this.1.1.1) ht.2]
      rcases ht.1 with hh | hh
      · simp [hh]
      · have : h = [] := by simpa using hh
        simp [this]
    | base k => cases k <;> hasTy_absurd ht
    | _ => hasTy_absurd ht
  | .vstr _ _, ty, _, ht => by
    cases ty with
    | base k => cases k <;> hasTy_absurd ht
    | _ => hasTy_absurd ht
  | .vbin _ _, ty, _, ht => by
    cases ty with
    | base k => cases k <;> hasTy_absurd ht
    | _ => hasTy_absurd ht
theorem appendElems_eq {P : Params} (hP : P.valid = true) (S : Schema) (hS : S.ok = true) :
    ∀ (xs : List Val) (w : WOp) (e : Ty), e.ok = true → (!e.isPtr || e.isStructPtr) = true →
      opOK e.tt w = true → hasTyList S e xs = true → appendElems P S w e xs = refEncList S e xs
  | [], _, _, _, _, _, _ => by simp [appendElems, refEncList]
  | x :: r, w, e, hok, hp, hw, ht => by
    simp only [hasTyList, Bool.and_eq_true] at ht
    simp only [appendElems, refEncList]
    rw [appendElems_eq hP S hS r w e hok hp hw ht.2]
    cases hr : w.isRec with
    | true => simp [appendAny_eq hP S hS x e hok ht.1]
    | false => simp [scalarOp_eq S w e x hr hw hp ht.1]
theorem appendEntries_eq {P : Params} (hP : P.valid = true) (S : Schema) (hS : S.ok = true) :
    ∀ (es : List (Val × Val)) (kw vw : WOp) (k v : Ty), k.ok = true → v.ok = true →
      (!k.isPtr || k.isStructPtr) = true → (!v.isPtr || v.isStructPtr) = true →
      opOK k.tt kw = true → opOK v.tt vw = true → hasTyEntries S k v es = true →
      appendEntries P S kw vw k v es = refEncEntries S k v es
  | [], _, _, _, _, _, _, _, _, _, _, _ => by simp [appendEntries, refEncEntries]
  | (a, b) :: r, kw, vw, k, v, hk, hv, hkp, hvp, hkw, hvw, ht => by
    simp only [hasTyEntries, Bool.and_eq_true] at ht
    simp only [appendEntries, refEncEntries]
    rw [appendEntries_eq hP S hS r kw vw k v hk hv hkp hvp hkw hvw ht.2]
    have ea : (if kw.isRec = true then appendAny P S k a else runScalarOp kw a) = refEnc S k a := by
      cases hr : kw.isRec with
      | true => simp [appendAny_eq hP S hS a k hk ht.1.1]
      | false => simp [scalarOp_eq S kw k a hr hkw hkp ht.1.1]
    have eb : (if vw.isRec = true then appendAny P S v b else runScalarOp vw b) = refEnc S v b := by
      cases hr : vw.isRec with
      | true => simp [appendAny_eq hP S hS b v hv ht.1.2]
      | false => simp [scalarOp_eq S vw v b hr hvw hvp ht.1.2]
    rw [ea, eb]
theorem appendFields_eq {P : Params} (hP : P.valid = true) (S : Schema) (hS : S.ok = true) :
    ∀ (xs : List Val) (sd : SDesc) (fs : List Field), (∀ f ∈ fs, f.ty.ok = true) →
      hasTyFields S fs xs = true → appendFields P S sd fs xs = refEncFields S sd fs xs
  | [], _, [], _, _ => by simp [appendFields, refEncFields]
  | [], _, _ :: _, _, ht => by simp [hasTyFields] at ht
  | _ :: _, _, [], _, ht => by simp [hasTyFields] at ht
  | x :: xr, sd, f :: fr, hok, ht => by
    simp only [hasTyFields, Bool.and_eq_true] at ht
    simp only [appendFields, refEncFields]
    rw [appendFields_eq hP S hS xr sd fr (fun g hg => hok g (List.mem_cons_of_mem _ hg)) ht.2]
    rw [← skip_eq hP sd f x, appendAny_eq hP S hS x f.ty (hok f (List.mem_cons_self ..)) ht.1]
    cases canSkipNil P f && isNilWord x <;> cases canSkipDefault sd f && goEqual f.ty.tt f.default x <;> simp
end

end Frugal
