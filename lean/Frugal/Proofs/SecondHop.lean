/-
  SecondHop.lean — C11: what an intermediary with an older schema re-emits.
-/
import Frugal.Proofs.KnownOnly
import Frugal.Proofs.ToWire
set_option linter.unusedSimpArgs false
namespace Frugal

theorem serFields_append : ∀ (a b : List (Nat × TVal)), serFields (a ++ b) = serFields a ++ serFields b
  | [], b => by simp [serFields]
  | (id, v) :: r, b => by simp [serFields, serFields_append r b]

theorem wfFields_append : ∀ (a b : List (Nat × TVal)), wfFields (a ++ b) = (wfFields a && wfFields b)
  | [], b => by simp [wfFields]
  | (id, v) :: r, b => by simp [wfFields, wfFields_append r b, Bool.and_assoc]

theorem wfFields_sublist : ∀ (a b : List (Nat × TVal)), a.Sublist b → wfFields b = true → wfFields a = true
  | _, _, .slnil, h => h
  | a, _ :: b, .cons _ hs, h => by
    simp only [wfFields, Bool.and_eq_true] at h
    exact wfFields_sublist a b hs h.2
  | _ :: a, _ :: b, .cons_cons x hs, h => by
    obtain ⟨id, v⟩ := x
    simp only [wfFields, Bool.and_eq_true] at h ⊢
    exact ⟨h.1, wfFields_sublist a b hs h.2⟩

/-- re-encoding a struct whose holder carries the unrecognised fields of a message `fs` writes the
    serialisation of: the recognised fields as the schema writes them, then the unrecognised fields
    of `fs` unchanged and in message order, then STOP -/
theorem reencode_known_then_unknown (S : Schema) (hS : S.ok = true) (sid : Nat) (vs : List Val)
    (fs : List (Nat × TVal)) (ht : hasTyFields S (S.get sid).fields vs = true) (hn : noHolderList vs = true) :
    refEnc S (.strct sid) (.st vs (unknownBytes (S.get sid) fs)) =
      ser (.strct (toWireFields S (S.get sid) (S.get sid).fields vs ++ unknownOnly (S.get sid) fs)) := by
  have hsd := sd_ok hS sid
  simp only [SDesc.ok, List.all_eq_true] at hsd
  have := refEncFields_eq_ser S hS vs (S.get sid) (S.get sid).fields (fun f hf => hsd f hf) ht hn
  simp [refEnc, ser, this, serFields_append, unknownBytes_eq_ser]
end Frugal
