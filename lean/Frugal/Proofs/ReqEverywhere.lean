/-
  ReqEverywhere.lean — C09 at every nesting level: when the reference reader accepts a message, every
  struct in it that is read into a destination (top level, fields, list / set elements, map keys and
  values, at any depth) carried every field its type declares required, with the declared wire type.
  Contrapositive: a struct lacking a required field anywhere on a known path makes the decode fail.
-/
import Frugal.Proofs.ViewsLemmas
import Frugal.Proofs.DecodeRefine
set_option linter.unusedSimpArgs false
set_option linter.unusedVariables false
namespace Frugal

/- every struct on a known path of `tv` (read at type `t`) has all its required fields -/
mutual
def reqOK (S : Schema) : Ty → TVal → Bool
  | .strct sid, .strct fs =>
      ((S.get sid).fields.all fun f => f.req != .required || (knownIds (S.get sid) fs).contains f.id) &&
      reqOKFields S (S.get sid) fs
  | .list _ e, .list _ xs => reqOKList S e.deref xs
  | .list _ e, .set _ xs => reqOKList S e.deref xs
  | .map k v, .map _ _ es => reqOKEntries S k.deref v.deref es
  | _, _ => true
def reqOKFields (S : Schema) (sd : SDesc) : List (Nat × TVal) → Bool
  | [] => true
  | (id, v) :: r =>
      (match lookupKnown sd id v.tag with
       | some (_, f) => reqOK S f.ty.deref v
       | none => true) && reqOKFields S sd r
def reqOKList (S : Schema) (e : Ty) : List TVal → Bool
  | [] => true
  | x :: r => reqOK S e x && reqOKList S e r
def reqOKEntries (S : Schema) (k v : Ty) : List (TVal × TVal) → Bool
  | [] => true
  | (a, b) :: r => reqOK S k a && reqOK S v b && reqOKEntries S k v r
end


theorem reqOK_of_tt (S : Schema) (t : Ty) (tv : TVal)
    (h : t.tt ≠ .strct ∧ t.tt ≠ .map ∧ t.tt ≠ .list ∧ t.tt ≠ .set) : reqOK S t.deref tv = true := by
  cases t with
  | base k => cases tv <;> simp [Ty.deref, reqOK]
  | ptr e =>
    cases e with
    | base k => cases tv <;> simp [Ty.deref, reqOK]
    | ptr e' => cases tv <;> simp [Ty.deref, reqOK]
    | strct s => simp [Ty.tt] at h
    | list s e' => cases s <;> simp [Ty.tt] at h
    | map k v => simp [Ty.tt] at h
  | strct s => simp [Ty.tt] at h
  | list s e' => cases s <;> simp [Ty.tt] at h
  | map k v => simp [Ty.tt] at h

theorem reqOK_of_fixed (S : Schema) (t : Ty) (tv : TVal) (h : specFixed t.tt > 0) : reqOK S t.deref tv = true := by
  apply reqOK_of_tt
  cases ht : t.tt <;> simp [ht, specFixed] at h ⊢

theorem readVal_struct_any (P : Params) (S : Schema) (total f sid : Nat) (F : List (Nat × TVal)) (tail : Nat)
    (dest : Val) :
    readVal P S total (f + 1) (.strct sid) (.strct F) tail dest =
      readStruct P S total f sid F tail (initDest S sid dest) := by
  cases dest with
  | st vs hh => exact readVal_struct P S total f sid F tail vs hh
  | _ => rw [readVal]; simp [Ty.tt, specFixed, initDest]

theorem readStruct_nonst (P : Params) (S : Schema) (total f sid : Nat) (F : List (Nat × TVal)) (tail : Nat)
    (d : Val) (hne : ∀ vs h, d ≠ .st vs h) : readStruct P S total (f + 1) sid F tail d = .err .other := by
  cases d <;> first | (exfalso; exact hne _ _ rfl) | (unfold readStruct; rfl)

section
variable (P : Params) (S : Schema) (total : Nat) (hS : S.ok = true)
include hS

mutual
theorem readVal_reqOK : ∀ (tv : TVal) (fuel : Nat) (t : Ty) (tail : Nat) (dest w : Val),
    readVal P S total fuel t tv tail dest = .ok w → reqOK S t tv = true
  | tv, 0, t, tail, dest, w, h => by simp [readVal] at h
  | tv, fuel + 1, t, tail, dest, w, h => by
    cases t with
    | base k => cases tv <;> simp [reqOK]
    | ptr e => cases tv <;> simp [reqOK]
    | map kt vt =>
      cases tv with
      | map a b es =>
        have hfx : ¬ specFixed (Ty.map kt vt).tt > 0 := by simp [Ty.tt, specFixed]
        rw [readVal] at h; simp only [hfx, ↓reduceIte] at h
        split at h
        · cases h
        · obtain ⟨es', h0, _⟩ := mapv_ok_inv _ _ _ h
          simp only [reqOK]
          exact readEntries_reqOK es fuel kt vt tail [] es' h0
      | _ => first | rfl | simp [reqOK]
    | list s et =>
      have hfx : ¬ specFixed (Ty.list s et).tt > 0 := by cases s <;> simp [Ty.tt, specFixed]
      cases tv with
      | list a xs =>
        rw [readVal] at h; simp only [hfx, ↓reduceIte] at h
        split at h
        · cases h
        · split at h
          · rename_i hz
            have : xs = [] := List.eq_nil_of_length_eq_zero hz
            subst this
            simp [reqOK, reqOKList]
          · obtain ⟨xs', h0, _⟩ := mapv_ok_inv _ _ _ h
            simp only [reqOK]
            exact readList_reqOK xs fuel et tail xs' h0
      | set a xs =>
        rw [readVal] at h; simp only [hfx, ↓reduceIte] at h
        split at h
        · cases h
        · split at h
          · rename_i hz
            have : xs = [] := List.eq_nil_of_length_eq_zero hz
            subst this
            simp [reqOK, reqOKList]
          · obtain ⟨xs', h0, _⟩ := mapv_ok_inv _ _ _ h
            simp only [reqOK]
            exact readList_reqOK xs fuel et tail xs' h0
      | _ => first | rfl | simp [reqOK]
    | strct sid =>
      cases tv with
      | strct fs =>
        rw [readVal_struct_any] at h
        cases fuel with
        | zero => simp [readStruct] at h
        | succ f =>
          cases hd : initDest S sid dest with
          | st vs hh =>
            rw [hd, readStruct] at h
            split at h
            · rename_i st hl
              split at h
              · cases h
              · rename_i hfm
                simp only [reqOK, Bool.and_eq_true, List.all_eq_true, Bool.or_eq_true, bne_iff_ne, ne_eq,
                  List.contains_eq_mem, decide_eq_true_eq]
                refine ⟨?_, readFields_reqOK fs f (S.get sid) (tail + 1) _ st (sd_ok hS sid) hl⟩
                intro g hg
                by_cases hr : g.req = .required
                · right
                  have := (firstMissing_none_iff (S.get sid).fields st.seen).1 hfm g hg hr
                  exact (seen_exact P S total f (S.get sid) fs (tail + 1) vs st hl g.id).1 this
                · left; exact hr
            · cases h
            · cases h
          | _ =>
            rw [hd, readStruct_nonst P S total f sid fs tail _ (by intro vs h' hh; cases hh)] at h
            cases h
      | _ => first | rfl | simp [reqOK]
theorem readFields_reqOK : ∀ (fs : List (Nat × TVal)) (fuel : Nat) (sd : SDesc) (tail : Nat) (st st' : LoopSt),
    sd.ok = true → readFields P S total fuel sd fs tail st = .ok st' → reqOKFields S sd fs = true
  | [], _, _, _, _, _, _, _ => rfl
  | (id, v) :: r, fuel, sd, tail, st, st', hsd, h => by
    rw [readFields] at h
    simp only [reqOKFields, Bool.and_eq_true]
    cases hk : lookupKnown sd id v.tag with
    | none =>
      simp only [hk] at h
      split at h
      · cases h
      · exact ⟨rfl, readFields_reqOK r fuel sd tail _ st' hsd h⟩
    | some p =>
      obtain ⟨ix, f⟩ := p
      simp only [hk] at h ⊢
      split at h
      · rename_i x hx
        refine ⟨?_, readFields_reqOK r fuel sd tail _ st' hsd h⟩
        rw [readField] at hx
        split at hx
        · rename_i hfx; exact reqOK_of_fixed S f.ty v hfx
        · split at hx
          · rename_i hnc
            -- a nocopy field is a string field: nothing to check below it
            have hfmem : f ∈ sd.fields := by
              unfold lookupKnown at hk
              split at hk
              · rename_i ix' f' hfind
                split at hk
                · simp only [Option.some.injEq, Prod.mk.injEq] at hk
                  obtain ⟨_, rfl⟩ := hk
                  exact findField_mem _ _ _ _ _ hfind
                · cases hk
              · cases hk
            simp only [SDesc.ok, List.all_eq_true] at hsd
            have hfo := hsd f hfmem
            simp only [Field.ok, Bool.and_eq_true, Bool.or_eq_true, Bool.not_eq_true', beq_iff_eq] at hfo
            have hstr : f.ty.tt = .string := by
              rcases hfo.1.2 with h' | h'
              · rw [hnc] at h'; cases h'
              · exact h'
            apply reqOK_of_tt
            simp [hstr]
          · obtain ⟨w0, h0, _⟩ := mapv_ok_inv _ _ _ hx
            exact readVal_reqOK v fuel f.ty.deref _ _ w0 h0
      · cases h
      · cases h
theorem readList_reqOK : ∀ (xs : List TVal) (fuel : Nat) (et : Ty) (tail : Nat) (vs : List Val),
    readList P S total fuel et xs tail = .ok vs → reqOKList S et.deref xs = true
  | [], _, _, _, _, _ => rfl
  | x :: r, fuel, et, tail, vs, h => by
    rw [readList] at h
    simp only [reqOKList, Bool.and_eq_true]
    split at h
    · rename_i w hw
      split at h
      · rename_i ws hws
        refine ⟨?_, readList_reqOK r fuel et tail ws hws⟩
        rw [readSlot] at hw
        split at hw
        · rename_i hfx; exact reqOK_of_fixed S et x hfx
        · obtain ⟨w0, h0, _⟩ := mapv_ok_inv _ _ _ hw
          exact readVal_reqOK x fuel et.deref _ _ w0 h0
      · cases h
      · cases h
    · cases h
    · cases h
theorem readEntries_reqOK : ∀ (es : List (TVal × TVal)) (fuel : Nat) (kt vt : Ty) (tail : Nat)
    (acc res : List (Val × Val)), readEntries P S total fuel kt vt es tail acc = .ok res →
    reqOKEntries S kt.deref vt.deref es = true
  | [], _, _, _, _, _, _, _ => rfl
  | (a, b) :: r, fuel, kt, vt, tail, acc, res, h => by
    rw [readEntries] at h
    simp only [reqOKEntries, Bool.and_eq_true]
    split at h
    · rename_i k hk
      split at h
      · rename_i v hv
        refine ⟨⟨?_, ?_⟩, readEntries_reqOK r fuel kt vt tail _ res h⟩
        · rw [readSlot] at hk
          split at hk
          · rename_i hfx; exact reqOK_of_fixed S kt a hfx
          · obtain ⟨w0, h0, _⟩ := mapv_ok_inv _ _ _ hk
            exact readVal_reqOK a fuel kt.deref _ _ w0 h0
        · rw [readSlot] at hv
          split at hv
          · rename_i hfx; exact reqOK_of_fixed S vt b hfx
          · obtain ⟨w0, h0, _⟩ := mapv_ok_inv _ _ _ hv
            exact readVal_reqOK b fuel vt.deref _ _ w0 h0
      · cases h
      · cases h
    · cases h
    · cases h
end

/-- top level -/
theorem readMessage_reqOK (sid : Nat) (fs : List (Nat × TVal)) (trailing : Nat) (dest w : Val)
    (h : readMessage P S sid fs trailing dest = .ok w) : reqOK S (.strct sid) (.strct fs) = true := by
  unfold readMessage at h
  cases hm : P.maxDepth with
  | zero => rw [hm] at h; simp [readStruct] at h
  | succ f =>
    rw [hm] at h
    cases dest with
    | st vs hh =>
      rw [readStruct] at h
      split at h
      · rename_i st hl
        split at h
        · cases h
        · rename_i hfm
          simp only [reqOK, Bool.and_eq_true, List.all_eq_true, Bool.or_eq_true, bne_iff_ne, ne_eq,
            List.contains_eq_mem, decide_eq_true_eq]
          refine ⟨?_, readFields_reqOK P S _ hS fs f (S.get sid) (trailing + 1) _ st (sd_ok hS sid) hl⟩
          intro g hg
          by_cases hr : g.req = .required
          · right
            have := (firstMissing_none_iff (S.get sid).fields st.seen).1 hfm g hg hr
            exact (seen_exact P S _ f (S.get sid) fs (trailing + 1) vs st hl g.id).1 this
          · left; exact hr
      · cases h
      · cases h
    | _ =>
      rw [readStruct_nonst P S _ f sid fs trailing _ (by intro vs h' hh; cases hh)] at h
      cases h

end
end Frugal
