/-
  TagsSpell.lean — equivalent spellings of one schema resolve identically (C12): thrift vs frugal
  carrier tag, padding spaces, redundant / omitted scalar annotations, byte vs i8,
  package-qualified struct names.
-/
import Frugal.Proofs.TagsSpec
set_option linter.unusedSimpArgs false
set_option linter.unusedVariables false
namespace Frugal

/-! ### strings.Split on commas -/

theorem splitComma_append (x : List Char) (hx : ∀ c ∈ x, c ≠ ',') : ∀ (acc rest : List Char),
    splitComma acc (x ++ rest) = splitComma (acc ++ x) rest := by
  induction x with
  | nil => intro acc rest; simp
  | cons c x ih =>
    intro acc rest
    have hc : (c == ',') = false := by simpa using hx c (by simp)
    simp only [List.cons_append, splitComma, hc, Bool.false_eq_true, ↓reduceIte]
    rw [ih (fun d hd => hx d (List.mem_cons_of_mem _ hd))]
    simp

/-- the thrift tag `name,rest…` yields the same components as the frugal tag `rest…` -/
theorem thrift_equiv_frugal (t1 t2 : String) (s1 s2 : String) (name : List Char)
    (h1 : tagLookup t1 "frugal" = some s1)
    (h2f : tagLookup t2 "frugal" = none) (h2 : tagLookup t2 "thrift" = some s2)
    (hs : s2.toList = name ++ ',' :: s1.toList) (hname : ∀ c ∈ name, c ≠ ',') :
    lookupStructTag t2 = lookupStructTag t1 := by
  simp only [lookupStructTag, h1, h2f, h2, hs]
  rw [splitComma_append name hname]
  simp [splitComma]

/-! ### strings.TrimSpace -/

theorem dropWhile_space_cons {c : Char} {s : List Char} (h : isGoSpace c = true) :
    (c :: s).dropWhile isGoSpace = s.dropWhile isGoSpace := by
  simp [List.dropWhile, h]

theorem trimSpace_cons {c : Char} {s : List Char} (h : isGoSpace c = true) :
    trimSpace (c :: s) = trimSpace s := by
  simp [trimSpace, dropWhile_space_cons h]

theorem dropWhile_snoc {c : Char} (h : isGoSpace c = true) : ∀ (s : List Char),
    (s ++ [c]).dropWhile isGoSpace =
      if s.dropWhile isGoSpace = [] then [] else s.dropWhile isGoSpace ++ [c]
  | [] => by simp [List.dropWhile, h]
  | d :: s => by
    cases hd : isGoSpace d with
    | true =>
      simp only [List.cons_append, List.dropWhile, hd]
      exact dropWhile_snoc h s
    | false => simp [List.dropWhile, hd]

theorem trimSpace_snoc {c : Char} {s : List Char} (h : isGoSpace c = true) :
    trimSpace (s ++ [c]) = trimSpace s := by
  unfold trimSpace
  rw [dropWhile_snoc h]
  split
  · rename_i he
    simp [he]
  · simp [List.dropWhile, h]

theorem trimSpace_pad (a s b : List Char) (ha : ∀ c ∈ a, isGoSpace c = true)
    (hb : ∀ c ∈ b, isGoSpace c = true) : trimSpace (a ++ s ++ b) = trimSpace s := by
  induction a with
  | cons c a ih =>
    simp only [List.cons_append]
    rw [trimSpace_cons (ha c (by simp))]
    exact ih (fun d hd => ha d (List.mem_cons_of_mem _ hd))
  | nil =>
    simp only [List.nil_append]
    induction b generalizing s with
    | nil => simp
    | cons c b ih =>
      have : s ++ c :: b = (s ++ [c]) ++ b := by simp
      rw [this, ih (s ++ [c]) (fun d hd => hb d (List.mem_cons_of_mem _ hd)),
        trimSpace_snoc (hb c (by simp))]

/-- spaces around any comma-separated component of a tag do not matter -/
theorem splitComma_pad : ∀ (comps : List (List Char × List Char × List Char)) (acc : List Char),
    (∀ p ∈ comps, (∀ c ∈ p.1, isGoSpace c = true) ∧ (∀ c ∈ p.2.2, isGoSpace c = true) ∧
      (∀ c ∈ p.1 ++ p.2.1 ++ p.2.2, c ≠ ',')) →
    ∀ (j1 j2 : List Char),
      j1 = (comps.map fun p => p.1 ++ p.2.1 ++ p.2.2).foldr (fun x r => x ++ ',' :: r) [] →
      j2 = (comps.map fun p => p.2.1).foldr (fun x r => x ++ ',' :: r) [] →
      (splitComma [] j1).map trimSpace = (splitComma [] j2).map trimSpace := by
  intro comps
  induction comps with
  | nil => intro _ _ j1 j2 h1 h2; subst h1; subst h2; rfl
  | cons p r ih =>
    intro _ h j1 j2 h1 h2
    subst h1; subst h2
    obtain ⟨ha, hb, hc⟩ := h p (by simp)
    have hc2 : ∀ c ∈ p.2.1, c ≠ ',' := fun c hcm => hc c (by simp [hcm])
    simp only [List.map_cons, List.foldr_cons]
    rw [splitComma_append _ hc, splitComma_append _ hc2]
    simp only [splitComma, beq_self_eq_true, ↓reduceIte, List.map_cons, List.nil_append]
    rw [trimSpace_pad _ _ _ ha hb]
    congr 1
    exact ih [] (fun q hq => h q (List.mem_cons_of_mem _ hq)) _ _ rfl rfl

/-! ### scalar annotations: omitted ≡ redundant keyword; byte ≡ i8 -/

/-- for every supported scalar kind, every keyword of its wire type spells the same schema as no
    annotation at all (named integer types excepted only for the enum rule, see `enum_rule`) -/
theorem scalar_annotation_redundant (k : GoKind) (nm : String) (allow : Bool) (tag : DTag)
    (hk : kindTag k = some tag) :
    (doParseType (.prim k nm) false [] allow).map (·.1) = some (baseOfTag tag) ∧
    ∀ kw ∈ ["bool", "i8", "byte", "double", "i16", "i32", "i64", "string"],
      isKeyword tag kw.toList = true →
      (doParseType (.prim k nm) true kw.toList allow).map (·.1) = some (baseOfTag tag) := by
  cases k <;> simp [kindTag] at hk <;> subst hk <;>
    simp [doParseType, kindTag, matchAnnot, readToken, isGoSpace, isIdent0, isIdent, isKeyword, keywordsOf,
      baseOfTag]

theorem byte_is_i8 (nm : String) (allow : Bool) :
    doParseType (.prim .int8 nm) true "byte".toList allow =
      doParseType (.prim .int8 nm) true "i8".toList allow := by
  simp [doParseType, kindTag, matchAnnot, readToken, isGoSpace, isIdent0, isIdent, isKeyword, keywordsOf,
    baseOfTag]

/-- int64 is an enum exactly when the annotation names the Go type instead of `i64` -/
theorem enum_rule (k : GoKind) (nm : String) (d : List Char) (allow : Bool) (t : Ty) (r : List Char)
    (h : doParseType (.prim k nm) true d allow = some (t, r)) :
    t = .base .enum ↔
      (kindTag k = some .i64 ∧ isPredeclared64 (.prim k nm) = false ∧
       ∃ tv rest, readToken d false = some (tv, rest) ∧ isKeyword .i64 tv = false) := by
  unfold doParseType at h
  cases hk : kindTag k with
  | none => simp [hk] at h
  | some tag =>
    simp only [hk, ↓reduceIte] at h
    split at h
    · cases h
    · rename_i r' isEnum hm
      simp only [Option.some.injEq, Prod.mk.injEq] at h
      obtain ⟨rfl, _⟩ := h
      unfold matchAnnot at hm
      split at hm
      · cases hm
      · rename_i tv rest htok
        split at hm
        · rename_i hinf
          simp only [Option.some.injEq, Prod.mk.injEq] at hm
          obtain ⟨_, rfl⟩ := hm
          simp only [Bool.false_eq_true, ↓reduceIte]
          constructor
          · intro hb; cases tag <;> simp [baseOfTag] at hb
          · rintro ⟨htag, _, tv', rest', htok', hni⟩
            rw [htok] at htok'
            simp only [Option.some.injEq, Prod.mk.injEq] at htok'
            obtain ⟨rfl, rfl⟩ := htok'
            simp only [Option.some.injEq] at htag
            subst htag
            rw [hinf] at hni
            cases hni
        · rename_i hinf
          split at hm
          · split at hm
            · cases hm
            · split at hm
              · cases hm
              · split at hm
                · cases hm
                · simp only [Option.some.injEq, Prod.mk.injEq] at hm
                  obtain ⟨_, rfl⟩ := hm
                  cases htag : (tag == DTag.i64) with
                  | false =>
                    simp only [Bool.false_and, Bool.false_eq_true, ↓reduceIte]
                    constructor
                    · intro hb; cases tag <;> simp [baseOfTag] at hb
                    · rintro ⟨h64, _⟩
                      simp only [Option.some.injEq] at h64
                      subst h64
                      simp at htag
                  | true =>
                    have : tag = .i64 := by simpa using htag
                    subst this
                    cases hv : isPredeclared64 (GoTy.prim k nm) with
                    | true =>
                      simp only [Bool.true_and, Bool.not_true, Bool.false_eq_true, ↓reduceIte, baseOfTag]
                      constructor
                      · intro hb; cases hb
                      · rintro ⟨_, hne, _⟩
                        cases hne
                    | false =>
                      simp only [Bool.true_and, Bool.not_false, ↓reduceIte, true_iff]
                      refine ⟨by simp, trivial, _, _, htok, ?_⟩
                      simpa [keywordOf] using hinf
          · cases hm

/-! ### tokens -/

/-- shape of an identifier that is followed by something that is not part of it -/
def identLike (s : List Char) : Prop :=
  ∃ c r, s = c :: r ∧ isIdent0 c = true ∧ ∀ d ∈ r, isIdent d = true

def stopsIdent (rest : List Char) : Prop := ∀ c r, rest = c :: r → isIdent c = false

theorem isIdent0_not_space {c : Char} (h : isIdent0 c = true) : isGoSpace c = false := by
  cases hs : isGoSpace c with
  | false => rfl
  | true =>
    exfalso
    simp only [isGoSpace, Bool.or_eq_true, beq_iff_eq, decide_eq_true_eq] at hs
    simp only [isIdent0, Bool.or_eq_true, beq_iff_eq] at h
    have hn : c.toNat = 32 ∨ c.toNat = 9 ∨ c.toNat = 10 ∨ c.toNat = 11 ∨ c.toNat = 12 ∨ c.toNat = 13 ∨
        c.toNat = 0x85 ∨ c.toNat = 0xA0 := by
      rcases hs with ((((((h | h) | h) | h) | h) | h) | h) | h
      all_goals first
        | (subst h; decide)
        | omega
    rcases h with h | h
    · subst h; revert hn; decide
    · simp only [Char.isAlpha, Char.isUpper, Char.isLower, Bool.or_eq_true, Bool.and_eq_true,
        decide_eq_true_eq] at h
      have e1 : c.val.toNat = c.toNat := rfl
      have : (65 ≤ c.toNat ∧ c.toNat ≤ 90) ∨ (97 ≤ c.toNat ∧ c.toNat ≤ 122) := by
        rcases h with ⟨a, b⟩ | ⟨a, b⟩
        · left; exact ⟨by simpa [e1] using UInt32.le_iff_toNat_le.1 a, by simpa [e1] using UInt32.le_iff_toNat_le.1 b⟩
        · right; exact ⟨by simpa [e1] using UInt32.le_iff_toNat_le.1 a, by simpa [e1] using UInt32.le_iff_toNat_le.1 b⟩
      omega

theorem takeWhile_ident (r rest : List Char) (hr : ∀ d ∈ r, isIdent d = true) (hs : stopsIdent rest) :
    (r ++ rest).takeWhile isIdent = r ∧ (r ++ rest).dropWhile isIdent = rest := by
  induction r with
  | nil =>
    cases rest with
    | nil => simp
    | cons c t => simp [List.takeWhile, List.dropWhile, hs c t rfl]
  | cons d r ih =>
    have := ih (fun x hx => hr x (List.mem_cons_of_mem _ hx))
    simp [List.takeWhile, List.dropWhile, hr d (by simp), this.1, this.2]

/-- an identifier followed by a non-identifier character is read as one token -/
theorem readToken_ident (s rest : List Char) (eofok : Bool) (hs : identLike s) (hr : stopsIdent rest) :
    readToken (s ++ rest) eofok = some (s, rest) := by
  obtain ⟨c, r, rfl, hc, hrest⟩ := hs
  unfold readToken
  have hsp := isIdent0_not_space hc
  simp only [List.cons_append, List.dropWhile, hsp, hc, ↓reduceIte]
  obtain ⟨h1, h2⟩ := takeWhile_ident r rest hrest hr
  rw [h1, h2]

/-- `pkg.Name` names the same struct as `Name` -/
theorem qualified_name_same (vt : GoTy) (pkg nm rest : List Char) (hp : identLike pkg) (hn : identLike nm)
    (hrest : stopsIdent rest) (hnodot : ∀ r, rest ≠ '.' :: r)
    (hkw1 : isKeyword .strct pkg = false) (hkw2 : isKeyword .strct nm = false)
    (hend : ∃ tok sp, readToken rest true = some (tok, sp) ∧ (tok = [] ∨ tok = [':'] ∨ tok = ['>'])) :
    matchAnnot vt .strct (pkg ++ '.' :: nm ++ rest) = matchAnnot vt .strct (nm ++ rest) := by
  obtain ⟨tok, sp, htok, htokshape⟩ := hend
  have hdot : stopsIdent ('.' :: (nm ++ rest)) := by
    intro c r h; cases h; decide
  have hp0 : ∃ c r, pkg = c :: r ∧ isIdent0 c = true := by
    obtain ⟨c, r, h, hc, _⟩ := hp; exact ⟨c, r, h, hc⟩
  have hn0 : ∃ c r, nm = c :: r ∧ isIdent0 c = true := by
    obtain ⟨c, r, h, hc, _⟩ := hn; exact ⟨c, r, h, hc⟩
  have e1 : readToken (pkg ++ '.' :: nm ++ rest) false = some (pkg, '.' :: (nm ++ rest)) := by
    have := readToken_ident pkg ('.' :: (nm ++ rest)) false hp hdot
    simpa using this
  have e2 : readToken (nm ++ rest) false = some (nm, rest) := readToken_ident nm rest false hn hrest
  have e3 : readToken ('.' :: (nm ++ rest)) true = some (['.'], nm ++ rest) := by
    simp [readToken, List.dropWhile, isGoSpace, isIdent0]
  unfold matchAnnot
  simp only [e1, e2, hkw1, hkw2, Bool.false_eq_true, ↓reduceIte]
  obtain ⟨c1, r1, rfl, hc1⟩ := hp0
  obtain ⟨c2, r2, rfl, hc2⟩ := hn0
  simp only [hc1, hc2, Bool.not_true, Bool.false_eq_true, ↓reduceIte]
  have d1 : doMatchStruct vt ('.' :: (c2 :: r2 ++ rest)) (c1 :: r1) =
      some (((vt.name == "" && vt.isStructKind) && !isTypeKeyword (c2 :: r2)) ||
        String.ofList (c2 :: r2) == vt.name, rest) := by
    unfold doMatchStruct
    simp only [e3, Bool.false_eq_true, ↓reduceIte, e2]
    simp [hc2]
  have d2 : doMatchStruct vt rest (c2 :: r2) =
      some (((vt.name == "" && vt.isStructKind) && !isTypeKeyword (c2 :: r2)) ||
        String.ofList (c2 :: r2) == vt.name, rest) := by
    unfold doMatchStruct
    simp only [htok, Bool.false_eq_true, ↓reduceIte]
    rcases htokshape with rfl | rfl | rfl <;> simp
  rw [d1, d2]


/-- an anonymous struct does not answer to the keyword of another type (D25): `i64`, `string`, `double`,
    `bool`, `list`, … as the whole annotation of a field (element, key, value) of anonymous struct type is a
    mistyped annotation, as it is for a named struct -/
theorem anon_struct_keyword_mistyped (sid : Nat) (kw rest : List Char) (hk : identLike kw)
    (hrest : stopsIdent rest) (hkw : isTypeKeyword kw = true) (hs : isKeyword .strct kw = false)
    (hend : ∃ tok sp, readToken rest true = some (tok, sp) ∧ (tok = [] ∨ tok = [':'] ∨ tok = ['>'])) :
    matchAnnot (.strct "" sid) .strct (kw ++ rest) = none := by
  obtain ⟨tok, sp, htok, htokshape⟩ := hend
  have e2 : readToken (kw ++ rest) false = some (kw, rest) := readToken_ident kw rest false hk hrest
  obtain ⟨c, r, rfl, hc, _⟩ := hk
  unfold matchAnnot
  simp only [e2, hs, Bool.false_eq_true, ↓reduceIte, hc, Bool.not_true]
  have d : doMatchStruct (.strct "" sid) rest (c :: r) = some (false, rest) := by
    unfold doMatchStruct
    simp only [htok, hkw]
    rcases htokshape with rfl | rfl | rfl <;> simp [GoTy.name, GoTy.isStructKind]
  rw [d]
  simp

end Frugal
