/-
  ReadNormH.lean — the round trip with retained unknown-field bytes at *every* nesting level (C01 / C11).
  `normH` is `norm` that also says what happens to holders: a struct value that carries retained bytes
  `h` (and whose type has the holder) comes back with exactly `h`; one that carries none keeps what the
  destination had.  The reader computes `normH` on the denotation `toWireH` (recognised fields followed by
  the fields the holder serialises), provided those fields are indeed unknown to the struct and are
  skippable (`unkOK`: what a decode leaves in a holder).
-/
import Frugal.Proofs.RoundTripHolder
set_option linter.unusedSimpArgs false
set_option linter.unusedVariables false
namespace Frugal

mutual
def normH (S : Schema) : Ty → Val → Val → Val
  | .base k, .sc n, _ => .sc (normScalar k n)
  | .base _, .str s, _ => .str s
  | .base _, .bin _ s, _ => .bin false s
  | .ptr e, .ptr v, _ => .ptr (normH S e v (zeroVal S S.length e))
  | .ptr (.strct sid), .nilp, _ => .ptr (initDest S sid (zeroVal S S.length (.strct sid)))
  | .list _ e, .lst _ xs, _ => .lst false (normListH S e xs)
  | .map k v, .mp _ es, _ => .mp false (normEntriesH S k v es [])
  | .strct sid, .st xs h, dest =>
      match initDest S sid dest with
      | .st ds h0 => .st (normFieldsH S (S.get sid) (S.get sid).fields xs ds)
                        (if (S.get sid).hasHolder && h.length > 0 then h else h0)
      | d => d
  | _, v, _ => v
def normListH (S : Schema) (e : Ty) : List Val → List Val
  | [] => []
  | x :: r => normH S e x (zeroVal S S.length e) :: normListH S e r
def normEntriesH (S : Schema) (k v : Ty) : List (Val × Val) → List (Val × Val) → List (Val × Val)
  | [], acc => acc
  | (a, b) :: r, acc =>
      normEntriesH S k v r
        (mapInsert k acc (normH S k a (zeroVal S S.length k)) (normH S v b (zeroVal S S.length v)))
def normFieldsH (S : Schema) (sd : SDesc) : List Field → List Val → List Val → List Val
  | f :: fr, x :: xr, d :: dr =>
      (if fieldWritten sd f x then normH S f.ty x d else d) :: normFieldsH S sd fr xr dr
  | _, _, ds => ds
end

/-- the fields a holder serialises are unknown to the struct and within the skipper's nesting limit -/
def unkFieldsOK (P : Params) (sd : SDesc) (us : List (Nat × TVal)) : Bool :=
  us.all fun p => (lookupKnown sd p.1 p.2.tag).isNone && decide (skipNeed p.2 ≤ P.skipDepth)

mutual
def unkOK (P : Params) (S : Schema) : Ty → Val → Bool
  | .ptr e, .ptr v => unkOK P S e v
  | .list _ e, .lst _ xs => unkOKList P S e xs
  | .map k v, .mp _ es => unkOKEntries P S k v es
  | .strct sid, .st xs h =>
      unkFieldsOK P (S.get sid) (holderFields h) && unkOKFields P S (S.get sid).fields xs
  | _, _ => true
def unkOKList (P : Params) (S : Schema) (e : Ty) : List Val → Bool
  | [] => true
  | x :: r => unkOK P S e x && unkOKList P S e r
def unkOKEntries (P : Params) (S : Schema) (k v : Ty) : List (Val × Val) → Bool
  | [] => true
  | (a, b) :: r => unkOK P S k a && unkOK P S v b && unkOKEntries P S k v r
def unkOKFields (P : Params) (S : Schema) : List Field → List Val → Bool
  | f :: fr, x :: xr => unkOK P S f.ty x && unkOKFields P S fr xr
  | _, _ => true
end

theorem depthFields_append : ∀ (a b : List (Nat × TVal)),
    depthFields (a ++ b) = max (depthFields a) (depthFields b)
  | [], b => by simp [depthFields]
  | (i, v) :: r, b => by simp [depthFields, depthFields_append r b, Nat.max_assoc]

theorem unkFieldsOK_spec (P : Params) (sd : SDesc) (us : List (Nat × TVal)) (h : unkFieldsOK P sd us = true) :
    ∀ p ∈ us, lookupKnown sd p.1 p.2.tag = none ∧ skipNeed p.2 ≤ P.skipDepth := by
  intro p hp
  simp only [unkFieldsOK, List.all_eq_true, Bool.and_eq_true, decide_eq_true_eq, Option.isNone_iff_eq_none] at h
  exact h p hp

section
variable (P : Params) (S : Schema) (total : Nat)

theorem toWireListH_length (e : Ty) : ∀ xs : List Val, (toWireListH S e xs).length = xs.length
  | [] => rfl
  | x :: r => by simp [toWireListH, toWireListH_length e r]

variable (hS : S.ok = true) (hside : S.rtSide)
include hS hside

mutual
theorem readSlot_normH : ∀ (v : Val) (t : Ty) (fuel tail : Nat) (slot : Val),
    t.ok = true → nilOK t v = true → hasTy S t v = true → rtOK S t v = true →
    holdersOK v = true → unkOK P S t v = true →
    (∀ sid, t = .strct sid → hasTy S t slot = true) →
    2 * depth (toWireH S t v) + 1 ≤ fuel →
    readSlot P S total fuel t (toWireH S t v) tail slot = .ok (normH S t v slot)
  | .sc n, t, fuel, tail, slot, hok, hnil, ht, hr, hho, hu, hslot, hd => by
    cases t with
    | base k =>
      cases k with
      | string => hasTy_absurd ht
      | binary => hasTy_absurd ht
      | bool =>
        have hn : n < 2 := by simpa [hasTy] using ht
        rw [readSlot]
        simp [toWireH, Ty.tt, Kind.tt, specFixed, scalarTVal, readFixed, Outcome.mapv, wrapPtr, Ty.isPtr,
          normH, normScalar, bool01 n hn]
      | _ =>
        rw [readSlot]
        simp [toWireH, Ty.tt, Kind.tt, specFixed, scalarTVal, readFixed, Outcome.mapv, wrapPtr, Ty.isPtr,
          normH, normScalar]
    | _ => hasTy_absurd ht
  | .str s, t, fuel, tail, slot, hok, hnil, ht, hr, hho, hu, hslot, hd => by
    obtain ⟨f, rfl⟩ : ∃ f, fuel = f + 1 := ⟨fuel - 1, by omega⟩
    cases t with
    | base k =>
      cases k with
      | string =>
        rw [readSlot_nonfixed P S total _ _ _ _ _ rfl rfl]
        simp only [toWireH]
        rw [readVal_string P S total f .string rfl]
        simp [normH]
      | _ => hasTy_absurd ht
    | _ => hasTy_absurd ht
  | .bin n s, t, fuel, tail, slot, hok, hnil, ht, hr, hho, hu, hslot, hd => by
    obtain ⟨f, rfl⟩ : ∃ f, fuel = f + 1 := ⟨fuel - 1, by omega⟩
    cases t with
    | base k =>
      cases k with
      | binary =>
        rw [readSlot_nonfixed P S total _ _ _ _ _ rfl rfl]
        simp only [toWireH]
        rw [readVal_string P S total f .binary rfl]
        simp [normH]
      | _ => hasTy_absurd ht
    | _ => hasTy_absurd ht
  | .nilp, t, fuel, tail, slot, hok, hnil, ht, hr, hho, hu, hslot, hd => by
    cases t with
    | ptr e =>
      cases e with
      | strct sid =>
        simp only [toWireH, depth, depthFields] at hd
        obtain ⟨f, rfl⟩ : ∃ f, fuel = f + 2 := ⟨fuel - 2, by omega⟩
        rw [readSlot_ptr P S total _ _ _ _ _ rfl, readSlot_nonfixed P S total _ _ _ _ _ rfl rfl]
        simp only [toWireH]
        have hz := hside.zeroOk sid
        obtain ⟨ds, h', hi, hty⟩ := initDest_typed S hside sid _ hz
        generalize hzz : zeroVal S S.length (.strct sid) = z at hz hi
        cases z with
        | st vs hh =>
          rw [readVal_struct]
          have hloop : readFields P S total f (S.get sid) [] (tail + 1) { fs := ds } =
              .ok { fs := ds, seen := [], unk := [] } := by rw [readFields]
          have hreq : ∀ g ∈ (S.get sid).fields, g.req = .required → g.id ∈ ([] : List Nat) := by
            intro g hg hreq
            simp only [rtOK, List.all_eq_true, bne_iff_ne, ne_eq] at hr
            exact absurd hreq (hr g hg)
          rw [readStruct_done P S total f sid tail _ ds h' [] ds [] hi hloop hreq]
          simp only [Outcome.mapv, normH, hzz, hi]
        | _ => hasTy_absurd hz
      | _ => simp [nilOK, Ty.isPtr, Ty.isStructPtr, isNilWord] at hnil
    | base k => cases k <;> hasTy_absurd ht
    | _ => hasTy_absurd ht
  | .ptr w, t, fuel, tail, slot, hok, hnil, ht, hr, hho, hu, hslot, hd => by
    cases t with
    | ptr e =>
      simp only [hasTy, Bool.and_eq_true, Bool.not_eq_true'] at ht
      have hoke : e.ok = true := by cases e <;> simp [Ty.ok] at hok ⊢
      have hnile : nilOK e w = true := by simp [nilOK, ht.1]
      simp only [rtOK] at hr
      simp only [toWireH] at hd ⊢
      rw [readSlot_ptr P S total _ _ _ _ _ ht.1]
      have hr' : rtOK S e w = true := by
        cases e <;> first | exact hr | (simp [Ty.isPtr] at ht)
      simp only [holdersOK] at hho
      simp only [unkOK] at hu
      rw [readSlot_normH w e fuel tail (zeroVal S S.length e) hoke hnile ht.2 hr' hho hu
        (fun sid _ => zeroVal_typed S hside e) hd]
      simp only [Outcome.mapv, normH]
    | base k => cases k <;> hasTy_absurd ht
    | _ => hasTy_absurd ht
  | .lst n xs, t, fuel, tail, slot, hok, hnil, ht, hr, hho, hu, hslot, hd => by
    cases t with
    | list s e =>
      simp only [hasTy, Bool.and_eq_true] at ht
      simp only [Ty.ok, Bool.and_eq_true] at hok
      simp only [rtOK] at hr
      simp only [holdersOK] at hho
      simp only [unkOK] at hu
      have hdl : 2 * depthList (toWireListH S e xs) + 3 ≤ fuel := by
        cases s <;> simp only [toWireH, depth, ↓reduceIte, Bool.false_eq_true] at hd <;> omega
      obtain ⟨f, rfl⟩ : ∃ f, fuel = f + 1 := ⟨fuel - 1, by omega⟩
      have hfx : specFixed (Ty.list s e).tt = 0 := by cases s <;> rfl
      rw [readSlot_nonfixed P S total _ _ _ _ _ rfl hfx]
      simp only [toWireH]
      rw [readVal_list]
      by_cases hl : (toWireListH S e xs).length = 0
      · have : xs = [] := by
          rw [toWireListH_length] at hl
          exact List.eq_nil_of_length_eq_zero hl
        subst this
        simp [toWireListH, normH, normListH]
      · simp only [hl, ↓reduceIte]
        rw [readList_normH xs e f tail hok.1 hok.2 ht.2 hr hho hu (by omega)]
        simp only [Outcome.mapv, normH]
    | base k => cases k <;> hasTy_absurd ht
    | _ => hasTy_absurd ht
  | .mp n es, t, fuel, tail, slot, hok, hnil, ht, hr, hho, hu, hslot, hd => by
    cases t with
    | map k v =>
      simp only [hasTy, Bool.and_eq_true] at ht
      simp only [Ty.ok, Bool.and_eq_true] at hok
      obtain ⟨⟨⟨hk, hv⟩, hvp⟩, hkk⟩ := hok
      have hkp : (!k.isPtr || k.isStructPtr) = true := by
        cases k with
        | ptr e => cases e <;> simp_all [Ty.isPtr, Ty.isStructPtr]
        | _ => simp [Ty.isPtr]
      simp only [rtOK] at hr
      simp only [holdersOK] at hho
      simp only [unkOK] at hu
      simp only [toWireH, depth] at hd
      obtain ⟨f, rfl⟩ : ∃ f, fuel = f + 1 := ⟨fuel - 1, by omega⟩
      rw [readSlot_nonfixed P S total _ _ _ _ _ rfl rfl]
      simp only [toWireH]
      rw [readVal_map]
      rw [readEntries_normH es k v [] f tail hk hv hkp hvp ht.2 hr hho hu (by omega)]
      simp only [Outcome.mapv, normH]
    | base k => cases k <;> hasTy_absurd ht
    | _ => hasTy_absurd ht
  | .st xs h, t, fuel, tail, slot, hok, hnil, ht, hr, hho, hu, hslot, hd => by
    cases t with
    | strct sid =>
      simp only [hasTy, Bool.and_eq_true] at ht
      simp only [rtOK] at hr
      simp only [holdersOK, Bool.and_eq_true, decide_eq_true_eq] at hho
      simp only [unkOK, Bool.and_eq_true] at hu
      simp only [toWireH, depth, depthFields_append] at hd
      obtain ⟨f, rfl⟩ : ∃ f, fuel = f + 2 := ⟨fuel - 2, by omega⟩
      rw [readSlot_nonfixed P S total _ _ _ _ _ rfl rfl]
      simp only [toWireH]
      have hz := hslot sid rfl
      obtain ⟨ds, h', hi, hty⟩ := initDest_typed S hside sid _ hz
      cases slot with
      | st vs hh =>
        rw [readVal_struct]
        have hsd := sd_ok hS sid
        simp only [SDesc.ok, List.all_eq_true] at hsd
        have hloopA := readFields_normH xs (S.get sid) (S.get sid).fields [] [] ds [] f
          ((serFields (holderFields h)).length + (tail + 1))
          rfl (hside.distinct sid) (fun g hg => ⟨hsd g hg, hside.noNocopy sid g hg⟩) rfl ht.2 hty hr
          hho.2 hu.2 (by omega)
        simp only [List.nil_append] at hloopA
        have hloop : readFields P S total f (S.get sid)
            (toWireFieldsH S (S.get sid) (S.get sid).fields xs ++ holderFields h) (tail + 1) { fs := ds } =
            .ok { fs := normFieldsH S (S.get sid) (S.get sid).fields xs ds,
                  seen := seenOf (S.get sid) (S.get sid).fields xs [],
                  unk := if (S.get sid).hasHolder then serFields (holderFields h) else [] } := by
          rw [readFields_append, hloopA]
          simp only
          rw [readFields_allUnknown P S total f (S.get sid) (holderFields h) (tail + 1) _
            (unkFieldsOK_spec P _ _ hu.1)]
          simp
        have hreq := seenOf_required S (S.get sid) (S.get sid).fields xs [] ht.2
        rw [hi, required_verdict P S total f sid _ tail ds h' _ hloop]
        have hfm0 := (firstMissing_none_iff (S.get sid).fields
          (seenOf (S.get sid) (S.get sid).fields xs [])).2 hreq
        simp only [hfm0, Outcome.mapv, normH, hi, hho.1]
        cases hh2 : (S.get sid).hasHolder with
        | true => simp
        | false => simp
      | _ => hasTy_absurd hz
    | base k => cases k <;> hasTy_absurd ht
    | _ => hasTy_absurd ht
  | .vstr _ _, t, _, _, _, _, _, ht, _, _, _, _, _ => by
    cases t with
    | base k => cases k <;> hasTy_absurd ht
    | _ => hasTy_absurd ht
  | .vbin _ _, t, _, _, _, _, _, ht, _, _, _, _, _ => by
    cases t with
    | base k => cases k <;> hasTy_absurd ht
    | _ => hasTy_absurd ht
theorem readList_normH : ∀ (xs : List Val) (e : Ty) (fuel tail : Nat),
    e.ok = true → (!e.isPtr || e.isStructPtr) = true → hasTyList S e xs = true → rtOKList S e xs = true →
    holdersOKList xs = true → unkOKList P S e xs = true →
    2 * depthList (toWireListH S e xs) + 1 ≤ fuel →
    readList P S total fuel e (toWireListH S e xs) tail = .ok (normListH S e xs)
  | [], e, fuel, tail, _, _, _, _, _, _, _ => by simp only [toWireListH, normListH]; rw [readList]
  | x :: r, e, fuel, tail, hok, hp, ht, hr, hho, hu, hd => by
    simp only [hasTyList, Bool.and_eq_true] at ht
    simp only [rtOKList, Bool.and_eq_true] at hr
    simp only [toWireListH, depthList] at hd
    simp only [toWireListH, normListH]
    rw [readList]
    simp only [holdersOKList, Bool.and_eq_true] at hho
    simp only [unkOKList, Bool.and_eq_true] at hu
    rw [readSlot_normH x e fuel _ _ hok (nilOK_of_elem hp x) ht.1 hr.1 hho.1 hu.1
      (fun sid _ => zeroVal_typed S hside e) (by omega)]
    simp only []
    rw [readList_normH r e fuel tail hok hp ht.2 hr.2 hho.2 hu.2 (by omega)]
theorem readEntries_normH : ∀ (es : List (Val × Val)) (k v : Ty) (acc : List (Val × Val)) (fuel tail : Nat),
    k.ok = true → v.ok = true → (!k.isPtr || k.isStructPtr) = true → (!v.isPtr || v.isStructPtr) = true →
    hasTyEntries S k v es = true → rtOKEntries S k v es = true →
    holdersOKEntries es = true → unkOKEntries P S k v es = true →
    2 * depthEntries (toWireEntriesH S k v es) + 1 ≤ fuel →
    readEntries P S total fuel k v (toWireEntriesH S k v es) tail acc = .ok (normEntriesH S k v es acc)
  | [], k, v, acc, fuel, tail, _, _, _, _, _, _, _, _, _ => by simp only [toWireEntriesH, normEntriesH]; rw [readEntries]
  | (a, b) :: r, k, v, acc, fuel, tail, hk, hv, hkp, hvp, ht, hr, hho, hu, hd => by
    simp only [hasTyEntries, Bool.and_eq_true] at ht
    simp only [rtOKEntries, Bool.and_eq_true] at hr
    simp only [toWireEntriesH, depthEntries] at hd
    simp only [toWireEntriesH, normEntriesH]
    rw [readEntries]
    simp only [holdersOKEntries, Bool.and_eq_true] at hho
    simp only [unkOKEntries, Bool.and_eq_true] at hu
    rw [readSlot_normH a k fuel _ _ hk (nilOK_of_elem hkp a) ht.1.1 hr.1.1 hho.1.1 hu.1.1
      (fun sid _ => zeroVal_typed S hside k) (by omega)]
    simp only []
    rw [readSlot_normH b v fuel _ _ hv (nilOK_of_elem hvp b) ht.1.2 hr.1.2 hho.1.2 hu.1.2
      (fun sid _ => zeroVal_typed S hside v) (by omega)]
    simp only []
    exact readEntries_normH r k v _ fuel tail hk hv hkp hvp ht.2 hr.2 hho.2 hu.2 (by omega)
theorem readFields_normH : ∀ (xs : List Val) (sd : SDesc) (fs pre : List Field) (done ds : List Val)
    (seen : List Nat) (fuel tail : Nat),
    sd.fields = pre ++ fs → sd.fields.Pairwise (fun a b => a.id ≠ b.id) →
    (∀ g ∈ fs, g.ok = true ∧ g.nocopy = false) → done.length = pre.length →
    hasTyFields S fs xs = true → hasTyFields S fs ds = true → rtOKFields S sd fs xs = true →
    holdersOKList xs = true → unkOKFields P S fs xs = true →
    2 * depthFields (toWireFieldsH S sd fs xs) + 1 ≤ fuel →
    readFields P S total fuel sd (toWireFieldsH S sd fs xs) tail { fs := done ++ ds, seen := seen, unk := [] } =
      .ok { fs := done ++ normFieldsH S sd fs xs ds, seen := seenOf sd fs xs seen, unk := [] }
  | [], sd, [], pre, done, ds, seen, fuel, tail, _, _, _, _, _, hds, _, _, _, _ => by
    cases ds with
    | nil => simp only [toWireFieldsH, normFieldsH, seenOf]; rw [readFields]
    | cons _ _ => simp [hasTyFields] at hds
  | [], _, _ :: _, _, _, _, _, _, _, _, _, _, _, ht, _, _, _, _, _ => by simp [hasTyFields] at ht
  | _ :: _, _, [], _, _, _, _, _, _, _, _, _, _, ht, _, _, _, _, _ => by simp [hasTyFields] at ht
  | x :: xr, sd, f :: fr, pre, done, ds, seen, fuel, tail, hsd, hpw, hok, hlen, ht, hds, hr, hho, hu, hd => by
    cases ds with
    | nil => simp [hasTyFields] at hds
    | cons d dr =>
      simp only [hasTyFields, Bool.and_eq_true] at ht hds
      simp only [holdersOKList, Bool.and_eq_true] at hho
      simp only [unkOKFields, Bool.and_eq_true] at hu
      simp only [rtOKFields, Bool.and_eq_true, Bool.or_eq_true, Bool.not_eq_true'] at hr
      have hfok := hok f (List.mem_cons_self ..)
      have hsd' : sd.fields = (pre ++ [f]) ++ fr := by simp [hsd]
      have hok' : ∀ g ∈ fr, g.ok = true ∧ g.nocopy = false := fun g hg => hok g (List.mem_cons_of_mem _ hg)
      by_cases hw : fieldWritten sd f x = true
      · have hty : f.ty.ok = true := by
          have := hfok.1; simp only [Field.ok, Bool.and_eq_true] at this; exact this.1.1.1
        have hnil := nilOK_of_written hfok.1 hw
        have hrx : rtOK S f.ty x = true := by
          rcases hr.1 with h | h
          · rw [hw] at h; cases h
          · exact h
        simp only [toWireFieldsH, hw, ↓reduceIte, depthFields] at hd ⊢
        simp only [normFieldsH, seenOf, hw, ↓reduceIte]
        rw [readFields]
        have htag := toWireH_tag S x f.ty hnil ht.1
        rw [htag, lookupKnown_at sd pre f fr hsd hpw]
        simp only []
        rw [getD_at done d dr pre.length hlen, readField_eq_readSlot P S total _ _ _ _ _ hfok.2]
        rw [readSlot_normH x f.ty fuel _ d hty hnil ht.1 hrx hho.1 hu.1 (fun sid _ => hds.1) (by omega)]
        simp only []
        rw [set_at done d _ dr pre.length hlen]
        have := readFields_normH xr sd fr (pre ++ [f]) (done ++ [normH S f.ty x d]) dr (f.id :: seen) fuel tail
          hsd' hpw hok' (by simp [hlen]) ht.2 hds.2 hr.2 hho.2 hu.2 (by omega)
        rw [this]
        simp
      · have hw' : fieldWritten sd f x = false := by simpa using hw
        simp only [toWireFieldsH, hw', Bool.false_eq_true, ↓reduceIte] at hd ⊢
        simp only [normFieldsH, seenOf, hw', Bool.false_eq_true, ↓reduceIte]
        have := readFields_normH xr sd fr (pre ++ [f]) (done ++ [d]) dr seen fuel tail
          hsd' hpw hok' (by simp [hlen]) ht.2 hds.2 hr.2 hho.2 hu.2 hd
        simp only [List.append_assoc, List.singleton_append] at this
        exact this
end

end

/- on values without retained bytes `normH` is `norm` -/
mutual
theorem normH_of_noHolder (S : Schema) : ∀ (v : Val) (ty : Ty) (d : Val), noHolder v = true →
    normH S ty v d = norm S ty v d
  | .sc n, ty, d, _ => by cases ty <;> simp [normH, norm]
  | .str s, ty, d, _ => by cases ty <;> simp [normH, norm]
  | .bin n s, ty, d, _ => by cases ty <;> simp [normH, norm]
  | .vstr _ _, ty, d, _ => by cases ty <;> simp [normH, norm]
  | .vbin _ _, ty, d, _ => by cases ty <;> simp [normH, norm]
  | .nilp, ty, d, _ => by
    cases ty with
    | ptr e => cases e <;> simp [normH, norm]
    | _ => simp [normH, norm]
  | .ptr v, ty, d, hn => by
    simp only [noHolder] at hn
    cases ty with
    | ptr e => simp only [normH, norm]; rw [normH_of_noHolder S v e _ hn]
    | _ => simp [normH, norm]
  | .lst n xs, ty, d, hn => by
    simp only [noHolder] at hn
    cases ty with
    | list s e => simp only [normH, norm, normListH_of_noHolder S xs e hn]
    | _ => simp [normH, norm]
  | .mp n es, ty, d, hn => by
    simp only [noHolder] at hn
    cases ty with
    | map k v => simp only [normH, norm, normEntriesH_of_noHolder S es k v [] hn]
    | _ => simp [normH, norm]
  | .st fs h, ty, d, hn => by
    simp only [noHolder, Bool.and_eq_true, List.isEmpty_iff] at hn
    cases ty with
    | strct sid =>
      simp only [normH, norm, hn.1]
      cases initDest S sid d with
      | st ds h0 => simp [normFieldsH_of_noHolder S fs (S.get sid) (S.get sid).fields ds hn.2]
      | _ => rfl
    | _ => simp [normH, norm]
theorem normListH_of_noHolder (S : Schema) : ∀ (xs : List Val) (e : Ty), noHolderList xs = true →
    normListH S e xs = normList S e xs
  | [], _, _ => rfl
  | x :: r, e, hn => by
    simp only [noHolderList, Bool.and_eq_true] at hn
    simp only [normListH, normList, normH_of_noHolder S x e _ hn.1, normListH_of_noHolder S r e hn.2]
theorem normEntriesH_of_noHolder (S : Schema) : ∀ (es : List (Val × Val)) (k v : Ty) (acc : List (Val × Val)),
    noHolderEntries es = true → normEntriesH S k v es acc = normEntries S k v es acc
  | [], _, _, _, _ => rfl
  | (a, b) :: r, k, v, acc, hn => by
    simp only [noHolderEntries, Bool.and_eq_true] at hn
    simp only [normEntriesH, normEntries, normH_of_noHolder S a k _ hn.1.1,
      normH_of_noHolder S b v _ hn.1.2, normEntriesH_of_noHolder S r k v _ hn.2]
theorem normFieldsH_of_noHolder (S : Schema) : ∀ (xs : List Val) (sd : SDesc) (fs : List Field) (ds : List Val),
    noHolderList xs = true → normFieldsH S sd fs xs ds = normFields S sd fs xs ds
  | [], _, [], _, _ => by simp [normFieldsH, normFields]
  | [], _, _ :: _, _, _ => by simp [normFieldsH, normFields]
  | _ :: _, _, [], _, _ => by simp [normFieldsH, normFields]
  | x :: xr, sd, f :: fr, [], _ => by simp [normFieldsH, normFields]
  | x :: xr, sd, f :: fr, d :: dr, hn => by
    simp only [noHolderList, Bool.and_eq_true] at hn
    simp only [normFieldsH, normFields, normH_of_noHolder S x f.ty d hn.1,
      normFieldsH_of_noHolder S xr sd fr dr hn.2]
end

/-- normal form at the top level (`DecodeObject` does not re-initialise its destination), holders kept -/
def normTopH (S : Schema) (sid : Nat) : Val → Val → Val
  | .st xs h, .st ds h' =>
      .st (normFieldsH S (S.get sid) (S.get sid).fields xs ds)
        (if (S.get sid).hasHolder && h.length > 0 then h else h')
  | _, d => d

/-- C01 / C11 with retained unknown-field bytes at every nesting level -/
theorem roundtrip_holders {P : Params} (hP : P.valid = true) (S : Schema) (hS : S.ok = true)
    (hside : S.rtSide) (sid : Nat) (xs ds : List Val) (h h' : Bytes)
    (ht : hasTy S (.strct sid) (.st xs h) = true) (hdest : hasTy S (.strct sid) (.st ds h') = true)
    (hfit : fitH (.st xs h) = true) (hu : unkOK P S (.strct sid) (.st xs h) = true)
    (hr : rtOK S (.strct sid) (.st xs h) = true)
    (hd : 2 * depth (toWireH S (.strct sid) (.st xs h)) ≤ P.maxDepth) :
    decodeM P S sid (appendM P S sid (.st xs h)) (.st ds h') =
      .ok (normTopH S sid (.st xs h) (.st ds h'), (appendM P S sid (.st xs h)).length) := by
  have ht' := ht
  have hho := fitH_holdersOK _ hfit
  simp only [hasTy, Bool.and_eq_true] at ht hdest
  have e1 : appendM P S sid (.st xs h) = refEnc S (.strct sid) (.st xs h) :=
    appendAny_eq hP S hS _ (.strct sid) rfl ht'
  have e2 := refEnc_eq_serH S hS (.st xs h) (.strct sid) rfl rfl ht' hho
  have hwf := toWireH_wf S hS (.st xs h) (.strct sid) rfl rfl ht' hfit
  simp only [toWireH] at e2 hwf hd
  simp only [wf] at hwf
  rw [e1, e2]
  have hdec := decodeM_refines hP S hS sid _ [] (.st ds h') hwf
  simp only [List.append_nil, List.length_nil] at hdec
  rw [hdec]
  unfold readMessage
  simp only [rtOK] at hr
  simp only [holdersOK, Bool.and_eq_true, decide_eq_true_eq] at hho
  simp only [unkOK, Bool.and_eq_true] at hu
  simp only [depth, depthFields_append] at hd
  obtain ⟨f, hfm⟩ : ∃ f, P.maxDepth = f + 1 := ⟨P.maxDepth - 1, by omega⟩
  rw [hfm]
  generalize (ser (.strct (toWireFieldsH S (S.get sid) (S.get sid).fields xs ++ holderFields h))).length + 0 = total
  have hsd := sd_ok hS sid
  simp only [SDesc.ok, List.all_eq_true] at hsd
  have hloopA := readFields_normH P S total hS hside xs (S.get sid) (S.get sid).fields [] [] ds [] f
    ((serFields (holderFields h)).length + (0 + 1)) rfl (hside.distinct sid)
    (fun g hg => ⟨hsd g hg, hside.noNocopy sid g hg⟩) rfl ht.2 hdest.2 hr hho.2 hu.2 (by omega)
  simp only [List.nil_append] at hloopA
  have hloop : readFields P S total f (S.get sid)
      (toWireFieldsH S (S.get sid) (S.get sid).fields xs ++ holderFields h) (0 + 1) { fs := ds } =
      .ok { fs := normFieldsH S (S.get sid) (S.get sid).fields xs ds,
            seen := seenOf (S.get sid) (S.get sid).fields xs [],
            unk := if (S.get sid).hasHolder then serFields (holderFields h) else [] } := by
    rw [readFields_append, hloopA]
    simp only
    rw [readFields_allUnknown P S total f (S.get sid) (holderFields h) (0 + 1) _
      (unkFieldsOK_spec P _ _ hu.1)]
    simp
  have hreq := seenOf_required S (S.get sid) (S.get sid).fields xs [] ht.2
  rw [required_verdict P S total f sid _ 0 ds h' _ hloop]
  have hfm0 := (firstMissing_none_iff (S.get sid).fields
    (seenOf (S.get sid) (S.get sid).fields xs [])).2 hreq
  simp only [hfm0, Outcome.mapv, normTopH, hho.1]
  congr 2
  cases hh2 : (S.get sid).hasHolder with
  | true => simp
  | false => simp

end Frugal
