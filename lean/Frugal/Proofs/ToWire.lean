/-
  ToWire.lean — the reference encoder writes the serialisation of the value's denotation
  (`refEnc = ser ∘ toWire`), that denotation is a well-formed Thrift value carrying the declared
  wire type at every position (C02: "well-formed, denotes exactly the value under the schema").
  Holder bytes are opaque to the denotation; the statements are for values without retained
  unknown fields (`noHolder`), the holder splice is C11's `holder_reemitted`.
-/
import Frugal.Proofs.EncodeRefine
import Frugal.Proofs.WireRT
set_option linter.unusedSimpArgs false
namespace Frugal

mutual
def noHolder : Val → Bool
  | .st fs h => h.isEmpty && noHolderList fs
  | .ptr v => noHolder v
  | .lst _ xs => noHolderList xs
  | .mp _ es => noHolderEntries es
  | _ => true
def noHolderList : List Val → Bool
  | [] => true
  | x :: r => noHolder x && noHolderList r
def noHolderEntries : List (Val × Val) → Bool
  | [] => true
  | (a, b) :: r => noHolder a && noHolder b && noHolderEntries r
end

/- every string / container length fits a positive int32 (the wire format's limit) -/
mutual
def sizesFit : Val → Bool
  | .str s => s.length < 2147483648
  | .bin _ s => s.length < 2147483648
  | .ptr v => sizesFit v
  | .lst _ xs => xs.length < 2147483648 && sizesFitList xs
  | .mp _ es => es.length < 2147483648 && sizesFitEntries es
  | .st fs _ => sizesFitList fs
  | _ => true
def sizesFitList : List Val → Bool
  | [] => true
  | x :: r => sizesFit x && sizesFitList r
def sizesFitEntries : List (Val × Val) → Bool
  | [] => true
  | (a, b) :: r => sizesFit a && sizesFit b && sizesFitEntries r
end

/-- `be32` only looks at the low 32 bits -/
theorem be32_mod (n : Nat) : be32 (n % 4294967296) = be32 n := by
  have h1 : n % 4294967296 / 16777216 % 256 = n / 16777216 % 256 := by omega
  have h2 : n % 4294967296 / 65536 % 256 = n / 65536 % 256 := by omega
  have h3 : n % 4294967296 / 256 % 256 = n / 256 % 256 := by omega
  have h4 : n % 4294967296 % 256 = n % 256 := by omega
  simp only [be32, u8, h1, h2, h3, h4]

/-- a nil pointer is only ever encoded when it is a pointer to a struct (empty struct) -/
def nilOK (ty : Ty) (v : Val) : Bool := !(ty.isPtr && !ty.isStructPtr && isNilWord v)

theorem scalarTVal_ser (k : Kind) (n : Nat) (hk : k ≠ .string) (hb : k ≠ .binary) :
    ser (scalarTVal k n) = encScalar k n := by
  cases k <;> simp [scalarTVal, encScalar, ser] at *
  exact be32_mod n

theorem scalarTVal_tag (k : Kind) (n : Nat) (hk : k ≠ .string) (hb : k ≠ .binary) :
    (scalarTVal k n).tag = (Ty.base k).wire := by
  cases k <;> simp [scalarTVal, TVal.tag, Ty.wire, Ty.tt, Kind.tt, TT.wire] at *

theorem nilOK_of_elem {e : Ty} (h : (!e.isPtr || e.isStructPtr) = true) (x : Val) : nilOK e x = true := by
  unfold nilOK
  cases hp : e.isPtr <;> cases hs : e.isStructPtr <;> simp [hp, hs] at h ⊢

theorem nilOK_of_written {sd : SDesc} {f : Field} {x : Val} (hf : f.ok = true)
    (hw : fieldWritten sd f x = true) : nilOK f.ty x = true := by
  simp only [Field.ok, Bool.and_eq_true, Bool.or_eq_true, Bool.not_eq_true', beq_iff_eq] at hf
  unfold nilOK
  cases hp : f.ty.isPtr <;> cases hs : f.ty.isStructPtr <;> cases hn : isNilWord x <;> simp
  -- pointer to a non-struct, nil: the field must be optional, hence it is skipped
  have hopt : f.req = .optional := by
    rcases hf.1.1.2 with (h | h) | h
    · rw [hp] at h; cases h
    · rw [hs] at h; cases h
    · exact h
  simp [fieldWritten, hopt, hp, hn] at hw

theorem sd_ok {S : Schema} (hS : S.ok = true) (sid : Nat) : (S.get sid).ok = true := by
  simp only [Schema.ok, List.all_eq_true] at hS
  simp only [Schema.get, List.getD_eq_getElem?_getD]
  cases hg : S[sid]? with
  | none => simp [SDesc.ok]
  | some sd => simpa using hS sd (List.mem_of_getElem? hg)

/-- the denotation carries the declared wire type -/
theorem toWire_tag (S : Schema) (v : Val) (ty : Ty) (hn : nilOK ty v = true) (ht : hasTy S ty v = true) :
    (toWire S ty v).tag = ty.wire := by
  cases v with
  | sc n =>
    cases ty with
    | base k =>
      cases k with
      | string => hasTy_absurd ht
      | binary => hasTy_absurd ht
      | _ => simp only [toWire]; rw [scalarTVal_tag] <;> simp
    | _ => hasTy_absurd ht
  | str s =>
    cases ty with
    | base k => cases k <;> first | (hasTy_absurd ht; done) | rfl
    | _ => hasTy_absurd ht
  | bin n s =>
    cases ty with
    | base k => cases k <;> first | (hasTy_absurd ht; done) | rfl
    | _ => hasTy_absurd ht
  | nilp =>
    cases ty with
    | ptr e =>
      cases e with
      | strct sid => rfl
      | _ => simp [nilOK, Ty.isPtr, Ty.isStructPtr, isNilWord] at hn
    | base k => cases k <;> hasTy_absurd ht
    | _ => hasTy_absurd ht
  | ptr v =>
    cases ty with
    | ptr e =>
      simp only [hasTy, Bool.and_eq_true, Bool.not_eq_true'] at ht
      -- e is not a pointer: the denotation of the pointee has e's wire type
      cases v with
      | sc n =>
        cases e with
        | base k =>
          cases k with
          | string => have := ht.2; hasTy_absurd this
          | binary => have := ht.2; hasTy_absurd this
          | _ => simp only [toWire]; rw [scalarTVal_tag] <;> first | rfl | simp
        | _ => have := ht.2; hasTy_absurd this
      | str s =>
        cases e with
        | base k => cases k <;> first | (have := ht.2; hasTy_absurd this; done) | rfl
        | _ => have := ht.2; hasTy_absurd this
      | bin n s =>
        cases e with
        | base k => cases k <;> first | (have := ht.2; hasTy_absurd this; done) | rfl
        | _ => have := ht.2; hasTy_absurd this
      | st fs h =>
        cases e with
        | strct sid => rfl
        | base k => cases k <;> (have := ht.2; hasTy_absurd this)
        | _ => have := ht.2; hasTy_absurd this
      | lst n xs =>
        cases e with
        | list s e' => cases s <;> rfl
        | base k => cases k <;> (have := ht.2; hasTy_absurd this)
        | _ => have := ht.2; hasTy_absurd this
      | mp n es =>
        cases e with
        | map k v => rfl
        | base k => cases k <;> (have := ht.2; hasTy_absurd this)
        | _ => have := ht.2; hasTy_absurd this
      | nilp =>
        cases e with
        | ptr e' => simp [Ty.isPtr] at ht
        | base k => cases k <;> (have := ht.2; hasTy_absurd this)
        | _ => have := ht.2; hasTy_absurd this
      | ptr v' =>
        cases e with
        | ptr e' => simp [Ty.isPtr] at ht
        | base k => cases k <;> (have := ht.2; hasTy_absurd this)
        | _ => have := ht.2; hasTy_absurd this
      | vstr _ _ =>
        cases e with
        | base k => cases k <;> (have := ht.2; hasTy_absurd this)
        | _ => have := ht.2; hasTy_absurd this
      | vbin _ _ =>
        cases e with
        | base k => cases k <;> (have := ht.2; hasTy_absurd this)
        | _ => have := ht.2; hasTy_absurd this
    | base k => cases k <;> hasTy_absurd ht
    | _ => hasTy_absurd ht
  | lst n xs =>
    cases ty with
    | list s e => cases s <;> rfl
    | base k => cases k <;> hasTy_absurd ht
    | _ => hasTy_absurd ht
  | mp n es =>
    cases ty with
    | map k v => rfl
    | base k => cases k <;> hasTy_absurd ht
    | _ => hasTy_absurd ht
  | st fs h =>
    cases ty with
    | strct sid => rfl
    | base k => cases k <;> hasTy_absurd ht
    | _ => hasTy_absurd ht
  | vstr _ _ =>
    cases ty with
    | base k => cases k <;> hasTy_absurd ht
    | _ => hasTy_absurd ht
  | vbin _ _ =>
    cases ty with
    | base k => cases k <;> hasTy_absurd ht
    | _ => hasTy_absurd ht

mutual
theorem refEnc_eq_ser (S : Schema) (hS : S.ok = true) : ∀ (v : Val) (ty : Ty), ty.ok = true → nilOK ty v = true →
    hasTy S ty v = true → noHolder v = true → refEnc S ty v = ser (toWire S ty v)
  | .sc n, ty, _, _, ht, _ => by
    cases ty with
    | base k =>
      cases k with
      | string => hasTy_absurd ht
      | binary => hasTy_absurd ht
      | _ => simp only [refEnc, toWire]; rw [scalarTVal_ser] <;> simp
    | _ => hasTy_absurd ht
  | .str s, ty, _, _, ht, _ => by
    cases ty with
    | base k => cases k <;> first | (hasTy_absurd ht; done) | simp [refEnc, toWire, ser, encStr]
    | _ => hasTy_absurd ht
  | .bin n s, ty, _, _, ht, _ => by
    cases ty with
    | base k => cases k <;> first | (hasTy_absurd ht; done) | simp [refEnc, toWire, ser, encStr]
    | _ => hasTy_absurd ht
  | .nilp, ty, _, hnil, ht, _ => by
    cases ty with
    | ptr e =>
      cases e with
      | strct sid => simp [refEnc, toWire, ser, serFields]
      | _ => simp [nilOK, Ty.isPtr, Ty.isStructPtr, isNilWord] at hnil
    | base k => cases k <;> hasTy_absurd ht
    | _ => hasTy_absurd ht
  | .ptr v, ty, hok, _, ht, hn => by
    cases ty with
    | ptr e =>
      simp only [hasTy, Bool.and_eq_true, Bool.not_eq_true'] at ht
      simp only [noHolder] at hn
      have hoke : e.ok = true := by cases e <;> simp [Ty.ok] at hok ⊢
      have hnil : nilOK e v = true := by simp [nilOK, ht.1]
      simp only [refEnc, toWire]
      exact refEnc_eq_ser S hS v e hoke hnil ht.2 hn
    | base k => cases k <;> hasTy_absurd ht
    | _ => hasTy_absurd ht
  | .lst n xs, ty, hok, _, ht, hn => by
    cases ty with
    | list s e =>
      simp only [hasTy, Bool.and_eq_true] at ht
      simp only [noHolder] at hn
      simp only [Ty.ok, Bool.and_eq_true] at hok
      have := refEncList_eq_ser S hS xs e hok.1 hok.2 ht.2 hn
      cases s <;> simp [refEnc, toWire, ser, this.1, this.2]
    | base k => cases k <;> hasTy_absurd ht
    | _ => hasTy_absurd ht
  | .mp n es, ty, hok, _, ht, hn => by
    cases ty with
    | map k v =>
      simp only [hasTy, Bool.and_eq_true] at ht
      simp only [noHolder] at hn
      simp only [Ty.ok, Bool.and_eq_true] at hok
      obtain ⟨⟨⟨hk, hv⟩, hvp⟩, hkk⟩ := hok
      have hkp : (!k.isPtr || k.isStructPtr) = true := by
        cases k with
        | ptr e => cases e <;> simp_all [Ty.isPtr, Ty.isStructPtr]
        | _ => simp [Ty.isPtr]
      have := refEncEntries_eq_ser S hS es k v hk hv hkp hvp ht.2 hn
      simp [refEnc, toWire, ser, this.1, this.2]
    | base k => cases k <;> hasTy_absurd ht
    | _ => hasTy_absurd ht
  | .st fs h, ty, _, _, ht, hn => by
    cases ty with
    | strct sid =>
      simp only [hasTy, Bool.and_eq_true] at ht
      simp only [noHolder, Bool.and_eq_true, List.isEmpty_iff] at hn
      have hsd := sd_ok hS sid
      simp only [SDesc.ok, List.all_eq_true] at hsd
      have := refEncFields_eq_ser S hS fs (S.get sid) (S.get sid).fields (fun f hf => hsd f hf) ht.2 hn.2
      simp [refEnc, toWire, ser, this, hn.1]
    | base k => cases k <;> hasTy_absurd ht
    | _ => hasTy_absurd ht
  | .vstr _ _, ty, _, _, ht, _ => by
    cases ty with
    | base k => cases k <;> hasTy_absurd ht
    | _ => hasTy_absurd ht
  | .vbin _ _, ty, _, _, ht, _ => by
    cases ty with
    | base k => cases k <;> hasTy_absurd ht
    | _ => hasTy_absurd ht
theorem refEncList_eq_ser (S : Schema) (hS : S.ok = true) : ∀ (xs : List Val) (e : Ty), e.ok = true →
    (!e.isPtr || e.isStructPtr) = true → hasTyList S e xs = true → noHolderList xs = true →
    refEncList S e xs = serList (toWireList S e xs) ∧ (toWireList S e xs).length = xs.length
  | [], _, _, _, _, _ => by simp [refEncList, toWireList, serList]
  | x :: r, e, hok, hp, ht, hn => by
    simp only [hasTyList, Bool.and_eq_true] at ht
    simp only [noHolderList, Bool.and_eq_true] at hn
    have ih := refEncList_eq_ser S hS r e hok hp ht.2 hn.2
    simp [refEncList, toWireList, serList, refEnc_eq_ser S hS x e hok (nilOK_of_elem hp x) ht.1 hn.1, ih.1, ih.2]
theorem refEncEntries_eq_ser (S : Schema) (hS : S.ok = true) : ∀ (es : List (Val × Val)) (k v : Ty),
    k.ok = true → v.ok = true → (!k.isPtr || k.isStructPtr) = true → (!v.isPtr || v.isStructPtr) = true →
    hasTyEntries S k v es = true → noHolderEntries es = true →
    refEncEntries S k v es = serEntries (toWireEntries S k v es) ∧ (toWireEntries S k v es).length = es.length
  | [], _, _, _, _, _, _, _, _ => by simp [refEncEntries, toWireEntries, serEntries]
  | (a, b) :: r, k, v, hk, hv, hkp, hvp, ht, hn => by
    simp only [hasTyEntries, Bool.and_eq_true] at ht
    simp only [noHolderEntries, Bool.and_eq_true] at hn
    have ih := refEncEntries_eq_ser S hS r k v hk hv hkp hvp ht.2 hn.2
    simp [refEncEntries, toWireEntries, serEntries,
      refEnc_eq_ser S hS a k hk (nilOK_of_elem hkp a) ht.1.1 hn.1.1,
      refEnc_eq_ser S hS b v hv (nilOK_of_elem hvp b) ht.1.2 hn.1.2, ih.1, ih.2]
theorem refEncFields_eq_ser (S : Schema) (hS : S.ok = true) : ∀ (xs : List Val) (sd : SDesc) (fs : List Field),
    (∀ f ∈ fs, f.ok = true) → hasTyFields S fs xs = true → noHolderList xs = true →
    refEncFields S sd fs xs = serFields (toWireFields S sd fs xs)
  | [], _, [], _, _, _ => by simp [refEncFields, toWireFields, serFields]
  | [], _, _ :: _, _, ht, _ => by simp [hasTyFields] at ht
  | _ :: _, _, [], _, ht, _ => by simp [hasTyFields] at ht
  | x :: xr, sd, f :: fr, hok, ht, hn => by
    simp only [hasTyFields, Bool.and_eq_true] at ht
    simp only [noHolderList, Bool.and_eq_true] at hn
    have ih := refEncFields_eq_ser S hS xr sd fr (fun g hg => hok g (List.mem_cons_of_mem _ hg)) ht.2 hn.2
    have hfok := hok f (List.mem_cons_self ..)
    have hty : f.ty.ok = true := by simp only [Field.ok, Bool.and_eq_true] at hfok; exact hfok.1.1.1
    by_cases hw : fieldWritten sd f x = true
    · have hnil := nilOK_of_written hfok hw
      have hx := refEnc_eq_ser S hS x f.ty hty hnil ht.1 hn.1
      have htag := toWire_tag S x f.ty hnil ht.1
      simp [refEncFields, toWireFields, serFields, hw, ih, hx, htag]
    · have : fieldWritten sd f x = false := by simpa using hw
      simp [refEncFields, toWireFields, serFields, this, ih]
end

end Frugal

namespace Frugal

theorem isCode_wire' (t : Ty) : isCode t.wire = true := by
  unfold Ty.wire
  cases t.tt <;> rfl

theorem isCode_wire (t : Ty) : codeOK t.wire = true := isCode_codeOK (isCode_wire' t)

theorem scalarTVal_wf (k : Kind) (n : Nat) (hk : k ≠ .string) (hb : k ≠ .binary) (h : hasTy S (.base k) (.sc n) = true) :
    wf (scalarTVal k n) = true := by
  cases k <;> (unfold hasTy at h; simp [Kind.bits] at h) <;> (try have h := of_decide_eq_true h) <;>
    simp [scalarTVal, wf] <;> omega

mutual
theorem toWire_wf (S : Schema) (hS : S.ok = true) : ∀ (v : Val) (ty : Ty), ty.ok = true → nilOK ty v = true →
    hasTy S ty v = true → sizesFit v = true → wf (toWire S ty v) = true
  | .sc n, ty, _, _, ht, _ => by
    cases ty with
    | base k =>
      cases k with
      | string => hasTy_absurd ht
      | binary => hasTy_absurd ht
      | _ => simp only [toWire]; exact scalarTVal_wf _ n (by simp) (by simp) ht
    | _ => hasTy_absurd ht
  | .str s, ty, _, _, ht, hf => by
    cases ty with
    | base k => cases k <;> first | (hasTy_absurd ht; done) | (simp only [sizesFit] at hf; simpa [toWire, wf] using hf)
    | _ => hasTy_absurd ht
  | .bin n s, ty, _, _, ht, hf => by
    cases ty with
    | base k => cases k <;> first | (hasTy_absurd ht; done) | (simp only [sizesFit] at hf; simpa [toWire, wf] using hf)
    | _ => hasTy_absurd ht
  | .nilp, ty, _, hnil, ht, _ => by
    cases ty with
    | ptr e =>
      cases e with
      | strct sid => simp [toWire, wf, wfFields]
      | _ => simp [nilOK, Ty.isPtr, Ty.isStructPtr, isNilWord] at hnil
    | base k => cases k <;> hasTy_absurd ht
    | _ => hasTy_absurd ht
  | .ptr v, ty, hok, _, ht, hf => by
    cases ty with
    | ptr e =>
      simp only [hasTy, Bool.and_eq_true, Bool.not_eq_true'] at ht
      simp only [sizesFit] at hf
      have hoke : e.ok = true := by cases e <;> simp [Ty.ok] at hok ⊢
      have hnil : nilOK e v = true := by simp [nilOK, ht.1]
      simp only [toWire]
      exact toWire_wf S hS v e hoke hnil ht.2 hf
    | base k => cases k <;> hasTy_absurd ht
    | _ => hasTy_absurd ht
  | .lst n xs, ty, hok, _, ht, hf => by
    cases ty with
    | list s e =>
      simp only [hasTy, Bool.and_eq_true] at ht
      simp only [sizesFit, Bool.and_eq_true, decide_eq_true_eq] at hf
      simp only [Ty.ok, Bool.and_eq_true] at hok
      have := toWireList_wf S hS xs e hok.1 hok.2 ht.2 hf.2
      cases s <;> simp [toWire, wf, isCode_wire, this.1, this.2, hf.1]
    | base k => cases k <;> hasTy_absurd ht
    | _ => hasTy_absurd ht
  | .mp n es, ty, hok, _, ht, hf => by
    cases ty with
    | map k v =>
      simp only [hasTy, Bool.and_eq_true] at ht
      simp only [sizesFit, Bool.and_eq_true, decide_eq_true_eq] at hf
      simp only [Ty.ok, Bool.and_eq_true] at hok
      obtain ⟨⟨⟨hk, hv⟩, hvp⟩, hkk⟩ := hok
      have hkp : (!k.isPtr || k.isStructPtr) = true := by
        cases k with
        | ptr e => cases e <;> simp_all [Ty.isPtr, Ty.isStructPtr]
        | _ => simp [Ty.isPtr]
      have := toWireEntries_wf S hS es k v hk hv hkp hvp ht.2 hf.2
      simp [toWire, wf, isCode_wire, this.1, this.2, hf.1]
    | base k => cases k <;> hasTy_absurd ht
    | _ => hasTy_absurd ht
  | .st fs h, ty, _, _, ht, hf => by
    cases ty with
    | strct sid =>
      simp only [hasTy, Bool.and_eq_true] at ht
      simp only [sizesFit] at hf
      have hsd := sd_ok hS sid
      simp only [SDesc.ok, List.all_eq_true] at hsd
      simp only [toWire, wf]
      exact toWireFields_wf S hS fs (S.get sid) (S.get sid).fields (fun f hf => hsd f hf) ht.2 hf
    | base k => cases k <;> hasTy_absurd ht
    | _ => hasTy_absurd ht
  | .vstr _ _, ty, _, _, ht, _ => by
    cases ty with
    | base k => cases k <;> hasTy_absurd ht
    | _ => hasTy_absurd ht
  | .vbin _ _, ty, _, _, ht, _ => by
    cases ty with
    | base k => cases k <;> hasTy_absurd ht
    | _ => hasTy_absurd ht
theorem toWireList_wf (S : Schema) (hS : S.ok = true) : ∀ (xs : List Val) (e : Ty), e.ok = true →
    (!e.isPtr || e.isStructPtr) = true → hasTyList S e xs = true → sizesFitList xs = true →
    wfList e.wire (toWireList S e xs) = true ∧ (toWireList S e xs).length = xs.length
  | [], _, _, _, _, _ => by simp [toWireList, wfList]
  | x :: r, e, hok, hp, ht, hf => by
    simp only [hasTyList, Bool.and_eq_true] at ht
    simp only [sizesFitList, Bool.and_eq_true] at hf
    have ih := toWireList_wf S hS r e hok hp ht.2 hf.2
    have hx := toWire_wf S hS x e hok (nilOK_of_elem hp x) ht.1 hf.1
    have htag := toWire_tag S x e (nilOK_of_elem hp x) ht.1
    simp [toWireList, wfList, hx, htag, ih.1, ih.2]
theorem toWireEntries_wf (S : Schema) (hS : S.ok = true) : ∀ (es : List (Val × Val)) (k v : Ty),
    k.ok = true → v.ok = true → (!k.isPtr || k.isStructPtr) = true → (!v.isPtr || v.isStructPtr) = true →
    hasTyEntries S k v es = true → sizesFitEntries es = true →
    wfEntries k.wire v.wire (toWireEntries S k v es) = true ∧ (toWireEntries S k v es).length = es.length
  | [], _, _, _, _, _, _, _, _ => by simp [toWireEntries, wfEntries]
  | (a, b) :: r, k, v, hk, hv, hkp, hvp, ht, hf => by
    simp only [hasTyEntries, Bool.and_eq_true] at ht
    simp only [sizesFitEntries, Bool.and_eq_true] at hf
    have ih := toWireEntries_wf S hS r k v hk hv hkp hvp ht.2 hf.2
    have ha := toWire_wf S hS a k hk (nilOK_of_elem hkp a) ht.1.1 hf.1.1
    have hb := toWire_wf S hS b v hv (nilOK_of_elem hvp b) ht.1.2 hf.1.2
    have ta := toWire_tag S a k (nilOK_of_elem hkp a) ht.1.1
    have tb := toWire_tag S b v (nilOK_of_elem hvp b) ht.1.2
    simp [toWireEntries, wfEntries, ha, hb, ta, tb, ih.1, ih.2]
theorem toWireFields_wf (S : Schema) (hS : S.ok = true) : ∀ (xs : List Val) (sd : SDesc) (fs : List Field),
    (∀ f ∈ fs, f.ok = true) → hasTyFields S fs xs = true → sizesFitList xs = true →
    wfFields (toWireFields S sd fs xs) = true
  | [], _, [], _, _, _ => by simp [toWireFields, wfFields]
  | [], _, _ :: _, _, ht, _ => by simp [hasTyFields] at ht
  | _ :: _, _, [], _, ht, _ => by simp [hasTyFields] at ht
  | x :: xr, sd, f :: fr, hok, ht, hf => by
    simp only [hasTyFields, Bool.and_eq_true] at ht
    simp only [sizesFitList, Bool.and_eq_true] at hf
    have ih := toWireFields_wf S hS xr sd fr (fun g hg => hok g (List.mem_cons_of_mem _ hg)) ht.2 hf.2
    have hfok := hok f (List.mem_cons_self ..)
    have hty : f.ty.ok = true := by simp only [Field.ok, Bool.and_eq_true] at hfok; exact hfok.1.1.1
    by_cases hw : fieldWritten sd f x = true
    · have hnil := nilOK_of_written hfok hw
      have hx := toWire_wf S hS x f.ty hty hnil ht.1 hf.1
      have : f.id < 65536 := by simp only [Field.ok, Bool.and_eq_true, decide_eq_true_eq] at hfok; exact hfok.2
      simp [toWireFields, wfFields, hw, ih, hx, this]
    · have : fieldWritten sd f x = false := by simpa using hw
      simp [toWireFields, this, ih]
end

end Frugal
