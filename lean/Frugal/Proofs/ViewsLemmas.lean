/-
  ViewsLemmas.lean — C14 for the whole reader: whatever the message, the value the reference reader
  returns satisfies `viewsExact`: views of the input occur only as values of `nocopy` fields and each
  is exactly the bytes of its value at its offset in the input.
-/
import Frugal.Views
import Frugal.Proofs.ReadNorm
set_option linter.unusedSimpArgs false
set_option linter.unusedVariables false
namespace Frugal

/-! ### plain values -/
mutual
theorem plain_viewsAt (inp : Bytes) : ∀ v : Val, plain v = true → viewsAt inp v = true
  | .sc _, _ | .str _, _ | .bin _ _, _ | .nilp, _ => by simp [viewsAt]
  | .vstr _ _, h | .vbin _ _, h => by simp [plain] at h
  | .ptr v, h => by simp only [plain] at h; simp only [viewsAt]; exact plain_viewsAt inp v h
  | .lst _ xs, h => by simp only [plain] at h; simp only [viewsAt]; exact plainList_viewsAt inp xs h
  | .mp _ es, h => by simp only [plain] at h; simp only [viewsAt]; exact plainEntries_viewsAt inp es h
  | .st fs _, h => by simp only [plain] at h; simp only [viewsAt]; exact plainList_viewsAt inp fs h
theorem plainList_viewsAt (inp : Bytes) : ∀ xs : List Val, plainList xs = true → viewsAtList inp xs = true
  | [], _ => rfl
  | x :: r, h => by
    simp only [plainList, Bool.and_eq_true] at h
    simp only [viewsAtList, Bool.and_eq_true]
    exact ⟨plain_viewsAt inp x h.1, plainList_viewsAt inp r h.2⟩
theorem plainEntries_viewsAt (inp : Bytes) : ∀ es : List (Val × Val), plainEntries es = true →
    viewsAtEntries inp es = true
  | [], _ => rfl
  | (a, b) :: r, h => by
    simp only [plainEntries, Bool.and_eq_true] at h
    simp only [viewsAtEntries, Bool.and_eq_true]
    exact ⟨⟨plain_viewsAt inp a h.1.1, plain_viewsAt inp b h.1.2⟩, plainEntries_viewsAt inp r h.2⟩
end

mutual
theorem plain_viewsExact (S : Schema) (inp : Bytes) : ∀ (v : Val) (t : Ty), plain v = true →
    viewsExact S inp t v = true
  | .sc n, t, h => by cases t <;> simp [viewsExact, plain]
  | .str s, t, h => by cases t <;> simp [viewsExact, plain]
  | .bin n s, t, h => by cases t <;> simp [viewsExact, plain]
  | .nilp, t, h => by cases t <;> simp [viewsExact, plain]
  | .vstr _ _, _, h | .vbin _ _, _, h => by simp [plain] at h
  | .ptr v, t, h => by
    cases t with
    | ptr e => simp only [plain] at h; simp only [viewsExact]; exact plain_viewsExact S inp v e h
    | _ => simpa [viewsExact] using h
  | .lst n xs, t, h => by
    cases t with
    | list s e => simp only [plain] at h; simp only [viewsExact]; exact plainList_viewsExact S inp xs e h
    | _ => simpa [viewsExact] using h
  | .mp n es, t, h => by
    cases t with
    | map k v => simp only [plain] at h; simp only [viewsExact]; exact plainEntries_viewsExact S inp es k v h
    | _ => simpa [viewsExact] using h
  | .st fs hh, t, h => by
    cases t with
    | strct sid =>
      simp only [plain] at h; simp only [viewsExact]
      exact plainList_viewsExactFields S inp fs (S.get sid).fields h
    | _ => simpa [viewsExact] using h
theorem plainList_viewsExact (S : Schema) (inp : Bytes) : ∀ (xs : List Val) (e : Ty), plainList xs = true →
    viewsExactList S inp e xs = true
  | [], _, _ => rfl
  | x :: r, e, h => by
    simp only [plainList, Bool.and_eq_true] at h
    simp only [viewsExactList, Bool.and_eq_true]
    exact ⟨plain_viewsExact S inp x e h.1, plainList_viewsExact S inp r e h.2⟩
theorem plainEntries_viewsExact (S : Schema) (inp : Bytes) : ∀ (es : List (Val × Val)) (k v : Ty),
    plainEntries es = true → viewsExactEntries S inp k v es = true
  | [], _, _, _ => rfl
  | (a, b) :: r, k, v, h => by
    simp only [plainEntries, Bool.and_eq_true] at h
    simp only [viewsExactEntries, Bool.and_eq_true]
    exact ⟨⟨plain_viewsExact S inp a k h.1.1, plain_viewsExact S inp b v h.1.2⟩,
      plainEntries_viewsExact S inp r k v h.2⟩
theorem plainList_viewsExactFields (S : Schema) (inp : Bytes) : ∀ (xs : List Val) (fs : List Field),
    plainList xs = true → viewsExactFields S inp fs xs = true
  | [], fs, _ => by cases fs <;> simp [viewsExactFields, plainList]
  | x :: r, [], h => by simpa [viewsExactFields] using h
  | x :: r, f :: fr, h => by
    simp only [plainList, Bool.and_eq_true] at h
    simp only [viewsExactFields, Bool.and_eq_true]
    refine ⟨?_, plainList_viewsExactFields S inp r fr h.2⟩
    split
    · exact plain_viewsAt inp x h.1
    · exact plain_viewsExact S inp x f.ty h.1
end

theorem zeroVal_plain (S : Schema) : ∀ (n : Nat) (t : Ty), plain (zeroVal S n t) = true
  | 0, t => by cases t with
    | base k => cases k <;> simp [zeroVal, plain]
    | _ => simp [zeroVal, plain, plainList, plainEntries]
  | n + 1, t => by
    cases t with
    | base k => cases k <;> simp [zeroVal, plain]
    | strct sid =>
      simp only [zeroVal, plain]
      generalize (S.get sid).fields = fs
      induction fs with
      | nil => rfl
      | cons f r ih => simp [plainList, zeroVal_plain S n f.ty, ih]
    | _ => simp [zeroVal, plain, plainList, plainEntries]

theorem readFixed_plain (t : TT) (tv : TVal) (w : Val) (h : readFixed t tv = .ok w) : plain w = true := by
  cases tv <;> simp only [readFixed] at h <;> (repeat' split at h) <;>
    first | (cases h; rfl) | cases h

theorem readStr_copy_plain (isBin : Bool) (total tail : Nat) (tv : TVal) (w : Val)
    (h : readStr isBin false total tail tv = .ok w) : plain w = true := by
  cases tv <;> simp only [readStr] at h <;> try cases h
  split at h
  · cases h; cases isBin <;> rfl
  · cases h; cases isBin <;> rfl

/-- a `nocopy` read in context: the view is exactly the value's bytes at its place in the input -/
theorem readStr_nocopy_viewsAt (isBin : Bool) (inp pre post : Bytes) (tv : TVal) (w : Val)
    (hctx : inp = pre ++ ser tv ++ post)
    (h : readStr isBin true inp.length post.length tv = .ok w) : viewsAt inp w = true := by
  cases tv <;> simp only [readStr] at h <;> try cases h
  rename_i s
  split at h
  · cases h; cases isBin <;> rfl
  · rename_i hne
    have hlen : inp.length = pre.length + 4 + s.length + post.length := by
      rw [hctx]; simp [ser]; omega
    have hoff : inp.length - (s.length + post.length) = (pre ++ be32 s.length).length := by
      simp; omega
    have hdrop : inp.drop (inp.length - (s.length + post.length)) = s ++ post := by
      rw [hoff]
      have : inp = (pre ++ be32 s.length) ++ (s ++ post) := by rw [hctx]; simp [ser]
      conv => lhs; arg 2; rw [this]
      exact List.drop_left' rfl
    have hs : s.isEmpty = false := by
      cases s with
      | nil => simp at hne
      | cons _ _ => rfl
    simp only [Outcome.ok.injEq] at h
    subst h
    cases isBin <;> simp [viewsAt, hdrop, hs]

theorem wrapPtr_viewsExact (S : Schema) (inp : Bytes) (t : Ty) (w : Val)
    (h : viewsExact S inp t.deref w = true) : viewsExact S inp t (wrapPtr t w) = true := by
  cases t with
  | ptr e => simpa [wrapPtr, Ty.isPtr, viewsExact, Ty.deref] using h
  | _ => simpa [wrapPtr, Ty.isPtr, Ty.deref] using h

theorem wrapPtr_plain (t : Ty) (w : Val) (h : plain w = true) : plain (wrapPtr t w) = true := by
  unfold wrapPtr; split <;> simp [plain, h]

theorem wrapPtr_viewsAt (inp : Bytes) (t : Ty) (w : Val) (h : viewsAt inp w = true) :
    viewsAt inp (wrapPtr t w) = true := by
  unfold wrapPtr; split <;> simp [viewsAt, h]

theorem applyInit_viewsExact (S : Schema) (inp : Bytes) : ∀ (fs : List Field) (vs : List Val),
    (∀ f ∈ fs, ∀ d, f.dflt = some d → plain d = true) →
    viewsExactFields S inp fs vs = true → viewsExactFields S inp fs (applyInit fs vs) = true
  | [], vs, _, h => by simpa [applyInit] using h
  | f :: fr, [], _, h => by simpa [applyInit] using h
  | f :: fr, v :: vr, hd, h => by
    simp only [viewsExactFields, Bool.and_eq_true] at h
    simp only [applyInit, viewsExactFields, Bool.and_eq_true]
    refine ⟨?_, applyInit_viewsExact S inp fr vr (fun g hg => hd g (List.mem_cons_of_mem _ hg)) h.2⟩
    by_cases ha : f.assigned = true
    · simp only [ha, ↓reduceIte]
      cases hdf : f.dflt with
      | none => simpa using h.1
      | some d =>
        have hp := hd f (List.mem_cons_self ..) d hdf
        simp only [Option.getD_some]
        split
        · exact plain_viewsAt inp d hp
        · exact plain_viewsExact S inp d f.ty hp
    · have : f.assigned = false := by simpa using ha
      simp only [this, Bool.false_eq_true, ↓reduceIte]
      exact h.1

theorem viewsExactFields_set (S : Schema) (inp : Bytes) : ∀ (fs : List Field) (vs : List Val) (ix : Nat)
    (f : Field) (x : Val), fs[ix]? = some f → viewsExactFields S inp fs vs = true →
    (if f.nocopy then viewsAt inp x else viewsExact S inp f.ty x) = true →
    viewsExactFields S inp fs (vs.set ix x) = true
  | [], vs, ix, f, x, hf, _, _ => by simp at hf
  | g :: fr, [], ix, f, x, _, h, _ => by simpa using h
  | g :: fr, v :: vr, 0, f, x, hf, h, hx => by
    simp only [List.getElem?_cons_zero, Option.some.injEq] at hf
    subst hf
    simp only [viewsExactFields, Bool.and_eq_true] at h
    simp only [List.set_cons_zero, viewsExactFields, Bool.and_eq_true]
    exact ⟨hx, h.2⟩
  | g :: fr, v :: vr, ix + 1, f, x, hf, h, hx => by
    simp only [List.getElem?_cons_succ] at hf
    simp only [viewsExactFields, Bool.and_eq_true] at h
    simp only [List.set_cons_succ, viewsExactFields, Bool.and_eq_true]
    exact ⟨h.1, viewsExactFields_set S inp fr vr ix f x hf h.2 hx⟩

theorem mapInsert_viewsExact (S : Schema) (inp : Bytes) (kt vt : Ty) : ∀ (acc : List (Val × Val)) (k v : Val),
    viewsExactEntries S inp kt vt acc = true → viewsExact S inp kt k = true → viewsExact S inp vt v = true →
    viewsExactEntries S inp kt vt (mapInsert kt acc k v) = true
  | [], k, v, _, hk, hv => by simp [mapInsert, viewsExactEntries, hk, hv]
  | (a, b) :: r, k, v, h, hk, hv => by
    simp only [viewsExactEntries, Bool.and_eq_true] at h
    simp only [mapInsert]
    split
    · simp only [viewsExactEntries, Bool.and_eq_true]; exact ⟨⟨hk, hv⟩, h.2⟩
    · simp only [viewsExactEntries, Bool.and_eq_true]
      exact ⟨h.1, mapInsert_viewsExact S inp kt vt r k v h.2 hk hv⟩

theorem lookupKnown_getElem (sd : SDesc) (id tag ix : Nat) (f : Field)
    (h : lookupKnown sd id tag = some (ix, f)) : sd.fields[ix]? = some f := by
  unfold lookupKnown at h
  split at h
  · rename_i ix' f' hfind
    split at h
    · simp only [Option.some.injEq, Prod.mk.injEq] at h
      obtain ⟨rfl, rfl⟩ := h
      have := (findField_sound sd.fields id 0 _ _ hfind).1
      simpa using this
    · cases h
  · cases h


theorem mapv_ok_inv {α β} (o : Outcome α) (f : α → β) (w : β) (h : o.mapv f = .ok w) :
    ∃ w0, o = .ok w0 ∧ w = f w0 := by
  cases o with
  | ok a => simp only [Outcome.mapv, Outcome.ok.injEq] at h; exact ⟨a, rfl, h.symm⟩
  | err e => cases h
  | panic p => cases h

theorem default_val_plain : plain (default : Val) = true := rfl

theorem viewsExactFields_get (S : Schema) (inp : Bytes) : ∀ (fs : List Field) (vs : List Val) (ix : Nat)
    (f : Field), fs[ix]? = some f → viewsExactFields S inp fs vs = true → f.nocopy = false →
    viewsExact S inp f.ty (vs.getD ix default) = true
  | [], vs, ix, f, hf, _, _ => by simp at hf
  | g :: fr, [], ix, f, _, _, _ => by
    simp only [List.getD_eq_getElem?_getD, List.getElem?_nil, Option.getD_none]
    exact plain_viewsExact S inp _ _ default_val_plain
  | g :: fr, v :: vr, 0, f, hf, h, hn => by
    simp only [List.getElem?_cons_zero, Option.some.injEq] at hf
    subst hf
    simp only [viewsExactFields, Bool.and_eq_true, hn, Bool.false_eq_true, ↓reduceIte] at h
    simpa using h.1
  | g :: fr, v :: vr, ix + 1, f, hf, h, hn => by
    simp only [List.getElem?_cons_succ] at hf
    simp only [viewsExactFields, Bool.and_eq_true] at h
    have := viewsExactFields_get S inp fr vr ix f hf h.2 hn
    simpa [List.getD_eq_getElem?_getD] using this

section
variable (P : Params) (S : Schema) (inp : Bytes)

/-- one element / key / value -/
theorem readSlot_views (fuel : Nat) (t : Ty) (x : TVal) (tail : Nat) (slot w : Val)
    (hv : ∀ dest w', plain dest = true → readVal P S inp.length fuel t.deref x tail dest = .ok w' →
      viewsExact S inp t.deref w' = true)
    (hslot : plain slot = true)
    (h : readSlot P S inp.length fuel t x tail slot = .ok w) : viewsExact S inp t w = true := by
  rw [readSlot] at h
  split at h
  · obtain ⟨w0, h0, rfl⟩ := mapv_ok_inv _ _ _ h
    exact plain_viewsExact S inp _ _ (wrapPtr_plain t w0 (readFixed_plain _ _ _ h0))
  · obtain ⟨w0, h0, rfl⟩ := mapv_ok_inv _ _ _ h
    apply wrapPtr_viewsExact
    apply hv _ _ _ h0
    unfold freshTarget
    split
    · exact zeroVal_plain S _ _
    · exact hslot

/-- one known field: a `nocopy` field gets a view of exactly its value's bytes (or nothing, when
    empty); any other field gets a value in which views occur only below `nocopy` fields -/
theorem readField_views (fuel : Nat) (f : Field) (v : TVal) (slot w : Val) (pre post : Bytes)
    (hctx : inp = pre ++ ser v ++ post)
    (hv : ∀ dest w', (∀ sid, f.ty.deref = .strct sid → viewsExact S inp f.ty.deref dest = true) →
      readVal P S inp.length fuel f.ty.deref v post.length dest = .ok w' →
      viewsExact S inp f.ty.deref w' = true)
    (hslot : f.nocopy = false → viewsExact S inp f.ty slot = true)
    (h : readField P S inp.length fuel f v post.length slot = .ok w) :
    (if f.nocopy then viewsAt inp w else viewsExact S inp f.ty w) = true := by
  rw [readField] at h
  split at h
  · obtain ⟨w0, h0, rfl⟩ := mapv_ok_inv _ _ _ h
    have hp := wrapPtr_plain f.ty w0 (readFixed_plain _ _ _ h0)
    split
    · exact plain_viewsAt inp _ hp
    · exact plain_viewsExact S inp _ _ hp
  · split at h
    · rename_i hnc
      obtain ⟨w0, h0, rfl⟩ := mapv_ok_inv _ _ _ h
      simp only [hnc, ↓reduceIte]
      exact wrapPtr_viewsAt inp f.ty w0 (readStr_nocopy_viewsAt _ inp pre post v w0 hctx h0)
    · rename_i hnc
      have hnc' : f.nocopy = false := by simpa using hnc
      obtain ⟨w0, h0, rfl⟩ := mapv_ok_inv _ _ _ h
      simp only [hnc', Bool.false_eq_true, ↓reduceIte]
      apply wrapPtr_viewsExact
      apply hv _ _ _ h0
      intro sid hsid
      unfold freshTarget
      split
      · exact plain_viewsExact S inp _ _ (zeroVal_plain S _ _)
      · rename_i hp
        have : f.ty.deref = f.ty := deref_nonptr (by simpa using hp)
        rw [this]
        exact hslot hnc'

variable (hdf : ∀ sid, ∀ f ∈ (S.get sid).fields, ∀ d, f.dflt = some d → plain d = true)
include hdf

mutual
theorem readVal_views : ∀ (tv : TVal) (fuel : Nat) (t : Ty) (tail : Nat) (dest w : Val) (pre post : Bytes),
    inp = pre ++ ser tv ++ post → tail = post.length →
    (∀ sid, t = .strct sid → viewsExact S inp t dest = true) →
    readVal P S inp.length fuel t tv tail dest = .ok w → viewsExact S inp t w = true
  | tv, 0, t, tail, dest, w, pre, post, _, _, _, h => by simp [readVal] at h
  | tv, fuel + 1, t, tail, dest, w, pre, post, hctx, htail, hdest, h => by
    by_cases hfx : specFixed t.tt > 0
    · have hr : readVal P S inp.length (fuel + 1) t tv tail dest = readFixed t.tt tv := by
        cases t with
        | base k => rw [readVal]; simp only [hfx, ↓reduceIte]
        | ptr e => rw [readVal]; simp only [hfx, ↓reduceIte]
        | strct s => simp [Ty.tt, specFixed] at hfx
        | map k v => simp [Ty.tt, specFixed] at hfx
        | list s e => cases s <;> simp [Ty.tt, specFixed] at hfx
      rw [hr] at h
      exact plain_viewsExact S inp _ _ (readFixed_plain _ _ _ h)
    · cases t with
      | base k =>
        rw [readVal] at h; simp only [hfx, ↓reduceIte] at h
        split at h
        · exact plain_viewsExact S inp _ _ (readStr_copy_plain _ _ _ _ _ h)
        · cases h
      | ptr e => rw [readVal] at h; simp only [hfx, ↓reduceIte] at h; cases h
      | map kt vt =>
        cases tv with
        | map a b es =>
          rw [readVal] at h; simp only [hfx, ↓reduceIte] at h
          split at h
          · cases h
          · obtain ⟨es', h0, rfl⟩ := mapv_ok_inv _ _ _ h
            simp only [viewsExact]
            refine readEntries_views es fuel kt vt tail [] es' (pre ++ u8 a :: u8 b :: be32 es.length) post
              ?_ htail rfl h0
            rw [hctx]; simp [ser]
        | _ => unfold readVal at h; simp only [hfx, ↓reduceIte] at h; cases h
      | list s et =>
        cases tv with
        | list a xs =>
          rw [readVal] at h; simp only [hfx, ↓reduceIte] at h
          split at h
          · cases h
          · split at h
            · cases h; rfl
            · obtain ⟨xs', h0, rfl⟩ := mapv_ok_inv _ _ _ h
              simp only [viewsExact]
              refine readList_views xs fuel et tail xs' (pre ++ u8 a :: be32 xs.length) post ?_ htail h0
              rw [hctx]; simp [ser]
        | set a xs =>
          rw [readVal] at h; simp only [hfx, ↓reduceIte] at h
          split at h
          · cases h
          · split at h
            · cases h; rfl
            · obtain ⟨xs', h0, rfl⟩ := mapv_ok_inv _ _ _ h
              simp only [viewsExact]
              refine readList_views xs fuel et tail xs' (pre ++ u8 a :: be32 xs.length) post ?_ htail h0
              rw [hctx]; simp [ser]
        | _ => unfold readVal at h; simp only [hfx, ↓reduceIte] at h; cases h
      | strct sid =>
        cases tv with
        | strct fs =>
          rw [readVal] at h; simp only [hfx, ↓reduceIte] at h
          cases fuel with
          | zero => simp [readStruct] at h
          | succ f =>
            cases dest with
            | st vs hh =>
              have hd0 := hdest sid rfl
              simp only [viewsExact] at hd0
              have hd' : ∃ vs', (match Val.st vs hh with
                  | .st fs h => if (S.get sid).hasInit then Val.st (applyInit (S.get sid).fields fs) h else Val.st vs hh
                  | d => d) = .st vs' hh ∧ viewsExactFields S inp (S.get sid).fields vs' = true := by
                by_cases hi : (S.get sid).hasInit = true
                · exact ⟨_, by simp [hi], applyInit_viewsExact S inp _ _ (hdf sid) hd0⟩
                · exact ⟨vs, by simp [hi], hd0⟩
              obtain ⟨vs', e', hvs'⟩ := hd'
              simp only [e'] at h
              rw [readStruct] at h
              split at h
              · rename_i st hl
                split at h
                · cases h
                · simp only [Outcome.ok.injEq] at h
                  subst h
                  simp only [viewsExact]
                  refine readFields_views fs f (S.get sid) (tail + 1) { fs := vs' } st pre (0 :: post)
                    ?_ (by simp [htail]) hvs' hl
                  rw [hctx]; simp [ser]
              · cases h
              · cases h
            | _ => simp [readStruct] at h
        | _ => unfold readVal at h; simp only [hfx, ↓reduceIte] at h; cases h
theorem readFields_views : ∀ (fs : List (Nat × TVal)) (fuel : Nat) (sd : SDesc) (tail : Nat) (st st' : LoopSt)
    (pre post : Bytes), inp = pre ++ serFields fs ++ post → tail = post.length →
    viewsExactFields S inp sd.fields st.fs = true →
    readFields P S inp.length fuel sd fs tail st = .ok st' → viewsExactFields S inp sd.fields st'.fs = true
  | [], fuel, sd, tail, st, st', pre, post, _, _, hst, h => by
    rw [readFields] at h
    cases h
    exact hst
  | (id, v) :: r, fuel, sd, tail, st, st', pre, post, hctx, htail, hst, h => by
    rw [readFields] at h
    have hctx' : inp = (pre ++ u8 v.tag :: be16 id ++ ser v) ++ serFields r ++ post := by
      rw [hctx]; simp [serFields]
    cases hk : lookupKnown sd id v.tag with
    | none =>
      simp only [hk] at h
      split at h
      · cases h
      · refine readFields_views r fuel sd tail _ st' _ post hctx' htail ?_ h
        cases sd.hasHolder <;> simpa using hst
    | some p =>
      obtain ⟨ix, f⟩ := p
      simp only [hk] at h
      split at h
      · rename_i x hx
        have hgf := lookupKnown_getElem sd id v.tag ix f hk
        have hctxv : inp = (pre ++ u8 v.tag :: be16 id) ++ ser v ++ (serFields r ++ post) := by
          rw [hctx]; simp [serFields]
        have htl : (serFields r).length + tail = (serFields r ++ post).length := by simp [htail]
        rw [htl] at hx
        have hxv := readField_views P S inp fuel f v _ x _ _ hctxv
          (fun dest w' hd hr => readVal_views v fuel f.ty.deref _ dest w' _ _ hctxv rfl hd hr)
          (fun hn => viewsExactFields_get S inp sd.fields st.fs ix f hgf hst hn) hx
        refine readFields_views r fuel sd tail _ st' _ post hctx' htail ?_ h
        exact viewsExactFields_set S inp sd.fields st.fs ix f x hgf hst hxv
      · cases h
      · cases h
theorem readList_views : ∀ (xs : List TVal) (fuel : Nat) (et : Ty) (tail : Nat) (vs : List Val) (pre post : Bytes),
    inp = pre ++ serList xs ++ post → tail = post.length →
    readList P S inp.length fuel et xs tail = .ok vs → viewsExactList S inp et vs = true
  | [], fuel, et, tail, vs, pre, post, _, _, h => by
    rw [readList] at h
    cases h
    rfl
  | x :: r, fuel, et, tail, vs, pre, post, hctx, htail, h => by
    rw [readList] at h
    have hctxx : inp = pre ++ ser x ++ (serList r ++ post) := by rw [hctx]; simp [serList]
    have htl : (serList r).length + tail = (serList r ++ post).length := by simp [htail]
    rw [htl] at h
    split at h
    · rename_i w hw
      split at h
      · rename_i ws hws
        simp only [Outcome.ok.injEq] at h
        subst h
        simp only [viewsExactList, Bool.and_eq_true]
        refine ⟨?_, readList_views r fuel et tail ws (pre ++ ser x) post (by rw [hctx]; simp [serList]) htail ?_⟩
        · exact readSlot_views P S inp fuel et x _ _ w
            (fun dest w' hd hr => readVal_views x fuel et.deref _ dest w' _ _ hctxx rfl
              (fun sid _ => plain_viewsExact S inp _ _ hd) hr)
            (zeroVal_plain S _ _) hw
        · exact hws
      · cases h
      · cases h
    · cases h
    · cases h
theorem readEntries_views : ∀ (es : List (TVal × TVal)) (fuel : Nat) (kt vt : Ty) (tail : Nat)
    (acc res : List (Val × Val)) (pre post : Bytes), inp = pre ++ serEntries es ++ post → tail = post.length →
    viewsExactEntries S inp kt vt acc = true →
    readEntries P S inp.length fuel kt vt es tail acc = .ok res → viewsExactEntries S inp kt vt res = true
  | [], fuel, kt, vt, tail, acc, res, pre, post, _, _, hacc, h => by
    rw [readEntries] at h
    cases h
    exact hacc
  | (a, b) :: r, fuel, kt, vt, tail, acc, res, pre, post, hctx, htail, hacc, h => by
    rw [readEntries] at h
    have hctxa : inp = pre ++ ser a ++ (ser b ++ (serEntries r ++ post)) := by rw [hctx]; simp [serEntries]
    have hctxb : inp = (pre ++ ser a) ++ ser b ++ (serEntries r ++ post) := by rw [hctx]; simp [serEntries]
    have htla : (ser b).length + ((serEntries r).length + tail) = (ser b ++ (serEntries r ++ post)).length := by
      simp [htail]
    have htlb : (serEntries r).length + tail = (serEntries r ++ post).length := by simp [htail]
    rw [htla, htlb] at h
    split at h
    · rename_i k hk
      split at h
      · rename_i v hv
        have hkv := readSlot_views P S inp fuel kt a _ _ k
          (fun dest w' hd hr => readVal_views a fuel kt.deref _ dest w' _ _ hctxa rfl
            (fun sid _ => plain_viewsExact S inp _ _ hd) hr) (zeroVal_plain S _ _) hk
        have hvv := readSlot_views P S inp fuel vt b _ _ v
          (fun dest w' hd hr => readVal_views b fuel vt.deref _ dest w' _ _ hctxb rfl
            (fun sid _ => plain_viewsExact S inp _ _ hd) hr) (zeroVal_plain S _ _) hv
        refine readEntries_views r fuel kt vt tail _ res (pre ++ ser a ++ ser b) post
          (by rw [hctx]; simp [serEntries]) htail (mapInsert_viewsExact S inp kt vt acc k v hacc hkv hvv) ?_
        exact h
      · cases h
      · cases h
    · cases h
    · cases h
end

/-- **C14** for a whole message: `DecodeObject` on `ser (.strct fs) ++ trailing` into a destination
    without views returns a value in which views occur only as values of `nocopy` fields, each
    exactly the bytes of its value in the input -/
theorem readMessage_views (sid : Nat) (fs : List (Nat × TVal)) (trailing : Bytes) (vs : List Val) (hh : Bytes)
    (w : Val) (hinp : inp = ser (.strct fs) ++ trailing) (hdest : plainList vs = true)
    (h : readMessage P S sid fs trailing.length (.st vs hh) = .ok w) :
    viewsExact S inp (.strct sid) w = true := by
  unfold readMessage at h
  have hlen : (ser (.strct fs)).length + trailing.length = inp.length := by rw [hinp]; simp
  rw [hlen] at h
  cases hm : P.maxDepth with
  | zero => rw [hm] at h; simp [readStruct] at h
  | succ f =>
    rw [hm, readStruct] at h
    split at h
    · rename_i st hl
      split at h
      · cases h
      · simp only [Outcome.ok.injEq] at h
        subst h
        simp only [viewsExact]
        refine readFields_views P S inp hdf fs f (S.get sid) (trailing.length + 1) { fs := vs } st [] (0 :: trailing)
          ?_ (by simp) (plainList_viewsExactFields S inp vs _ hdest) hl
        rw [hinp]; simp [ser]
    · cases h
    · cases h

end
end Frugal
