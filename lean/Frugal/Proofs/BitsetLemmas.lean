/-
  BitsetLemmas.lean — algebra of the presence set for arbitrary `(words, shift, mask)` that
  satisfy the decidable side condition `Params.validBitset`.
-/
import Frugal.Bitset
import Frugal.Valid
namespace Frugal

theorem and_two_pow_ne_zero (a k : Nat) : ((a &&& 2 ^ k) != 0) = a.testBit k := by
  have h : a &&& 2 ^ k = if a.testBit k then 2 ^ k else 0 := by
    apply Nat.eq_of_testBit_eq
    intro i
    rw [Nat.testBit_and, Nat.testBit_two_pow]
    by_cases hk : k = i
    · subst hk
      cases hb : a.testBit k <;> simp
    · cases hb : a.testBit k <;> simp [hk]
  rw [h]
  cases hb : a.testBit k
  · simp
  · simp

structure BsOK (P : Params) : Prop where
  pow : 2 ^ P.bsShift = P.bsMask + 1
  cover : 65536 ≤ P.bsWords * 2 ^ P.bsShift
  small : P.bsShift ≤ 6

theorem bsOK_of_valid {P : Params} (h : P.validBitset = true) : BsOK P := by
  simp only [Params.validBitset, Bool.and_eq_true, beq_iff_eq, decide_eq_true_eq] at h
  exact ⟨h.1.1, h.1.2, h.2⟩

variable {P : Params}

theorem bsIdx_fst (i : Nat) : (bsIdx P i).1 = i / 2 ^ P.bsShift := by
  simp [bsIdx, Nat.shiftRight_eq_div_pow]

theorem bsIdx_snd (h : BsOK P) (i : Nat) : (bsIdx P i).2 = i % 2 ^ P.bsShift := by
  have : P.bsMask = 2 ^ P.bsShift - 1 := by have := h.pow; omega
  simp [bsIdx, this, Nat.and_two_pow_sub_one_eq_mod]

theorem bsIdx_inj (h : BsOK P) {i j : Nat} (e : bsIdx P i = bsIdx P j) : i = j := by
  have e1 : (bsIdx P i).1 = (bsIdx P j).1 := by rw [e]
  have e2 : (bsIdx P i).2 = (bsIdx P j).2 := by rw [e]
  rw [bsIdx_fst, bsIdx_fst] at e1
  rw [bsIdx_snd h, bsIdx_snd h] at e2
  have hi := Nat.div_add_mod i (2 ^ P.bsShift)
  have hj := Nat.div_add_mod j (2 ^ P.bsShift)
  rw [e1, e2] at hi
  omega

theorem bsIdx_snd_lt (h : BsOK P) (i : Nat) : (bsIdx P i).2 < 64 := by
  rw [bsIdx_snd h]
  have h1 : i % 2 ^ P.bsShift < 2 ^ P.bsShift := Nat.mod_lt _ (Nat.two_pow_pos _)
  have h2 : 2 ^ P.bsShift ≤ 2 ^ 6 := Nat.pow_le_pow_right (by decide) h.small
  omega

theorem one_shl_mod {y : Nat} (hy : y < 64) : (1 <<< y) % two64 = 2 ^ y := by
  rw [Nat.one_shiftLeft]
  apply Nat.mod_eq_of_lt
  have : 2 ^ y < 2 ^ 64 := Nat.pow_lt_pow_right (by decide) hy
  simpa [two64] using this

/-- every 16-bit field id indexes inside the array: no index panic -/
theorem bsInRange_of_lt (h : BsOK P) {i : Nat} (hi : i < 65536) : bsInRange P i = true := by
  simp only [bsInRange, decide_eq_true_eq]
  rw [bsIdx_fst]
  have := h.cover
  apply (Nat.div_lt_iff_lt_mul (Nat.two_pow_pos _)).mpr
  omega

theorem test_set (h : BsOK P) (s : BitSet) (i j : Nat) :
    (s.set P i).test P j = (decide (i = j) || s.test P j) := by
  have hyi := bsIdx_snd_lt h i
  have hyj := bsIdx_snd_lt h j
  simp only [BitSet.set, BitSet.test]
  rw [one_shl_mod hyi, one_shl_mod hyj, and_two_pow_ne_zero, and_two_pow_ne_zero]
  by_cases hx : (bsIdx P j).1 = (bsIdx P i).1
  · simp only [hx, ↓reduceIte, Nat.testBit_or, Nat.testBit_two_pow]
    by_cases hy : (bsIdx P i).2 = (bsIdx P j).2
    · have : i = j := bsIdx_inj h (Prod.ext hx.symm hy)
      simp [this]
    · have : i ≠ j := fun e => hy (by rw [e])
      simp [hy, this, Bool.or_comm]
  · have : i ≠ j := fun e => hx (by rw [e])
    simp [hx, this]

theorem allOnes_testBit {k : Nat} (hk : k < 64) : (two64 - 1).testBit k = true := by
  have : two64 = 2 ^ 64 := rfl
  rw [this, Nat.testBit_two_pow_sub_one]
  simpa using hk

theorem test_unset (h : BsOK P) (s : BitSet) (i j : Nat) :
    (s.unset P i).test P j = (!decide (i = j) && s.test P j) := by
  have hyi := bsIdx_snd_lt h i
  have hyj := bsIdx_snd_lt h j
  simp only [BitSet.unset, BitSet.test]
  rw [one_shl_mod hyi, one_shl_mod hyj, and_two_pow_ne_zero, and_two_pow_ne_zero]
  by_cases hx : (bsIdx P j).1 = (bsIdx P i).1
  · simp only [hx, ↓reduceIte, Nat.testBit_and, Nat.testBit_xor, Nat.testBit_two_pow, allOnes_testBit hyj]
    by_cases hy : (bsIdx P i).2 = (bsIdx P j).2
    · have : i = j := bsIdx_inj h (Prod.ext hx.symm hy)
      simp [this]
    · have : i ≠ j := fun e => hy (by rw [e])
      simp [hy, this, Bool.and_comm]
  · have : i ≠ j := fun e => hx (by rw [e])
    simp [hx, this]

/-! ### the decoder's usage pattern -/

/-- what `Decode` does with the pooled set: clear the required ids, then set every decoded id -/
def presenceRun (P : Params) (s0 : BitSet) (req seen : List Nat) : BitSet :=
  seen.foldl (BitSet.set P) (req.foldl (BitSet.unset P) s0)

theorem test_foldl_unset (h : BsOK P) (req : List Nat) (s : BitSet) (r : Nat) :
    (req.foldl (BitSet.unset P) s).test P r = (!decide (r ∈ req) && s.test P r) := by
  induction req generalizing s with
  | nil => simp
  | cons a t ih =>
    rw [List.foldl_cons, ih, test_unset h]
    by_cases e : a = r
    · simp [e]
    · have : r ≠ a := fun x => e x.symm
      simp [e, this]

theorem test_foldl_set (h : BsOK P) (seen : List Nat) (s : BitSet) (r : Nat) :
    (seen.foldl (BitSet.set P) s).test P r = (decide (r ∈ seen) || s.test P r) := by
  induction seen generalizing s with
  | nil => simp
  | cons a t ih =>
    rw [List.foldl_cons, ih, test_set h]
    by_cases e : a = r
    · simp [e]
    · have : r ≠ a := fun x => e x.symm
      simp [e, this]

/-- The required-field test does not depend on what the pooled set contained before
    (`s0` is arbitrary): a required id tests true exactly when it was decoded. -/
theorem presence_clean (h : BsOK P) (s0 : BitSet) (req seen : List Nat) (r : Nat) (hr : r ∈ req) :
    (presenceRun P s0 req seen).test P r = decide (r ∈ seen) := by
  unfold presenceRun
  rw [test_foldl_set h, test_foldl_unset h]
  simp [hr]

end Frugal
