/-
  EraseTail.lean — the reference reader, up to the provenance of views, does not depend on where in
  the input buffer the value sits nor on the provenance of what the destination holds:
  `(readVal … total tail dest).mapv erase = (readVal … total' tail' dest').mapv erase` whenever
  `erase dest = erase dest'` — outcomes, errors included.  Generalises `TailIndep` to schemas with
  `nocopy` fields.  Used by C11 (the recognised fields are read as if the unknown ones were not there).
-/
import Frugal.Proofs.TailIndep
import Frugal.Proofs.ReqEverywhere
set_option linter.unusedSimpArgs false
set_option linter.unusedVariables false
namespace Frugal

theorem mapv_eq_cases {α β} (f : α → β) (o1 o2 : Outcome α) (h : o1.mapv f = o2.mapv f) :
    (∃ a b, o1 = .ok a ∧ o2 = .ok b ∧ f a = f b) ∨ (∃ e, o1 = .err e ∧ o2 = .err e) ∨
      (∃ p, o1 = .panic p ∧ o2 = .panic p) := by
  cases o1 with
  | ok a =>
    cases o2 with
    | ok b => exact Or.inl ⟨a, b, rfl, rfl, by simpa [Outcome.mapv] using h⟩
    | err e => simp [Outcome.mapv] at h
    | panic p => simp [Outcome.mapv] at h
  | err e =>
    cases o2 with
    | ok b => simp [Outcome.mapv] at h
    | err e' =>
      simp only [Outcome.mapv, Outcome.err.injEq] at h
      subst h
      exact Or.inr (Or.inl ⟨_, rfl, rfl⟩)
    | panic p => simp [Outcome.mapv] at h
  | panic p =>
    cases o2 with
    | ok b => simp [Outcome.mapv] at h
    | err e' => simp [Outcome.mapv] at h
    | panic p' =>
      simp only [Outcome.mapv, Outcome.panic.injEq] at h
      subst h
      exact Or.inr (Or.inr ⟨_, rfl, rfl⟩)

theorem mapv_wrap_erase (t : Ty) (o : Outcome Val) :
    (o.mapv (wrapPtr t)).mapv erase = (o.mapv erase).mapv (wrapPtr t) := by
  cases o <;> simp [Outcome.mapv, erase_wrapPtr]

theorem readFixed_mapv_erase (t : TT) (tv : TVal) : (readFixed t tv).mapv erase = readFixed t tv := by
  cases h : readFixed t tv with
  | ok w => simp [Outcome.mapv, (readFixed_erase t tv w h).1]
  | err e => rfl
  | panic p => rfl

theorem readStr_te (isBin nc : Bool) (total total' tail tail' : Nat) (tv : TVal) :
    (readStr isBin nc total tail tv).mapv erase = (readStr isBin nc total' tail' tv).mapv erase := by
  cases tv <;> simp only [readStr]
  split
  · rfl
  · cases nc <;> cases isBin <;> simp [Outcome.mapv, erase]

theorem erase_eq_st (d' : Val) (ws : List Val) (h : Bytes) (he : erase d' = .st ws h) :
    ∃ vs', d' = .st vs' h ∧ eraseList vs' = ws := by
  cases d' <;> simp [erase] at he
  exact ⟨_, by rw [he.2], he.1⟩

theorem erase_ne_st (d d' : Val) (he : erase d = erase d') (hne : ∀ vs h, d ≠ .st vs h) :
    ∀ vs h, d' ≠ .st vs h := by
  intro vs h hd
  subst hd
  cases d <;> simp [erase] at he
  exact hne _ _ rfl

section
variable (P : Params) (S : Schema) (total total' : Nat)

theorem readStruct_ok_notView (fuel sid : Nat) (fs : List (Nat × TVal)) (tail : Nat) (d w : Val)
    (h : readStruct P S total fuel sid fs tail d = .ok w) : notView w = true := by
  cases fuel with
  | zero => simp [readStruct] at h
  | succ f =>
    cases d with
    | st vs hh =>
      rw [readStruct] at h
      split at h
      · split at h
        · cases h
        · cases h; rfl
      · cases h
      · cases h
    | _ => simp [readStruct] at h

/-- what `readVal` returns is never itself a view (views are made by the field loop only) -/
theorem readVal_notView (fuel : Nat) (t : Ty) (tv : TVal) (tail : Nat) (dest w : Val)
    (h : readVal P S total fuel t tv tail dest = .ok w) : notView w = true := by
  cases fuel with
  | zero => simp [readVal] at h
  | succ fuel =>
    by_cases hfx : specFixed t.tt > 0
    · have hr : readVal P S total (fuel + 1) t tv tail dest = readFixed t.tt tv := by
        cases t with
        | base k => rw [readVal]; simp only [hfx, ↓reduceIte]
        | ptr e => rw [readVal]; simp only [hfx, ↓reduceIte]
        | strct s => simp [Ty.tt, specFixed] at hfx
        | map k v => simp [Ty.tt, specFixed] at hfx
        | list s e => cases s <;> simp [Ty.tt, specFixed] at hfx
      rw [hr] at h
      exact (readFixed_erase _ _ _ h).2
    · cases t with
      | base k =>
        rw [readVal] at h; simp only [hfx, ↓reduceIte] at h
        split at h
        · exact (readStr_copy_erase _ _ _ _ _ h).2
        · cases h
      | ptr e => rw [readVal] at h; simp only [hfx, ↓reduceIte] at h; cases h
      | map kt vt =>
        cases tv with
        | map a b es =>
          rw [readVal] at h; simp only [hfx, ↓reduceIte] at h
          split at h
          · cases h
          · obtain ⟨es', _, rfl⟩ := mapv_ok_inv _ _ _ h
            rfl
        | _ => unfold readVal at h; simp only [hfx, ↓reduceIte] at h; cases h
      | list s et =>
        cases tv with
        | list a xs =>
          rw [readVal] at h; simp only [hfx, ↓reduceIte] at h
          split at h
          · cases h
          · split at h
            · cases h; rfl
            · obtain ⟨xs', _, rfl⟩ := mapv_ok_inv _ _ _ h
              rfl
        | set a xs =>
          rw [readVal] at h; simp only [hfx, ↓reduceIte] at h
          split at h
          · cases h
          · split at h
            · cases h; rfl
            · obtain ⟨xs', _, rfl⟩ := mapv_ok_inv _ _ _ h
              rfl
        | _ => unfold readVal at h; simp only [hfx, ↓reduceIte] at h; cases h
      | strct sid =>
        cases tv with
        | strct fs =>
          rw [readVal] at h; simp only [hfx, ↓reduceIte] at h
          exact readStruct_ok_notView P S total _ _ _ _ _ _ h
        | _ => unfold readVal at h; simp only [hfx, ↓reduceIte] at h; cases h

theorem readSlot_notView (fuel : Nat) (t : Ty) (x : TVal) (tail : Nat) (slot w : Val)
    (h : readSlot P S total fuel t x tail slot = .ok w) : notView w = true := by
  unfold readSlot at h
  split at h
  · obtain ⟨w0, h0, rfl⟩ := mapv_ok_inv _ _ _ h
    exact notView_wrapPtr _ _ (readFixed_erase _ _ _ h0).2
  · obtain ⟨w0, h0, rfl⟩ := mapv_ok_inv _ _ _ h
    exact notView_wrapPtr _ _ (readVal_notView P S total fuel _ _ _ _ _ h0)

theorem freshTarget_erase_congr (t : Ty) (slot slot' : Val) (h : erase slot = erase slot') :
    erase (freshTarget S t slot) = erase (freshTarget S t slot') := by
  unfold freshTarget
  split
  · rfl
  · exact h

theorem readSlot_te (fuel : Nat) (t : Ty) (x : TVal) (tail tail' : Nat) (slot slot' : Val)
    (hs : erase slot = erase slot')
    (hv : ∀ dest dest', erase dest = erase dest' →
      (readVal P S total fuel t.deref x tail dest).mapv erase =
        (readVal P S total' fuel t.deref x tail' dest').mapv erase) :
    (readSlot P S total fuel t x tail slot).mapv erase = (readSlot P S total' fuel t x tail' slot').mapv erase := by
  unfold readSlot
  split
  · rfl
  · rw [mapv_wrap_erase, mapv_wrap_erase, hv _ _ (freshTarget_erase_congr S t slot slot' hs)]

theorem readField_te (fuel : Nat) (f : Field) (v : TVal) (tail tail' : Nat) (slot slot' : Val)
    (hs : erase slot = erase slot')
    (hv : ∀ dest dest', erase dest = erase dest' →
      (readVal P S total fuel f.ty.deref v tail dest).mapv erase =
        (readVal P S total' fuel f.ty.deref v tail' dest').mapv erase) :
    (readField P S total fuel f v tail slot).mapv erase = (readField P S total' fuel f v tail' slot').mapv erase := by
  unfold readField
  split
  · rfl
  · split
    · rw [mapv_wrap_erase, mapv_wrap_erase, readStr_te _ _ total total' tail tail']
    · rw [mapv_wrap_erase, mapv_wrap_erase, hv _ _ (freshTarget_erase_congr S f.ty slot slot' hs)]

theorem keyEq_congr (kt : Ty) (a a' k k' : Val) (ha : notView a = true) (ha' : notView a' = true)
    (hk : notView k = true) (hk' : notView k' = true) (ea : erase a = erase a') (ek : erase k = erase k') :
    keyEq kt a k = keyEq kt a' k' := by
  rw [← keyEq_erase kt a k ha hk, ← keyEq_erase kt a' k' ha' hk', ea, ek]

theorem mapInsert_congr (kt : Ty) (acc acc' : List (Val × Val)) (k k' v v' : Val)
    (hacc : ∀ p ∈ acc, notView p.1 = true) (hacc' : ∀ p ∈ acc', notView p.1 = true)
    (hk : notView k = true) (hk' : notView k' = true)
    (ea : eraseEntries acc = eraseEntries acc') (ek : erase k = erase k') (ev : erase v = erase v') :
    eraseEntries (mapInsert kt acc k v) = eraseEntries (mapInsert kt acc' k' v') := by
  rw [mapInsert_erase kt acc k v hacc hk, mapInsert_erase kt acc' k' v' hacc' hk', ea, ek, ev]

variable (hdf : ∀ sid, ∀ f ∈ (S.get sid).fields, ∀ d, f.dflt = some d → plain d = true)
include hdf

mutual
theorem readVal_te : ∀ (tv : TVal) (fuel : Nat) (t : Ty) (tail tail' : Nat) (dest dest' : Val),
    erase dest = erase dest' →
    (readVal P S total fuel t tv tail dest).mapv erase = (readVal P S total' fuel t tv tail' dest').mapv erase
  | tv, 0, t, tail, tail', dest, dest', _ => by simp [readVal]
  | tv, fuel + 1, t, tail, tail', dest, dest', hde => by
    by_cases hfx : specFixed t.tt > 0
    · have hr : ∀ (tot tl : Nat) (d : Val), readVal P S tot (fuel + 1) t tv tl d = readFixed t.tt tv := by
        intro tot tl d
        cases t with
        | base k => rw [readVal]; simp only [hfx, ↓reduceIte]
        | ptr e => rw [readVal]; simp only [hfx, ↓reduceIte]
        | strct s => simp [Ty.tt, specFixed] at hfx
        | map k v => simp [Ty.tt, specFixed] at hfx
        | list s e => cases s <;> simp [Ty.tt, specFixed] at hfx
      rw [hr, hr]
    · cases t with
      | base k =>
        rw [readVal, readVal]; simp only [hfx, ↓reduceIte]
        split
        · exact readStr_te _ _ _ _ _ _ _
        · rfl
      | ptr e => rw [readVal, readVal]
      | map kt vt =>
        cases tv with
        | map a b es =>
          rw [readVal, readVal]; simp only [hfx, ↓reduceIte]
          split
          · rfl
          · have ih := readEntries_te es fuel kt vt tail tail' [] [] (by simp) (by simp) rfl
            rcases mapv_eq_cases _ _ _ ih with ⟨x, y, h1, h2, e⟩ | ⟨e, h1, h2⟩ | ⟨p, h1, h2⟩
            · rw [h1, h2]; simp [Outcome.mapv, erase, e]
            · rw [h1, h2]
            · rw [h1, h2]
        | _ => unfold readVal; simp only [hfx, ↓reduceIte]
      | list s et =>
        cases tv with
        | list a xs =>
          rw [readVal, readVal]; simp only [hfx, ↓reduceIte]
          split
          · rfl
          · split
            · rfl
            · have ih := readList_te xs fuel et tail tail'
              rcases mapv_eq_cases _ _ _ ih with ⟨x, y, h1, h2, e⟩ | ⟨e, h1, h2⟩ | ⟨p, h1, h2⟩
              · rw [h1, h2]; simp [Outcome.mapv, erase, e]
              · rw [h1, h2]
              · rw [h1, h2]
        | set a xs =>
          rw [readVal, readVal]; simp only [hfx, ↓reduceIte]
          split
          · rfl
          · split
            · rfl
            · have ih := readList_te xs fuel et tail tail'
              rcases mapv_eq_cases _ _ _ ih with ⟨x, y, h1, h2, e⟩ | ⟨e, h1, h2⟩ | ⟨p, h1, h2⟩
              · rw [h1, h2]; simp [Outcome.mapv, erase, e]
              · rw [h1, h2]
              · rw [h1, h2]
        | _ => unfold readVal; simp only [hfx, ↓reduceIte]
      | strct sid =>
        cases tv with
        | strct fs =>
          rw [readVal, readVal]; simp only [hfx, ↓reduceIte]
          cases fuel with
          | zero => simp [readStruct]
          | succ f =>
            cases dest with
            | st vs hh =>
              obtain ⟨vs', rfl, evs⟩ := erase_eq_st dest' (eraseList vs) hh (by rw [← hde]; simp [erase])
              simp only
              have key : ∀ (ws ws' : List Val), eraseList ws = eraseList ws' →
                  (readStruct P S total (f + 1) sid fs tail (.st ws hh)).mapv erase =
                    (readStruct P S total' (f + 1) sid fs tail' (.st ws' hh)).mapv erase := by
                intro ws ws' ews
                rw [readStruct, readStruct]
                have ih := readFields_te fs f (S.get sid) (tail + 1) (tail' + 1) { fs := ws } { fs := ws' }
                  (by simp [eraseSt, ews])
                rcases mapv_eq_cases _ _ _ ih with ⟨x, y, h1, h2, e⟩ | ⟨e, h1, h2⟩ | ⟨p, h1, h2⟩
                · rw [h1, h2]
                  have e1 : eraseList x.fs = eraseList y.fs := by simpa [eraseSt] using congrArg LoopSt.fs e
                  have e2 : x.seen = y.seen := by simpa [eraseSt] using congrArg LoopSt.seen e
                  have e3 : x.unk = y.unk := by simpa [eraseSt] using congrArg LoopSt.unk e
                  simp only [e2, e3]
                  cases firstMissing (S.get sid).fields y.seen with
                  | some g => rfl
                  | none => simp [Outcome.mapv, erase, e1]
                · rw [h1, h2]
                · rw [h1, h2]
              by_cases hi : (S.get sid).hasInit = true
              · simp only [hi, ↓reduceIte]
                refine key _ _ ?_
                rw [eraseList_applyInit _ _ (hdf sid), eraseList_applyInit _ _ (hdf sid), evs]
              · simp only [hi, Bool.false_eq_true, ↓reduceIte]
                exact key _ _ evs.symm
            | _ => cases dest' <;> simp [erase] at hde <;> simp [readStruct]
        | _ => unfold readVal; simp only [hfx, ↓reduceIte]
theorem readFields_te : ∀ (fs : List (Nat × TVal)) (fuel : Nat) (sd : SDesc) (tail tail' : Nat) (st st' : LoopSt),
    eraseSt st = eraseSt st' →
    (readFields P S total fuel sd fs tail st).mapv eraseSt = (readFields P S total' fuel sd fs tail' st').mapv eraseSt
  | [], fuel, sd, tail, tail', st, st', he => by
    rw [readFields, readFields]; simp [Outcome.mapv, he]
  | (id, v) :: r, fuel, sd, tail, tail', st, st', he => by
    rw [readFields, readFields]
    have e1 : eraseList st.fs = eraseList st'.fs := by simpa [eraseSt] using congrArg LoopSt.fs he
    have e2 : st.seen = st'.seen := by simpa [eraseSt] using congrArg LoopSt.seen he
    have e3 : st.unk = st'.unk := by simpa [eraseSt] using congrArg LoopSt.unk he
    cases hk : lookupKnown sd id v.tag with
    | none =>
      simp only
      split
      · rfl
      · refine readFields_te r fuel sd tail tail' _ _ ?_
        cases sd.hasHolder <;> simp [eraseSt, e1, e2, e3]
    | some p =>
      obtain ⟨ix, f⟩ := p
      simp only
      have hslot : erase (st.fs.getD ix default) = erase (st'.fs.getD ix default) := by
        rw [← eraseList_getD, ← eraseList_getD, e1]
      have ih := readField_te P S total total' fuel f v ((serFields r).length + tail) ((serFields r).length + tail')
        _ _ hslot (fun dest dest' hd => readVal_te v fuel f.ty.deref _ _ dest dest' hd)
      rcases mapv_eq_cases _ _ _ ih with ⟨x, y, h1, h2, e⟩ | ⟨e, h1, h2⟩ | ⟨p, h1, h2⟩
      · rw [h1, h2]
        simp only
        refine readFields_te r fuel sd tail tail' _ _ ?_
        simp [eraseSt, eraseList_set, e1, e2, e3, e]
      · rw [h1, h2]
      · rw [h1, h2]
theorem readList_te : ∀ (xs : List TVal) (fuel : Nat) (et : Ty) (tail tail' : Nat),
    (readList P S total fuel et xs tail).mapv eraseList = (readList P S total' fuel et xs tail').mapv eraseList
  | [], fuel, et, tail, tail' => by rw [readList, readList]
  | x :: r, fuel, et, tail, tail' => by
    rw [readList, readList]
    have ih := readSlot_te P S total total' fuel et x ((serList r).length + tail) ((serList r).length + tail')
      (zeroVal S S.length et) (zeroVal S S.length et) rfl
      (fun dest dest' hd => readVal_te x fuel et.deref _ _ dest dest' hd)
    rcases mapv_eq_cases _ _ _ ih with ⟨a, b, h1, h2, e⟩ | ⟨e, h1, h2⟩ | ⟨p, h1, h2⟩
    · rw [h1, h2]
      simp only
      have ih2 := readList_te r fuel et tail tail'
      rcases mapv_eq_cases _ _ _ ih2 with ⟨as, bs, g1, g2, e'⟩ | ⟨e', g1, g2⟩ | ⟨p, g1, g2⟩
      · rw [g1, g2]; simp [Outcome.mapv, eraseList, e, e']
      · rw [g1, g2]
      · rw [g1, g2]
    · rw [h1, h2]
    · rw [h1, h2]
theorem readEntries_te : ∀ (es : List (TVal × TVal)) (fuel : Nat) (kt vt : Ty) (tail tail' : Nat)
    (acc acc' : List (Val × Val)), (∀ p ∈ acc, notView p.1 = true) → (∀ p ∈ acc', notView p.1 = true) →
    eraseEntries acc = eraseEntries acc' →
    (readEntries P S total fuel kt vt es tail acc).mapv eraseEntries =
      (readEntries P S total' fuel kt vt es tail' acc').mapv eraseEntries
  | [], fuel, kt, vt, tail, tail', acc, acc', _, _, he => by
    rw [readEntries, readEntries]; simp [Outcome.mapv, he]
  | (a, b) :: r, fuel, kt, vt, tail, tail', acc, acc', hacc, hacc', he => by
    rw [readEntries, readEntries]
    have ihk := readSlot_te P S total total' fuel kt a ((ser b).length + ((serEntries r).length + tail))
      ((ser b).length + ((serEntries r).length + tail')) (zeroVal S S.length kt) (zeroVal S S.length kt) rfl
      (fun dest dest' hd => readVal_te a fuel kt.deref _ _ dest dest' hd)
    rcases mapv_eq_cases _ _ _ ihk with ⟨k1, k2, h1, h2, ek⟩ | ⟨e, h1, h2⟩ | ⟨p, h1, h2⟩
    · rw [h1, h2]
      simp only
      have ihv := readSlot_te P S total total' fuel vt b ((serEntries r).length + tail)
        ((serEntries r).length + tail') (zeroVal S S.length vt) (zeroVal S S.length vt) rfl
        (fun dest dest' hd => readVal_te b fuel vt.deref _ _ dest dest' hd)
      rcases mapv_eq_cases _ _ _ ihv with ⟨v1, v2, g1, g2, ev⟩ | ⟨e, g1, g2⟩ | ⟨p, g1, g2⟩
      · rw [g1, g2]
        simp only
        have nk1 := readSlot_notView P S total fuel kt a _ _ k1 h1
        have nk2 := readSlot_notView P S total' fuel kt a _ _ k2 h2
        exact readEntries_te r fuel kt vt tail tail' _ _
          (mapInsert_keys_notView kt acc k1 v1 hacc nk1) (mapInsert_keys_notView kt acc' k2 v2 hacc' nk2)
          (mapInsert_congr kt acc acc' k1 k2 v1 v2 hacc hacc' nk1 nk2 he ek ev)
      · rw [g1, g2]
      · rw [g1, g2]
    · rw [h1, h2]
    · rw [h1, h2]
end
end
end Frugal
