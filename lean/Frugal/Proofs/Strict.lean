/-
  Strict.lean — what frugal writes is strictly well-formed: every container code in the denotation
  of a value is a protocol type code (also for empty containers), on top of `toWire_wf`.
-/
import Frugal.Proofs.ToWire
set_option linter.unusedSimpArgs false
set_option linter.unusedVariables false
namespace Frugal

mutual
theorem toWire_codesStrict (S : Schema) : ∀ (v : Val) (ty : Ty), codesStrict (toWire S ty v) = true
  | .sc n, ty => by
    cases ty with
    | base k => cases k <;> simp [toWire, scalarTVal, codesStrict]
    | _ => simp [toWire, codesStrict, codesStrictFields]
  | .str s, ty => by cases ty <;> simp [toWire, codesStrict, codesStrictFields]
  | .bin n s, ty => by cases ty <;> simp [toWire, codesStrict, codesStrictFields]
  | .nilp, ty => by
    cases ty with
    | ptr e => cases e <;> simp [toWire, codesStrict, codesStrictFields]
    | _ => simp [toWire, codesStrict, codesStrictFields]
  | .ptr v, ty => by
    cases ty with
    | ptr e => simp only [toWire]; exact toWire_codesStrict S v e
    | _ => simp [toWire, codesStrict, codesStrictFields]
  | .lst n xs, ty => by
    cases ty with
    | list s e =>
      have := toWireList_codesStrict S xs e
      cases s <;> simp [toWire, codesStrict, isCode_wire', this]
    | _ => simp [toWire, codesStrict, codesStrictFields]
  | .mp n es, ty => by
    cases ty with
    | map k v =>
      have := toWireEntries_codesStrict S es k v
      simp [toWire, codesStrict, isCode_wire', this]
    | _ => simp [toWire, codesStrict, codesStrictFields]
  | .st fs h, ty => by
    cases ty with
    | strct sid =>
      simp only [toWire, codesStrict]
      exact toWireFields_codesStrict S fs (S.get sid) (S.get sid).fields
    | _ => simp [toWire, codesStrict, codesStrictFields]
  | .vstr _ _, ty => by cases ty <;> simp [toWire, codesStrict, codesStrictFields]
  | .vbin _ _, ty => by cases ty <;> simp [toWire, codesStrict, codesStrictFields]
theorem toWireList_codesStrict (S : Schema) : ∀ (xs : List Val) (e : Ty),
    codesStrictList (toWireList S e xs) = true
  | [], _ => rfl
  | x :: r, e => by
    simp [toWireList, codesStrictList, toWire_codesStrict S x e, toWireList_codesStrict S r e]
theorem toWireEntries_codesStrict (S : Schema) : ∀ (es : List (Val × Val)) (k v : Ty),
    codesStrictEntries (toWireEntries S k v es) = true
  | [], _, _ => rfl
  | (a, b) :: r, k, v => by
    simp [toWireEntries, codesStrictEntries, toWire_codesStrict S a k, toWire_codesStrict S b v,
      toWireEntries_codesStrict S r k v]
theorem toWireFields_codesStrict (S : Schema) : ∀ (xs : List Val) (sd : SDesc) (fs : List Field),
    codesStrictFields (toWireFields S sd fs xs) = true
  | [], _, fs => by cases fs <;> simp [toWireFields, codesStrictFields]
  | x :: xr, sd, [] => by simp [toWireFields, codesStrictFields]
  | x :: xr, sd, f :: fr => by
    have ih := toWireFields_codesStrict S xr sd fr
    simp only [toWireFields]
    split
    · simp [codesStrictFields, toWire_codesStrict S x f.ty, ih]
    · exact ih
end

end Frugal

namespace Frugal

/-- the ids of the message a struct value denotes: a sublist of the field table's ids, in table
    order — with distinct ids in the table, each written field appears exactly once -/
theorem toWireFields_ids_sublist (S : Schema) (sd : SDesc) : ∀ (fs : List Field) (xs : List Val),
    ((toWireFields S sd fs xs).map (·.1)).Sublist (fs.map (·.id))
  | [], _ => by simp [toWireFields]
  | f :: fr, [] => by simp [toWireFields]
  | f :: fr, x :: xr => by
    have ih := toWireFields_ids_sublist S sd fr xr
    simp only [toWireFields]
    split
    · simp only [List.map_cons]; exact ih.cons₂ _
    · simp only [List.map_cons]; exact ih.cons _

theorem toWireFields_ids_distinct (S : Schema) (sd : SDesc) (fs : List Field) (xs : List Val)
    (h : fs.Pairwise (fun a b => a.id ≠ b.id)) :
    ((toWireFields S sd fs xs).map (·.1)).Pairwise (· ≠ ·) := by
  have h' : (fs.map (·.id)).Pairwise (· ≠ ·) := by rw [List.pairwise_map]; exact h
  exact h'.sublist (toWireFields_ids_sublist S sd fs xs)

/-- nil non-optional containers are written empty, a nil struct pointer as an empty struct -/
theorem toWire_nil (S : Schema) (s : Bool) (e k v : Ty) (sid : Nat) :
    toWire S (.list s e) (.lst true []) = (if s then .set e.wire [] else .list e.wire []) ∧
    toWire S (.map k v) (.mp true []) = .map k.wire v.wire [] ∧
    toWire S (.ptr (.strct sid)) .nilp = .strct [] := by
  refine ⟨?_, ?_, ?_⟩ <;> simp [toWire, toWireList, toWireEntries]

end Frugal
