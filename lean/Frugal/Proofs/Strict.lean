/-
  Strict.lean — what frugal writes is strictly well-formed: every container code in the denotation
  of a value is a protocol type code (also for empty containers), on top of `toWire_wf`.
-/
import Frugal.Proofs.ToWire
set_option linter.unusedSimpArgs false
set_option linter.unusedVariables false
namespace Frugal

mutual
theorem toWire_codesStrict (S : Schema) : ∀ (v : Val) (ty : Ty), codesStrict (toWire S ty v) = true
  | .sc n, ty => by
    cases ty with
    | base k => cases k <;> simp [toWire, scalarTVal, codesStrict]
    | _ => simp [toWire, codesStrict, codesStrictFields]
  | .str s, ty => by cases ty <;> simp [toWire, codesStrict, codesStrictFields]
  | .bin n s, ty => by cases ty <;> simp [toWire, codesStrict, codesStrictFields]
  | .nilp, ty => by
    cases ty with
    | ptr e => cases e <;> simp [toWire, codesStrict, codesStrictFields]
    | _ => simp [toWire, codesStrict, codesStrictFields]
  | .ptr v, ty => by
    cases ty with
    | ptr e => simp only [toWire]; exact toWire_codesStrict S v e
    | _ => simp [toWire, codesStrict, codesStrictFields]
  | .lst n xs, ty => by
    cases ty with
    | list s e =>
      have := toWireList_codesStrict S xs e
      cases s <;> simp [toWire, codesStrict, isCode_wire', this]
    | _ => simp [toWire, codesStrict, codesStrictFields]
  | .mp n es, ty => by
    cases ty with
    | map k v =>
      have := toWireEntries_codesStrict S es k v
      simp [toWire, codesStrict, isCode_wire', this]
    | _ => simp [toWire, codesStrict, codesStrictFields]
  | .st fs h, ty => by
    cases ty with
    | strct sid =>
      simp only [toWire, codesStrict]
      exact toWireFields_codesStrict S fs (S.get sid) (S.get sid).fields
    | _ => simp [toWire, codesStrict, codesStrictFields]
  | .vstr _ _, ty => by cases ty <;> simp [toWire, codesStrict, codesStrictFields]
  | .vbin _ _, ty => by cases ty <;> simp [toWire, codesStrict, codesStrictFields]
theorem toWireList_codesStrict (S : Schema) : ∀ (xs : List Val) (e : Ty),
    codesStrictList (toWireList S e xs) = true
  | [], _ => rfl
  | x :: r, e => by
    simp [toWireList, codesStrictList, toWire_codesStrict S x e, toWireList_codesStrict S r e]
theorem toWireEntries_codesStrict (S : Schema) : ∀ (es : List (Val × Val)) (k v : Ty),
    codesStrictEntries (toWireEntries S k v es) = true
  | [], _, _ => rfl
  | (a, b) :: r, k, v => by
    simp [toWireEntries, codesStrictEntries, toWire_codesStrict S a k, toWire_codesStrict S b v,
      toWireEntries_codesStrict S r k v]
theorem toWireFields_codesStrict (S : Schema) : ∀ (xs : List Val) (sd : SDesc) (fs : List Field),
    codesStrictFields (toWireFields S sd fs xs) = true
  | [], _, fs => by cases fs <;> simp [toWireFields, codesStrictFields]
  | x :: xr, sd, [] => by simp [toWireFields, codesStrictFields]
  | x :: xr, sd, f :: fr => by
    have ih := toWireFields_codesStrict S xr sd fr
    simp only [toWireFields]
    split
    · simp [codesStrictFields, toWire_codesStrict S x f.ty, ih]
    · exact ih
end

end Frugal
