/-
  SizeExact.lean — the separate size walk (`EncodedSize` / `encodedMapSize` / `encodedListSize`,
  with the precomputed fixed part and the count × width shortcuts) returns exactly the number of
  bytes the encoder writes.
-/
import Frugal.Proofs.EncodeRefine
set_option linter.unusedSimpArgs false
namespace Frugal

macro "hasTy_no" h:ident : tactic => `(tactic| (unfold hasTy at $h:ident; simp at $h:ident; done))

theorem encScalar_len (k : Kind) (n : Nat) : (encScalar k n).length = specFixed k.tt := by
  cases k <;> simp [encScalar, specFixed, Kind.tt]

/-- a value of a fixed-size, non-pointer type is a scalar of a base kind -/
theorem sc_of_fixed (S : Schema) (ty : Ty) (x : Val) (hf : specFixed ty.tt > 0) (hp : ty.isPtr = false)
    (ht : hasTy S ty x = true) : ∃ k n, ty = .base k ∧ x = .sc n := by
  cases ty with
  | base k =>
    cases x with
    | sc n => exact ⟨k, n, rfl, rfl⟩
    | _ => cases k <;> first | hasTy_no ht | simp [Ty.tt, Kind.tt, specFixed] at hf
  | ptr e => simp [Ty.isPtr] at hp
  | strct s => simp [Ty.tt, specFixed] at hf
  | list s e => cases s <;> simp [Ty.tt, specFixed] at hf
  | map k v => simp [Ty.tt, specFixed] at hf

theorem str_of_string (S : Schema) (ty : Ty) (x : Val) (hs : ty.tt = .string) (hp : ty.isPtr = false)
    (ht : hasTy S ty x = true) : (∃ s, x = .str s) ∨ (∃ n s, x = .bin n s) := by
  cases ty with
  | base k =>
    cases x with
    | str s => exact Or.inl ⟨s, rfl⟩
    | bin n s => exact Or.inr ⟨n, s, rfl⟩
    | _ => cases k <;> first | hasTy_no ht | simp [Ty.tt, Kind.tt] at hs
  | ptr e => simp [Ty.isPtr] at hp
  | strct s => simp [Ty.tt] at hs
  | list s e => cases s <;> simp [Ty.tt] at hs
  | map k v => simp [Ty.tt] at hs

/-- a non-nil value of a pointer type is a pointer to a value of the element type -/
theorem ptr_of_nonnil (S : Schema) (e : Ty) (x : Val) (ht : hasTy S (.ptr e) x = true)
    (hn : isNilWord x = false) : ∃ v, x = .ptr v ∧ e.isPtr = false ∧ hasTy S e v = true := by
  cases x with
  | ptr v =>
    simp only [hasTy, Bool.and_eq_true, Bool.not_eq_true'] at ht
    exact ⟨v, rfl, ht.1, ht.2⟩
  | nilp => simp [isNilWord] at hn
  | _ => hasTy_no ht

theorem fixed_len (S : Schema) (ty : Ty) (x : Val) (hf : specFixed ty.tt > 0)
    (ht : hasTy S ty x = true) (hn : isNilWord x = false) : (refEnc S ty x).length = specFixed ty.tt := by
  by_cases hp : ty.isPtr = true
  · cases ty with
    | ptr e =>
      obtain ⟨v, rfl, hep, hv⟩ := ptr_of_nonnil S e x ht hn
      obtain ⟨k, n, rfl, rfl⟩ := sc_of_fixed S e v (by simpa [Ty.tt] using hf) hep hv
      simp [refEnc, encScalar_len, Ty.tt]
    | _ => simp [Ty.isPtr] at hp
  · obtain ⟨k, n, rfl, rfl⟩ := sc_of_fixed S ty x hf (by simpa using hp) ht
    simp [refEnc, encScalar_len, Ty.tt]

theorem str_len (S : Schema) (ty : Ty) (x : Val) (hs : ty.tt = .string)
    (ht : hasTy S ty x = true) (hn : isNilWord x = false ∨ ty.isPtr = false) :
    (refEnc S ty x).length = 4 + strLen x := by
  by_cases hp : ty.isPtr = true
  · cases ty with
    | ptr e =>
      have hn' : isNilWord x = false := by rcases hn with h | h; exact h; simp [Ty.isPtr] at h
      obtain ⟨v, rfl, hep, hv⟩ := ptr_of_nonnil S e x ht hn'
      have hse : e.tt = .string := by simpa [Ty.tt] using hs
      have hb : ∃ k, e = .base k := by
        cases e with
        | base k => exact ⟨k, rfl⟩
        | ptr _ => simp [Ty.isPtr] at hep
        | strct _ => simp [Ty.tt] at hse
        | list s _ => cases s <;> simp [Ty.tt] at hse
        | map _ _ => simp [Ty.tt] at hse
      obtain ⟨k, rfl⟩ := hb
      rcases str_of_string S _ v hse hep hv with ⟨s, rfl⟩ | ⟨n, s, rfl⟩ <;>
        simp [refEnc, encStr, strLen] <;> omega
    | _ => simp [Ty.isPtr] at hp
  · have hp' : ty.isPtr = false := by simpa using hp
    have hb : ∃ k, ty = .base k := by
      cases ty with
      | base k => exact ⟨k, rfl⟩
      | ptr _ => simp [Ty.isPtr] at hp'
      | strct _ => simp [Ty.tt] at hs
      | list s _ => cases s <;> simp [Ty.tt] at hs
      | map _ _ => simp [Ty.tt] at hs
    obtain ⟨k, rfl⟩ := hb
    rcases str_of_string S _ x hs hp' ht with ⟨s, rfl⟩ | ⟨n, s, rfl⟩ <;>
      simp [refEnc, encStr, strLen] <;> omega

theorem notSimple_of (t : TT) (h0 : specFixed t = 0) (hs : t ≠ .string) : specSimple t = false := by
  cases t <;> simp [specFixed, specSimple] at *

theorem simple_of_fixed (t : TT) (h : specFixed t > 0) : specSimple t = true := by
  cases t <;> simp [specFixed, specSimple] at *

theorem elem_notPtr {e : Ty} (h : (!e.isPtr || e.isStructPtr) = true) (hs : specSimple e.tt = true) :
    e.isPtr = false := by
  cases e with
  | ptr x => cases x <;> simp [Ty.isPtr, Ty.isStructPtr, Ty.tt, specSimple] at h hs
  | _ => rfl

/-- size of one value that is written: the three-way branch of the size walk -/
theorem valueSize {P : Params} (hP : P.valid = true) (S : Schema) (ty : Ty) (x : Val)
    (ht : hasTy S ty x = true) (hn : specSimple ty.tt = true → isNilWord x = false ∨ ty.isPtr = false)
    (hrec : specSimple ty.tt = false → sizeFunc P S ty x = (refEnc S ty x).length) :
    (if specFixed ty.tt > 0 then specFixed ty.tt
     else if (ty.tt == TT.string) = true then P.strHeaderLen + strLen x
     else sizeFunc P S ty x) = (refEnc S ty x).length := by
  by_cases hf : specFixed ty.tt > 0
  · simp only [hf, ↓reduceIte]
    have hnil : isNilWord x = false := by
      rcases hn (simple_of_fixed _ hf) with h | h
      · exact h
      · obtain ⟨k, n, rfl, rfl⟩ := sc_of_fixed S ty x hf h ht; rfl
    exact (fixed_len S ty x hf ht hnil).symm
  · simp only [hf, ↓reduceIte]
    by_cases hs : ty.tt = .string
    · simp only [hs, beq_self_eq_true, ↓reduceIte, (headers_eq hP).2.2.2]
      exact (str_len S ty x hs ht (hn (by rw [hs]; rfl))).symm
    · have : (ty.tt == TT.string) = false := by simpa using hs
      simp only [this, Bool.false_eq_true, ↓reduceIte]
      exact hrec (notSimple_of _ (by omega) hs)

theorem sizeEntries_done (P : Params) (S : Schema) (k v : Ty) (es : List (Val × Val)) :
    sizeEntries P S true true k v es = 0 := by
  induction es with
  | nil => simp [sizeEntries]
  | cons a t ih => obtain ⟨x, y⟩ := a; simp [sizeEntries, ih]

/-- the contribution of one struct field to the size walk equals the bytes written for it -/
theorem fieldSize {P : Params} (hP : P.valid = true) (S : Schema) (sd : SDesc) (f : Field) (x : Val)
    (hfok : f.ok = true) (ht : hasTy S f.ty x = true)
    (hrec : specSimple f.ty.tt = false → sizeFunc P S f.ty x = (refEnc S f.ty x).length) :
    (fieldFixedSize P f).getD 0 +
      (if (fieldFixedSize P f).isSome = true then 0
       else if (canSkipNil P f && isNilWord x) = true then 0
       else if (canSkipDefault sd f && goEqual f.ty.tt f.default x) = true then 0
       else if P.fixedSize f.ty.tt > 0 then P.fieldHeaderLen + P.fixedSize f.ty.tt
       else if (f.ty.tt == TT.string) = true then P.fieldHeaderLen + P.strHeaderLen + strLen x
       else P.fieldHeaderLen + sizeFunc P S f.ty x) =
    (if fieldWritten sd f x = true then u8 f.ty.wire :: be16 f.id ++ refEnc S f.ty x else []).length := by
  rw [← skip_eq hP sd f x]
  simp only [Field.ok, Bool.and_eq_true, Bool.or_eq_true, beq_iff_eq] at hfok
  obtain ⟨⟨⟨hty, hptr⟩, _⟩, _⟩ := hfok
  have hfh := (headers_eq hP).1
  have hsh := (headers_eq hP).2.2.2
  -- the generic "written" size
  have written : ∀ (hn : isNilWord x = false ∨ f.ty.isPtr = false),
      (if P.fixedSize f.ty.tt > 0 then P.fieldHeaderLen + P.fixedSize f.ty.tt
       else if (f.ty.tt == TT.string) = true then P.fieldHeaderLen + P.strHeaderLen + strLen x
       else P.fieldHeaderLen + sizeFunc P S f.ty x) = 3 + (refEnc S f.ty x).length := by
    intro hn
    have := valueSize hP S f.ty x ht (fun _ => hn) hrec
    rw [← this, fixed_eq hP, hfh]
    by_cases a : specFixed f.ty.tt > 0
    · simp [a]
    · by_cases b : (f.ty.tt == TT.string) = true
      · simp [a, b]; omega
      · simp [a, b]
  by_cases hp : f.ty.isPtr = true
  · have hff : fieldFixedSize P f = none := by simp [fieldFixedSize, hp]
    have hsn : canSkipNil P f = (f.req == .optional) := by rw [skipNil_eq hP]; simp [hp]
    have hsd : canSkipDefault sd f = false := by simp [canSkipDefault, hp]
    simp only [hff, Option.getD_none, Option.isSome_none, Bool.false_eq_true, ↓reduceIte, hsd,
      Bool.false_and, Bool.not_false, Bool.and_true, Nat.zero_add]
    by_cases hnil : isNilWord x = true
    · by_cases hopt : f.req = .optional
      · simp [hsn, hopt, hnil]
      · have hreq : (f.req == Req.optional) = false := by simpa using hopt
        simp only [hsn, hreq, Bool.false_and, Bool.false_eq_true, ↓reduceIte, Bool.not_false]
        -- a nil struct pointer: written as an empty struct
        have hsp : f.ty.isStructPtr = true := by
          rcases hptr with (h | h) | h
          · simp [hp] at h
          · exact h
          · exact absurd h hopt
        cases hft : f.ty with
        | ptr e =>
          cases e with
          | strct sid =>
            rw [hft] at ht hrec
            have hx : x = .nilp := by
              cases x with
              | nilp => rfl
              | ptr v => simp [isNilWord] at hnil
              | _ => first | (simp [isNilWord] at hnil; done) | hasTy_no ht
            subst hx
            have := hrec (by simp [Ty.tt, specSimple])
            simp [fixed_eq hP, Ty.tt, specFixed, hfh, this, refEnc]
          | _ => simp [hft, Ty.isStructPtr] at hsp
        | _ => simp [hft, Ty.isStructPtr] at hsp
    · have hnil' : isNilWord x = false := by simpa using hnil
      simp only [hnil', Bool.and_false, Bool.false_eq_true, ↓reduceIte, Bool.not_false]
      rw [written (Or.inl hnil')]
      simp; omega
  · have hp' : f.ty.isPtr = false := by simpa using hp
    by_cases hopt : f.req = .optional
    · have hff : fieldFixedSize P f = none := by simp [fieldFixedSize, hp', hopt]
      simp only [hff, Option.getD_none, Option.isSome_none, Bool.false_eq_true, ↓reduceIte, Nat.zero_add]
      by_cases h1 : (canSkipNil P f && isNilWord x) = true
      · simp [h1]
      · have h1' : (canSkipNil P f && isNilWord x) = false := by simpa using h1
        simp only [h1', Bool.false_eq_true, ↓reduceIte, Bool.not_false, Bool.true_and]
        by_cases h2 : (canSkipDefault sd f && goEqual f.ty.tt f.default x) = true
        · simp [h2]
        · have h2' : (canSkipDefault sd f && goEqual f.ty.tt f.default x) = false := by simpa using h2
          simp only [h2', Bool.false_eq_true, ↓reduceIte, Bool.not_false]
          rw [written (Or.inr hp')]
          simp; omega
    · have hreq : (f.req == Req.optional) = false := by simpa using hopt
      have hsn : canSkipNil P f = false := by simp [canSkipNil, hreq]
      have hsd : canSkipDefault sd f = false := by simp [canSkipDefault, hreq]
      simp only [hsn, hsd, Bool.false_and, Bool.not_false, Bool.and_self, ↓reduceIte, Bool.false_eq_true]
      by_cases hf : specFixed f.ty.tt > 0
      · have hff : fieldFixedSize P f = some (P.fieldHeaderLen + P.fixedSize f.ty.tt) := by
          simp [fieldFixedSize, hp', hreq, fixed_eq hP, hf]
        obtain ⟨k, n, hk, rfl⟩ := sc_of_fixed S f.ty x hf hp' ht
        have := fixed_len S f.ty (.sc n) hf ht rfl
        simp [hff, fixed_eq hP, hfh, this]; omega
      · have hff : fieldFixedSize P f = none := by
          simp [fieldFixedSize, hp', hreq, fixed_eq hP, hf]
        simp only [hff, Option.getD_none, Option.isSome_none, Bool.false_eq_true, ↓reduceIte, Nat.zero_add]
        rw [written (Or.inr hp')]
        simp; omega

/-- `count × width` shortcut: a list of fixed-size elements -/
theorem fixedList_len (S : Schema) (e : Ty) (hf : specFixed e.tt > 0) (hp : e.isPtr = false) :
    ∀ ys : List Val, hasTyList S e ys = true → (refEncList S e ys).length = ys.length * specFixed e.tt
  | [], _ => by simp [refEncList]
  | y :: r, hy => by
    simp only [hasTyList, Bool.and_eq_true] at hy
    obtain ⟨k, n, rfl, rfl⟩ := sc_of_fixed S e y hf hp hy.1
    have := fixed_len S (.base k) (.sc n) hf hy.1 rfl
    simp only [refEncList, List.length_append, List.length_cons, this, fixedList_len S _ hf hp r hy.2]
    rw [Nat.add_mul]; omega

theorem base_simple (k : Kind) : specSimple (Ty.base k).tt = true := by cases k <;> rfl

mutual
theorem sizeFunc_eq {P : Params} (hP : P.valid = true) (S : Schema) (hS : S.ok = true) :
    ∀ (v : Val) (ty : Ty), ty.ok = true → hasTy S ty v = true → specSimple ty.tt = false →
      sizeFunc P S ty v = (refEnc S ty v).length
  | .ptr v, ty, hok, ht, hs => by
    cases ty with
    | ptr e =>
      simp only [hasTy, Bool.and_eq_true] at ht
      have hoke : e.ok = true := by cases e <;> simp [Ty.ok] at hok ⊢
      simp only [sizeFunc, Ty.deref, refEnc]
      exact sizeFunc_eq hP S hS v e hoke ht.2 (by simpa [Ty.tt] using hs)
    | base k => rw [base_simple] at hs; cases hs
    | _ => hasTy_no ht
  | .nilp, ty, hok, ht, hs => by
    cases ty with
    | ptr e =>
      cases e with
      | strct sid => simp [sizeFunc, refEnc]
      | base k => have := base_simple k; simp [Ty.tt] at hs this; rw [this] at hs; cases hs
      | _ => simp [Ty.ok] at hok
    | base k => rw [base_simple] at hs; cases hs
    | _ => hasTy_no ht
  | .st fs h, ty, _, ht, hs => by
    cases ty with
    | strct sid =>
      simp only [hasTy, Bool.and_eq_true, Bool.or_eq_true] at ht
      have hsd : (S.get sid).ok = true := by
        simp only [Schema.ok, List.all_eq_true] at hS
        simp only [Schema.get, List.getD_eq_getElem?_getD]
        cases hg : S[sid]? with
        | none => simp [SDesc.ok]
        | some sd => simpa using hS sd (List.mem_of_getElem? hg)
      simp only [SDesc.ok, List.all_eq_true] at hsd
      simp only [sizeFunc, refEnc, List.length_append, List.length_cons, List.length_nil]
      rw [sizeFields_eq hP S hS fs (S.get sid) (S.get sid).fields (fun f hf => hsd f hf) ht.2]
      rcases ht.1 with hh | hh
      · simp [hh]
      · have : h = [] := by simpa using hh
        simp [this]
    | base k => rw [base_simple] at hs; cases hs
    | _ => hasTy_no ht
  | .lst n xs, ty, hok, ht, hs => by
    cases ty with
    | list s e =>
      simp only [hasTy, Bool.and_eq_true, Bool.or_eq_true] at ht
      simp only [Ty.ok, Bool.and_eq_true] at hok
      have hlh := (headers_eq hP).2.2.1
      simp only [sizeFunc, refEnc, List.length_cons, List.length_append, be32_length, hlh, fixed_eq hP]
      cases n with
      | true =>
        have : xs = [] := by rcases ht.1 with h | h <;> simp at h; exact h
        subst this; simp [refEncList]
      | false =>
        simp only [Bool.false_eq_true, ↓reduceIte]
        by_cases hf : specFixed e.tt > 0
        · simp only [hf, ↓reduceIte]
          have hnp := elem_notPtr hok.2 (simple_of_fixed _ hf)
          rw [fixedList_len S e hf hnp xs ht.2]
        · simp only [hf, ↓reduceIte]
          rw [sizeElems_eq hP S hS xs e hok.1 hok.2 (by omega) ht.2]
    | base k => rw [base_simple] at hs; cases hs
    | _ => hasTy_no ht
  | .mp n es, ty, hok, ht, hs => by
    cases ty with
    | map k v =>
      simp only [hasTy, Bool.and_eq_true, Bool.or_eq_true] at ht
      simp only [Ty.ok, Bool.and_eq_true] at hok
      obtain ⟨⟨⟨hk, hv⟩, hvp⟩, hkk⟩ := hok
      have hkp : (!k.isPtr || k.isStructPtr) = true := by
        cases k <;> simp [Ty.isPtr, Ty.isStructPtr] at hkk ⊢
        rename_i e; cases e <;> simp at hkk ⊢
      have hmh := (headers_eq hP).2.1
      simp only [sizeFunc, refEnc, List.length_cons, List.length_append, be32_length, hmh, fixed_eq hP]
      cases n with
      | true =>
        have : es = [] := by rcases ht.1 with h | h <;> simp at h; exact h
        subst this; simp [refEncEntries]
      | false =>
        simp only [Bool.false_eq_true, ↓reduceIte]
        by_cases he : es.length = 0
        · have : es = [] := List.length_eq_zero_iff.mp he
          subst this; simp [refEncEntries]
        · simp only [he, ↓reduceIte]
          have := sizeEntries_eq hP S hS es k v hk hv hkp hvp ht.2
          simp only [fixed_eq hP] at this
          by_cases h1 : specFixed k.tt > 0 <;> by_cases h2 : specFixed v.tt > 0 <;>
            simp only [h1, h2, decide_true, decide_false, Bool.and_self, Bool.and_false, Bool.false_and,
              Bool.true_and, ↓reduceIte, Bool.false_eq_true, sizeEntries_done] at this ⊢ <;> omega
    | base k => rw [base_simple] at hs; cases hs
    | _ => hasTy_no ht
  | .sc _, ty, _, ht, hs => by
    cases ty with
    | base k => rw [base_simple] at hs; cases hs
    | _ => hasTy_no ht
  | .str _, ty, _, ht, hs => by
    cases ty with
    | base k => rw [base_simple] at hs; cases hs
    | _ => hasTy_no ht
  | .bin _ _, ty, _, ht, hs => by
    cases ty with
    | base k => rw [base_simple] at hs; cases hs
    | _ => hasTy_no ht
  | .vstr _ _, ty, _, ht, hs => by
    cases ty with
    | base k => rw [base_simple] at hs; cases hs
    | _ => hasTy_no ht
  | .vbin _ _, ty, _, ht, hs => by
    cases ty with
    | base k => rw [base_simple] at hs; cases hs
    | _ => hasTy_no ht
theorem sizeElems_eq {P : Params} (hP : P.valid = true) (S : Schema) (hS : S.ok = true) :
    ∀ (xs : List Val) (e : Ty), e.ok = true → (!e.isPtr || e.isStructPtr) = true → specFixed e.tt = 0 →
      hasTyList S e xs = true → sizeElems P S e xs = (refEncList S e xs).length
  | [], _, _, _, _, _ => by simp [sizeElems, refEncList]
  | x :: r, e, hok, hp, hf, ht => by
    simp only [hasTyList, Bool.and_eq_true] at ht
    simp only [sizeElems, refEncList, List.length_append]
    rw [sizeElems_eq hP S hS r e hok hp hf ht.2]
    have := valueSize hP S e x ht.1 (fun hs => Or.inr (elem_notPtr hp hs))
      (fun hs => sizeFunc_eq hP S hS x e hok ht.1 hs)
    simp only [hf, Nat.lt_irrefl, ↓reduceIte] at this
    rw [this]
theorem sizeEntries_eq {P : Params} (hP : P.valid = true) (S : Schema) (hS : S.ok = true) :
    ∀ (es : List (Val × Val)) (k v : Ty), k.ok = true → v.ok = true →
      (!k.isPtr || k.isStructPtr) = true → (!v.isPtr || v.isStructPtr) = true →
      hasTyEntries S k v es = true →
      (if specFixed k.tt > 0 then es.length * specFixed k.tt else 0) +
      (if specFixed v.tt > 0 then es.length * specFixed v.tt else 0) +
      sizeEntries P S (decide (P.fixedSize k.tt > 0)) (decide (P.fixedSize v.tt > 0)) k v es =
        (refEncEntries S k v es).length
  | [], _, _, _, _, _, _, _ => by simp [sizeEntries, refEncEntries]
  | (a, b) :: r, k, v, hk, hv, hkp, hvp, ht => by
    simp only [hasTyEntries, Bool.and_eq_true] at ht
    have ih := sizeEntries_eq hP S hS r k v hk hv hkp hvp ht.2
    have ka := valueSize hP S k a ht.1.1 (fun hs => Or.inr (elem_notPtr hkp hs))
      (fun hs => sizeFunc_eq hP S hS a k hk ht.1.1 hs)
    have vb := valueSize hP S v b ht.1.2 (fun hs => Or.inr (elem_notPtr hvp hs))
      (fun hs => sizeFunc_eq hP S hS b v hv ht.1.2 hs)
    simp only [fixed_eq hP] at ih ⊢
    simp only [refEncEntries, List.length_append, List.length_cons, sizeEntries, ← ka, ← vb, ← ih]
    by_cases h1 : specFixed k.tt > 0 <;> by_cases h2 : specFixed v.tt > 0 <;>
      simp only [h1, h2, decide_true, decide_false, ↓reduceIte, Bool.false_eq_true, Nat.add_mul] <;> omega
theorem sizeFields_eq {P : Params} (hP : P.valid = true) (S : Schema) (hS : S.ok = true) :
    ∀ (xs : List Val) (sd : SDesc) (fs : List Field), (∀ f ∈ fs, f.ok = true) →
      hasTyFields S fs xs = true →
      fixedLenFieldSize P fs + sizeVarFields P S sd fs xs = (refEncFields S sd fs xs).length
  | [], _, [], _, _ => by simp [fixedLenFieldSize, sizeVarFields, refEncFields]
  | [], _, _ :: _, _, ht => by simp [hasTyFields] at ht
  | _ :: _, _, [], _, ht => by simp [hasTyFields] at ht
  | x :: xr, sd, f :: fr, hok, ht => by
    simp only [hasTyFields, Bool.and_eq_true] at ht
    have ih := sizeFields_eq hP S hS xr sd fr (fun g hg => hok g (List.mem_cons_of_mem _ hg)) ht.2
    have hfok := hok f (List.mem_cons_self ..)
    have hty : f.ty.ok = true := by simp only [Field.ok, Bool.and_eq_true] at hfok; exact hfok.1.1.1
    have one := fieldSize hP S sd f x hfok ht.1 (fun hs => sizeFunc_eq hP S hS x f.ty hty ht.1 hs)
    simp only [fixedLenFieldSize, sizeVarFields, refEncFields, List.length_append, ← one, ← ih]
    omega
end

end Frugal
