/-
  ReadTypedE.lean — type soundness of the reference reader for *every* schema, `nocopy` fields
  included: forgetting where the bytes of views live (`erase`), what the reader returns for a
  well-formed message into a typed destination is a typed value.  (ReadTyped.lean is the same statement
  without `erase` for schemas that have no `nocopy` field; a view is not a value of `hasTy`, the string
  it shows is.)
-/
import Frugal.Proofs.ReadTyped
import Frugal.Proofs.EraseTail
import Frugal.Proofs.ClearNocopy2
set_option linter.unusedSimpArgs false
set_option linter.unusedVariables false
namespace Frugal

theorem erase_freshTarget (S : Schema) (t : Ty) (slot : Val) :
    erase (freshTarget S t slot) = freshTarget S t (erase slot) := by
  unfold freshTarget
  split
  · exact erase_zeroVal S _ _
  · rfl

theorem erase_initDest (S : Schema) (sid : Nat) (d : Val)
    (hdf : ∀ f ∈ (S.get sid).fields, ∀ x, f.dflt = some x → plain x = true) :
    erase (initDest S sid d) = initDest S sid (erase d) := by
  cases d with
  | st vs hh =>
    simp only [initDest, erase]
    split
    · simp only [erase, eraseList_applyInit _ _ hdf]
    · rfl
  | _ => rfl

/-- a string-tagged type is `string` or `binary` (possibly behind one pointer) -/
theorem string_deref (t : Ty) (hok : t.ok = true) (hs : t.tt = .string) :
    (t.deref = .base .string ∧ t.deref.isBinary = false) ∨ (t.deref = .base .binary ∧ t.deref.isBinary = true) := by
  cases t with
  | base k => cases k <;> simp [Ty.tt, Kind.tt, Ty.deref, Ty.isBinary] at hs ⊢
  | ptr e =>
    cases e with
    | base k => cases k <;> simp [Ty.tt, Kind.tt, Ty.deref, Ty.isBinary] at hs ⊢
    | strct s => simp [Ty.tt] at hs
    | ptr e' => simp [Ty.ok] at hok
    | list s e' => simp [Ty.ok] at hok
    | map a b => simp [Ty.ok] at hok
  | strct s => simp [Ty.tt] at hs
  | map a b => simp [Ty.tt] at hs
  | list s e => cases s <;> simp [Ty.tt] at hs

theorem readStr_typedE (S : Schema) (isBin nc : Bool) (total tail : Nat) (tv : TVal) (w : Val)
    (h : readStr isBin nc total tail tv = .ok w) :
    hasTy S (.base (if isBin then .binary else .string)) (erase w) = true := by
  cases tv <;> simp only [readStr] at h <;> try cases h
  split at h
  · cases h; cases isBin <;> simp [erase, hasTy]
  · cases h; cases nc <;> cases isBin <;> simp [erase, hasTy]

section
variable (P : Params) (S : Schema) (total : Nat) (hS : S.ok = true)
variable (hdt : ∀ sid, ∀ f ∈ (S.get sid).fields, ∀ d, f.dflt = some d → hasTy S f.ty d = true)
variable (hz : ∀ sid, hasTy S (.strct sid) (zeroVal S S.length (.strct sid)) = true)
include hS hdt hz

omit hS hdt in
theorem zeroVal_typed' (t : Ty) : hasTy S t (zeroVal S S.length t) = true := by
  cases t with
  | base k => cases k <;> simp [zeroVal, hasTy, Kind.bits]
  | strct sid => exact hz sid
  | list s e => simp [zeroVal, hasTy, hasTyList]
  | map k v => simp [zeroVal, hasTy, hasTyEntries]
  | ptr e => simp [zeroVal, hasTy]

omit hS hz in
theorem hdf_plain : ∀ sid, ∀ f ∈ (S.get sid).fields, ∀ d, f.dflt = some d → plain d = true :=
  fun sid f hf d hd => hasTy_plain S d f.ty (hdt sid f hf d hd)

omit hS hz in
theorem initDest_typed' (sid : Nat) (d : Val) (h : hasTy S (.strct sid) d = true) :
    ∃ ds hh, initDest S sid d = .st ds hh ∧ hasTyFields S (S.get sid).fields ds = true ∧
      ((S.get sid).hasHolder || hh.isEmpty) = true := by
  cases d with
  | st vs hh =>
    simp only [hasTy, Bool.and_eq_true] at h
    unfold initDest
    by_cases hi : (S.get sid).hasInit = true
    · simp only [hi, ↓reduceIte]
      exact ⟨_, _, rfl, applyInit_typed S _ _ (fun f hf _ d hd => hdt sid f hf d hd) h.2, h.1⟩
    · have : (S.get sid).hasInit = false := by simpa using hi
      simp only [this, Bool.false_eq_true, ↓reduceIte]
      exact ⟨_, _, rfl, h.2, h.1⟩
  | _ => hasTy_absurd h

omit hdt hz in
theorem field_ok' (sid : Nat) (f : Field) (hf : f ∈ (S.get sid).fields) :
    f.ty.ok = true ∧ (f.nocopy = true → f.ty.tt = .string) := by
  have hsd := sd_ok hS sid
  simp only [SDesc.ok, List.all_eq_true] at hsd
  have := hsd f hf
  simp only [Field.ok, Bool.and_eq_true, Bool.or_eq_true, Bool.not_eq_true', beq_iff_eq] at this
  refine ⟨this.1.1.1, fun hn => ?_⟩
  rcases this.1.2 with h' | h'
  · rw [hn] at h'; cases h'
  · exact h'

mutual
theorem readVal_typedE : ∀ (tv : TVal) (fuel : Nat) (t : Ty) (tail : Nat) (dest w : Val),
    t.ok = true → t.isPtr = false → wf tv = true → hasTy S t (erase dest) = true →
    readVal P S total fuel t tv tail dest = .ok w → hasTy S t (erase w) = true
  | tv, 0, t, tail, dest, w, _, _, _, _, h => by simp [readVal] at h
  | tv, fuel + 1, t, tail, dest, w, hok, hnp, hw, hd, h => by
    by_cases hfx : specFixed t.tt > 0
    · cases t with
      | base k =>
        rw [readVal] at h; simp only [hfx, ↓reduceIte] at h
        rw [(readFixed_erase _ _ _ h).1]
        exact readFixed_typed S k tv w hfx hw h
      | ptr e => simp [Ty.isPtr] at hnp
      | strct s => simp [Ty.tt, specFixed] at hfx
      | map k v => simp [Ty.tt, specFixed] at hfx
      | list s e => cases s <;> simp [Ty.tt, specFixed] at hfx
    · cases t with
      | base k =>
        rw [readVal] at h; simp only [hfx, ↓reduceIte] at h
        split at h
        · rename_i hs
          have := readStr_typedE S (k == .binary) false total tail tv w h
          cases k <;> simp [Ty.tt, Kind.tt] at hs <;> simpa using this
        · cases h
      | ptr e => simp [Ty.isPtr] at hnp
      | map kt vt =>
        simp only [Ty.ok, Bool.and_eq_true] at hok
        cases tv with
        | map a b es =>
          rw [readVal] at h; simp only [hfx, ↓reduceIte] at h
          simp only [wf, Bool.and_eq_true] at hw
          split at h
          · cases h
          · obtain ⟨es', h0, rfl⟩ := mapv_ok_inv _ _ _ h
            simp only [erase, hasTy, Bool.not_false, Bool.true_or, Bool.true_and]
            exact (readEntries_typedE es fuel kt vt tail [] es' a b hok.1.1.1 hok.1.1.2 hw.2 rfl
              (by intro p hp; cases hp) h0).1
        | _ => unfold readVal at h; simp only [hfx, ↓reduceIte] at h; cases h
      | list s et =>
        simp only [Ty.ok, Bool.and_eq_true] at hok
        cases tv with
        | list a xs =>
          rw [readVal] at h; simp only [hfx, ↓reduceIte] at h
          simp only [wf, Bool.and_eq_true] at hw
          split at h
          · cases h
          · split at h
            · cases h; simp [erase, eraseList, hasTy, hasTyList]
            · obtain ⟨xs', h0, rfl⟩ := mapv_ok_inv _ _ _ h
              simp only [erase, hasTy, Bool.not_false, Bool.true_or, Bool.true_and]
              exact readList_typedE xs fuel et tail xs' a hok.1 hw.2 h0
        | set a xs =>
          rw [readVal] at h; simp only [hfx, ↓reduceIte] at h
          simp only [wf, Bool.and_eq_true] at hw
          split at h
          · cases h
          · split at h
            · cases h; simp [erase, eraseList, hasTy, hasTyList]
            · obtain ⟨xs', h0, rfl⟩ := mapv_ok_inv _ _ _ h
              simp only [erase, hasTy, Bool.not_false, Bool.true_or, Bool.true_and]
              exact readList_typedE xs fuel et tail xs' a hok.1 hw.2 h0
        | _ => unfold readVal at h; simp only [hfx, ↓reduceIte] at h; cases h
      | strct sid =>
        cases tv with
        | strct fs =>
          rw [readVal_struct_any] at h
          simp only [wf] at hw
          obtain ⟨ds, hh, hi, hds, hhold⟩ := initDest_typed' S hdt sid (erase dest) hd
          rw [← erase_initDest S sid dest (hdf_plain S hdt sid)] at hi
          obtain ⟨vs', hi', evs⟩ := erase_eq_st _ ds hh hi
          cases fuel with
          | zero => simp [readStruct] at h
          | succ f =>
            rw [hi', readStruct] at h
            split at h
            · rename_i st hl
              split at h
              · cases h
              · cases h
                have hfs := readFields_typedE fs f sid (tail + 1) _ st hw (by rw [evs]; exact hds) hl
                simp only [erase, hasTy, Bool.and_eq_true]
                refine ⟨?_, hfs⟩
                split
                · rename_i hb; simp [hb.1]
                · exact hhold
            · cases h
            · cases h
        | _ => unfold readVal at h; simp only [hfx, ↓reduceIte] at h; cases h
theorem readFields_typedE : ∀ (fs : List (Nat × TVal)) (fuel : Nat) (sid : Nat) (tail : Nat) (st st' : LoopSt),
    wfFields fs = true → hasTyFields S (S.get sid).fields (eraseList st.fs) = true →
    readFields P S total fuel (S.get sid) fs tail st = .ok st' →
    hasTyFields S (S.get sid).fields (eraseList st'.fs) = true
  | [], _, _, _, st, st', _, hs, h => by
    rw [readFields] at h; cases h; exact hs
  | (id, v) :: r, fuel, sid, tail, st, st', hw, hs, h => by
    rw [readFields] at h
    simp only [wfFields, Bool.and_eq_true, decide_eq_true_eq] at hw
    cases hk : lookupKnown (S.get sid) id v.tag with
    | none =>
      simp only [hk] at h
      split at h
      · cases h
      · refine readFields_typedE r fuel sid tail _ st' hw.2 ?_ h
        cases (S.get sid).hasHolder <;> simpa using hs
    | some p =>
      obtain ⟨ix, f⟩ := p
      simp only [hk] at h
      have hfmem := lookupKnown_mem _ _ _ _ _ hk
      have hfix := lookupKnown_getElem _ _ _ _ _ hk
      obtain ⟨hfok, hncs⟩ := field_ok' S hS sid f hfmem
      have hslot := hasTyFields_getD S _ _ ix f hfix hs
      rw [eraseList_getD] at hslot
      split at h
      · rename_i x hx
        refine readFields_typedE r fuel sid tail _ st' hw.2 ?_ h
        simp only [eraseList_set]
        refine hasTyFields_set S _ _ ix f (erase x) hfix hs ?_
        rw [readField] at hx
        split at hx
        · rename_i hfx
          obtain ⟨w0, h0, rfl⟩ := mapv_ok_inv _ _ _ hx
          rw [erase_wrapPtr, (readFixed_erase _ _ _ h0).1]
          refine wrapPtr_typed S _ _ hfok ?_
          obtain ⟨k, hdk, htk⟩ := fixed_deref_base f.ty hfok hfx
          rw [hdk]
          rw [htk] at h0 hfx
          exact readFixed_typed S k v w0 hfx hw.1.2 h0
        · split at hx
          · rename_i hnc
            obtain ⟨w0, h0, rfl⟩ := mapv_ok_inv _ _ _ hx
            rw [erase_wrapPtr]
            refine wrapPtr_typed S _ _ hfok ?_
            have := readStr_typedE S f.ty.deref.isBinary true total _ v w0 h0
            rcases string_deref f.ty hfok (hncs hnc) with ⟨e1, e2⟩ | ⟨e1, e2⟩
            · rw [e2] at this; rw [e1]; simpa using this
            · rw [e2] at this; rw [e1]; simpa using this
          · obtain ⟨w0, h0, rfl⟩ := mapv_ok_inv _ _ _ hx
            have hd := deref_ok f.ty hfok
            rw [erase_wrapPtr]
            refine wrapPtr_typed S _ _ hfok (readVal_typedE v fuel f.ty.deref _ _ w0 hd.1 hd.2 hw.1.2 ?_ h0)
            rw [erase_freshTarget]
            unfold freshTarget
            split
            · exact zeroVal_typed' S hz _
            · rename_i hp
              have : f.ty.deref = f.ty := deref_nonptr (by simpa using hp)
              rw [this]; exact hslot
      · cases h
      · cases h
theorem readList_typedE : ∀ (xs : List TVal) (fuel : Nat) (et : Ty) (tail : Nat) (vs : List Val) (a : Nat),
    et.ok = true → wfList a xs = true →
    readList P S total fuel et xs tail = .ok vs → hasTyList S et (eraseList vs) = true
  | [], _, _, _, vs, _, _, _, h => by rw [readList] at h; cases h; rfl
  | x :: r, fuel, et, tail, vs, a, hok, hw, h => by
    rw [readList] at h
    simp only [wfList, Bool.and_eq_true] at hw
    split at h
    · rename_i w hx
      split at h
      · rename_i ws hws
        cases h
        simp only [eraseList, hasTyList, Bool.and_eq_true]
        exact ⟨(readSlot_typedE x fuel et _ w hok hw.1.2 hx).1, readList_typedE r fuel et tail ws a hok hw.2 hws⟩
      · cases h
      · cases h
    · cases h
    · cases h
theorem readEntries_typedE : ∀ (es : List (TVal × TVal)) (fuel : Nat) (kt vt : Ty) (tail : Nat)
    (acc res : List (Val × Val)) (a b : Nat), kt.ok = true → vt.ok = true →
    wfEntries a b es = true → hasTyEntries S kt vt (eraseEntries acc) = true →
    (∀ p ∈ acc, notView p.1 = true) →
    readEntries P S total fuel kt vt es tail acc = .ok res →
    hasTyEntries S kt vt (eraseEntries res) = true ∧ (∀ p ∈ res, notView p.1 = true)
  | [], _, _, _, _, acc, res, _, _, _, _, _, ha, hnv, h => by
    rw [readEntries] at h; cases h; exact ⟨ha, hnv⟩
  | (x, y) :: r, fuel, kt, vt, tail, acc, res, a, b, hk, hv, hw, ha, hnv, h => by
    rw [readEntries] at h
    simp only [wfEntries, Bool.and_eq_true] at hw
    split at h
    · rename_i k hkx
      split at h
      · rename_i v hvx
        have tk := readSlot_typedE x fuel kt _ k hk hw.1.1.2 hkx
        have tv := readSlot_typedE y fuel vt _ v hv hw.1.2 hvx
        refine readEntries_typedE r fuel kt vt tail _ res a b hk hv hw.2 ?_
          (mapInsert_keys_notView kt acc k v hnv tk.2) h
        rw [mapInsert_erase kt acc k v hnv tk.2]
        exact mapInsert_typed S kt vt _ _ _ ha tk.1 tv.1
      · cases h
      · cases h
    · cases h
    · cases h
theorem readSlot_typedE : ∀ (x : TVal) (fuel : Nat) (t : Ty) (tail : Nat) (w : Val),
    t.ok = true → wf x = true →
    readSlot P S total fuel t x tail (zeroVal S S.length t) = .ok w →
    hasTy S t (erase w) = true ∧ notView w = true
  | x, fuel, t, tail, w, hok, hw, h => by
    have hnv := readSlot_notView P S total fuel t x tail _ w h
    refine ⟨?_, hnv⟩
    rw [readSlot] at h
    have hd := deref_ok t hok
    split at h
    · rename_i hfx
      obtain ⟨w0, h0, rfl⟩ := mapv_ok_inv _ _ _ h
      rw [erase_wrapPtr, (readFixed_erase _ _ _ h0).1]
      refine wrapPtr_typed S _ _ hok ?_
      obtain ⟨k, hdk, htk⟩ := fixed_deref_base t hok hfx
      rw [hdk]
      rw [htk] at h0 hfx
      exact readFixed_typed S k x w0 hfx hw h0
    · obtain ⟨w0, h0, rfl⟩ := mapv_ok_inv _ _ _ h
      rw [erase_wrapPtr]
      refine wrapPtr_typed S _ _ hok (readVal_typedE x fuel t.deref _ _ w0 hd.1 hd.2 hw ?_ h0)
      rw [erase_freshTarget, erase_zeroVal]
      unfold freshTarget
      split
      · exact zeroVal_typed' S hz _
      · rename_i hp
        have : t.deref = t := deref_nonptr (by simpa using hp)
        rw [this]; exact zeroVal_typed' S hz _
end

omit total in
/-- top level, every schema: `readMessage` into a destination that is typed up to view provenance
    returns a value that is typed up to view provenance -/
theorem readMessage_typedE (sid : Nat) (fs : List (Nat × TVal)) (trailing : Nat) (dest w : Val)
    (hw : wfFields fs = true) (hd : hasTy S (.strct sid) (erase dest) = true)
    (h : readMessage P S sid fs trailing dest = .ok w) : hasTy S (.strct sid) (erase w) = true := by
  unfold readMessage at h
  cases hm : P.maxDepth with
  | zero => rw [hm] at h; simp [readStruct] at h
  | succ f =>
    rw [hm] at h
    cases dest with
    | st vs hh =>
      simp only [erase, hasTy, Bool.and_eq_true] at hd
      rw [readStruct] at h
      split at h
      · rename_i st hl
        split at h
        · cases h
        · cases h
          have hfs := readFields_typedE P S ((ser (.strct fs)).length + trailing) hS hdt hz fs f sid (trailing + 1)
            _ st hw hd.2 hl
          simp only [erase, hasTy, Bool.and_eq_true]
          refine ⟨?_, hfs⟩
          split
          · rename_i hb; simp [hb.1]
          · exact hd.1
      · cases h
      · cases h
    | _ =>
      rw [readStruct_nonst P S _ f sid fs trailing _ (by intro vs h' hh; cases hh)] at h
      cases h
end
end Frugal
