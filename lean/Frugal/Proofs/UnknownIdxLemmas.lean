/-
  UnknownIdxLemmas.lean — the (offset, size) index copies out exactly the bytes the byte-level
  decoder model appends: for every sequence of recorded extents, `Copy` returns the concatenation of
  the recorded slices, fully initialised (`sz` is the sum of the sizes), and the extent recorded for
  a skipped field — header position `i - 3`, size `n + 3` — is the field's header followed by the `n`
  skipped bytes, which is what `fieldLoop` appends.
-/
import Frugal.UnknownIdx
import Frugal.Decode
set_option linter.unusedSimpArgs false
namespace Frugal

theorem slice_length (b : Bytes) (off sz : Nat) (h : off + sz ≤ b.length) : (slice b off sz).length = sz := by
  simp [slice]; omega

theorem UF.copied_add (p : UF) (off sz : Nat) (b : Bytes) :
    (p.add off sz).copied b = p.copied b ++ slice b off sz := by
  simp [UF.copied, UF.add, List.flatMap_append]

/-- the invariant `Add` maintains: `sz` is the number of bytes the ranges cover -/
def UF.Inv (p : UF) (b : Bytes) : Prop := p.inBounds b = true ∧ (p.copied b).length = p.sz

theorem UF.inv_reset (b : Bytes) : UF.reset.Inv b := by
  simp [UF.Inv, UF.reset, UF.inBounds, UF.copied]

theorem UF.inv_add (p : UF) (off sz : Nat) (b : Bytes) (hp : p.Inv b) (h : off + sz ≤ b.length) :
    (p.add off sz).Inv b := by
  obtain ⟨h1, h2⟩ := hp
  refine ⟨?_, ?_⟩
  · simp only [UF.inBounds, UF.add, List.all_append, List.all_cons, List.all_nil, Bool.and_true,
      Bool.and_eq_true, decide_eq_true_eq]
    exact ⟨h1, h⟩
  · rw [UF.copied_add, List.length_append, slice_length b off sz h, h2]; rfl

/-- under the invariant `Copy` succeeds (every byte of its uninitialised buffer is written, no range
    leaves `b`) and returns the concatenation of the recorded slices -/
theorem UF.copy_of_inv (p : UF) (b : Bytes) (hp : p.Inv b) : p.copy b = some (p.copied b) := by
  obtain ⟨h1, h2⟩ := hp
  simp only [UF.inBounds] at h1
  simp [UF.copy, h1, h2]

/-- a whole history of `Add`s from `Reset` -/
theorem UF.history (b : Bytes) : ∀ (es : List (Nat × Nat)) (p : UF), p.Inv b →
    (∀ e ∈ es, e.1 + e.2 ≤ b.length) →
    (es.foldl (fun u e => u.add e.1 e.2) p).Inv b ∧
    (es.foldl (fun u e => u.add e.1 e.2) p).copied b = p.copied b ++ es.flatMap fun e => slice b e.1 e.2
  | [], p, hp, _ => by simp [hp]
  | e :: r, p, hp, h => by
    have h0 := h e (List.mem_cons_self ..)
    have ih := UF.history b r (p.add e.1 e.2) (UF.inv_add p e.1 e.2 b hp h0)
      (fun x hx => h x (List.mem_cons_of_mem _ hx))
    simp only [List.foldl_cons, List.flatMap_cons]
    refine ⟨ih.1, ?_⟩
    rw [ih.2, UF.copied_add, List.append_assoc]

/-- the extent recorded for a skipped field is its header and its `n` value bytes: with the field
    header at position `i0` of `b` (`b.drop i0 = tp :: r`, id in the next two bytes, value bytes `r1`
    after them) the slice `b[i0 : i0 + n + 3]` is what the byte model appends to `unk` -/
theorem recorded_extent (b : Bytes) (i0 n : Nat) (tp : UInt8) (r r1 : Bytes) (fid : Nat)
    (hb : b.drop i0 = tp :: r) (hid : rd16 r = some (fid, r1)) :
    slice b i0 (n + 3) = tp :: (r.take 2 ++ r1.take n) := by
  unfold slice
  rw [hb]
  match r, hid with
  | a :: c :: r', hid =>
    simp only [rd16, Option.some.injEq, Prod.mk.injEq] at hid
    obtain ⟨_, rfl⟩ := hid
    simp [List.take]

/-- … and it lies inside `b` whenever the skipped value does (otherwise the loop fails with a short
    buffer at its next read and `Copy` is never reached) -/
theorem recorded_extent_inBounds (b : Bytes) (i0 n : Nat) (tp : UInt8) (r r1 : Bytes) (fid : Nat)
    (hb : b.drop i0 = tp :: r) (hid : rd16 r = some (fid, r1)) (hn : n ≤ r1.length) :
    i0 + (n + 3) ≤ b.length := by
  have hl : (b.drop i0).length = b.length - i0 := List.length_drop
  rw [hb] at hl
  match r, hid with
  | a :: c :: r', hid =>
    simp only [rd16, Option.some.injEq, Prod.mk.injEq] at hid
    obtain ⟨_, rfl⟩ := hid
    simp only [List.length_cons] at hl
    omega

/-- one step of the two models side by side: if the index holds what the byte model has appended
    so far, it still does after one more skipped field -/
theorem step_agrees (p : UF) (b : Bytes) (unk : Bytes) (i0 n : Nat) (tp : UInt8) (r r1 : Bytes) (fid : Nat)
    (hp : p.Inv b) (hu : p.copied b = unk)
    (hb : b.drop i0 = tp :: r) (hid : rd16 r = some (fid, r1)) (hn : n ≤ r1.length) :
    (p.add i0 (n + 3)).Inv b ∧ (p.add i0 (n + 3)).copied b = unk ++ tp :: (r.take 2 ++ r1.take n) := by
  refine ⟨UF.inv_add p i0 (n + 3) b hp (recorded_extent_inBounds b i0 n tp r r1 fid hb hid hn), ?_⟩
  rw [UF.copied_add, hu, recorded_extent b i0 n tp r r1 fid hb hid]
end Frugal
