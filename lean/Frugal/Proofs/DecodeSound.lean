/-
  DecodeSound.lean — the converse of C03: when the decoder succeeds, the bytes it consumed are the
  serialisation of a well-formed Thrift value of the expected wire type (C05: "reports success
  exactly when the bytes begin with a well-formed message").  Well-formedness is `wf` of Wire.lean;
  note that it asks of a container's element code only that it be a non-negative int8: the code of an
  *empty* container inside skipped data is looked at by no Thrift skipper, gopkg's included.
-/
import Frugal.Decode
import Frugal.Valid
import Frugal.Proofs.SerFacts
set_option linter.unusedSimpArgs false
set_option linter.unusedVariables false
namespace Frugal

/-! ### reading bytes back -/

theorem u8_toNat_self (a : UInt8) : u8 a.toNat = a := by
  apply UInt8.toNat_inj.1
  simp only [u8_toNat]
  have := a.toNat_lt
  omega

theorem u8_eq_of (a : UInt8) (n : Nat) (h : n % 256 = a.toNat) : u8 n = a := by
  apply UInt8.toNat_inj.1
  simp only [u8_toNat, h]

theorem rd8_inv {b r : Bytes} {n : Nat} (h : rd8 b = some (n, r)) : b = u8 n :: r ∧ n < 256 := by
  cases b with
  | nil => simp [rd8] at h
  | cons a t =>
    simp only [rd8, Option.some.injEq, Prod.mk.injEq] at h
    obtain ⟨rfl, rfl⟩ := h
    exact ⟨by rw [u8_toNat_self], a.toNat_lt⟩

theorem rd16_inv {b r : Bytes} {n : Nat} (h : rd16 b = some (n, r)) : b = be16 n ++ r ∧ n < 65536 := by
  match b, h with
  | a :: c :: t, h =>
    simp only [rd16, Option.some.injEq, Prod.mk.injEq] at h
    obtain ⟨rfl, rfl⟩ := h
    have ha := a.toNat_lt
    have hc := c.toNat_lt
    refine ⟨?_, by omega⟩
    simp only [be16, List.cons_append, List.nil_append]
    rw [u8_eq_of a _ (by omega), u8_eq_of c _ (by omega)]

theorem rd32_inv {b r : Bytes} {n : Nat} (h : rd32 b = some (n, r)) : b = be32 n ++ r ∧ n < 4294967296 := by
  match b, h with
  | a :: c :: d :: e :: t, h =>
    simp only [rd32, Option.some.injEq, Prod.mk.injEq] at h
    obtain ⟨rfl, rfl⟩ := h
    have ha := a.toNat_lt
    have hc := c.toNat_lt
    have hd := d.toNat_lt
    have he := e.toNat_lt
    refine ⟨?_, by omega⟩
    simp only [be32, List.cons_append, List.nil_append]
    rw [u8_eq_of a _ (by omega), u8_eq_of c _ (by omega), u8_eq_of d _ (by omega), u8_eq_of e _ (by omega)]

theorem rd64_inv {b r : Bytes} {n : Nat} (h : rd64 b = some (n, r)) :
    b = be64 n ++ r ∧ n < 18446744073709551616 := by
  match b, h with
  | a :: c :: d :: e :: f :: g :: i :: j :: t, h =>
    simp only [rd64, Option.some.injEq, Prod.mk.injEq] at h
    obtain ⟨rfl, rfl⟩ := h
    have ha := a.toNat_lt
    have hc := c.toNat_lt
    have hd := d.toNat_lt
    have he := e.toNat_lt
    have hf := f.toNat_lt
    have hg := g.toNat_lt
    have hi := i.toNat_lt
    have hj := j.toNat_lt
    refine ⟨?_, by omega⟩
    simp only [be64, List.cons_append, List.nil_append]
    rw [u8_eq_of a _ (by omega), u8_eq_of c _ (by omega), u8_eq_of d _ (by omega), u8_eq_of e _ (by omega),
      u8_eq_of f _ (by omega), u8_eq_of g _ (by omega), u8_eq_of i _ (by omega), u8_eq_of j _ (by omega)]


/-! ### leaves -/

theorem decodeFixed_sound (t : TT) (b : Bytes) (v : Val) (r : Bytes) (h : decodeFixed t b = .ok (v, r)) :
    ∃ tv, wf tv = true ∧ tv.tag = t.wire ∧ b = ser tv ++ r := by
  cases t <;> simp only [decodeFixed] at h
  case bool =>
    split at h
    · rename_i n r' hr; cases h
      obtain ⟨e, hn⟩ := rd8_inv hr
      exact ⟨.bool n, by simp [wf, hn], rfl, by simp [ser, e]⟩
    · cases h
  case byte =>
    split at h
    · rename_i n r' hr; cases h
      obtain ⟨e, hn⟩ := rd8_inv hr
      exact ⟨.i8 n, by simp [wf, hn], rfl, by simp [ser, e]⟩
    · cases h
  case double =>
    split at h
    · rename_i n r' hr; cases h
      obtain ⟨e, hn⟩ := rd64_inv hr
      exact ⟨.double n, by simp [wf, hn], rfl, by simp [ser, e]⟩
    · cases h
  case i64 =>
    split at h
    · rename_i n r' hr; cases h
      obtain ⟨e, hn⟩ := rd64_inv hr
      exact ⟨.i64 n, by simp [wf, hn], rfl, by simp [ser, e]⟩
    · cases h
  case i16 =>
    split at h
    · rename_i n r' hr; cases h
      obtain ⟨e, hn⟩ := rd16_inv hr
      exact ⟨.i16 n, by simp [wf, hn], rfl, by simp [ser, e]⟩
    · cases h
  case i32 =>
    split at h
    · rename_i n r' hr; cases h
      obtain ⟨e, hn⟩ := rd32_inv hr
      exact ⟨.i32 n, by simp [wf, hn], rfl, by simp [ser, e]⟩
    · cases h
  case enum =>
    split at h
    · rename_i n r' hr; cases h
      obtain ⟨e, hn⟩ := rd32_inv hr
      exact ⟨.i32 n, by simp [wf, hn], rfl, by simp [ser, e]⟩
    · cases h
  all_goals cases h

theorem decodeStr_sound (isBin nocopy : Bool) (total : Nat) (b : Bytes) (v : Val) (r : Bytes)
    (h : decodeStr isBin nocopy total b = .ok (v, r)) :
    ∃ s, s.length < 2147483648 ∧ b = ser (.str s) ++ r := by
  unfold decodeStr at h
  split at h
  · cases h
  · rename_i l r0 hr
    obtain ⟨e, hl⟩ := rd32_inv hr
    split at h
    · cases h
    · rename_i hneg
      split at h
      · rename_i hz
        simp only [Outcome.ok.injEq, Prod.mk.injEq] at h
        obtain ⟨_, rfl⟩ := h
        exact ⟨[], by simp, by simp [ser, e, hz]⟩
      · split at h
        · cases h
        · rename_i hz hlen
          simp only [Outcome.ok.injEq, Prod.mk.injEq] at h
          obtain ⟨_, rfl⟩ := h
          refine ⟨r0.take l, ?_, ?_⟩
          · simp only [List.length_take]; omega
          · have hmin : min l r0.length = l := by omega
            simp only [ser, List.length_take, hmin, e, List.append_assoc, List.take_append_drop]


/-! ### the skipper -/

/-- what a successful skip of `n ≤ len` bytes means -/
def SkipSound (sk : Nat → Bytes → Outcome Nat) : Prop :=
  ∀ t b n, sk t b = .ok n → n ≤ b.length → ∃ tv, wf tv = true ∧ tv.tag = t ∧ b = ser tv ++ b.drop n

theorem len_of_split {b x r : Bytes} {n : Nat} (h : b = x ++ b.drop n) (hn : n ≤ b.length) : x.length = n := by
  have := congrArg List.length h
  simp only [List.length_append, List.length_drop] at this
  omega

theorem fixed_bytes_sound (t : Nat) (hfix : wireFixed t > 0) (b : Bytes) (hk : wireFixed t ≤ b.length) :
    ∃ tv, wf tv = true ∧ tv.tag = t ∧ b = ser tv ++ b.drop (wireFixed t) := by
  unfold wireFixed at hfix hk ⊢
  by_cases h1 : t = 2 ∨ t = 3
  · simp only [h1, ↓reduceIte] at hk ⊢
    match b, hk with
    | a :: r, _ =>
      have := rd8_inv (b := a :: r) (n := a.toNat) (r := r) rfl
      rcases h1 with rfl | rfl
      · exact ⟨.bool a.toNat, by simp [wf, this.2], rfl, by simp [ser, u8_toNat_self]⟩
      · exact ⟨.i8 a.toNat, by simp [wf, this.2], rfl, by simp [ser, u8_toNat_self]⟩
  · simp only [h1, ↓reduceIte] at hfix hk ⊢
    by_cases h2 : t = 6
    · subst h2
      simp only [↓reduceIte] at hk ⊢
      match b, hk with
      | a :: c :: r, _ =>
        obtain ⟨e, hn⟩ := rd16_inv (b := a :: c :: r) (n := a.toNat * 256 + c.toNat) (r := r) rfl
        generalize a.toNat * 256 + c.toNat = N at e hn
        exact ⟨.i16 N, by simp [wf, hn], rfl, by simpa [ser] using e⟩
    · simp only [h2, ↓reduceIte] at hfix hk ⊢
      by_cases h3 : t = 8
      · subst h3
        simp only [↓reduceIte] at hk ⊢
        match b, hk with
        | a :: c :: d :: e' :: r, _ =>
          obtain ⟨e, hn⟩ := rd32_inv (b := a :: c :: d :: e' :: r) (r := r) rfl
          generalize a.toNat * 16777216 + c.toNat * 65536 + d.toNat * 256 + e'.toNat = N at e hn
          exact ⟨.i32 N, by simp [wf, hn], rfl, by simpa [ser] using e⟩
      · simp only [h3, ↓reduceIte] at hfix hk ⊢
        by_cases h4 : t = 4 ∨ t = 10
        · simp only [h4, ↓reduceIte] at hk ⊢
          match b, hk with
          | a :: c :: d :: e' :: f :: g :: i :: j :: r, _ =>
            obtain ⟨e, hn⟩ := rd64_inv (b := a :: c :: d :: e' :: f :: g :: i :: j :: r) (r := r) rfl
            generalize a.toNat * 72057594037927936 + c.toNat * 281474976710656 + d.toNat * 1099511627776 +
              e'.toNat * 4294967296 + f.toNat * 16777216 + g.toNat * 65536 + i.toNat * 256 + j.toNat = N at e hn
            rcases h4 with rfl | rfl
            · exact ⟨.double N, by simp [wf, hn], rfl, by simpa [ser] using e⟩
            · exact ⟨.i64 N, by simp [wf, hn], rfl, by simpa [ser] using e⟩
        · simp [h4] at hfix

theorem skipStr_sound (b : Bytes) (n : Nat) (h : skipStr b = .ok n) :
    n ≤ b.length ∧ ∃ s, s.length < 2147483648 ∧ b = ser (.str s) ++ b.drop n := by
  unfold skipStr at h
  split at h
  · cases h
  · rename_i l r hr
    obtain ⟨e, hl⟩ := rd32_inv hr
    split at h
    · cases h
    · split at h
      · rename_i hneg hle
        cases h
        have hb : b.length = 4 + r.length := by rw [e]; simp
        refine ⟨by omega, r.take l, by simp only [List.length_take]; omega, ?_⟩
        have hmin : min l r.length = l := by omega
        have hd : b.drop (4 + l) = r.drop l := by
          rw [e]
          rw [List.drop_append]
          simp
        rw [hd]
        simp only [ser, List.length_take, hmin, List.append_assoc, List.take_append_drop]
        exact e
      · cases h

section
variable {P : Params} (hP : P.valid = true)
include hP

theorem skipElem_sound (sk : Nat → Bytes → Outcome Nat) (hsk : SkipSound sk) (t : Nat) (b : Bytes) (k : Nat)
    (h : skipElem P sk t b = .ok k) (hk : k ≤ b.length) :
    ∃ tv, wf tv = true ∧ tv.tag = t ∧ b = ser tv ++ b.drop k := by
  unfold skipElem at h
  split at h
  · cases h
  · rename_i hlt
    have ht : t < 128 := by omega
    rw [skipFixed_eq hP t ht] at h
    split at h
    · rename_i hfix
      cases h
      exact fixed_bytes_sound t hfix b hk
    · split at h
      · rename_i h11
        obtain ⟨_, s, hs, e⟩ := skipStr_sound b k h
        exact ⟨.str s, by simp [wf, hs], h11.symm, e⟩
      · exact hsk t b k h hk

/-- list loop: `n` elements of type `et`, `tot - i` bytes -/
theorem skipListLoop_sound (sk : Nat → Bytes → Outcome Nat) (hsk : SkipSound sk) (et : Nat) :
    ∀ (n : Nat) (b : Bytes) (i tot : Nat), skipListLoop P sk et n b i = .ok tot → tot ≤ i + b.length →
      i ≤ tot ∧ ∃ xs, xs.length = n ∧ wfList et xs = true ∧ b = serList xs ++ b.drop (tot - i)
  | 0, b, i, tot, h, _ => by
    simp only [skipListLoop, Outcome.ok.injEq] at h
    subst h
    exact ⟨Nat.le_refl _, [], rfl, rfl, by simp [serList]⟩
  | n + 1, b, i, tot, h, hle => by
    rw [skipListLoop] at h
    split at h
    · cases h
    · rename_i hne
      split at h
      · rename_i k hk
        -- the element ends inside the input: otherwise the rest is empty and the loop cannot go on
        by_cases hkb : k ≤ b.length
        · have ih := skipListLoop_sound sk hsk et n (b.drop k) (i + k) tot h
            (by simp only [List.length_drop]; omega)
          obtain ⟨hi, xs, hx1, hx2, hx3⟩ := ih
          obtain ⟨tv, w1, w2, w3⟩ := skipElem_sound hP sk hsk et b k hk hkb
          refine ⟨by omega, tv :: xs, by simp [hx1], by simp [wfList, w1, w2, hx2], ?_⟩
          have hd : (b.drop k).drop (tot - (i + k)) = b.drop (tot - i) := by
            rw [List.drop_drop]; congr 1; omega
          rw [hd] at hx3
          calc b = ser tv ++ b.drop k := w3
            _ = ser tv ++ (serList xs ++ b.drop (tot - i)) := by rw [← hx3]
            _ = serList (tv :: xs) ++ b.drop (tot - i) := by simp [serList]
        · exfalso
          have hnil : b.drop k = [] := List.drop_eq_nil_of_le (by omega)
          rw [hnil] at h
          cases n with
          | zero =>
            simp only [skipListLoop, Outcome.ok.injEq] at h
            omega
          | succ m => simp [skipListLoop] at h
      · cases h
      · cases h

theorem skipMapLoop_sound (sk : Nat → Bytes → Outcome Nat) (hsk : SkipSound sk) (kt vt : Nat) :
    ∀ (n : Nat) (b : Bytes) (i tot : Nat), skipMapLoop P sk kt vt n b i = .ok tot → tot ≤ i + b.length →
      i ≤ tot ∧ ∃ es, es.length = n ∧ wfEntries kt vt es = true ∧ b = serEntries es ++ b.drop (tot - i)
  | 0, b, i, tot, h, _ => by
    simp only [skipMapLoop, Outcome.ok.injEq] at h
    subst h
    exact ⟨Nat.le_refl _, [], rfl, rfl, by simp [serEntries]⟩
  | n + 1, b, i, tot, h, hle => by
    rw [skipMapLoop] at h
    split at h
    · cases h
    · split at h
      · rename_i k hk
        simp only at h
        split at h
        · cases h
        · rename_i hne1
          have hkb : k < b.length := by
            by_cases hh : k < b.length
            · exact hh
            · have : b.drop k = [] := List.drop_eq_nil_of_le (by omega)
              simp [this] at hne1
          split at h
          · rename_i k2 hk2
            by_cases hk2b : k2 ≤ (b.drop k).length
            · have ih := skipMapLoop_sound sk hsk kt vt n ((b.drop k).drop k2) (i + k + k2) tot h
                (by simp only [List.length_drop] at hk2b ⊢; omega)
              obtain ⟨hi, es, hx1, hx2, hx3⟩ := ih
              obtain ⟨tk, a1, a2, a3⟩ := skipElem_sound hP sk hsk kt b k hk (by omega)
              obtain ⟨tv, w1, w2, w3⟩ := skipElem_sound hP sk hsk vt (b.drop k) k2 hk2 hk2b
              refine ⟨by omega, (tk, tv) :: es, by simp [hx1], by simp [wfEntries, a1, a2, w1, w2, hx2], ?_⟩
              have hd : ((b.drop k).drop k2).drop (tot - (i + k + k2)) = b.drop (tot - i) := by
                rw [List.drop_drop, List.drop_drop]; congr 1; omega
              rw [hd] at hx3
              calc b = ser tk ++ b.drop k := a3
                _ = ser tk ++ (ser tv ++ (b.drop k).drop k2) := by rw [← w3]
                _ = ser tk ++ (ser tv ++ (serEntries es ++ b.drop (tot - i))) := by rw [← hx3]
                _ = serEntries ((tk, tv) :: es) ++ b.drop (tot - i) := by simp [serEntries]
            · exfalso
              have hnil : (b.drop k).drop k2 = [] := List.drop_eq_nil_of_le (by omega)
              rw [hnil] at h
              simp only [List.length_drop] at hk2b
              cases n with
              | zero =>
                simp only [skipMapLoop, Outcome.ok.injEq] at h
                omega
              | succ m => simp [skipMapLoop] at h
          · cases h
          · cases h
      · cases h
      · cases h


theorem skipStructLoop_sound (sk : Nat → Bytes → Outcome Nat) (hsk : SkipSound sk) :
    ∀ (cnt : Nat) (b : Bytes) (i tot : Nat), skipStructLoop P sk cnt b i = .ok tot → tot ≤ i + b.length →
      i ≤ tot ∧ ∃ fs, wfFields fs = true ∧ b = serFields fs ++ [0] ++ b.drop (tot - i)
  | 0, b, i, tot, h, _ => by simp [skipStructLoop] at h
  | cnt + 1, b, i, tot, h, hle => by
    simp only [skipStructLoop] at h
    split at h
    · cases h
    · rename_i ft r
      split at h
      · rename_i hz
        simp only [Outcome.ok.injEq] at h
        subst h
        subst hz
        refine ⟨by omega, [], rfl, ?_⟩
        simp [serFields]
      · rename_i hnz
        split at h
        · cases h
        · rename_i hne
          match r, hne, h with
          | a :: c :: r1, hne, h =>
            simp only [List.drop_succ_cons, List.drop_zero] at h hne
            split at h
            · rename_i k hk
              by_cases hkb : k ≤ r1.length
              · have ih := skipStructLoop_sound sk hsk cnt (r1.drop k) (i + 3 + k) tot h
                  (by simp only [List.length_drop, List.length_cons] at hle ⊢; omega)
                obtain ⟨hi, fs, hf1, hf2⟩ := ih
                obtain ⟨tv, w1, w2, w3⟩ := skipElem_sound hP sk hsk ft.toNat r1 k hk hkb
                obtain ⟨eid, hid⟩ := rd16_inv (b := a :: c :: r1) (r := r1) rfl
                generalize a.toNat * 256 + c.toNat = fid at eid hid
                refine ⟨by omega, (fid, tv) :: fs, by simp [wfFields, hid, w1, hf1], ?_⟩
                have hd : (r1.drop k).drop (tot - (i + 3 + k)) = (ft :: a :: c :: r1).drop (tot - i) := by
                  rw [List.drop_drop]
                  have : tot - i = (k + (tot - (i + 3 + k))) + 3 := by omega
                  rw [this]
                  rfl
                rw [hd] at hf2
                have hft : u8 tv.tag = ft := by rw [w2]; exact u8_toNat_self ft
                calc ft :: a :: c :: r1 = ft :: (be16 fid ++ r1) := by rw [← eid]
                  _ = ft :: (be16 fid ++ (ser tv ++ r1.drop k)) := by rw [← w3]
                  _ = serFields ((fid, tv) :: fs) ++ [0] ++ (ft :: a :: c :: r1).drop (tot - i) := by
                      rw [hf2]; simp [serFields, hft]
              · exfalso
                have hnil : r1.drop k = [] := List.drop_eq_nil_of_le (by omega)
                rw [hnil] at h
                cases cnt <;> simp [skipStructLoop] at h
            · cases h
            · cases h
          | [a], hne, _ => simp at hne
          | [], hne, _ => simp at hne

omit hP in
theorem fixed_list_sound (et : Nat) (hfix : wireFixed et > 0) : ∀ (sz : Nat) (b : Bytes),
    sz * wireFixed et ≤ b.length →
    ∃ xs, xs.length = sz ∧ wfList et xs = true ∧ b = serList xs ++ b.drop (sz * wireFixed et)
  | 0, b, _ => ⟨[], rfl, rfl, by simp [serList]⟩
  | sz + 1, b, h => by
    have h1 : wireFixed et ≤ b.length := by rw [Nat.succ_mul] at h; omega
    obtain ⟨tv, w1, w2, w3⟩ := fixed_bytes_sound et hfix b h1
    obtain ⟨xs, x1, x2, x3⟩ := fixed_list_sound et hfix sz (b.drop (wireFixed et))
      (by simp only [List.length_drop]; rw [Nat.succ_mul] at h; omega)
    refine ⟨tv :: xs, by simp [x1], by simp [wfList, w1, w2, x2], ?_⟩
    have hd : (b.drop (wireFixed et)).drop (sz * wireFixed et) = b.drop ((sz + 1) * wireFixed et) := by
      rw [List.drop_drop]; congr 1; rw [Nat.succ_mul]; omega
    rw [hd] at x3
    calc b = ser tv ++ b.drop (wireFixed et) := w3
      _ = ser tv ++ (serList xs ++ b.drop ((sz + 1) * wireFixed et)) := by rw [← x3]
      _ = serList (tv :: xs) ++ b.drop ((sz + 1) * wireFixed et) := by simp [serList]

omit hP in
theorem fixed_entries_sound (kt vt : Nat) (hk : wireFixed kt > 0) (hv : wireFixed vt > 0) :
    ∀ (sz : Nat) (b : Bytes), sz * (wireFixed kt + wireFixed vt) ≤ b.length →
    ∃ es, es.length = sz ∧ wfEntries kt vt es = true ∧
      b = serEntries es ++ b.drop (sz * (wireFixed kt + wireFixed vt))
  | 0, b, _ => ⟨[], rfl, rfl, by simp [serEntries]⟩
  | sz + 1, b, h => by
    rw [Nat.succ_mul] at h
    obtain ⟨tk, a1, a2, a3⟩ := fixed_bytes_sound kt hk b (by omega)
    obtain ⟨tv, w1, w2, w3⟩ := fixed_bytes_sound vt hv (b.drop (wireFixed kt))
      (by simp only [List.length_drop]; omega)
    obtain ⟨es, x1, x2, x3⟩ := fixed_entries_sound kt vt hk hv sz ((b.drop (wireFixed kt)).drop (wireFixed vt))
      (by simp only [List.length_drop]; omega)
    refine ⟨(tk, tv) :: es, by simp [x1], by simp [wfEntries, a1, a2, w1, w2, x2], ?_⟩
    have hd : ((b.drop (wireFixed kt)).drop (wireFixed vt)).drop (sz * (wireFixed kt + wireFixed vt)) =
        b.drop ((sz + 1) * (wireFixed kt + wireFixed vt)) := by
      rw [List.drop_drop, List.drop_drop]; congr 1; rw [Nat.succ_mul]; omega
    rw [hd] at x3
    calc b = ser tk ++ b.drop (wireFixed kt) := a3
      _ = ser tk ++ (ser tv ++ (b.drop (wireFixed kt)).drop (wireFixed vt)) := by rw [← w3]
      _ = ser tk ++ (ser tv ++ (serEntries es ++ b.drop ((sz + 1) * (wireFixed kt + wireFixed vt)))) := by
          rw [← x3]
      _ = serEntries ((tk, tv) :: es) ++ b.drop ((sz + 1) * (wireFixed kt + wireFixed vt)) := by
          simp [serEntries]

/-- **the skipper is sound**: when it reports `n ≤ len` bytes, those bytes are one (laxly)
    well-formed value of the requested wire type -/
theorem skipType_sound : ∀ fuel : Nat, SkipSound (skipType P fuel)
  | 0 => by intro t b n h; simp [skipType] at h
  | fuel + 1 => by
    intro t b n h hn
    have ih := skipType_sound fuel
    rw [skipType] at h
    split at h
    · cases h
    · rename_i hlt
      have ht : t < 128 := by omega
      rw [skipFixed_eq hP t ht] at h
      split at h
      · rename_i hfix
        split at h
        · cases h
        · simp only [Outcome.ok.injEq] at h
          subst h
          exact fixed_bytes_sound t hfix b hn
      · split at h
        · rename_i h11
          obtain ⟨_, s, hs, e⟩ := skipStr_sound b n h
          exact ⟨.str s, by simp [wf, hs], h11.symm, e⟩
        · split at h
          · -- map
            rename_i h13
            subst h13
            split at h
            · cases h
            · rename_i kt r hr
              obtain ⟨e1, hkt⟩ := rd8_inv hr
              split at h
              · cases h
              · rename_i vt r1 hr1
                obtain ⟨e2, hvt⟩ := rd8_inv hr1
                split at h
                · cases h
                · rename_i sz r2 hr2
                  obtain ⟨e3, hsz⟩ := rd32_inv hr2
                  split at h
                  · cases h
                  · rename_i hneg
                    split at h
                    · cases h
                    · rename_i hcodes
                      have hk128 : kt < 128 := by omega
                      have hv128 : vt < 128 := by omega
                      rw [skipFixed_eq hP kt hk128, skipFixed_eq hP vt hv128] at h
                      simp only at h
                      have hb : b = u8 kt :: u8 vt :: (be32 sz ++ r2) := by
                        rw [← e3, ← e2]; exact e1
                      have hlen : b.length = 6 + r2.length := by rw [hb]; simp; omega
                      split at h
                      · rename_i hboth
                        split at h
                        · cases h
                        · rename_i hfit
                          simp only [Outcome.ok.injEq] at h
                          subst h
                          obtain ⟨es, x1, x2, x3⟩ := fixed_entries_sound kt vt hboth.1 hboth.2 sz r2 (by omega)
                          refine ⟨.map kt vt es, by simp [wf, codeOK, hk128, hv128, x1, x2]; omega, rfl, ?_⟩
                          have hd : b.drop (6 + sz * (wireFixed kt + wireFixed vt)) =
                              r2.drop (sz * (wireFixed kt + wireFixed vt)) := by
                            rw [hb]
                            simp [List.drop_append, Nat.add_comm]
                          rw [hd, hb]
                          simp only [ser, x1, List.cons_append, List.append_assoc]
                          rw [← x3]
                      · obtain ⟨hi, es, x1, x2, x3⟩ := skipMapLoop_sound hP (skipType P fuel) ih kt vt sz r2 6 n h
                          (by omega)
                        refine ⟨.map kt vt es, by simp [wf, codeOK, hk128, hv128, x1, x2]; omega, rfl, ?_⟩
                        have hd : b.drop n = r2.drop (n - 6) := by
                          rw [hb]
                          have : n = (n - 6) + 6 := by omega
                          rw [this]
                          simp [List.drop_append]
                        rw [hd, hb]
                        simp only [ser, x1, List.cons_append, List.append_assoc]
                        rw [← x3]
          · split at h
            · -- set / list
              rename_i hsl
              split at h
              · cases h
              · rename_i et r hr
                obtain ⟨e1, het⟩ := rd8_inv hr
                split at h
                · cases h
                · rename_i sz r1 hr1
                  obtain ⟨e3, hsz⟩ := rd32_inv hr1
                  split at h
                  · cases h
                  · rename_i hneg
                    split at h
                    · cases h
                    · rename_i hcode
                      have he128 : et < 128 := by omega
                      rw [skipFixed_eq hP et he128] at h
                      simp only at h
                      have hb : b = u8 et :: (be32 sz ++ r1) := by
                        rw [← e3]; exact e1
                      have hlen : b.length = 5 + r1.length := by rw [hb]; simp; omega
                      have fin : ∀ xs : List TVal, xs.length = sz → wfList et xs = true →
                          r1 = serList xs ++ b.drop n →
                          ∃ tv, wf tv = true ∧ tv.tag = t ∧ b = ser tv ++ b.drop n := by
                        intro xs x1 x2 x3
                        rcases hsl with rfl | rfl
                        · refine ⟨.set et xs, by simp [wf, codeOK, he128, x1, x2]; omega, rfl, ?_⟩
                          conv => lhs; rw [hb]
                          simp only [ser, x1, List.cons_append, List.append_assoc]
                          rw [← x3]
                        · refine ⟨.list et xs, by simp [wf, codeOK, he128, x1, x2]; omega, rfl, ?_⟩
                          conv => lhs; rw [hb]
                          simp only [ser, x1, List.cons_append, List.append_assoc]
                          rw [← x3]
                      split at h
                      · rename_i hfix
                        split at h
                        · cases h
                        · rename_i hfit
                          simp only [Outcome.ok.injEq] at h
                          subst h
                          obtain ⟨xs, x1, x2, x3⟩ := fixed_list_sound et hfix sz r1 (by omega)
                          apply fin xs x1 x2
                          have hd : b.drop (5 + sz * wireFixed et) = r1.drop (sz * wireFixed et) := by
                            rw [hb]
                            simp [List.drop_append, Nat.add_comm]
                          rw [hd]
                          exact x3
                      · obtain ⟨hi, xs, x1, x2, x3⟩ := skipListLoop_sound hP (skipType P fuel) ih et sz r1 5 n h
                          (by omega)
                        apply fin xs x1 x2
                        have hd : b.drop n = r1.drop (n - 5) := by
                          rw [hb]
                          have : n = (n - 5) + 5 := by omega
                          rw [this]
                          simp [List.drop_append]
                        rw [hd]
                        exact x3
            · split at h
              · rename_i h12
                obtain ⟨_, fs, f1, f2⟩ := skipStructLoop_sound hP (skipType P fuel) ih (b.length + 1) b 0 n h
                  (by omega)
                exact ⟨.strct fs, by simp [wf, f1], h12.symm, by simpa [ser] using f2⟩
              · cases h

end
end Frugal
