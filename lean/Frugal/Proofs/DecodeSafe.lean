/-
  DecodeSafe.lean — the decoder as written never panics, whatever the input bytes, the
  destination's prior contents and the depth budget: every read is preceded by a length test or
  covered by a count check (C05).
-/
import Frugal.Valid
import Frugal.Decode
import Frugal.Proofs.EncodeRefine
set_option linter.unusedSimpArgs false
namespace Frugal

def Outcome.safe {α} (o : Outcome α) : Prop := o.isPanic = false

theorem rd8_some (b : Bytes) (h : 1 ≤ b.length) : ∃ n r, rd8 b = some (n, r) ∧ r.length + 1 = b.length := by
  match b, h with
  | a :: r, _ => exact ⟨_, r, rfl, by simp⟩

theorem rd16_some (b : Bytes) (h : 2 ≤ b.length) : ∃ n r, rd16 b = some (n, r) ∧ r.length + 2 = b.length := by
  match b, h with
  | a :: b :: r, _ => exact ⟨_, r, rfl, by simp⟩

theorem rd32_some (b : Bytes) (h : 4 ≤ b.length) : ∃ n r, rd32 b = some (n, r) ∧ r.length + 4 = b.length := by
  match b, h with
  | a :: b :: c :: d :: r, _ => exact ⟨_, r, rfl, by simp⟩

theorem rd64_some (b : Bytes) (h : 8 ≤ b.length) : ∃ n r, rd64 b = some (n, r) ∧ r.length + 8 = b.length := by
  match b, h with
  | a :: b :: c :: d :: e :: f :: g :: hh :: r, _ => exact ⟨_, r, rfl, by simp⟩

/-- a guarded fixed-size read succeeds and consumes exactly the wire size -/
theorem decodeFixed_ok (t : TT) (b : Bytes) (hf : specFixed t > 0) (hl : specFixed t ≤ b.length) :
    ∃ v r, decodeFixed t b = .ok (v, r) ∧ r.length + specFixed t = b.length := by
  cases t with
  | bool => obtain ⟨n, r, e, hr⟩ := rd8_some b hl; exact ⟨.sc (if n = 1 then 1 else 0), r, by simp [decodeFixed, e], hr⟩
  | byte => obtain ⟨n, r, e, hr⟩ := rd8_some b hl; exact ⟨.sc n, r, by simp [decodeFixed, e], hr⟩
  | double => obtain ⟨n, r, e, hr⟩ := rd64_some b hl; exact ⟨.sc n, r, by simp [decodeFixed, e], hr⟩
  | i16 => obtain ⟨n, r, e, hr⟩ := rd16_some b hl; exact ⟨.sc n, r, by simp [decodeFixed, e], hr⟩
  | i32 => obtain ⟨n, r, e, hr⟩ := rd32_some b hl; exact ⟨.sc n, r, by simp [decodeFixed, e], hr⟩
  | i64 => obtain ⟨n, r, e, hr⟩ := rd64_some b hl; exact ⟨.sc n, r, by simp [decodeFixed, e], hr⟩
  | enum => obtain ⟨n, r, e, hr⟩ := rd32_some b hl; exact ⟨.sc (sext32to64 n), r, by simp [decodeFixed, e], hr⟩
  | string => simp [specFixed] at hf
  | strct => simp [specFixed] at hf
  | map => simp [specFixed] at hf
  | set => simp [specFixed] at hf
  | list => simp [specFixed] at hf

theorem decodeStr_safe (isBin nocopy : Bool) (total : Nat) (b : Bytes) :
    (decodeStr isBin nocopy total b).safe := by
  unfold decodeStr Outcome.safe
  split
  · rfl
  · split
    · rfl
    · split
      · rfl
      · split <;> rfl

theorem Ty.wire_mem (t : Ty) : t.wire ∈ Params.wireCodes := by
  unfold Ty.wire
  cases t.tt <;> simp [TT.wire, Params.wireCodes]

section
variable {P : Params}

theorem minWire_pos (h : P.valid = true) (t : Ty) : 0 < P.minWireOf t.wire := by
  simp only [Params.valid, Bool.and_eq_true] at h
  have hm := h.1.1.1.1.1.1.1.2
  simp only [Params.validMinWire, List.all_eq_true, Bool.and_eq_true, decide_eq_true_eq] at hm
  exact (hm _ (Ty.wire_mem t)).1

theorem minWire_fixed (h : P.valid = true) (t : Ty) (hf : specFixed t.tt > 0) :
    P.minWireOf t.wire = specFixed t.tt := by
  simp only [Params.valid, Bool.and_eq_true] at h
  have hm := h.1.1.1.1.1.1.2
  simp only [Params.validMinWireFixed, List.all_eq_true, Bool.or_eq_true, beq_iff_eq] at hm
  rcases hm t.tt (TT.mem_all _) with h0 | h1
  · omega
  · exact h1

theorem skipRecovers_true (h : P.valid = true) : P.skipRecovers = true := by
  simp only [Params.valid, Bool.and_eq_true] at h
  have hm := h.1.1.1.1.1.2
  simp only [Params.validSkip, Bool.and_eq_true] at hm
  exact hm.1.1

/-- the common slot decoder with the length test in front of fixed-size reads -/
theorem decodeSlot_guarded_safe (hP : P.valid = true) (S : Schema)
    (dt : Ty → Bytes → Val → Outcome (Val × Bytes)) (hdt : ∀ t b d, (dt t b d).safe)
    (t : Ty) (b : Bytes) (slot : Val) : (decodeSlot P S dt true t b slot).safe := by
  unfold decodeSlot Outcome.safe
  simp only [fixed_eq hP]
  by_cases hf : specFixed t.tt > 0
  · simp only [hf, ↓reduceIte, Bool.true_and]
    by_cases hl : b.length < specFixed t.tt
    · simp [hl, Outcome.isPanic]
    · simp only [hl, decide_false, Bool.false_eq_true, ↓reduceIte]
      obtain ⟨v, r, e, _⟩ := decodeFixed_ok t.tt b hf (by omega)
      simp [e, Outcome.isPanic]
  · simp only [hf, ↓reduceIte]
    have := hdt t.deref b (freshTarget S t slot)
    unfold Outcome.safe at this
    cases hd : dt t.deref b (freshTarget S t slot) with
    | ok a => obtain ⟨v, r⟩ := a; simp [Outcome.isPanic]
    | err e => simp [Outcome.isPanic]
    | panic p => rw [hd] at this; simp [Outcome.isPanic] at this

theorem listLoop_safe_of_safe (de : Bytes → Outcome (Val × Bytes)) (h : ∀ b, (de b).safe) :
    ∀ n b, (listLoop de n b).safe
  | 0, b => by simp [listLoop, Outcome.safe, Outcome.isPanic]
  | n + 1, b => by
    have h1 := h b
    unfold Outcome.safe at h1 ⊢
    simp only [listLoop]
    cases hd : de b with
    | ok a =>
      obtain ⟨v, r⟩ := a
      have h2 := listLoop_safe_of_safe de h n r
      unfold Outcome.safe at h2
      simp only
      cases hl : listLoop de n r with
      | ok a2 => obtain ⟨vs, r'⟩ := a2; simp [Outcome.isPanic]
      | err e => simp [Outcome.isPanic]
      | panic p => rw [hl] at h2; simp [Outcome.isPanic] at h2
    | err e => simp [Outcome.isPanic]
    | panic p => rw [hd] at h1; simp [Outcome.isPanic] at h1

/-- list of fixed-size elements: the reads are unguarded, the count check covers them -/
theorem listLoop_fixed_safe (hP : P.valid = true) (S : Schema)
    (dt : Ty → Bytes → Val → Outcome (Val × Bytes)) (et : Ty) (z : Val) (hf : specFixed et.tt > 0) :
    ∀ n b, n * specFixed et.tt ≤ b.length →
      (listLoop (fun bb => decodeSlot P S dt false et bb z) n b).safe
  | 0, b, _ => by simp [listLoop, Outcome.safe, Outcome.isPanic]
  | n + 1, b, hl => by
    have hl' : specFixed et.tt ≤ b.length := by
      have : (n + 1) * specFixed et.tt = n * specFixed et.tt + specFixed et.tt := Nat.succ_mul _ _
      omega
    obtain ⟨v, r, e, hr⟩ := decodeFixed_ok et.tt b hf hl'
    have hs : decodeSlot P S dt false et b z = .ok (wrapPtr et v, r) := by
      unfold decodeSlot
      simp [fixed_eq hP, hf, e]
    have hrest : n * specFixed et.tt ≤ r.length := by
      have : (n + 1) * specFixed et.tt = n * specFixed et.tt + specFixed et.tt := Nat.succ_mul _ _
      omega
    have ih := listLoop_fixed_safe hP S dt et z hf n r hrest
    unfold Outcome.safe at ih ⊢
    simp only [listLoop, hs]
    cases hl2 : listLoop (fun bb => decodeSlot P S dt false et bb z) n r with
    | ok a2 => obtain ⟨vs, r'⟩ := a2; simp [Outcome.isPanic]
    | err e => simp [Outcome.isPanic]
    | panic p => rw [hl2] at ih; simp [Outcome.isPanic] at ih

theorem mapLoop_safe (kt : Ty) (dk dv : Bytes → Outcome (Val × Bytes))
    (hk : ∀ b, (dk b).safe) (hv : ∀ b, (dv b).safe) :
    ∀ n b acc, (mapLoop kt dk dv n b acc).safe
  | 0, b, acc => by simp [mapLoop, Outcome.safe, Outcome.isPanic]
  | n + 1, b, acc => by
    have h1 := hk b
    unfold Outcome.safe at h1 ⊢
    simp only [mapLoop]
    cases hd : dk b with
    | ok a =>
      obtain ⟨k, r⟩ := a
      have h2 := hv r
      unfold Outcome.safe at h2
      simp only
      cases hd2 : dv r with
      | ok a2 =>
        obtain ⟨v, r1⟩ := a2
        exact mapLoop_safe kt dk dv hk hv n r1 _
      | err e => simp [Outcome.isPanic]
      | panic p => rw [hd2] at h2; simp [Outcome.isPanic] at h2
    | err e => simp [Outcome.isPanic]
    | panic p => rw [hd] at h1; simp [Outcome.isPanic] at h1

theorem decodeField_safe (hP : P.valid = true) (S : Schema) (total : Nat)
    (dt : Ty → Bytes → Val → Outcome (Val × Bytes)) (hdt : ∀ t b d, (dt t b d).safe)
    (f : Field) (b : Bytes) (slot : Val) : (decodeField P S total dt f b slot).safe := by
  unfold decodeField
  split
  · generalize (f.ty.isBinary || (P.binarySeesThroughPtr && f.ty.deref.isBinary)) = isB
    have := decodeStr_safe isB true total b
    unfold Outcome.safe at this ⊢
    cases hd : decodeStr isB true total b with
    | ok a => obtain ⟨v, r⟩ := a; simp [Outcome.isPanic]
    | err e => simp [Outcome.isPanic]
    | panic p => rw [hd] at this; simp [Outcome.isPanic] at this
  · exact decodeSlot_guarded_safe hP S dt hdt f.ty b slot

theorem fieldLoop_safe (hP : P.valid = true) (S : Schema) (sd : SDesc) (total : Nat)
    (dt : Ty → Bytes → Val → Outcome (Val × Bytes)) (hdt : ∀ t b d, (dt t b d).safe) :
    ∀ cnt b st, (fieldLoop P S sd total dt cnt b st).safe
  | 0, b, st => by simp [fieldLoop, Outcome.safe, Outcome.isPanic]
  | cnt + 1, b, st => by
    unfold Outcome.safe
    unfold fieldLoop
    cases b with
    | nil => simp [Outcome.isPanic]
    | cons tp r =>
      simp only
      split
      · simp [Outcome.isPanic]
      · split
        · simp [Outcome.isPanic]
        · rename_i fid r1 _
          split
          · -- unknown / mistyped: skip
            split
            · exact fieldLoop_safe hP S sd total dt hdt cnt _ _
            · simp [Outcome.isPanic]
            · simp [skipRecovers_true hP, Outcome.isPanic]
          · rename_i ix f _
            have hfs := decodeField_safe hP S total dt hdt f r1 (st.fs.getD ix default)
            unfold Outcome.safe at hfs
            split
            · exact fieldLoop_safe hP S sd total dt hdt cnt _ _
            · simp [Outcome.isPanic]
            · rename_i p hres
              rw [hres] at hfs; simp [Outcome.isPanic] at hfs
end

mutual
theorem decodeStruct_safe {P : Params} (hP : P.valid = true) (S : Schema) (total : Nat) :
    ∀ (fuel sid : Nat) (b : Bytes) (dest : Val), (decodeStruct P S total fuel sid b dest).safe
  | 0, _, _, _ => by simp [decodeStruct, Outcome.safe, Outcome.isPanic]
  | fuel + 1, sid, b, dest => by
    unfold Outcome.safe
    simp only [decodeStruct]
    split
    · rename_i fs h
      have := fieldLoop_safe hP S (S.get sid) total (decodeType P S total fuel)
        (fun t b d => decodeType_safe hP S total fuel t b d) (b.length + 1) b { fs := fs }
      unfold Outcome.safe at this
      split
      · split <;> simp [Outcome.isPanic]
      · simp [Outcome.isPanic]
      · rename_i p hp; rw [hp] at this; simp [Outcome.isPanic] at this
    · simp [Outcome.isPanic]
theorem decodeType_safe {P : Params} (hP : P.valid = true) (S : Schema) (total : Nat) :
    ∀ (fuel : Nat) (t : Ty) (b : Bytes) (dest : Val), (decodeType P S total fuel t b dest).safe
  | 0, _, _, _ => by simp [decodeType, Outcome.safe, Outcome.isPanic]
  | fuel + 1, t, b, dest => by
    unfold Outcome.safe
    simp only [decodeType, fixed_eq hP]
    by_cases hf : specFixed t.tt > 0
    · simp only [hf, ↓reduceIte]
      by_cases hl : b.length < specFixed t.tt
      · simp [hl, Outcome.isPanic]
      · simp only [hl, ↓reduceIte]
        obtain ⟨v, r, e, _⟩ := decodeFixed_ok t.tt b hf (by omega)
        simp [e, Outcome.isPanic]
    · simp only [hf, ↓reduceIte]
      cases t with
      | base k =>
        simp only
        split
        · exact decodeStr_safe _ _ _ _
        · simp [Outcome.isPanic]
      | map kt vt =>
        simp only
        split
        · simp [Outcome.isPanic]
        · split
          · simp [Outcome.isPanic]
          · split
            · simp [Outcome.isPanic]
            · rename_i l r2 _
              split
              · simp [Outcome.isPanic]
              · split
                · simp [Outcome.isPanic]
                · split
                  · simp [Outcome.isPanic]
                  · have hk := minWire_pos hP kt
                    have hv := minWire_pos hP vt
                    have hper : ¬ (P.minWireOf kt.wire + P.minWireOf vt.wire = 0) := by omega
                    simp only [hper, ↓reduceIte]
                    split
                    · simp [Outcome.isPanic]
                    · have := mapLoop_safe kt
                        (fun bb => decodeSlot P S (decodeType P S total fuel) true kt bb (zeroVal S S.length kt))
                        (fun bb => decodeSlot P S (decodeType P S total fuel) true vt bb (zeroVal S S.length vt))
                        (fun bb => decodeSlot_guarded_safe hP S _ (fun t b d => decodeType_safe hP S total fuel t b d) kt bb _)
                        (fun bb => decodeSlot_guarded_safe hP S _ (fun t b d => decodeType_safe hP S total fuel t b d) vt bb _)
                        l r2 []
                      unfold Outcome.safe at this
                      split
                      · simp [Outcome.isPanic]
                      · simp [Outcome.isPanic]
                      · rename_i p hp; rw [hp] at this; simp [Outcome.isPanic] at this
      | list s et =>
        simp only
        split
        · simp [Outcome.isPanic]
        · split
          · simp [Outcome.isPanic]
          · rename_i l r1 _
            split
            · simp [Outcome.isPanic]
            · split
              · simp [Outcome.isPanic]
              · split
                · simp [Outcome.isPanic]
                · split
                  · simp [Outcome.isPanic]
                  · have hper := minWire_pos hP et
                    have hper' : ¬ (P.minWireOf et.wire = 0) := by omega
                    simp only [hper', ↓reduceIte]
                    split
                    · simp [Outcome.isPanic]
                    · rename_i hcnt
                      have hloop : (listLoop (fun bb => decodeSlot P S (decodeType P S total fuel) false et bb
                          (zeroVal S S.length et)) l r1).safe := by
                        by_cases hfe : specFixed et.tt > 0
                        · apply listLoop_fixed_safe hP S _ et _ hfe
                          rw [minWire_fixed hP et hfe] at hcnt
                          have : l ≤ r1.length / specFixed et.tt := by omega
                          exact (Nat.le_div_iff_mul_le hfe).mp this
                        · apply listLoop_safe_of_safe
                          intro bb
                          unfold decodeSlot Outcome.safe
                          simp only [fixed_eq hP, hfe, ↓reduceIte]
                          have := decodeType_safe hP S total fuel et.deref bb (freshTarget S et (zeroVal S S.length et))
                          unfold Outcome.safe at this
                          cases hd : decodeType P S total fuel et.deref bb (freshTarget S et (zeroVal S S.length et)) with
                          | ok a => obtain ⟨v, r⟩ := a; simp [Outcome.isPanic]
                          | err e => simp [Outcome.isPanic]
                          | panic p => rw [hd] at this; simp [Outcome.isPanic] at this
                      unfold Outcome.safe at hloop
                      split
                      · simp [Outcome.isPanic]
                      · simp [Outcome.isPanic]
                      · rename_i p hp; rw [hp] at hloop; simp [Outcome.isPanic] at hloop
      | strct sid =>
        simp only
        exact decodeStruct_safe hP S total fuel sid b _
      | ptr e => simp [Outcome.isPanic]
end

/-- C05: `DecodeObject` (the model of `reflect.Decode`) never panics. -/
theorem decodeM_safe {P : Params} (hP : P.valid = true) (S : Schema) (sid : Nat) (b : Bytes) (dest : Val) :
    (decodeM P S sid b dest).safe := by
  have := decodeStruct_safe hP S b.length P.maxDepth sid b dest
  unfold Outcome.safe at this ⊢
  unfold decodeM
  cases hd : decodeStruct P S b.length P.maxDepth sid b dest with
  | ok a => obtain ⟨v, r⟩ := a; simp [Outcome.isPanic]
  | err e => simp [Outcome.isPanic]
  | panic p => rw [hd] at this; simp [Outcome.isPanic] at this

end Frugal
