/-
  BuildCacheLemmas.lean — the build-cache state machine (BuildCache.lean) for every history:
    * a use that fails leaves the caches exactly as they were (`useType_fail_unchanged`);
    * the caches only ever hold types all of whose dependencies resolve (`useType_inv`);
    * a use succeeds exactly when every struct reachable from the type resolves, whatever was used
      before, successfully or not (`useType_ok_iff`): history independence of accept / reject.
-/
import Frugal.BuildCache
set_option linter.unusedSimpArgs false
set_option linter.unusedVariables false
namespace Frugal

section
variable (R : List (Option SDesc))

def bres (k : BKey) : Option SDesc := R.getD k.1 none

/-- `n` is reachable from `k` through struct-typed fields of structs that resolve -/
inductive BReach : BKey → BKey → Prop
  | refl (k : BKey) : BReach k k
  | step {k m n : BKey} {sd : SDesc} : bres R k = some sd → m ∈ sd.keyRefs → BReach m n → BReach k n

/-- every struct reachable from `k` (itself included) resolves: the type is accepted -/
def BGood (k : BKey) : Prop := ∀ k', BReach R k k' → (bres R k').isSome = true

theorem good_resolves {k : BKey} (h : BGood R k) : ∃ sd, bres R k = some sd := by
  have := h k (BReach.refl k)
  cases hb : bres R k with
  | none => simp [hb] at this
  | some sd => exact ⟨sd, rfl⟩

theorem good_step {k n : BKey} {sd : SDesc} (h : BGood R k) (hk : bres R k = some sd)
    (hn : n ∈ sd.keyRefs) : BGood R n :=
  fun k' hr => h k' (BReach.step hk hn hr)

/-- a set of keys that resolve and is closed under references consists of accepted types -/
theorem good_of_closed (C : BKey → Prop)
    (hC : ∀ x, C x → ∃ sd, bres R x = some sd ∧ ∀ n ∈ sd.keyRefs, C n) :
    ∀ x, C x → BGood R x := by
  intro x hx k' hr
  induction hr with
  | refl k => obtain ⟨sd, h, _⟩ := hC k hx; simp [h]
  | step hk hm _ ih =>
    obtain ⟨sd', h', hcl⟩ := hC _ hx
    rw [hk] at h'
    cases h'
    exact ih (hcl _ hm)

theorem not_good_of_ref {k n : BKey} {sd : SDesc} (hk : bres R k = some sd) (hn : n ∈ sd.keyRefs)
    (h : ¬ BGood R n) : ¬ BGood R k := fun hg => h (good_step R hg hk hn)

/-! ### frames: what a (partial) build may change -/

/-- `s'` extends `s`: entries are only added in front, every addition to the cache is journalled,
    journalled keys were not cached before, linked nodes were not linked before -/
def Ext (s s' : BSt) : Prop :=
  ∃ a l c, s'.pf = a ++ s.pf ∧ s'.linked = l ++ s.linked ∧ s'.jc = c ++ s.jc ∧ s'.jl = l ++ s.jl ∧
    (∀ x ∈ a, x ∈ c) ∧ (∀ x ∈ c, x ∉ s.pf) ∧ (∀ x ∈ l, x ∉ s.linked)

theorem Ext.refl (s : BSt) : Ext s s := ⟨[], [], [], by simp⟩

theorem Ext.trans {s s' s'' : BSt} (h1 : Ext s s') (h2 : Ext s' s'') : Ext s s'' := by
  obtain ⟨a, l, c, e1, e2, e3, e4, p1, p2, p3⟩ := h1
  obtain ⟨a', l', c', f1, f2, f3, f4, q1, q2, q3⟩ := h2
  refine ⟨a' ++ a, l' ++ l, c' ++ c, by simp [f1, e1], by simp [f2, e2], by simp [f3, e3], by simp [f4, e4], ?_, ?_, ?_⟩
  · intro x hx
    rcases List.mem_append.1 hx with h | h
    · exact List.mem_append.2 (Or.inl (q1 x h))
    · exact List.mem_append.2 (Or.inr (p1 x h))
  · intro x hx
    rcases List.mem_append.1 hx with h | h
    · have := q2 x h
      rw [e1] at this
      exact fun hm => this (List.mem_append.2 (Or.inr hm))
    · exact p2 x h
  · intro x hx
    rcases List.mem_append.1 hx with h | h
    · have := q3 x h
      rw [e2] at this
      exact fun hm => this (List.mem_append.2 (Or.inr hm))
    · exact p3 x h

theorem Ext.pf_mono {s s' : BSt} (h : Ext s s') {x : BKey} (hx : x ∈ s.pf) : x ∈ s'.pf := by
  obtain ⟨a, _, _, e1, _⟩ := h
  rw [e1]; exact List.mem_append.2 (Or.inr hx)

theorem Ext.linked_mono {s s' : BSt} (h : Ext s s') {x : BKey} (hx : x ∈ s.linked) : x ∈ s'.linked := by
  obtain ⟨_, l, _, _, e2, _⟩ := h
  rw [e2]; exact List.mem_append.2 (Or.inr hx)

/-- caching `k` (not cached before) and journalling it -/
theorem Ext.cache {s : BSt} {k : BKey} (hk : k ∉ s.pf) :
    Ext s { s with pf := k :: s.pf, jc := k :: s.jc } :=
  ⟨[k], [], [k], by simp, by simp, by simp, by simp, by simp, by simpa using hk, by simp⟩

/-- linking node `n` (not linked when the frame started) and journalling it -/
theorem Ext.link_after {s s1 : BSt} {n : BKey} (h : Ext s s1) (hn : n ∉ s.linked) :
    Ext s { s1 with linked := n :: s1.linked, jl := n :: s1.jl } := by
  obtain ⟨a, l, c, e1, e2, e3, e4, p1, p2, p3⟩ := h
  refine ⟨a, n :: l, c, e1, by simp [e2], e3, by simp [e4], p1, p2, ?_⟩
  intro x hx
  rcases List.mem_cons.1 hx with rfl | hx
  · exact hn
  · exact p3 x hx

/-- `delete(prefetchStructDescCache, t)` after a nested failure keeps the frame -/
theorem Ext.erase {s s2 : BSt} {k : BKey} (h : Ext { s with pf := k :: s.pf, jc := k :: s.jc } s2)
    (hk : k ∉ s.pf) : Ext s { s2 with pf := s2.pf.erase k } := by
  obtain ⟨a, l, c, e1, e2, e3, e4, p1, p2, p3⟩ := h
  simp only at e1 e2 e3 e4 p2 p3
  by_cases hka : k ∈ a
  · refine ⟨a.erase k ++ [k], l, c ++ [k], ?_, e2, by simp [e3], e4, ?_, ?_, p3⟩
    · simp only [e1]
      rw [List.erase_append_left _ hka]
      simp
    · intro x hx
      rcases List.mem_append.1 hx with h | h
      · exact List.mem_append.2 (Or.inl (p1 x (List.mem_of_mem_erase h)))
      · exact List.mem_append.2 (Or.inr h)
    · intro x hx
      rcases List.mem_append.1 hx with h | h
      · exact fun hm => p2 x h (List.mem_cons_of_mem _ hm)
      · simp only [List.mem_singleton] at h; subst h; exact hk
  · refine ⟨a, l, c ++ [k], ?_, e2, by simp [e3], e4, ?_, ?_, p3⟩
    · simp only [e1]
      rw [List.erase_append_right _ hka]
      simp
    · intro x hx; exact List.mem_append.2 (Or.inl (p1 x hx))
    · intro x hx
      rcases List.mem_append.1 hx with h | h
      · exact fun hm => p2 x h (List.mem_cons_of_mem _ hm)
      · simp only [List.mem_singleton] at h; subst h; exact hk

/-! ### what a successful (partial) build establishes -/

/-- `s'` extends `s` and everything new is complete: a newly cached key resolves and all its struct
    nodes are linked; a newly linked node is cached -/
def BuildOK (s s' : BSt) : Prop :=
  Ext s s' ∧
  (∀ x ∈ s'.pf, x ∈ s.pf ∨ ∃ sd, bres R x = some sd ∧ ∀ n ∈ sd.keyRefs, n ∈ s'.linked) ∧
  (∀ n ∈ s'.linked, n ∈ s.linked ∨ n ∈ s'.pf)

theorem BuildOK.refl (s : BSt) : BuildOK R s s :=
  ⟨Ext.refl s, fun x hx => Or.inl hx, fun n hn => Or.inl hn⟩

theorem BuildOK.trans {s s' s'' : BSt} (h1 : BuildOK R s s') (h2 : BuildOK R s' s'') : BuildOK R s s'' := by
  refine ⟨h1.1.trans h2.1, ?_, ?_⟩
  · intro x hx
    rcases h2.2.1 x hx with h | h
    · rcases h1.2.1 x h with h' | ⟨sd, hs, hcl⟩
      · exact Or.inl h'
      · exact Or.inr ⟨sd, hs, fun n hn => h2.1.linked_mono (hcl n hn)⟩
    · exact Or.inr h
  · intro n hn
    rcases h2.2.2 n hn with h | h
    · rcases h1.2.2 n h with h' | h'
      · exact Or.inl h'
      · exact Or.inr (h2.1.pf_mono h')
    · exact Or.inr h

/-- linking a node that is cached -/
theorem BuildOK.link_after {s s1 : BSt} {n : BKey} (h : BuildOK R s s1) (hn : n ∉ s.linked) (hp : n ∈ s1.pf) :
    BuildOK R s { s1 with linked := n :: s1.linked, jl := n :: s1.jl } := by
  refine ⟨h.1.link_after hn, ?_, ?_⟩
  · intro x hx
    rcases h.2.1 x hx with h' | ⟨sd, hs, hcl⟩
    · exact Or.inl h'
    · exact Or.inr ⟨sd, hs, fun m hm => List.mem_cons_of_mem _ (hcl m hm)⟩
  · intro m hm
    simp only [List.mem_cons] at hm
    rcases hm with rfl | hm
    · exact Or.inr hp
    · exact h.2.2 m hm

/-! ### the loop over a descriptor's struct nodes -/

theorem fetchAll_spec (b : BKey → BSt → Bool × BSt)
    (hb : ∀ n s s', (b n s = (true, s') → BuildOK R s s' ∧ n ∈ s'.pf) ∧ (b n s = (false, s') → Ext s s')) :
    ∀ (refs : List BKey) (s s' : BSt),
      (fetchAll b refs s = (true, s') → BuildOK R s s' ∧ ∀ n ∈ refs, n ∈ s'.linked) ∧
      (fetchAll b refs s = (false, s') → Ext s s')
  | [], s, s' => by
    simp only [fetchAll, Prod.mk.injEq, true_and, Bool.true_eq_false, false_and, false_imp_iff, and_true]
    rintro rfl
    exact ⟨BuildOK.refl R s, by simp⟩
  | n :: r, s, s' => by
    rw [fetchAll]
    by_cases hl : s.linked.contains n = true
    · simp only [hl, ↓reduceIte]
      have ih := fetchAll_spec b hb r s s'
      refine ⟨fun h => ?_, ih.2⟩
      obtain ⟨h1, h2⟩ := ih.1 h
      refine ⟨h1, ?_⟩
      intro m hm
      rcases List.mem_cons.1 hm with rfl | hm
      · exact h1.1.linked_mono (by simpa using hl)
      · exact h2 m hm
    · simp only [hl, Bool.false_eq_true, ↓reduceIte]
      have hnl : n ∉ s.linked := by simpa using hl
      cases hbn : b n s with
      | mk ok s1 =>
        cases ok with
        | false =>
          simp only [Prod.mk.injEq, Bool.false_eq_true, false_and, false_imp_iff, true_and]
          rintro rfl
          exact (hb n s s1).2 hbn
        | true =>
          simp only []
          obtain ⟨hok, hnp⟩ := (hb n s s1).1 hbn
          have hstep := BuildOK.link_after R hok hnl hnp
          have ih := fetchAll_spec b hb r { s1 with linked := n :: s1.linked, jl := n :: s1.jl } s'
          refine ⟨fun h => ?_, fun h => hstep.1.trans (ih.2 h)⟩
          obtain ⟨h1, h2⟩ := ih.1 h
          refine ⟨hstep.trans R h1, ?_⟩
          intro m hm
          rcases List.mem_cons.1 hm with rfl | hm
          · exact h1.1.linked_mono (List.mem_cons_self ..)
          · exact h2 m hm

/-! ### the builder -/

theorem build_spec : ∀ (fuel : Nat) (k : BKey) (s s' : BSt),
    (build R fuel k s = (true, s') → BuildOK R s s' ∧ k ∈ s'.pf) ∧
    (build R fuel k s = (false, s') → Ext s s')
  | 0, k, s, s' => by
    simp only [build, Prod.mk.injEq, Bool.false_eq_true, false_and, false_imp_iff, true_and]
    rintro rfl
    exact Ext.refl s
  | fuel + 1, k, s, s' => by
    rw [build]
    by_cases hc : s.pf.contains k = true
    · simp only [hc, ↓reduceIte, Prod.mk.injEq, true_and, Bool.true_eq_false, false_and, false_imp_iff, and_true]
      rintro rfl
      exact ⟨BuildOK.refl R s, by simpa using hc⟩
    · simp only [hc, Bool.false_eq_true, ↓reduceIte]
      have hk : k ∉ s.pf := by simpa using hc
      cases hr : R.getD k.1 none with
      | none =>
        simp only [Prod.mk.injEq, Bool.false_eq_true, false_and, false_imp_iff, true_and]
        rintro rfl
        exact Ext.refl s
      | some sd =>
        simp only []
        have hf := fetchAll_spec R (build R fuel) (fun n s s' => build_spec fuel n s s') sd.keyRefs
          { s with pf := k :: s.pf, jc := k :: s.jc }
        cases hfa : fetchAll (build R fuel) sd.keyRefs { s with pf := k :: s.pf, jc := k :: s.jc } with
        | mk ok s2 =>
          cases ok with
          | true =>
            simp only [Prod.mk.injEq, true_and, Bool.true_eq_false, false_and, false_imp_iff, and_true]
            rintro rfl
            obtain ⟨h1, h2⟩ := (hf s2).1 hfa
            have hkin : k ∈ s2.pf := h1.1.pf_mono (List.mem_cons_self ..)
            refine ⟨⟨(Ext.cache hk).trans h1.1, ?_, h1.2.2⟩, hkin⟩
            intro x hx
            rcases h1.2.1 x hx with h | h
            · rcases List.mem_cons.1 h with rfl | h
              · exact Or.inr ⟨sd, hr, h2⟩
              · exact Or.inl h
            · exact Or.inr h
          | false =>
            simp only [Prod.mk.injEq, Bool.false_eq_true, false_and, false_imp_iff, true_and]
            rintro rfl
            exact Ext.erase ((hf s2).2 hfa) hk


/-! ### a failed use changes nothing -/

theorem filter_restore (a p c : List BKey) (h1 : ∀ x ∈ a, x ∈ c) (h2 : ∀ x ∈ c, x ∉ p) :
    (a ++ p).filter (fun k => !c.contains k) = p := by
  rw [List.filter_append]
  have e1 : a.filter (fun k => !c.contains k) = [] := by
    apply List.filter_eq_nil_iff.2
    intro x hx
    simp [h1 x hx]
  have e2 : p.filter (fun k => !c.contains k) = p := by
    apply List.filter_eq_self.2
    intro x hx
    have : x ∉ c := fun hc => h2 x hc hx
    simpa using this
  rw [e1, e2]
  rfl

/-- **C07 / C13**: a use that fails leaves all three caches exactly as they were -/
theorem useType_fail_unchanged (sid : Nat) (st : CacheSt) (h : (useType R sid st).1 = false) :
    (useType R sid st).2 = st := by
  unfold useType at h ⊢
  by_cases hp : st.pub.contains sid = true
  · rw [if_pos hp] at h
    simp at h
  · simp only [hp, Bool.false_eq_true, ↓reduceIte] at h ⊢
    cases hb : build R (buildFuel R) (sid, false) { pf := st.pf, linked := st.linked } with
    | mk ok s =>
      cases ok with
      | true => simp [hb] at h
      | false =>
        simp only []
        obtain ⟨a, l, c, e1, e2, e3, e4, p1, p2, p3⟩ := (build_spec R _ _ _ s).2 hb
        simp only [List.append_nil] at e1 e2 e3 e4 p2 p3
        rw [e1, e2, e3, e4, filter_restore a st.pf c p1 p2,
          filter_restore l st.linked l (fun x hx => hx) p3]

/-! ### the caches only hold accepted types -/

structure CInv (st : CacheSt) : Prop where
  pf : ∀ x ∈ st.pf, BGood R x
  linked : ∀ n ∈ st.linked, BGood R n
  pub : ∀ sid ∈ st.pub, BGood R (sid, false)

theorem cinv_empty : CInv R {} := ⟨by simp, by simp, by simp⟩

theorem buildOK_good {s0 s : BSt} (h : BuildOK R s0 s) (hpf : ∀ x ∈ s0.pf, BGood R x)
    (hl : ∀ n ∈ s0.linked, BGood R n) : (∀ x ∈ s.pf, BGood R x) ∧ (∀ n ∈ s.linked, BGood R n) := by
  have key : ∀ x, (x ∈ s.pf ∨ BGood R x) → BGood R x := by
    apply good_of_closed R (fun x => x ∈ s.pf ∨ BGood R x)
    intro x hx
    have goodCase : BGood R x → ∃ sd, bres R x = some sd ∧ ∀ n ∈ sd.keyRefs, n ∈ s.pf ∨ BGood R n := by
      intro hg
      obtain ⟨sd, hsd⟩ := good_resolves R hg
      exact ⟨sd, hsd, fun n hn => Or.inr (good_step R hg hsd hn)⟩
    rcases hx with hx | hx
    · rcases h.2.1 x hx with h0 | ⟨sd, hsd, hcl⟩
      · exact goodCase (hpf x h0)
      · refine ⟨sd, hsd, fun n hn => ?_⟩
        rcases h.2.2 n (hcl n hn) with h1 | h1
        · exact Or.inr (hl n h1)
        · exact Or.inl h1
    · exact goodCase hx
  refine ⟨fun x hx => key x (Or.inl hx), fun n hn => ?_⟩
  rcases h.2.2 n hn with h1 | h1
  · exact hl n h1
  · exact key n (Or.inl h1)

/-- the invariant is preserved by every use, and a successful use is a use of an accepted type -/
theorem useType_inv (sid : Nat) (st : CacheSt) (hinv : CInv R st) :
    CInv R (useType R sid st).2 ∧ ((useType R sid st).1 = true → BGood R (sid, false)) := by
  by_cases hok : (useType R sid st).1 = true
  · unfold useType at hok ⊢
    by_cases hp : st.pub.contains sid = true
    · simp only [hp, ↓reduceIte]
      exact ⟨hinv, fun _ => hinv.pub sid (by simpa using hp)⟩
    · simp only [hp, Bool.false_eq_true, ↓reduceIte] at hok ⊢
      cases hb : build R (buildFuel R) (sid, false) { pf := st.pf, linked := st.linked } with
      | mk ok s =>
        cases ok with
        | false => simp [hb] at hok
        | true =>
          simp only []
          obtain ⟨hbo, hin⟩ := (build_spec R _ _ _ s).1 hb
          obtain ⟨g1, g2⟩ := buildOK_good R hbo hinv.pf hinv.linked
          refine ⟨⟨g1, g2, ?_⟩, fun _ => g1 _ hin⟩
          intro x hx
          rcases List.mem_cons.1 hx with rfl | hx
          · exact g1 _ hin
          · exact hinv.pub x hx
  · have hf : (useType R sid st).1 = false := by simpa using hok
    rw [useType_fail_unchanged R sid st hf]
    exact ⟨hinv, fun h => absurd h hok⟩

/-- … after any history of uses, successful or not -/
theorem useAll_inv : ∀ (hist : List Nat) (st : CacheSt), CInv R st → CInv R (useAll R hist st)
  | [], st, h => h
  | sid :: r, st, h => useAll_inv r _ (useType_inv R sid st h).1

/-! ### the budget is never exhausted: a failing build has found a struct that does not resolve -/

def allKeys : List BKey := (List.range R.length).flatMap fun i => [(i, false), (i, true)]

def remaining (s : BSt) : Nat := ((allKeys R).filter fun x => !s.pf.contains x).length

theorem mem_allKeys {k : BKey} (h : k.1 < R.length) : k ∈ allKeys R := by
  obtain ⟨i, b⟩ := k
  simp only [allKeys, List.mem_flatMap, List.mem_range, List.mem_cons, Prod.mk.injEq, List.not_mem_nil, or_false]
  exact ⟨i, h, by cases b <;> simp⟩

theorem allKeys_length : (allKeys R).length = 2 * R.length := by
  simp only [allKeys]
  induction R.length with
  | zero => simp
  | succ n ih =>
    rw [List.range_succ, List.flatMap_append, List.length_append, ih]
    simp
    omega

theorem remaining_le (s : BSt) : remaining R s ≤ 2 * R.length := by
  unfold remaining
  have := List.length_filter_le (fun x => !s.pf.contains x) (allKeys R)
  rw [allKeys_length] at this
  exact this

theorem filter_length_lt (L : List BKey) (p q : BKey → Bool) (k : BKey) (hk : k ∈ L) (hp : p k = true)
    (hq : q k = false) (himp : ∀ x, q x = true → p x = true) :
    (L.filter q).length < (L.filter p).length := by
  induction L with
  | nil => cases hk
  | cons x r ih =>
    have hle : (r.filter q).length ≤ (r.filter p).length := by
      clear ih hk
      induction r with
      | nil => simp
      | cons y r ih =>
        simp only [List.filter_cons]
        cases hqy : q y with
        | true => simp [himp y hqy]; exact ih
        | false =>
          cases hpy : p y with
          | true => simp; omega
          | false => simpa using ih
    rcases List.mem_cons.1 hk with rfl | hk
    · simp only [List.filter_cons, hp, hq, ↓reduceIte, Bool.false_eq_true, List.length_cons]
      omega
    · have := ih hk
      simp only [List.filter_cons]
      cases hqx : q x with
      | true => simp [himp x hqx]; exact this
      | false =>
        cases hpx : p x with
        | true => simp; omega
        | false => simpa using this

theorem remaining_cache (s : BSt) (k : BKey) (hk : k ∉ s.pf) (hR : k.1 < R.length) :
    remaining R { s with pf := k :: s.pf, jc := k :: s.jc } < remaining R s := by
  unfold remaining
  apply filter_length_lt (allKeys R) _ _ k (mem_allKeys R hR)
  · simpa using hk
  · simp
  · intro x hx
    simp only [List.contains_cons, Bool.not_eq_true', Bool.or_eq_false_iff] at hx
    simpa using hx.2

theorem remaining_mono {s s' : BSt} (h : Ext s s') : remaining R s' ≤ remaining R s := by
  unfold remaining
  obtain ⟨a, _, _, e1, _⟩ := h
  rw [e1]
  generalize allKeys R = L
  induction L with
  | nil => simp
  | cons x r ih =>
    simp only [List.filter_cons]
    cases h1 : (a ++ s.pf).contains x <;> cases h2 : s.pf.contains x <;>
      simp only [Bool.not_true, Bool.not_false, Bool.false_eq_true, ↓reduceIte, List.length_cons]
    · omega
    · exfalso
      have hx : x ∈ s.pf := by simpa using h2
      have : (a ++ s.pf).contains x = true := by simp [hx]
      rw [h1] at this
      cases this
    · omega
    · exact ih

theorem fetchAll_complete (fuel : Nat) (b : BKey → BSt → Bool × BSt)
    (hspec : ∀ n s s', (b n s = (true, s') → BuildOK R s s' ∧ n ∈ s'.pf) ∧ (b n s = (false, s') → Ext s s'))
    (hb : ∀ n s s', remaining R s < fuel → b n s = (false, s') → ¬ BGood R n) :
    ∀ (refs : List BKey) (s s' : BSt), remaining R s < fuel → fetchAll b refs s = (false, s') →
      ∃ n ∈ refs, ¬ BGood R n
  | [], s, s', _, h => by simp [fetchAll] at h
  | n :: r, s, s', hrem, h => by
    rw [fetchAll] at h
    by_cases hl : s.linked.contains n = true
    · simp only [hl, ↓reduceIte] at h
      obtain ⟨m, hm, hg⟩ := fetchAll_complete fuel b hspec hb r s s' hrem h
      exact ⟨m, List.mem_cons_of_mem _ hm, hg⟩
    · simp only [hl, Bool.false_eq_true, ↓reduceIte] at h
      cases hbn : b n s with
      | mk ok s1 =>
        cases ok with
        | false => exact ⟨n, List.mem_cons_self .., hb n s s1 hrem hbn⟩
        | true =>
          simp only [hbn] at h
          have hm := remaining_mono R ((hspec n s s1).1 hbn).1.1
          have hrem' : remaining R { s1 with linked := n :: s1.linked, jl := n :: s1.jl } < fuel := by
            have : remaining R { s1 with linked := n :: s1.linked, jl := n :: s1.jl } = remaining R s1 := rfl
            omega
          obtain ⟨m, hmm, hg⟩ := fetchAll_complete fuel b hspec hb r _ s' hrem' h
          exact ⟨m, List.mem_cons_of_mem _ hmm, hg⟩

theorem build_complete : ∀ (fuel : Nat) (k : BKey) (s s' : BSt), remaining R s < fuel →
    build R fuel k s = (false, s') → ¬ BGood R k
  | 0, _, _, _, hrem, _ => by omega
  | fuel + 1, k, s, s', hrem, h => by
    rw [build] at h
    by_cases hc : s.pf.contains k = true
    · rw [if_pos hc] at h
      simp at h
    · simp only [hc, Bool.false_eq_true, ↓reduceIte] at h
      have hk : k ∉ s.pf := by simpa using hc
      cases hr : R.getD k.1 none with
      | none =>
        intro hg
        obtain ⟨sd, hsd⟩ := good_resolves R hg
        unfold bres at hsd
        rw [hr] at hsd
        cases hsd
      | some sd =>
        simp only [hr] at h
        have hlt : k.1 < R.length := by
          by_cases hh : k.1 < R.length
          · exact hh
          · simp [List.getD_eq_getElem?_getD, List.getElem?_eq_none (by omega : R.length ≤ k.1)] at hr
        have hrem1 := remaining_cache R s k hk hlt
        cases hfa : fetchAll (build R fuel) sd.keyRefs { s with pf := k :: s.pf, jc := k :: s.jc } with
        | mk ok s2 =>
          cases ok with
          | true => simp [hfa] at h
          | false =>
            obtain ⟨n, hn, hg⟩ := fetchAll_complete R fuel (build R fuel)
              (fun n s s' => build_spec R fuel n s s')
              (fun n s s' hrem hb => build_complete fuel n s s' hrem hb) sd.keyRefs _ s2 (by omega) hfa
            exact not_good_of_ref R hr hn hg

/-- **C07 / C13**: whatever was used before — successfully or not, this type or others, directly or
    nested — a use succeeds exactly when every struct reachable from the type resolves -/
theorem useType_ok_iff (sid : Nat) (st : CacheSt) (hinv : CInv R st) :
    (useType R sid st).1 = true ↔ BGood R (sid, false) := by
  refine ⟨(useType_inv R sid st hinv).2, fun hg => ?_⟩
  cases hres : (useType R sid st).1 with
  | true => rfl
  | false =>
    exfalso
    unfold useType at hres
    by_cases hp : st.pub.contains sid = true
    · rw [if_pos hp] at hres
      simp at hres
    · simp only [hp, Bool.false_eq_true, ↓reduceIte] at hres
      cases hb : build R (buildFuel R) (sid, false) { pf := st.pf, linked := st.linked } with
      | mk ok s =>
        cases ok with
        | true => simp [hb] at hres
        | false =>
          have hrem : remaining R { pf := st.pf, linked := st.linked } < buildFuel R := by
            have := remaining_le R { pf := st.pf, linked := st.linked }
            unfold buildFuel
            omega
          exact build_complete R _ _ _ s hrem hb hg

/-- the outcome of a use after any history equals its outcome in a fresh process -/
theorem use_history_independent (hist : List Nat) (sid : Nat) :
    (useType R sid (useAll R hist {})).1 = (useType R sid {}).1 := by
  have h1 := useType_ok_iff R sid _ (useAll_inv R hist {} (cinv_empty R))
  have h2 := useType_ok_iff R sid {} (cinv_empty R)
  cases ha : (useType R sid (useAll R hist {})).1 <;> cases hb : (useType R sid {}).1 <;> simp_all

end
end Frugal
